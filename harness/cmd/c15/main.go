// c15 drives a real wallet.Wallet over a simulated backend (simchain) through
// random evolutions of the best chain - extensions, reorganisations with
// wallet transactions in the replaced blocks, repeated / stale / future
// disconnect notifications, offline periods followed by the real start-up
// synchronisation - and reports, after every notification, what the wallet
// says: synced-to stamp, remembered block hashes, confirmed and unconfirmed
// transaction records.
//
// Two ways of delivering a notification, chosen per case (input field
// "dispatch"): through the exported wrappers of the handlers
// (wallet/verif_hooks.go), or through the wallet's own goroutine
// handleChainNotifications (wallet/chainntfns.go): the body of its switch is
// inline, so there is nothing a hook could call; the notification is sent on
// the backend's (unbuffered) notification channel, followed by a value of a
// type the switch does not know - the second send completes when the
// goroutine is back at its select, i.e. when the first notification has been
// processed.  chain.FilteredBlockConnected, *chain.RescanProgress and
// *chain.RescanFinished go that way too.
//
// Start-up (op "offline") always runs the real thing: SynchronizeRPC,
// chain.ClientConnected, birthdaySanityCheck, waitForSync / syncWithChain.
// Every attempt of waitForSync begins with chainClient.BackEnd(); the backend
// wrapper stops there, so the harness knows when an attempt has failed (the
// next one begins) and can look at the wallet / let the backend catch up
// before the next attempt runs.
//
// One JSON object per case: {"in":…, "obs":…, "oracle":[…], "tags":[…], "site":"…"}.
// The oracle states property C15 directly on the observations.
package main

import (
	"bytes"
	"crypto/sha256"
	"encoding/binary"
	"encoding/json"
	"errors"
	"flag"
	"fmt"
	"math"
	"sort"
	"sync"
	"time"

	"github.com/btcsuite/btcd/btcutil"
	"github.com/btcsuite/btcd/chaincfg"
	"github.com/btcsuite/btcd/chaincfg/chainhash"
	"github.com/btcsuite/btcd/txscript"
	"github.com/btcsuite/btcd/wire"
	"github.com/btcsuite/btcwallet/chain"
	"github.com/btcsuite/btcwallet/waddrmgr"
	"github.com/btcsuite/btcwallet/wallet"
	"github.com/btcsuite/btcwallet/walletdb"
	"github.com/btcsuite/btcwallet/wtxmgr"

	"verifharness/internal/core"
	"verifharness/internal/gen"
	"verifharness/internal/simchain"
	"verifharness/internal/walletenv"
)

// ---------------------------------------------------------------- input

// blockSpec: wallet transactions of a new block. Pre are notified before the
// block-connected notification (btcd order), Post after it (bitcoind order).
// CB: the block's coinbase pays the wallet ("pre"/"post" = where it is notified).
//
// Filt ("pre"/"post"): all wallet transactions of the block are delivered in
// ONE chain.FilteredBlockConnected before / after the block-connected
// notification instead of one chain.RelevantTx each.
type blockSpec struct {
	Pre  []int  `json:"pre,omitempty"`
	Post []int  `json:"post,omitempty"`
	CB   string `json:"cb,omitempty"`
	Filt string `json:"filt,omitempty"`
}

// staleSpec: an extra notification inserted before position At of the
// notification stream of an evolution.
//
//	repeat: BlockDisconnected for the Arg-th block disconnected earlier
//	future: BlockDisconnected for height tip+1+Arg%3 with an unknown hash
//	wrong : BlockDisconnected for height tip-Arg%9 (>= 0) with an unknown hash
//	gap   : BlockConnected for height (highest tip so far)+2+Arg%3 (unknown block)
//	rescan_progress / rescan_finished (dispatch only): *chain.RescanProgress /
//	        *chain.RescanFinished naming height tip-Arg%4 (>= 0) of the chain
//	        delivered so far (catchUpHashes has nothing to do)
type staleSpec struct {
	At   int    `json:"at"`
	Kind string `json:"kind"`
	Arg  int    `json:"arg"`
}

type evoSpec struct {
	Depth  int         `json:"depth"`
	Blocks []blockSpec `json:"blocks,omitempty"`
	Bulk   int         `json:"bulk,omitempty"` // that many further empty blocks
	// Shorter (offline evolutions): allow the new branch to be shorter than
	// the replaced one (the backend is then lower than the wallet).
	Shorter bool `json:"shorter,omitempty"`
}

// opSpec.Op: "evolve" (online: notifications are delivered), "unmined"
// (RelevantTx without block), "birthday" (store the block at Height of the
// current chain as birthday block, as the migration of an old wallet does:
// enables the predecessor check of PutSyncedTo), "offline" (reopen the wallet,
// let the chain evolve unobserved, then run the real start-up synchronisation).
//
// offline: First = do not pin a birthday block beforehand: the start-up is
// the wallet's first synchronisation (syncWithChain with a nil birthday
// stamp); honoured only while the wallet is as created.  Then = evolutions of
// the backend applied one after each FAILED start-up attempt (the backend
// catches up).  NotifyFail = that many NotifyBlocks calls return an error
// (hand-written replays only).
type opSpec struct {
	Op         string      `json:"op"`
	Evo        *evoSpec    `json:"evo,omitempty"`
	Stale      []staleSpec `json:"stale,omitempty"`
	Tx         int         `json:"tx,omitempty"`
	Evos       []evoSpec   `json:"evos,omitempty"`
	Height     int         `json:"height,omitempty"`
	First      bool        `json:"first,omitempty"`
	Then       []evoSpec   `json:"then,omitempty"`
	NotifyFail int         `json:"notify_fail,omitempty"`
}

// Birthday: the wallet's birthday in seconds after the simulated chain's
// genesis block (block h is 600*h seconds after it); 0 = long before it.
//
// RecoveryWindow: the wallet is (re)opened with that address recovery window
// for every start-up: syncWithChain then runs (*Wallet).recovery - which
// scans the backend's blocks above the synced-to block and moves synced-to
// along - BEFORE its rollback loop.
type c15Input struct {
	WalletSeed     int64    `json:"wallet_seed"`
	Dispatch       bool     `json:"dispatch,omitempty"`
	Birthday       int64    `json:"birthday,omitempty"`
	RecoveryWindow uint32   `json:"recovery_window,omitempty"`
	Ops            []opSpec `json:"ops"`
}

// ---------------------------------------------------------------- output

type metaJ struct {
	H    int64 `json:"h"`
	Hash int64 `json:"hash"`
	T    int64 `json:"t"`
}

// event: what was done (model operation) and what the wallet reported after it.
type event struct {
	K       string     `json:"k"` // connect|disconnect|tx|filtered|startup|rescan_progress|rescan_finished|reopen|set_synced|set_birthday
	B       *metaJ     `json:"b,omitempty"`
	Tx      int64      `json:"tx,omitempty"`
	CB      bool       `json:"cb,omitempty"`
	Txs     [][2]int64 `json:"txs,omitempty"`     // filtered: (txid, coinbase)
	Backend [][4]int64 `json:"backend,omitempty"` // startup / rescan_*: best chain as runs (n, id0, t0, dt)
	Height  int64      `json:"height,omitempty"`
	Flag    bool       `json:"flag,omitempty"`
	First   bool       `json:"first,omitempty"` // startup: no birthday block was stored when the backend connected
	Loc     *metaJ     `json:"loc,omitempty"`   // startup with First: what locateBirthdayBlock returns on Backend
	Recover bool       `json:"recover,omitempty"` // startup: the wallet has a recovery window
	RTxs    []rtxJ     `json:"rtxs,omitempty"`    // startup with Recover: the wallet transactions in Backend's blocks, in chain order
	Site    string     `json:"site"`
	Obs     *obsJ      `json:"obs,omitempty"`
}

// Err: a start-up attempt did not reach the rescan request / the hook's
// walletdb.Update returned an error.  ErrUnobserved: the notification went
// through the dispatch goroutine, which only logs a handler's error.
type rtxJ struct {
	Tx int64 `json:"tx"`
	CB bool  `json:"cb,omitempty"`
	B  metaJ `json:"b"`
}

type obsJ struct {
	Err           bool       `json:"err"`
	ErrUnobserved bool       `json:"err_unobserved,omitempty"`
	ErrText       string     `json:"err_text,omitempty"`
	Synced        metaJ      `json:"synced"`
	ChainSynced   bool       `json:"chain_synced"`
	Bday          *metaJ     `json:"bday,omitempty"` // Manager.BirthdayBlock (nil = not set)
	Probes  [][2]int64 `json:"probes"` // height, hash id (-1 = not stored)
	Mined   [][3]int64 `json:"mined"`  // txid, height, hash id
	Unmined []int64    `json:"unmined"`
	ObsErr  string     `json:"obs_err,omitempty"`
}

type c15Obs struct {
	Init    metaJ      `json:"init"`
	Headers [][4]int64 `json:"headers"`
	Events  []event    `json:"events"`
	Detail  string     `json:"detail,omitempty"`
}

type c15Case struct {
	In     c15Input `json:"in"`
	Obs    c15Obs   `json:"obs"`
	Oracle []string `json:"oracle"`
	Tags   []string `json:"tags"`
	Site   string   `json:"site"`
}

// ---------------------------------------------------------------- backend wrapper

// gated wraps the simulated chain: notifications pass through a forwarder
// that records them; BackEnd (called at the beginning of every syncWithChain
// attempt, and nowhere else) and NotifyBlocks (called by syncWithChain right
// after its rollback transaction) stop until the harness has looked at the
// wallet.
type gated struct {
	*simchain.Chain
	out        chan interface{}
	done       chan struct{}
	gate       chan chan struct{}
	attempts   chan chan struct{}
	notifyFail int // NotifyBlocks calls that still fail (read and written by the wallet's goroutine only)
	mu         sync.Mutex
	seen       []interface{}
	once       sync.Once
	fwdDone    chan struct{} // closed when the forwarder has ended
}

// barrier is a notification the dispatch switch has no case for.
type barrier struct{}

func newGated(c *simchain.Chain) *gated {
	g := &gated{Chain: c, out: make(chan interface{}), done: make(chan struct{}), gate: make(chan chan struct{}),
		attempts: make(chan chan struct{}), fwdDone: make(chan struct{})}
	go func() {
		defer close(g.fwdDone)
		for {
			select {
			case n := <-c.Notifications():
				g.mu.Lock()
				g.seen = append(g.seen, n)
				g.mu.Unlock()
				select {
				case g.out <- n:
				case <-g.done:
					return
				}
			case <-g.done:
				return
			}
		}
	}()
	return g
}

func (g *gated) Notifications() <-chan interface{} { return g.out }

func (g *gated) NotifyBlocks() error {
	rel := make(chan struct{})
	select {
	case g.gate <- rel:
		<-rel
	case <-g.done:
	}
	if g.notifyFail > 0 {
		g.notifyFail--
		return errors.New("simulated backend: notifyblocks failed")
	}
	return nil
}

func (g *gated) BackEnd() string {
	rel := make(chan struct{})
	select {
	case g.attempts <- rel:
		select {
		case <-rel:
		case <-g.done:
		}
	case <-g.done:
	}
	return g.Chain.BackEnd()
}

// deliver sends one notification to the wallet's handleChainNotifications
// goroutine and returns when the goroutine has processed it.
func (g *gated) deliver(n interface{}) error {
	for _, x := range []interface{}{n, barrier{}} {
		select {
		case g.out <- x:
		case <-time.After(30 * time.Second):
			return fmt.Errorf("the notification goroutine does not take a %T within 30s", x)
		}
	}
	return nil
}

// stop ends the forwarder (and waits for it: it must not take a notification
// meant for its successor) and releases whoever waits in a gate.
func (g *gated) stop() {
	g.once.Do(func() { close(g.done) })
	<-g.fwdDone
}

func (g *gated) taken() []interface{} {
	g.mu.Lock()
	defer g.mu.Unlock()
	s := g.seen
	g.seen = nil
	return s
}

// ---------------------------------------------------------------- runner

const (
	fakeBase    = 1000000
	unknownBase = 2000000
	cbTxBase    = 100000
)

type runner struct {
	in      c15Input
	env     *walletenv.Env
	sc      *simchain.Chain
	g       *gated
	params  *chaincfg.Params
	addrs   []btcutil.Address
	hashID  map[chainhash.Hash]int64
	nextID  int64
	nextUnk int64
	hdrs    [][2]int64 // id, time (creation order)
	txs     map[int]*wire.MsgTx
	txID    map[chainhash.Hash]int64
	nextCB  int
	fakeN   int64

	notified []*simchain.Block // the chain as the notifications delivered so far describe it
	pending  *simchain.Block   // block whose transactions are being notified before its connect
	onBest   map[int]int32     // wallet tx id -> height on the current best chain
	stale    []wtxmgr.BlockMeta
	maxTip   int32
	birthday bool   // a birthday block is stored
	bdayH    int32  // its height
	follow   int32  // lowest height above genesis whose hash the wallet ever stored (0: it follows from genesis)
	pristine bool   // the wallet is as created (nothing delivered, no birthday block)
	stuck    bool   // a start-up could not complete: the case ends
	dispErr  string // the dispatch goroutine stopped taking notifications

	events []event
	tags   map[string]bool
	oracle []string
	site   string
	detail string
	done   int // ops executed
}

func (r *runner) tag(t string) { r.tags[t] = true }

func (r *runner) intern(h chainhash.Hash) int64 {
	if h == (chainhash.Hash{}) {
		return 0
	}
	if id, ok := r.hashID[h]; ok {
		return id
	}
	r.nextUnk++
	id := unknownBase + r.nextUnk
	r.hashID[h] = id
	return id
}

func (r *runner) newBlockID(b *simchain.Block) {
	r.nextID++
	r.hashID[b.Hash] = r.nextID
	r.hdrs = append(r.hdrs, [2]int64{r.nextID, b.Time.Unix()})
}

func (r *runner) fakeHash() chainhash.Hash {
	r.fakeN++
	h := chainhash.Hash(sha256.Sum256([]byte(fmt.Sprintf("c15-fake-%d", r.fakeN))))
	r.hashID[h] = fakeBase + r.fakeN
	return h
}

func (r *runner) meta(b *simchain.Block) *metaJ {
	return &metaJ{H: int64(b.Height), Hash: r.intern(b.Hash), T: b.Time.Unix()}
}

func runs(ids [][2]int64) [][4]int64 {
	var out [][4]int64
	for i := 0; i < len(ids); {
		j := i + 1
		var dt int64
		if j < len(ids) && ids[j][0] == ids[i][0]+1 {
			dt = ids[j][1] - ids[i][1]
			j++
			for j < len(ids) && ids[j][0] == ids[j-1][0]+1 && ids[j][1]-ids[j-1][1] == dt {
				j++
			}
		}
		out = append(out, [4]int64{int64(j - i), ids[i][0], ids[i][1], dt})
		i = j
	}
	return out
}

func (r *runner) backendRuns() [][4]int64 {
	tip := r.sc.Tip().Height
	ids := make([][2]int64, 0, tip+1)
	for h := int32(0); h <= tip; h++ {
		b := r.sc.At(h)
		ids = append(ids, [2]int64{r.intern(b.Hash), b.Time.Unix()})
	}
	return runs(ids)
}

// walletTx returns the wallet transaction with the given id (created on first use).
func (r *runner) walletTx(id int, coinbase bool) *wire.MsgTx {
	if tx, ok := r.txs[id]; ok {
		return tx
	}
	tx := wire.NewMsgTx(2)
	if coinbase {
		var script [12]byte
		binary.LittleEndian.PutUint64(script[:8], uint64(id))
		copy(script[8:], "c15c")
		tx.AddTxIn(wire.NewTxIn(wire.NewOutPoint(&chainhash.Hash{}, math.MaxUint32), script[:], nil))
	} else {
		prev := chainhash.Hash(sha256.Sum256([]byte(fmt.Sprintf("c15-funding-%d-%d", r.in.WalletSeed, id))))
		tx.AddTxIn(wire.NewTxIn(wire.NewOutPoint(&prev, 0), nil, nil))
	}
	addr := r.addrs[id%len(r.addrs)]
	pk, err := txscript.PayToAddrScript(addr)
	if err != nil {
		panic(err)
	}
	tx.AddTxOut(wire.NewTxOut(int64(100000+id), pk))
	r.txs[id] = tx
	r.txID[tx.TxHash()] = int64(id)
	return tx
}

func (r *runner) txIDOf(h chainhash.Hash) int64 {
	if id, ok := r.txID[h]; ok {
		return id
	}
	r.nextUnk++
	id := unknownBase + r.nextUnk
	r.txID[h] = id
	return id
}

func (r *runner) probes() []int32 {
	tip := r.sc.Tip().Height
	if n := int32(len(r.notified)) - 1; n > tip {
		tip = n
	}
	if s := r.env.W.Manager.SyncedTo().Height; s > tip {
		tip = s
	}
	set := map[int32]bool{0: true, 1: true}
	for h := tip - 12; h <= tip+3; h++ {
		if h >= 0 {
			set[h] = true
		}
	}
	if r.maxTip >= waddrmgr.MaxReorgDepth-3 {
		for h := r.maxTip - waddrmgr.MaxReorgDepth - 2; h <= r.maxTip-waddrmgr.MaxReorgDepth+3; h++ {
			if h >= 0 {
				set[h] = true
			}
		}
	}
	out := make([]int32, 0, len(set))
	for h := range set {
		out = append(out, h)
	}
	sort.Slice(out, func(i, j int) bool { return out[i] < out[j] })
	return out
}

var (
	waddrmgrNS = []byte("waddrmgr")
	wtxmgrNS   = []byte("wtxmgr")
)

// errUnobserved marks an observation after a notification that went through
// the dispatch goroutine.
var errUnobserved = errors.New("unobserved")

func (r *runner) observe(herr error) *obsJ {
	w := r.env.W
	o := &obsJ{Probes: [][2]int64{}, Mined: [][3]int64{}, Unmined: []int64{}}
	if herr == errUnobserved {
		o.ErrUnobserved = true
	} else if herr != nil {
		o.Err = true
		o.ErrText = herr.Error()
	}
	st := w.Manager.SyncedTo()
	o.Synced = metaJ{H: int64(st.Height), Hash: r.intern(st.Hash), T: st.Timestamp.Unix()}
	o.ChainSynced = w.ChainSynced()
	probes := r.probes()
	err := walletdb.View(r.env.DB, func(tx walletdb.ReadTx) error {
		ans := tx.ReadBucket(waddrmgrNS)
		bb, _, err := w.Manager.BirthdayBlock(ans)
		switch {
		case err == nil:
			o.Bday = &metaJ{H: int64(bb.Height), Hash: r.intern(bb.Hash), T: bb.Timestamp.Unix()}
		case waddrmgr.IsError(err, waddrmgr.ErrBirthdayBlockNotSet):
		default:
			return err
		}
		for _, h := range probes {
			hash, err := w.Manager.BlockHash(ans, h)
			switch {
			case err == nil:
				o.Probes = append(o.Probes, [2]int64{int64(h), r.intern(*hash)})
			case waddrmgr.IsError(err, waddrmgr.ErrBlockNotFound):
				o.Probes = append(o.Probes, [2]int64{int64(h), -1})
			default:
				return err
			}
		}
		tns := tx.ReadBucket(wtxmgrNS)
		err = w.TxStore.RangeTransactions(tns, 0, math.MaxInt32-1, func(ds []wtxmgr.TxDetails) (bool, error) {
			for _, d := range ds {
				o.Mined = append(o.Mined, [3]int64{r.txIDOf(d.Hash), int64(d.Block.Height), r.intern(d.Block.Hash)})
			}
			return false, nil
		})
		if err != nil {
			return err
		}
		un, err := w.TxStore.UnminedTxHashes(tns)
		if err != nil {
			return err
		}
		for _, h := range un {
			o.Unmined = append(o.Unmined, r.txIDOf(*h))
		}
		return nil
	})
	if err != nil {
		o.ObsErr = err.Error()
	}
	sort.Slice(o.Mined, func(i, j int) bool {
		a, b := o.Mined[i], o.Mined[j]
		if a[0] != b[0] {
			return a[0] < b[0]
		}
		if a[1] != b[1] {
			return a[1] < b[1]
		}
		return a[2] < b[2]
	})
	sort.Slice(o.Unmined, func(i, j int) bool { return o.Unmined[i] < o.Unmined[j] })
	r.birthday = o.Bday != nil
	if o.Bday != nil {
		r.bdayH = int32(o.Bday.H)
	}
	return o
}

func (r *runner) violate(kind, site, detail string) {
	for _, k := range r.oracle {
		if k == kind {
			return
		}
	}
	if len(r.oracle) == 0 {
		r.site = site
		r.detail = kind + ": " + detail
	} else {
		r.detail += "; " + kind + ": " + detail
	}
	r.oracle = append(r.oracle, kind)
}

// lowest height for which the property makes a claim: the wallet follows the
// chain from the block it declares as its birthday block (from genesis
// without one), and PutSyncedTo keeps MaxReorgDepth entries.
func (r *runner) lo() int32 {
	lo := r.maxTip - waddrmgr.MaxReorgDepth + 1
	if r.birthday && r.bdayH > lo {
		lo = r.bdayH
	}
	if lo < 0 {
		lo = 0
	}
	return lo
}

// deepest online reorganisation that stays inside the heights the wallet
// stores (the parent of the lowest replaced block and its predecessor are
// remembered, or the parent is the genesis block of a wallet that follows
// the chain from there).
func (r *runner) maxOnlineDepth() int {
	tip := r.sc.Tip().Height
	lo := r.maxTip - waddrmgr.MaxReorgDepth + 1
	if r.follow > lo {
		lo = r.follow
	}
	if lo <= 0 {
		return int(tip)
	}
	if d := int(tip - lo - 1); d > 0 {
		return d
	}
	return 0
}

// check states the three online clauses of the property against the chain
// the notifications delivered so far describe.
func (r *runner) check(o *obsJ, site string) {
	if o.ObsErr != "" {
		r.violate("store_unreadable", site, o.ObsErr)
		return
	}
	tip := r.notified[len(r.notified)-1]
	if o.Synced.H != int64(tip.Height) || o.Synced.Hash != r.intern(tip.Hash) {
		r.violate("synced_to_not_backend_tip", site, fmt.Sprintf("synced-to (%d, #%d), backend tip (%d, #%d)",
			o.Synced.H, o.Synced.Hash, tip.Height, r.intern(tip.Hash)))
	}
	lo := r.lo()
	for _, p := range o.Probes {
		h := int32(p[0])
		if h < lo || h > tip.Height {
			continue
		}
		if p[1] != r.intern(r.notified[h].Hash) {
			r.violate("stored_hash_not_on_best_chain", site, fmt.Sprintf("height %d: stored #%d, best chain #%d",
				h, p[1], r.intern(r.notified[h].Hash)))
		}
	}
	for _, m := range o.Mined {
		h := int32(m[1])
		if int(h) < len(r.notified) && h >= 0 && r.intern(r.notified[h].Hash) == m[2] {
			continue
		}
		if r.pending != nil && r.pending.Height == h && r.intern(r.pending.Hash) == m[2] {
			continue
		}
		r.violate("tx_confirmed_in_stale_block", site, fmt.Sprintf("tx %d recorded in (%d, #%d)", m[0], m[1], m[2]))
	}
}

func (r *runner) push(e event) { r.events = append(r.events, e) }

// ---- notifications through the wallet's handlers

// notify delivers one notification: through the dispatch goroutine (the
// handler's error is then not observable) or through the hook.
func (r *runner) notify(n interface{}, hook func() error) error {
	r.pristine = false
	if r.in.Dispatch {
		if err := r.g.deliver(n); err != nil {
			r.dispErr = err.Error()
		}
		return errUnobserved
	}
	return hook()
}

func (r *runner) connect(b *simchain.Block) {
	err := r.notify(chain.BlockConnected(b.Meta()), func() error { return r.env.W.VerifConnectBlock(b.Meta()) })
	r.notified = append(r.notified, b)
	if b.Height > r.maxTip {
		r.maxTip = b.Height
	}
	r.pending = nil
	o := r.observe(err)
	r.push(event{K: "connect", B: r.meta(b), Site: "BlockConnected", Obs: o})
	r.check(o, "BlockConnected")
}

func (r *runner) disconnect(b *simchain.Block) {
	err := r.notify(chain.BlockDisconnected(b.Meta()), func() error { return r.env.W.VerifDisconnectBlock(b.Meta()) })
	r.notified = r.notified[:len(r.notified)-1]
	r.stale = append(r.stale, b.Meta())
	o := r.observe(err)
	r.push(event{K: "disconnect", B: r.meta(b), Site: "BlockDisconnected", Obs: o})
	r.check(o, "BlockDisconnected")
}

func (r *runner) relevantTx(id int, coinbase bool, b *simchain.Block, pre bool) {
	tx := r.walletTx(id, coinbase)
	var rec *wtxmgr.TxRecord
	var err error
	var bm *wtxmgr.BlockMeta
	var mj *metaJ
	if b != nil {
		rec, err = wtxmgr.NewTxRecordFromMsgTx(tx, b.Time)
		m := b.Meta()
		bm = &m
		mj = r.meta(b)
		if pre {
			r.pending = b
		}
	} else {
		rec, err = wtxmgr.NewTxRecordFromMsgTx(tx, time.Unix(1600000000, 0))
	}
	if err != nil {
		panic(err)
	}
	herr := r.notify(chain.RelevantTx{TxRecord: rec, Block: bm}, func() error { return r.env.W.VerifAddRelevantTx(rec, bm) })
	o := r.observe(herr)
	r.push(event{K: "tx", Tx: int64(id), CB: coinbase, B: mj, Site: "RelevantTx", Obs: o})
	r.check(o, "RelevantTx")
}

// filtered delivers the block's wallet transactions in one
// chain.FilteredBlockConnected.
func (r *runner) filtered(b *simchain.Block, ids []int, cbID int, pre bool) {
	var recs []*wtxmgr.TxRecord
	var txs [][2]int64
	add := func(id int, cb bool) {
		rec, err := wtxmgr.NewTxRecordFromMsgTx(r.walletTx(id, cb), b.Time)
		if err != nil {
			panic(err)
		}
		recs = append(recs, rec)
		c := int64(0)
		if cb {
			c = 1
		}
		txs = append(txs, [2]int64{int64(id), c})
	}
	if cbID != 0 {
		add(cbID, true)
	}
	for _, id := range ids {
		add(id, false)
	}
	if pre && len(recs) > 0 {
		r.pending = b
	}
	m := b.Meta()
	herr := r.notify(chain.FilteredBlockConnected{Block: &m, RelevantTxs: recs},
		func() error { return r.env.W.VerifFilteredBlockConnected(&m, recs) })
	o := r.observe(herr)
	r.push(event{K: "filtered", B: r.meta(b), Txs: txs, Site: "FilteredBlockConnected", Obs: o})
	r.check(o, "FilteredBlockConnected")
	r.tag("filtered_block_connected")
	if len(recs) > 1 {
		r.tag("filtered_block_connected_several_txs")
	}
}

// rescanNtfn delivers a *chain.RescanProgress / *chain.RescanFinished for a
// block the notifications delivered so far have already described.
func (r *runner) rescanNtfn(s staleSpec) {
	if !r.in.Dispatch {
		return // catchUpHashes is a closure of handleChainNotifications: no hook can reach it
	}
	tip := r.notified[len(r.notified)-1].Height
	h := tip - int32(s.Arg%4)
	if h < 0 {
		h = 0
	}
	b := r.notified[h]
	hash := b.Hash
	var n interface{}
	kind, site := "rescan_progress", "RescanProgress(online)"
	if s.Kind == "rescan_finished" {
		kind, site = "rescan_finished", "RescanFinished(online)"
		n = &chain.RescanFinished{Hash: &hash, Height: h, Time: b.Time}
	} else {
		n = &chain.RescanProgress{Hash: hash, Height: h, Time: b.Time}
	}
	herr := r.notify(n, nil)
	o := r.observe(herr)
	r.push(event{K: kind, Backend: r.backendRuns(), Height: int64(h), Site: site, Obs: o})
	r.check(o, site)
	r.tag("online_" + kind)
}

func (r *runner) staleNtfn(s staleSpec) {
	tip := r.notified[len(r.notified)-1].Height
	switch s.Kind {
	case "rescan_progress", "rescan_finished":
		r.rescanNtfn(s)
		return
	case "gap":
		if !r.birthday {
			return // without a birthday block the wallet would jump (not a chain evolution)
		}
		// above every height the wallet ever stored a hash for (a stale
		// entry at height-1 would satisfy the predecessor check)
		bm := wtxmgr.BlockMeta{Block: wtxmgr.Block{Hash: r.fakeHash(), Height: r.maxTip + 2 + int32(s.Arg%3)},
			Time: time.Unix(1700000000, 0)}
		err := r.notify(chain.BlockConnected(bm), func() error { return r.env.W.VerifConnectBlock(bm) })
		o := r.observe(err)
		r.push(event{K: "connect", B: &metaJ{H: int64(bm.Height), Hash: r.intern(bm.Hash), T: bm.Time.Unix()},
			Site: "BlockConnected(unknown future block)", Obs: o})
		r.check(o, "BlockConnected(unknown future block)")
		r.tag("future_connect_refused")
		return
	}
	var bm wtxmgr.BlockMeta
	kind := s.Kind
	if kind == "repeat" && len(r.stale) == 0 {
		kind = "future"
	}
	switch kind {
	case "repeat":
		bm = r.stale[s.Arg%len(r.stale)]
		r.tag("stale_repeated_disconnect")
	case "future":
		bm = wtxmgr.BlockMeta{Block: wtxmgr.Block{Hash: r.fakeHash(), Height: tip + 1 + int32(s.Arg%3)},
			Time: time.Unix(1700000000, 0)}
		r.tag("stale_future_disconnect")
	default:
		h := tip - int32(s.Arg%9)
		if h < r.lo() {
			h = r.lo()
		}
		bm = wtxmgr.BlockMeta{Block: wtxmgr.Block{Hash: r.fakeHash(), Height: h}, Time: time.Unix(1700000000, 0)}
		r.tag("stale_unknown_hash_disconnect")
	}
	err := r.notify(chain.BlockDisconnected(bm), func() error { return r.env.W.VerifDisconnectBlock(bm) })
	o := r.observe(err)
	site := "BlockDisconnected(stale)"
	r.push(event{K: "disconnect", B: &metaJ{H: int64(bm.Height), Hash: r.intern(bm.Hash), T: bm.Time.Unix()},
		Site: site, Obs: o})
	r.check(o, site)
}

// buildBlock mines a block with the wallet transactions of the spec that are
// not already confirmed on the best chain.
func (r *runner) buildBlock(bs blockSpec) (*simchain.Block, []int, []int, int) {
	var txs []*wire.MsgTx
	cb := 0
	if bs.CB != "" {
		r.nextCB++
		cb = cbTxBase + r.nextCB
		txs = append(txs, r.walletTx(cb, true))
	}
	h := r.sc.Tip().Height + 1
	var pre, post []int
	take := func(ids []int, dst *[]int) {
		for _, id := range ids {
			if id <= 0 || id >= cbTxBase {
				continue
			}
			if _, on := r.onBest[id]; on {
				continue
			}
			r.onBest[id] = h
			txs = append(txs, r.walletTx(id, false))
			*dst = append(*dst, id)
		}
	}
	take(bs.Pre, &pre)
	take(bs.Post, &post)
	b := r.sc.Extend(txs, nil)
	r.newBlockID(b)
	if cb != 0 {
		r.onBest[cb] = h
	}
	return b, pre, post, cb
}

func (r *runner) dropFromBest(h int32) {
	for id, bh := range r.onBest {
		if bh >= h {
			delete(r.onBest, id)
		}
	}
}

type step struct {
	kind string // disconnect | connect | tx | filtered
	b    *simchain.Block
	id   int
	cb   bool
	pre  bool
	ids  []int // filtered: regular wallet transactions
	cbID int   // filtered: coinbase transaction (0 = none)
}

func (r *runner) evolveOnline(e evoSpec, stale []staleSpec) {
	depth := e.Depth
	if max := r.maxOnlineDepth(); depth > max {
		depth = max
	}
	if depth > 0 {
		r.tag("reorg")
		if depth >= 3 {
			r.tag("reorg_depth>=3")
		}
		if depth >= 10 {
			r.tag("reorg_depth>=10")
		}
		for id, h := range r.onBest {
			_ = id
			if h > r.sc.Tip().Height-int32(depth) {
				r.tag("wallet_tx_in_replaced_block")
			}
		}
	}
	var stream []step
	for i := 0; i < depth; i++ {
		b := r.sc.Disconnect()
		stream = append(stream, step{kind: "disconnect", b: b})
	}
	r.dropFromBest(r.sc.Tip().Height + 1)
	wasStale := map[int]bool{}
	for id := range r.txs {
		if _, on := r.onBest[id]; !on {
			wasStale[id] = true
		}
	}
	specs := e.Blocks
	for i := 0; i < e.Bulk; i++ {
		specs = append(specs, blockSpec{})
	}
	for _, bs := range specs {
		b, pre, post, cb := r.buildBlock(bs)
		for _, id := range append(append([]int{}, pre...), post...) {
			if wasStale[id] {
				r.tag("wallet_tx_mined_again")
			}
		}
		if cb != 0 {
			r.tag("wallet_coinbase_tx")
		}
		if bs.Filt != "" {
			all := append(append([]int{}, pre...), post...)
			f := step{kind: "filtered", b: b, ids: all, cbID: cb, pre: bs.Filt == "pre"}
			if f.pre {
				stream = append(stream, f, step{kind: "connect", b: b})
			} else {
				stream = append(stream, step{kind: "connect", b: b}, f)
			}
			continue
		}
		if cb != 0 && bs.CB == "pre" {
			stream = append(stream, step{kind: "tx", b: b, id: cb, cb: true, pre: true})
		}
		for _, id := range pre {
			stream = append(stream, step{kind: "tx", b: b, id: id, pre: true})
			r.tag("tx_before_connect")
		}
		stream = append(stream, step{kind: "connect", b: b})
		if cb != 0 && bs.CB != "pre" {
			stream = append(stream, step{kind: "tx", b: b, id: cb, cb: true})
		}
		for _, id := range post {
			stream = append(stream, step{kind: "tx", b: b, id: id})
			r.tag("tx_after_connect")
		}
	}
	sort.SliceStable(stale, func(i, j int) bool { return stale[i].At < stale[j].At })
	si := 0
	for pos := 0; pos <= len(stream); pos++ {
		for si < len(stale) && (stale[si].At <= pos || pos == len(stream)) {
			if len(r.oracle) > 0 || r.dispErr != "" {
				return
			}
			r.staleNtfn(stale[si])
			si++
		}
		if pos == len(stream) || len(r.oracle) > 0 || r.dispErr != "" {
			break
		}
		s := stream[pos]
		switch s.kind {
		case "disconnect":
			r.disconnect(s.b)
		case "connect":
			r.connect(s.b)
		case "tx":
			r.relevantTx(s.id, s.cb, s.b, s.pre)
		case "filtered":
			r.filtered(s.b, s.ids, s.cbID, s.pre)
		}
	}
}

// setBirthday stores the block at the given height of the chain delivered so
// far as (verified) birthday block, unless one is stored already.
func (r *runner) setBirthday(height int) error {
	if r.birthday {
		return nil
	}
	if height < 0 || height >= len(r.notified) {
		height = len(r.notified) - 1
	}
	g := r.notified[height]
	err := walletdb.Update(r.env.DB, func(tx walletdb.ReadWriteTx) error {
		ns := tx.ReadWriteBucket(waddrmgrNS)
		return r.env.W.Manager.SetBirthdayBlock(ns, waddrmgr.BlockStamp{Height: g.Height, Hash: g.Hash, Timestamp: g.Time}, true)
	})
	if err != nil {
		return err
	}
	r.pristine = false
	r.tag("birthday_block_set")
	if height > 0 {
		r.tag("birthday_block_above_genesis")
	}
	r.push(event{K: "set_birthday", B: r.meta(g), Site: "SetBirthdayBlock", Obs: r.observe(nil)})
	return nil
}

// walletTxsAbove lists the wallet transactions in the backend's blocks above
// the given height, in chain order (what recovery's block filter finds: every
// harness transaction pays an address the wallet has issued).
func (r *runner) walletTxsAbove(h int32) []rtxJ {
	var out []rtxJ
	for b := r.sc.At(h + 1); b != nil; b = r.sc.At(b.Height + 1) {
		for _, tx := range b.Msg.Transactions {
			if id, ok := r.txID[tx.TxHash()]; ok {
				out = append(out, rtxJ{Tx: id, CB: id >= cbTxBase && id < fakeBase, B: *r.meta(b)})
			}
		}
	}
	return out
}

// applyOffline lets the backend's chain evolve while nobody is told.
func (r *runner) applyOffline(evos []evoSpec) {
	for _, e := range evos {
		depth := e.Depth
		if max := int(r.sc.Tip().Height); depth > max {
			depth = max
		}
		// a best chain normally does not get lower
		if n := len(e.Blocks) + e.Bulk; n < depth && !e.Shorter {
			depth = n
		}
		if depth > 0 {
			r.tag("offline_reorg")
			for _, h := range r.onBest {
				if h > r.sc.Tip().Height-int32(depth) {
					r.tag("offline_reorg_of_wallet_tx_block")
				}
			}
		}
		for i := 0; i < depth; i++ {
			b := r.sc.Disconnect()
			r.stale = append(r.stale, b.Meta())
		}
		r.dropFromBest(r.sc.Tip().Height + 1)
		for _, bs := range e.Blocks {
			if bs.CB != "" {
				r.tag("wallet_coinbase_tx")
			}
			r.buildBlock(bs)
		}
		for i := 0; i < e.Bulk; i++ {
			r.buildBlock(blockSpec{})
		}
		if e.Bulk > 1000 {
			r.tag("long_offline_extension")
		}
	}
}

// attempt: what the harness knows about the syncWithChain attempt in flight.
type attempt struct {
	backend [][4]int64
	rtxs    []rtxJ
	loc     *metaJ
	gate    bool // it reached the rescan request (NotifyBlocks)
	lower   bool // the backend's tip was below the wallet's synced-to height
}

// offline: the wallet is stopped, the chain evolves, the wallet is started
// and synchronises with the real start-up code.
func (r *runner) offline(op opSpec) error {
	first := op.First && r.pristine
	if !first {
		if err := r.setBirthday(0); err != nil {
			return err
		}
	} else {
		r.tag("first_sync")
	}
	r.pristine = false
	r.tag("offline_period")
	if r.g != nil {
		r.g.stop()
		r.g = nil
	}
	if err := r.env.Reopen(r.in.RecoveryWindow, nil); err != nil {
		return err
	}
	r.push(event{K: "reopen", Site: "Reopen", Obs: r.observe(nil)})
	recov := r.in.RecoveryWindow > 0
	if recov {
		r.tag("startup_with_recovery_window")
	}

	before := append([]*simchain.Block{}, r.notified...)
	minedBefore := r.events[len(r.events)-1].Obs.Mined
	bdayBefore := r.events[len(r.events)-1].Obs.Bday
	r.applyOffline(op.Evos)

	g := newGated(r.sc)
	g.notifyFail = op.NotifyFail
	r.g = g
	notifyFail := op.NotifyFail
	then := op.Then
	r.env.W.SynchronizeRPC(g)
	r.sc.Notify(chain.ClientConnected{})

	// last common block of the wallet's chain and the backend's (now)
	commonNow := func() (int32, bool) {
		common := int32(0)
		for h := int32(0); int(h) < len(before) && r.sc.At(h) != nil && r.sc.At(h).Hash == before[h].Hash; h++ {
			common = h
		}
		return common, int(common) == len(before)-1
	}

	// 1. attempts of syncWithChain until one reaches the rescan request and
	// survives it
	var cur *attempt
	fails := 0
	gateSeen := false
	var backend [][4]int64
attempts:
	for {
		select {
		case rel := <-g.attempts:
			// an attempt begins; the one before (if any) has returned an error
			if cur != nil {
				if !cur.gate {
					o := r.observe(errors.New("the attempt returned an error before the rescan request"))
					r.push(event{K: "startup", First: first, Loc: cur.loc, Backend: cur.backend, Recover: recov, RTxs: cur.rtxs,
						Site: "syncWithChain(failed attempt)", Obs: o})
					r.tag("startup_attempt_failed")
					if cur.lower {
						r.tag("startup_backend_lower_than_wallet")
					} else if first && gateSeen {
						r.tag("first_sync_repeated_after_late_failure")
					} else {
						r.tag("startup_fork_outside_stored_heights")
					}
				}
				fails++
				if len(then) > 0 {
					r.applyOffline(then[:1])
					then = then[1:]
					fails = 0
					r.tag("backend_catches_up_after_failed_attempt")
				} else if fails >= 2 {
					// nothing will change any more: the wallet repeats the failing attempt for ever
					r.stuck = true
					r.tag("startup_never_completes")
					close(rel)
					g.stop()
					return nil
				}
			}
			cur = &attempt{backend: r.backendRuns(), lower: r.sc.Tip().Height < r.env.W.Manager.SyncedTo().Height}
			if first {
				loc, err := wallet.VerifLocateBirthdayBlock(r.sc, r.env.W.Manager.Birthday())
				if err != nil {
					return err
				}
				cur.loc = &metaJ{H: int64(loc.Height), Hash: r.intern(loc.Hash), T: loc.Timestamp.Unix()}
			}
			if recov {
				cur.rtxs = r.walletTxsAbove(0) // the model picks the ones recovery scans
			}
			close(rel)
		case rel := <-g.gate:
			// the rollback transaction has committed (syncWithChain stops in NotifyBlocks)
			if cur == nil {
				return fmt.Errorf("NotifyBlocks outside a start-up attempt")
			}
			cur.gate = true
			gateSeen = true
			backend = cur.backend
			common, tipOnChain := commonNow()
			if !tipOnChain {
				r.tag("startup_rollback")
			}
			o := r.observe(nil)
			r.push(event{K: "startup", First: first, Loc: cur.loc, Backend: backend, Recover: recov, RTxs: cur.rtxs, Site: "syncWithChain", Obs: o})
			if !first {
				exp := [][3]int64{}
				for _, m := range minedBefore {
					if tipOnChain || m[1] <= int64(common) {
						exp = append(exp, m)
					}
				}
				okSynced := o.Synced.H == int64(common) && o.Synced.Hash == r.intern(before[common].Hash)
				if tipOnChain {
					okSynced = o.Synced.H == int64(len(before)-1) && o.Synced.Hash == r.intern(before[len(before)-1].Hash)
				}
				if recov {
					// recovery has run as well and may have moved synced-to up the
					// backend's chain and recorded transactions: state the clauses
					// on what is there - synced-to is a block of the backend's
					// chain, no remembered hash from lo up to it and no confirmed
					// record names a block that is not
					bad := ""
					sb := r.sc.At(int32(o.Synced.H))
					if sb == nil || r.intern(sb.Hash) != o.Synced.Hash {
						bad = fmt.Sprintf("synced-to (%d, #%d) is not on the backend's chain", o.Synced.H, o.Synced.Hash)
					}
					for _, p := range o.Probes {
						if b := r.sc.At(int32(p[0])); bad == "" && int32(p[0]) >= r.lo() && p[0] <= o.Synced.H && b != nil && p[1] != r.intern(b.Hash) {
							bad = fmt.Sprintf("height %d: stored #%d, best chain #%d", p[0], p[1], r.intern(b.Hash))
						}
					}
					for _, m := range o.Mined {
						if b := r.sc.At(int32(m[1])); bad == "" && (b == nil || r.intern(b.Hash) != m[2]) {
							bad = fmt.Sprintf("tx %d recorded in (%d, #%d)", m[0], m[1], m[2])
						}
					}
					if bad != "" && !tipOnChain && r.sc.Tip().Height > int32(len(before)-1) {
						// finding S16: recovery ran first and moved synced-to onto the
						// backend's blocks above the wallet's old tip
						r.violate("startup_recovery_skips_rollback", "syncWithChain(recovery)", fmt.Sprintf(
							"recovery window %d, last common block %d, wallet was at %d, backend at %d: synced-to (%d, #%d); %s",
							r.in.RecoveryWindow, common, len(before)-1, r.sc.Tip().Height, o.Synced.H, o.Synced.Hash, bad))
						close(rel)
						return nil
					}
					if bad != "" {
						r.violate("startup_rollback_wrong_height", "syncWithChain", bad)
					}
					okSynced, exp = true, o.Mined
				}
				if !okSynced || !sameRecs(exp, o.Mined) {
					r.violate("startup_rollback_wrong_height", "syncWithChain", fmt.Sprintf(
						"last common block %d (wallet tip on chain: %v): synced-to (%d, #%d), confirmed records %v, expected %v",
						common, tipOnChain, o.Synced.H, o.Synced.Hash, o.Mined, exp))
				}
				if !tipOnChain && bdayBefore != nil && int64(common) <= bdayBefore.H && r.intern(before[common].Hash) != bdayBefore.Hash {
					r.tag("startup_rollback_crosses_birthday_block")
				}
				if int32(common) < r.follow {
					r.follow = 0 // only possible down to genesis
				}
			} else if o.Bday != nil {
				r.follow = int32(o.Bday.H)
				if r.follow <= 1 {
					r.follow = 0 // genesis is stored since creation
				}
				if o.Bday.H > 0 {
					r.tag("first_sync_birthday_above_genesis")
				}
			}
			if notifyFail > 0 {
				notifyFail--
				r.tag("notifyblocks_fails")
				close(rel)
				continue
			}
			close(rel)
			break attempts
		case <-time.After(30 * time.Second):
			o := r.observe(fmt.Errorf("syncWithChain did not reach the rescan request within 30s"))
			r.push(event{K: "startup", First: first, Backend: r.backendRuns(), Site: "syncWithChain", Obs: o})
			r.violate("startup_rollback_wrong_height", "syncWithChain", "start-up synchronisation does not complete")
			return nil
		}
	}

	// 2. the rescan: relevant transactions, then RescanFinished (catchUpHashes)
	deadline := time.Now().Add(60 * time.Second)
	for !r.env.W.ChainSynced() {
		if time.Now().After(deadline) {
			r.violate("synced_to_not_backend_tip", "RescanFinished", "rescan does not finish")
			return nil
		}
		time.Sleep(200 * time.Microsecond)
	}
	tip := r.sc.Tip()
	r.notified = r.notified[:0]
	for h := int32(0); h <= tip.Height; h++ {
		r.notified = append(r.notified, r.sc.At(h))
	}
	if tip.Height > r.maxTip {
		r.maxTip = tip.Height
	}
	for _, n := range g.taken() {
		switch n := n.(type) {
		case chain.RelevantTx:
			id := r.txIDOf(n.TxRecord.Hash)
			b := r.sc.At(n.Block.Height)
			r.push(event{K: "tx", Tx: id, CB: id >= cbTxBase && id < fakeBase, B: r.meta(b), Site: "RelevantTx(rescan)"})
			r.tag("rescan_relevant_tx")
		case *chain.RescanFinished:
			o := r.observe(nil)
			r.push(event{K: "rescan_finished", Backend: backend, Height: int64(n.Height), Site: "RescanFinished", Obs: o})
			r.check(o, "RescanFinished")
		case chain.ClientConnected:
		default:
			return fmt.Errorf("unexpected notification %T during start-up", n)
		}
	}
	return nil
}

func sameRecs(a, b [][3]int64) bool {
	if len(a) != len(b) {
		return false
	}
	for i := range a {
		if a[i] != b[i] {
			return false
		}
	}
	return true
}

func runCase(in c15Input) (c15Case, error) {
	r := &runner{in: in, params: &chaincfg.RegressionNetParams, hashID: map[chainhash.Hash]int64{},
		txs: map[int]*wire.MsgTx{}, txID: map[chainhash.Hash]int64{}, onBest: map[int]int32{}, tags: map[string]bool{}}
	c := c15Case{In: in, Oracle: []string{}, Tags: []string{}}
	var seed [32]byte
	sum := sha256.Sum256([]byte(fmt.Sprintf("c15-wallet-%d", in.WalletSeed)))
	copy(seed[:], sum[:])
	bday := time.Unix(1500000000, 0)
	if in.Birthday != 0 {
		// waddrmgr.Create stores the birthday minus 48 hours of safety margin
		bday = time.Unix(1600000000+in.Birthday, 0).Add(48 * time.Hour)
	}
	env, err := walletenv.New(seed[:], bday, 0, nil)
	if err != nil {
		return c, err
	}
	r.env = env
	r.pristine = true
	defer func() {
		if r.g != nil {
			r.g.stop()
		}
		r.env.Close()
	}()
	r.sc = simchain.New(r.params)
	g := r.sc.At(0)
	r.newBlockID(g)
	r.notified = []*simchain.Block{g}
	if in.Dispatch {
		// the wallet's own goroutines run from the beginning
		r.g = newGated(r.sc)
		env.W.SynchronizeRPC(r.g)
		r.tag("through_dispatch_goroutine")
	} else {
		env.W.VerifSetChainClient(r.sc)
		r.tag("through_handler_hooks")
	}
	for i := 0; i < 3; i++ {
		a, err := env.W.NewAddress(0, waddrmgr.KeyScopeBIP0084)
		if err != nil {
			return c, err
		}
		r.addrs = append(r.addrs, a)
	}
	st := env.W.Manager.SyncedTo()
	c.Obs.Init = metaJ{H: int64(st.Height), Hash: r.intern(st.Hash), T: st.Timestamp.Unix()}
	env.W.SetChainSynced(true)
	r.push(event{K: "set_synced", Flag: true, Site: "SetChainSynced", Obs: r.observe(nil)})

	for i, op := range in.Ops {
		if len(r.oracle) > 0 || r.stuck || r.dispErr != "" {
			break
		}
		r.done = i + 1
		switch op.Op {
		case "evolve":
			e := evoSpec{}
			if op.Evo != nil {
				e = *op.Evo
			}
			r.evolveOnline(e, append([]staleSpec{}, op.Stale...))
		case "unmined":
			if op.Tx > 0 && op.Tx < cbTxBase {
				r.tag("unmined_tx_notification")
				r.relevantTx(op.Tx, false, nil, false)
			}
		case "birthday":
			if err := r.setBirthday(op.Height); err != nil {
				return c, err
			}
		case "offline":
			if err := r.offline(op); err != nil {
				return c, err
			}
		default:
			return c, fmt.Errorf("unknown op %q", op.Op)
		}
	}
	if r.dispErr != "" {
		return c, fmt.Errorf("dispatch: %s", r.dispErr)
	}
	if len(r.oracle) > 0 {
		// keep only what was executed: the replay stops at the violation anyway
		c.In.Ops = in.Ops[:r.done]
	}
	c.Obs.Headers = runs(r.hdrs)
	c.Obs.Events = r.events
	c.Obs.Detail = r.detail
	c.Oracle = append(c.Oracle, r.oracle...)
	c.Site = r.site
	if c.Site == "" {
		c.Site = "*"
	}
	for t := range r.tags {
		c.Tags = append(c.Tags, t)
	}
	sort.Strings(c.Tags)
	return c, nil
}

// ---------------------------------------------------------------- generator

func genBlocks(r *gen.R, n int, pool int) []blockSpec {
	out := make([]blockSpec, n)
	for i := range out {
		k := r.Pick(5, 4, 2)
		for j := 0; j < k; j++ {
			id := r.Range(1, pool)
			if r.Chance(1, 2) {
				out[i].Pre = append(out[i].Pre, id)
			} else {
				out[i].Post = append(out[i].Post, id)
			}
		}
		switch r.Pick(10, 1, 1) {
		case 1:
			out[i].CB = "pre"
		case 2:
			out[i].CB = "post"
		}
		switch r.Pick(10, 1, 1) {
		case 1:
			out[i].Filt = "pre"
		case 2:
			out[i].Filt = "post"
		}
	}
	return out
}

func genStale(r *gen.R, streamLen int) []staleSpec {
	var out []staleSpec
	n := r.Pick(6, 3, 2, 1)
	for i := 0; i < n; i++ {
		kind := []string{"repeat", "repeat", "future", "wrong", "gap", "rescan_progress", "rescan_finished"}[r.Pick(4, 2, 2, 2, 1, 1, 1)]
		out = append(out, staleSpec{At: r.Range(0, streamLen+1), Kind: kind, Arg: r.Range(0, 20)})
	}
	return out
}

func genCase(seed int64, idx int, long bool) c15Input {
	r := gen.New(seed, int64(1500+idx))
	in := c15Input{WalletSeed: seed*100000 + int64(idx)}
	in.Dispatch = r.Chance(1, 2)
	if r.Chance(1, 5) {
		in.RecoveryWindow = uint32(r.Range(3, 20))
	}
	pool := r.Range(3, 8)
	height := 0
	switch {
	case !long && r.Chance(1, 4):
		// first synchronisation: the chain exists before the wallet is started
		// for the first time; the wallet's birthday lies near block kb
		// (locateBirthdayBlock accepts any block within two hours = 12 blocks)
		n0 := r.Pick(3, 3, 2, 2) // how long the chain is: 2-4, 5-12, 13-30, 31-60 blocks
		n := []int{r.Range(2, 4), r.Range(5, 12), r.Range(13, 30), r.Range(31, 60)}[n0]
		kb := r.Range(0, n+3)
		in.Birthday = int64(600*kb + r.Range(-299, 299))
		if in.Birthday == 0 {
			in.Birthday = 1
		}
		nb := n
		if nb > 8 {
			nb = 8
		}
		in.Ops = append(in.Ops, opSpec{Op: "offline", First: true,
			Evos: []evoSpec{{Bulk: (n - nb) / 2}, {Blocks: genBlocks(r, nb, pool)}, {Bulk: n - nb - (n-nb)/2}}})
		height = n
	default:
		pinned := r.Pick(3, 6, 3) // no birthday block; at genesis; at a later block (old wallet after migration)
		if pinned == 1 {
			in.Ops = append(in.Ops, opSpec{Op: "birthday"})
		}
		// initial extension so that reorgs have something to replace
		n0 := r.Range(2, 6)
		in.Ops = append(in.Ops, opSpec{Op: "evolve", Evo: &evoSpec{Blocks: genBlocks(r, n0, pool)}})
		height = n0
		if pinned == 2 {
			in.Ops = append(in.Ops, opSpec{Op: "birthday", Height: r.Range(1, n0)})
		}
		if long {
			in.Ops = append(in.Ops, opSpec{Op: "offline", Evos: []evoSpec{{Depth: r.Range(0, 2), Bulk: waddrmgr.MaxReorgDepth + r.Range(-3, 8)}}})
			height += waddrmgr.MaxReorgDepth
		}
	}
	nops := r.Range(3, 9)
	for i := 0; i < nops; i++ {
		switch r.Pick(4, 5, 1, 2, 1) {
		case 0: // extension 1-5 blocks
			n := r.Range(1, 5)
			in.Ops = append(in.Ops, opSpec{Op: "evolve", Evo: &evoSpec{Blocks: genBlocks(r, n, pool)}, Stale: genStale(r, 2*n)})
			height += n
		case 1: // reorg depth 1-8, sometimes 9-25
			d := r.Range(1, 8)
			if r.Chance(1, 8) {
				d = r.Range(9, 25)
			}
			if d > height {
				d = height
			}
			n := d + r.Range(-1, 2)
			if n < 0 {
				n = 0
			}
			e := &evoSpec{Depth: d}
			if n > 8 {
				e.Blocks, e.Bulk = genBlocks(r, 8, pool), n-8
			} else {
				e.Blocks = genBlocks(r, n, pool)
			}
			in.Ops = append(in.Ops, opSpec{Op: "evolve", Evo: e, Stale: genStale(r, d+2*n)})
			height += n - d
		case 2:
			in.Ops = append(in.Ops, opSpec{Op: "unmined", Tx: r.Range(1, pool)})
		case 3: // offline period
			var evos []evoSpec
			for k := r.Range(0, 2); k >= 0; k-- {
				d := r.Pick(2, 2, 2, 1, 1, 1, 1, 1, 1)
				if d > height {
					d = height
				}
				n := d + r.Range(0, 3)
				evos = append(evos, evoSpec{Depth: d, Blocks: genBlocks(r, n, pool)})
				height += n - d
			}
			op := opSpec{Op: "offline", Evos: evos}
			if r.Chance(1, 4) && height >= 2 {
				// the backend ends up LOWER than the wallet; it catches up
				// (in one or two steps) after the start-up attempt has failed
				d := r.Range(1, 5)
				if d > height {
					d = height
				}
				n := 0 // the backend is a proper prefix of the wallet's chain ...
				if r.Chance(1, 2) {
					n = r.Range(0, d-1) // ... or on another branch
				}
				op.Evos = append(op.Evos, evoSpec{Depth: d, Blocks: genBlocks(r, n, pool), Shorter: true})
				k := d - n + r.Range(0, 2)
				if k >= 2 && r.Chance(1, 2) {
					op.Then = []evoSpec{{Blocks: genBlocks(r, 1, pool)}, {Blocks: genBlocks(r, k-1, pool)}}
				} else {
					op.Then = []evoSpec{{Blocks: genBlocks(r, k, pool)}}
				}
				height += n - d + k
			}
			in.Ops = append(in.Ops, op)
		case 4: // only stale notifications
			in.Ops = append(in.Ops, opSpec{Op: "evolve", Evo: &evoSpec{}, Stale: genStale(r, 0)})
		}
	}
	return in
}

// fixed inputs, always run first: the S1 witness of DESIGN section 6, and one
// input per start-up path / dispatch-only notification (review round 3).
func witnessCases() []c15Input {
	plain := func(n int) []blockSpec { return make([]blockSpec, n) }
	return []c15Input{
		// S1: connect 1..5, disconnect 5, disconnect 4
		{WalletSeed: 15, Ops: []opSpec{
			{Op: "evolve", Evo: &evoSpec{Blocks: plain(5)}},
			{Op: "evolve", Evo: &evoSpec{Depth: 2}},
		}},
		// first synchronisation, birthday block well above genesis (through the
		// dispatch goroutine afterwards: FilteredBlockConnected, rescan
		// notifications in the middle of a reorganisation)
		{WalletSeed: 1501, Dispatch: true, Birthday: 7200, Ops: []opSpec{
			{Op: "offline", First: true, Evos: []evoSpec{{Bulk: 9}, {Blocks: []blockSpec{{Post: []int{1}}, {}, {Post: []int{2}}, {}, {}, {Pre: []int{3}}, {}, {Post: []int{4}}}}, {Bulk: 9}}},
			{Op: "evolve", Evo: &evoSpec{Depth: 3, Blocks: []blockSpec{{Pre: []int{1}, Filt: "pre"}, {Post: []int{5}, CB: "post", Filt: "post"}, {}, {}}},
				Stale: []staleSpec{{At: 2, Kind: "rescan_progress", Arg: 0}, {At: 4, Kind: "rescan_finished", Arg: 1}, {At: 9, Kind: "rescan_progress", Arg: 2}}},
		}},
		// first synchronisation with the birthday block at height 1, then every
		// block above genesis is replaced while the wallet is stopped: the
		// start-up rollback crosses the birthday block
		{WalletSeed: 1502, Birthday: 600, Ops: []opSpec{
			{Op: "offline", First: true, Evos: []evoSpec{{Blocks: []blockSpec{{Post: []int{1}}, {Post: []int{2}}, {}}}}},
			{Op: "offline", Evos: []evoSpec{{Depth: 3, Blocks: []blockSpec{{}, {Post: []int{2}}, {}, {}}}}},
		}},
		// an old wallet (all hashes since genesis) whose birthday block is block
		// 4; blocks 3.. are replaced while it is stopped
		{WalletSeed: 1503, Ops: []opSpec{
			{Op: "evolve", Evo: &evoSpec{Blocks: []blockSpec{{Post: []int{1}}, {Post: []int{2}}, {}, {}, {Post: []int{3}}, {}}}},
			{Op: "birthday", Height: 4},
			{Op: "offline", Evos: []evoSpec{{Depth: 4, Blocks: []blockSpec{{}, {Post: []int{2}}, {}, {}, {}}}}},
		}},
		// the backend comes back two blocks LOWER (a proper prefix of the
		// wallet's chain), then grows on another branch
		{WalletSeed: 1504, Dispatch: true, Ops: []opSpec{
			{Op: "evolve", Evo: &evoSpec{Blocks: []blockSpec{{Post: []int{1}}, {Post: []int{2}}, {}, {}, {Post: []int{3}}, {}}}},
			{Op: "offline", Evos: []evoSpec{{Depth: 2, Shorter: true}}, Then: []evoSpec{{Blocks: plain(1)}, {Blocks: []blockSpec{{}, {Post: []int{3}}, {}}}}},
		}},
		// the fork point lies below the first synchronisation's birthday block:
		// the wallet has no hash for it
		{WalletSeed: 1505, Birthday: 18000, Ops: []opSpec{
			{Op: "offline", First: true, Evos: []evoSpec{{Blocks: []blockSpec{{Post: []int{1}}}, Bulk: 40}}},
			{Op: "offline", Evos: []evoSpec{{Depth: 30, Bulk: 32}}},
		}},
		// S16: a wallet with a recovery window at height 5; offline, blocks 3..5
		// are replaced and the chain grows to height 8
		{WalletSeed: 1507, RecoveryWindow: 5, Ops: []opSpec{
			{Op: "evolve", Evo: &evoSpec{Blocks: []blockSpec{{Post: []int{1}}, {}, {}, {Post: []int{2}}, {Post: []int{3}}}}},
			{Op: "offline", Evos: []evoSpec{{Depth: 3, Blocks: []blockSpec{{}, {Post: []int{2}}, {}, {}, {Post: []int{4}}, {}}}}},
		}},
		// first synchronisation of a wallet with a recovery window, then an
		// offline reorganisation that does not make the chain higher
		{WalletSeed: 1508, RecoveryWindow: 5, Birthday: 3000, Ops: []opSpec{
			{Op: "offline", First: true, Evos: []evoSpec{{Blocks: []blockSpec{{Post: []int{1}}, {}, {}, {Post: []int{2}}, {Post: []int{3}}, {}, {}, {Post: []int{4}}, {}, {}}}}},
			{Op: "offline", Evos: []evoSpec{{Depth: 2, Blocks: []blockSpec{{Post: []int{4}}, {}}}}},
		}},
		// NotifyBlocks fails once after the first synchronisation's transaction
		// has committed: waitForSync repeats the attempt with the same nil
		// birthday argument
		{WalletSeed: 1506, Birthday: 18000, Ops: []opSpec{
			{Op: "offline", First: true, NotifyFail: 1, Evos: []evoSpec{{Blocks: []blockSpec{{Post: []int{1}}}, Bulk: 40}}},
		}},
	}
}

func main() {
	var workers int
	core.Main("c15", func(fs *flag.FlagSet) {
		fs.IntVar(&workers, "workers", 8, "cases run in parallel")
	}, func(c *core.Common, out *core.Emitter) error {
		var inputs []c15Input
		if c.Replay != "" {
			err := core.ReadReplay(c.Replay, func(raw json.RawMessage) error {
				var w struct {
					In c15Input `json:"in"`
				}
				dec := json.NewDecoder(bytes.NewReader(raw))
				if err := dec.Decode(&w); err != nil {
					return err
				}
				inputs = append(inputs, w.In)
				return nil
			})
			if err != nil {
				return err
			}
		} else {
			inputs = append(inputs, witnessCases()...)
			nlong := 1
			if c.Tier == "thorough" {
				nlong = 6
			}
			for i := 0; i < c.N; i++ {
				inputs = append(inputs, genCase(c.Seed, i, i < nlong))
			}
		}
		res := make([]c15Case, len(inputs))
		errs := make([]error, len(inputs))
		var wg sync.WaitGroup
		sem := make(chan struct{}, workers)
		for i := range inputs {
			wg.Add(1)
			sem <- struct{}{}
			go func(i int) {
				defer wg.Done()
				defer func() { <-sem }()
				res[i], errs[i] = runCase(inputs[i])
			}(i)
		}
		wg.Wait()
		for i := range res {
			if errs[i] != nil {
				return fmt.Errorf("case %d: %v", i, errs[i])
			}
			out.Emit(res[i])
		}
		return nil
	})
}
