// c15 drives a real wallet.Wallet over a simulated backend (simchain) through
// random evolutions of the best chain - extensions, reorganisations with
// wallet transactions in the replaced blocks, repeated / stale / future
// disconnect notifications, offline periods followed by the real start-up
// synchronisation - and reports, after every notification, what the wallet
// says: synced-to stamp, remembered block hashes, confirmed and unconfirmed
// transaction records.
//
// One JSON object per case: {"in":…, "obs":…, "oracle":[…], "tags":[…], "site":"…"}.
// The oracle states property C15 directly on the observations.
package main

import (
	"bytes"
	"crypto/sha256"
	"encoding/binary"
	"encoding/json"
	"flag"
	"fmt"
	"math"
	"sort"
	"sync"
	"time"

	"github.com/btcsuite/btcd/btcutil"
	"github.com/btcsuite/btcd/chaincfg"
	"github.com/btcsuite/btcd/chaincfg/chainhash"
	"github.com/btcsuite/btcd/txscript"
	"github.com/btcsuite/btcd/wire"
	"github.com/btcsuite/btcwallet/chain"
	"github.com/btcsuite/btcwallet/waddrmgr"
	"github.com/btcsuite/btcwallet/walletdb"
	"github.com/btcsuite/btcwallet/wtxmgr"

	"verifharness/internal/core"
	"verifharness/internal/gen"
	"verifharness/internal/simchain"
	"verifharness/internal/walletenv"
)

// ---------------------------------------------------------------- input

// blockSpec: wallet transactions of a new block. Pre are notified before the
// block-connected notification (btcd order), Post after it (bitcoind order).
// CB: the block's coinbase pays the wallet ("pre"/"post" = where it is notified).
type blockSpec struct {
	Pre  []int  `json:"pre,omitempty"`
	Post []int  `json:"post,omitempty"`
	CB   string `json:"cb,omitempty"`
}

// staleSpec: an extra notification inserted before position At of the
// notification stream of an evolution.
//
//	repeat: BlockDisconnected for the Arg-th block disconnected earlier
//	future: BlockDisconnected for height tip+1+Arg%3 with an unknown hash
//	wrong : BlockDisconnected for height tip-Arg%9 (>= 0) with an unknown hash
//	gap   : BlockConnected for height (highest tip so far)+2+Arg%3 (unknown block)
type staleSpec struct {
	At   int    `json:"at"`
	Kind string `json:"kind"`
	Arg  int    `json:"arg"`
}

type evoSpec struct {
	Depth  int         `json:"depth"`
	Blocks []blockSpec `json:"blocks,omitempty"`
	Bulk   int         `json:"bulk,omitempty"` // that many further empty blocks
	// Shorter (offline evolutions, hand-written replays only; never
	// generated): allow the new branch to be shorter than the replaced one.
	Shorter bool `json:"shorter,omitempty"`
}

// opSpec.Op: "evolve" (online: notifications are delivered), "unmined"
// (RelevantTx without block), "birthday" (store a birthday block: enables the
// predecessor check of PutSyncedTo), "offline" (reopen the wallet, let the
// chain evolve unobserved, then run the real start-up synchronisation).
type opSpec struct {
	Op    string      `json:"op"`
	Evo   *evoSpec    `json:"evo,omitempty"`
	Stale []staleSpec `json:"stale,omitempty"`
	Tx    int         `json:"tx,omitempty"`
	Evos  []evoSpec   `json:"evos,omitempty"`
}

type c15Input struct {
	WalletSeed int64    `json:"wallet_seed"`
	Ops        []opSpec `json:"ops"`
}

// ---------------------------------------------------------------- output

type metaJ struct {
	H    int64 `json:"h"`
	Hash int64 `json:"hash"`
	T    int64 `json:"t"`
}

// event: what was done (model operation) and what the wallet reported after it.
type event struct {
	K       string     `json:"k"` // connect|disconnect|tx|startup|rescan_finished|reopen|set_synced|set_birthday
	B       *metaJ     `json:"b,omitempty"`
	Tx      int64      `json:"tx,omitempty"`
	CB      bool       `json:"cb,omitempty"`
	Backend [][4]int64 `json:"backend,omitempty"` // startup / rescan_finished: best chain as runs (n, id0, t0, dt)
	Height  int64      `json:"height,omitempty"`
	Flag    bool       `json:"flag,omitempty"`
	Site    string     `json:"site"`
	Obs     *obsJ      `json:"obs,omitempty"`
}

type obsJ struct {
	Err         bool       `json:"err"`
	ErrText     string     `json:"err_text,omitempty"`
	Synced      metaJ      `json:"synced"`
	ChainSynced bool       `json:"chain_synced"`
	Probes      [][2]int64 `json:"probes"` // height, hash id (-1 = not stored)
	Mined       [][3]int64 `json:"mined"`  // txid, height, hash id
	Unmined     []int64    `json:"unmined"`
	ObsErr      string     `json:"obs_err,omitempty"`
}

type c15Obs struct {
	Init    metaJ      `json:"init"`
	Headers [][4]int64 `json:"headers"`
	Events  []event    `json:"events"`
	Detail  string     `json:"detail,omitempty"`
}

type c15Case struct {
	In     c15Input `json:"in"`
	Obs    c15Obs   `json:"obs"`
	Oracle []string `json:"oracle"`
	Tags   []string `json:"tags"`
	Site   string   `json:"site"`
}

// ---------------------------------------------------------------- backend wrapper

// gated wraps the simulated chain: notifications pass through a forwarder
// that records them, and NotifyBlocks (called by syncWithChain right after
// its rollback transaction) stops until the harness has looked at the wallet.
type gated struct {
	*simchain.Chain
	out  chan interface{}
	done chan struct{}
	gate chan chan struct{}
	mu   sync.Mutex
	seen []interface{}
}

func newGated(c *simchain.Chain) *gated {
	g := &gated{Chain: c, out: make(chan interface{}), done: make(chan struct{}), gate: make(chan chan struct{})}
	go func() {
		for {
			select {
			case n := <-c.Notifications():
				g.mu.Lock()
				g.seen = append(g.seen, n)
				g.mu.Unlock()
				select {
				case g.out <- n:
				case <-g.done:
					return
				}
			case <-g.done:
				return
			}
		}
	}()
	return g
}

func (g *gated) Notifications() <-chan interface{} { return g.out }

func (g *gated) NotifyBlocks() error {
	rel := make(chan struct{})
	select {
	case g.gate <- rel:
		<-rel
	case <-g.done:
	}
	return nil
}

func (g *gated) stop() { close(g.done) }

func (g *gated) taken() []interface{} {
	g.mu.Lock()
	defer g.mu.Unlock()
	s := g.seen
	g.seen = nil
	return s
}

// ---------------------------------------------------------------- runner

const (
	fakeBase    = 1000000
	unknownBase = 2000000
	cbTxBase    = 100000
)

type runner struct {
	in      c15Input
	env     *walletenv.Env
	sc      *simchain.Chain
	g       *gated
	params  *chaincfg.Params
	addrs   []btcutil.Address
	hashID  map[chainhash.Hash]int64
	nextID  int64
	nextUnk int64
	hdrs    [][2]int64 // id, time (creation order)
	txs     map[int]*wire.MsgTx
	txID    map[chainhash.Hash]int64
	nextCB  int
	fakeN   int64

	notified []*simchain.Block // the chain as the notifications delivered so far describe it
	pending  *simchain.Block   // block whose transactions are being notified before its connect
	onBest   map[int]int32     // wallet tx id -> height on the current best chain
	stale    []wtxmgr.BlockMeta
	maxTip   int32
	birthday bool

	events []event
	tags   map[string]bool
	oracle []string
	site   string
	detail string
	done   int // ops executed
}

func (r *runner) tag(t string) { r.tags[t] = true }

func (r *runner) intern(h chainhash.Hash) int64 {
	if h == (chainhash.Hash{}) {
		return 0
	}
	if id, ok := r.hashID[h]; ok {
		return id
	}
	r.nextUnk++
	id := unknownBase + r.nextUnk
	r.hashID[h] = id
	return id
}

func (r *runner) newBlockID(b *simchain.Block) {
	r.nextID++
	r.hashID[b.Hash] = r.nextID
	r.hdrs = append(r.hdrs, [2]int64{r.nextID, b.Time.Unix()})
}

func (r *runner) fakeHash() chainhash.Hash {
	r.fakeN++
	h := chainhash.Hash(sha256.Sum256([]byte(fmt.Sprintf("c15-fake-%d", r.fakeN))))
	r.hashID[h] = fakeBase + r.fakeN
	return h
}

func (r *runner) meta(b *simchain.Block) *metaJ {
	return &metaJ{H: int64(b.Height), Hash: r.intern(b.Hash), T: b.Time.Unix()}
}

func runs(ids [][2]int64) [][4]int64 {
	var out [][4]int64
	for i := 0; i < len(ids); {
		j := i + 1
		var dt int64
		if j < len(ids) && ids[j][0] == ids[i][0]+1 {
			dt = ids[j][1] - ids[i][1]
			j++
			for j < len(ids) && ids[j][0] == ids[j-1][0]+1 && ids[j][1]-ids[j-1][1] == dt {
				j++
			}
		}
		out = append(out, [4]int64{int64(j - i), ids[i][0], ids[i][1], dt})
		i = j
	}
	return out
}

func (r *runner) backendRuns() [][4]int64 {
	tip := r.sc.Tip().Height
	ids := make([][2]int64, 0, tip+1)
	for h := int32(0); h <= tip; h++ {
		b := r.sc.At(h)
		ids = append(ids, [2]int64{r.intern(b.Hash), b.Time.Unix()})
	}
	return runs(ids)
}

// walletTx returns the wallet transaction with the given id (created on first use).
func (r *runner) walletTx(id int, coinbase bool) *wire.MsgTx {
	if tx, ok := r.txs[id]; ok {
		return tx
	}
	tx := wire.NewMsgTx(2)
	if coinbase {
		var script [12]byte
		binary.LittleEndian.PutUint64(script[:8], uint64(id))
		copy(script[8:], "c15c")
		tx.AddTxIn(wire.NewTxIn(wire.NewOutPoint(&chainhash.Hash{}, math.MaxUint32), script[:], nil))
	} else {
		prev := chainhash.Hash(sha256.Sum256([]byte(fmt.Sprintf("c15-funding-%d-%d", r.in.WalletSeed, id))))
		tx.AddTxIn(wire.NewTxIn(wire.NewOutPoint(&prev, 0), nil, nil))
	}
	addr := r.addrs[id%len(r.addrs)]
	pk, err := txscript.PayToAddrScript(addr)
	if err != nil {
		panic(err)
	}
	tx.AddTxOut(wire.NewTxOut(int64(100000+id), pk))
	r.txs[id] = tx
	r.txID[tx.TxHash()] = int64(id)
	return tx
}

func (r *runner) txIDOf(h chainhash.Hash) int64 {
	if id, ok := r.txID[h]; ok {
		return id
	}
	r.nextUnk++
	id := unknownBase + r.nextUnk
	r.txID[h] = id
	return id
}

func (r *runner) probes() []int32 {
	tip := r.sc.Tip().Height
	if n := int32(len(r.notified)) - 1; n > tip {
		tip = n
	}
	if s := r.env.W.Manager.SyncedTo().Height; s > tip {
		tip = s
	}
	set := map[int32]bool{0: true, 1: true}
	for h := tip - 12; h <= tip+3; h++ {
		if h >= 0 {
			set[h] = true
		}
	}
	if r.maxTip >= waddrmgr.MaxReorgDepth-3 {
		for h := r.maxTip - waddrmgr.MaxReorgDepth - 2; h <= r.maxTip-waddrmgr.MaxReorgDepth+3; h++ {
			if h >= 0 {
				set[h] = true
			}
		}
	}
	out := make([]int32, 0, len(set))
	for h := range set {
		out = append(out, h)
	}
	sort.Slice(out, func(i, j int) bool { return out[i] < out[j] })
	return out
}

var (
	waddrmgrNS = []byte("waddrmgr")
	wtxmgrNS   = []byte("wtxmgr")
)

func (r *runner) observe(herr error) *obsJ {
	w := r.env.W
	o := &obsJ{Err: herr != nil, Probes: [][2]int64{}, Mined: [][3]int64{}, Unmined: []int64{}}
	if herr != nil {
		o.ErrText = herr.Error()
	}
	st := w.Manager.SyncedTo()
	o.Synced = metaJ{H: int64(st.Height), Hash: r.intern(st.Hash), T: st.Timestamp.Unix()}
	o.ChainSynced = w.ChainSynced()
	probes := r.probes()
	err := walletdb.View(r.env.DB, func(tx walletdb.ReadTx) error {
		ans := tx.ReadBucket(waddrmgrNS)
		for _, h := range probes {
			hash, err := w.Manager.BlockHash(ans, h)
			switch {
			case err == nil:
				o.Probes = append(o.Probes, [2]int64{int64(h), r.intern(*hash)})
			case waddrmgr.IsError(err, waddrmgr.ErrBlockNotFound):
				o.Probes = append(o.Probes, [2]int64{int64(h), -1})
			default:
				return err
			}
		}
		tns := tx.ReadBucket(wtxmgrNS)
		err := w.TxStore.RangeTransactions(tns, 0, math.MaxInt32-1, func(ds []wtxmgr.TxDetails) (bool, error) {
			for _, d := range ds {
				o.Mined = append(o.Mined, [3]int64{r.txIDOf(d.Hash), int64(d.Block.Height), r.intern(d.Block.Hash)})
			}
			return false, nil
		})
		if err != nil {
			return err
		}
		un, err := w.TxStore.UnminedTxHashes(tns)
		if err != nil {
			return err
		}
		for _, h := range un {
			o.Unmined = append(o.Unmined, r.txIDOf(*h))
		}
		return nil
	})
	if err != nil {
		o.ObsErr = err.Error()
	}
	sort.Slice(o.Mined, func(i, j int) bool {
		a, b := o.Mined[i], o.Mined[j]
		if a[0] != b[0] {
			return a[0] < b[0]
		}
		if a[1] != b[1] {
			return a[1] < b[1]
		}
		return a[2] < b[2]
	})
	sort.Slice(o.Unmined, func(i, j int) bool { return o.Unmined[i] < o.Unmined[j] })
	return o
}

func (r *runner) violate(kind, site, detail string) {
	for _, k := range r.oracle {
		if k == kind {
			return
		}
	}
	if len(r.oracle) == 0 {
		r.site = site
		r.detail = kind + ": " + detail
	} else {
		r.detail += "; " + kind + ": " + detail
	}
	r.oracle = append(r.oracle, kind)
}

// lowest height for which the property makes a claim: the wallet follows the
// chain from genesis here, and PutSyncedTo keeps MaxReorgDepth entries.
func (r *runner) lo() int32 {
	lo := r.maxTip - waddrmgr.MaxReorgDepth + 1
	if lo < 0 {
		lo = 0
	}
	return lo
}

// check states the three online clauses of the property against the chain
// the notifications delivered so far describe.
func (r *runner) check(o *obsJ, site string) {
	if o.ObsErr != "" {
		r.violate("store_unreadable", site, o.ObsErr)
		return
	}
	tip := r.notified[len(r.notified)-1]
	if o.Synced.H != int64(tip.Height) || o.Synced.Hash != r.intern(tip.Hash) {
		r.violate("synced_to_not_backend_tip", site, fmt.Sprintf("synced-to (%d, #%d), backend tip (%d, #%d)",
			o.Synced.H, o.Synced.Hash, tip.Height, r.intern(tip.Hash)))
	}
	lo := r.lo()
	for _, p := range o.Probes {
		h := int32(p[0])
		if h < lo || h > tip.Height {
			continue
		}
		if p[1] != r.intern(r.notified[h].Hash) {
			r.violate("stored_hash_not_on_best_chain", site, fmt.Sprintf("height %d: stored #%d, best chain #%d",
				h, p[1], r.intern(r.notified[h].Hash)))
		}
	}
	for _, m := range o.Mined {
		h := int32(m[1])
		if int(h) < len(r.notified) && h >= 0 && r.intern(r.notified[h].Hash) == m[2] {
			continue
		}
		if r.pending != nil && r.pending.Height == h && r.intern(r.pending.Hash) == m[2] {
			continue
		}
		r.violate("tx_confirmed_in_stale_block", site, fmt.Sprintf("tx %d recorded in (%d, #%d)", m[0], m[1], m[2]))
	}
}

func (r *runner) push(e event) { r.events = append(r.events, e) }

// ---- notifications through the wallet's handlers

func (r *runner) connect(b *simchain.Block) {
	err := r.env.W.VerifConnectBlock(b.Meta())
	r.notified = append(r.notified, b)
	if b.Height > r.maxTip {
		r.maxTip = b.Height
	}
	r.pending = nil
	o := r.observe(err)
	r.push(event{K: "connect", B: r.meta(b), Site: "BlockConnected", Obs: o})
	r.check(o, "BlockConnected")
}

func (r *runner) disconnect(b *simchain.Block) {
	err := r.env.W.VerifDisconnectBlock(b.Meta())
	r.notified = r.notified[:len(r.notified)-1]
	r.stale = append(r.stale, b.Meta())
	o := r.observe(err)
	r.push(event{K: "disconnect", B: r.meta(b), Site: "BlockDisconnected", Obs: o})
	r.check(o, "BlockDisconnected")
}

func (r *runner) relevantTx(id int, coinbase bool, b *simchain.Block, pre bool) {
	tx := r.walletTx(id, coinbase)
	var rec *wtxmgr.TxRecord
	var err error
	var bm *wtxmgr.BlockMeta
	var mj *metaJ
	if b != nil {
		rec, err = wtxmgr.NewTxRecordFromMsgTx(tx, b.Time)
		m := b.Meta()
		bm = &m
		mj = r.meta(b)
		if pre {
			r.pending = b
		}
	} else {
		rec, err = wtxmgr.NewTxRecordFromMsgTx(tx, time.Unix(1600000000, 0))
	}
	if err != nil {
		panic(err)
	}
	herr := r.env.W.VerifAddRelevantTx(rec, bm)
	o := r.observe(herr)
	r.push(event{K: "tx", Tx: int64(id), CB: coinbase, B: mj, Site: "RelevantTx", Obs: o})
	r.check(o, "RelevantTx")
}

func (r *runner) staleNtfn(s staleSpec) {
	tip := r.notified[len(r.notified)-1].Height
	switch s.Kind {
	case "gap":
		if !r.birthday {
			return // without a birthday block the wallet would jump (not a chain evolution)
		}
		// above every height the wallet ever stored a hash for (a stale
		// entry at height-1 would satisfy the predecessor check)
		bm := wtxmgr.BlockMeta{Block: wtxmgr.Block{Hash: r.fakeHash(), Height: r.maxTip + 2 + int32(s.Arg%3)},
			Time: time.Unix(1700000000, 0)}
		err := r.env.W.VerifConnectBlock(bm)
		o := r.observe(err)
		r.push(event{K: "connect", B: &metaJ{H: int64(bm.Height), Hash: r.intern(bm.Hash), T: bm.Time.Unix()},
			Site: "BlockConnected(unknown future block)", Obs: o})
		r.check(o, "BlockConnected(unknown future block)")
		r.tag("future_connect_refused")
		return
	}
	var bm wtxmgr.BlockMeta
	kind := s.Kind
	if kind == "repeat" && len(r.stale) == 0 {
		kind = "future"
	}
	switch kind {
	case "repeat":
		bm = r.stale[s.Arg%len(r.stale)]
		r.tag("stale_repeated_disconnect")
	case "future":
		bm = wtxmgr.BlockMeta{Block: wtxmgr.Block{Hash: r.fakeHash(), Height: tip + 1 + int32(s.Arg%3)},
			Time: time.Unix(1700000000, 0)}
		r.tag("stale_future_disconnect")
	default:
		h := tip - int32(s.Arg%9)
		if h < r.lo() {
			h = r.lo()
		}
		bm = wtxmgr.BlockMeta{Block: wtxmgr.Block{Hash: r.fakeHash(), Height: h}, Time: time.Unix(1700000000, 0)}
		r.tag("stale_unknown_hash_disconnect")
	}
	err := r.env.W.VerifDisconnectBlock(bm)
	o := r.observe(err)
	site := "BlockDisconnected(stale)"
	r.push(event{K: "disconnect", B: &metaJ{H: int64(bm.Height), Hash: r.intern(bm.Hash), T: bm.Time.Unix()},
		Site: site, Obs: o})
	r.check(o, site)
}

// buildBlock mines a block with the wallet transactions of the spec that are
// not already confirmed on the best chain.
func (r *runner) buildBlock(bs blockSpec) (*simchain.Block, []int, []int, int) {
	var txs []*wire.MsgTx
	cb := 0
	if bs.CB != "" {
		r.nextCB++
		cb = cbTxBase + r.nextCB
		txs = append(txs, r.walletTx(cb, true))
	}
	h := r.sc.Tip().Height + 1
	var pre, post []int
	take := func(ids []int, dst *[]int) {
		for _, id := range ids {
			if id <= 0 || id >= cbTxBase {
				continue
			}
			if _, on := r.onBest[id]; on {
				continue
			}
			r.onBest[id] = h
			txs = append(txs, r.walletTx(id, false))
			*dst = append(*dst, id)
		}
	}
	take(bs.Pre, &pre)
	take(bs.Post, &post)
	b := r.sc.Extend(txs, nil)
	r.newBlockID(b)
	if cb != 0 {
		r.onBest[cb] = h
	}
	return b, pre, post, cb
}

func (r *runner) dropFromBest(h int32) {
	for id, bh := range r.onBest {
		if bh >= h {
			delete(r.onBest, id)
		}
	}
}

type step struct {
	kind string // disconnect | connect | tx
	b    *simchain.Block
	id   int
	cb   bool
	pre  bool
}

func (r *runner) evolveOnline(e evoSpec, stale []staleSpec) {
	depth := e.Depth
	if max := int(r.sc.Tip().Height); depth > max {
		depth = max
	}
	if depth > 0 {
		r.tag("reorg")
		if depth >= 3 {
			r.tag("reorg_depth>=3")
		}
		for id, h := range r.onBest {
			_ = id
			if h > r.sc.Tip().Height-int32(depth) {
				r.tag("wallet_tx_in_replaced_block")
			}
		}
	}
	var stream []step
	for i := 0; i < depth; i++ {
		b := r.sc.Disconnect()
		stream = append(stream, step{kind: "disconnect", b: b})
	}
	r.dropFromBest(r.sc.Tip().Height + 1)
	wasStale := map[int]bool{}
	for id := range r.txs {
		if _, on := r.onBest[id]; !on {
			wasStale[id] = true
		}
	}
	specs := e.Blocks
	for i := 0; i < e.Bulk; i++ {
		specs = append(specs, blockSpec{})
	}
	for _, bs := range specs {
		b, pre, post, cb := r.buildBlock(bs)
		for _, id := range append(append([]int{}, pre...), post...) {
			if wasStale[id] {
				r.tag("wallet_tx_mined_again")
			}
		}
		if cb != 0 {
			r.tag("wallet_coinbase_tx")
		}
		if cb != 0 && bs.CB == "pre" {
			stream = append(stream, step{kind: "tx", b: b, id: cb, cb: true, pre: true})
		}
		for _, id := range pre {
			stream = append(stream, step{kind: "tx", b: b, id: id, pre: true})
			r.tag("tx_before_connect")
		}
		stream = append(stream, step{kind: "connect", b: b})
		if cb != 0 && bs.CB != "pre" {
			stream = append(stream, step{kind: "tx", b: b, id: cb, cb: true})
		}
		for _, id := range post {
			stream = append(stream, step{kind: "tx", b: b, id: id})
			r.tag("tx_after_connect")
		}
	}
	sort.SliceStable(stale, func(i, j int) bool { return stale[i].At < stale[j].At })
	si := 0
	for pos := 0; pos <= len(stream); pos++ {
		for si < len(stale) && (stale[si].At <= pos || pos == len(stream)) {
			if len(r.oracle) > 0 {
				return
			}
			r.staleNtfn(stale[si])
			si++
		}
		if pos == len(stream) || len(r.oracle) > 0 {
			break
		}
		s := stream[pos]
		switch s.kind {
		case "disconnect":
			r.disconnect(s.b)
		case "connect":
			r.connect(s.b)
		case "tx":
			r.relevantTx(s.id, s.cb, s.b, s.pre)
		}
	}
}

func (r *runner) setBirthday() error {
	if r.birthday {
		return nil
	}
	g := r.sc.At(0)
	err := walletdb.Update(r.env.DB, func(tx walletdb.ReadWriteTx) error {
		ns := tx.ReadWriteBucket(waddrmgrNS)
		return r.env.W.Manager.SetBirthdayBlock(ns, waddrmgr.BlockStamp{Height: 0, Hash: g.Hash, Timestamp: g.Time}, true)
	})
	if err != nil {
		return err
	}
	r.birthday = true
	r.tag("birthday_block_set")
	r.push(event{K: "set_birthday", Site: "SetBirthdayBlock", Obs: r.observe(nil)})
	return nil
}

// offline: the wallet is stopped, the chain evolves, the wallet is started
// and synchronises with the real start-up code.
func (r *runner) offline(evos []evoSpec) error {
	if err := r.setBirthday(); err != nil {
		return err
	}
	r.tag("offline_period")
	if r.g != nil {
		r.g.stop()
		r.g = nil
	}
	if err := r.env.Reopen(0, nil); err != nil {
		return err
	}
	r.push(event{K: "reopen", Site: "Reopen", Obs: r.observe(nil)})

	before := append([]*simchain.Block{}, r.notified...)
	minedBefore := r.events[len(r.events)-1].Obs.Mined
	for _, e := range evos {
		depth := e.Depth
		if max := int(r.sc.Tip().Height); depth > max {
			depth = max
		}
		// a valid best chain does not get shorter
		if n := len(e.Blocks) + e.Bulk; n < depth && !e.Shorter {
			depth = n
		}
		if depth > 0 {
			r.tag("offline_reorg")
			for _, h := range r.onBest {
				if h > r.sc.Tip().Height-int32(depth) {
					r.tag("offline_reorg_of_wallet_tx_block")
				}
			}
		}
		for i := 0; i < depth; i++ {
			b := r.sc.Disconnect()
			r.stale = append(r.stale, b.Meta())
		}
		r.dropFromBest(r.sc.Tip().Height + 1)
		for _, bs := range e.Blocks {
			if bs.CB != "" {
				r.tag("wallet_coinbase_tx")
			}
			r.buildBlock(bs)
		}
		for i := 0; i < e.Bulk; i++ {
			r.buildBlock(blockSpec{})
		}
		if e.Bulk > 1000 {
			r.tag("long_offline_extension")
		}
	}
	// last common block of the wallet's chain and the backend's
	common := int32(0)
	for h := int32(0); int(h) < len(before) && r.sc.At(h) != nil && r.sc.At(h).Hash == before[h].Hash; h++ {
		common = h
	}
	tipOnChain := int(common) == len(before)-1
	if !tipOnChain {
		r.tag("startup_rollback")
	}

	g := newGated(r.sc)
	r.g = g
	r.env.W.SynchronizeRPC(g)
	r.sc.Notify(chain.ClientConnected{})

	// 1. the rollback part (syncWithChain stops in NotifyBlocks)
	backend := r.backendRuns()
	select {
	case rel := <-g.gate:
		o := r.observe(nil)
		r.push(event{K: "startup", Backend: backend, Site: "syncWithChain", Obs: o})
		exp := [][3]int64{}
		for _, m := range minedBefore {
			if tipOnChain || m[1] <= int64(common) {
				exp = append(exp, m)
			}
		}
		okSynced := o.Synced.H == int64(common) && o.Synced.Hash == r.intern(before[common].Hash)
		if tipOnChain {
			okSynced = o.Synced.H == int64(len(before)-1) && o.Synced.Hash == r.intern(before[len(before)-1].Hash)
		}
		if !okSynced || !sameRecs(exp, o.Mined) {
			r.violate("startup_rollback_wrong_height", "syncWithChain", fmt.Sprintf(
				"last common block %d (wallet tip on chain: %v): synced-to (%d, #%d), confirmed records %v, expected %v",
				common, tipOnChain, o.Synced.H, o.Synced.Hash, o.Mined, exp))
		}
		close(rel)
	case <-time.After(30 * time.Second):
		o := r.observe(fmt.Errorf("syncWithChain did not reach the rescan request within 30s"))
		r.push(event{K: "startup", Backend: backend, Site: "syncWithChain", Obs: o})
		r.violate("startup_rollback_wrong_height", "syncWithChain", "start-up synchronisation does not complete")
		return nil
	}

	// 2. the rescan: relevant transactions, then RescanFinished (catchUpHashes)
	deadline := time.Now().Add(60 * time.Second)
	for !r.env.W.ChainSynced() {
		if time.Now().After(deadline) {
			r.violate("synced_to_not_backend_tip", "RescanFinished", "rescan does not finish")
			return nil
		}
		time.Sleep(200 * time.Microsecond)
	}
	tip := r.sc.Tip()
	r.notified = r.notified[:0]
	for h := int32(0); h <= tip.Height; h++ {
		r.notified = append(r.notified, r.sc.At(h))
	}
	if tip.Height > r.maxTip {
		r.maxTip = tip.Height
	}
	for _, n := range g.taken() {
		switch n := n.(type) {
		case chain.RelevantTx:
			id := r.txIDOf(n.TxRecord.Hash)
			b := r.sc.At(n.Block.Height)
			r.push(event{K: "tx", Tx: id, CB: id >= cbTxBase && id < fakeBase, B: r.meta(b), Site: "RelevantTx(rescan)"})
			r.tag("rescan_relevant_tx")
		case *chain.RescanFinished:
			o := r.observe(nil)
			r.push(event{K: "rescan_finished", Backend: backend, Height: int64(n.Height), Site: "RescanFinished", Obs: o})
			r.check(o, "RescanFinished")
		case chain.ClientConnected:
		default:
			return fmt.Errorf("unexpected notification %T during start-up", n)
		}
	}
	return nil
}

func sameRecs(a, b [][3]int64) bool {
	if len(a) != len(b) {
		return false
	}
	for i := range a {
		if a[i] != b[i] {
			return false
		}
	}
	return true
}

func runCase(in c15Input) (c15Case, error) {
	r := &runner{in: in, params: &chaincfg.RegressionNetParams, hashID: map[chainhash.Hash]int64{},
		txs: map[int]*wire.MsgTx{}, txID: map[chainhash.Hash]int64{}, onBest: map[int]int32{}, tags: map[string]bool{}}
	c := c15Case{In: in, Oracle: []string{}, Tags: []string{}}
	var seed [32]byte
	sum := sha256.Sum256([]byte(fmt.Sprintf("c15-wallet-%d", in.WalletSeed)))
	copy(seed[:], sum[:])
	env, err := walletenv.New(seed[:], time.Unix(1500000000, 0), 0, nil)
	if err != nil {
		return c, err
	}
	r.env = env
	defer func() {
		if r.g != nil {
			r.g.stop()
		}
		r.env.Close()
	}()
	r.sc = simchain.New(r.params)
	g := r.sc.At(0)
	r.newBlockID(g)
	r.notified = []*simchain.Block{g}
	env.W.VerifSetChainClient(r.sc)
	for i := 0; i < 3; i++ {
		a, err := env.W.NewAddress(0, waddrmgr.KeyScopeBIP0084)
		if err != nil {
			return c, err
		}
		r.addrs = append(r.addrs, a)
	}
	st := env.W.Manager.SyncedTo()
	c.Obs.Init = metaJ{H: int64(st.Height), Hash: r.intern(st.Hash), T: st.Timestamp.Unix()}
	env.W.SetChainSynced(true)
	r.push(event{K: "set_synced", Flag: true, Site: "SetChainSynced", Obs: r.observe(nil)})

	for i, op := range in.Ops {
		if len(r.oracle) > 0 {
			break
		}
		r.done = i + 1
		switch op.Op {
		case "evolve":
			e := evoSpec{}
			if op.Evo != nil {
				e = *op.Evo
			}
			r.evolveOnline(e, append([]staleSpec{}, op.Stale...))
		case "unmined":
			if op.Tx > 0 && op.Tx < cbTxBase {
				r.tag("unmined_tx_notification")
				r.relevantTx(op.Tx, false, nil, false)
			}
		case "birthday":
			if err := r.setBirthday(); err != nil {
				return c, err
			}
		case "offline":
			if err := r.offline(op.Evos); err != nil {
				return c, err
			}
		default:
			return c, fmt.Errorf("unknown op %q", op.Op)
		}
	}
	if len(r.oracle) > 0 {
		// keep only what was executed: the replay stops at the violation anyway
		c.In.Ops = in.Ops[:r.done]
	}
	c.Obs.Headers = runs(r.hdrs)
	c.Obs.Events = r.events
	c.Obs.Detail = r.detail
	c.Oracle = append(c.Oracle, r.oracle...)
	c.Site = r.site
	if c.Site == "" {
		c.Site = "*"
	}
	for t := range r.tags {
		c.Tags = append(c.Tags, t)
	}
	sort.Strings(c.Tags)
	return c, nil
}

// ---------------------------------------------------------------- generator

func genBlocks(r *gen.R, n int, pool int) []blockSpec {
	out := make([]blockSpec, n)
	for i := range out {
		k := r.Pick(5, 4, 2)
		for j := 0; j < k; j++ {
			id := r.Range(1, pool)
			if r.Chance(1, 2) {
				out[i].Pre = append(out[i].Pre, id)
			} else {
				out[i].Post = append(out[i].Post, id)
			}
		}
		switch r.Pick(10, 1, 1) {
		case 1:
			out[i].CB = "pre"
		case 2:
			out[i].CB = "post"
		}
	}
	return out
}

func genStale(r *gen.R, streamLen int) []staleSpec {
	var out []staleSpec
	n := r.Pick(6, 3, 2, 1)
	for i := 0; i < n; i++ {
		kind := []string{"repeat", "repeat", "future", "wrong", "gap"}[r.Pick(4, 2, 2, 2, 1)]
		out = append(out, staleSpec{At: r.Range(0, streamLen+1), Kind: kind, Arg: r.Range(0, 20)})
	}
	return out
}

func genCase(seed int64, idx int, long bool) c15Input {
	r := gen.New(seed, int64(1500+idx))
	in := c15Input{WalletSeed: seed*100000 + int64(idx)}
	pool := r.Range(3, 8)
	if r.Chance(2, 3) {
		in.Ops = append(in.Ops, opSpec{Op: "birthday"})
	}
	// initial extension so that reorgs have something to replace
	n0 := r.Range(2, 6)
	in.Ops = append(in.Ops, opSpec{Op: "evolve", Evo: &evoSpec{Blocks: genBlocks(r, n0, pool)}})
	height := n0
	if long {
		in.Ops = append(in.Ops, opSpec{Op: "offline", Evos: []evoSpec{{Depth: r.Range(0, 2), Bulk: waddrmgr.MaxReorgDepth + r.Range(-3, 8)}}})
		height += waddrmgr.MaxReorgDepth
	}
	nops := r.Range(3, 9)
	for i := 0; i < nops; i++ {
		switch r.Pick(4, 5, 1, 2, 1) {
		case 0: // extension 1-5 blocks
			n := r.Range(1, 5)
			in.Ops = append(in.Ops, opSpec{Op: "evolve", Evo: &evoSpec{Blocks: genBlocks(r, n, pool)}, Stale: genStale(r, 2*n)})
			height += n
		case 1: // reorg depth 1-8
			d := r.Range(1, 8)
			if d > height {
				d = height
			}
			n := d + r.Range(-1, 2)
			if n < 0 {
				n = 0
			}
			in.Ops = append(in.Ops, opSpec{Op: "evolve", Evo: &evoSpec{Depth: d, Blocks: genBlocks(r, n, pool)}, Stale: genStale(r, d+2*n)})
			height += n - d
		case 2:
			in.Ops = append(in.Ops, opSpec{Op: "unmined", Tx: r.Range(1, pool)})
		case 3: // offline period
			var evos []evoSpec
			for k := r.Range(0, 2); k >= 0; k-- {
				d := r.Pick(2, 2, 2, 1, 1, 1, 1, 1, 1)
				if d > height {
					d = height
				}
				n := d + r.Range(0, 3)
				evos = append(evos, evoSpec{Depth: d, Blocks: genBlocks(r, n, pool)})
				height += n - d
			}
			in.Ops = append(in.Ops, opSpec{Op: "offline", Evos: evos})
		case 4: // only stale notifications
			in.Ops = append(in.Ops, opSpec{Op: "evolve", Evo: &evoSpec{}, Stale: genStale(r, 0)})
		}
	}
	return in
}

// the S1 witness of DESIGN section 6, always run first
func witnessCase() c15Input {
	return c15Input{WalletSeed: 15, Ops: []opSpec{
		{Op: "evolve", Evo: &evoSpec{Blocks: make([]blockSpec, 5)}},
		{Op: "evolve", Evo: &evoSpec{Depth: 2}},
	}}
}

func main() {
	var workers int
	core.Main("c15", func(fs *flag.FlagSet) {
		fs.IntVar(&workers, "workers", 8, "cases run in parallel")
	}, func(c *core.Common, out *core.Emitter) error {
		var inputs []c15Input
		if c.Replay != "" {
			err := core.ReadReplay(c.Replay, func(raw json.RawMessage) error {
				var w struct {
					In c15Input `json:"in"`
				}
				dec := json.NewDecoder(bytes.NewReader(raw))
				if err := dec.Decode(&w); err != nil {
					return err
				}
				inputs = append(inputs, w.In)
				return nil
			})
			if err != nil {
				return err
			}
		} else {
			inputs = append(inputs, witnessCase())
			nlong := 1
			if c.Tier == "thorough" {
				nlong = 6
			}
			for i := 0; i < c.N; i++ {
				inputs = append(inputs, genCase(c.Seed, i, i < nlong))
			}
		}
		res := make([]c15Case, len(inputs))
		errs := make([]error, len(inputs))
		var wg sync.WaitGroup
		sem := make(chan struct{}, workers)
		for i := range inputs {
			wg.Add(1)
			sem <- struct{}{}
			go func(i int) {
				defer wg.Done()
				defer func() { <-sem }()
				res[i], errs[i] = runCase(inputs[i])
			}(i)
		}
		wg.Wait()
		for i := range res {
			if errs[i] != nil {
				return fmt.Errorf("case %d: %v", i, errs[i])
			}
			out.Emit(res[i])
		}
		return nil
	})
}
