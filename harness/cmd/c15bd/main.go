// Command c15bd drives the REAL bitcoind backend client of btcwallet
// (chain.BitcoindConn in RPC polling mode, chain.BitcoindClient with its
// ntfnHandler and reorg procedure, the ConcurrentQueue behind Notifications())
// against a loopback stub node whose best chain is extended and reorganised,
// and records the stream of BlockConnected / BlockDisconnected notifications a
// wallet would be handed.  C15 quantifies over notification sequences that
// describe a valid evolution of the best chain; with the bitcoind backend
// this client is what PRODUCES the sequence, so the stream is judged here
// (oracle) and compared with the model Sync/BitcoindReorg.v (by lib/c15.py).
//
// Output: one JSON object per case and line (the protocol of the other
// harness commands): "in" (replayable input), "bd" (block tree with id, parent
// id, height and time; per step the blocks the poller handed over, the
// notifications emitted, the wallet's observation), "oracle" (violated
// clauses), "site", "tags".
package main

import (
	"encoding/json"
	"fmt"
	"sync"
	"time"

	"github.com/btcsuite/btcd/btcutil"
	"github.com/btcsuite/btcd/chaincfg"
	"github.com/btcsuite/btcd/chaincfg/chainhash"
	"github.com/btcsuite/btcd/txscript"
	"github.com/btcsuite/btcd/wire"
	"github.com/btcsuite/btcwallet/chain"
	"github.com/btcsuite/btcwallet/waddrmgr"
	"github.com/btcsuite/btcwallet/walletdb"
	"github.com/btcsuite/btcwallet/wtxmgr"

	"verifharness/internal/core"
	"verifharness/internal/gen"
	"verifharness/internal/simchain"
	"verifharness/internal/walletenv"
)

type stepJ struct {
	Kind  string `json:"k"`             // "extend" | "reorg"
	Depth int    `json:"d"`             // blocks removed
	N     int    `json:"n"`             // blocks added
	Pay   []bool `json:"pay,omitempty"` // per added block: it holds a transaction paying the wallet
	// kind "rescan" (only step of its case; the wallet is synced to height
	// From, the chain is Init high): BitcoindClient.Rescan from the block at
	// From; when the client asks for its At-th block the node reorganises
	// (Depth blocks replaced by N new ones; At = 0: no reorganisation)
	From int `json:"from,omitempty"`
	At   int `json:"at,omitempty"`
	// poll steps: the Fail-th getblockhash request after the step fails once
	// (a transient node failure while the poller fetches the new blocks);
	// Stall: the first getblockheader request after the step takes that many
	// milliseconds (the client's handler is busy while the poller goes on)
	Fail  int `json:"fail,omitempty"`
	Stall int `json:"stall,omitempty"`
}

// walletObs is what the wallet that was handed the notifications says.
type walletObs struct {
	SyncedH  int32      `json:"synced_h"`
	SyncedB  int64      `json:"synced_b"`
	Hashes   [][2]int64 `json:"hashes"` // height, block id stored (-1 none, -2 a hash the node never produced)
	Mined    [][3]int64 `json:"mined"`  // wallet tx, height, block id
	Unmined  []int64    `json:"unmined"`
	HandlerE []string   `json:"handler_errors,omitempty"`
}

type ntfnJ struct {
	Kind   string `json:"k"` // "conn" | "disc"
	Height int32  `json:"h"`
	Block  int64  `json:"b"` // block id; -1 = a hash the node never produced
	Time   int64  `json:"t"`
}

type blockJ struct {
	ID     int64 `json:"id"`
	Prev   int64 `json:"prev"`
	Height int32 `json:"h"`
	Time   int64 `json:"t"`
}

type stepOut struct {
	Step    stepJ      `json:"step"`
	Ntfns   []ntfnJ    `json:"ntfns"`
	Tip     int64      `json:"tip"`     // node's best block after the step
	Client  int64      `json:"client"`  // client's best block when it settled (-1: unknown hash)
	Settled bool       `json:"settled"` // client's best block reached the node's tip
	Visible bool       `json:"visible"` // the step raised the height (the poller can notice it)
	Handed  []int64    `json:"handed"`  // the blocks the height-based poller hands to the client, in order
	Best0   int64      `json:"best0"`   // client's best block before the step
	Wallet  *walletObs `json:"wallet,omitempty"`
}

type inJ struct {
	BD    bool    `json:"bd"`
	Name  string  `json:"name"`
	Init  int     `json:"init"`
	Steps []stepJ `json:"steps"`
}

type caseJ struct {
	Name       string     `json:"name"`
	Init       int        `json:"init"`
	Blocks     []blockJ   `json:"blocks"`
	Steps      []stepOut  `json:"steps"`
	Violations [][]string `json:"violations"`
	Unknown    []string   `json:"unknown_rpc"`
}

type outJ struct {
	In     inJ      `json:"in"`
	BD     caseJ    `json:"bd"`
	Oracle []string `json:"oracle"`
	Site   string   `json:"site"`
	Detail string   `json:"detail,omitempty"`
	Tags   []string `json:"tags"`
}

type runner struct {
	c    *simchain.Chain
	ids  map[chainhash.Hash]int64
	blks []blockJ

	mu    sync.Mutex
	ntfns []interface{}

	env    *walletenv.Env
	script []byte
	txIDs  map[chainhash.Hash]int64
	nTx    int64
}

var (
	waddrmgrNS = []byte("waddrmgr")
	wtxmgrNS   = []byte("wtxmgr")
)

// payTx is a fresh transaction paying the wallet's address.
func (r *runner) payTx() *wire.MsgTx {
	r.nTx++
	tx := wire.NewMsgTx(2)
	var prev chainhash.Hash
	prev[0], prev[1], prev[2], prev[31] = byte(r.nTx), byte(r.nTx>>8), byte(r.nTx>>16), 0xee
	tx.AddTxIn(wire.NewTxIn(wire.NewOutPoint(&prev, 0), nil, nil))
	tx.AddTxOut(wire.NewTxOut(100000+r.nTx, r.script))
	r.txIDs[tx.TxHash()] = r.nTx
	return tx
}

func (r *runner) blockTxs(pay []bool, n int) [][]*wire.MsgTx {
	out := make([][]*wire.MsgTx, n)
	for i := range out {
		if i < len(pay) && pay[i] {
			out[i] = []*wire.MsgTx{r.payTx()}
		}
	}
	return out
}

// apply hands one notification of the real client to the wallet's handlers,
// as wallet.handleChainNotifications does.
func (r *runner) apply(n interface{}) error {
	w := r.env.W
	switch m := n.(type) {
	case chain.BlockConnected:
		return w.VerifConnectBlock(wtxmgr.BlockMeta(m))
	case chain.BlockDisconnected:
		return w.VerifDisconnectBlock(wtxmgr.BlockMeta(m))
	case chain.RelevantTx:
		return w.VerifAddRelevantTx(m.TxRecord, m.Block)
	case chain.FilteredBlockConnected:
		if len(m.RelevantTxs) > 0 {
			return w.VerifFilteredBlockConnected(m.Block, m.RelevantTxs)
		}
	}
	return nil
}

func (r *runner) observeWallet(lo int32) *walletObs {
	w := r.env.W
	o := &walletObs{Hashes: [][2]int64{}, Mined: [][3]int64{}, Unmined: []int64{}}
	st := w.Manager.SyncedTo()
	o.SyncedH, o.SyncedB = st.Height, r.id(st.Hash)
	_ = walletdb.View(r.env.DB, func(tx walletdb.ReadTx) error {
		ans := tx.ReadBucket(waddrmgrNS)
		for h := lo; h <= st.Height+1; h++ {
			hash, err := w.Manager.BlockHash(ans, h)
			switch {
			case err == nil && r.id(*hash) >= 0:
				o.Hashes = append(o.Hashes, [2]int64{int64(h), r.id(*hash)})
			case err == nil:
				o.Hashes = append(o.Hashes, [2]int64{int64(h), -2})
			case waddrmgr.IsError(err, waddrmgr.ErrBlockNotFound):
				o.Hashes = append(o.Hashes, [2]int64{int64(h), -1})
			}
		}
		tns := tx.ReadBucket(wtxmgrNS)
		_ = w.TxStore.RangeTransactions(tns, 0, 1<<30, func(ds []wtxmgr.TxDetails) (bool, error) {
			for _, d := range ds {
				o.Mined = append(o.Mined, [3]int64{r.txIDs[d.Hash], int64(d.Block.Height), r.id(d.Block.Hash)})
			}
			return false, nil
		})
		un, _ := w.TxStore.UnminedTxHashes(tns)
		for _, h := range un {
			o.Unmined = append(o.Unmined, r.txIDs[*h])
		}
		return nil
	})
	return o
}

func (r *runner) id(h chainhash.Hash) int64 {
	if v, ok := r.ids[h]; ok {
		return v
	}
	return -1
}

func (r *runner) register(b *simchain.Block) {
	if _, ok := r.ids[b.Hash]; ok {
		return
	}
	id := int64(len(r.ids))
	r.ids[b.Hash] = id
	r.blks = append(r.blks, blockJ{ID: id, Prev: r.id(b.Msg.Header.PrevBlock), Height: b.Height, Time: b.Time.Unix()})
}

func (r *runner) take() []interface{} {
	r.mu.Lock()
	defer r.mu.Unlock()
	out := r.ntfns
	r.ntfns = nil
	return out
}

func runCase(name string, init int, steps []stepJ) (caseJ, error) {
	params := chaincfg.RegressionNetParams
	r := &runner{c: simchain.New(&params), ids: map[chainhash.Hash]int64{}}
	r.register(r.c.Tip())
	rescan := len(steps) == 1 && steps[0].Kind == "rescan"
	walletAt := init
	if rescan {
		walletAt = steps[0].From
		if walletAt < 0 || walletAt > init {
			return caseJ{}, fmt.Errorf("rescan from height %d of %d", walletAt, init)
		}
	}
	// the wallet that will be handed the client's notifications: synced to
	// the initial chain through its own handlers
	env, err := walletenv.New([]byte("c15bd seed 0123456789abcdef0123456789abcdef"), time.Unix(1500000000, 0), 0, nil)
	if err != nil {
		return caseJ{}, err
	}
	defer env.Close()
	r.env, r.txIDs = env, map[chainhash.Hash]int64{}
	env.W.VerifSetChainClient(r.c)
	addr, err := env.W.NewAddress(0, waddrmgr.KeyScopeBIP0084)
	if err != nil {
		return caseJ{}, err
	}
	if r.script, err = txscript.PayToAddrScript(addr); err != nil {
		return caseJ{}, err
	}
	for i := 0; i < init; i++ {
		// in a rescan case every third block above the wallet's height pays the wallet
		var txs []*wire.MsgTx
		if rescan && i >= walletAt && i%3 == 1 {
			txs = []*wire.MsgTx{r.payTx()}
		}
		r.register(r.c.Extend(txs, nil))
	}
	for h := int32(1); h <= int32(walletAt); h++ {
		if err := env.W.VerifConnectBlock(r.c.At(h).Meta()); err != nil {
			return caseJ{}, err
		}
	}
	env.W.SetChainSynced(true)
	srv, err := r.c.ServeRPC()
	if err != nil {
		return caseJ{}, err
	}
	defer srv.Close()
	// a rescan case isolates BitcoindClient.rescan: block notifications are
	// switched on (as the wallet does before it asks for a rescan) but the
	// poller stays silent, so ntfnHandler's own reorg handling does not
	// interleave with the rescan
	pollEvery := 2 * time.Millisecond
	zmq := false
	for _, st := range steps {
		if st.Kind == "zmq" {
			zmq = true
		}
	}
	if rescan || zmq {
		// a case with "zmq" steps hands every block notification to the
		// client itself (hook VerifC15HandBlock), as a ZMQ subscription
		// delivers the node's new tip whatever its height
		pollEvery = time.Hour
	}
	conn, err := chain.NewBitcoindConn(&chain.BitcoindConfig{
		ChainParams: &params, Host: srv.Host(), User: "u", Pass: "p",
		PollingConfig: &chain.PollingConfig{
			BlockPollingInterval: pollEvery,
			TxPollingInterval:    time.Hour,
		},
	})
	if err != nil {
		return caseJ{}, err
	}
	if err := conn.Start(); err != nil {
		return caseJ{}, err
	}
	// BitcoindConn.Stop shuts the rpcclient down BEFORE it stops the poller;
	// a poll in flight at that moment waits for its answer for ever and Stop
	// never returns (a shutdown race of the backend, outside the properties):
	// stopping is given two seconds and then abandoned - every case has its
	// own connection and node
	stopWithin := func(f func()) {
		done := make(chan struct{})
		go func() { f(); close(done) }()
		select {
		case <-done:
		case <-time.After(2 * time.Second):
		}
	}
	defer stopWithin(conn.Stop)
	cl := conn.NewBitcoindClient()
	if err := cl.Start(); err != nil {
		return caseJ{}, err
	}
	defer stopWithin(cl.Stop)
	done := make(chan struct{})
	go func() {
		defer close(done)
		for n := range cl.Notifications() {
			r.mu.Lock()
			r.ntfns = append(r.ntfns, n)
			r.mu.Unlock()
		}
	}()
	if err := cl.NotifyReceived([]btcutil.Address{addr}); err != nil {
		return caseJ{}, err
	}

	out := caseJ{Name: name, Init: init}
	// the chain the notifications have described so far (what a wallet that
	// applies them holds): heights init.. as a stack of block ids
	followed := []int64{r.id(r.c.At(int32(walletAt)).Hash)}
	followedBase := int32(walletAt)
	viol := func(kind, site, detail string) {
		out.Violations = append(out.Violations, []string{kind, site, detail})
	}
	pollH := r.c.Tip().Height
	for si, st := range steps {
		before := r.c.Tip().Height
		bs0, _ := cl.BlockStamp()
		var added []*simchain.Block
		if st.Kind == "rescan" {
			fired := make(chan struct{})
			var once sync.Once
			if st.At > 0 {
				srv.Hook = func(method string, n int) {
					if method == "getblock" && n == st.At {
						once.Do(func() {
							_, nb := r.c.ReorgTxs(st.Depth, r.blockTxs(st.Pay, st.N))
							r.mu.Lock()
							added = nb
							r.mu.Unlock()
							close(fired)
						})
					}
				}
			}
			start := r.c.At(int32(walletAt)).Hash
			if err := cl.Rescan(&start, []btcutil.Address{addr}, nil); err != nil {
				return caseJ{}, err
			}
			// until RescanFinished, or the rescan gives up
			deadline := time.Now().Add(15 * time.Second)
			for time.Now().Before(deadline) {
				r.mu.Lock()
				fin := false
				for _, n := range r.ntfns {
					if _, ok := n.(*chain.RescanFinished); ok {
						fin = true
					}
				}
				r.mu.Unlock()
				if fin {
					break
				}
				time.Sleep(2 * time.Millisecond)
			}
			srv.Hook = nil
			r.mu.Lock()
			nb := added
			r.mu.Unlock()
			added = nb
			before = -1 // always judged ...
			if st.At == init-st.From && st.N <= st.Depth {
				// ... unless the node switched to a branch that is not
				// higher while the rescan fetched its LAST block: no later
				// request of the rescan can show it (the next block
				// notification will); the stream is still judged
				before = 1 << 30
			}
		} else if st.Kind == "zmq" {
			// the node switches (Depth blocks replaced by N new ones, N may
			// equal Depth or be 0 with Depth 0 for a plain extension) and
			// publishes its new tip
			_, added = r.c.ReorgTxs(st.Depth, r.blockTxs(st.Pay, st.N))
			for _, b := range added {
				r.register(b)
			}
			cl.VerifC15HandBlock(r.c.Tip().Msg)
			before = r.c.Tip().Height - 1 // judged whenever the new tip is at least as high as the client's block
			if bs0.Height > r.c.Tip().Height {
				before = 1 << 30
			}
		} else if st.Kind == "extend" || st.Kind == "reorg" {
			if st.Fail > 0 {
				base := srv.CallCount("getblockhash")
				var once sync.Once
				srv.Fail = func(method string, n int) bool {
					hit := false
					if method == "getblockhash" && n == base+st.Fail {
						once.Do(func() { hit = true })
					}
					return hit
				}
			}
			if st.Stall > 0 {
				var once sync.Once
				srv.Hook = func(method string, n int) {
					if method == "getblockheader" {
						once.Do(func() { time.Sleep(time.Duration(st.Stall) * time.Millisecond) })
					}
				}
			}
			d := st.Depth
			if st.Kind == "extend" {
				d = 0
			}
			_, added = r.c.ReorgTxs(d, r.blockTxs(st.Pay, st.N))
		} else if st.Kind == "extend" {
			_, added = r.c.ReorgTxs(0, r.blockTxs(st.Pay, st.N))
		} else {
			_, added = r.c.ReorgTxs(st.Depth, r.blockTxs(st.Pay, st.N))
		}
		for _, b := range added {
			r.register(b)
		}
		tip := r.c.Tip()
		so := stepOut{Step: st, Tip: r.id(tip.Hash), Visible: tip.Height > before, Best0: r.id(bs0.Hash), Handed: []int64{}}
		if st.Kind == "zmq" {
			so.Handed = append(so.Handed, r.id(tip.Hash))
		} else {
			for h := pollH + 1; h <= tip.Height; h++ {
				so.Handed = append(so.Handed, r.id(r.c.At(h).Hash))
			}
		}
		if tip.Height > pollH {
			pollH = tip.Height
		}
		// wait until the client has caught up (its best block is the node's
		// tip), or - for a step the height-based poller cannot see - a grace
		// period.
		deadline := time.Now().Add(12 * time.Second)
		if !so.Visible {
			deadline = time.Now().Add(60 * time.Millisecond)
		}
		if st.Kind == "rescan" {
			deadline = time.Now()
			so.Settled = true // judged by the notified tip below
		}
		for time.Now().Before(deadline) {
			bs, _ := cl.BlockStamp()
			if bs.Hash == tip.Hash {
				so.Settled = true
				break
			}
			time.Sleep(time.Millisecond)
		}
		time.Sleep(15 * time.Millisecond) // let the queue drain
		bs, _ := cl.BlockStamp()
		so.Client = r.id(bs.Hash)
		site := fmt.Sprintf("%s(depth=%d)", st.Kind, st.Depth)
		var herrs []string
		for _, n := range r.take() {
			if err := r.apply(n); err != nil {
				herrs = append(herrs, err.Error())
			}
			switch m := n.(type) {
			case chain.BlockConnected:
				id := r.id(m.Hash)
				so.Ntfns = append(so.Ntfns, ntfnJ{"conn", m.Height, id, m.Time.Unix()})
				top := followed[len(followed)-1]
				wantH := followedBase + int32(len(followed))
				if id < 0 || m.Height != wantH || r.blks[id].Prev != top {
					viol("connected_block_does_not_extend_notified_tip", site,
						fmt.Sprintf("step %d: connected (h=%d, block %d) on top of block %d at height %d", si, m.Height, id, top, wantH-1))
				}
				followed = append(followed, id)
			case chain.BlockDisconnected:
				id := r.id(m.Hash)
				so.Ntfns = append(so.Ntfns, ntfnJ{"disc", m.Height, id, m.Time.Unix()})
				top := followed[len(followed)-1]
				topH := followedBase + int32(len(followed)) - 1
				if id != top || m.Height != topH {
					viol("disconnected_block_is_not_the_notified_tip", site,
						fmt.Sprintf("step %d: disconnected (h=%d, block %d) but the notified tip is block %d at height %d", si, m.Height, id, top, topH))
				}
				if len(followed) > 1 {
					followed = followed[:len(followed)-1]
				} else {
					// the stream went below the block the client started
					// at: follow the node's own ancestry
					followedBase--
					if top >= 0 {
						followed = []int64{r.blks[top].Prev}
					}
				}
			}
		}
		if so.Visible {
			if !so.Settled {
				viol("client_tip_is_not_backend_tip", site, fmt.Sprintf("step %d: client best block %d, node tip %d", si, so.Client, so.Tip))
			}
			if followed[len(followed)-1] != so.Tip {
				viol("notified_tip_is_not_backend_tip", site,
					fmt.Sprintf("step %d: notifications end at block %d, node tip %d", si, followed[len(followed)-1], so.Tip))
			}
		}
		// the wallet that applied exactly these notifications, judged in the
		// property's words against the node
		lo := tip.Height - 8
		if lo < 0 {
			lo = 0
		}
		wo := r.observeWallet(lo)
		wo.HandlerE = herrs
		so.Wallet = wo
		if so.Visible {
			if wo.SyncedB != so.Tip || wo.SyncedH != tip.Height {
				viol("wallet_synced_to_is_not_backend_tip", site,
					fmt.Sprintf("step %d: wallet synced to block %d at height %d, node tip block %d at height %d", si, wo.SyncedB, wo.SyncedH, so.Tip, tip.Height))
			}
			for _, hb := range wo.Hashes {
				if at := r.c.At(int32(hb[0])); at != nil && hb[1] != r.id(at.Hash) {
					viol("wallet_hash_is_not_best_chain_hash", site,
						fmt.Sprintf("step %d: height %d: wallet remembers block %d, best chain has block %d", si, hb[0], hb[1], r.id(at.Hash)))
				}
			}
			for _, m := range wo.Mined {
				if at := r.c.At(int32(m[1])); at == nil || r.id(at.Hash) != m[2] {
					viol("transaction_confirmed_in_block_off_best_chain", site,
						fmt.Sprintf("step %d: wallet tx %d reported confirmed in block %d at height %d, which is not on the best chain", si, m[0], m[2], m[1]))
				}
			}
		}
		out.Steps = append(out.Steps, so)
	}
	out.Blocks = r.blks
	out.Unknown = srv.Unknown
	return out, nil
}

func genSteps(g *gen.R, long bool) (int, []stepJ) {
	init := 3 + g.Intn(6)
	n := 4 + g.Intn(5)
	if long {
		n = 10 + g.Intn(10)
	}
	var steps []stepJ
	height := init
	for i := 0; i < n; i++ {
		switch g.Intn(10) {
		case 0, 1, 2:
			k := 1 + g.Intn(3)
			steps = append(steps, stepJ{Kind: "extend", N: k})
			height += k
		case 3:
			// a reorganisation that does not raise the height (unnoticed by
			// the poller) followed by an extension of the new branch
			d := 1 + g.Intn(3)
			if d >= height {
				d = 1
			}
			steps = append(steps, stepJ{Kind: "reorg", Depth: d, N: d})
			steps = append(steps, stepJ{Kind: "extend", N: 1 + g.Intn(2)})
			height++
		default:
			d := 1 + g.Intn(5)
			if d >= height {
				d = height - 1
			}
			if d < 1 {
				d = 1
			}
			e := 1 + g.Intn(3)
			steps = append(steps, stepJ{Kind: "reorg", Depth: d, N: d + e})
			height += e
		}
	}
	for i := range steps {
		steps[i].Pay = make([]bool, steps[i].N)
		for j := range steps[i].Pay {
			steps[i].Pay[j] = g.Intn(3) == 0
		}
	}
	return init, steps
}

func emit(out *core.Emitter, in inJ) error {
	c, err := runCase(in.Name, in.Init, in.Steps)
	if err != nil {
		return fmt.Errorf("%s: %v", in.Name, err)
	}
	o := outJ{In: in, BD: c, Oracle: []string{}, Site: "*", Tags: []string{"bitcoind_client"}}
	seen := map[string]bool{}
	for _, v := range c.Violations {
		if !seen[v[0]] {
			seen[v[0]] = true
			o.Oracle = append(o.Oracle, v[0])
		}
		if o.Detail == "" {
			o.Site, o.Detail = "BitcoindClient "+v[1], v[2]
		}
	}
	deep, paid := false, false
	for _, st := range c.Steps {
		n := 0
		for _, x := range st.Ntfns {
			if x.Kind == "disc" {
				n++
			}
		}
		if n >= 2 {
			deep = true
		}
		if st.Wallet != nil && len(st.Wallet.Mined) > 0 {
			paid = true
		}
	}
	if len(in.Steps) == 1 && in.Steps[0].Kind == "rescan" {
		o.Tags = append(o.Tags, "bitcoind_rescan")
		nd := 0
		for _, x := range c.Steps[0].Ntfns {
			if x.Kind == "disc" {
				nd++
			}
		}
		if nd > 0 {
			o.Tags = append(o.Tags, "reorg_during_rescan_detaches_notified_block")
			deep = true
		}
		if in.Steps[0].At > 0 && in.Steps[0].Depth > in.Init-in.Steps[0].From {
			o.Tags = append(o.Tags, "reorg_during_rescan_below_start_block")
		}
	}
	if deep {
		o.Tags = append(o.Tags, "bitcoind_reorg_deeper_than_one")
	}
	if deep && paid {
		o.Tags = append(o.Tags, "wallet_tx_in_replaced_block")
	}
	out.Emit(o)
	return nil
}

func main() {
	core.Main("c15bd", nil, func(c *core.Common, out *core.Emitter) error {
		if c.Replay != "" {
			return core.ReadReplay(c.Replay, func(raw json.RawMessage) error {
				var w struct {
					In inJ `json:"in"`
				}
				if err := json.Unmarshal(raw, &w); err != nil {
					return err
				}
				return emit(out, w.In)
			})
		}
		// fixed witnesses first: depth 1, 2, 3 reorganisations, a wallet
		// transaction in the lower of two detached blocks, a reorg the poller
		// cannot see followed by an extension, back-to-back reorgs
		ws := []inJ{
			{Name: "w-depth1", Init: 4, Steps: []stepJ{{Kind: "reorg", Depth: 1, N: 2}}},
			{Name: "w-depth2", Init: 4, Steps: []stepJ{{Kind: "reorg", Depth: 2, N: 3}}},
			{Name: "w-depth2-wallet-tx-in-lower-detached-block", Init: 4, Steps: []stepJ{
				{Kind: "extend", N: 2, Pay: []bool{true, false}}, {Kind: "reorg", Depth: 2, N: 3}}},
			{Name: "w-depth3", Init: 5, Steps: []stepJ{{Kind: "reorg", Depth: 3, N: 4}, {Kind: "extend", N: 1}}},
			{Name: "w-same-height-then-extend", Init: 5, Steps: []stepJ{{Kind: "reorg", Depth: 2, N: 2}, {Kind: "extend", N: 1}}},
			{Name: "w-back-to-back", Init: 6, Steps: []stepJ{{Kind: "reorg", Depth: 2, N: 3}, {Kind: "reorg", Depth: 3, N: 4}, {Kind: "reorg", Depth: 1, N: 2}}},
			{Name: "w-jump", Init: 3, Steps: []stepJ{{Kind: "extend", N: 3}, {Kind: "reorg", Depth: 4, N: 6}}},
		}
		ws = append(ws,
			inJ{Name: "w-zmq-same-height-branch-then-child", Init: 5, Steps: []stepJ{{Kind: "zmq", Depth: 1, N: 1}, {Kind: "zmq", Depth: 0, N: 1}}},
			inJ{Name: "w-zmq-same-height-depth2-then-child", Init: 6, Steps: []stepJ{{Kind: "zmq", Depth: 2, N: 2, Pay: []bool{true, false}}, {Kind: "zmq", Depth: 0, N: 1}, {Kind: "zmq", Depth: 3, N: 5}}},
			inJ{Name: "w-poll-last-fetch-of-tick-fails-once", Init: 4, Steps: []stepJ{{Kind: "extend", N: 2, Fail: 2}}},
			inJ{Name: "w-poll-first-fetch-of-tick-fails-once", Init: 4, Steps: []stepJ{{Kind: "extend", N: 3, Fail: 1}, {Kind: "extend", N: 1}}},
			inJ{Name: "w-burst-behind-busy-handler", Init: 4, Steps: []stepJ{{Kind: "reorg", Depth: 2, N: 140, Stall: 400}}},
			inJ{Name: "w-rescan-no-reorg", Init: 8, Steps: []stepJ{{Kind: "rescan", From: 2}}},
			inJ{Name: "w-rescan-reorg-depth1-at-fetched-block", Init: 8, Steps: []stepJ{{Kind: "rescan", From: 2, At: 4, Depth: 3, N: 4, Pay: []bool{true, false, false, true}}}},
			inJ{Name: "w-rescan-reorg-depth3-below-fetched-blocks", Init: 9, Steps: []stepJ{{Kind: "rescan", From: 1, At: 6, Depth: 6, N: 8, Pay: []bool{false, true}}}},
			inJ{Name: "w-rescan-reorg-below-rescan-start", Init: 6, Steps: []stepJ{{Kind: "rescan", From: 4, At: 1, Depth: 4, N: 6, Pay: []bool{true}}}},
			inJ{Name: "w-rescan-reorg-replaces-start-block-only", Init: 5, Steps: []stepJ{{Kind: "rescan", From: 5, At: 0, Depth: 0, N: 0}}},
			inJ{Name: "w-rescan-reorg-above-fetched-blocks", Init: 9, Steps: []stepJ{{Kind: "rescan", From: 1, At: 3, Depth: 2, N: 3}}},
		)
		for _, w := range ws {
			w.BD = true
			if err := emit(out, w); err != nil {
				return err
			}
		}
		// reorganisations DURING a rescan: start height, the fetch at which
		// the node switches, depth (above / at / below the fetched blocks,
		// below the start block) and length of the new branch
		for i := 0; i < c.N/2+1; i++ {
			g := gen.New(c.Seed, int64(9000+i))
			init := 3 + g.Intn(9)
			from := g.Intn(init)
			at := 0
			if g.Intn(8) != 0 {
				at = 1 + g.Intn(init-from)
			}
			depth := 1 + g.Intn(init-1)
			if depth > init-1 {
				depth = init - 1
			}
			n := depth + g.Intn(4)
			st := stepJ{Kind: "rescan", From: from, At: at}
			if at > 0 {
				st.Depth, st.N = depth, n
				st.Pay = make([]bool, n)
				for j := range st.Pay {
					st.Pay[j] = g.Intn(3) == 0
				}
			}
			if err := emit(out, inJ{BD: true, Name: fmt.Sprintf("r-%d-%d", c.Seed, i), Init: init, Steps: []stepJ{st}}); err != nil {
				return err
			}
		}
		// ZMQ-style delivery: only the node's new tip is handed over, also
		// when it is not higher than the client's block
		for i := 0; i < c.N/3+1; i++ {
			g := gen.New(c.Seed, int64(11000+i))
			init := 4 + g.Intn(6)
			var steps []stepJ
			h := init
			for k := 0; k < 3+g.Intn(4); k++ {
				d := g.Intn(4)
				if d >= h {
					d = h - 1
				}
				n := d + g.Intn(3)
				if d == 0 && n == 0 {
					n = 1
				}
				pay := make([]bool, n)
				for j := range pay {
					pay[j] = g.Intn(3) == 0
				}
				steps = append(steps, stepJ{Kind: "zmq", Depth: d, N: n, Pay: pay})
				h += n - d
			}
			if err := emit(out, inJ{BD: true, Name: fmt.Sprintf("z-%d-%d", c.Seed, i), Init: init, Steps: steps}); err != nil {
				return err
			}
		}
		for i := 0; i < c.N; i++ {
			g := gen.New(c.Seed, int64(7000+i))
			init, steps := genSteps(g, c.Tier == "thorough")
			if err := emit(out, inJ{BD: true, Name: fmt.Sprintf("g-%d-%d", c.Seed, i), Init: init, Steps: steps}); err != nil {
				return err
			}
		}
		return nil
	})
}
