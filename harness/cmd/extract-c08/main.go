// Command extract-c08 is the FALLBACK fact source of lib/extract_c08.py: when
// the source shape of waddrmgr/scoped_manager.go is not recognised, the facts of
// coq/Generated/AddrCache.v are determined by running the code built from the
// repository (the harness module resolves the btcwallet packages to it) on the
// witness scenarios of those facts.  This program only runs the scenarios and
// prints what it observed; which observation decides which fact, and why, is
// documented in lib/extract_c08.py (probe_facts).
//
// stdout: one JSON object
//
//	{"readback":[{fate,int,n,warm,found:[bool...],on_disk:[bool...]}],
//	 "next_abort":[{fate,int,n,warm, ext0,int0,ext1,int1, last0,last1, issued:[idx...], reissued:[idx...]}],
//	 "next_commit":[{int,n,warm, before, after, last, issued:[...], found:[...], following, fresh_after}],
//	 "extend_abort":[{fate,int,to, before, after, found}],
//	 "extend_commit":[{int,to,warm, before, after, last, restart_next}],
//	 "extend_fp":[{fp, warm, int, running:[fp...], restarted:[fp...]}],
//	 "rename":[{kind, committed_mem, committed_disk, aborted_mem, aborted_disk, fate}]}
package main

import (
	"bytes"
	"encoding/json"
	"errors"
	"fmt"
	"os"
	"path/filepath"
	"time"

	"github.com/btcsuite/btcd/btcutil"
	"github.com/btcsuite/btcd/btcutil/hdkeychain"
	"github.com/btcsuite/btcd/chaincfg"
	"github.com/btcsuite/btcwallet/waddrmgr"
	"github.com/btcsuite/btcwallet/walletdb"
	_ "github.com/btcsuite/btcwallet/walletdb/bdb"

	"verifharness/internal/abortdb"
)

var (
	params   = &chaincfg.MainNetParams
	seed     = bytes.Repeat([]byte{0x2a, 0x64, 0xdf, 0x08}, 8)
	pubPass  = []byte("c08-public")
	privPass = []byte("c08-private")
	nsKey    = []byte("waddrmgr")
	scope    = waddrmgr.KeyScopeBIP0084
)

type inst struct {
	db  *abortdb.DB
	mgr *waddrmgr.Manager
	sm  *waddrmgr.ScopedKeyManager
}

type env struct {
	dir  string
	base []byte
	seq  int
}

func newEnv() (*env, error) {
	dir, err := os.MkdirTemp("", "vh-xc08-")
	if err != nil {
		return nil, err
	}
	path := filepath.Join(dir, "base.db")
	db, err := walletdb.Create("bdb", path, true, time.Minute, false)
	if err != nil {
		return nil, err
	}
	root, err := hdkeychain.NewMaster(seed, params)
	if err != nil {
		return nil, err
	}
	err = walletdb.Update(db, func(tx walletdb.ReadWriteTx) error {
		ns, err := tx.CreateTopLevelBucket(nsKey)
		if err != nil {
			return err
		}
		return waddrmgr.Create(ns, root, pubPass, privPass, params, &waddrmgr.FastScryptOptions, time.Unix(1600000000, 0))
	})
	if err != nil {
		return nil, err
	}
	if err := db.Close(); err != nil {
		return nil, err
	}
	img, err := os.ReadFile(path)
	if err != nil {
		return nil, err
	}
	return &env{dir: dir, base: img}, nil
}

func openAt(path string) (*inst, error) {
	raw, err := walletdb.Open("bdb", path, true, time.Minute, false)
	if err != nil {
		return nil, err
	}
	in := &inst{db: abortdb.New(raw)}
	err = walletdb.View(in.db, func(tx walletdb.ReadTx) error {
		ns := tx.ReadBucket(nsKey)
		m, err := waddrmgr.Open(ns, pubPass, params)
		if err != nil {
			return err
		}
		in.mgr = m
		if err := m.Unlock(ns, privPass); err != nil {
			return err
		}
		in.sm, err = m.FetchScopedKeyManager(scope)
		return err
	})
	if err != nil {
		raw.Close()
		return nil, err
	}
	return in, nil
}

// fresh opens a new running manager on a pristine database.
func (e *env) fresh() (*inst, func(), error) {
	e.seq++
	path := filepath.Join(e.dir, fmt.Sprintf("p%d.db", e.seq))
	if err := os.WriteFile(path, e.base, 0600); err != nil {
		return nil, nil, err
	}
	in, err := openAt(path)
	if err != nil {
		return nil, nil, err
	}
	return in, func() { in.mgr.Close(); in.db.Close(); os.Remove(path) }, nil
}

// restarted opens a second manager on a copy of the running one's database.
func (e *env) restarted(r *inst) (*inst, func(), error) {
	e.seq++
	path := filepath.Join(e.dir, fmt.Sprintf("c%d.db", e.seq))
	f, err := os.Create(path)
	if err != nil {
		return nil, nil, err
	}
	if err := r.db.Copy(f); err != nil {
		f.Close()
		return nil, nil, err
	}
	f.Close()
	in, err := openAt(path)
	if err != nil {
		return nil, nil, err
	}
	return in, func() { in.mgr.Close(); in.db.Close(); os.Remove(path) }, nil
}

// tx runs f in one read/write transaction that ends as fate says.
func (in *inst) tx(fate string, f func(ns walletdb.ReadWriteBucket) error) error {
	if fate == "failcommit" {
		in.db.FailNextCommit()
	}
	err := walletdb.Update(in.db, func(tx walletdb.ReadWriteTx) error {
		if err := f(tx.ReadWriteBucket(nsKey)); err != nil {
			return fmt.Errorf("scenario: %w", err)
		}
		switch fate {
		case "abort":
			return abortdb.ErrCallerAbort
		case "dryrun":
			return walletdb.ErrDryRunRollBack
		}
		return nil
	})
	switch {
	case fate == "commit":
		return err
	case fate == "abort" && errors.Is(err, abortdb.ErrCallerAbort),
		fate == "dryrun" && errors.Is(err, walletdb.ErrDryRunRollBack),
		fate == "failcommit" && errors.Is(err, abortdb.ErrCommitFailed):
		return nil
	}
	return fmt.Errorf("transaction with fate %s returned %v", fate, err)
}

func (in *inst) view(f func(ns walletdb.ReadBucket) error) error {
	return walletdb.View(in.db, func(tx walletdb.ReadTx) error { return f(tx.ReadBucket(nsKey)) })
}

func (in *inst) next(ns walletdb.ReadWriteBucket, acct uint32, internal bool, n uint32) ([]waddrmgr.ManagedAddress, error) {
	if internal {
		return in.sm.NextInternalAddresses(ns, acct, n)
	}
	return in.sm.NextExternalAddresses(ns, acct, n)
}

func idxOf(ma waddrmgr.ManagedAddress) int64 {
	if pk, ok := ma.(waddrmgr.ManagedPubKeyAddress); ok {
		if _, dp, ok := pk.DerivationInfo(); ok {
			return int64(dp.Index)
		}
	}
	return -1
}

type counts struct {
	Ext, Int uint32
	Name     string
}

func (in *inst) props(acct uint32) (counts, error) {
	var c counts
	err := in.view(func(ns walletdb.ReadBucket) error {
		p, err := in.sm.AccountProperties(ns, acct)
		if err != nil {
			return err
		}
		c = counts{p.ExternalKeyCount, p.InternalKeyCount, p.AccountName}
		return nil
	})
	return c, err
}

// last returns the index of Last{External,Internal}Address, -1 when there is none.
func (in *inst) last(acct uint32, internal bool) (int64, error) {
	idx := int64(-1)
	err := in.view(func(ns walletdb.ReadBucket) error {
		var ma waddrmgr.ManagedAddress
		var err error
		if internal {
			ma, err = in.sm.LastInternalAddress(ns, acct)
		} else {
			ma, err = in.sm.LastExternalAddress(ns, acct)
		}
		if err != nil {
			if waddrmgr.IsError(err, waddrmgr.ErrAddressNotFound) {
				return nil
			}
			return err
		}
		idx = idxOf(ma)
		return nil
	})
	return idx, err
}

func (in *inst) known(addrs []btcutil.Address) ([]bool, error) {
	out := make([]bool, len(addrs))
	err := in.view(func(ns walletdb.ReadBucket) error {
		for i, a := range addrs {
			_, err := in.sm.Address(ns, a)
			out[i] = err == nil
		}
		return nil
	})
	return out, err
}

func cnt(c counts, internal bool) uint32 {
	if internal {
		return c.Int
	}
	return c.Ext
}

// warm issues one committed address per branch and reads the account, so that
// caches are filled and the indices are not zero.
func (in *inst) warm() error {
	err := in.tx("commit", func(ns walletdb.ReadWriteBucket) error {
		if _, err := in.next(ns, 0, false, 1); err != nil {
			return err
		}
		_, err := in.next(ns, 0, true, 1)
		return err
	})
	if err != nil {
		return err
	}
	_, err = in.props(0)
	return err
}

type variant struct {
	Fate string `json:"fate"`
	Int  bool   `json:"int"`
	N    uint32 `json:"n"`
	Warm bool   `json:"warm"`
}

func variants() []variant {
	var vs []variant
	for _, f := range []string{"abort", "dryrun", "failcommit"} {
		for _, b := range []bool{false, true} {
			for _, w := range []bool{false, true} {
				n := uint32(1)
				if b != w {
					n = 2
				}
				vs = append(vs, variant{f, b, n, w})
			}
		}
	}
	return vs
}

// importKey is an account key (m/purpose'/coin'/0' of another seed, neutered) to import.
func importKey() (*hdkeychain.ExtendedKey, error) {
	k, err := hdkeychain.NewMaster(bytes.Repeat([]byte{0xa0}, 32), params)
	if err != nil {
		return nil, err
	}
	for _, c := range []uint32{scope.Purpose, scope.Coin, 0} {
		if k, err = k.DeriveNonStandard(c + hdkeychain.HardenedKeyStart); err != nil { // nolint:staticcheck
			return nil, err
		}
	}
	return k.Neuter()
}

// childAddr is the scope's (BIP0084: witness pubkey hash) address of branch/index of an account key.
func childAddr(xk *hdkeychain.ExtendedKey, branch, idx uint32) (btcutil.Address, error) {
	bk, err := xk.DeriveNonStandard(branch) // nolint:staticcheck
	if err != nil {
		return nil, err
	}
	ck, err := bk.DeriveNonStandard(idx) // nolint:staticcheck
	if err != nil {
		return nil, err
	}
	pub, err := ck.ECPubKey()
	if err != nil {
		return nil, err
	}
	return btcutil.NewAddressWitnessPubKeyHash(btcutil.Hash160(pub.SerializeCompressed()), params)
}

// fingerprints: DerivationInfo().MasterKeyFingerprint of every address (-1: not known / no derivation info).
func (in *inst) fingerprints(addrs []btcutil.Address) ([]int64, error) {
	out := make([]int64, len(addrs))
	err := in.view(func(ns walletdb.ReadBucket) error {
		for i, a := range addrs {
			out[i] = -1
			ma, err := in.sm.Address(ns, a)
			if err != nil {
				continue
			}
			if pk, ok := ma.(waddrmgr.ManagedPubKeyAddress); ok {
				if _, dp, ok := pk.DerivationInfo(); ok {
					out[i] = int64(dp.MasterKeyFingerprint)
				}
			}
		}
		return nil
	})
	return out, err
}

func main() {
	out := map[string]interface{}{}
	if err := run(out); err != nil {
		fmt.Fprintln(os.Stderr, "extract-c08:", err)
		os.Exit(3)
	}
	b, _ := json.Marshal(out)
	os.Stdout.Write(b)
}

func run(out map[string]interface{}) error {
	e, err := newEnv()
	if err != nil {
		return err
	}
	defer os.RemoveAll(e.dir)

	// ---- read-back / rolled-back issuance
	var rbs, nas []map[string]interface{}
	for _, v := range variants() {
		r, done, err := e.fresh()
		if err != nil {
			return err
		}
		if v.Warm {
			if err := r.warm(); err != nil {
				done()
				return err
			}
		}
		c0, err := r.props(0)
		if err != nil {
			done()
			return err
		}
		l0, _ := r.last(0, v.Int)
		var addrs []btcutil.Address
		var issued []int64
		err = r.tx(v.Fate, func(ns walletdb.ReadWriteBucket) error {
			mas, err := r.next(ns, 0, v.Int, v.N)
			for _, ma := range mas {
				addrs = append(addrs, ma.Address())
				issued = append(issued, idxOf(ma))
			}
			return err
		})
		if err != nil {
			done()
			return err
		}
		found, err := r.known(addrs)
		if err != nil {
			done()
			return err
		}
		c1, err := r.props(0)
		if err != nil {
			done()
			return err
		}
		l1, _ := r.last(0, v.Int)
		// what a restarted manager would issue next, and what the running one issues
		rs, rdone, err := e.restarted(r)
		if err != nil {
			done()
			return err
		}
		cf, err := rs.props(0)
		var onDisk []bool
		if err == nil {
			onDisk, err = rs.known(addrs)
		}
		rdone()
		if err != nil {
			done()
			return err
		}
		var reissued []int64
		err = r.tx("commit", func(ns walletdb.ReadWriteBucket) error {
			mas, err := r.next(ns, 0, v.Int, v.N)
			for _, ma := range mas {
				reissued = append(reissued, idxOf(ma))
			}
			return err
		})
		done()
		if err != nil {
			return err
		}
		rbs = append(rbs, map[string]interface{}{"fate": v.Fate, "int": v.Int, "n": v.N, "warm": v.Warm, "found": found, "on_disk": onDisk})
		nas = append(nas, map[string]interface{}{"fate": v.Fate, "int": v.Int, "n": v.N, "warm": v.Warm,
			"before": cnt(c0, v.Int), "after": cnt(c1, v.Int), "other_before": cnt(c0, !v.Int), "other_after": cnt(c1, !v.Int),
			"last0": l0, "last1": l1, "issued": issued, "reissued": reissued, "restart_next": cnt(cf, v.Int)})
	}
	out["readback"] = rbs
	out["next_abort"] = nas

	// ---- committed issuance
	var ncs []map[string]interface{}
	for _, v := range variants() {
		if v.Fate != "abort" { // one pass over (branch, n, warm)
			continue
		}
		r, done, err := e.fresh()
		if err != nil {
			return err
		}
		if v.Warm {
			if err := r.warm(); err != nil {
				done()
				return err
			}
		}
		c0, err := r.props(0)
		if err != nil {
			done()
			return err
		}
		var addrs []btcutil.Address
		var issued []int64
		err = r.tx("commit", func(ns walletdb.ReadWriteBucket) error {
			mas, err := r.next(ns, 0, v.Int, v.N)
			for _, ma := range mas {
				addrs = append(addrs, ma.Address())
				issued = append(issued, idxOf(ma))
			}
			return err
		})
		if err != nil {
			done()
			return err
		}
		c1, err := r.props(0)
		if err != nil {
			done()
			return err
		}
		l1, _ := r.last(0, v.Int)
		found, err := r.known(addrs)
		if err != nil {
			done()
			return err
		}
		rs, rdone, err := e.restarted(r)
		if err != nil {
			done()
			return err
		}
		cf, err := rs.props(0)
		rdone()
		if err != nil {
			done()
			return err
		}
		following := int64(-1)
		err = r.tx("commit", func(ns walletdb.ReadWriteBucket) error {
			mas, err := r.next(ns, 0, v.Int, 1)
			if err == nil {
				following = idxOf(mas[0])
			}
			return err
		})
		done()
		if err != nil {
			return err
		}
		ncs = append(ncs, map[string]interface{}{"int": v.Int, "n": v.N, "warm": v.Warm, "before": cnt(c0, v.Int),
			"after": cnt(c1, v.Int), "last": l1, "issued": issued, "found": found, "following": following,
			"restart_next": cnt(cf, v.Int)})
	}
	out["next_commit"] = ncs

	// ---- rolled-back extend
	var eas []map[string]interface{}
	for _, v := range variants() {
		r, done, err := e.fresh()
		if err != nil {
			return err
		}
		if v.Warm {
			if err := r.warm(); err != nil {
				done()
				return err
			}
		}
		c0, err := r.props(0)
		if err != nil {
			done()
			return err
		}
		to := cnt(c0, v.Int) + v.N
		err = r.tx(v.Fate, func(ns walletdb.ReadWriteBucket) error {
			if v.Int {
				return r.sm.ExtendInternalAddresses(ns, 0, to)
			}
			return r.sm.ExtendExternalAddresses(ns, 0, to)
		})
		if err != nil {
			done()
			return err
		}
		c1, err := r.props(0)
		done()
		if err != nil {
			return err
		}
		eas = append(eas, map[string]interface{}{"fate": v.Fate, "int": v.Int, "to": to, "warm": v.Warm,
			"before": cnt(c0, v.Int), "after": cnt(c1, v.Int)})
	}
	out["extend_abort"] = eas

	// ---- committed extend: the index, the last address, a restarted manager
	var ecs []map[string]interface{}
	for _, v := range variants() {
		if v.Fate != "abort" { // one pass over (branch, n, warm)
			continue
		}
		r, done, err := e.fresh()
		if err != nil {
			return err
		}
		if v.Warm {
			if err := r.warm(); err != nil {
				done()
				return err
			}
		}
		c0, err := r.props(0)
		if err != nil {
			done()
			return err
		}
		to := cnt(c0, v.Int) + v.N
		err = r.tx("commit", func(ns walletdb.ReadWriteBucket) error {
			if v.Int {
				return r.sm.ExtendInternalAddresses(ns, 0, to)
			}
			return r.sm.ExtendExternalAddresses(ns, 0, to)
		})
		if err != nil {
			done()
			return err
		}
		c1, err := r.props(0)
		if err != nil {
			done()
			return err
		}
		l1, _ := r.last(0, v.Int)
		rs, rdone, err := e.restarted(r)
		if err != nil {
			done()
			return err
		}
		cf, err := rs.props(0)
		rdone()
		done()
		if err != nil {
			return err
		}
		ecs = append(ecs, map[string]interface{}{"int": v.Int, "to": to, "warm": v.Warm, "before": cnt(c0, v.Int),
			"after": cnt(c1, v.Int), "last": l1, "restart_next": cnt(cf, v.Int)})
	}
	out["extend_commit"] = ecs

	// ---- the derivation path of extended addresses of an imported account:
	// master-key fingerprint as the running manager and as a restarted one report it
	xk, err := importKey()
	if err != nil {
		return err
	}
	var efs []map[string]interface{}
	for _, fp := range []uint32{7, 0x11223344} {
		for _, internal := range []bool{false, true} {
			for _, warmed := range []bool{false, true} {
				r, done, err := e.fresh()
				if err != nil {
					return err
				}
				var acct uint32
				err = r.tx("commit", func(ns walletdb.ReadWriteBucket) error {
					var err error
					acct, err = r.sm.NewAccountWatchingOnly(ns, "xpubacct", xk, fp, nil)
					return err
				})
				if err == nil && warmed {
					_, err = r.props(acct)
				}
				if err == nil {
					err = r.tx("commit", func(ns walletdb.ReadWriteBucket) error {
						if internal {
							return r.sm.ExtendInternalAddresses(ns, acct, 2)
						}
						return r.sm.ExtendExternalAddresses(ns, acct, 2)
					})
				}
				if err != nil {
					done()
					return err
				}
				var addrs []btcutil.Address
				branch := uint32(0)
				if internal {
					branch = 1
				}
				for i := uint32(0); i <= 2; i++ {
					a, err := childAddr(xk, branch, i)
					if err != nil {
						done()
						return err
					}
					addrs = append(addrs, a)
				}
				run, err := r.fingerprints(addrs)
				if err != nil {
					done()
					return err
				}
				rs, rdone, err := e.restarted(r)
				if err != nil {
					done()
					return err
				}
				res, err := rs.fingerprints(addrs)
				rdone()
				done()
				if err != nil {
					return err
				}
				efs = append(efs, map[string]interface{}{"fp": fp, "int": internal, "warm": warmed, "running": run, "restarted": res})
			}
		}
	}
	out["extend_fp"] = efs

	// ---- rename: default and imported (watch-only) accounts, cached before
	var rns []map[string]interface{}
	xpub := xk
	for _, kind := range []string{"default0", "default", "watchonly", "watchonly_schema"} {
		for _, fate := range []string{"abort", "dryrun", "failcommit"} {
			r, done, err := e.fresh()
			if err != nil {
				return err
			}
			acct := uint32(0)
			if kind != "default0" {
				err = r.tx("commit", func(ns walletdb.ReadWriteBucket) error {
					var err error
					switch kind {
					case "default":
						acct, err = r.sm.NewAccount(ns, "first")
					case "watchonly":
						acct, err = r.sm.NewAccountWatchingOnly(ns, "first", xpub, 7, nil)
					default:
						acct, err = r.sm.NewAccountWatchingOnly(ns, "first", xpub, 0x11223344,
							&waddrmgr.ScopeAddrSchema{ExternalAddrType: waddrmgr.NestedWitnessPubKey, InternalAddrType: waddrmgr.WitnessPubKey})
					}
					return err
				})
				if err != nil {
					done()
					return err
				}
			}
			if _, err := r.props(acct); err != nil { // cache the account
				done()
				return err
			}
			if err := r.tx("commit", func(ns walletdb.ReadWriteBucket) error { return r.sm.RenameAccount(ns, acct, "second") }); err != nil {
				done()
				return err
			}
			cm, err := r.props(acct)
			if err != nil {
				done()
				return err
			}
			var cd string
			if err := r.view(func(ns walletdb.ReadBucket) error { var e error; cd, e = r.sm.AccountName(ns, acct); return e }); err != nil {
				done()
				return err
			}
			if err := r.tx(fate, func(ns walletdb.ReadWriteBucket) error { return r.sm.RenameAccount(ns, acct, "third") }); err != nil {
				done()
				return err
			}
			am, err := r.props(acct)
			if err != nil {
				done()
				return err
			}
			var ad string
			err = r.view(func(ns walletdb.ReadBucket) error { var e error; ad, e = r.sm.AccountName(ns, acct); return e })
			done()
			if err != nil {
				return err
			}
			rns = append(rns, map[string]interface{}{"kind": kind, "fate": fate, "committed_mem": cm.Name, "committed_disk": cd,
				"aborted_mem": am.Name, "aborted_disk": ad})
		}
	}
	out["rename"] = rns
	return nil
}
