package main

// Seeds on which the two hardened-derivation rules (BIP32 / btcsuite's legacy
// rule, see harness/internal/hdoracle/spec.go) give different keys: some
// private key on the way to an address has a leading zero byte.  About one
// key in 256 has; the list below was found by `c03 -find-divergent 4000`
// (deterministic search over seed numbers 0..3999, material("seed", n)) and is
// re-validated against the oracle every time the command starts.

import (
	"fmt"
	"sort"

	"verifharness/internal/hdoracle"
)

// divSeed names a seed and the place where a leading-zero parent sits.
type divSeed struct {
	Seed    uint64
	Step    string    // master|purpose|coin|account|branch: the PARENT key with the leading zero
	Scope   [2]uint32 // for purpose/coin/account/branch
	Account uint32    // for account/branch
	Branch  uint32    // for branch
}

// parent key with the leading zero byte -> the hardened step that diverges:
//   master  -> purpose step (specified: BIP32)
//   purpose -> coin step    (specified: legacy)
//   coin    -> account step (specified: legacy for account 0, BIP32 for later accounts)
//   account -> hardened branch request (specified: BIP32)
//   branch  -> hardened index request  (specified: legacy)

var divergentSeeds = []divSeed{
	// master key with a leading zero byte: the purpose step diverges (specified: BIP32)
	{Seed: 331, Step: "master"},
	{Seed: 912, Step: "master"},
	// purpose key: the coin step diverges (specified: legacy)
	{Seed: 224, Step: "purpose", Scope: [2]uint32{84, 0}},
	{Seed: 383, Step: "purpose", Scope: [2]uint32{84, 0}},
	{Seed: 160, Step: "purpose", Scope: [2]uint32{86, 0}},
	{Seed: 146, Step: "purpose", Scope: [2]uint32{44, 0}},
	{Seed: 831, Step: "purpose", Scope: [2]uint32{49, 0}},
	{Seed: 189, Step: "purpose", Scope: [2]uint32{1017, 0}},
	{Seed: 135, Step: "purpose", Scope: [2]uint32{45, 1}},
	// coin-type key: the account step diverges (specified: legacy for account 0, BIP32 for later accounts)
	{Seed: 535, Step: "coin", Scope: [2]uint32{84, 0}},
	{Seed: 734, Step: "coin", Scope: [2]uint32{84, 0}},
	{Seed: 142, Step: "coin", Scope: [2]uint32{86, 0}},
	{Seed: 171, Step: "coin", Scope: [2]uint32{49, 0}},
	{Seed: 221, Step: "coin", Scope: [2]uint32{44, 0}},
	{Seed: 52, Step: "coin", Scope: [2]uint32{1017, 0}},
	{Seed: 67, Step: "coin", Scope: [2]uint32{45, 1}},
	// account key: a hardened branch request diverges (specified: BIP32)
	{Seed: 33, Step: "account", Scope: [2]uint32{86, 0}, Account: 0},
	{Seed: 97, Step: "account", Scope: [2]uint32{44, 0}, Account: 1},
	{Seed: 3, Step: "account", Scope: [2]uint32{49, 0}, Account: 2},
	{Seed: 287, Step: "account", Scope: [2]uint32{84, 0}, Account: 4},
	// branch key: a hardened index request diverges (specified: legacy)
	{Seed: 129, Step: "branch", Scope: [2]uint32{84, 0}, Account: 0, Branch: 0},
	{Seed: 56, Step: "branch", Scope: [2]uint32{44, 0}, Account: 0, Branch: 1},
	{Seed: 24, Step: "branch", Scope: [2]uint32{84, 0}, Account: 1, Branch: 1},
	{Seed: 7, Step: "branch", Scope: [2]uint32{49, 0}, Account: 1, Branch: 0},
}

var searchScopes = [][2]uint32{{49, 0}, {84, 0}, {86, 0}, {44, 0}, {1017, 0}, {45, 1}}

// divergencesOf lists every leading-zero parent of the seed within the part of
// the tree the harness uses (accounts 0..4, branches 0..1).
func divergencesOf(seed uint64) []divSeed {
	m, err := hdoracle.Master(material("seed", seed))
	if err != nil {
		return nil
	}
	var out []divSeed
	if m.LeadingZero() {
		out = append(out, divSeed{Seed: seed, Step: "master"})
	}
	for _, sc := range searchScopes {
		pk, err := m.Child(sc[0]+hdoracle.HardenedStart, hdoracle.WalletRule(hdoracle.StepPurpose, sc[0]))
		if err != nil {
			continue
		}
		if pk.LeadingZero() {
			out = append(out, divSeed{Seed: seed, Step: "purpose", Scope: sc})
		}
		ck, err := pk.Child(sc[1]+hdoracle.HardenedStart, hdoracle.WalletRule(hdoracle.StepCoin, sc[1]))
		if err != nil {
			continue
		}
		if ck.LeadingZero() {
			out = append(out, divSeed{Seed: seed, Step: "coin", Scope: sc})
		}
		for a := uint32(0); a <= 4; a++ {
			ak, err := ck.Child(a+hdoracle.HardenedStart, hdoracle.WalletRule(hdoracle.StepAccount, a))
			if err != nil {
				continue
			}
			if ak.LeadingZero() {
				out = append(out, divSeed{Seed: seed, Step: "account", Scope: sc, Account: a})
			}
			for b := uint32(0); b <= 1; b++ {
				bk, err := ak.Child(b, hdoracle.Standard)
				if err != nil {
					continue
				}
				if bk.LeadingZero() {
					out = append(out, divSeed{Seed: seed, Step: "branch", Scope: sc, Account: a, Branch: b})
				}
			}
		}
	}
	return out
}

func findDivergent(n int) {
	count := map[string]int{}
	for s := uint64(0); s < uint64(n); s++ {
		for _, d := range divergencesOf(s) {
			key := d.Step
			if d.Step != "master" {
				key = fmt.Sprintf("%s/%d", d.Step, d.Scope[0])
			}
			if count[key] >= 3 {
				continue
			}
			count[key]++
			fmt.Printf("\t{Seed: %d, Step: %q, Scope: [2]uint32{%d, %d}, Account: %d, Branch: %d},\n",
				d.Seed, d.Step, d.Scope[0], d.Scope[1], d.Account, d.Branch)
		}
	}
}

// validateDivergent checks the embedded list against the oracle.
func validateDivergent() {
	for _, want := range divergentSeeds {
		ok := false
		for _, d := range divergencesOf(want.Seed) {
			if d == want {
				ok = true
			}
		}
		if !ok {
			panic(fmt.Sprintf("c03: seed %d has no leading-zero %s key at %v/%d/%d any more (material changed?)",
				want.Seed, want.Step, want.Scope, want.Account, want.Branch))
		}
	}
}

// divergentPool returns the distinct seed numbers of the list, sorted.
func divergentPool() []uint64 {
	seen := map[uint64]bool{}
	var out []uint64
	for _, d := range divergentSeeds {
		if !seen[d.Seed] {
			seen[d.Seed] = true
			out = append(out, d.Seed)
		}
	}
	sort.Slice(out, func(i, j int) bool { return out[i] < out[j] })
	return out
}
