// Command c03 drives the REAL waddrmgr (Create/Open over a bbolt file) through
// operation histories and projects everything it hands out - addresses, public
// keys, private keys, derivation info - to symbolic derivation paths through
// the independent oracle harness/internal/hdoracle.  One JSON object per case:
//
//	{"in": {"seed":id,"pass":1,"ops":[...]}, "obs":[result per op], "oracle":[kinds], "tags":[...], "site":"..."}
//
// "oracle" states property C03 directly on what the implementation did.
package main

import (
	"crypto/sha256"
	"encoding/binary"
	"encoding/hex"
	"encoding/json"
	"errors"
	"flag"
	"fmt"
	"math/big"
	"os"
	"path/filepath"
	"sort"
	"sync"
	"time"

	"github.com/btcsuite/btcd/btcec/v2"
	"github.com/btcsuite/btcd/btcutil"
	"github.com/btcsuite/btcd/btcutil/hdkeychain"
	"github.com/btcsuite/btcd/chaincfg"
	"github.com/btcsuite/btcd/txscript"
	"github.com/btcsuite/btcwallet/waddrmgr"
	"github.com/btcsuite/btcwallet/walletdb"
	_ "github.com/btcsuite/btcwallet/walletdb/bdb"

	"verifharness/internal/core"
	"verifharness/internal/gen"
	"verifharness/internal/hdoracle"
)

// ------------------------------------------------------------------ inputs

// Op is one operation of a history.  Which fields matter depends on Op.
type Op struct {
	Op        string    `json:"op"`
	Scope     [2]uint32 `json:"scope"`
	Account   uint32    `json:"account"`
	Internal  bool      `json:"internal"`
	N         uint32    `json:"n"` // next: count; extend: last index
	Pass      int       `json:"pass"`
	NewPass   int       `json:"newpass"`
	Name      int       `json:"name"`
	Xpub      int       `json:"xpub"`
	Cn        uint32    `json:"cn"` // child number of the imported xpub
	Fp        uint32    `json:"fp"`
	Schema    []string  `json:"schema"` // newscope: [ext,int]; importxpub: override or null
	Branch    uint32    `json:"branch"`
	Index     uint32    `json:"index"`
	AcctChild uint32    `json:"acct_child"` // derive: DerivationPath.Account
	Root      string    `json:"root"`       // lookup/markused target: seed|xpub|imp|script
	Fmt       string    `json:"fmt"`
	Key       int       `json:"key"`
	Script    int       `json:"script"`
	SKind     string    `json:"skind,omitempty"` // script kind: "" = P2SH script, "wsh" = witness script, "tr" = taproot script
	Secret    bool      `json:"secret,omitempty"`
	Handle    int       `json:"handle"`
}

// Input is a replayable case.
type Input struct {
	Seed uint64 `json:"seed"`
	Pass int    `json:"pass"`
	Ops  []Op   `json:"ops"`
}

// KeyRef names a key through the oracle.
type KeyRef struct {
	Root string      `json:"root"` // seed|xpub|imp|imppub|unknown
	ID   uint64      `json:"id"`
	Cn   uint32      `json:"cn"`
	Path [][2]uint32 `json:"path"`
	// Deviation is set (and Root is "unknown") when the key is not the one the
	// specification assigns to any path but the one a wallet using the other
	// hardened-derivation rule at the named step would make.
	Deviation string `json:"deviation,omitempty"`
}

// AddrObs is everything read off one managed address.
type AddrObs struct {
	Kind     string    `json:"kind"` // key|script
	Addr     string    `json:"addr"`
	Key      KeyRef    `json:"key"`
	Fmt      string    `json:"fmt"`
	DScope   [2]uint32 `json:"dscope"`
	DPath    [5]uint32 `json:"dpath"` // InternalAccount, Account, Branch, Index, MasterKeyFingerprint
	Known    bool      `json:"known"`
	IAcct    uint32    `json:"iacct"`
	Internal bool      `json:"internal"`
	Imported bool      `json:"imported"`
	Priv     string    `json:"priv"` // ok|mismatch|err:<class>
	Script   int       `json:"script"`
	SKind    string    `json:"skind,omitempty"`
	ScriptV  string    `json:"scriptv"` // ok|changed|err:<class>
	// for the property oracle only (not compared with the model)
	Pub        string `json:"pub,omitempty"`      // PubKey(), compressed, hex
	Compressed bool   `json:"compressed"`         // Compressed()
	AddrType   string `json:"addrtype,omitempty"` // AddrType() as a format name
	Sign       string `json:"sign,omitempty"`     // ""|ok|<why the returned private key cannot sign for Address()>
}

// Result is the observable answer of one operation.
type Result struct {
	Kind   string    `json:"kind"` // ok|err|addrs|props|acct|key|script|skipped
	Err    string    `json:"err,omitempty"`
	Addrs  []AddrObs `json:"addrs"`
	Props  [2]uint32 `json:"props"`
	Acct   uint32    `json:"acct"`
	Key    *KeyRef   `json:"key,omitempty"`
	Script int       `json:"script"`
	SKind  string    `json:"skind,omitempty"`
	Locked bool      `json:"locked"` // IsLocked() after the operation
}

// Case is one line of output.
type Case struct {
	In     Input    `json:"in"`
	Obs    []Result `json:"obs"`
	Oracle []string `json:"oracle"`
	Tags   []string `json:"tags"`
	Site   string   `json:"site"`
	// Sites gives the site of every violated clause (Site is the first one).
	Sites  map[string]string `json:"sites,omitempty"`
	Detail []string          `json:"detail,omitempty"`
}

// ------------------------------------------------------- deterministic material

func material(tag string, id uint64) []byte {
	var b [8]byte
	binary.BigEndian.PutUint64(b[:], id)
	h := sha256.Sum256(append([]byte("verif-c03-"+tag+"-"), b[:]...))
	return h[:]
}

func passBytes(id int) []byte { return []byte(fmt.Sprintf("priv-pass-%d", id)) }

// pubPassBytes: public passphrase number 0 is the one the wallet is created with.
func pubPassBytes(id int) []byte {
	if id == 0 {
		return []byte("public")
	}
	return []byte(fmt.Sprintf("pub-pass-%d", id))
}

func scriptBytes(id int) []byte {
	// OP_1 <8 bytes> OP_DROP : any byte string is accepted by ImportScript
	b := []byte{0x51, 0x08, 0, 0, 0, 0, 0, 0, 0, 0, 0x75}
	binary.BigEndian.PutUint64(b[2:10], uint64(id))
	return b
}

var params = &chaincfg.MainNetParams
var onet = hdoracle.MainNet

var defaultSchemas = map[[2]uint32][2]string{
	{49, 0}: {hdoracle.NP2WKH, hdoracle.P2WKH},
	{84, 0}: {hdoracle.P2WKH, hdoracle.P2WKH},
	{86, 0}: {hdoracle.P2TR, hdoracle.P2TR},
	{44, 0}: {hdoracle.P2PKH, hdoracle.P2PKH},
}
var defaultScopeList = [][2]uint32{{49, 0}, {84, 0}, {86, 0}, {44, 0}}
var customScopes = [][2]uint32{{1017, 0}, {45, 1}}

func addrType(f string) waddrmgr.AddressType {
	switch f {
	case hdoracle.P2PKH:
		return waddrmgr.PubKeyHash
	case hdoracle.NP2WKH:
		return waddrmgr.NestedWitnessPubKey
	case hdoracle.P2WKH:
		return waddrmgr.WitnessPubKey
	case hdoracle.P2TR:
		return waddrmgr.TaprootPubKey
	}
	panic("format " + f)
}

// xpubSpec: the imported xpub number id is the account key m/84'/0'/(id%5)' of
// an unrelated seed.
func xpubChild(id int) uint32 { return uint32(id%5) + hdoracle.HardenedStart }

// ------------------------------------------------------------ oracle tables

const (
	maxTableAcct  = 7
	maxTableIndex = 47
	maxRunCount   = 5000 // more addresses than this in one request are never actually derived
)

var tableBranches = []uint32{0, 1, 2}

type oracleDB struct {
	t       *hdoracle.Table // the keys the specification assigns to the paths of the cases
	alt     *hdoracle.Table // diagnostic only: keys a wallet deviating from the rule table would make
	masters map[uint64]*hdoracle.Key
	acct    map[string]*hdoracle.Key   // "seed/<id>/<p>/<c>/<a>" or "xpub/<id>"
	div     map[uint64]map[string]bool // seed -> hardened steps with a leading-zero parent ("coin", "account0", ...)
	done    map[string]bool
	divMemo map[string]bool
}

func newOracleDB() *oracleDB {
	return &oracleDB{t: hdoracle.NewTable(), alt: hdoracle.NewTable(), masters: map[uint64]*hdoracle.Key{},
		acct: map[string]*hdoracle.Key{}, div: map[uint64]map[string]bool{}, done: map[string]bool{}, divMemo: map[string]bool{}}
}

func (o *oracleDB) master(seed uint64) *hdoracle.Key {
	if k, ok := o.masters[seed]; ok {
		return k
	}
	k, err := hdoracle.Master(material("seed", seed))
	if err != nil {
		panic(err)
	}
	o.masters[seed] = k
	return k
}

func (o *oracleDB) noteDiv(seed uint64, name string) {
	if o.div[seed] == nil {
		o.div[seed] = map[string]bool{}
	}
	o.div[seed][name] = true
}

func other(r hdoracle.Rule) hdoracle.Rule {
	if r == hdoracle.Legacy {
		return hdoracle.Standard
	}
	return hdoracle.Legacy
}

// ensureScope derives the account keys 0..maxTableAcct of a scope as
// hdoracle.AccountKey (the rule table of spec.go) says and notes where the
// seed has a leading-zero parent; the children of an account are tabled when
// the account is first asked for (ensureAcct).
func (o *oracleDB) ensureScope(seed uint64, scope [2]uint32) {
	key := fmt.Sprintf("seed/%d/%d/%d", seed, scope[0], scope[1])
	if o.done[key] {
		return
	}
	o.done[key] = true
	for a := uint32(0); a <= maxTableAcct; a++ {
		ak, div, err := hdoracle.AccountKey(o.master(seed), scope[0], scope[1], a)
		if err != nil {
			panic(err)
		}
		o.acct[fmt.Sprintf("%s/%d", key, a)] = ak
		for _, d := range div {
			o.noteDiv(seed, divName(d, a))
		}
	}
}

func divName(d hdoracle.Divergence, a uint32) string {
	if d.Depth == hdoracle.StepAccount {
		if a == 0 {
			return "account0"
		}
		return "account_later"
	}
	return hdoracle.StepName(d.Depth)
}

// ensureAcct tables branch/index 0..maxTableIndex of one seed-derived account
// and, in the diagnostic table, the same range below every account key a
// wallet would get by using the other rule where it matters.
func (o *oracleDB) ensureAcct(seed uint64, scope [2]uint32, a uint32) {
	o.ensureScope(seed, scope)
	key := fmt.Sprintf("acct/%d/%d/%d/%d", seed, scope[0], scope[1], a)
	if o.done[key] || a > maxTableAcct {
		return
	}
	o.done[key] = true
	ak, div, err := hdoracle.AccountKey(o.master(seed), scope[0], scope[1], a)
	if err != nil {
		panic(err)
	}
	prefix := []hdoracle.Step{{Index: scope[0], Hardened: true}, {Index: scope[1], Hardened: true}, {Index: a, Hardened: true}}
	o.t.AddKey("seed", seed, prefix, ak, "")
	if err := o.t.AddAccount("seed", seed, prefix, ak, "", tableBranches, maxTableIndex); err != nil {
		panic(err)
	}
	spec := [3]hdoracle.Rule{hdoracle.WalletRule(0, scope[0]), hdoracle.WalletRule(1, scope[1]), hdoracle.WalletRule(2, a)}
	for mask := 1; mask < 1<<uint(len(div)); mask++ {
		rules, note := spec, ""
		for bit, d := range div {
			if mask>>uint(bit)&1 == 1 {
				rules[d.Depth] = other(spec[d.Depth])
				note += fmt.Sprintf("%s rule at the %s step (specified: %s) ", rules[d.Depth], hdoracle.StepName(d.Depth), spec[d.Depth])
			}
		}
		vk, err := hdoracle.AccountKeyWith(o.master(seed), scope[0], scope[1], a, rules)
		if err != nil {
			continue
		}
		o.alt.AddKey("seed", seed, prefix, vk, note)
		o.alt.AddAccount("seed", seed, prefix, vk, note, tableBranches, maxTableIndex)
	}
}

func (o *oracleDB) seedAcct(seed uint64, scope [2]uint32, a uint32) *hdoracle.Key {
	o.ensureAcct(seed, scope, a)
	return o.acct[fmt.Sprintf("seed/%d/%d/%d/%d", seed, scope[0], scope[1], a)]
}

func stepOf(raw uint32) hdoracle.Step {
	if raw >= hdoracle.HardenedStart {
		return hdoracle.Step{Index: raw - hdoracle.HardenedStart, Hardened: true}
	}
	return hdoracle.Step{Index: raw}
}

// ensureChild registers the key branch/index (raw child numbers) of a
// seed-derived account when it lies outside the range ensureScope covers
// (hardened requests, large indices).  It is computed from the request alone.
func (o *oracleDB) ensureChild(seed uint64, scope [2]uint32, a, branch, index uint32) {
	if a > maxTableAcct {
		return
	}
	key := fmt.Sprintf("child/%d/%d/%d/%d/%d/%d", seed, scope[0], scope[1], a, branch, index)
	if o.done[key] {
		return
	}
	o.done[key] = true
	ak := o.seedAcct(seed, scope, a)
	ck, div, err := hdoracle.AddressKey(ak, branch, index)
	if err != nil {
		return
	}
	prefix := []hdoracle.Step{{Index: scope[0], Hardened: true}, {Index: scope[1], Hardened: true}, {Index: a, Hardened: true},
		stepOf(branch), stepOf(index)}
	o.t.AddKey("seed", seed, prefix, ck, "")
	for _, d := range div {
		o.noteDiv(seed, hdoracle.StepName(d.Depth)+"_hardened")
	}
	if len(div) == 0 {
		return
	}
	// the other rule at the branch and/or index step
	for mask := 1; mask < 4; mask++ {
		rb, ri := hdoracle.WalletRule(hdoracle.StepBranch, 0), hdoracle.WalletRule(hdoracle.StepIndex, 0)
		note := ""
		if mask&1 == 1 {
			rb = other(rb)
			note += rb.String() + " rule at the branch step "
		}
		if mask&2 == 2 {
			ri = other(ri)
			note += ri.String() + " rule at the index step "
		}
		bk, err := ak.Child(branch, rb)
		if err != nil {
			continue
		}
		vk, err := bk.Child(index, ri)
		if err != nil {
			continue
		}
		o.alt.AddKey("seed", seed, prefix, vk, note)
	}
}

// xpub returns the (public-only) account key of imported xpub id: the account
// key m/84'/0'/(id%5)' of an unrelated seed.
func (o *oracleDB) xpub(id int) *hdoracle.Key {
	key := fmt.Sprintf("xpub/%d", id)
	if k, ok := o.acct[key]; ok {
		return k
	}
	m, err := hdoracle.Master(material("xpubseed", uint64(id)))
	if err != nil {
		panic(err)
	}
	ak, _, err := hdoracle.AccountKey(m, 84, 0, uint32(id%5))
	if err != nil {
		panic(err)
	}
	k := ak.Neuter()
	o.acct[key] = k
	o.t.AddKey("xpub", uint64(id), nil, k, "")
	if err := o.t.AddAccount("xpub", uint64(id), nil, k, "", tableBranches, maxTableIndex); err != nil {
		panic(err)
	}
	return k
}

// impCompressed: imported key number id comes as a compressed WIF unless
// id%4 == 3 (then its WIF says "uncompressed public key").
func impCompressed(id int) bool { return id%4 != 3 }

func (o *oracleDB) impKey(id int) *hdoracle.Key {
	key := fmt.Sprintf("imp/%d", id)
	if k, ok := o.acct[key]; ok {
		return k
	}
	d := new(big.Int).SetBytes(material("impkey", uint64(id)))
	k := &hdoracle.Key{Priv: d}
	k.Pub = hdoracle.PubOfScalar(k.PrivBytes())
	o.acct[key] = k
	o.t.AddKey("imp", uint64(id), nil, k, "")
	return k
}

// impPub: public key number id that is imported WITHOUT its private key.
func (o *oracleDB) impPub(id int) *hdoracle.Key {
	key := fmt.Sprintf("imppub/%d", id)
	if k, ok := o.acct[key]; ok {
		return k
	}
	k := &hdoracle.Key{}
	k.Pub = hdoracle.PubOfScalar(material("imppub", uint64(id)))
	o.acct[key] = k
	o.t.AddKey("imppub", uint64(id), nil, k, "")
	return k
}

func (o *oracleDB) impPubSerialized(root string, id int) []byte {
	if root == "imp" {
		return o.impSerialized(id)
	}
	k := o.impPub(id)
	return k.Pub[:]
}

// impSerialized is the public key of imported key id as its WIF serializes it.
func (o *oracleDB) impSerialized(id int) []byte {
	k := o.impKey(id)
	if impCompressed(id) {
		return k.Pub[:]
	}
	u, err := hdoracle.Uncompressed(k.Pub[:])
	if err != nil {
		panic(err)
	}
	return u
}

func (o *oracleDB) ref(pub33 []byte) (KeyRef, *hdoracle.Entry) {
	e := o.t.Lookup(pub33)
	if e == nil {
		r := KeyRef{Root: "unknown", Path: [][2]uint32{}}
		if d := o.alt.Lookup(pub33); d != nil {
			// NOT a key of the specification: the note says which deviation makes it
			r.Deviation = d.Note
		}
		return r, nil
	}
	r := KeyRef{Root: e.Root, ID: e.ID, Path: [][2]uint32{}}
	if e.Root == "xpub" {
		r.Cn = xpubChild(int(e.ID))
	}
	for _, s := range e.Path {
		h := uint32(0)
		if s.Hardened {
			h = 1
		}
		r.Path = append(r.Path, [2]uint32{s.Index, h})
	}
	return r, e
}

// ------------------------------------------------------------------ the wallet

var nsKey = []byte("waddrmgr")

type wallet struct {
	dir string
	db  walletdb.DB
	mgr *waddrmgr.Manager
}

func tmpBase() string {
	if st, err := os.Stat("/dev/shm"); err == nil && st.IsDir() {
		return "/dev/shm"
	}
	return ""
}

func createWallet(dir string, name string, seed uint64, pass, pubPass int, birthday time.Time) (*wallet, error) {
	w := &wallet{dir: dir}
	path := filepath.Join(dir, name)
	os.Remove(path)
	db, err := walletdb.Create("bdb", path, true, time.Minute, false)
	if err != nil {
		return nil, err
	}
	w.db = db
	root, err := hdkeychain.NewMaster(material("seed", seed), params)
	if err != nil {
		return nil, err
	}
	err = walletdb.Update(db, func(tx walletdb.ReadWriteTx) error {
		ns, err := tx.CreateTopLevelBucket(nsKey)
		if err != nil {
			return err
		}
		if err := waddrmgr.Create(ns, root, pubPassBytes(pubPass), passBytes(pass), params,
			&waddrmgr.FastScryptOptions, birthday); err != nil {
			return err
		}
		w.mgr, err = waddrmgr.Open(ns, pubPassBytes(pubPass), params)
		return err
	})
	if err != nil {
		db.Close()
		return nil, err
	}
	return w, nil
}

func (w *wallet) restart(name string, pubPass int) error {
	w.mgr.Close()
	if err := w.db.Close(); err != nil {
		return err
	}
	db, err := walletdb.Open("bdb", filepath.Join(w.dir, name), true, time.Minute, false)
	if err != nil {
		return err
	}
	w.db = db
	return walletdb.View(db, func(tx walletdb.ReadTx) error {
		var err error
		w.mgr, err = waddrmgr.Open(tx.ReadBucket(nsKey), pubPassBytes(pubPass), params)
		return err
	})
}

func (w *wallet) close() {
	if w.mgr != nil {
		w.mgr.Close()
	}
	if w.db != nil {
		w.db.Close()
	}
}

// update / view run f in a transaction and turn a panic into an error.
type panicErr struct{ v interface{} }

func (p panicErr) Error() string { return fmt.Sprint("panic: ", p.v) }

func (w *wallet) update(f func(ns walletdb.ReadWriteBucket) error) (err error) {
	defer func() {
		if r := recover(); r != nil {
			err = panicErr{r}
		}
	}()
	return walletdb.Update(w.db, func(tx walletdb.ReadWriteTx) error { return f(tx.ReadWriteBucket(nsKey)) })
}

func (w *wallet) view(f func(ns walletdb.ReadBucket) error) (err error) {
	defer func() {
		if r := recover(); r != nil {
			err = panicErr{r}
		}
	}()
	return walletdb.View(w.db, func(tx walletdb.ReadTx) error { return f(tx.ReadBucket(nsKey)) })
}

func classify(err error) string {
	var pe panicErr
	switch {
	case err == nil:
		return ""
	case errors.As(err, &pe):
		return "panic"
	case waddrmgr.IsError(err, waddrmgr.ErrLocked):
		return "locked"
	case waddrmgr.IsError(err, waddrmgr.ErrWatchingOnly):
		return "watching"
	case waddrmgr.IsError(err, waddrmgr.ErrAddressNotFound):
		return "addr_not_found"
	case waddrmgr.IsError(err, waddrmgr.ErrAccountNotFound):
		return "acct_not_found"
	case waddrmgr.IsError(err, waddrmgr.ErrScopeNotFound):
		return "scope_not_found"
	case waddrmgr.IsError(err, waddrmgr.ErrCrypto):
		return "crypto"
	case waddrmgr.IsError(err, waddrmgr.ErrAccountNotCached):
		return "not_cached"
	case errors.Is(err, hdkeychain.ErrNotPrivExtKey):
		return "not_priv"
	case waddrmgr.IsError(err, waddrmgr.ErrDuplicateAddress), waddrmgr.IsError(err, waddrmgr.ErrDuplicateAccount):
		return "duplicate"
	case waddrmgr.IsError(err, waddrmgr.ErrTooManyAddresses):
		return "too_many"
	case waddrmgr.IsError(err, waddrmgr.ErrWrongPassphrase):
		return "wrong_pass"
	case waddrmgr.IsError(err, waddrmgr.ErrKeyChain):
		return "keychain"
	}
	return "other"
}

// --------------------------------------------------------------- the runner

type acctSpec struct {
	root    string // seed|xpub
	xpub    int
	schema  *[2]string // override
	fp      uint32
	hasPriv bool
}

type handle struct {
	ma     waddrmgr.ManagedAddress
	origin string // the operation that produced the object
	// what the property expects of it (from inputs and oracle only)
	scope   [2]uint32
	account uint32
	impKey  int
	script  int
	skind   string
	secret  bool
	kind    string // chain|impkey|imppub|script
}

type scriptID struct {
	id    int
	skind string
}

type runner struct {
	in      Input
	o       *oracleDB
	w       *wallet
	pubPass int  // the public passphrase the file opens with
	dead    bool // the wallet could not be reopened
	handles []*handle
	// bookkeeping of the property oracle (inputs + observations, no model)
	schemas map[[2]uint32][2]string
	accts   map[[2]uint32]map[uint32]*acctSpec
	issued  map[string]uint32   // scope/acct/branch -> next expected index
	issuer  map[string]string   // scope/acct/branch/index -> operation that issued it in this process lifetime
	addrOf  map[string]string   // scope/acct/branch/index -> address string seen
	impAddr map[string]string   // "<scope>/imp|imppub/<id>" -> address at import
	scripts map[string]scriptID // script address -> script
	secret  map[string]bool     // script address -> imported as secret
	bad     map[string]string   // violation kind -> site
	detail  []string
	tags    map[string]bool
	// situation tracking for tags
	createdLocked map[waddrmgr.ManagedAddress]bool
	epoch         int
	objEpoch      map[waddrmgr.ManagedAddress]int
}

func bkey(scope [2]uint32, a, b uint32) string {
	return fmt.Sprintf("%d/%d/%d/%d", scope[0], scope[1], a, b)
}
func ikey(scope [2]uint32, a, b, i uint32) string {
	return fmt.Sprintf("%d/%d/%d/%d/%d", scope[0], scope[1], a, b, i)
}

func (r *runner) violate(kind, site, msg string) {
	if _, ok := r.bad[kind]; !ok {
		r.bad[kind] = site
	}
	r.detail = append(r.detail, fmt.Sprintf("%s at %s: %s", kind, site, msg))
}

func (r *runner) schemaFor(scope [2]uint32, a uint32) ([2]string, bool) {
	s, ok := r.schemas[scope]
	if !ok {
		return s, false
	}
	if sp := r.accts[scope][a]; sp != nil && sp.schema != nil {
		return *sp.schema, true
	}
	return s, true
}

// acctKey: the oracle's account key of (scope, account) as the inputs define it.
func (r *runner) acctKey(scope [2]uint32, a uint32) (*hdoracle.Key, *acctSpec) {
	sp := r.accts[scope][a]
	if sp == nil {
		return nil, nil
	}
	if sp.root == "xpub" {
		return r.o.xpub(sp.xpub), sp
	}
	if a > maxTableAcct {
		return nil, nil
	}
	return r.o.seedAcct(r.in.Seed, scope, a), sp
}

func scriptInternalKey(id int) [33]byte {
	return hdoracle.PubOfScalar(material("tapkey", uint64(id)))
}

// scriptAddress: the address the property expects for an imported script.
func scriptAddress(id int, skind string) string {
	sb := scriptBytes(id)
	switch skind {
	case "wsh":
		return hdoracle.WitnessScriptAddress(onet, sb)
	case "tr":
		ik := scriptInternalKey(id)
		a, err := hdoracle.TaprootSingleLeafAddress(onet, ik[:], sb)
		if err != nil {
			panic(err)
		}
		return a
	}
	return hdoracle.ScriptHashAddress(onet, sb)
}

// targetAddress turns the symbolic target of a lookup into a real address.
func (r *runner) targetAddress(op Op) (btcutil.Address, error) {
	var str string
	switch op.Root {
	case "seed", "xpub":
		var ak *hdoracle.Key
		if op.Root == "seed" {
			if op.Account > maxTableAcct {
				return nil, fmt.Errorf("account out of table range")
			}
			ak = r.o.seedAcct(r.in.Seed, op.Scope, op.Account)
			r.o.ensureChild(r.in.Seed, op.Scope, op.Account, op.Branch, op.Index)
		} else {
			ak = r.o.xpub(op.Xpub)
		}
		ck, _, err := hdoracle.AddressKey(ak, op.Branch, op.Index)
		if err != nil {
			return nil, err
		}
		str, err = hdoracle.Address(onet, op.Fmt, ck.Pub[:])
		if err != nil {
			return nil, err
		}
	case "imp", "imppub":
		var ser []byte
		if op.Root == "imp" {
			ser = r.o.impSerialized(op.Key)
		} else {
			k := r.o.impPub(op.Key)
			ser = k.Pub[:]
		}
		var err error
		str, err = hdoracle.AddressOfSerialized(onet, op.Fmt, ser)
		if err != nil {
			return nil, err
		}
	case "script":
		str = scriptAddress(op.Script, op.SKind)
	default:
		return nil, fmt.Errorf("target root %q", op.Root)
	}
	return btcutil.DecodeAddress(str, params)
}

// useAndWipe: what a caller does with a private key it was given - read the
// scalar, then zero the object (btcec.PrivateKey.Zero, as signing code does).
func useAndWipe(pk *btcec.PrivateKey) []byte {
	d := pk.Serialize()
	pk.Zero()
	return d
}

func fmtOfType(t waddrmgr.AddressType) string {
	switch t {
	case waddrmgr.PubKeyHash:
		return hdoracle.P2PKH
	case waddrmgr.NestedWitnessPubKey:
		return hdoracle.NP2WKH
	case waddrmgr.WitnessPubKey:
		return hdoracle.P2WKH
	case waddrmgr.TaprootPubKey:
		return hdoracle.P2TR
	}
	return ""
}

// serialization of a compressed key as the flag says
func serialized(pub33 []byte, compressed bool) []byte {
	if compressed {
		return pub33
	}
	u, err := hdoracle.Uncompressed(pub33)
	if err != nil {
		return pub33
	}
	return u
}

// observe reads every getter of a managed address and projects it.
func (r *runner) observe(ma waddrmgr.ManagedAddress) AddrObs {
	ob := AddrObs{Addr: ma.Address().String(), IAcct: ma.InternalAccount(), Internal: ma.Internal(), Imported: ma.Imported(),
		Compressed: ma.Compressed()}
	ob.Key = KeyRef{Root: "unknown", Path: [][2]uint32{}}
	switch a := ma.(type) {
	case waddrmgr.ManagedPubKeyAddress:
		ob.Kind = "key"
		pub := a.PubKey().SerializeCompressed()
		ob.Pub = hex.EncodeToString(pub)
		ref, ent := r.o.ref(pub)
		if ent != nil && ent.Root == "imp" && impCompressed(int(ent.ID)) != ob.Compressed {
			// the same point under the other serialization is another public key
			ref, ent = KeyRef{Root: "unknown", Path: [][2]uint32{}}, nil
		}
		ob.Key = ref
		ser := serialized(pub, ob.Compressed)
		ob.Fmt = hdoracle.FormatOfSerialized(onet, ob.Addr, ser)
		ob.AddrType = fmtOfType(a.AddrType())
		sc, dp, known := a.DerivationInfo()
		ob.Known = known
		ob.DScope = [2]uint32{sc.Purpose, sc.Coin}
		ob.DPath = [5]uint32{dp.InternalAccount, dp.Account, dp.Branch, dp.Index, dp.MasterKeyFingerprint}
		pk, err := a.PrivKey()
		if err != nil {
			ob.Priv = "err:" + classify(err)
			break
		}
		// "The wallet can sign for it": everything below is computed by the
		// oracle from the 32 bytes the wallet returned.  The key is then treated the
		// way callers treat private keys - wiped after use - and asked for again
		// (PrivKey() and ExportPrivKey()): a returned key is a value; if it aliases
		// anything the wallet keeps, the next answer is wrong.
		d := useAndWipe(pk)
		own := hdoracle.PubOfScalar(d)
		again := ""
		if pk2, err2 := a.PrivKey(); err2 != nil {
			again = "a second PrivKey() fails (" + classify(err2) + ") after the caller wiped the first key"
		} else if d2 := useAndWipe(pk2); string(d2) != string(d) {
			again = "a second PrivKey(), after the caller wiped the first key, returns another key"
		} else if wif, err3 := a.ExportPrivKey(); err3 != nil {
			again = "ExportPrivKey() fails (" + classify(err3) + ") where PrivKey() succeeds"
		} else if d3 := useAndWipe(wif.PrivKey); string(d3) != string(d) || wif.CompressPubKey != ob.Compressed {
			again = "ExportPrivKey() returns another key or compression flag than PrivKey()/Compressed()"
		}
		switch {
		case again != "":
			ob.Priv = "mismatch"
			ob.Sign = again
		case string(own[:]) != string(pub):
			ob.Priv = "mismatch"
			ob.Sign = "the returned private key is not the key of PubKey()"
		case ent == nil || ent.Priv == nil || string(ent.Priv) != string(d):
			ob.Priv = "mismatch"
			ob.Sign = "the returned private key is not the one the specification derives for this public key"
		default:
			ob.Priv = "ok"
			ob.Sign = "ok"
			if ob.AddrType == "" {
				ob.Sign = "AddrType() is no single-key format"
			} else if again, err := hdoracle.AddressOfSerialized(onet, ob.AddrType, serialized(own[:], ob.Compressed)); err != nil || again != ob.Addr {
				ob.Sign = fmt.Sprintf("the key's public key encodes to %s in the reported format %s, not to Address()", again, ob.AddrType)
			}
		}
	case waddrmgr.ManagedScriptAddress:
		ob.Kind = "script"
		sid, ok := r.scripts[ob.Addr]
		if !ok {
			sid = scriptID{id: -1}
		}
		ob.Script, ob.SKind = sid.id, sid.skind
		s, err := a.Script()
		switch {
		case err != nil:
			ob.ScriptV = "err:" + classify(err)
		case ok && r.scriptUnchanged(a, s, sid):
			ob.ScriptV = "ok"
		default:
			ob.ScriptV = "changed"
		}
	}
	return ob
}

// scriptUnchanged: what comes back is what was imported.
func (r *runner) scriptUnchanged(a waddrmgr.ManagedScriptAddress, got []byte, sid scriptID) bool {
	want := scriptBytes(sid.id)
	if sid.skind != "tr" {
		return string(got) == string(want)
	}
	ta, ok := a.(waddrmgr.ManagedTaprootScriptAddress)
	if !ok {
		return false
	}
	ts, err := ta.TaprootScript()
	if err != nil || ts == nil || ts.ControlBlock == nil || ts.ControlBlock.InternalKey == nil || len(ts.Leaves) != 1 {
		return false
	}
	ik := scriptInternalKey(sid.id)
	return ts.Type == waddrmgr.TapscriptTypeFullTree && string(ts.Leaves[0].Script) == string(want) &&
		ts.Leaves[0].LeafVersion == txscript.BaseLeafVersion &&
		string(ts.ControlBlock.InternalKey.SerializeCompressed()[1:]) == string(ik[1:])
}

func (r *runner) addHandle(ma waddrmgr.ManagedAddress, origin string) *handle {
	h := &handle{ma: ma, origin: origin}
	r.handles = append(r.handles, h)
	if _, ok := r.objEpoch[ma]; !ok {
		r.objEpoch[ma] = r.epoch
		r.createdLocked[ma] = r.w.mgr.IsLocked()
	}
	return h
}

func pathOf(ref KeyRef) (scope [2]uint32, a, b, i uint32, ok bool) {
	raw := func(s [2]uint32) uint32 {
		if s[1] == 1 {
			return s[0] + hdoracle.HardenedStart
		}
		return s[0]
	}
	switch ref.Root {
	case "seed":
		if len(ref.Path) != 5 {
			return
		}
		return [2]uint32{ref.Path[0][0], ref.Path[1][0]}, ref.Path[2][0], raw(ref.Path[3]), raw(ref.Path[4]), true
	case "xpub":
		if len(ref.Path) != 2 {
			return
		}
		return scope, 0, raw(ref.Path[0]), raw(ref.Path[1]), true
	}
	return
}

// checkChain states C03 on one chain address returned for the REQUEST
// (scope, account a, branch, index idx) - raw child numbers: the oracle derives
// the key the specification assigns to that request and everything the wallet
// reports is compared with it.
func (r *runner) checkChain(site string, ob AddrObs, scope [2]uint32, a, branch, idx uint32, unlocked bool) {
	r.checkChainReq(site, ob, scope, a, branch, idx, unlocked, nil)
}

// checkChainReq: reqChild is the DerivationPath.Account field a DeriveFromKeyPath
// request carried (the caller vouches for it; the wallet copies it into the answer).
func (r *runner) checkChainReq(site string, ob AddrObs, scope [2]uint32, a, branch, idx uint32, unlocked bool, reqChild *uint32) {
	ak, sp := r.acctKey(scope, a)
	if ak == nil {
		r.violate("address_not_seed_child", site, fmt.Sprintf("address %s returned for unknown account %d", ob.Addr, a))
		return
	}
	if sp.root == "seed" {
		r.o.ensureChild(r.in.Seed, scope, a, branch, idx)
	}
	want, div, err := hdoracle.AddressKey(ak, branch, idx)
	if err != nil {
		r.violate("address_not_seed_child", site, fmt.Sprintf("%s returned for %v/%d/%d/%d, which has no key (%v)", ob.Addr, scope, a, branch, idx, err))
		return
	}
	for _, d := range div {
		r.tags["divergent_step_exercised:"+hdoracle.StepName(d.Depth)] = true
	}
	for n := range r.o.div[r.in.Seed] {
		if sp.root == "seed" && r.o.scopeDiverges(r.in.Seed, scope, a, n) {
			r.tags["divergent_step_exercised:"+n] = true
		}
	}
	if ob.Kind != "key" || ob.Pub != hex.EncodeToString(want.Pub[:]) {
		switch ps, pa, pb, pi, ok := pathOf(ob.Key); {
		case ob.Key.Deviation != "":
			r.violate("wrong_hardened_rule", site, fmt.Sprintf("%s for %v/%d/%d/%d encodes the key made with the %s; the specified key is %x",
				ob.Addr, scope, a, branch, idx, ob.Key.Deviation, want.Pub))
		case ok && ob.Key.Root == sp.root && (sp.root == "xpub" && ob.Key.ID == uint64(sp.xpub) || sp.root == "seed" && ob.Key.ID == r.in.Seed && ps == scope && pa == a) && pb == branch && pi != idx:
			r.violate("index_gap_or_repeat", site, fmt.Sprintf("%s is index %d, expected %d", ob.Addr, pi, idx))
		default:
			r.violate("address_not_seed_child", site, fmt.Sprintf("%s encodes key %+v (%s), wanted %s scope %v account %d branch %d index %d = %x",
				ob.Addr, ob.Key, ob.Pub, sp.root, scope, a, branch, idx, want.Pub))
		}
		return
	}
	if sch, ok := r.schemaFor(scope, a); ok {
		wantFmt := sch[0]
		if branch == 1 {
			wantFmt = sch[1]
		}
		if wantAddr, err := hdoracle.Address(onet, wantFmt, want.Pub[:]); err != nil || ob.Addr != wantAddr {
			r.violate("wrong_address_format", site, fmt.Sprintf("%s has format %q, schema says %s (%s)", ob.Addr, ob.Fmt, wantFmt, wantAddr))
		}
	}
	// reported derivation path, account, internal flag: the REQUEST's
	wantChild := a + hdoracle.HardenedStart
	if sp.root == "xpub" {
		wantChild = xpubChild(sp.xpub)
	}
	if reqChild != nil && *reqChild != wantChild {
		// the caller named another account child number than the account key has: an
		// untruthful request, for which the property promises nothing about that field
		// (the wallet reports the caller's value; noted as an observation)
		r.tags["observation:derive_reports_callers_account_field_unchecked"] = true
		wantChild = *reqChild
	}
	if !ob.Known || ob.DScope != scope || ob.DPath[0] != a || ob.DPath[1] != wantChild || ob.DPath[2] != branch ||
		ob.DPath[3] != idx || ob.IAcct != a || ob.Internal != (branch == 1) || ob.Imported {
		r.violate("wrong_reported_path", site, fmt.Sprintf("%s: reported scope %v path %v iacct %d internal %v imported %v; true: scope %v account %d (child %d) branch %d index %d",
			ob.Addr, ob.DScope, ob.DPath, ob.IAcct, ob.Internal, ob.Imported, scope, a, wantChild, branch, idx))
	}
	if ob.DPath[4] != sp.fp {
		r.tags["fingerprint_not_reported"] = true
	}
	r.checkPriv(site, ob, sp.hasPriv, unlocked)
	r.addrOf[ikey(scope, a, branch, idx)] = ob.Addr
}

// scopeDiverges: does divergence name n of the seed lie on the way to account a of scope?
func (o *oracleDB) scopeDiverges(seed uint64, scope [2]uint32, a uint32, n string) bool {
	key := fmt.Sprintf("div/%d/%d/%d/%d/%s", seed, scope[0], scope[1], a, n)
	if v, ok := o.divMemo[key]; ok {
		return v
	}
	res := false
	if _, div, err := hdoracle.AccountKey(o.master(seed), scope[0], scope[1], a); err == nil {
		for _, d := range div {
			if divName(d, a) == n {
				res = true
			}
		}
	}
	o.divMemo[key] = res
	return res
}

func (r *runner) checkPriv(site string, ob AddrObs, hasPriv, unlocked bool) {
	if !hasPriv {
		return
	}
	switch {
	case ob.Priv == "mismatch":
		r.violate("privkey_mismatch", site, ob.Addr+": "+ob.Sign)
	case ob.Priv == "ok" && ob.Sign != "ok":
		r.violate("cannot_sign_for_address", site, ob.Addr+": "+ob.Sign)
	case unlocked && ob.Priv != "ok":
		r.violate("privkey_unavailable_while_unlocked", site, ob.Addr+" PrivKey() = "+ob.Priv+" while unlocked")
	}
}

func (r *runner) scoped(scope [2]uint32) (*waddrmgr.ScopedKeyManager, error) {
	return r.w.mgr.FetchScopedKeyManager(waddrmgr.KeyScope{Purpose: scope[0], Coin: scope[1]})
}

func errResult(err error) Result { return Result{Kind: "err", Err: classify(err)} }

func opSite(op Op) string {
	switch op.Op {
	case "next":
		if op.Internal {
			return "NextInternalAddresses"
		}
		return "NextExternalAddresses"
	case "extend":
		if op.Internal {
			return "ExtendInternalAddresses"
		}
		return "ExtendExternalAddresses"
	case "lookup":
		return "Address"
	case "derive":
		return "DeriveFromKeyPath"
	case "derivecache":
		return "DeriveFromKeyPathCache"
	case "importkey":
		return "ImportPrivateKey"
	case "importpub":
		return "ImportPublicKey"
	case "importscript":
		return "ImportScript"
	case "importwscript":
		if op.SKind == "tr" {
			return "ImportTaprootScript"
		}
		return "ImportWitnessScript"
	case "open":
		return "Open"
	}
	return op.Op
}

func (r *runner) step(op Op) Result {
	if r.dead {
		return Result{Kind: "err", Err: "other"}
	}
	mgr := r.w.mgr
	site := opSite(op)
	res := Result{Kind: "ok"}
	// table the keys the specification assigns to the account the REQUEST names
	// (from the request alone, before anything the wallet answers is looked at)
	if sp := r.accts[op.Scope][op.Account]; sp != nil && sp.root == "seed" {
		r.o.ensureAcct(r.in.Seed, op.Scope, op.Account)
	}
	switch op.Op {
	case "open":
		if err := r.w.restart("w.db", r.pubPass); err != nil {
			// the wallet file no longer opens with its public passphrase: nothing
			// issued so far can be looked up or derived again
			r.violate("restart_fails", "Open", err.Error())
			r.dead = true
			return errResult(err)
		}
		r.handles = nil
		r.issuer = map[string]string{}
		r.epoch++
		r.tags["restart"] = true

	case "unlock":
		wasLocked := mgr.IsLocked()
		err := r.w.view(func(ns walletdb.ReadBucket) error { return mgr.Unlock(ns, passBytes(op.Pass)) })
		if err != nil {
			res = errResult(err)
			if res.Err == "crypto" {
				r.tags["unlock_fails_after_imported_account_was_used"] = true
			}
			if res.Err == "panic" {
				r.violate("panic_in_address_derivation", "Unlock", err.Error())
			}
		} else if wasLocked {
			r.tags["unlock"] = true
		}

	case "lock":
		if err := mgr.Lock(); err != nil {
			res = errResult(err)
		}

	case "chpass":
		err := r.w.update(func(ns walletdb.ReadWriteBucket) error {
			return mgr.ChangePassphrase(ns, passBytes(op.Pass), passBytes(op.NewPass), true, &waddrmgr.FastScryptOptions)
		})
		if err != nil {
			res = errResult(err)
		} else {
			r.tags["chpass"] = true
		}

	case "chpubpass":
		err := r.w.update(func(ns walletdb.ReadWriteBucket) error {
			return mgr.ChangePassphrase(ns, pubPassBytes(op.Pass), pubPassBytes(op.NewPass), false, &waddrmgr.FastScryptOptions)
		})
		if err != nil {
			res = errResult(err)
		} else {
			r.pubPass = op.NewPass
			r.tags["chpubpass"] = true
		}

	case "newscope":
		err := r.w.update(func(ns walletdb.ReadWriteBucket) error {
			_, err := mgr.NewScopedKeyManager(ns, waddrmgr.KeyScope{Purpose: op.Scope[0], Coin: op.Scope[1]},
				waddrmgr.ScopeAddrSchema{ExternalAddrType: addrType(op.Schema[0]), InternalAddrType: addrType(op.Schema[1])})
			return err
		})
		if err != nil {
			res = errResult(err)
		} else {
			r.schemas[op.Scope] = [2]string{op.Schema[0], op.Schema[1]}
			r.accts[op.Scope] = map[uint32]*acctSpec{0: {root: "seed", hasPriv: true}}
			r.tags["custom_scope"] = true
		}

	case "newacct":
		sm, err := r.scoped(op.Scope)
		if err != nil {
			return errResult(err)
		}
		var a uint32
		err = r.w.update(func(ns walletdb.ReadWriteBucket) error {
			var err error
			a, err = sm.NewAccount(ns, fmt.Sprintf("acct-%d", op.Name))
			return err
		})
		if err != nil {
			res = errResult(err)
		} else {
			res = Result{Kind: "acct", Acct: a}
			r.accts[op.Scope][a] = &acctSpec{root: "seed", hasPriv: true}
			r.tags["newacct"] = true
		}

	case "importxpub":
		sm, err := r.scoped(op.Scope)
		if err != nil {
			return errResult(err)
		}
		xk := r.o.xpub(op.Xpub)
		xpub := hdkeychain.NewExtendedKey(params.HDPublicKeyID[:], xk.Pub[:], xk.Chain[:], xk.ParentFP[:], xk.Depth, xk.ChildNum, false)
		var override *waddrmgr.ScopeAddrSchema
		var osch *[2]string
		if len(op.Schema) == 2 {
			override = &waddrmgr.ScopeAddrSchema{ExternalAddrType: addrType(op.Schema[0]), InternalAddrType: addrType(op.Schema[1])}
			osch = &[2]string{op.Schema[0], op.Schema[1]}
		}
		var a uint32
		err = r.w.update(func(ns walletdb.ReadWriteBucket) error {
			var err error
			a, err = sm.NewAccountWatchingOnly(ns, fmt.Sprintf("acct-%d", op.Name), xpub, op.Fp, override)
			return err
		})
		if err != nil {
			res = errResult(err)
		} else {
			res = Result{Kind: "acct", Acct: a}
			r.accts[op.Scope][a] = &acctSpec{root: "xpub", xpub: op.Xpub, schema: osch, fp: op.Fp}
			r.tags["imported_xpub"] = true
			if osch != nil {
				r.tags["schema_override"] = true
			}
		}

	case "next":
		sm, err := r.scoped(op.Scope)
		if err != nil {
			return errResult(err)
		}
		// A count the wallet would ACCEPT but that stands for millions of addresses is
		// not run (it only arises when a refused request of the generator lands in
		// another state, e.g. while a failing history is shrunk): the operation is
		// reported as skipped and left out of the comparison with the model.
		if b := r.issued[bkey(op.Scope, op.Account, map[bool]uint32{false: 0, true: 1}[op.Internal])]; op.N > maxRunCount &&
			op.N <= waddrmgr.MaxAddressesPerAccount && uint64(b)+uint64(op.N) <= waddrmgr.MaxAddressesPerAccount {
			r.tags["huge_request_not_run"] = true
			return Result{Kind: "skipped"}
		}
		var mas []waddrmgr.ManagedAddress
		err = r.w.update(func(ns walletdb.ReadWriteBucket) error {
			var err error
			if op.Internal {
				mas, err = sm.NextInternalAddresses(ns, op.Account, op.N)
			} else {
				mas, err = sm.NextExternalAddresses(ns, op.Account, op.N)
			}
			return err
		})
		if op.N == 0 {
			r.tags["next_zero"] = true
		}
		if err != nil {
			res = errResult(err)
			switch {
			case res.Err == "panic" && op.N == 0:
				// nothing was asked for, so the property owes no address; the
				// crash of the commit hook is reported as an observation
				r.tags["observation:next_zero_addresses_panics_in_commit_hook"] = true
			case res.Err == "panic":
				r.violate("panic_in_address_derivation", site, err.Error())
			case res.Err == "too_many":
				r.tags["too_many_refused"] = true
			}
			break
		}
		res = Result{Kind: "addrs"}
		branch := uint32(0)
		if op.Internal {
			branch = 1
		}
		bk := bkey(op.Scope, op.Account, branch)
		unlocked := !mgr.IsLocked()
		if uint32(len(mas)) != op.N {
			r.violate("index_gap_or_repeat", site, fmt.Sprintf("%d addresses returned, %d requested", len(mas), op.N))
		}
		for k, ma := range mas {
			h := r.addHandle(ma, site)
			ob := r.observe(ma)
			res.Addrs = append(res.Addrs, ob)
			h.kind, h.scope, h.account = "chain", op.Scope, op.Account
			r.checkChain(site, ob, op.Scope, op.Account, branch, r.issued[bk]+uint32(k), unlocked)
			r.issuer[ikey(op.Scope, op.Account, branch, r.issued[bk]+uint32(k))] = site
		}
		r.issued[bk] += uint32(len(mas))
		if unlocked {
			r.tags["next_unlocked"] = true
		} else {
			r.tags["next_locked"] = true
		}
		if sp := r.accts[op.Scope][op.Account]; sp != nil && sp.root == "xpub" {
			r.tags["imported_account_address"] = true
		}

	case "extend":
		sm, err := r.scoped(op.Scope)
		if err != nil {
			return errResult(err)
		}
		if b := r.issued[bkey(op.Scope, op.Account, map[bool]uint32{false: 0, true: 1}[op.Internal])]; op.N <= waddrmgr.MaxAddressesPerAccount &&
			op.N >= b && op.N-b > maxRunCount {
			r.tags["huge_request_not_run"] = true
			return Result{Kind: "skipped"}
		}
		wasLocked := mgr.IsLocked()
		err = r.w.update(func(ns walletdb.ReadWriteBucket) error {
			if op.Internal {
				return sm.ExtendInternalAddresses(ns, op.Account, op.N)
			}
			return sm.ExtendExternalAddresses(ns, op.Account, op.N)
		})
		if err != nil {
			res = errResult(err)
			if res.Err == "panic" {
				r.violate("panic_in_address_derivation", site, err.Error())
			}
			if res.Err == "too_many" {
				r.tags["too_many_refused"] = true
			}
			break
		}
		branch := uint32(0)
		if op.Internal {
			branch = 1
		}
		bk := bkey(op.Scope, op.Account, branch)
		for i := r.issued[bk]; i <= op.N; i++ {
			r.issuer[ikey(op.Scope, op.Account, branch, i)] = site
			if wasLocked {
				r.tags["extend_locked"] = true
			} else {
				r.tags["extend_unlocked"] = true
			}
		}
		if op.N+1 > r.issued[bk] {
			r.issued[bk] = op.N + 1
		}

	case "lookup", "markused":
		addr, err := r.targetAddress(op)
		if err != nil {
			return Result{Kind: "err", Err: "other"}
		}
		if op.Op == "markused" {
			err = r.w.update(func(ns walletdb.ReadWriteBucket) error { return mgr.MarkUsed(ns, addr) })
			if err != nil {
				res = errResult(err)
			} else {
				r.tags["markused"] = true
				if op.Root == "seed" || op.Root == "xpub" {
					delete(r.issuer, ikey(op.Scope, op.Account, op.Branch, op.Index))
				}
			}
			break
		}
		var ma waddrmgr.ManagedAddress
		err = r.w.view(func(ns walletdb.ReadBucket) error {
			var err error
			ma, err = mgr.Address(ns, addr)
			return err
		})
		if err != nil {
			res = errResult(err)
			// an address the wallet issued must be known to it
			if op.Root == "seed" || op.Root == "xpub" {
				if op.Index < r.issued[bkey(op.Scope, op.Account, op.Branch)] && op.Branch <= 1 {
					if _, fmtOK := r.schemaFor(op.Scope, op.Account); fmtOK && r.lookupFmtMatches(op) {
						r.violate("issued_address_unknown", site, fmt.Sprintf("%s (%v/%d/%d/%d) was issued but Address() fails: %v",
							addr, op.Scope, op.Account, op.Branch, op.Index, err))
					}
				}
			}
			// ... and so must imported keys and scripts
			if at, ok := r.impAddr[impAddrKey(op)]; ok && at == addr.String() {
				r.violate("issued_address_unknown", site, fmt.Sprintf("imported %s %d (%s) is not found: %v", op.Root, op.Key+op.Script, addr, err))
			}
			break
		}
		res = Result{Kind: "addrs"}
		_, seen := r.objEpoch[ma]
		origin := site
		if !seen {
			if is, ok := r.issuer[ikey(op.Scope, op.Account, op.Branch, op.Index)]; ok && (op.Root == "seed" || op.Root == "xpub") {
				origin = is
			}
		} else {
			for _, h := range r.handles {
				if h.ma == ma {
					origin = h.origin
					break
				}
			}
		}
		h := r.addHandle(ma, origin)
		ob := r.observe(ma)
		res.Addrs = []AddrObs{ob}
		unlocked := !mgr.IsLocked()
		switch op.Root {
		case "seed", "xpub":
			h.kind, h.scope, h.account = "chain", op.Scope, op.Account
			r.checkChain(origin, ob, op.Scope, op.Account, op.Branch, op.Index, unlocked)
			if unlocked && r.objEpoch[ma] == r.epoch && r.epoch > 0 && !seen {
				r.tags["probe_after_restart"] = true
			}
			if unlocked && origin != site && (origin == "ExtendExternalAddresses" || origin == "ExtendInternalAddresses") {
				r.tags["probe_extended_address"] = true
			}
		case "imp":
			h.kind, h.impKey, h.scope = "impkey", op.Key, op.Scope
			r.checkImported(origin, ob, op.Scope, op.Key, false, unlocked)
			if r.epoch > 0 && !impCompressed(op.Key) {
				r.tags["uncompressed_import_after_restart"] = true
			}
		case "imppub":
			h.kind, h.impKey, h.scope = "imppub", op.Key, op.Scope
			r.checkImported(origin, ob, op.Scope, op.Key, true, unlocked)
		case "script":
			h.kind, h.script, h.skind, h.secret = "script", op.Script, op.SKind, r.secret[addr.String()]
			r.checkScript(origin, ob, op.Script, op.SKind, unlocked || !h.secret)
		}

	case "derive":
		sm, err := r.scoped(op.Scope)
		if err != nil {
			return errResult(err)
		}
		kp := waddrmgr.DerivationPath{InternalAccount: op.Account, Account: op.AcctChild, Branch: op.Branch, Index: op.Index,
			MasterKeyFingerprint: op.Fp}
		var ma waddrmgr.ManagedAddress
		err = r.w.view(func(ns walletdb.ReadBucket) error {
			var err error
			ma, err = sm.DeriveFromKeyPath(ns, kp)
			return err
		})
		hardened := op.Branch >= hdoracle.HardenedStart || op.Index >= hdoracle.HardenedStart
		if hardened {
			r.tags["derive_hardened_request"] = true
		}
		if err != nil {
			res = errResult(err)
			if res.Err == "panic" {
				r.violate("panic_in_address_derivation", site, err.Error())
			}
			if hardened {
				r.tags["derive_hardened_refused"] = true
			}
			break
		}
		res = Result{Kind: "addrs"}
		if sp := r.accts[op.Scope][op.Account]; sp != nil && sp.root == "seed" {
			r.o.ensureChild(r.in.Seed, op.Scope, op.Account, op.Branch, op.Index) // name the requested key (from the request alone)
		}
		h := r.addHandle(ma, site)
		ob := r.observe(ma)
		res.Addrs = []AddrObs{ob}
		h.kind, h.scope, h.account = "chain", op.Scope, op.Account
		ac := op.AcctChild
		r.checkChainReq(site, ob, op.Scope, op.Account, op.Branch, op.Index, !mgr.IsLocked(), &ac)
		if hardened {
			r.tags["derive_hardened_derived"] = true
		}
		if mgr.IsLocked() {
			r.tags["derive_locked"] = true
		} else {
			r.tags["derive_unlocked"] = true
		}

	case "derivecache":
		sm, err := r.scoped(op.Scope)
		if err != nil {
			return errResult(err)
		}
		kp := waddrmgr.DerivationPath{InternalAccount: op.Account, Account: op.AcctChild, Branch: op.Branch, Index: op.Index,
			MasterKeyFingerprint: op.Fp}
		// miss, hit, hit: every answer is used and wiped by the caller before the
		// next call; all three must be the key of the requested path
		var d []byte
		repeat := ""
		for call := 0; call < 3; call++ {
			var pk *btcec.PrivateKey
			var cerr error
			func() {
				defer func() {
					if rc := recover(); rc != nil {
						cerr = panicErr{rc}
					}
				}()
				pk, cerr = sm.DeriveFromKeyPathCache(kp)
			}()
			if call == 0 {
				err = cerr
				if err != nil {
					break
				}
				d = useAndWipe(pk)
				continue
			}
			if cerr != nil {
				repeat = fmt.Sprintf("call %d fails (%s) after call 1 succeeded", call+1, classify(cerr))
				break
			}
			if dn := useAndWipe(pk); string(dn) != string(d) {
				repeat = fmt.Sprintf("call %d returns another key (%x...) than call 1 after the caller wiped the earlier answers", call+1, dn[:4])
				break
			}
		}
		if err != nil {
			res = errResult(err)
			if res.Err == "panic" {
				r.violate("panic_in_address_derivation", site, err.Error())
			}
			break
		}
		if repeat != "" {
			r.violate("privkey_mismatch", site, fmt.Sprintf("DeriveFromKeyPathCache %v/%d/%d/%d: %s", op.Scope, op.Account, op.Branch, op.Index, repeat))
		}
		own := hdoracle.PubOfScalar(d)
		if sp := r.accts[op.Scope][op.Account]; sp != nil && sp.root == "seed" {
			r.o.ensureChild(r.in.Seed, op.Scope, op.Account, op.Branch, op.Index)
		}
		ref, _ := r.o.ref(own[:])
		res = Result{Kind: "key", Key: &ref}
		r.tags["derivecache_key"] = true
		// the key must be the private key the specification derives for the REQUEST
		good := false
		if ak, sp := r.acctKey(op.Scope, op.Account); ak != nil && sp.hasPriv {
			if want, _, err := hdoracle.AddressKey(ak, op.Branch, op.Index); err == nil && want.Priv != nil {
				good = string(want.PrivBytes()) == string(d)
			}
		}
		if !good {
			r.violate("privkey_mismatch", site, fmt.Sprintf("key %+v returned for %v/%d/%d/%d", ref, op.Scope, op.Account, op.Branch, op.Index))
		}

	case "importkey":
		sm, err := r.scoped(op.Scope)
		if err != nil {
			return errResult(err)
		}
		k := r.o.impKey(op.Key)
		priv, _ := btcec.PrivKeyFromBytes(k.PrivBytes())
		wif, err := btcutil.NewWIF(priv, params, impCompressed(op.Key))
		if err != nil {
			panic(err)
		}
		var ma waddrmgr.ManagedPubKeyAddress
		err = r.w.update(func(ns walletdb.ReadWriteBucket) error {
			var err error
			ma, err = sm.ImportPrivateKey(ns, wif, nil)
			return err
		})
		if err != nil {
			res = errResult(err)
			break
		}
		res = Result{Kind: "addrs"}
		h := r.addHandle(ma, site)
		ob := r.observe(ma)
		res.Addrs = []AddrObs{ob}
		h.kind, h.impKey, h.scope = "impkey", op.Key, op.Scope
		r.impAddr[fmt.Sprintf("%v/imp/%d", op.Scope, op.Key)] = ob.Addr
		r.checkImported(site, ob, op.Scope, op.Key, false, !mgr.IsLocked())
		r.tags["importkey"] = true
		if !impCompressed(op.Key) {
			r.tags["importkey_uncompressed"] = true
		}

	case "importpub":
		sm, err := r.scoped(op.Scope)
		if err != nil {
			return errResult(err)
		}
		k := r.o.impPub(op.Key)
		pub, err := btcec.ParsePubKey(k.Pub[:])
		if err != nil {
			panic(err)
		}
		var ma waddrmgr.ManagedAddress
		err = r.w.update(func(ns walletdb.ReadWriteBucket) error {
			var err error
			ma, err = sm.ImportPublicKey(ns, pub, nil)
			return err
		})
		if err != nil {
			res = errResult(err)
			break
		}
		res = Result{Kind: "addrs"}
		h := r.addHandle(ma, site)
		ob := r.observe(ma)
		res.Addrs = []AddrObs{ob}
		h.kind, h.impKey, h.scope = "imppub", op.Key, op.Scope
		r.impAddr[fmt.Sprintf("%v/imppub/%d", op.Scope, op.Key)] = ob.Addr
		r.checkImported(site, ob, op.Scope, op.Key, true, !mgr.IsLocked())
		r.tags["importpub:"+r.schemas[op.Scope][0]] = true

	case "importscript", "importwscript":
		sm, err := r.scoped(op.Scope)
		if err != nil {
			return errResult(err)
		}
		sb := scriptBytes(op.Script)
		skind, secret := op.SKind, op.Secret
		if op.Op == "importscript" {
			skind, secret = "", true
		}
		want := scriptAddress(op.Script, skind)
		r.scripts[want] = scriptID{op.Script, skind}
		var ma waddrmgr.ManagedScriptAddress
		err = r.w.update(func(ns walletdb.ReadWriteBucket) error {
			var err error
			switch skind {
			case "wsh":
				ma, err = sm.ImportWitnessScript(ns, sb, &waddrmgr.BlockStamp{}, 0, secret)
			case "tr":
				ik := scriptInternalKey(op.Script)
				ipub, perr := btcec.ParsePubKey(ik[:])
				if perr != nil {
					panic(perr)
				}
				ts := &waddrmgr.Tapscript{Type: waddrmgr.TapscriptTypeFullTree,
					ControlBlock: &txscript.ControlBlock{InternalKey: ipub},
					Leaves:       []txscript.TapLeaf{txscript.NewBaseTapLeaf(sb)}}
				var ta waddrmgr.ManagedTaprootScriptAddress
				ta, err = sm.ImportTaprootScript(ns, ts, &waddrmgr.BlockStamp{}, 1, secret)
				if err == nil {
					ma = ta
				}
			default:
				ma, err = sm.ImportScript(ns, sb, &waddrmgr.BlockStamp{})
			}
			return err
		})
		if err != nil {
			res = errResult(err)
			break
		}
		r.secret[want] = secret
		res = Result{Kind: "addrs"}
		h := r.addHandle(ma, site)
		ob := r.observe(ma)
		res.Addrs = []AddrObs{ob}
		h.kind, h.script, h.skind, h.secret = "script", op.Script, skind, secret
		r.impAddr[fmt.Sprintf("%v/script/%d", op.Scope, op.Script)] = want
		if ob.Addr != want {
			r.violate("imported_script_changed", site, fmt.Sprintf("script %d (%s) imported under address %s, its address is %s", op.Script, skind, ob.Addr, want))
		}
		r.checkScript(site, ob, op.Script, skind, !mgr.IsLocked() || !secret)
		r.tags["importscript:"+skind] = true
		if !secret {
			r.tags["importscript_public"] = true
		}

	case "props":
		sm, err := r.scoped(op.Scope)
		if err != nil {
			return errResult(err)
		}
		var p *waddrmgr.AccountProperties
		err = r.w.view(func(ns walletdb.ReadBucket) error {
			var err error
			p, err = sm.AccountProperties(ns, op.Account)
			return err
		})
		if err != nil {
			res = errResult(err)
			break
		}
		res = Result{Kind: "props", Props: [2]uint32{p.ExternalKeyCount, p.InternalKeyCount}}
		if p.ExternalKeyCount != r.issued[bkey(op.Scope, op.Account, 0)] || p.InternalKeyCount != r.issued[bkey(op.Scope, op.Account, 1)] {
			r.violate("index_gap_or_repeat", "AccountProperties", fmt.Sprintf("scope %v account %d: key counts %d/%d, issued so far %d/%d",
				op.Scope, op.Account, p.ExternalKeyCount, p.InternalKeyCount,
				r.issued[bkey(op.Scope, op.Account, 0)], r.issued[bkey(op.Scope, op.Account, 1)]))
		}

	case "priv":
		if op.Handle < 0 || op.Handle >= len(r.handles) {
			return Result{Kind: "err", Err: "other"}
		}
		h := r.handles[op.Handle]
		pka, ok := h.ma.(waddrmgr.ManagedPubKeyAddress)
		if !ok {
			return Result{Kind: "err", Err: "other"}
		}
		ob := r.observe(h.ma)
		pk, err := pka.PrivKey()
		if err != nil {
			res = errResult(err)
		} else {
			own := hdoracle.PubOfScalar(useAndWipe(pk))
			ref, ent := r.o.ref(own[:])
			if ent != nil && ent.Root == "imp" && impCompressed(int(ent.ID)) != ob.Compressed {
				ref = KeyRef{Root: "unknown", Path: [][2]uint32{}}
			}
			res = Result{Kind: "key", Key: &ref}
		}
		unlocked := !mgr.IsLocked()
		switch h.kind {
		case "chain":
			if sp := r.accts[h.scope][h.account]; sp != nil {
				r.checkPriv(h.origin, ob, sp.hasPriv, unlocked)
				if unlocked && sp.hasPriv && r.createdLocked[h.ma] {
					r.tags["probe_created_locked_then_unlocked"] = true
				}
			}
		case "impkey":
			r.checkImported(h.origin, ob, h.scope, h.impKey, false, unlocked)
		case "imppub":
			r.checkImported(h.origin, ob, h.scope, h.impKey, true, unlocked)
		}

	case "script":
		if op.Handle < 0 || op.Handle >= len(r.handles) {
			return Result{Kind: "err", Err: "other"}
		}
		h := r.handles[op.Handle]
		sa, ok := h.ma.(waddrmgr.ManagedScriptAddress)
		if !ok {
			return Result{Kind: "err", Err: "other"}
		}
		s, err := sa.Script()
		if err != nil {
			res = errResult(err)
		} else {
			res = Result{Kind: "script", Script: -1}
			if r.scriptUnchanged(sa, s, scriptID{h.script, h.skind}) {
				res.Script = h.script
				res.SKind = h.skind
			}
		}
		if h.kind == "script" {
			r.checkScript(h.origin, r.observe(h.ma), h.script, h.skind, !mgr.IsLocked() || !h.secret)
		}

	default:
		panic("unknown op " + op.Op)
	}
	return res
}

func impAddrKey(op Op) string {
	switch op.Root {
	case "imp", "imppub":
		return fmt.Sprintf("%v/%s/%d", op.Scope, op.Root, op.Key)
	case "script":
		return fmt.Sprintf("%v/script/%d", op.Scope, op.Script)
	}
	return ""
}

func (r *runner) lookupFmtMatches(op Op) bool {
	sch, ok := r.schemaFor(op.Scope, op.Account)
	if !ok {
		return false
	}
	want := sch[0]
	if op.Branch == 1 {
		want = sch[1]
	}
	return want == op.Fmt
}

// checkImported: an imported key comes back unchanged - same point, same
// serialization (compressed flag), hence the same address as at import - with
// its private key when one was imported (pubOnly = false) and the manager is
// unlocked, and without one otherwise.
func (r *runner) checkImported(site string, ob AddrObs, scope [2]uint32, key int, pubOnly, unlocked bool) {
	root := "imp"
	if pubOnly {
		root = "imppub"
	}
	if ob.Kind != "key" || ob.Key.Root != root || ob.Key.ID != uint64(key) || !ob.Imported || ob.Known {
		r.violate("imported_key_changed", site, fmt.Sprintf("imported key %s %d comes back as %+v imported=%v compressed=%v", root, key, ob.Key, ob.Imported, ob.Compressed))
		return
	}
	if at, ok := r.impAddr[fmt.Sprintf("%v/%s/%d", scope, root, key)]; ok && at != ob.Addr {
		r.violate("imported_key_changed", site, fmt.Sprintf("imported key %s %d had address %s at import and has %s now", root, key, at, ob.Addr))
	}
	// the address the key has in the scope's external format (for an
	// uncompressed key: the legacy P2PKH form only; other formats have no
	// agreed meaning for 65-byte keys, there the address at import is the reference)
	if sch, ok := r.schemas[scope]; ok {
		ser := r.o.impPubSerialized(root, key)
		if len(ser) == 33 || sch[0] == hdoracle.P2PKH || sch[0] == hdoracle.P2TR {
			if want, err := hdoracle.AddressOfSerialized(onet, sch[0], ser); err == nil && want != ob.Addr {
				r.violate("imported_key_changed", site, fmt.Sprintf("imported key %s %d has address %s, its %s address is %s", root, key, ob.Addr, sch[0], want))
			}
		}
	}
	if pubOnly {
		if ob.Priv == "ok" || ob.Priv == "mismatch" {
			r.violate("imported_key_changed", site, fmt.Sprintf("public key %d was imported without a private key, PrivKey() = %s", key, ob.Priv))
		}
		return
	}
	if ob.Priv == "mismatch" || (unlocked && ob.Priv != "ok") {
		r.violate("imported_key_changed", site, fmt.Sprintf("imported key %d: PrivKey() = %s %s", key, ob.Priv, ob.Sign))
	} else if ob.Priv == "ok" && ob.Sign != "ok" {
		r.violate("cannot_sign_for_address", site, fmt.Sprintf("imported key %d: %s", key, ob.Sign))
	}
}

// checkScript: avail = the script must be readable now (unlocked, or imported as a public script).
func (r *runner) checkScript(site string, ob AddrObs, script int, skind string, avail bool) {
	if ob.Kind != "script" || ob.Script != script || ob.SKind != skind {
		r.violate("imported_script_changed", site, fmt.Sprintf("imported script %d (%s) comes back as %+v", script, skind, ob))
		return
	}
	if ob.ScriptV == "changed" || (avail && ob.ScriptV != "ok") {
		r.violate("imported_script_changed", site, fmt.Sprintf("imported script %d: Script() = %s", script, ob.ScriptV))
	}
}

// recreate builds a SECOND, independent wallet from the same seed - other
// private and public passphrases, another creation time, its own database
// file - lets it issue the same address ranges, and compares every address
// with the one the oracle derives for (seed, scope, account, branch, index) and
// with the one the first wallet reported.
func (r *runner) recreate(pass int) {
	w2, err := createWallet(r.w.dir, "w2.db", r.in.Seed, pass+700, 9, time.Unix(1700000000, 0))
	if err != nil {
		panic(err)
	}
	defer w2.close()
	if err := w2.view(func(ns walletdb.ReadBucket) error { return w2.mgr.Unlock(ns, passBytes(pass+700)) }); err != nil {
		panic(err)
	}
	var keys []string
	for k := range r.issued {
		keys = append(keys, k)
	}
	sort.Strings(keys)
	compared := 0
	for _, k := range keys {
		var scope [2]uint32
		var a, b uint32
		fmt.Sscanf(k, "%d/%d/%d/%d", &scope[0], &scope[1], &a, &b)
		sp := r.accts[scope][a]
		n := r.issued[k]
		if sp == nil || sp.root != "seed" || n == 0 || a > maxTableAcct {
			continue
		}
		if n > 12 {
			n = 12
		}
		ks := waddrmgr.KeyScope{Purpose: scope[0], Coin: scope[1]}
		sm, err := w2.mgr.FetchScopedKeyManager(ks)
		if err != nil {
			sch := r.schemas[scope]
			err = w2.update(func(ns walletdb.ReadWriteBucket) error {
				var err error
				sm, err = w2.mgr.NewScopedKeyManager(ns, ks, waddrmgr.ScopeAddrSchema{
					ExternalAddrType: addrType(sch[0]), InternalAddrType: addrType(sch[1])})
				return err
			})
			if err != nil {
				panic(err)
			}
		}
		var mas []waddrmgr.ManagedAddress
		err = w2.update(func(ns walletdb.ReadWriteBucket) error {
			if a != 0 {
				if _, err := sm.AccountProperties(ns, a); err != nil {
					if err := sm.NewRawAccount(ns, a); err != nil {
						return err
					}
				}
			}
			var err error
			if b == 1 {
				mas, err = sm.NextInternalAddresses(ns, a, n)
			} else {
				mas, err = sm.NextExternalAddresses(ns, a, n)
			}
			return err
		})
		if err != nil {
			r.violate("recreated_wallet_differs", "Create", fmt.Sprintf("re-created wallet cannot issue %s: %v", k, err))
			continue
		}
		sch := r.schemas[scope]
		ak := r.o.seedAcct(r.in.Seed, scope, a)
		for i, ma := range mas {
			want, _, err := hdoracle.AddressKey(ak, b, uint32(i))
			if err != nil {
				continue
			}
			wantAddr, _ := hdoracle.Address(onet, sch[b], want.Pub[:])
			got := ma.Address().String()
			compared++
			if got != wantAddr {
				note := ""
				if pk, ok := ma.(waddrmgr.ManagedPubKeyAddress); ok {
					if ref, _ := r.o.ref(pk.PubKey().SerializeCompressed()); ref.Deviation != "" {
						note = " (the key made with the " + ref.Deviation + ")"
					}
				}
				r.violate("recreated_wallet_differs", "Create", fmt.Sprintf("%s index %d: the wallet re-created from the seed issues %s%s, the seed's address is %s",
					k, i, got, note, wantAddr))
			}
			if old, ok := r.addrOf[ikey(scope, a, b, uint32(i))]; ok && old != got {
				r.violate("recreated_wallet_differs", "Create", fmt.Sprintf("%s index %d: %s in the history, %s in the re-created wallet", k, i, old, got))
			}
		}
	}
	if compared > 0 {
		r.tags["recreated_compared"] = true
	}
}

func runCase(o *oracleDB, dir string, in Input, recreate bool) Case {
	w, err := createWallet(dir, "w.db", in.Seed, in.Pass, 0, time.Time{})
	if err != nil {
		panic(err)
	}
	r := &runner{in: in, o: o, w: w, schemas: map[[2]uint32][2]string{}, accts: map[[2]uint32]map[uint32]*acctSpec{},
		issued: map[string]uint32{}, issuer: map[string]string{}, addrOf: map[string]string{}, impAddr: map[string]string{},
		scripts: map[string]scriptID{}, secret: map[string]bool{},
		bad: map[string]string{}, tags: map[string]bool{}, createdLocked: map[waddrmgr.ManagedAddress]bool{},
		objEpoch: map[waddrmgr.ManagedAddress]int{}}
	defer func() { r.w.close() }()
	for sc, sch := range defaultSchemas {
		r.schemas[sc] = sch
		r.accts[sc] = map[uint32]*acctSpec{0: {root: "seed", hasPriv: true}}
		o.ensureScope(in.Seed, sc)
	}
	for _, sc := range customScopes {
		o.ensureScope(in.Seed, sc)
	}
	c := Case{In: in, Obs: []Result{}, Oracle: []string{}, Tags: []string{}}
	for _, op := range in.Ops {
		res := r.step(op)
		if !r.dead {
			res.Locked = r.w.mgr.IsLocked()
		}
		if res.Addrs == nil {
			res.Addrs = []AddrObs{}
		}
		c.Obs = append(c.Obs, res)
	}
	if recreate {
		r.recreate(in.Pass)
	}
	for n := range o.div[in.Seed] {
		r.tags["seed_leading_zero_parent:"+n] = true
	}
	var kinds []string
	for k := range r.bad {
		kinds = append(kinds, k)
	}
	sort.Strings(kinds)
	for _, k := range kinds {
		c.Oracle = append(c.Oracle, k)
	}
	if len(kinds) > 0 {
		c.Sites = r.bad
		c.Site = r.bad[kinds[0]]
		// prefer the site of the private-key clause when several kinds fired
		for _, k := range kinds {
			if k == "privkey_unavailable_while_unlocked" {
				c.Site = r.bad[k]
			}
		}
	}
	c.Detail = r.detail
	if len(c.Detail) > 6 {
		c.Detail = c.Detail[:6]
	}
	for t := range r.tags {
		c.Tags = append(c.Tags, t)
	}
	sort.Strings(c.Tags)
	return c
}

// -------------------------------------------------------------- the generator

type gAcct struct {
	num    uint32
	root   string
	xpub   int
	schema []string
	fp     uint32
}

type gHandle struct {
	kind string // chain|impkey|script
}

type gState struct {
	r        *gen.R
	locked   bool
	pass     int
	scopes   [][2]uint32
	schema   map[[2]uint32][2]string
	accts    map[[2]uint32][]*gAcct
	last     map[[2]uint32]uint32
	next     map[string]uint32
	handles  []gHandle
	impKeys  []Op // lookup targets of imported keys
	scripts  []Op
	nameCtr  int
	stuck    bool // an imported account is cached: the next unlock from locked fails
	custom   bool
	keyCtr   int
	pubCtr   int
	pubPass  int
	impPubs  []Op
	xpubPool []int
	focus    *divSeed // the seed has a leading-zero parent there: go there often
}

func newGState(r *gen.R, pass int, xpubPool []int) *gState {
	g := &gState{r: r, locked: true, pass: pass, schema: map[[2]uint32][2]string{}, accts: map[[2]uint32][]*gAcct{},
		last: map[[2]uint32]uint32{}, next: map[string]uint32{}, nameCtr: 10, xpubPool: xpubPool}
	for _, sc := range defaultScopeList {
		g.scopes = append(g.scopes, sc)
		g.schema[sc] = defaultSchemas[sc]
		g.accts[sc] = []*gAcct{{num: 0, root: "seed"}}
	}
	return g
}

func (g *gState) pickScope() [2]uint32 {
	if g.focus != nil && g.focus.Step != "master" && g.r.Chance(3, 5) {
		for _, sc := range g.scopes {
			if sc == g.focus.Scope {
				return sc
			}
		}
	}
	return g.scopes[g.r.Intn(len(g.scopes))]
}

func (g *gState) pickAcct(sc [2]uint32) *gAcct {
	l := g.accts[sc]
	if g.focus != nil && sc == g.focus.Scope && (g.focus.Step == "account" || g.focus.Step == "branch") && g.r.Chance(2, 3) {
		for _, a := range l {
			if a.num == g.focus.Account && a.root == "seed" {
				return a
			}
		}
	}
	return l[g.r.Intn(len(l))]
}

func (g *gState) fmtOf(sc [2]uint32, a *gAcct, branch uint32) string {
	s := g.schema[sc]
	if a.schema != nil {
		s = [2]string{a.schema[0], a.schema[1]}
	}
	if branch == 1 {
		return s[1]
	}
	return s[0]
}

// touch: an imported (watch-only) account gets into the account cache.  At the
// pinned commit the next Unlock from the locked state then failed (repaired:
// ebd132b), which the generator had to anticipate to keep its account numbering
// in step with the wallet; Unlock succeeds now, so nothing is recorded any more.
func (g *gState) touch(a *gAcct) {}

func (g *gState) target(sc [2]uint32, a *gAcct, branch, index uint32) Op {
	op := Op{Scope: sc, Account: a.num, Branch: branch, Index: index, Root: a.root, Xpub: a.xpub, Fmt: g.fmtOf(sc, a, branch)}
	if a.root == "xpub" {
		op.Cn = xpubChild(a.xpub)
	}
	return op
}

func (g *gState) acctChild(a *gAcct) uint32 {
	if a.root == "xpub" {
		return xpubChild(a.xpub)
	}
	return a.num + hdoracle.HardenedStart
}

var allFormats = []string{hdoracle.P2PKH, hdoracle.NP2WKH, hdoracle.P2WKH, hdoracle.P2TR}

// genOps appends one operation (sometimes a short scenario) to ops.
func (g *gState) genOps(tier string) []Op {
	r := g.r
	sc := g.pickScope()
	a := g.pickAcct(sc)
	branch := uint32(r.Pick(3, 2))
	internal := branch == 1
	bk := bkey(sc, a.num, branch)
	unlockOp := func() Op { return Op{Op: "unlock", Pass: g.pass} }
	doUnlock := func() []Op {
		if !g.locked {
			return nil
		}
		if !g.stuck {
			g.locked = false
		}
		return []Op{unlockOp()}
	}
	// a seed whose coin-type (or purpose / master) key has a leading zero byte: more accounts, in that scope
	wNewAcct, wHard := 4, 3
	if g.focus != nil {
		switch g.focus.Step {
		case "master", "purpose", "coin":
			wNewAcct = 9
		default:
			wNewAcct, wHard = 8, 10
		}
	}
	switch r.Pick(8, 5, 2, 1, wNewAcct, 3, 18, 10, 16, 3, 6, 4, 3, 2, 5, 10, 2, 4, 6, 3, 3, 2, 2, wHard, 2) {
	case 0: // unlock
		if r.Chance(1, 8) {
			wrong := Op{Op: "unlock", Pass: g.pass + 100 + r.Intn(3)}
			g.locked = true
			return []Op{wrong}
		}
		if g.locked {
			return doUnlock()
		}
		return []Op{unlockOp()}
	case 1: // lock
		if !g.locked || r.Chance(1, 6) {
			g.locked = true
			return []Op{{Op: "lock"}}
		}
		return doUnlock()
	case 2: // change passphrase
		if r.Chance(1, 5) {
			return []Op{{Op: "chpass", Pass: g.pass + 50, NewPass: g.pass + 1}}
		}
		np := g.pass + 1
		op := Op{Op: "chpass", Pass: g.pass, NewPass: np}
		g.pass = np
		return []Op{op}
	case 3: // custom scope
		if g.custom {
			return nil
		}
		var out []Op
		out = append(out, doUnlock()...)
		cs := customScopes[r.Intn(len(customScopes))]
		if g.focus != nil && (g.focus.Scope == customScopes[0] || g.focus.Scope == customScopes[1]) {
			cs = g.focus.Scope
		}
		sch := []string{allFormats[r.Intn(4)], allFormats[r.Intn(4)]}
		out = append(out, Op{Op: "newscope", Scope: cs, Schema: sch})
		if !g.locked {
			g.custom = true
			g.scopes = append(g.scopes, cs)
			g.schema[cs] = [2]string{sch[0], sch[1]}
			g.accts[cs] = []*gAcct{{num: 0, root: "seed"}}
		}
		return out
	case 4: // new account
		if g.last[sc] >= 4 {
			return nil
		}
		var out []Op
		if r.Chance(4, 5) {
			out = append(out, doUnlock()...)
		}
		g.nameCtr++
		out = append(out, Op{Op: "newacct", Scope: sc, Name: g.nameCtr})
		if !g.locked {
			g.last[sc]++
			g.accts[sc] = append(g.accts[sc], &gAcct{num: g.last[sc], root: "seed"})
		}
		return out
	case 5: // imported xpub account
		if g.last[sc] >= 4 {
			return nil
		}
		g.nameCtr++
		x := g.xpubPool[r.Intn(len(g.xpubPool))]
		for _, l := range g.accts {
			for _, o := range l {
				if o.root == "xpub" && o.xpub == x {
					return nil // one import per xpub and history
				}
			}
		}
		op := Op{Op: "importxpub", Scope: sc, Name: g.nameCtr, Xpub: x, Cn: xpubChild(x), Fp: uint32(r.Intn(1 << 30))}
		if r.Chance(1, 2) {
			op.Schema = []string{allFormats[r.Intn(4)], allFormats[r.Intn(4)]}
		}
		g.last[sc]++
		g.accts[sc] = append(g.accts[sc], &gAcct{num: g.last[sc], root: "xpub", xpub: x, schema: op.Schema, fp: op.Fp})
		return []Op{op}
	case 6: // next addresses
		if g.next[bk] > 34 {
			return nil
		}
		n := uint32(r.Range(1, 4))
		acct := a.num
		if r.Chance(1, 25) {
			acct = g.last[sc] + 1 + uint32(r.Intn(2)) // unknown account
			return []Op{{Op: "next", Scope: sc, Account: acct, Internal: internal, N: n}}
		}
		g.touch(a)
		g.next[bk] += n
		for i := uint32(0); i < n; i++ {
			g.handles = append(g.handles, gHandle{"chain"})
		}
		return []Op{{Op: "next", Scope: sc, Account: acct, Internal: internal, N: n}}
	case 7: // extend, then look at one of the extended addresses
		if g.next[bk] > 34 {
			return nil
		}
		var out []Op
		if g.locked && r.Chance(1, 2) {
			out = append(out, doUnlock()...)
		}
		last := g.next[bk] + uint32(r.Range(0, 5))
		if r.Chance(1, 6) && g.next[bk] > 0 {
			last = uint32(r.Intn(int(g.next[bk]))) // already derived: a no-op
		}
		out = append(out, Op{Op: "extend", Scope: sc, Account: a.num, Internal: internal, N: last})
		g.touch(a)
		unlockedImported := !g.locked && a.root == "xpub" // the pinned code panics here
		from := g.next[bk]
		if last+1 > g.next[bk] && !unlockedImported {
			g.next[bk] = last + 1
		}
		out = append(out, Op{Op: "props", Scope: sc, Account: a.num})
		if last >= from && r.Chance(4, 5) {
			idx := from + uint32(r.Intn(int(last-from+1)))
			t := g.target(sc, a, branch, idx)
			t.Op = "lookup"
			out = append(out, t)
			g.handles = append(g.handles, gHandle{"chain"})
		}
		return out
	case 8: // look up an address
		idx := uint32(0)
		switch {
		case g.next[bk] > 0 && r.Chance(7, 10):
			idx = uint32(r.Intn(int(g.next[bk])))
			g.handles = append(g.handles, gHandle{"chain"})
			g.touch(a)
		case r.Chance(2, 3):
			idx = g.next[bk] + uint32(r.Intn(3)) // not issued yet
		default:
			idx = g.next[bk] + 5 + uint32(r.Intn(5))
		}
		t := g.target(sc, a, branch, idx)
		t.Op = "lookup"
		if r.Chance(1, 20) {
			t.Fmt = allFormats[r.Intn(4)] // the same key in another encoding
		}
		return []Op{t}
	case 9: // lookup of imported material
		if len(g.impKeys)+len(g.scripts)+len(g.impPubs) == 0 {
			return nil
		}
		all := append(append(append([]Op{}, g.impKeys...), g.scripts...), g.impPubs...)
		t := all[r.Intn(len(all))]
		t.Op = "lookup"
		if t.Root == "script" {
			g.handles = append(g.handles, gHandle{"script"})
		} else {
			g.handles = append(g.handles, gHandle{"impkey"})
		}
		return []Op{t}
	case 10: // derive from key path
		b := branch
		if r.Chance(1, 8) {
			b = 2
		}
		idx := uint32(r.Intn(int(g.next[bk]) + 4))
		op := Op{Op: "derive", Scope: sc, Account: a.num, AcctChild: g.acctChild(a), Branch: b, Index: idx, Fp: a.fp}
		g.touch(a)
		g.handles = append(g.handles, gHandle{"chain"})
		return []Op{op}
	case 11: // derive from key path, cache variant
		idx := uint32(r.Intn(int(g.next[bk]) + 4))
		return []Op{{Op: "derivecache", Scope: sc, Account: a.num, AcctChild: g.acctChild(a), Branch: branch, Index: idx, Fp: a.fp}}
	case 12: // import a private key
		var out []Op
		if r.Chance(4, 5) {
			out = append(out, doUnlock()...)
		}
		g.keyCtr++
		k := g.keyCtr
		if r.Chance(1, 8) && len(g.impKeys) > 0 {
			// a duplicate import, into the SAME scope (refused).  The same key is
			// never imported into two scopes: P2PKH and P2WPKH addresses of one key
			// share their script address, Manager.Address walks the scoped managers
			// in Go map order, and which of the two imported addresses it returns
			// would then differ from run to run.
			dup := g.impKeys[r.Intn(len(g.impKeys))]
			k, sc = dup.Key, dup.Scope
		}
		out = append(out, Op{Op: "importkey", Scope: sc, Key: k})
		if !g.locked && k == g.keyCtr {
			t := Op{Scope: sc, Root: "imp", Key: k, Fmt: g.schema[sc][0]}
			g.impKeys = append(g.impKeys, t)
			g.handles = append(g.handles, gHandle{"impkey"})
			if !impCompressed(k) && r.Chance(1, 2) {
				// a WIF that says "uncompressed": the address must survive the restart
				g.locked, g.stuck, g.handles = true, false, nil
				t.Op = "lookup"
				out = append(out, Op{Op: "open"}, t)
				g.handles = append(g.handles, gHandle{"impkey"})
			}
		}
		return out
	case 13: // import a script
		var out []Op
		if r.Chance(4, 5) {
			out = append(out, doUnlock()...)
		}
		g.keyCtr++
		out = append(out, Op{Op: "importscript", Scope: sc, Script: g.keyCtr})
		if !g.locked {
			g.scripts = append(g.scripts, Op{Scope: sc, Root: "script", Script: g.keyCtr})
			g.handles = append(g.handles, gHandle{"script"})
		}
		return out
	case 14: // account properties
		g.touch(a)
		return []Op{{Op: "props", Scope: sc, Account: a.num}}
	case 15: // private key of an address handed out earlier
		if len(g.handles) == 0 {
			return nil
		}
		var out []Op
		if r.Chance(3, 5) {
			out = append(out, doUnlock()...)
		}
		h := r.Intn(len(g.handles))
		if r.Chance(1, 2) {
			h = len(g.handles) - 1 - r.Intn(min(len(g.handles), 4))
		}
		if g.handles[h].kind == "script" {
			return append(out, Op{Op: "script", Handle: h})
		}
		return append(out, Op{Op: "priv", Handle: h})
	case 16: // script getter
		for h, x := range g.handles {
			if x.kind == "script" {
				return []Op{{Op: "script", Handle: h}}
			}
		}
		return nil
	case 17: // mark used, then look the address up again
		if g.next[bk] == 0 {
			return nil
		}
		idx := uint32(r.Intn(int(g.next[bk])))
		t := g.target(sc, a, branch, idx)
		t.Op = "markused"
		g.touch(a)
		out := []Op{t}
		if r.Chance(3, 4) {
			l := t
			l.Op = "lookup"
			out = append(out, l)
			g.handles = append(g.handles, gHandle{"chain"})
		}
		return out
	case 18: // restart
		g.locked = true
		g.stuck = false
		g.handles = nil
		return []Op{{Op: "open"}}
	case 19: // import a public key (no lock needed)
		g.pubCtr++
		k := g.pubCtr
		if r.Chance(1, 8) && len(g.impPubs) > 0 {
			dup := g.impPubs[r.Intn(len(g.impPubs))] // a duplicate import into the same scope (refused)
			k, sc = dup.Key, dup.Scope
		}
		if k == g.pubCtr {
			g.impPubs = append(g.impPubs, Op{Scope: sc, Root: "imppub", Key: k, Fmt: g.schema[sc][0]})
			g.handles = append(g.handles, gHandle{"imppub"})
		}
		return []Op{{Op: "importpub", Scope: sc, Key: k}}
	case 20: // import a witness / taproot script, secret or public
		var out []Op
		if r.Chance(3, 5) {
			out = append(out, doUnlock()...)
		}
		g.keyCtr++
		op := Op{Op: "importwscript", Scope: sc, Script: g.keyCtr, SKind: []string{"wsh", "tr"}[r.Intn(2)], Secret: r.Chance(1, 2)}
		out = append(out, op)
		if !g.locked || !op.Secret {
			g.scripts = append(g.scripts, Op{Scope: sc, Root: "script", Script: op.Script, SKind: op.SKind})
			g.handles = append(g.handles, gHandle{"script"})
		}
		return out
	case 21: // change the PUBLIC passphrase; often restart and look again
		if r.Chance(1, 5) {
			return []Op{{Op: "chpubpass", Pass: g.pubPass + 50, NewPass: g.pubPass + 1}}
		}
		out := []Op{{Op: "chpubpass", Pass: g.pubPass, NewPass: g.pubPass + 1}}
		g.pubPass++
		if r.Chance(2, 3) {
			g.locked, g.stuck, g.handles = true, false, nil
			out = append(out, Op{Op: "open"})
			if g.next[bk] > 0 {
				t := g.target(sc, a, branch, uint32(r.Intn(int(g.next[bk]))))
				t.Op = "lookup"
				out = append(out, t)
				g.handles = append(g.handles, gHandle{"chain"})
				g.touch(a)
			}
		}
		return out
	case 22: // the edges of the count: nothing, or more than an account can hold
		switch r.Intn(4) {
		case 0:
			return []Op{{Op: "next", Scope: sc, Account: a.num, Internal: internal, N: 0}}
		case 1:
			g.touch(a)
			return []Op{{Op: "next", Scope: sc, Account: a.num, Internal: internal, N: hdoracle.HardenedStart + uint32(r.Intn(3))}}
		case 2:
			g.touch(a)
			return []Op{{Op: "next", Scope: sc, Account: a.num, Internal: internal, N: hdoracle.HardenedStart - g.next[bk]}}
		default:
			g.touch(a)
			return []Op{{Op: "extend", Scope: sc, Account: a.num, Internal: internal, N: hdoracle.HardenedStart + uint32(r.Intn(3))}}
		}
	case 23: // a hardened branch and/or index through DeriveFromKeyPath(Cache)
		var out []Op
		if r.Chance(5, 6) {
			out = append(out, doUnlock()...)
		}
		b, idx := branch, uint32(r.Intn(6))
		if g.focus != nil && g.focus.Step == "branch" && a.num == g.focus.Account && sc == g.focus.Scope {
			b = g.focus.Branch
		}
		switch r.Intn(3) {
		case 0:
			b += hdoracle.HardenedStart
		case 1:
			idx += hdoracle.HardenedStart
		default:
			b += hdoracle.HardenedStart
			idx += hdoracle.HardenedStart
		}
		if g.focus != nil && g.focus.Step == "branch" && a.num == g.focus.Account && sc == g.focus.Scope {
			b, idx = g.focus.Branch, idx|hdoracle.HardenedStart
		}
		op := Op{Op: "derive", Scope: sc, Account: a.num, AcctChild: g.acctChild(a), Branch: b, Index: idx, Fp: a.fp}
		g.touch(a)
		out = append(out, op)
		if !g.locked && a.root == "seed" {
			g.handles = append(g.handles, gHandle{"chain"})
			if r.Chance(1, 2) {
				c := op
				c.Op = "derivecache"
				out = append(out, c)
			}
		}
		return out
	case 24: // change the private passphrase, restart, unlock with the new one, look an address up and issue the next one
		if g.stuck {
			return nil
		}
		np := g.pass + 1
		out := []Op{{Op: "chpass", Pass: g.pass, NewPass: np}, {Op: "open"}, {Op: "unlock", Pass: np}}
		g.pass, g.locked, g.handles = np, false, nil
		if g.next[bk] > 0 {
			t := g.target(sc, a, branch, uint32(r.Intn(int(g.next[bk]))))
			t.Op = "lookup"
			out = append(out, t)
			g.handles = append(g.handles, gHandle{"chain"})
		}
		if g.next[bk] <= 34 {
			out = append(out, Op{Op: "next", Scope: sc, Account: a.num, Internal: internal, N: 1})
			g.next[bk]++
			g.handles = append(g.handles, gHandle{"chain"})
		}
		g.touch(a)
		return out
	}
	return nil
}

func genCase(r *gen.R, seeds []uint64, xpubPool []int, tier string) Input {
	in := Input{Seed: seeds[r.Intn(len(seeds))], Pass: 1}
	g := newGState(r, in.Pass, xpubPool)
	var foci []*divSeed
	for i := range divergentSeeds {
		if divergentSeeds[i].Seed == in.Seed {
			foci = append(foci, &divergentSeeds[i])
		}
	}
	if len(foci) > 0 {
		g.focus = foci[r.Intn(len(foci))]
	}
	n := r.Range(10, 45)
	for len(in.Ops) < n {
		in.Ops = append(in.Ops, g.genOps(tier)...)
	}
	return in
}

// scripted cases: the situations the property names, each in isolation
func scriptedCases(seed uint64) []Input {
	s84, s49, s86, s44 := [2]uint32{84, 0}, [2]uint32{49, 0}, [2]uint32{86, 0}, [2]uint32{44, 0}
	hs := hdoracle.HardenedStart
	lk := func(sc [2]uint32, a, b, i uint32, f string) Op {
		return Op{Op: "lookup", Scope: sc, Account: a, Branch: b, Index: i, Root: "seed", Fmt: f}
	}
	return []Input{
		// issued while locked, key wanted after unlock
		{Seed: seed, Pass: 1, Ops: []Op{{Op: "next", Scope: s84, N: 2}, {Op: "next", Scope: s49, Internal: true, N: 1},
			{Op: "unlock", Pass: 1}, {Op: "priv", Handle: 0}, {Op: "priv", Handle: 2}, {Op: "lock"}, {Op: "priv", Handle: 1}}},
		// extended while unlocked (recovery), looked up, key wanted
		{Seed: seed, Pass: 1, Ops: []Op{{Op: "unlock", Pass: 1}, {Op: "extend", Scope: s84, N: 2}, {Op: "props", Scope: s84},
			lk(s84, 0, 0, 0, hdoracle.P2WKH), lk(s84, 0, 0, 2, hdoracle.P2WKH), {Op: "next", Scope: s84, N: 1}}},
		{Seed: seed, Pass: 1, Ops: []Op{{Op: "unlock", Pass: 1}, {Op: "extend", Scope: s86, Internal: true, N: 1},
			lk(s86, 0, 1, 1, hdoracle.P2TR), {Op: "priv", Handle: 0}}},
		// extended while locked, then unlocked
		{Seed: seed, Pass: 1, Ops: []Op{{Op: "extend", Scope: s44, N: 3}, lk(s44, 0, 0, 1, hdoracle.P2PKH), {Op: "unlock", Pass: 1},
			{Op: "priv", Handle: 0}, lk(s44, 0, 0, 3, hdoracle.P2PKH)}},
		// restart, then lookup
		{Seed: seed, Pass: 1, Ops: []Op{{Op: "unlock", Pass: 1}, {Op: "next", Scope: s49, N: 3}, {Op: "open"}, {Op: "unlock", Pass: 1},
			lk(s49, 0, 0, 1, hdoracle.NP2WKH), {Op: "priv", Handle: 0}}},
		// derive from path while locked, then unlock
		{Seed: seed, Pass: 1, Ops: []Op{{Op: "derive", Scope: s84, AcctChild: hs, Branch: 1, Index: 7}, {Op: "unlock", Pass: 1},
			{Op: "priv", Handle: 0}, {Op: "derivecache", Scope: s84, AcctChild: hs, Branch: 1, Index: 7}}},
		// new account, passphrase change, restart
		{Seed: seed, Pass: 1, Ops: []Op{{Op: "unlock", Pass: 1}, {Op: "newacct", Scope: s84, Name: 11}, {Op: "next", Scope: s84, Account: 1, N: 2},
			{Op: "chpass", Pass: 1, NewPass: 2}, {Op: "open"}, {Op: "unlock", Pass: 1}, {Op: "unlock", Pass: 2},
			{Op: "lookup", Scope: s84, Account: 1, Index: 1, Root: "seed", Fmt: hdoracle.P2WKH}}},
		// imported xpub account with a schema override, locked (the pinned code panics when unlocked)
		{Seed: seed, Pass: 1, Ops: []Op{{Op: "importxpub", Scope: s84, Name: 11, Xpub: 3, Cn: xpubChild(3), Fp: 77, Schema: []string{hdoracle.NP2WKH, hdoracle.NP2WKH}},
			{Op: "next", Scope: s84, Account: 1, N: 2}, {Op: "extend", Scope: s84, Account: 1, Internal: true, N: 1},
			{Op: "lookup", Scope: s84, Account: 1, Branch: 1, Index: 1, Root: "xpub", Xpub: 3, Cn: xpubChild(3), Fmt: hdoracle.NP2WKH},
			{Op: "open"}, {Op: "lookup", Scope: s84, Account: 1, Branch: 1, Index: 1, Root: "xpub", Xpub: 3, Cn: xpubChild(3), Fmt: hdoracle.NP2WKH}}},
		// imported key and script survive lock and restart
		{Seed: seed, Pass: 1, Ops: []Op{{Op: "unlock", Pass: 1}, {Op: "importkey", Scope: s84, Key: 5}, {Op: "importscript", Scope: s44, Script: 6},
			{Op: "lock"}, {Op: "priv", Handle: 0}, {Op: "unlock", Pass: 1}, {Op: "priv", Handle: 0}, {Op: "script", Handle: 1}, {Op: "open"},
			{Op: "unlock", Pass: 1}, {Op: "lookup", Scope: s84, Root: "imp", Key: 5, Fmt: hdoracle.P2WKH},
			{Op: "lookup", Scope: s44, Root: "script", Script: 6}}},
		// a public key imported into each of the four default scopes (while locked), looked up, restart, looked up
		{Seed: seed, Pass: 1, Ops: []Op{{Op: "importpub", Scope: s44, Key: 1}, {Op: "importpub", Scope: s49, Key: 2}, {Op: "importpub", Scope: s84, Key: 3},
			{Op: "importpub", Scope: s86, Key: 4}, {Op: "importpub", Scope: s84, Key: 3}, {Op: "unlock", Pass: 1}, {Op: "priv", Handle: 2},
			{Op: "lookup", Scope: s86, Root: "imppub", Key: 4, Fmt: hdoracle.P2TR}, {Op: "open"}, {Op: "unlock", Pass: 1},
			{Op: "lookup", Scope: s44, Root: "imppub", Key: 1, Fmt: hdoracle.P2PKH}, {Op: "lookup", Scope: s49, Root: "imppub", Key: 2, Fmt: hdoracle.NP2WKH},
			{Op: "lookup", Scope: s84, Root: "imppub", Key: 3, Fmt: hdoracle.P2WKH}, {Op: "lookup", Scope: s86, Root: "imppub", Key: 4, Fmt: hdoracle.P2TR}}},
		// WIFs that say "uncompressed" (keys 3, 7, 11): the address at import is the address after lock, restart, lookup
		{Seed: seed, Pass: 1, Ops: []Op{{Op: "unlock", Pass: 1}, {Op: "importkey", Scope: s44, Key: 3}, {Op: "importkey", Scope: s84, Key: 7},
			{Op: "importkey", Scope: s86, Key: 11}, {Op: "importkey", Scope: s44, Key: 4}, {Op: "lock"}, {Op: "unlock", Pass: 1}, {Op: "priv", Handle: 0},
			{Op: "open"}, {Op: "lookup", Scope: s44, Root: "imp", Key: 3, Fmt: hdoracle.P2PKH}, {Op: "unlock", Pass: 1},
			{Op: "lookup", Scope: s44, Root: "imp", Key: 3, Fmt: hdoracle.P2PKH}, {Op: "lookup", Scope: s84, Root: "imp", Key: 7, Fmt: hdoracle.P2WKH},
			{Op: "lookup", Scope: s86, Root: "imp", Key: 11, Fmt: hdoracle.P2TR}, {Op: "lookup", Scope: s44, Root: "imp", Key: 4, Fmt: hdoracle.P2PKH},
			{Op: "priv", Handle: 1}}},
		// witness and taproot scripts, secret and public; lock; restart
		{Seed: seed, Pass: 1, Ops: []Op{{Op: "importwscript", Scope: s84, Script: 21, SKind: "wsh", Secret: true},
			{Op: "importwscript", Scope: s84, Script: 22, SKind: "wsh"}, {Op: "script", Handle: 0}, {Op: "unlock", Pass: 1},
			{Op: "importwscript", Scope: s84, Script: 21, SKind: "wsh", Secret: true}, {Op: "importwscript", Scope: s86, Script: 23, SKind: "tr", Secret: true},
			{Op: "importwscript", Scope: s86, Script: 24, SKind: "tr"}, {Op: "importscript", Scope: s44, Script: 21}, {Op: "lock"},
			{Op: "script", Handle: 0}, {Op: "script", Handle: 1}, {Op: "script", Handle: 2}, {Op: "script", Handle: 3}, {Op: "open"},
			{Op: "lookup", Scope: s84, Root: "script", Script: 22, SKind: "wsh"}, {Op: "lookup", Scope: s86, Root: "script", Script: 24, SKind: "tr"},
			{Op: "lookup", Scope: s86, Root: "script", Script: 23, SKind: "tr"}, {Op: "unlock", Pass: 1},
			{Op: "lookup", Scope: s84, Root: "script", Script: 21, SKind: "wsh"}, {Op: "lookup", Scope: s86, Root: "script", Script: 23, SKind: "tr"},
			{Op: "lookup", Scope: s44, Root: "script", Script: 21}}},
		// both passphrases changed, restart, everything derived again
		{Seed: seed, Pass: 1, Ops: []Op{{Op: "unlock", Pass: 1}, {Op: "next", Scope: s86, N: 2}, {Op: "newacct", Scope: s49, Name: 11},
			{Op: "next", Scope: s49, Account: 1, Internal: true, N: 2}, {Op: "chpubpass", Pass: 5, NewPass: 1}, {Op: "chpubpass", Pass: 0, NewPass: 1},
			{Op: "chpass", Pass: 1, NewPass: 2}, {Op: "open"}, {Op: "unlock", Pass: 1}, {Op: "unlock", Pass: 2}, lk(s86, 0, 0, 1, hdoracle.P2TR),
			lk(s49, 1, 1, 0, hdoracle.P2WKH), {Op: "next", Scope: s86, N: 1}, {Op: "next", Scope: s49, Account: 1, Internal: true, N: 1},
			{Op: "derive", Scope: s49, Account: 1, AcctChild: hs + 1, Branch: 1, Index: 1}, {Op: "chpubpass", Pass: 1, NewPass: 2}, {Op: "open"},
			lk(s86, 0, 0, 2, hdoracle.P2TR)}},
		// the edges of the count, and an unknown account together with an excessive count
		{Seed: seed, Pass: 1, Ops: []Op{{Op: "next", Scope: s84, N: 0}, {Op: "next", Scope: s84, N: 1}, {Op: "next", Scope: s84, N: hs},
			{Op: "next", Scope: s84, N: hs - 1}, {Op: "extend", Scope: s84, N: hs}, {Op: "next", Scope: s84, Account: 9, N: hs},
			{Op: "props", Scope: s84}, {Op: "unlock", Pass: 1}, {Op: "next", Scope: s84, Internal: true, N: 0}, {Op: "next", Scope: s84, N: 1}}},
		// hardened branch / index requests: refused while locked, the specified key while unlocked
		{Seed: seed, Pass: 1, Ops: []Op{{Op: "derive", Scope: s84, AcctChild: hs, Branch: hs, Index: 1}, {Op: "derive", Scope: s84, AcctChild: hs, Branch: 0, Index: hs + 1},
			{Op: "unlock", Pass: 1}, {Op: "derive", Scope: s84, AcctChild: hs, Branch: hs, Index: 1}, {Op: "derive", Scope: s84, AcctChild: hs, Branch: 0, Index: hs + 1},
			{Op: "derive", Scope: s44, AcctChild: hs, Branch: hs + 1, Index: hs + 2}, {Op: "derivecache", Scope: s84, AcctChild: hs, Branch: 0, Index: hs + 1},
			{Op: "priv", Handle: 1}, {Op: "lock"}, {Op: "priv", Handle: 0}}},
	}
}

// divergentScenario: a fixed history that walks through the hardened step below
// the leading-zero parent d names (see divergent.go), on that seed.
func divergentScenario(d divSeed) Input {
	sc := d.Scope
	hs := hdoracle.HardenedStart
	if d.Step == "master" {
		sc = [2]uint32{84, 0}
	}
	fmtOf := func(b uint32) string { return defaultSchemas[sc][b] }
	ops := []Op{{Op: "unlock", Pass: 1}}
	if _, ok := defaultSchemas[sc]; !ok {
		ops = append(ops, Op{Op: "newscope", Scope: sc, Schema: []string{hdoracle.P2WKH, hdoracle.P2TR}})
		fmtOf = func(b uint32) string { return []string{hdoracle.P2WKH, hdoracle.P2TR}[b] }
	}
	lk := func(a, b, i uint32) Op {
		return Op{Op: "lookup", Scope: sc, Account: a, Branch: b, Index: i, Root: "seed", Fmt: fmtOf(b)}
	}
	switch d.Step {
	case "master", "purpose", "coin":
		// account 0 (made with the scope) and two later accounts, both branches, restart, a second scope
		ops = append(ops, Op{Op: "next", Scope: sc, N: 2}, Op{Op: "next", Scope: sc, Internal: true, N: 1},
			Op{Op: "newacct", Scope: sc, Name: 11}, Op{Op: "newacct", Scope: sc, Name: 12},
			Op{Op: "next", Scope: sc, Account: 1, N: 2}, Op{Op: "next", Scope: sc, Account: 2, Internal: true, N: 1},
			Op{Op: "lock"}, Op{Op: "next", Scope: sc, Account: 1, N: 1}, Op{Op: "open"}, Op{Op: "unlock", Pass: 1},
			lk(0, 0, 1), lk(1, 0, 2), lk(2, 1, 0), Op{Op: "newacct", Scope: sc, Name: 13}, Op{Op: "extend", Scope: sc, Account: 3, N: 1}, lk(3, 0, 1),
			Op{Op: "derive", Scope: sc, Account: 1, AcctChild: hs + 1, Branch: 0, Index: 7},
			Op{Op: "derivecache", Scope: sc, Account: 2, AcctChild: hs + 2, Branch: 1, Index: 0},
			Op{Op: "next", Scope: [2]uint32{44, 0}, N: 1}, Op{Op: "next", Scope: [2]uint32{86, 0}, N: 1})
	case "account", "branch":
		for a := uint32(1); a <= d.Account; a++ {
			ops = append(ops, Op{Op: "newacct", Scope: sc, Name: 10 + int(a)})
		}
		ac := hs + d.Account
		b := d.Branch
		ops = append(ops, Op{Op: "next", Scope: sc, Account: d.Account, Internal: b == 1, N: 2},
			Op{Op: "derive", Scope: sc, Account: d.Account, AcctChild: ac, Branch: hs + b, Index: 3},
			Op{Op: "derive", Scope: sc, Account: d.Account, AcctChild: ac, Branch: b, Index: hs + 5},
			Op{Op: "derive", Scope: sc, Account: d.Account, AcctChild: ac, Branch: hs + 1 - b, Index: hs},
			Op{Op: "derivecache", Scope: sc, Account: d.Account, AcctChild: ac, Branch: b, Index: hs + 5},
			Op{Op: "derivecache", Scope: sc, Account: d.Account, AcctChild: ac, Branch: hs + b, Index: 3},
			Op{Op: "priv", Handle: 2}, Op{Op: "priv", Handle: 3}, Op{Op: "lock"},
			Op{Op: "derive", Scope: sc, Account: d.Account, AcctChild: ac, Branch: b, Index: hs + 5},
			Op{Op: "open"}, Op{Op: "unlock", Pass: 1},
			Op{Op: "derive", Scope: sc, Account: d.Account, AcctChild: ac, Branch: b, Index: hs + 5},
			Op{Op: "derive", Scope: sc, Account: d.Account, AcctChild: ac, Branch: hs + b, Index: 3}, lk(d.Account, b, 1))
	}
	return Input{Seed: d.Seed, Pass: 1, Ops: ops}
}

type job struct {
	in       Input
	recreate bool
	scripted bool
	replay   bool
}

// runJobs runs the cases with a few workers - each with its own oracle tables
// and directory - and prints them in the order given.
func runJobs(jobs []job, workers int, dir string, out *core.Emitter) error {
	results := make([]Case, len(jobs))
	next := make(chan int, len(jobs))
	for i := range jobs {
		next <- i
	}
	close(next)
	if workers < 1 {
		workers = 1
	}
	var wg sync.WaitGroup
	for w := 0; w < workers; w++ {
		wdir, err := os.MkdirTemp(dir, "w")
		if err != nil {
			return err
		}
		wg.Add(1)
		go func(wdir string) {
			defer wg.Done()
			wo := newOracleDB()
			for i := range next {
				cc := runCase(wo, wdir, jobs[i].in, jobs[i].recreate)
				if jobs[i].scripted {
					cc.Tags = append(cc.Tags, "scripted")
				}
				if jobs[i].replay {
					cc.Tags = append(cc.Tags, "replay")
				}
				results[i] = cc
			}
		}(wdir)
	}
	wg.Wait()
	for _, cc := range results {
		out.Emit(cc)
	}
	return nil
}

func main() {
	var find, workers int
	var emitDiv bool
	core.Main("c03", func(fs *flag.FlagSet) {
		fs.IntVar(&find, "find-divergent", 0, "search seed numbers 0..n-1 for leading-zero intermediate keys and print them")
		fs.IntVar(&workers, "workers", 8, "cases run in parallel")
		fs.BoolVar(&emitDiv, "emit-divergent", false, "print the fixed histories on the embedded leading-zero seeds ({\"in\":...} lines: corpus/C03/legacy_rule.jsonl)")
	}, func(c *core.Common, out *core.Emitter) error {
		if find > 0 {
			findDivergent(find)
			return nil
		}
		validateDivergent()
		if emitDiv {
			for _, d := range divergentSeeds {
				out.Emit(map[string]interface{}{"in": divergentScenario(d), "note": fmt.Sprintf("leading-zero %s key, scope %v account %d branch %d", d.Step, d.Scope, d.Account, d.Branch)})
			}
			return nil
		}
		dir, err := os.MkdirTemp(tmpBase(), "vh-c03-")
		if err != nil {
			return err
		}
		defer os.RemoveAll(dir)
		if c.Replay != "" {
			var jobs []job
			err := core.ReadReplay(c.Replay, func(raw json.RawMessage) error {
				var cs struct {
					In Input `json:"in"`
				}
				if err := json.Unmarshal(raw, &cs); err != nil {
					return err
				}
				jobs = append(jobs, job{in: cs.In, recreate: true, replay: true})
				return nil
			})
			if err != nil {
				return err
			}
			return runJobs(jobs, workers, dir, out)
		}
		r := gen.New(c.Seed, 3)
		nseeds := 5
		if c.Tier == "thorough" {
			nseeds = 24
		}
		var seeds []uint64
		for i := 0; i < nseeds; i++ {
			seeds = append(seeds, uint64(r.Int63n(1<<40)))
		}
		// ... plus seeds on which the two hardened-derivation rules differ: three
		// of the embedded list per run (which ones depends on the run's seed), all
		// of them in the thorough tier
		pool := divergentPool()
		if c.Tier == "thorough" {
			seeds = append(seeds, pool...)
		} else {
			for i := 0; i < 3; i++ {
				seeds = append(seeds, pool[(int(c.Seed)*3+i*7)%len(pool)])
			}
		}
		xpubs := []int{r.Intn(1000), 1000 + r.Intn(1000), 2000 + r.Intn(1000)}
		// the inputs are drawn first (one stream, so a run is a function of -seed and
		// -n alone), then run by a few workers, each with its own oracle tables and
		// directory; the cases are printed in the order they were drawn
		var jobs []job
		for i, in := range scriptedCases(seeds[0]) {
			jobs = append(jobs, job{in: in, recreate: i%3 == 0, scripted: true})
		}
		for i := 0; i < c.N; i++ {
			jobs = append(jobs, job{in: genCase(r, seeds, xpubs, c.Tier), recreate: i%4 == 0})
		}
		return runJobs(jobs, workers, dir, out)
	})
}
