// Command c03 drives the REAL waddrmgr (Create/Open over a bbolt file) through
// operation histories and projects everything it hands out - addresses, public
// keys, private keys, derivation info - to symbolic derivation paths through
// the independent oracle harness/internal/hdoracle.  One JSON object per case:
//
//	{"in": {"seed":id,"pass":1,"ops":[...]}, "obs":[result per op], "oracle":[kinds], "tags":[...], "site":"..."}
//
// "oracle" states property C03 directly on what the implementation did.
package main

import (
	"crypto/sha256"
	"encoding/binary"
	"encoding/json"
	"errors"
	"fmt"
	"os"
	"path/filepath"
	"sort"
	"time"

	"github.com/btcsuite/btcd/btcec/v2"
	"github.com/btcsuite/btcd/btcutil"
	"github.com/btcsuite/btcd/btcutil/hdkeychain"
	"github.com/btcsuite/btcd/chaincfg"
	"github.com/btcsuite/btcwallet/waddrmgr"
	"github.com/btcsuite/btcwallet/walletdb"
	_ "github.com/btcsuite/btcwallet/walletdb/bdb"

	"verifharness/internal/core"
	"verifharness/internal/gen"
	"verifharness/internal/hdoracle"
)

// ------------------------------------------------------------------ inputs

// Op is one operation of a history.  Which fields matter depends on Op.
type Op struct {
	Op        string    `json:"op"`
	Scope     [2]uint32 `json:"scope"`
	Account   uint32    `json:"account"`
	Internal  bool      `json:"internal"`
	N         uint32    `json:"n"` // next: count; extend: last index
	Pass      int       `json:"pass"`
	NewPass   int       `json:"newpass"`
	Name      int       `json:"name"`
	Xpub      int       `json:"xpub"`
	Cn        uint32    `json:"cn"` // child number of the imported xpub
	Fp        uint32    `json:"fp"`
	Schema    []string  `json:"schema"` // newscope: [ext,int]; importxpub: override or null
	Branch    uint32    `json:"branch"`
	Index     uint32    `json:"index"`
	AcctChild uint32    `json:"acct_child"` // derive: DerivationPath.Account
	Root      string    `json:"root"`       // lookup/markused target: seed|xpub|imp|script
	Fmt       string    `json:"fmt"`
	Key       int       `json:"key"`
	Script    int       `json:"script"`
	Handle    int       `json:"handle"`
}

// Input is a replayable case.
type Input struct {
	Seed uint64 `json:"seed"`
	Pass int    `json:"pass"`
	Ops  []Op   `json:"ops"`
}

// KeyRef names a key through the oracle.
type KeyRef struct {
	Root string      `json:"root"` // seed|xpub|imp|unknown
	ID   uint64      `json:"id"`
	Cn   uint32      `json:"cn"`
	Path [][2]uint32 `json:"path"`
	Alt  string      `json:"alt,omitempty"`
}

// AddrObs is everything read off one managed address.
type AddrObs struct {
	Kind     string    `json:"kind"` // key|script
	Addr     string    `json:"addr"`
	Key      KeyRef    `json:"key"`
	Fmt      string    `json:"fmt"`
	DScope   [2]uint32 `json:"dscope"`
	DPath    [5]uint32 `json:"dpath"` // InternalAccount, Account, Branch, Index, MasterKeyFingerprint
	Known    bool      `json:"known"`
	IAcct    uint32    `json:"iacct"`
	Internal bool      `json:"internal"`
	Imported bool      `json:"imported"`
	Priv     string    `json:"priv"` // ok|mismatch|err:<class>
	Script   int       `json:"script"`
	ScriptV  string    `json:"scriptv"` // ok|changed|err:<class>
}

// Result is the observable answer of one operation.
type Result struct {
	Kind   string    `json:"kind"` // ok|err|addrs|props|acct|key|script
	Err    string    `json:"err,omitempty"`
	Addrs  []AddrObs `json:"addrs"`
	Props  [2]uint32 `json:"props"`
	Acct   uint32    `json:"acct"`
	Key    *KeyRef   `json:"key,omitempty"`
	Script int       `json:"script"`
	Locked bool      `json:"locked"` // IsLocked() after the operation
}

// Case is one line of output.
type Case struct {
	In     Input    `json:"in"`
	Obs    []Result `json:"obs"`
	Oracle []string `json:"oracle"`
	Tags   []string `json:"tags"`
	Site   string   `json:"site"`
	// Sites gives the site of every violated clause (Site is the first one).
	Sites  map[string]string `json:"sites,omitempty"`
	Detail []string          `json:"detail,omitempty"`
}

// ------------------------------------------------------- deterministic material

func material(tag string, id uint64) []byte {
	var b [8]byte
	binary.BigEndian.PutUint64(b[:], id)
	h := sha256.Sum256(append([]byte("verif-c03-"+tag+"-"), b[:]...))
	return h[:]
}

func passBytes(id int) []byte { return []byte(fmt.Sprintf("priv-pass-%d", id)) }

var pubPass = []byte("public")

func scriptBytes(id int) []byte {
	// OP_1 <8 bytes> OP_DROP : any byte string is accepted by ImportScript
	b := []byte{0x51, 0x08, 0, 0, 0, 0, 0, 0, 0, 0, 0x75}
	binary.BigEndian.PutUint64(b[2:10], uint64(id))
	return b
}

var params = &chaincfg.MainNetParams
var onet = hdoracle.MainNet

var defaultSchemas = map[[2]uint32][2]string{
	{49, 0}: {hdoracle.NP2WKH, hdoracle.P2WKH},
	{84, 0}: {hdoracle.P2WKH, hdoracle.P2WKH},
	{86, 0}: {hdoracle.P2TR, hdoracle.P2TR},
	{44, 0}: {hdoracle.P2PKH, hdoracle.P2PKH},
}
var defaultScopeList = [][2]uint32{{49, 0}, {84, 0}, {86, 0}, {44, 0}}
var customScopes = [][2]uint32{{1017, 0}, {45, 1}}

func addrType(f string) waddrmgr.AddressType {
	switch f {
	case hdoracle.P2PKH:
		return waddrmgr.PubKeyHash
	case hdoracle.NP2WKH:
		return waddrmgr.NestedWitnessPubKey
	case hdoracle.P2WKH:
		return waddrmgr.WitnessPubKey
	case hdoracle.P2TR:
		return waddrmgr.TaprootPubKey
	}
	panic("format " + f)
}

// xpubSpec: the imported xpub number id is the account key m/84'/0'/(id%5)' of
// an unrelated seed.
func xpubChild(id int) uint32 { return uint32(id%5) + hdoracle.HardenedStart }

// ------------------------------------------------------------ oracle tables

const (
	maxTableAcct  = 7
	maxTableIndex = 47
)

var tableBranches = []uint32{0, 1, 2}

type oracleDB struct {
	t       *hdoracle.Table
	masters map[uint64]*hdoracle.Key
	acct    map[string]*hdoracle.Key // "seed/<id>/<p>/<c>/<a>" or "xpub/<id>"
	zero    map[uint64]bool          // a seed with a leading-zero intermediate key
	done    map[string]bool
}

func newOracleDB() *oracleDB {
	return &oracleDB{t: hdoracle.NewTable(), masters: map[uint64]*hdoracle.Key{}, acct: map[string]*hdoracle.Key{},
		zero: map[uint64]bool{}, done: map[string]bool{}}
}

func (o *oracleDB) master(seed uint64) *hdoracle.Key {
	if k, ok := o.masters[seed]; ok {
		return k
	}
	k, err := hdoracle.Master(material("seed", seed))
	if err != nil {
		panic(err)
	}
	o.masters[seed] = k
	return k
}

// ensureScope fills the table for every account 0..maxTableAcct of a scope.
func (o *oracleDB) ensureScope(seed uint64, scope [2]uint32) {
	key := fmt.Sprintf("seed/%d/%d/%d", seed, scope[0], scope[1])
	if o.done[key] {
		return
	}
	o.done[key] = true
	for a := uint32(0); a <= maxTableAcct; a++ {
		// what hdkeychain effectively does inside waddrmgr: the root key (NewMaster
		// or parsed) still has 32 bytes -> standard; purpose key and, for account
		// 0 (derived together with the scope), the coin-type key are used as
		// derived in memory -> legacy; later accounts are derived from the parsed
		// coin-type key -> standard.  The rules differ only below a private key
		// with a leading zero byte.
		rules := []hdoracle.Rule{hdoracle.Standard, hdoracle.Legacy, hdoracle.Standard}
		if a == 0 {
			rules[2] = hdoracle.Legacy
		}
		vs, err := hdoracle.HardenedPath(o.master(seed), []uint32{scope[0], scope[1], a}, rules)
		if err != nil {
			panic(err)
		}
		prefix := []hdoracle.Step{{Index: scope[0], Hardened: true}, {Index: scope[1], Hardened: true}, {Index: a, Hardened: true}}
		for i, v := range vs {
			if i == 0 {
				o.acct[fmt.Sprintf("%s/%d", key, a)] = v.Key
			} else {
				o.zero[seed] = true
			}
			if err := o.t.AddAccount("seed", seed, prefix, v.Key, v.Alt, tableBranches, maxTableIndex); err != nil {
				panic(err)
			}
		}
	}
}

func (o *oracleDB) seedAcct(seed uint64, scope [2]uint32, a uint32) *hdoracle.Key {
	o.ensureScope(seed, scope)
	return o.acct[fmt.Sprintf("seed/%d/%d/%d/%d", seed, scope[0], scope[1], a)]
}

// xpub returns the (public-only) account key of imported xpub id.
func (o *oracleDB) xpub(id int) *hdoracle.Key {
	key := fmt.Sprintf("xpub/%d", id)
	if k, ok := o.acct[key]; ok {
		return k
	}
	m, err := hdoracle.Master(material("xpubseed", uint64(id)))
	if err != nil {
		panic(err)
	}
	vs, err := hdoracle.HardenedPath(m, []uint32{84, 0, uint32(id % 5)},
		[]hdoracle.Rule{hdoracle.Legacy, hdoracle.Legacy, hdoracle.Legacy})
	if err != nil {
		panic(err)
	}
	k := vs[0].Key.Neuter()
	o.acct[key] = k
	if err := o.t.AddAccount("xpub", uint64(id), nil, k, "", tableBranches, maxTableIndex); err != nil {
		panic(err)
	}
	return k
}

func (o *oracleDB) impKey(id int) *hdoracle.Key {
	key := fmt.Sprintf("imp/%d", id)
	if k, ok := o.acct[key]; ok {
		return k
	}
	priv, pub := btcec.PrivKeyFromBytes(material("impkey", uint64(id)))
	k := &hdoracle.Key{Priv: priv.ToECDSA().D}
	copy(k.Pub[:], pub.SerializeCompressed())
	o.acct[key] = k
	o.t.AddKey("imp", uint64(id), k)
	return k
}

func (o *oracleDB) ref(pub33 []byte) (KeyRef, *hdoracle.Entry) {
	e := o.t.Lookup(pub33)
	if e == nil {
		return KeyRef{Root: "unknown", Path: [][2]uint32{}}, nil
	}
	r := KeyRef{Root: e.Root, ID: e.ID, Path: [][2]uint32{}, Alt: e.Alt}
	if e.Root == "xpub" {
		r.Cn = xpubChild(int(e.ID))
	}
	for _, s := range e.Path {
		h := uint32(0)
		if s.Hardened {
			h = 1
		}
		r.Path = append(r.Path, [2]uint32{s.Index, h})
	}
	return r, e
}

// ------------------------------------------------------------------ the wallet

var nsKey = []byte("waddrmgr")

type wallet struct {
	dir string
	db  walletdb.DB
	mgr *waddrmgr.Manager
}

func tmpBase() string {
	if st, err := os.Stat("/dev/shm"); err == nil && st.IsDir() {
		return "/dev/shm"
	}
	return ""
}

func createWallet(dir string, name string, seed uint64, pass int) (*wallet, error) {
	w := &wallet{dir: dir}
	path := filepath.Join(dir, name)
	os.Remove(path)
	db, err := walletdb.Create("bdb", path, true, time.Minute, false)
	if err != nil {
		return nil, err
	}
	w.db = db
	root, err := hdkeychain.NewMaster(material("seed", seed), params)
	if err != nil {
		return nil, err
	}
	err = walletdb.Update(db, func(tx walletdb.ReadWriteTx) error {
		ns, err := tx.CreateTopLevelBucket(nsKey)
		if err != nil {
			return err
		}
		if err := waddrmgr.Create(ns, root, pubPass, passBytes(pass), params,
			&waddrmgr.FastScryptOptions, time.Time{}); err != nil {
			return err
		}
		w.mgr, err = waddrmgr.Open(ns, pubPass, params)
		return err
	})
	if err != nil {
		db.Close()
		return nil, err
	}
	return w, nil
}

func (w *wallet) restart(name string) error {
	w.mgr.Close()
	if err := w.db.Close(); err != nil {
		return err
	}
	db, err := walletdb.Open("bdb", filepath.Join(w.dir, name), true, time.Minute, false)
	if err != nil {
		return err
	}
	w.db = db
	return walletdb.View(db, func(tx walletdb.ReadTx) error {
		var err error
		w.mgr, err = waddrmgr.Open(tx.ReadBucket(nsKey), pubPass, params)
		return err
	})
}

func (w *wallet) close() {
	if w.mgr != nil {
		w.mgr.Close()
	}
	if w.db != nil {
		w.db.Close()
	}
}

// update / view run f in a transaction and turn a panic into an error.
type panicErr struct{ v interface{} }

func (p panicErr) Error() string { return fmt.Sprint("panic: ", p.v) }

func (w *wallet) update(f func(ns walletdb.ReadWriteBucket) error) (err error) {
	defer func() {
		if r := recover(); r != nil {
			err = panicErr{r}
		}
	}()
	return walletdb.Update(w.db, func(tx walletdb.ReadWriteTx) error { return f(tx.ReadWriteBucket(nsKey)) })
}

func (w *wallet) view(f func(ns walletdb.ReadBucket) error) (err error) {
	defer func() {
		if r := recover(); r != nil {
			err = panicErr{r}
		}
	}()
	return walletdb.View(w.db, func(tx walletdb.ReadTx) error { return f(tx.ReadBucket(nsKey)) })
}

func classify(err error) string {
	var pe panicErr
	switch {
	case err == nil:
		return ""
	case errors.As(err, &pe):
		return "panic"
	case waddrmgr.IsError(err, waddrmgr.ErrLocked):
		return "locked"
	case waddrmgr.IsError(err, waddrmgr.ErrWatchingOnly):
		return "watching"
	case waddrmgr.IsError(err, waddrmgr.ErrAddressNotFound):
		return "addr_not_found"
	case waddrmgr.IsError(err, waddrmgr.ErrAccountNotFound):
		return "acct_not_found"
	case waddrmgr.IsError(err, waddrmgr.ErrScopeNotFound):
		return "scope_not_found"
	case waddrmgr.IsError(err, waddrmgr.ErrCrypto):
		return "crypto"
	case waddrmgr.IsError(err, waddrmgr.ErrAccountNotCached):
		return "not_cached"
	case errors.Is(err, hdkeychain.ErrNotPrivExtKey):
		return "not_priv"
	case waddrmgr.IsError(err, waddrmgr.ErrDuplicateAddress), waddrmgr.IsError(err, waddrmgr.ErrDuplicateAccount):
		return "duplicate"
	case waddrmgr.IsError(err, waddrmgr.ErrTooManyAddresses):
		return "too_many"
	case waddrmgr.IsError(err, waddrmgr.ErrWrongPassphrase):
		return "wrong_pass"
	case waddrmgr.IsError(err, waddrmgr.ErrKeyChain):
		return "keychain"
	}
	return "other"
}

// --------------------------------------------------------------- the runner

type acctSpec struct {
	root    string // seed|xpub
	xpub    int
	schema  *[2]string // override
	fp      uint32
	hasPriv bool
}

type handle struct {
	ma     waddrmgr.ManagedAddress
	origin string // the operation that produced the object
	// what the property expects of it (from inputs and oracle only)
	chain   bool
	scope   [2]uint32
	account uint32
	impKey  int
	script  int
	kind    string // chain|impkey|script
}

type runner struct {
	in      Input
	o       *oracleDB
	w       *wallet
	handles []*handle
	// bookkeeping of the property oracle (inputs + observations, no model)
	schemas map[[2]uint32][2]string
	accts   map[[2]uint32]map[uint32]*acctSpec
	issued  map[string]uint32 // scope/acct/branch -> next expected index
	issuer  map[string]string // scope/acct/branch/index -> operation that issued it in this process lifetime
	addrOf  map[string]string // scope/acct/branch/index -> address string seen
	scripts map[string]int    // P2SH address -> script id
	bad     map[string]string // violation kind -> site
	detail  []string
	tags    map[string]bool
	// situation tracking for tags
	createdLocked map[waddrmgr.ManagedAddress]bool
	epoch         int
	objEpoch      map[waddrmgr.ManagedAddress]int
}

func bkey(scope [2]uint32, a, b uint32) string {
	return fmt.Sprintf("%d/%d/%d/%d", scope[0], scope[1], a, b)
}
func ikey(scope [2]uint32, a, b, i uint32) string {
	return fmt.Sprintf("%d/%d/%d/%d/%d", scope[0], scope[1], a, b, i)
}

func (r *runner) violate(kind, site, msg string) {
	if _, ok := r.bad[kind]; !ok {
		r.bad[kind] = site
	}
	r.detail = append(r.detail, fmt.Sprintf("%s at %s: %s", kind, site, msg))
}

func (r *runner) schemaFor(scope [2]uint32, a uint32) ([2]string, bool) {
	s, ok := r.schemas[scope]
	if !ok {
		return s, false
	}
	if sp := r.accts[scope][a]; sp != nil && sp.schema != nil {
		return *sp.schema, true
	}
	return s, true
}

// acctKey: the oracle's account key of (scope, account) as the inputs define it.
func (r *runner) acctKey(scope [2]uint32, a uint32) (*hdoracle.Key, *acctSpec) {
	sp := r.accts[scope][a]
	if sp == nil {
		return nil, nil
	}
	if sp.root == "xpub" {
		return r.o.xpub(sp.xpub), sp
	}
	return r.o.seedAcct(r.in.Seed, scope, a), sp
}

// targetAddress turns the symbolic target of a lookup into a real address.
func (r *runner) targetAddress(op Op) (btcutil.Address, error) {
	var str string
	switch op.Root {
	case "seed", "xpub":
		var ak *hdoracle.Key
		if op.Root == "seed" {
			if op.Account > maxTableAcct {
				return nil, fmt.Errorf("account out of table range")
			}
			ak = r.o.seedAcct(r.in.Seed, op.Scope, op.Account)
		} else {
			ak = r.o.xpub(op.Xpub)
		}
		bk, err := ak.Child(op.Branch, hdoracle.Legacy)
		if err != nil {
			return nil, err
		}
		ck, err := bk.Child(op.Index, hdoracle.Legacy)
		if err != nil {
			return nil, err
		}
		str, err = hdoracle.Address(onet, op.Fmt, ck.Pub[:])
		if err != nil {
			return nil, err
		}
	case "imp":
		k := r.o.impKey(op.Key)
		var err error
		str, err = hdoracle.Address(onet, op.Fmt, k.Pub[:])
		if err != nil {
			return nil, err
		}
	case "script":
		str = hdoracle.ScriptHashAddress(onet, scriptBytes(op.Script))
	default:
		return nil, fmt.Errorf("target root %q", op.Root)
	}
	return btcutil.DecodeAddress(str, params)
}

// observe reads every getter of a managed address and projects it.
func (r *runner) observe(ma waddrmgr.ManagedAddress) AddrObs {
	ob := AddrObs{Addr: ma.Address().String(), IAcct: ma.InternalAccount(), Internal: ma.Internal(), Imported: ma.Imported()}
	ob.Key = KeyRef{Root: "unknown", Path: [][2]uint32{}}
	switch a := ma.(type) {
	case waddrmgr.ManagedPubKeyAddress:
		ob.Kind = "key"
		pub := a.PubKey().SerializeCompressed()
		ref, ent := r.o.ref(pub)
		ob.Key = ref
		ob.Fmt = hdoracle.FormatOf(onet, ob.Addr, pub)
		sc, dp, known := a.DerivationInfo()
		ob.Known = known
		ob.DScope = [2]uint32{sc.Purpose, sc.Coin}
		ob.DPath = [5]uint32{dp.InternalAccount, dp.Account, dp.Branch, dp.Index, dp.MasterKeyFingerprint}
		pk, err := a.PrivKey()
		switch {
		case err != nil:
			ob.Priv = "err:" + classify(err)
		case !pk.PubKey().IsEqual(a.PubKey()):
			ob.Priv = "mismatch"
		case ent == nil || ent.Priv == nil || string(ent.Priv) != string(pk.Serialize()):
			ob.Priv = "mismatch"
		default:
			ob.Priv = "ok"
		}
	case waddrmgr.ManagedScriptAddress:
		ob.Kind = "script"
		id, ok := r.scripts[ob.Addr]
		if !ok {
			id = -1
		}
		ob.Script = id
		s, err := a.Script()
		switch {
		case err != nil:
			ob.ScriptV = "err:" + classify(err)
		case ok && string(s) == string(scriptBytes(id)):
			ob.ScriptV = "ok"
		default:
			ob.ScriptV = "changed"
		}
	}
	return ob
}

func (r *runner) addHandle(ma waddrmgr.ManagedAddress, origin string) *handle {
	h := &handle{ma: ma, origin: origin}
	r.handles = append(r.handles, h)
	if _, ok := r.objEpoch[ma]; !ok {
		r.objEpoch[ma] = r.epoch
		r.createdLocked[ma] = r.w.mgr.IsLocked()
	}
	return h
}

func pathOf(ref KeyRef) (scope [2]uint32, a, b, i uint32, ok bool) {
	switch ref.Root {
	case "seed":
		if len(ref.Path) != 5 {
			return
		}
		return [2]uint32{ref.Path[0][0], ref.Path[1][0]}, ref.Path[2][0], ref.Path[3][0], ref.Path[4][0], true
	case "xpub":
		if len(ref.Path) != 2 {
			return
		}
		return scope, 0, ref.Path[0][0], ref.Path[1][0], true
	}
	return
}

// checkChain states C03 on one returned chain address.  want* describe what the
// operation was asked for; idx < 0 means "any index".
func (r *runner) checkChain(site string, ob AddrObs, scope [2]uint32, a, branch uint32, idx int64, reportedAcctChild *uint32, unlocked bool) {
	ak, sp := r.acctKey(scope, a)
	if ak == nil {
		r.violate("address_not_seed_child", site, fmt.Sprintf("address %s returned for unknown account %d", ob.Addr, a))
		return
	}
	_, _, pb, pi, ok := pathOf(ob.Key)
	wantRoot, wantID := "seed", r.in.Seed
	if sp.root == "xpub" {
		wantRoot, wantID = "xpub", uint64(sp.xpub)
	}
	good := ok && ob.Key.Root == wantRoot && ob.Key.ID == wantID && pb == branch
	if good && wantRoot == "seed" {
		ps, pa, _, _, _ := pathOf(ob.Key)
		good = ps == scope && pa == a
	}
	if !good {
		r.violate("address_not_seed_child", site, fmt.Sprintf("%s encodes key %+v, wanted %s %d scope %v account %d branch %d",
			ob.Addr, ob.Key, wantRoot, wantID, scope, a, branch))
		return
	}
	if ob.Key.Alt != "" {
		r.tags["issue172_variant:"+ob.Key.Alt] = true
	}
	if idx >= 0 && uint32(idx) != pi {
		r.violate("index_gap_or_repeat", site, fmt.Sprintf("%s is index %d, expected %d", ob.Addr, pi, idx))
	}
	if sch, ok := r.schemaFor(scope, a); ok {
		want := sch[0]
		if branch == 1 {
			want = sch[1]
		}
		if ob.Fmt != want {
			r.violate("wrong_address_format", site, fmt.Sprintf("%s has format %q, schema says %s", ob.Addr, ob.Fmt, want))
		}
	}
	// reported derivation path, account, internal flag
	wantChild := a + hdoracle.HardenedStart
	if sp.root == "xpub" {
		wantChild = xpubChild(sp.xpub)
	}
	if reportedAcctChild != nil {
		wantChild = *reportedAcctChild
	}
	if !ob.Known || ob.DScope != scope || ob.DPath[0] != a || ob.DPath[1] != wantChild || ob.DPath[2] != pb ||
		ob.DPath[3] != pi || ob.IAcct != a || ob.Internal != (pb == 1) || ob.Imported {
		r.violate("wrong_reported_path", site, fmt.Sprintf("%s: reported scope %v path %v iacct %d internal %v; true: scope %v account %d (child %d) branch %d index %d",
			ob.Addr, ob.DScope, ob.DPath, ob.IAcct, ob.Internal, scope, a, wantChild, pb, pi))
	}
	if ob.DPath[4] != sp.fp {
		r.tags["fingerprint_not_reported"] = true
	}
	r.checkPriv(site, ob, sp.hasPriv, unlocked)
	r.addrOf[ikey(scope, a, pb, pi)] = ob.Addr
}

func (r *runner) checkPriv(site string, ob AddrObs, hasPriv, unlocked bool) {
	if !hasPriv {
		return
	}
	switch {
	case ob.Priv == "mismatch":
		r.violate("privkey_mismatch", site, ob.Addr+" PrivKey() is not the key of PubKey()")
	case unlocked && ob.Priv != "ok":
		r.violate("privkey_unavailable_while_unlocked", site, ob.Addr+" PrivKey() = "+ob.Priv+" while unlocked")
	}
}

func (r *runner) scoped(scope [2]uint32) (*waddrmgr.ScopedKeyManager, error) {
	return r.w.mgr.FetchScopedKeyManager(waddrmgr.KeyScope{Purpose: scope[0], Coin: scope[1]})
}

func errResult(err error) Result { return Result{Kind: "err", Err: classify(err)} }

func opSite(op Op) string {
	switch op.Op {
	case "next":
		if op.Internal {
			return "NextInternalAddresses"
		}
		return "NextExternalAddresses"
	case "extend":
		if op.Internal {
			return "ExtendInternalAddresses"
		}
		return "ExtendExternalAddresses"
	case "lookup":
		return "Address"
	case "derive":
		return "DeriveFromKeyPath"
	case "derivecache":
		return "DeriveFromKeyPathCache"
	case "importkey":
		return "ImportPrivateKey"
	case "importscript":
		return "ImportScript"
	case "open":
		return "Open"
	}
	return op.Op
}

func (r *runner) step(op Op) Result {
	mgr := r.w.mgr
	site := opSite(op)
	res := Result{Kind: "ok"}
	switch op.Op {
	case "open":
		if err := r.w.restart("w.db"); err != nil {
			panic(err)
		}
		r.handles = nil
		r.issuer = map[string]string{}
		r.epoch++
		r.tags["restart"] = true

	case "unlock":
		wasLocked := mgr.IsLocked()
		err := r.w.view(func(ns walletdb.ReadBucket) error { return mgr.Unlock(ns, passBytes(op.Pass)) })
		if err != nil {
			res = errResult(err)
			if res.Err == "crypto" {
				r.tags["unlock_fails_after_imported_account_was_used"] = true
			}
			if res.Err == "panic" {
				r.violate("panic_in_address_derivation", "Unlock", err.Error())
			}
		} else if wasLocked {
			r.tags["unlock"] = true
		}

	case "lock":
		if err := mgr.Lock(); err != nil {
			res = errResult(err)
		}

	case "chpass":
		err := r.w.update(func(ns walletdb.ReadWriteBucket) error {
			return mgr.ChangePassphrase(ns, passBytes(op.Pass), passBytes(op.NewPass), true, &waddrmgr.FastScryptOptions)
		})
		if err != nil {
			res = errResult(err)
		} else {
			r.tags["chpass"] = true
		}

	case "newscope":
		err := r.w.update(func(ns walletdb.ReadWriteBucket) error {
			_, err := mgr.NewScopedKeyManager(ns, waddrmgr.KeyScope{Purpose: op.Scope[0], Coin: op.Scope[1]},
				waddrmgr.ScopeAddrSchema{ExternalAddrType: addrType(op.Schema[0]), InternalAddrType: addrType(op.Schema[1])})
			return err
		})
		if err != nil {
			res = errResult(err)
		} else {
			r.schemas[op.Scope] = [2]string{op.Schema[0], op.Schema[1]}
			r.accts[op.Scope] = map[uint32]*acctSpec{0: {root: "seed", hasPriv: true}}
			r.tags["custom_scope"] = true
		}

	case "newacct":
		sm, err := r.scoped(op.Scope)
		if err != nil {
			return errResult(err)
		}
		var a uint32
		err = r.w.update(func(ns walletdb.ReadWriteBucket) error {
			var err error
			a, err = sm.NewAccount(ns, fmt.Sprintf("acct-%d", op.Name))
			return err
		})
		if err != nil {
			res = errResult(err)
		} else {
			res = Result{Kind: "acct", Acct: a}
			r.accts[op.Scope][a] = &acctSpec{root: "seed", hasPriv: true}
			r.tags["newacct"] = true
		}

	case "importxpub":
		sm, err := r.scoped(op.Scope)
		if err != nil {
			return errResult(err)
		}
		xk := r.o.xpub(op.Xpub)
		xpub := hdkeychain.NewExtendedKey(params.HDPublicKeyID[:], xk.Pub[:], xk.Chain[:], xk.ParentFP[:], xk.Depth, xk.ChildNum, false)
		var override *waddrmgr.ScopeAddrSchema
		var osch *[2]string
		if len(op.Schema) == 2 {
			override = &waddrmgr.ScopeAddrSchema{ExternalAddrType: addrType(op.Schema[0]), InternalAddrType: addrType(op.Schema[1])}
			osch = &[2]string{op.Schema[0], op.Schema[1]}
		}
		var a uint32
		err = r.w.update(func(ns walletdb.ReadWriteBucket) error {
			var err error
			a, err = sm.NewAccountWatchingOnly(ns, fmt.Sprintf("acct-%d", op.Name), xpub, op.Fp, override)
			return err
		})
		if err != nil {
			res = errResult(err)
		} else {
			res = Result{Kind: "acct", Acct: a}
			r.accts[op.Scope][a] = &acctSpec{root: "xpub", xpub: op.Xpub, schema: osch, fp: op.Fp}
			r.tags["imported_xpub"] = true
			if osch != nil {
				r.tags["schema_override"] = true
			}
		}

	case "next":
		sm, err := r.scoped(op.Scope)
		if err != nil {
			return errResult(err)
		}
		var mas []waddrmgr.ManagedAddress
		err = r.w.update(func(ns walletdb.ReadWriteBucket) error {
			var err error
			if op.Internal {
				mas, err = sm.NextInternalAddresses(ns, op.Account, op.N)
			} else {
				mas, err = sm.NextExternalAddresses(ns, op.Account, op.N)
			}
			return err
		})
		if err != nil {
			res = errResult(err)
			if res.Err == "panic" {
				r.violate("panic_in_address_derivation", site, err.Error())
			}
			break
		}
		res = Result{Kind: "addrs"}
		branch := uint32(0)
		if op.Internal {
			branch = 1
		}
		bk := bkey(op.Scope, op.Account, branch)
		unlocked := !mgr.IsLocked()
		if uint32(len(mas)) != op.N {
			r.violate("index_gap_or_repeat", site, fmt.Sprintf("%d addresses returned, %d requested", len(mas), op.N))
		}
		for k, ma := range mas {
			h := r.addHandle(ma, site)
			ob := r.observe(ma)
			res.Addrs = append(res.Addrs, ob)
			h.kind, h.scope, h.account = "chain", op.Scope, op.Account
			r.checkChain(site, ob, op.Scope, op.Account, branch, int64(r.issued[bk])+int64(k), nil, unlocked)
			r.issuer[ikey(op.Scope, op.Account, branch, r.issued[bk]+uint32(k))] = site
		}
		r.issued[bk] += uint32(len(mas))
		if unlocked {
			r.tags["next_unlocked"] = true
		} else {
			r.tags["next_locked"] = true
		}
		if sp := r.accts[op.Scope][op.Account]; sp != nil && sp.root == "xpub" {
			r.tags["imported_account_address"] = true
		}

	case "extend":
		sm, err := r.scoped(op.Scope)
		if err != nil {
			return errResult(err)
		}
		wasLocked := mgr.IsLocked()
		err = r.w.update(func(ns walletdb.ReadWriteBucket) error {
			if op.Internal {
				return sm.ExtendInternalAddresses(ns, op.Account, op.N)
			}
			return sm.ExtendExternalAddresses(ns, op.Account, op.N)
		})
		if err != nil {
			res = errResult(err)
			if res.Err == "panic" {
				r.violate("panic_in_address_derivation", site, err.Error())
			}
			break
		}
		branch := uint32(0)
		if op.Internal {
			branch = 1
		}
		bk := bkey(op.Scope, op.Account, branch)
		for i := r.issued[bk]; i <= op.N; i++ {
			r.issuer[ikey(op.Scope, op.Account, branch, i)] = site
			if wasLocked {
				r.tags["extend_locked"] = true
			} else {
				r.tags["extend_unlocked"] = true
			}
		}
		if op.N+1 > r.issued[bk] {
			r.issued[bk] = op.N + 1
		}

	case "lookup", "markused":
		addr, err := r.targetAddress(op)
		if err != nil {
			return Result{Kind: "err", Err: "other"}
		}
		if op.Op == "markused" {
			err = r.w.update(func(ns walletdb.ReadWriteBucket) error { return mgr.MarkUsed(ns, addr) })
			if err != nil {
				res = errResult(err)
			} else {
				r.tags["markused"] = true
				if op.Root == "seed" || op.Root == "xpub" {
					delete(r.issuer, ikey(op.Scope, op.Account, op.Branch, op.Index))
				}
			}
			break
		}
		var ma waddrmgr.ManagedAddress
		err = r.w.view(func(ns walletdb.ReadBucket) error {
			var err error
			ma, err = mgr.Address(ns, addr)
			return err
		})
		if err != nil {
			res = errResult(err)
			// an address the wallet issued must be known to it
			if op.Root == "seed" || op.Root == "xpub" {
				if op.Index < r.issued[bkey(op.Scope, op.Account, op.Branch)] && op.Branch <= 1 {
					if _, fmtOK := r.schemaFor(op.Scope, op.Account); fmtOK && r.lookupFmtMatches(op) {
						r.violate("issued_address_unknown", site, fmt.Sprintf("%s (%v/%d/%d/%d) was issued but Address() fails: %v",
							addr, op.Scope, op.Account, op.Branch, op.Index, err))
					}
				}
			}
			break
		}
		res = Result{Kind: "addrs"}
		_, seen := r.objEpoch[ma]
		origin := site
		if !seen {
			if is, ok := r.issuer[ikey(op.Scope, op.Account, op.Branch, op.Index)]; ok && (op.Root == "seed" || op.Root == "xpub") {
				origin = is
			}
		} else {
			for _, h := range r.handles {
				if h.ma == ma {
					origin = h.origin
					break
				}
			}
		}
		h := r.addHandle(ma, origin)
		ob := r.observe(ma)
		res.Addrs = []AddrObs{ob}
		unlocked := !mgr.IsLocked()
		switch op.Root {
		case "seed", "xpub":
			h.kind, h.scope, h.account = "chain", op.Scope, op.Account
			r.checkChain(origin, ob, op.Scope, op.Account, op.Branch, int64(op.Index), nil, unlocked)
			if unlocked && r.objEpoch[ma] == r.epoch && r.epoch > 0 && !seen {
				r.tags["probe_after_restart"] = true
			}
			if unlocked && origin != site && (origin == "ExtendExternalAddresses" || origin == "ExtendInternalAddresses") {
				r.tags["probe_extended_address"] = true
			}
		case "imp":
			h.kind, h.impKey = "impkey", op.Key
			r.checkImported(origin, ob, op.Key, unlocked)
		case "script":
			h.kind, h.script = "script", op.Script
			r.checkScript(origin, ob, op.Script, unlocked)
		}

	case "derive":
		sm, err := r.scoped(op.Scope)
		if err != nil {
			return errResult(err)
		}
		kp := waddrmgr.DerivationPath{InternalAccount: op.Account, Account: op.AcctChild, Branch: op.Branch, Index: op.Index,
			MasterKeyFingerprint: op.Fp}
		var ma waddrmgr.ManagedAddress
		err = r.w.view(func(ns walletdb.ReadBucket) error {
			var err error
			ma, err = sm.DeriveFromKeyPath(ns, kp)
			return err
		})
		if err != nil {
			res = errResult(err)
			if res.Err == "panic" {
				r.violate("panic_in_address_derivation", site, err.Error())
			}
			break
		}
		res = Result{Kind: "addrs"}
		h := r.addHandle(ma, site)
		ob := r.observe(ma)
		res.Addrs = []AddrObs{ob}
		h.kind, h.scope, h.account = "chain", op.Scope, op.Account
		ac := op.AcctChild
		r.checkChain(site, ob, op.Scope, op.Account, op.Branch, int64(op.Index), &ac, !mgr.IsLocked())
		if mgr.IsLocked() {
			r.tags["derive_locked"] = true
		} else {
			r.tags["derive_unlocked"] = true
		}

	case "derivecache":
		sm, err := r.scoped(op.Scope)
		if err != nil {
			return errResult(err)
		}
		kp := waddrmgr.DerivationPath{InternalAccount: op.Account, Account: op.AcctChild, Branch: op.Branch, Index: op.Index,
			MasterKeyFingerprint: op.Fp}
		var pk *btcec.PrivateKey
		func() {
			defer func() {
				if rc := recover(); rc != nil {
					err = panicErr{rc}
				}
			}()
			pk, err = sm.DeriveFromKeyPathCache(kp)
		}()
		if err != nil {
			res = errResult(err)
			if res.Err == "panic" {
				r.violate("panic_in_address_derivation", site, err.Error())
			}
			break
		}
		ref, ent := r.o.ref(pk.PubKey().SerializeCompressed())
		res = Result{Kind: "key", Key: &ref}
		r.tags["derivecache_key"] = true
		// the key must be the private key of (account, branch, index)
		ps, pa, pb, pi, ok := pathOf(ref)
		sp := r.accts[op.Scope][op.Account]
		good := ok && ent != nil && string(ent.Priv) == string(pk.Serialize()) && pb == op.Branch && pi == op.Index && sp != nil
		if good && ref.Root == "seed" {
			good = sp.root == "seed" && ps == op.Scope && pa == op.Account && ref.ID == r.in.Seed
		}
		if !good {
			r.violate("privkey_mismatch", site, fmt.Sprintf("key %+v returned for %v/%d/%d/%d", ref, op.Scope, op.Account, op.Branch, op.Index))
		}

	case "importkey":
		sm, err := r.scoped(op.Scope)
		if err != nil {
			return errResult(err)
		}
		k := r.o.impKey(op.Key)
		priv, _ := btcec.PrivKeyFromBytes(k.PrivBytes())
		wif, err := btcutil.NewWIF(priv, params, true)
		if err != nil {
			panic(err)
		}
		var ma waddrmgr.ManagedPubKeyAddress
		err = r.w.update(func(ns walletdb.ReadWriteBucket) error {
			var err error
			ma, err = sm.ImportPrivateKey(ns, wif, nil)
			return err
		})
		if err != nil {
			res = errResult(err)
			break
		}
		res = Result{Kind: "addrs"}
		h := r.addHandle(ma, site)
		ob := r.observe(ma)
		res.Addrs = []AddrObs{ob}
		h.kind, h.impKey = "impkey", op.Key
		r.checkImported(site, ob, op.Key, !mgr.IsLocked())
		r.tags["importkey"] = true

	case "importscript":
		sm, err := r.scoped(op.Scope)
		if err != nil {
			return errResult(err)
		}
		sb := scriptBytes(op.Script)
		r.scripts[hdoracle.ScriptHashAddress(onet, sb)] = op.Script
		var ma waddrmgr.ManagedScriptAddress
		err = r.w.update(func(ns walletdb.ReadWriteBucket) error {
			var err error
			ma, err = sm.ImportScript(ns, sb, &waddrmgr.BlockStamp{})
			return err
		})
		if err != nil {
			res = errResult(err)
			break
		}
		res = Result{Kind: "addrs"}
		h := r.addHandle(ma, site)
		ob := r.observe(ma)
		res.Addrs = []AddrObs{ob}
		h.kind, h.script = "script", op.Script
		r.checkScript(site, ob, op.Script, !mgr.IsLocked())
		r.tags["importscript"] = true

	case "props":
		sm, err := r.scoped(op.Scope)
		if err != nil {
			return errResult(err)
		}
		var p *waddrmgr.AccountProperties
		err = r.w.view(func(ns walletdb.ReadBucket) error {
			var err error
			p, err = sm.AccountProperties(ns, op.Account)
			return err
		})
		if err != nil {
			res = errResult(err)
			break
		}
		res = Result{Kind: "props", Props: [2]uint32{p.ExternalKeyCount, p.InternalKeyCount}}
		if p.ExternalKeyCount != r.issued[bkey(op.Scope, op.Account, 0)] || p.InternalKeyCount != r.issued[bkey(op.Scope, op.Account, 1)] {
			r.violate("index_gap_or_repeat", "AccountProperties", fmt.Sprintf("scope %v account %d: key counts %d/%d, issued so far %d/%d",
				op.Scope, op.Account, p.ExternalKeyCount, p.InternalKeyCount,
				r.issued[bkey(op.Scope, op.Account, 0)], r.issued[bkey(op.Scope, op.Account, 1)]))
		}

	case "priv":
		if op.Handle < 0 || op.Handle >= len(r.handles) {
			return Result{Kind: "err", Err: "other"}
		}
		h := r.handles[op.Handle]
		pka, ok := h.ma.(waddrmgr.ManagedPubKeyAddress)
		if !ok {
			return Result{Kind: "err", Err: "other"}
		}
		pk, err := pka.PrivKey()
		if err != nil {
			res = errResult(err)
		} else {
			ref, _ := r.o.ref(pk.PubKey().SerializeCompressed())
			res = Result{Kind: "key", Key: &ref}
		}
		ob := r.observe(h.ma)
		unlocked := !mgr.IsLocked()
		switch h.kind {
		case "chain":
			if sp := r.accts[h.scope][h.account]; sp != nil {
				r.checkPriv(h.origin, ob, sp.hasPriv, unlocked)
				if unlocked && sp.hasPriv && r.createdLocked[h.ma] {
					r.tags["probe_created_locked_then_unlocked"] = true
				}
			}
		case "impkey":
			r.checkImported(h.origin, ob, h.impKey, unlocked)
		}

	case "script":
		if op.Handle < 0 || op.Handle >= len(r.handles) {
			return Result{Kind: "err", Err: "other"}
		}
		h := r.handles[op.Handle]
		sa, ok := h.ma.(waddrmgr.ManagedScriptAddress)
		if !ok {
			return Result{Kind: "err", Err: "other"}
		}
		s, err := sa.Script()
		if err != nil {
			res = errResult(err)
		} else {
			res = Result{Kind: "script", Script: -1}
			if string(s) == string(scriptBytes(h.script)) {
				res.Script = h.script
			}
		}
		if h.kind == "script" {
			r.checkScript(h.origin, r.observe(h.ma), h.script, !mgr.IsLocked())
		}

	default:
		panic("unknown op " + op.Op)
	}
	return res
}

func (r *runner) lookupFmtMatches(op Op) bool {
	sch, ok := r.schemaFor(op.Scope, op.Account)
	if !ok {
		return false
	}
	want := sch[0]
	if op.Branch == 1 {
		want = sch[1]
	}
	return want == op.Fmt
}

func (r *runner) checkImported(site string, ob AddrObs, key int, unlocked bool) {
	if ob.Kind != "key" || ob.Key.Root != "imp" || ob.Key.ID != uint64(key) || !ob.Imported || ob.Known {
		r.violate("imported_key_changed", site, fmt.Sprintf("imported key %d comes back as %+v imported=%v", key, ob.Key, ob.Imported))
		return
	}
	if ob.Priv == "mismatch" || (unlocked && ob.Priv != "ok") {
		r.violate("imported_key_changed", site, fmt.Sprintf("imported key %d: PrivKey() = %s", key, ob.Priv))
	}
}

func (r *runner) checkScript(site string, ob AddrObs, script int, unlocked bool) {
	if ob.Kind != "script" || ob.Script != script {
		r.violate("imported_script_changed", site, fmt.Sprintf("imported script %d comes back as %+v", script, ob))
		return
	}
	if ob.ScriptV == "changed" || (unlocked && ob.ScriptV != "ok") {
		r.violate("imported_script_changed", site, fmt.Sprintf("imported script %d: Script() = %s", script, ob.ScriptV))
	}
}

// recreate builds a second wallet from the same seed and compares the
// addresses it issues with the ones recorded during the history.
func (r *runner) recreate(pass int) {
	w2, err := createWallet(r.w.dir, "w2.db", r.in.Seed, pass)
	if err != nil {
		panic(err)
	}
	defer w2.close()
	if err := w2.view(func(ns walletdb.ReadBucket) error { return w2.mgr.Unlock(ns, passBytes(pass)) }); err != nil {
		panic(err)
	}
	var keys []string
	for k := range r.issued {
		keys = append(keys, k)
	}
	sort.Strings(keys)
	compared := 0
	for _, k := range keys {
		var scope [2]uint32
		var a, b uint32
		fmt.Sscanf(k, "%d/%d/%d/%d", &scope[0], &scope[1], &a, &b)
		sp := r.accts[scope][a]
		n := r.issued[k]
		if sp == nil || sp.root != "seed" || n == 0 {
			continue
		}
		ks := waddrmgr.KeyScope{Purpose: scope[0], Coin: scope[1]}
		sm, err := w2.mgr.FetchScopedKeyManager(ks)
		if err != nil {
			sch := r.schemas[scope]
			err = w2.update(func(ns walletdb.ReadWriteBucket) error {
				var err error
				sm, err = w2.mgr.NewScopedKeyManager(ns, ks, waddrmgr.ScopeAddrSchema{
					ExternalAddrType: addrType(sch[0]), InternalAddrType: addrType(sch[1])})
				return err
			})
			if err != nil {
				panic(err)
			}
		}
		var mas []waddrmgr.ManagedAddress
		err = w2.update(func(ns walletdb.ReadWriteBucket) error {
			if a != 0 {
				if _, err := sm.AccountProperties(ns, a); err != nil {
					if err := sm.NewRawAccount(ns, a); err != nil {
						return err
					}
				}
			}
			var err error
			if b == 1 {
				mas, err = sm.NextInternalAddresses(ns, a, n)
			} else {
				mas, err = sm.NextExternalAddresses(ns, a, n)
			}
			return err
		})
		if err != nil {
			r.violate("recreated_wallet_differs", "Create", fmt.Sprintf("re-created wallet cannot issue %s: %v", k, err))
			continue
		}
		for i, ma := range mas {
			if old, ok := r.addrOf[ikey(scope, a, b, uint32(i))]; ok {
				compared++
				if old != ma.Address().String() {
					r.violate("recreated_wallet_differs", "Create", fmt.Sprintf("%s index %d: %s in the history, %s in the re-created wallet",
						k, i, old, ma.Address()))
				}
			}
		}
	}
	if compared > 0 {
		r.tags["recreated_compared"] = true
	}
}

func runCase(o *oracleDB, dir string, in Input, recreate bool) Case {
	w, err := createWallet(dir, "w.db", in.Seed, in.Pass)
	if err != nil {
		panic(err)
	}
	r := &runner{in: in, o: o, w: w, schemas: map[[2]uint32][2]string{}, accts: map[[2]uint32]map[uint32]*acctSpec{},
		issued: map[string]uint32{}, issuer: map[string]string{}, addrOf: map[string]string{}, scripts: map[string]int{},
		bad: map[string]string{}, tags: map[string]bool{}, createdLocked: map[waddrmgr.ManagedAddress]bool{},
		objEpoch: map[waddrmgr.ManagedAddress]int{}}
	defer func() { r.w.close() }()
	for sc, sch := range defaultSchemas {
		r.schemas[sc] = sch
		r.accts[sc] = map[uint32]*acctSpec{0: {root: "seed", hasPriv: true}}
		o.ensureScope(in.Seed, sc)
	}
	for _, sc := range customScopes {
		o.ensureScope(in.Seed, sc)
	}
	c := Case{In: in, Obs: []Result{}, Oracle: []string{}, Tags: []string{}}
	pass := in.Pass
	for _, op := range in.Ops {
		res := r.step(op)
		res.Locked = r.w.mgr.IsLocked()
		if res.Addrs == nil {
			res.Addrs = []AddrObs{}
		}
		if op.Op == "chpass" && res.Kind == "ok" {
			pass = op.NewPass
		}
		c.Obs = append(c.Obs, res)
	}
	_ = pass
	if recreate {
		r.recreate(in.Pass)
	}
	if o.zero[in.Seed] {
		r.tags["seed_with_leading_zero_intermediate_key"] = true
	}
	var kinds []string
	for k := range r.bad {
		kinds = append(kinds, k)
	}
	sort.Strings(kinds)
	for _, k := range kinds {
		c.Oracle = append(c.Oracle, k)
	}
	if len(kinds) > 0 {
		c.Sites = r.bad
		c.Site = r.bad[kinds[0]]
		// prefer the site of the private-key clause when several kinds fired
		for _, k := range kinds {
			if k == "privkey_unavailable_while_unlocked" {
				c.Site = r.bad[k]
			}
		}
	}
	c.Detail = r.detail
	if len(c.Detail) > 6 {
		c.Detail = c.Detail[:6]
	}
	for t := range r.tags {
		c.Tags = append(c.Tags, t)
	}
	sort.Strings(c.Tags)
	return c
}

// -------------------------------------------------------------- the generator

type gAcct struct {
	num    uint32
	root   string
	xpub   int
	schema []string
	fp     uint32
}

type gHandle struct {
	kind string // chain|impkey|script
}

type gState struct {
	r        *gen.R
	locked   bool
	pass     int
	scopes   [][2]uint32
	schema   map[[2]uint32][2]string
	accts    map[[2]uint32][]*gAcct
	last     map[[2]uint32]uint32
	next     map[string]uint32
	handles  []gHandle
	impKeys  []Op // lookup targets of imported keys
	scripts  []Op
	nameCtr  int
	stuck    bool // an imported account is cached: the next unlock from locked fails
	custom   bool
	keyCtr   int
	xpubPool []int
}

func newGState(r *gen.R, pass int, xpubPool []int) *gState {
	g := &gState{r: r, locked: true, pass: pass, schema: map[[2]uint32][2]string{}, accts: map[[2]uint32][]*gAcct{},
		last: map[[2]uint32]uint32{}, next: map[string]uint32{}, nameCtr: 10, xpubPool: xpubPool}
	for _, sc := range defaultScopeList {
		g.scopes = append(g.scopes, sc)
		g.schema[sc] = defaultSchemas[sc]
		g.accts[sc] = []*gAcct{{num: 0, root: "seed"}}
	}
	return g
}

func (g *gState) pickScope() [2]uint32 { return g.scopes[g.r.Intn(len(g.scopes))] }

func (g *gState) pickAcct(sc [2]uint32) *gAcct {
	l := g.accts[sc]
	return l[g.r.Intn(len(l))]
}

func (g *gState) fmtOf(sc [2]uint32, a *gAcct, branch uint32) string {
	s := g.schema[sc]
	if a.schema != nil {
		s = [2]string{a.schema[0], a.schema[1]}
	}
	if branch == 1 {
		return s[1]
	}
	return s[0]
}

func (g *gState) touch(a *gAcct) {
	if a.root == "xpub" {
		g.stuck = true
	}
}

func (g *gState) target(sc [2]uint32, a *gAcct, branch, index uint32) Op {
	op := Op{Scope: sc, Account: a.num, Branch: branch, Index: index, Root: a.root, Xpub: a.xpub, Fmt: g.fmtOf(sc, a, branch)}
	if a.root == "xpub" {
		op.Cn = xpubChild(a.xpub)
	}
	return op
}

func (g *gState) acctChild(a *gAcct) uint32 {
	if a.root == "xpub" {
		return xpubChild(a.xpub)
	}
	return a.num + hdoracle.HardenedStart
}

var allFormats = []string{hdoracle.P2PKH, hdoracle.NP2WKH, hdoracle.P2WKH, hdoracle.P2TR}

// genOps appends one operation (sometimes a short scenario) to ops.
func (g *gState) genOps(tier string) []Op {
	r := g.r
	sc := g.pickScope()
	a := g.pickAcct(sc)
	branch := uint32(r.Pick(3, 2))
	internal := branch == 1
	bk := bkey(sc, a.num, branch)
	unlockOp := func() Op { return Op{Op: "unlock", Pass: g.pass} }
	doUnlock := func() []Op {
		if !g.locked {
			return nil
		}
		if !g.stuck {
			g.locked = false
		}
		return []Op{unlockOp()}
	}
	switch r.Pick(8, 5, 2, 1, 4, 3, 18, 10, 16, 3, 6, 4, 3, 2, 5, 10, 2, 4, 6) {
	case 0: // unlock
		if r.Chance(1, 8) {
			wrong := Op{Op: "unlock", Pass: g.pass + 100 + r.Intn(3)}
			g.locked = true
			return []Op{wrong}
		}
		if g.locked {
			return doUnlock()
		}
		return []Op{unlockOp()}
	case 1: // lock
		if !g.locked || r.Chance(1, 6) {
			g.locked = true
			return []Op{{Op: "lock"}}
		}
		return doUnlock()
	case 2: // change passphrase
		if r.Chance(1, 5) {
			return []Op{{Op: "chpass", Pass: g.pass + 50, NewPass: g.pass + 1}}
		}
		np := g.pass + 1
		op := Op{Op: "chpass", Pass: g.pass, NewPass: np}
		g.pass = np
		return []Op{op}
	case 3: // custom scope
		if g.custom {
			return nil
		}
		var out []Op
		out = append(out, doUnlock()...)
		cs := customScopes[r.Intn(len(customScopes))]
		sch := []string{allFormats[r.Intn(4)], allFormats[r.Intn(4)]}
		out = append(out, Op{Op: "newscope", Scope: cs, Schema: sch})
		if !g.locked {
			g.custom = true
			g.scopes = append(g.scopes, cs)
			g.schema[cs] = [2]string{sch[0], sch[1]}
			g.accts[cs] = []*gAcct{{num: 0, root: "seed"}}
		}
		return out
	case 4: // new account
		if g.last[sc] >= 4 {
			return nil
		}
		var out []Op
		if r.Chance(4, 5) {
			out = append(out, doUnlock()...)
		}
		g.nameCtr++
		out = append(out, Op{Op: "newacct", Scope: sc, Name: g.nameCtr})
		if !g.locked {
			g.last[sc]++
			g.accts[sc] = append(g.accts[sc], &gAcct{num: g.last[sc], root: "seed"})
		}
		return out
	case 5: // imported xpub account
		if g.last[sc] >= 4 {
			return nil
		}
		g.nameCtr++
		x := g.xpubPool[r.Intn(len(g.xpubPool))]
		for _, l := range g.accts {
			for _, o := range l {
				if o.root == "xpub" && o.xpub == x {
					return nil // one import per xpub and history
				}
			}
		}
		op := Op{Op: "importxpub", Scope: sc, Name: g.nameCtr, Xpub: x, Cn: xpubChild(x), Fp: uint32(r.Intn(1 << 30))}
		if r.Chance(1, 2) {
			op.Schema = []string{allFormats[r.Intn(4)], allFormats[r.Intn(4)]}
		}
		g.last[sc]++
		g.accts[sc] = append(g.accts[sc], &gAcct{num: g.last[sc], root: "xpub", xpub: x, schema: op.Schema, fp: op.Fp})
		return []Op{op}
	case 6: // next addresses
		if g.next[bk] > 34 {
			return nil
		}
		n := uint32(r.Range(1, 4))
		acct := a.num
		if r.Chance(1, 25) {
			acct = g.last[sc] + 1 + uint32(r.Intn(2)) // unknown account
			return []Op{{Op: "next", Scope: sc, Account: acct, Internal: internal, N: n}}
		}
		g.touch(a)
		g.next[bk] += n
		for i := uint32(0); i < n; i++ {
			g.handles = append(g.handles, gHandle{"chain"})
		}
		return []Op{{Op: "next", Scope: sc, Account: acct, Internal: internal, N: n}}
	case 7: // extend, then look at one of the extended addresses
		if g.next[bk] > 34 {
			return nil
		}
		var out []Op
		if g.locked && r.Chance(1, 2) {
			out = append(out, doUnlock()...)
		}
		last := g.next[bk] + uint32(r.Range(0, 5))
		if r.Chance(1, 6) && g.next[bk] > 0 {
			last = uint32(r.Intn(int(g.next[bk]))) // already derived: a no-op
		}
		out = append(out, Op{Op: "extend", Scope: sc, Account: a.num, Internal: internal, N: last})
		g.touch(a)
		unlockedImported := !g.locked && a.root == "xpub" // the pinned code panics here
		from := g.next[bk]
		if last+1 > g.next[bk] && !unlockedImported {
			g.next[bk] = last + 1
		}
		out = append(out, Op{Op: "props", Scope: sc, Account: a.num})
		if last >= from && r.Chance(4, 5) {
			idx := from + uint32(r.Intn(int(last-from+1)))
			t := g.target(sc, a, branch, idx)
			t.Op = "lookup"
			out = append(out, t)
			g.handles = append(g.handles, gHandle{"chain"})
		}
		return out
	case 8: // look up an address
		idx := uint32(0)
		switch {
		case g.next[bk] > 0 && r.Chance(7, 10):
			idx = uint32(r.Intn(int(g.next[bk])))
			g.handles = append(g.handles, gHandle{"chain"})
			g.touch(a)
		case r.Chance(2, 3):
			idx = g.next[bk] + uint32(r.Intn(3)) // not issued yet
		default:
			idx = g.next[bk] + 5 + uint32(r.Intn(5))
		}
		t := g.target(sc, a, branch, idx)
		t.Op = "lookup"
		if r.Chance(1, 20) {
			t.Fmt = allFormats[r.Intn(4)] // the same key in another encoding
		}
		return []Op{t}
	case 9: // lookup of imported material
		if len(g.impKeys)+len(g.scripts) == 0 {
			return nil
		}
		all := append(append([]Op{}, g.impKeys...), g.scripts...)
		t := all[r.Intn(len(all))]
		t.Op = "lookup"
		if t.Root == "script" {
			g.handles = append(g.handles, gHandle{"script"})
		} else {
			g.handles = append(g.handles, gHandle{"impkey"})
		}
		return []Op{t}
	case 10: // derive from key path
		b := branch
		if r.Chance(1, 8) {
			b = 2
		}
		idx := uint32(r.Intn(int(g.next[bk]) + 4))
		op := Op{Op: "derive", Scope: sc, Account: a.num, AcctChild: g.acctChild(a), Branch: b, Index: idx, Fp: a.fp}
		g.touch(a)
		g.handles = append(g.handles, gHandle{"chain"})
		return []Op{op}
	case 11: // derive from key path, cache variant
		idx := uint32(r.Intn(int(g.next[bk]) + 4))
		return []Op{{Op: "derivecache", Scope: sc, Account: a.num, AcctChild: g.acctChild(a), Branch: branch, Index: idx, Fp: a.fp}}
	case 12: // import a private key
		var out []Op
		if r.Chance(4, 5) {
			out = append(out, doUnlock()...)
		}
		g.keyCtr++
		k := g.keyCtr
		if r.Chance(1, 8) && len(g.impKeys) > 0 {
			// a duplicate import, into the SAME scope (refused).  The same key is
			// never imported into two scopes: P2PKH and P2WPKH addresses of one key
			// share their script address, Manager.Address walks the scoped managers
			// in Go map order, and which of the two imported addresses it returns
			// would then differ from run to run.
			dup := g.impKeys[r.Intn(len(g.impKeys))]
			k, sc = dup.Key, dup.Scope
		}
		out = append(out, Op{Op: "importkey", Scope: sc, Key: k})
		if !g.locked && k == g.keyCtr {
			g.impKeys = append(g.impKeys, Op{Scope: sc, Root: "imp", Key: k, Fmt: g.schema[sc][0]})
			g.handles = append(g.handles, gHandle{"impkey"})
		}
		return out
	case 13: // import a script
		var out []Op
		if r.Chance(4, 5) {
			out = append(out, doUnlock()...)
		}
		g.keyCtr++
		out = append(out, Op{Op: "importscript", Scope: sc, Script: g.keyCtr})
		if !g.locked {
			g.scripts = append(g.scripts, Op{Scope: sc, Root: "script", Script: g.keyCtr})
			g.handles = append(g.handles, gHandle{"script"})
		}
		return out
	case 14: // account properties
		g.touch(a)
		return []Op{{Op: "props", Scope: sc, Account: a.num}}
	case 15: // private key of an address handed out earlier
		if len(g.handles) == 0 {
			return nil
		}
		var out []Op
		if r.Chance(3, 5) {
			out = append(out, doUnlock()...)
		}
		h := r.Intn(len(g.handles))
		if r.Chance(1, 2) {
			h = len(g.handles) - 1 - r.Intn(min(len(g.handles), 4))
		}
		if g.handles[h].kind == "script" {
			return append(out, Op{Op: "script", Handle: h})
		}
		return append(out, Op{Op: "priv", Handle: h})
	case 16: // script getter
		for h, x := range g.handles {
			if x.kind == "script" {
				return []Op{{Op: "script", Handle: h}}
			}
		}
		return nil
	case 17: // mark used, then look the address up again
		if g.next[bk] == 0 {
			return nil
		}
		idx := uint32(r.Intn(int(g.next[bk])))
		t := g.target(sc, a, branch, idx)
		t.Op = "markused"
		g.touch(a)
		out := []Op{t}
		if r.Chance(3, 4) {
			l := t
			l.Op = "lookup"
			out = append(out, l)
			g.handles = append(g.handles, gHandle{"chain"})
		}
		return out
	case 18: // restart
		g.locked = true
		g.stuck = false
		g.handles = nil
		return []Op{{Op: "open"}}
	}
	return nil
}

func genCase(r *gen.R, seeds []uint64, xpubPool []int, tier string) Input {
	in := Input{Seed: seeds[r.Intn(len(seeds))], Pass: 1}
	g := newGState(r, in.Pass, xpubPool)
	n := r.Range(10, 45)
	for len(in.Ops) < n {
		in.Ops = append(in.Ops, g.genOps(tier)...)
	}
	return in
}

// scripted cases: the situations the property names, each in isolation
func scriptedCases(seed uint64) []Input {
	s84, s49, s86, s44 := [2]uint32{84, 0}, [2]uint32{49, 0}, [2]uint32{86, 0}, [2]uint32{44, 0}
	hs := hdoracle.HardenedStart
	lk := func(sc [2]uint32, a, b, i uint32, f string) Op {
		return Op{Op: "lookup", Scope: sc, Account: a, Branch: b, Index: i, Root: "seed", Fmt: f}
	}
	return []Input{
		// issued while locked, key wanted after unlock
		{Seed: seed, Pass: 1, Ops: []Op{{Op: "next", Scope: s84, N: 2}, {Op: "next", Scope: s49, Internal: true, N: 1},
			{Op: "unlock", Pass: 1}, {Op: "priv", Handle: 0}, {Op: "priv", Handle: 2}, {Op: "lock"}, {Op: "priv", Handle: 1}}},
		// extended while unlocked (recovery), looked up, key wanted
		{Seed: seed, Pass: 1, Ops: []Op{{Op: "unlock", Pass: 1}, {Op: "extend", Scope: s84, N: 2}, {Op: "props", Scope: s84},
			lk(s84, 0, 0, 0, hdoracle.P2WKH), lk(s84, 0, 0, 2, hdoracle.P2WKH), {Op: "next", Scope: s84, N: 1}}},
		{Seed: seed, Pass: 1, Ops: []Op{{Op: "unlock", Pass: 1}, {Op: "extend", Scope: s86, Internal: true, N: 1},
			lk(s86, 0, 1, 1, hdoracle.P2TR), {Op: "priv", Handle: 0}}},
		// extended while locked, then unlocked
		{Seed: seed, Pass: 1, Ops: []Op{{Op: "extend", Scope: s44, N: 3}, lk(s44, 0, 0, 1, hdoracle.P2PKH), {Op: "unlock", Pass: 1},
			{Op: "priv", Handle: 0}, lk(s44, 0, 0, 3, hdoracle.P2PKH)}},
		// restart, then lookup
		{Seed: seed, Pass: 1, Ops: []Op{{Op: "unlock", Pass: 1}, {Op: "next", Scope: s49, N: 3}, {Op: "open"}, {Op: "unlock", Pass: 1},
			lk(s49, 0, 0, 1, hdoracle.NP2WKH), {Op: "priv", Handle: 0}}},
		// derive from path while locked, then unlock
		{Seed: seed, Pass: 1, Ops: []Op{{Op: "derive", Scope: s84, AcctChild: hs, Branch: 1, Index: 7}, {Op: "unlock", Pass: 1},
			{Op: "priv", Handle: 0}, {Op: "derivecache", Scope: s84, AcctChild: hs, Branch: 1, Index: 7}}},
		// new account, passphrase change, restart
		{Seed: seed, Pass: 1, Ops: []Op{{Op: "unlock", Pass: 1}, {Op: "newacct", Scope: s84, Name: 11}, {Op: "next", Scope: s84, Account: 1, N: 2},
			{Op: "chpass", Pass: 1, NewPass: 2}, {Op: "open"}, {Op: "unlock", Pass: 1}, {Op: "unlock", Pass: 2},
			{Op: "lookup", Scope: s84, Account: 1, Index: 1, Root: "seed", Fmt: hdoracle.P2WKH}}},
		// imported xpub account with a schema override, locked (the pinned code panics when unlocked)
		{Seed: seed, Pass: 1, Ops: []Op{{Op: "importxpub", Scope: s84, Name: 11, Xpub: 3, Cn: xpubChild(3), Fp: 77, Schema: []string{hdoracle.NP2WKH, hdoracle.NP2WKH}},
			{Op: "next", Scope: s84, Account: 1, N: 2}, {Op: "extend", Scope: s84, Account: 1, Internal: true, N: 1},
			{Op: "lookup", Scope: s84, Account: 1, Branch: 1, Index: 1, Root: "xpub", Xpub: 3, Cn: xpubChild(3), Fmt: hdoracle.NP2WKH},
			{Op: "open"}, {Op: "lookup", Scope: s84, Account: 1, Branch: 1, Index: 1, Root: "xpub", Xpub: 3, Cn: xpubChild(3), Fmt: hdoracle.NP2WKH}}},
		// imported key and script survive lock and restart
		{Seed: seed, Pass: 1, Ops: []Op{{Op: "unlock", Pass: 1}, {Op: "importkey", Scope: s84, Key: 5}, {Op: "importscript", Scope: s44, Script: 6},
			{Op: "lock"}, {Op: "priv", Handle: 0}, {Op: "unlock", Pass: 1}, {Op: "priv", Handle: 0}, {Op: "script", Handle: 1}, {Op: "open"},
			{Op: "unlock", Pass: 1}, {Op: "lookup", Scope: s84, Root: "imp", Key: 5, Fmt: hdoracle.P2WKH},
			{Op: "lookup", Scope: s44, Root: "script", Script: 6}}},
	}
}

func main() {
	core.Main("c03", nil, func(c *core.Common, out *core.Emitter) error {
		dir, err := os.MkdirTemp(tmpBase(), "vh-c03-")
		if err != nil {
			return err
		}
		defer os.RemoveAll(dir)
		o := newOracleDB()
		if c.Replay != "" {
			return core.ReadReplay(c.Replay, func(raw json.RawMessage) error {
				var cs struct {
					In Input `json:"in"`
				}
				if err := json.Unmarshal(raw, &cs); err != nil {
					return err
				}
				cc := runCase(o, dir, cs.In, true)
				cc.Tags = append(cc.Tags, "replay")
				out.Emit(cc)
				return nil
			})
		}
		r := gen.New(c.Seed, 3)
		nseeds := 5
		if c.Tier == "thorough" {
			nseeds = 24
		}
		var seeds []uint64
		for i := 0; i < nseeds; i++ {
			seeds = append(seeds, uint64(r.Int63n(1<<40)))
		}
		xpubs := []int{r.Intn(1000), 1000 + r.Intn(1000), 2000 + r.Intn(1000)}
		for i, in := range scriptedCases(seeds[0]) {
			cc := runCase(o, dir, in, i%3 == 0)
			cc.Tags = append(cc.Tags, "scripted")
			out.Emit(cc)
		}
		for i := 0; i < c.N; i++ {
			in := genCase(r, seeds, xpubs, c.Tier)
			out.Emit(runCase(o, dir, in, i%4 == 0))
		}
		return nil
	})
}
