// probe-c15 determines the regenerated facts of property C15 BEHAVIOURALLY,
// on the code it is built against (the harness module's replace lines point
// at the repository under test).  It is only used by lib/extract_c15.py when
// the source-shape reader (harness/cmd/extract-c15) refuses a shape.
//
//	disconnect_records_parent_hash
//	  witness (the scenario of C15_refuted_at_pinned and of
//	  corpus/C15/s1_*): a new wallet, connect blocks 1..n through the
//	  wallet's own connectBlock, disconnect block n through its own
//	  disconnectBlock, read back Manager.SyncedTo() and
//	  Manager.BlockHash(n-1).  disconnectBlock hands exactly one stamp to
//	  SetSyncedTo, which stores stamp.Hash as the synced-to hash and as the
//	  hash remembered for stamp.Height; both read-backs therefore ARE the
//	  Hash field of that stamp.  The simulated chain knows the true hash of
//	  block n-1.  Instances n = 1 (parent = genesis), 3, 5, each with and
//	  without a stored birthday block (predecessor check of PutSyncedTo).
//	  Reported per instance: whether the disconnect was accepted (synced-to
//	  height n-1) and whether the two hashes are the parent's / all-zero.
//
//	max_reorg_depth
//	  the exported constant waddrmgr.MaxReorgDepth, and the pruning rule the
//	  model attaches to it (PutSyncedTo(h) removes exactly the entry at
//	  h - MaxReorgDepth when that is positive): SetSyncedTo for heights
//	  1..M+2 inside one transaction, then heights 0 and 3..M+2 must be
//	  present, 1 and 2 absent.
//
// Output: one JSON object.
package main

import (
	"crypto/sha256"
	"encoding/json"
	"fmt"
	"os"
	"time"

	"github.com/btcsuite/btcd/chaincfg"
	"github.com/btcsuite/btcd/chaincfg/chainhash"
	"github.com/btcsuite/btcwallet/waddrmgr"
	"github.com/btcsuite/btcwallet/walletdb"

	"verifharness/internal/simchain"
	"verifharness/internal/walletenv"
)

type instance struct {
	N            int    `json:"n"`
	Birthday     bool   `json:"birthday"`
	Accepted     bool   `json:"accepted"` // synced-to height is n-1 after the disconnect
	SyncedParent bool   `json:"synced_is_parent"`
	SyncedZero   bool   `json:"synced_is_zero"`
	StoredParent bool   `json:"stored_is_parent"`
	StoredZero   bool   `json:"stored_is_zero"`
	Err          string `json:"err,omitempty"`
}

type output struct {
	MaxReorgDepth int64      `json:"max_reorg_depth"`
	PruneOK       bool       `json:"prune_ok"`
	PruneDetail   string     `json:"prune_detail"`
	Instances     []instance `json:"instances"`
}

var ns = []byte("waddrmgr")

func newEnv(tag string) (*walletenv.Env, *simchain.Chain, error) {
	seed := sha256.Sum256([]byte("probe-c15-" + tag))
	env, err := walletenv.New(seed[:], time.Unix(1500000000, 0), 0, nil)
	if err != nil {
		return nil, nil, err
	}
	sc := simchain.New(&chaincfg.RegressionNetParams)
	env.W.VerifSetChainClient(sc)
	env.W.SetChainSynced(true)
	return env, sc, nil
}

func witness(n int, birthday bool) (inst instance) {
	inst = instance{N: n, Birthday: birthday}
	env, sc, err := newEnv(fmt.Sprintf("w-%d-%v", n, birthday))
	if err != nil {
		inst.Err = err.Error()
		return
	}
	defer env.Close()
	w := env.W
	if birthday {
		g := sc.At(0)
		err := walletdb.Update(env.DB, func(tx walletdb.ReadWriteTx) error {
			return w.Manager.SetBirthdayBlock(tx.ReadWriteBucket(ns),
				waddrmgr.BlockStamp{Height: 0, Hash: g.Hash, Timestamp: g.Time}, true)
		})
		if err != nil {
			inst.Err = err.Error()
			return
		}
	}
	for i := 0; i < n; i++ {
		b := sc.Extend(nil, nil)
		if err := w.VerifConnectBlock(b.Meta()); err != nil {
			inst.Err = "connect: " + err.Error()
			return
		}
	}
	tip := sc.Disconnect()
	if err := w.VerifDisconnectBlock(tip.Meta()); err != nil {
		inst.Err = "disconnect: " + err.Error()
		return
	}
	parent := sc.At(int32(n - 1)).Hash
	st := w.Manager.SyncedTo()
	inst.Accepted = st.Height == int32(n-1)
	inst.SyncedParent = st.Hash == parent
	inst.SyncedZero = st.Hash == chainhash.Hash{}
	err = walletdb.View(env.DB, func(tx walletdb.ReadTx) error {
		h, err := w.Manager.BlockHash(tx.ReadBucket(ns), int32(n-1))
		if err != nil {
			return err
		}
		inst.StoredParent = *h == parent
		inst.StoredZero = *h == chainhash.Hash{}
		return nil
	})
	if err != nil {
		inst.Err = "read back: " + err.Error()
	}
	return
}

func prune(out *output) {
	m := int64(waddrmgr.MaxReorgDepth)
	out.MaxReorgDepth = m
	if m < 1 || m > 200000 {
		out.PruneDetail = fmt.Sprintf("MaxReorgDepth = %d is outside the range the probe can validate", m)
		return
	}
	env, _, err := newEnv("prune")
	if err != nil {
		out.PruneDetail = err.Error()
		return
	}
	defer env.Close()
	w := env.W
	top := int32(m + 2)
	err = walletdb.Update(env.DB, func(tx walletdb.ReadWriteTx) error {
		b := tx.ReadWriteBucket(ns)
		for h := int32(1); h <= top; h++ {
			hash := chainhash.Hash(sha256.Sum256([]byte(fmt.Sprintf("probe-c15-block-%d", h))))
			err := w.Manager.SetSyncedTo(b, &waddrmgr.BlockStamp{Height: h, Hash: hash, Timestamp: time.Unix(1600000000+int64(h), 0)})
			if err != nil {
				return fmt.Errorf("SetSyncedTo(%d): %v", h, err)
			}
		}
		return nil
	})
	if err != nil {
		out.PruneDetail = err.Error()
		return
	}
	want := map[int32]bool{0: true, 1: false, 2: false, 3: true, 4: true, top - 1: true, top: true}
	ok := true
	detail := ""
	_ = walletdb.View(env.DB, func(tx walletdb.ReadTx) error {
		b := tx.ReadBucket(ns)
		for h, present := range want {
			_, err := w.Manager.BlockHash(b, h)
			if (err == nil) != present {
				ok = false
				detail += fmt.Sprintf("height %d: present=%v, expected %v; ", h, err == nil, present)
			}
		}
		return nil
	})
	out.PruneOK = ok
	out.PruneDetail = detail
}

func main() {
	var out output
	for _, n := range []int{1, 3, 5} {
		for _, bd := range []bool{false, true} {
			out.Instances = append(out.Instances, witness(n, bd))
		}
	}
	prune(&out)
	b, _ := json.Marshal(out)
	fmt.Println(string(b))
	_ = os.Stdout.Sync()
}
