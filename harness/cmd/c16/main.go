// Command c16 drives the real wallet recovery (wallet.recovery through the
// verif hook) against simulated chains built from generated address-usage
// patterns, and the birthday block search against generated timestamp
// sequences.  One JSON object per case on stdout.
package main

import (
	"crypto/sha256"
	"encoding/binary"
	"encoding/json"
	"fmt"
	"os"
	"sort"
	"sync"
	"time"

	"github.com/btcsuite/btcd/btcutil"
	"github.com/btcsuite/btcd/chaincfg"
	"github.com/btcsuite/btcd/chaincfg/chainhash"
	"github.com/btcsuite/btcd/txscript"
	"github.com/btcsuite/btcd/wire"
	"github.com/btcsuite/btcwallet/waddrmgr"
	"github.com/btcsuite/btcwallet/wallet"
	"github.com/btcsuite/btcwallet/walletdb"

	"verifharness/internal/core"
	"verifharness/internal/gen"
	"verifharness/internal/simchain"
	"verifharness/internal/walletenv"
)

// scopes in model order: 0 = BIP44, 1 = BIP49+, 2 = BIP84, 3 = BIP86.
var c16Scopes = []waddrmgr.KeyScope{
	waddrmgr.KeyScopeBIP0044, waddrmgr.KeyScopeBIP0049Plus,
	waddrmgr.KeyScopeBIP0084, waddrmgr.KeyScopeBIP0086,
}

var (
	nsAddr = []byte("waddrmgr")
	nsTx   = []byte("wtxmgr")
)

const (
	c16Genesis  = int64(1600000000) // simchain genesis time
	c16Spacing  = int64(600)        // simchain default block interval
	c16Delta    = int64(7200)       // birthdayBlockDelta
	c16Foreign  = int64(1000000)    // ids at or above: outpoints of transactions outside the case
	c16Margin48 = int64(48 * 3600)  // waddrmgr stores birthday - 48h
)

type c16Out struct {
	K *[3]uint32 `json:"k"` // (scope, branch, index) or null = foreign output
	V int64      `json:"v"`
}

type c16Tx struct {
	ID   int64      `json:"id"`
	Ins  [][2]int64 `json:"ins"` // (tx id, output position)
	Outs []c16Out   `json:"outs"`
}

type c16Block struct {
	H   int32   `json:"h"`
	Txs []c16Tx `json:"txs"`
}

type c16In struct {
	Kind string `json:"kind"` // recovery | birthday
	// recovery
	Seed     int        `json:"seed"`
	W        uint32     `json:"w"`
	Unlocked bool       `json:"unlocked"`
	Len      int32      `json:"len"`
	Blocks   []c16Block `json:"blocks"` // the non-empty blocks, ascending
	Cuts     []int32    `json:"cuts"`   // recovery is run with the chain truncated at each height in turn; last = len
	Bday     int32      `json:"bday"`   // height of the birthday block handed to recovery; -1 = locate it from birthday_ts
	// birthday: block timestamps by height (ts[0] is the genesis time) and the birthday, in seconds
	Ts         []int64 `json:"ts"`
	BirthdayTs int64   `json:"birthday_ts"`
	ViaWallet  bool    `json:"via_wallet"` // birthday_ts is the creation time given to wallet.Create; the search uses Manager.Birthday()
}

type c16Obs struct {
	Err       string     `json:"err"`
	BatchSize int        `json:"batch_size"`
	InitZero  bool       `json:"init_zero"` // all key counts 0 before recovery
	BdayUsed  int32      `json:"bday_used"` // birthday block height handed to recovery
	Next      []uint32   `json:"next"`      // external, internal key count per scope (8 values)
	Probes    [][5]int64 `json:"probes"`    // scope, branch, index, present, used
	Recorded  []int32    `json:"recorded"`  // per transaction of the case (in order): block height of its record, -1 = not recorded
	Balance   int64      `json:"balance"`
	Unspent   [][3]int64 `json:"unspent"` // (tx id, position, value), sorted
	Synced    int32      `json:"synced"`
	// birthday
	Height    int32 `json:"height"`
	SearchFor int64 `json:"search_for"` // the timestamp handed to the search
}

type c16Case struct {
	In     c16In    `json:"in"`
	Obs    c16Obs   `json:"obs"`
	Oracle []string `json:"oracle"`
	Tags   []string `json:"tags"`
	Site   string   `json:"site"`
}

func c16SeedBytes(id int) []byte {
	h := sha256.Sum256([]byte(fmt.Sprintf("c16-seed-%d", id)))
	return h[:]
}

// ---------------------------------------------------------------- addresses

// deriver derives wallet addresses of a seed through a separate ("original")
// wallet that never sees the chain.
type deriver struct {
	mu    sync.Mutex
	env   *walletenv.Env
	cache map[[3]uint32]btcutil.Address
}

var hangMu sync.Mutex

// c16Watchdog bounds one recovery case (a normal one takes well under a second).
const c16Watchdog = 90 * time.Second

var (
	derivers   = map[int]*deriver{}
	deriversMu sync.Mutex
)

func getDeriver(seed int) (*deriver, error) {
	deriversMu.Lock()
	defer deriversMu.Unlock()
	if d, ok := derivers[seed]; ok {
		return d, nil
	}
	env, err := walletenv.New(c16SeedBytes(seed), time.Unix(c16Genesis-1000000, 0), 0, nil)
	if err != nil {
		return nil, err
	}
	d := &deriver{env: env, cache: map[[3]uint32]btcutil.Address{}}
	derivers[seed] = d
	return d, nil
}

func (d *deriver) addr(k [3]uint32) (btcutil.Address, error) {
	d.mu.Lock()
	defer d.mu.Unlock()
	if a, ok := d.cache[k]; ok {
		return a, nil
	}
	mgr, err := d.env.W.Manager.FetchScopedKeyManager(c16Scopes[k[0]])
	if err != nil {
		return nil, err
	}
	var a btcutil.Address
	err = walletdb.View(d.env.DB, func(tx walletdb.ReadTx) error {
		ns := tx.ReadBucket(nsAddr)
		ma, err := mgr.DeriveFromKeyPath(ns, waddrmgr.DerivationPath{
			InternalAccount: waddrmgr.DefaultAccountNum,
			Account:         waddrmgr.DefaultAccountNum,
			Branch:          k[1],
			Index:           k[2],
		})
		if err != nil {
			return err
		}
		a = ma.Address()
		return nil
	})
	if err != nil {
		return nil, err
	}
	d.cache[k] = a
	return a, nil
}

func closeDerivers() {
	for _, d := range derivers {
		d.env.Close()
	}
}

// ---------------------------------------------------------------- running

var foreignScript = func() []byte {
	h := sha256.Sum256([]byte("c16-foreign"))
	a, err := btcutil.NewAddressPubKeyHash(h[:20], &chaincfg.RegressionNetParams)
	if err != nil {
		panic(err)
	}
	s, err := txscript.PayToAddrScript(a)
	if err != nil {
		panic(err)
	}
	return s
}()

func foreignHash(id int64) chainhash.Hash {
	var b [8]byte
	binary.BigEndian.PutUint64(b[:], uint64(id))
	return chainhash.Hash(sha256.Sum256(append([]byte("c16-foreign-tx"), b[:]...)))
}

type walletOut struct {
	tx    int64
	pos   uint32
	key   [3]uint32
	val   int64
	h     int32
	spent bool
}

// c16Recovery builds the chain, runs recovery on a fresh wallet and observes.
func c16Recovery(in c16In) (c16Obs, []string, string, error) {
	obs := c16Obs{BatchSize: wallet.VerifRecoveryBatchSize, Next: []uint32{}, Probes: [][5]int64{},
		Recorded: []int32{}, Unspent: [][3]int64{}}
	d, err := getDeriver(in.Seed)
	if err != nil {
		return obs, nil, "", err
	}
	params := &chaincfg.RegressionNetParams

	// real transactions
	hashes := map[int64]chainhash.Hash{}
	ids := map[chainhash.Hash]int64{}
	var order []int64
	byHeight := map[int32][]*wire.MsgTx{}
	for _, b := range in.Blocks {
		for _, t := range b.Txs {
			m := wire.NewMsgTx(2)
			for _, i := range t.Ins {
				var h chainhash.Hash
				if i[0] >= c16Foreign {
					h = foreignHash(i[0])
				} else {
					hh, ok := hashes[i[0]]
					if !ok {
						h = foreignHash(i[0]) // spends a transaction that does not precede it
					} else {
						h = hh
					}
				}
				m.AddTxIn(wire.NewTxIn(wire.NewOutPoint(&h, uint32(i[1])), nil, nil))
			}
			for _, o := range t.Outs {
				script := foreignScript
				if o.K != nil {
					a, err := d.addr(*o.K)
					if err != nil {
						return obs, nil, "", err
					}
					script, err = txscript.PayToAddrScript(a)
					if err != nil {
						return obs, nil, "", err
					}
				}
				m.AddTxOut(wire.NewTxOut(o.V, script))
			}
			m.LockTime = uint32(t.ID) // distinct hashes
			h := m.TxHash()
			hashes[t.ID] = h
			ids[h] = t.ID
			order = append(order, t.ID)
			byHeight[b.H] = append(byHeight[b.H], m)
		}
	}

	// fresh wallet restored from the same seed
	creation := time.Unix(c16Genesis-1000000, 0)
	if in.Bday < 0 {
		creation = time.Unix(in.BirthdayTs+c16Margin48, 0) // stored birthday = birthday_ts
	}
	env, err := walletenv.New(c16SeedBytes(in.Seed), creation, in.W, nil)
	if err != nil {
		return obs, nil, "", err
	}
	defer env.Close()
	sc := simchain.New(params)

	obs.InitZero = true
	for _, s := range c16Scopes {
		p, err := env.W.AccountProperties(s, 0)
		if err != nil {
			return obs, nil, "", err
		}
		if p.ExternalKeyCount != 0 || p.InternalKeyCount != 0 {
			obs.InitZero = false
		}
	}

	var stamp *waddrmgr.BlockStamp
	first := true
	for _, cut := range in.Cuts {
		for sc.Tip().Height < cut {
			sc.Extend(byHeight[sc.Tip().Height+1], nil)
		}
		if !first {
			if err := env.Reopen(in.W, nil); err != nil {
				return obs, nil, "", err
			}
		}
		first = false
		env.W.VerifSetChainClient(sc)
		if in.Unlocked {
			if err := env.W.Unlock(walletenv.PrivPass, nil); err != nil {
				return obs, nil, "", err
			}
		}
		if stamp == nil {
			if in.Bday < 0 {
				stamp, err = wallet.VerifLocateBirthdayBlock(sc, env.W.Manager.Birthday())
				if err != nil {
					return obs, nil, "", err
				}
			} else {
				b := sc.At(in.Bday)
				if b == nil {
					b = sc.At(0)
				}
				stamp = &waddrmgr.BlockStamp{Height: in.Bday, Hash: b.Hash, Timestamp: b.Time}
			}
			obs.BdayUsed = stamp.Height
		}
		if err := env.W.VerifRecovery(sc, stamp); err != nil {
			obs.Err = err.Error()
			break
		}
	}

	// ---- observe
	w := env.W
	for _, s := range c16Scopes {
		p, err := w.AccountProperties(s, 0)
		if err != nil {
			return obs, nil, "", err
		}
		obs.Next = append(obs.Next, p.ExternalKeyCount, p.InternalKeyCount)
	}
	bal, err := w.CalculateBalance(1)
	if err != nil {
		return obs, nil, "", err
	}
	obs.Balance = int64(bal)
	obs.Synced = w.Manager.SyncedTo().Height

	// harness' own ledger of what it paid, from the first block that may pay
	// the wallet: the explicit birthday block, or - when the birthday block is
	// located by the wallet - every block (the generator pays only in blocks
	// stamped later than birthday + 2h, so a search result that skips one of
	// them shows up as a missed payment)
	scanFrom := c16ExpectFrom(in)
	var outs []*walletOut
	byOp := map[[2]int64]*walletOut{}
	maxPaid := map[[2]uint32]int64{}
	type spendRef struct {
		tx  int64
		inp int
	}
	var spends []spendRef
	for _, b := range in.Blocks {
		if b.H < scanFrom || b.H > in.Len {
			continue // not scanned / not on the chain
		}
		for _, t := range b.Txs {
			for n, i := range t.Ins {
				if o, ok := byOp[[2]int64{i[0], i[1]}]; ok && !o.spent {
					o.spent = true
					spends = append(spends, spendRef{t.ID, n})
				}
			}
			for pos, o := range t.Outs {
				if o.K == nil {
					continue
				}
				wo := &walletOut{tx: t.ID, pos: uint32(pos), key: *o.K, val: o.V, h: b.H}
				outs = append(outs, wo)
				byOp[[2]int64{t.ID, int64(pos)}] = wo
				bk := [2]uint32{o.K[0], o.K[1]}
				if cur, ok := maxPaid[bk]; !ok || int64(o.K[2]) > cur {
					maxPaid[bk] = int64(o.K[2])
				}
			}
		}
	}

	// probes: every paid path, the next three indices of each paid branch, index 0 of every branch
	probeSet := map[[3]uint32]bool{}
	for _, b := range in.Blocks {
		for _, t := range b.Txs {
			for _, o := range t.Outs {
				if o.K != nil {
					probeSet[*o.K] = true
				}
			}
		}
	}
	for bk, m := range maxPaid {
		for j := int64(1); j <= 3; j++ {
			probeSet[[3]uint32{bk[0], bk[1], uint32(m + j)}] = true
		}
	}
	for s := uint32(0); s < 4; s++ {
		for b := uint32(0); b < 2; b++ {
			probeSet[[3]uint32{s, b, 0}] = true
		}
	}
	var probes [][3]uint32
	for k := range probeSet {
		probes = append(probes, k)
	}
	sort.Slice(probes, func(i, j int) bool {
		a, b := probes[i], probes[j]
		if a[0] != b[0] {
			return a[0] < b[0]
		}
		if a[1] != b[1] {
			return a[1] < b[1]
		}
		return a[2] < b[2]
	})
	present := map[[3]uint32]bool{}
	used := map[[3]uint32]bool{}
	type det struct {
		height  int32
		credits map[uint32]bool
		debits  map[uint32]bool
	}
	details := map[int64]*det{}
	err = walletdb.View(env.DB, func(tx walletdb.ReadTx) error {
		ans := tx.ReadBucket(nsAddr)
		tns := tx.ReadBucket(nsTx)
		for _, k := range probes {
			a, err := d.addr(k)
			if err != nil {
				return err
			}
			ma, err := w.Manager.Address(ans, a)
			if err != nil {
				if waddrmgr.IsError(err, waddrmgr.ErrAddressNotFound) {
					continue
				}
				return err
			}
			present[k] = true
			used[k] = ma.Used(ans)
		}
		for _, id := range order {
			h := hashes[id]
			dd, err := w.TxStore.TxDetails(tns, &h)
			if err != nil {
				return err
			}
			if dd == nil {
				continue
			}
			x := &det{height: dd.Block.Height, credits: map[uint32]bool{}, debits: map[uint32]bool{}}
			for _, c := range dd.Credits {
				x.credits[c.Index] = true
			}
			for _, c := range dd.Debits {
				x.debits[c.Index] = true
			}
			details[id] = x
		}
		creds, err := w.TxStore.UnspentOutputs(tns)
		if err != nil {
			return err
		}
		for _, c := range creds {
			id, ok := ids[c.OutPoint.Hash]
			if !ok {
				id = -1
			}
			obs.Unspent = append(obs.Unspent, [3]int64{id, int64(c.OutPoint.Index), int64(c.Amount)})
		}
		return nil
	})
	if err != nil {
		return obs, nil, "", err
	}
	sort.Slice(obs.Unspent, func(i, j int) bool {
		a, b := obs.Unspent[i], obs.Unspent[j]
		if a[0] != b[0] {
			return a[0] < b[0]
		}
		return a[1] < b[1]
	})
	b2i := func(b bool) int64 {
		if b {
			return 1
		}
		return 0
	}
	for _, k := range probes {
		obs.Probes = append(obs.Probes, [5]int64{int64(k[0]), int64(k[1]), int64(k[2]), b2i(present[k]), b2i(used[k])})
	}
	for _, id := range order {
		if x, ok := details[id]; ok {
			obs.Recorded = append(obs.Recorded, x.height)
		} else {
			obs.Recorded = append(obs.Recorded, -1)
		}
	}

	// ---- oracle: the property, against what the harness itself paid
	var bad []string
	site := ""
	add := func(kind, s string) {
		for _, k := range bad {
			if k == kind {
				return
			}
		}
		bad = append(bad, kind)
		if site == "" {
			site = s
		}
	}
	bname := []string{"external", "internal"}
	sname := []string{"bip44", "bip49", "bip84", "bip86"}
	if obs.Err != "" {
		add("recovery_failed", "recovery")
	}
	var want int64
	for _, o := range outs {
		st := sname[o.key[0]] + "/" + bname[o.key[1]]
		if !present[o.key] || !used[o.key] {
			add("used_address_not_discovered", st)
		}
		x := details[o.tx]
		if x == nil || !x.credits[o.pos] || x.height != o.h {
			add("payment_not_recorded", st)
		}
		if !o.spent {
			want += o.val
		}
	}
	for _, s := range spends {
		x := details[s.tx]
		if x == nil || !x.debits[uint32(s.inp)] {
			add("spend_not_recorded", "spend")
		}
	}
	if obs.Balance != want {
		add("wrong_balance_after_recovery", "balance")
	}
	for bk, m := range maxPaid {
		n := int64(obs.Next[2*bk[0]+bk[1]])
		if n <= m {
			add("next_index_not_above_highest_used", sname[bk[0]]+"/"+bname[bk[1]])
		}
	}
	return obs, bad, site, nil
}

// c16Birthday runs the birthday block search over a chain with the given
// timestamps.
func c16Birthday(in c16In) (c16Obs, []string, []string, error) {
	obs := c16Obs{Next: []uint32{}, Probes: [][5]int64{}, Recorded: []int32{}, Unspent: [][3]int64{}}
	sc := simchain.New(&chaincfg.RegressionNetParams)
	for _, t := range in.Ts[1:] {
		tt := time.Unix(t, 0)
		sc.Extend(nil, &tt)
	}
	search := time.Unix(in.BirthdayTs, 0)
	if in.ViaWallet {
		env, err := walletenv.New(c16SeedBytes(in.Seed), time.Unix(in.BirthdayTs, 0), 0, nil)
		if err != nil {
			return obs, nil, nil, err
		}
		search = env.W.Manager.Birthday()
		env.Close()
	}
	obs.SearchFor = search.Unix()
	st, err := wallet.VerifLocateBirthdayBlock(sc, search)
	if err != nil {
		obs.Err = err.Error()
		return obs, []string{"birthday_search_failed"}, nil, nil
	}
	obs.Height = st.Height
	var bad, tags []string
	// A block that could pay the wallet is stamped later than the searched
	// birthday plus the two-hour tolerance (for a wallet, the searched
	// birthday is the creation time minus 48 hours, so this covers every
	// block stamped later than creation - 46h).
	strict := false
	for h := int32(0); h < st.Height; h++ {
		if in.Ts[h] > obs.SearchFor+c16Delta {
			bad = []string{"birthday_block_too_late"}
		}
		if in.Ts[h] > obs.SearchFor {
			strict = true
		}
	}
	if in.ViaWallet {
		for h := int32(0); h < st.Height; h++ {
			if in.Ts[h] >= in.BirthdayTs-c16Delta {
				bad = []string{"birthday_block_too_late"}
			}
		}
	}
	if strict {
		tags = append(tags, "later_than_first_block_after_birthday")
	}
	switch {
	case st.Height == 0:
		tags = append(tags, "result_genesis")
	case int(st.Height) == len(in.Ts)-1:
		tags = append(tags, "result_tip")
	default:
		tags = append(tags, "result_inner")
	}
	return obs, bad, tags, nil
}

// c16ExpectFrom is the height of the first block whose payments the property
// expects to be recovered.
func c16ExpectFrom(in c16In) int32 {
	if in.Bday < 0 {
		return 0
	}
	return in.Bday
}

// c16WithinLookahead decides the property's hypothesis on the input itself:
// in every scanned block, every paid index is below (1 + highest index paid
// on that branch in earlier scanned blocks, or 0) + W.
func c16WithinLookahead(in c16In, scanFrom int32) bool {
	fb := map[[2]uint32]int64{}
	for _, b := range in.Blocks {
		if b.H < scanFrom || b.H > in.Len {
			continue
		}
		bm := map[[2]uint32]int64{}
		for _, t := range b.Txs {
			for _, o := range t.Outs {
				if o.K == nil {
					continue
				}
				k := [2]uint32{o.K[0], o.K[1]}
				if int64(o.K[2]) >= fb[k]+int64(in.W) {
					return false
				}
				if m, ok := bm[k]; !ok || int64(o.K[2]) > m {
					bm[k] = int64(o.K[2])
				}
			}
		}
		for k, m := range bm {
			if m+1 > fb[k] {
				fb[k] = m + 1
			}
		}
	}
	return true
}

// ---------------------------------------------------------------- generators

type bk = [2]uint32

func c16GenRecovery(r *gen.R, long bool) (c16In, []string) {
	in := c16In{Kind: "recovery", Seed: r.Intn(6), Blocks: []c16Block{}}
	var tags []string
	in.W = []uint32{1, 2, 5, 20}[r.Intn(4)]
	in.Unlocked = r.Chance(1, 2)
	W := int64(in.W)
	if long {
		in.Len = int32(r.Range(2001, 2300))
		tags = append(tags, "crosses_batch_boundary")
	} else {
		in.Len = int32(r.Range(3, 60))
	}
	// birthday block
	first := int32(1)
	switch r.Pick(6, 2, 2) {
	case 0:
		in.Bday = 0
	case 1:
		in.Bday = int32(r.Range(1, int(in.Len)/2+1))
		first = in.Bday
		tags = append(tags, "explicit_birthday_block")
	case 2:
		in.Bday = -1
		// the searched birthday lies on the default time grid somewhere in the first half
		at := int64(r.Range(0, int(in.Len)/2))
		in.BirthdayTs = c16Genesis + at*c16Spacing + int64(r.Range(-600, 600))
		// first block stamped later than birthday + 2h
		f := (in.BirthdayTs+c16Delta-c16Genesis)/c16Spacing + 1
		if f < 1 {
			f = 1
		}
		first = int32(f)
		tags = append(tags, "located_birthday_block")
	}
	if first > in.Len {
		first = in.Len
	}
	// active blocks
	nact := r.Range(1, 10)
	hs := map[int32]bool{}
	for i := 0; i < nact; i++ {
		h := int32(r.Range(int(first), int(in.Len)))
		if long && r.Chance(1, 3) {
			h = int32(r.Range(1997, 2003))
			if h < first {
				h = first
			}
			if h > in.Len {
				h = in.Len
			}
		}
		hs[h] = true
	}
	var heights []int32
	for h := range hs {
		heights = append(heights, h)
	}
	sort.Slice(heights, func(i, j int) bool { return heights[i] < heights[j] })

	// active branches
	var active []bk
	for len(active) == 0 {
		for s := uint32(0); s < 4; s++ {
			for b := uint32(0); b < 2; b++ {
				if r.Chance(1, 3) {
					active = append(active, bk{s, b})
				}
			}
		}
	}
	violate := r.Chance(1, 5)
	violateAt := -1
	if violate {
		violateAt = r.Intn(len(heights))
	}
	fb := map[bk]int64{} // 1 + highest index paid in earlier blocks
	nextID := int64(1)
	nextForeign := c16Foreign
	type utxo struct {
		op  [2]int64
		val int64
	}
	var utxos []utxo
	maxGap := int64(0)
	sameBlockSpend, multiPay, spendsN, oldIdx := false, false, 0, false
	for bi, h := range heights {
		blk := c16Block{H: h}
		frozen := map[bk]int64{}
		for _, k := range active {
			frozen[k] = fb[k]
		}
		blockMax := map[bk]int64{}
		pick := func(k bk) int64 {
			lo, hi := frozen[k], frozen[k]+W-1
			var i int64
			switch r.Pick(3, 3, 2, 1) {
			case 0:
				i = hi
			case 1:
				i = lo
			case 2:
				i = int64(r.Range(int(lo), int(hi)))
			case 3:
				if lo > 0 {
					i = int64(r.Range(0, int(lo-1)))
					oldIdx = true
				} else {
					i = lo
				}
			}
			if i-lo > maxGap {
				maxGap = i - lo
			}
			if m, ok := blockMax[k]; !ok || i > m {
				blockMax[k] = i
			}
			return i
		}
		ntx := r.Range(1, 4)
		pays := 0
		for t := 0; t < ntx; t++ {
			tx := c16Tx{ID: nextID, Ins: [][2]int64{}, Outs: []c16Out{}}
			nextID++
			kind := r.Pick(5, 3, 1) // pay | spend | irrelevant
			if kind == 1 && len(utxos) == 0 {
				kind = 0
			}
			switch kind {
			case 0:
				tx.Ins = append(tx.Ins, [2]int64{nextForeign, 0})
				nextForeign++
				for n := r.Range(1, 3); n > 0; n-- {
					k := active[r.Intn(len(active))]
					tx.Outs = append(tx.Outs, c16Out{K: &[3]uint32{k[0], k[1], uint32(pick(k))}, V: int64(r.Range(1000, 900000))})
					pays++
				}
				if r.Chance(1, 2) {
					tx.Outs = append(tx.Outs, c16Out{V: int64(r.Range(1000, 900000))})
				}
			case 1:
				for n := r.Range(1, 2); n > 0 && len(utxos) > 0; n-- {
					j := r.Intn(len(utxos))
					tx.Ins = append(tx.Ins, utxos[j].op)
					for _, b2 := range blk.Txs {
						if b2.ID == utxos[j].op[0] {
							sameBlockSpend = true
						}
					}
					utxos = append(utxos[:j], utxos[j+1:]...)
					spendsN++
				}
				if r.Chance(1, 3) {
					tx.Ins = append(tx.Ins, [2]int64{nextForeign, 0})
					nextForeign++
				}
				tx.Outs = append(tx.Outs, c16Out{V: int64(r.Range(1000, 900000))})
				if r.Chance(1, 2) {
					// change to an internal branch (within the window)
					s := uint32(r.Intn(4))
					k := bk{s, 1}
					if _, ok := frozen[k]; !ok {
						frozen[k] = fb[k]
						active = append(active, k)
					}
					tx.Outs = append(tx.Outs, c16Out{K: &[3]uint32{k[0], k[1], uint32(pick(k))}, V: int64(r.Range(1000, 900000))})
					pays++
				}
			case 2:
				tx.Ins = append(tx.Ins, [2]int64{nextForeign, 0})
				nextForeign++
				tx.Outs = append(tx.Outs, c16Out{V: int64(r.Range(1000, 900000))})
			}
			for pos, o := range tx.Outs {
				if o.K != nil {
					utxos = append(utxos, utxo{[2]int64{tx.ID, int64(pos)}, o.V})
				}
			}
			blk.Txs = append(blk.Txs, tx)
		}
		if bi == violateAt {
			// one payment exactly one index beyond the window of this block
			k := active[r.Intn(len(active))]
			if _, ok := frozen[k]; !ok {
				frozen[k] = fb[k]
			}
			beyond := frozen[k] + W
			tx := c16Tx{ID: nextID, Ins: [][2]int64{{nextForeign, 0}}, Outs: []c16Out{}}
			nextID++
			nextForeign++
			if r.Chance(1, 2) {
				// the same block also pays the last index inside the window
				tx.Outs = append(tx.Outs, c16Out{K: &[3]uint32{k[0], k[1], uint32(beyond - 1)}, V: int64(r.Range(1000, 900000))})
				tags = append(tags, "violation_with_window_top_in_same_block")
			}
			tx.Outs = append(tx.Outs, c16Out{K: &[3]uint32{k[0], k[1], uint32(beyond)}, V: int64(r.Range(1000, 900000))})
			if m, ok := blockMax[k]; !ok || beyond > m {
				blockMax[k] = beyond
			}
			for pos, o := range tx.Outs {
				utxos = append(utxos, utxo{[2]int64{tx.ID, int64(pos)}, o.V})
			}
			at := r.Intn(len(blk.Txs) + 1)
			blk.Txs = append(blk.Txs[:at], append([]c16Tx{tx}, blk.Txs[at:]...)...)
			pays++
		}
		if pays > 1 {
			multiPay = true
		}
		for k, m := range blockMax {
			if m+1 > fb[k] {
				fb[k] = m + 1
			}
		}
		in.Blocks = append(in.Blocks, blk)
	}
	// a few irrelevant transactions in otherwise empty blocks
	if r.Chance(1, 3) {
		h := int32(r.Range(1, int(in.Len)))
		if !hs[h] {
			in.Blocks = append(in.Blocks, c16Block{H: h, Txs: []c16Tx{{ID: nextID, Ins: [][2]int64{{nextForeign, 0}},
				Outs: []c16Out{{V: 5000}}}}})
			sort.Slice(in.Blocks, func(i, j int) bool { return in.Blocks[i].H < in.Blocks[j].H })
		}
	}
	// interruption points
	in.Cuts = []int32{}
	if r.Chance(1, 2) {
		for n := r.Range(1, 2); n > 0; n-- {
			var c int32
			switch r.Pick(2, 3, 1) {
			case 0:
				c = int32(r.Range(0, int(in.Len)))
			case 1:
				c = heights[r.Intn(len(heights))] - int32(r.Range(0, 1))
			case 2:
				c = int32(r.Range(1998, 2002))
			}
			if c < 0 {
				c = 0
			}
			if c > in.Len {
				c = in.Len
			}
			in.Cuts = append(in.Cuts, c)
		}
		sort.Slice(in.Cuts, func(i, j int) bool { return in.Cuts[i] < in.Cuts[j] })
		tags = append(tags, "interrupted_and_resumed")
	}
	in.Cuts = append(in.Cuts, in.Len)
	if in.Bday > 0 && in.Cuts[0] < in.Bday {
		// the birthday block must exist when recovery first runs
		in.Cuts[0] = in.Bday
		sort.Slice(in.Cuts, func(i, j int) bool { return in.Cuts[i] < in.Cuts[j] })
	}

	tags = append(tags, fmt.Sprintf("W=%d", in.W))
	if in.Unlocked {
		tags = append(tags, "unlocked")
	} else {
		tags = append(tags, "locked")
	}
	if violate {
		tags = append(tags, "one_index_beyond_window")
	}
	if maxGap == W-1 && W > 1 {
		tags = append(tags, "jump_of_W-1")
	}
	if sameBlockSpend {
		tags = append(tags, "same_block_spend")
	}
	if multiPay {
		tags = append(tags, "several_payments_per_block")
	}
	if spendsN > 0 {
		tags = append(tags, "spends_recovered_output")
	}
	if oldIdx {
		tags = append(tags, "pays_old_index")
	}
	return in, tags
}

func c16GenBirthday(r *gen.R) c16In {
	in := c16In{Kind: "birthday", Blocks: []c16Block{}, Cuts: []int32{}}
	n := r.Pick(1, 2, 4, 4, 2)
	n = []int{0, r.Range(1, 3), r.Range(4, 20), r.Range(21, 120), r.Range(121, 600)}[n]
	t := c16Genesis
	in.Ts = []int64{t}
	mode := r.Intn(4)
	for i := 0; i < n; i++ {
		var dt int64
		switch {
		case mode == 0:
			dt = 600
		case mode == 1:
			dt = int64(r.Pick(3, 5, 1, 1))
			dt = []int64{0, int64(r.Range(1, 1200)), int64(r.Range(7000, 7400)), int64(r.Range(3*3600, 30*86400))}[dt]
		case mode == 2:
			dt = int64(r.Pick(6, 2, 1))
			dt = []int64{0, int64(r.Range(1, 30)), int64(r.Range(7190, 7210))}[dt]
		default:
			dt = int64(r.Range(0, 3600))
		}
		t += dt
		in.Ts = append(in.Ts, t)
	}
	j := r.Intn(len(in.Ts))
	switch r.Pick(1, 1, 4, 2, 2) {
	case 0:
		in.BirthdayTs = c16Genesis - int64(r.Range(1, 20000))
	case 1:
		in.BirthdayTs = t + int64(r.Range(1, 20000))
	case 2:
		in.BirthdayTs = in.Ts[j] + []int64{-7201, -7200, -7199, 7199, 7200, 7201, 0, 1, -1}[r.Intn(9)]
	case 3:
		in.BirthdayTs = c16Genesis + int64(r.Range(0, int(t-c16Genesis)+1))
	case 4:
		in.BirthdayTs = in.Ts[j] + int64(r.Range(-9000, 9000))
	}
	return in
}

func main() {
	core.Main("c16", nil, func(c *core.Common, out *core.Emitter) error {
		defer closeDerivers()
		compute := func(in c16In, tags []string) (*c16Case, error) {
			switch in.Kind {
			case "recovery":
				// watchdog: a recovery that does not come back is reported as
				// such (the goroutine cannot be stopped, so the run ends here)
				type res struct {
					obs  c16Obs
					bad  []string
					site string
					err  error
				}
				ch := make(chan res, 1)
				go func() {
					obs, bad, site, err := c16Recovery(in)
					ch <- res{obs, bad, site, err}
				}()
				var rr res
				select {
				case rr = <-ch:
				case <-time.After(c16Watchdog):
					hangMu.Lock()
					// nothing has been emitted yet in a generated run (results
					// are emitted in order at the end): write the case directly
					b, _ := json.Marshal(c16Case{In: in, Obs: c16Obs{Err: "recovery did not return", Next: []uint32{}, Probes: [][5]int64{},
						Recorded: []int32{}, Unspent: [][3]int64{}}, Oracle: []string{"recovery_does_not_terminate"},
						Tags: append(tags, "watchdog"), Site: "recovery"})
					os.Stdout.Write(append(b, '\n'))
					os.Exit(0)
				}
				obs, bad, site, err := rr.obs, rr.bad, rr.site, rr.err
				if err != nil {
					return nil, err
				}
				oracle := []string{}
				violating := !c16WithinLookahead(in, c16ExpectFrom(in))
				if violating {
					tags = append(tags, "violates_lookahead")
				} else {
					tags = append(tags, "within_lookahead")
				}
				// outside the look-ahead hypothesis the property allows misses:
				// only model = implementation is compared there
				if !violating {
					oracle = append(oracle, bad...)
				} else if len(bad) > 0 {
					tags = append(tags, "violation_caused_a_miss")
				}
				return &c16Case{In: in, Obs: obs, Oracle: oracle, Tags: tags, Site: site}, nil
			case "birthday":
				obs, bad, t2, err := c16Birthday(in)
				if err != nil {
					return nil, err
				}
				return &c16Case{In: in, Obs: obs, Oracle: append([]string{}, bad...), Tags: append(tags, t2...), Site: "locateBirthdayBlock"}, nil
			default:
				return nil, fmt.Errorf("unknown kind %q", in.Kind)
			}
		}
		runOne := func(in c16In, tags []string) error {
			cs, err := compute(in, tags)
			if err != nil {
				return err
			}
			out.Emit(cs)
			return nil
		}
		// runAll computes the cases on a few workers and emits them in order
		type job struct {
			in   c16In
			tags []string
		}
		runAll := func(jobs []job) error {
			res := make([]*c16Case, len(jobs))
			errs := make([]error, len(jobs))
			var wg sync.WaitGroup
			next := make(chan int, len(jobs))
			for i := range jobs {
				next <- i
			}
			close(next)
			for w := 0; w < 6; w++ {
				wg.Add(1)
				go func() {
					defer wg.Done()
					for i := range next {
						res[i], errs[i] = compute(jobs[i].in, jobs[i].tags)
					}
				}()
			}
			wg.Wait()
			for i := range jobs {
				if errs[i] != nil {
					return errs[i]
				}
				out.Emit(res[i])
			}
			return nil
		}
		if c.Replay != "" {
			return core.ReadReplay(c.Replay, func(raw json.RawMessage) error {
				var cs struct {
					In c16In `json:"in"`
				}
				if err := json.Unmarshal(raw, &cs); err != nil {
					return err
				}
				return runOne(cs.In, []string{"replay"})
			})
		}
		r := gen.New(c.Seed, 16)
		var jobs []job
		for i := 0; i < c.N; i++ {
			in, tags := c16GenRecovery(r, i%4 == 3)
			jobs = append(jobs, job{in, tags})
		}
		rb := gen.New(c.Seed, 1016)
		for i := 0; i < 3*c.N; i++ {
			in := c16GenBirthday(rb)
			tags := []string{"birthday_search"}
			if i%12 == 11 {
				in.ViaWallet = true
				in.BirthdayTs += c16Margin48
				tags = append(tags, "birthday_via_wallet")
			}
			jobs = append(jobs, job{in, tags})
		}
		if err := runAll(jobs); err != nil {
			return err
		}
		return nil
	})
}
