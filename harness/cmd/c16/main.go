// Command c16 drives the real wallet recovery against simulated chains built
// from generated address-usage patterns, and the birthday block search
// against generated timestamp sequences.  One JSON object per case on stdout.
//
// Recovery is entered in two ways: through the production start-up (entry
// "sync": Wallet.SynchronizeRPC + a chain.ClientConnected notification, i.e.
// handleChainNotifications -> birthdaySanityCheck -> syncWithChain, which on a
// wallet restored from seed locates the birthday block, stores it as
// synced-to and recovers from the next height), and through the verif hook
// VerifRecovery on a wallet at height 0 (entry "": the window logic alone).
// The backend's FilterBlocks is simchain's loop or the REAL loop of the
// bitcoind / btcd client talking JSON-RPC to the simulated node.
package main

import (
	"crypto/sha256"
	"encoding/binary"
	"encoding/json"
	"errors"
	"fmt"
	"os"
	"sort"
	"sync"
	"sync/atomic"
	"time"

	"github.com/btcsuite/btcd/btcutil"
	"github.com/btcsuite/btcd/chaincfg"
	"github.com/btcsuite/btcd/chaincfg/chainhash"
	"github.com/btcsuite/btcd/txscript"
	"github.com/btcsuite/btcd/wire"
	"github.com/btcsuite/btcwallet/chain"
	"github.com/btcsuite/btcwallet/waddrmgr"
	"github.com/btcsuite/btcwallet/wallet"
	"github.com/btcsuite/btcwallet/walletdb"

	"verifharness/internal/core"
	"verifharness/internal/gen"
	"verifharness/internal/simchain"
	"verifharness/internal/walletenv"
)

// scopes in model order: 0 = BIP44, 1 = BIP49+, 2 = BIP84, 3 = BIP86.
var c16Scopes = []waddrmgr.KeyScope{
	waddrmgr.KeyScopeBIP0044, waddrmgr.KeyScopeBIP0049Plus,
	waddrmgr.KeyScopeBIP0084, waddrmgr.KeyScopeBIP0086,
}

var (
	nsAddr = []byte("waddrmgr")
	nsTx   = []byte("wtxmgr")
)

const (
	c16Genesis  = int64(1600000000) // simchain genesis time
	c16Spacing  = int64(600)        // simchain default block interval
	c16Delta    = int64(7200)       // birthdayBlockDelta
	c16Foreign  = int64(1000000)    // ids at or above: outpoints of transactions outside the case
	c16Margin48 = int64(48 * 3600)  // waddrmgr stores birthday - 48h
)

type c16Out struct {
	K *[3]uint32 `json:"k"` // (scope, branch, index) or null = foreign output
	V int64      `json:"v"`
}

type c16Tx struct {
	ID   int64      `json:"id"`
	Ins  [][2]int64 `json:"ins"` // (tx id, output position)
	Outs []c16Out   `json:"outs"`
}

type c16Block struct {
	H   int32   `json:"h"`
	Txs []c16Tx `json:"txs"`
}

type c16In struct {
	Kind string `json:"kind"` // recovery | birthday
	// recovery
	Seed     int        `json:"seed"`
	W        uint32     `json:"w"`
	Unlocked bool       `json:"unlocked"`
	Len      int32      `json:"len"`
	Blocks   []c16Block `json:"blocks"` // the non-empty blocks, ascending
	Cuts     []int32    `json:"cuts"`   // recovery is run with the chain truncated at each height in turn; last = len
	Bday     int32      `json:"bday"`   // height of the birthday block handed to recovery; -1 = locate it from birthday_ts
	// birthday: block timestamps by height (ts[0] is the genesis time) and the birthday, in seconds
	Ts         []int64 `json:"ts"`
	BirthdayTs int64   `json:"birthday_ts"`
	ViaWallet  bool    `json:"via_wallet"` // birthday_ts is the creation time given to wallet.Create; the search uses Manager.Birthday()
	// recovery: "" = the hook VerifRecovery on a wallet at height 0 with the birthday block bday;
	// "sync" = the production start-up (SynchronizeRPC + ClientConnected) on a wallet restored from seed whose
	// stored birthday is birthday_ts; block timestamps = ts (len+1 values) or, if empty, simchain's grid
	Entry string `json:"entry,omitempty"`
	// "" = simchain's own FilterBlocks loop; "bitcoind" | "btcd" = the real client's FilterBlocks over loopback JSON-RPC
	Backend string `json:"backend,omitempty"`
	// branch: one wallet.BranchRecoveryState with window W driven as expandScopeHorizons / the block
	// filter do: per round the derive loop (child indexes in Invalid fail with ErrInvalidChild), then
	// ReportFound(Found[round]) unless it is -1
	Invalid []uint32 `json:"invalid,omitempty"`
	Found   []int64  `json:"found,omitempty"`
}

// c16BrsOp is one call on the real BranchRecoveryState with what it returned
// and what the state says afterwards.
type c16BrsOp struct {
	Op   int    `json:"op"` // 0 ExtendHorizon, 1 AddAddr, 2 ReportFound, 3 MarkInvalidChild
	Arg  uint32 `json:"arg"`
	R1   uint32 `json:"r1"`
	R2   uint32 `json:"r2"`
	Next uint32 `json:"next"`  // NextUnfound()
	NInv uint32 `json:"ninv"`  // NumInvalidInHorizon()
	NAdr int    `json:"naddr"` // len(Addrs())
}

type c16Obs struct {
	Err         string     `json:"err"`
	BatchSize   int        `json:"batch_size"`
	InitZero    bool       `json:"init_zero"` // all key counts 0 before recovery
	BdayUsed    int32      `json:"bday_used"` // birthday block height handed to recovery
	Next        []uint32   `json:"next"`      // external, internal key count per scope (8 values)
	Probes      [][5]int64 `json:"probes"`    // scope, branch, index, present, used
	Recorded    []int32    `json:"recorded"`  // per transaction of the case (in order): block height of its record, -1 = not recorded
	Balance     int64      `json:"balance"`
	Unspent     [][3]int64 `json:"unspent"` // (tx id, position, value), sorted
	Synced      int32      `json:"synced"`
	FilterCalls int        `json:"filter_calls"` // FilterBlocks requests made by the wallet
	// birthday
	Height    int32 `json:"height"`
	SearchFor int64 `json:"search_for"` // the timestamp handed to the search
	// branch
	Brs []c16BrsOp `json:"brs,omitempty"`
}

// c16Branch drives one real BranchRecoveryState the way the wallet does and
// judges the look-ahead after every derive loop: at least W VALID child
// indexes at or above NextUnfound() have an address.
func c16Branch(in c16In) (c16Obs, []string, []string) {
	obs := c16Obs{Next: []uint32{}, Probes: [][5]int64{}, Recorded: []int32{}, Unspent: [][3]int64{}}
	brs := wallet.NewBranchRecoveryState(in.W)
	invalid := map[uint32]bool{}
	for _, i := range in.Invalid {
		invalid[i] = true
	}
	rec := func(op int, arg, r1, r2 uint32) {
		obs.Brs = append(obs.Brs, c16BrsOp{Op: op, Arg: arg, R1: r1, R2: r2, Next: brs.NextUnfound(),
			NInv: brs.NumInvalidInHorizon(), NAdr: len(brs.Addrs())})
	}
	bad := map[string]bool{}
	tags := map[string]bool{"branch_state": true}
	for _, f := range in.Found {
		horizon, window := brs.ExtendHorizon()
		rec(0, 0, horizon, window)
		count, child := uint32(0), horizon
		for count < window {
			if invalid[child] {
				brs.MarkInvalidChild(child)
				rec(3, child, 0, 0)
				tags["invalid_child"] = true
				if child == brs.NextUnfound() {
					tags["invalid_child_at_next_unfound"] = true
				}
				child++
				continue
			}
			brs.AddAddr(child, nil)
			rec(1, child, 0, 0)
			child++
			count++
		}
		// the property's look-ahead: W valid addresses from NextUnfound() on
		valid := uint32(0)
		for idx := range brs.Addrs() {
			if idx >= brs.NextUnfound() && !invalid[idx] {
				valid++
			}
		}
		if valid < in.W {
			bad["lookahead_holds_fewer_than_window_valid_addresses"] = true
		}
		if f >= 0 {
			brs.ReportFound(uint32(f))
			rec(2, uint32(f), 0, 0)
		}
	}
	var bl, tl []string
	for k := range bad {
		bl = append(bl, k)
	}
	for k := range tags {
		tl = append(tl, k)
	}
	sort.Strings(bl)
	sort.Strings(tl)
	return obs, bl, tl
}

func c16GenBranch(r *gen.R) c16In {
	in := c16In{Kind: "branch", Blocks: []c16Block{}, Cuts: []int32{}}
	in.W = []uint32{1, 2, 3, 5, 20}[r.Intn(5)]
	rounds := r.Range(2, 10)
	// which child indexes are invalid: sparse, clustered or at chosen places
	dens := []int{0, 8, 4, 2}[r.Intn(4)]
	next := uint32(0)
	for i := 0; i < rounds; i++ {
		// the index found this round: a valid index inside the current look-ahead
		// (the block filter can only match an address that was derived)
		f := int64(-1)
		if r.Intn(5) != 0 {
			f = int64(next) + int64(r.Intn(int(in.W)))
		}
		in.Found = append(in.Found, f)
		if f >= int64(next) {
			next = uint32(f) + 1
		}
		// invalid children near the new nextUnfound (incl. exactly at it)
		if dens > 0 {
			for d := uint32(0); d < in.W+3; d++ {
				if r.Intn(dens) == 0 {
					in.Invalid = append(in.Invalid, next+d)
				}
			}
		}
		if r.Intn(4) == 0 {
			in.Invalid = append(in.Invalid, next)
		}
	}
	// an index reported found must have been derivable: drop it from the invalid set
	keep := in.Invalid[:0]
	for _, x := range in.Invalid {
		ok := true
		for _, f := range in.Found {
			if f == int64(x) {
				ok = false
			}
		}
		if ok {
			keep = append(keep, x)
		}
	}
	in.Invalid = keep
	return in
}

type c16Case struct {
	In     c16In    `json:"in"`
	Obs    c16Obs   `json:"obs"`
	Oracle []string `json:"oracle"`
	Tags   []string `json:"tags"`
	Site   string   `json:"site"`
	Ms     int64    `json:"ms"` // wall time of the case
}

func c16SeedBytes(id int) []byte {
	h := sha256.Sum256([]byte(fmt.Sprintf("c16-seed-%d", id)))
	return h[:]
}

// ---------------------------------------------------------------- addresses

// deriver derives wallet addresses of a seed through a separate ("original")
// wallet that never sees the chain.
type deriver struct {
	mu    sync.Mutex
	env   *walletenv.Env
	cache map[[3]uint32]btcutil.Address
}

var hangMu sync.Mutex

// c16Watchdog bounds one recovery case (a normal one takes well under a second).
const c16Watchdog = 90 * time.Second

var (
	derivers   = map[int]*deriver{}
	deriversMu sync.Mutex
)

func getDeriver(seed int) (*deriver, error) {
	deriversMu.Lock()
	defer deriversMu.Unlock()
	if d, ok := derivers[seed]; ok {
		return d, nil
	}
	env, err := walletenv.New(c16SeedBytes(seed), time.Unix(c16Genesis-1000000, 0), 0, nil)
	if err != nil {
		return nil, err
	}
	d := &deriver{env: env, cache: map[[3]uint32]btcutil.Address{}}
	derivers[seed] = d
	return d, nil
}

func (d *deriver) addr(k [3]uint32) (btcutil.Address, error) {
	d.mu.Lock()
	defer d.mu.Unlock()
	if a, ok := d.cache[k]; ok {
		return a, nil
	}
	mgr, err := d.env.W.Manager.FetchScopedKeyManager(c16Scopes[k[0]])
	if err != nil {
		return nil, err
	}
	var a btcutil.Address
	err = walletdb.View(d.env.DB, func(tx walletdb.ReadTx) error {
		ns := tx.ReadBucket(nsAddr)
		ma, err := mgr.DeriveFromKeyPath(ns, waddrmgr.DerivationPath{
			InternalAccount: waddrmgr.DefaultAccountNum,
			Account:         waddrmgr.DefaultAccountNum,
			Branch:          k[1],
			Index:           k[2],
		})
		if err != nil {
			return err
		}
		a = ma.Address()
		return nil
	})
	if err != nil {
		return nil, err
	}
	d.cache[k] = a
	return a, nil
}

func closeDerivers() {
	for _, d := range derivers {
		d.env.Close()
	}
}

// ---------------------------------------------------------------- running

var foreignScript = func() []byte {
	h := sha256.Sum256([]byte("c16-foreign"))
	a, err := btcutil.NewAddressPubKeyHash(h[:20], &chaincfg.RegressionNetParams)
	if err != nil {
		panic(err)
	}
	s, err := txscript.PayToAddrScript(a)
	if err != nil {
		panic(err)
	}
	return s
}()

func foreignHash(id int64) chainhash.Hash {
	var b [8]byte
	binary.BigEndian.PutUint64(b[:], uint64(id))
	return chainhash.Hash(sha256.Sum256(append([]byte("c16-foreign-tx"), b[:]...)))
}

type walletOut struct {
	tx    int64
	pos   uint32
	key   [3]uint32
	val   int64
	h     int32
	spent bool
	// the property promises its discovery (false: an output in a block the
	// wallet need not scan, counted only because the wallet credited it)
	promised bool
}

// c16SyncTimeout bounds one production start-up.
const c16SyncTimeout = 60 * time.Second

var errFilterLoop = errors.New("recovery does not advance: FilterBlocks called more often than blocks and batches allow")

// guarded counts the FilterBlocks calls of one case and refuses once they
// exceed what any terminating recovery of the case can need.
type guarded struct {
	chain.Interface
	limit   int
	calls   int64
	tripped int32
}

func (g *guarded) FilterBlocks(req *chain.FilterBlocksRequest) (*chain.FilterBlocksResponse, error) {
	if atomic.AddInt64(&g.calls, 1) > int64(g.limit) {
		atomic.StoreInt32(&g.tripped, 1)
		return nil, errFilterLoop
	}
	return g.Interface.FilterBlocks(req)
}

func (g *guarded) isTripped() bool { return atomic.LoadInt32(&g.tripped) == 1 }
func (g *guarded) count() int      { return int(atomic.LoadInt64(&g.calls)) }

// c16Recovery builds the chain, runs recovery on a fresh wallet and observes.
func c16Recovery(in c16In) (c16Obs, []string, string, error) {
	obs := c16Obs{BatchSize: wallet.VerifRecoveryBatchSize, Next: []uint32{}, Probes: [][5]int64{},
		Recorded: []int32{}, Unspent: [][3]int64{}}
	d, err := getDeriver(in.Seed)
	if err != nil {
		return obs, nil, "", err
	}
	params := &chaincfg.RegressionNetParams

	// real transactions
	hashes := map[int64]chainhash.Hash{}
	ids := map[chainhash.Hash]int64{}
	var order []int64
	byHeight := map[int32][]*wire.MsgTx{}
	for _, b := range in.Blocks {
		for _, t := range b.Txs {
			m := wire.NewMsgTx(2)
			for _, i := range t.Ins {
				var h chainhash.Hash
				if i[0] >= c16Foreign {
					h = foreignHash(i[0])
				} else {
					hh, ok := hashes[i[0]]
					if !ok {
						h = foreignHash(i[0]) // spends a transaction that does not precede it
					} else {
						h = hh
					}
				}
				m.AddTxIn(wire.NewTxIn(wire.NewOutPoint(&h, uint32(i[1])), nil, nil))
			}
			for _, o := range t.Outs {
				script := foreignScript
				if o.K != nil {
					a, err := d.addr(*o.K)
					if err != nil {
						return obs, nil, "", err
					}
					script, err = txscript.PayToAddrScript(a)
					if err != nil {
						return obs, nil, "", err
					}
				}
				m.AddTxOut(wire.NewTxOut(o.V, script))
			}
			m.LockTime = uint32(t.ID) // distinct hashes
			h := m.TxHash()
			hashes[t.ID] = h
			ids[h] = t.ID
			order = append(order, t.ID)
			byHeight[b.H] = append(byHeight[b.H], m)
		}
	}

	// fresh wallet restored from the same seed
	sync_ := in.Entry == "sync"
	creation := time.Unix(c16Genesis-1000000, 0)
	if in.Bday < 0 || sync_ {
		creation = time.Unix(in.BirthdayTs+c16Margin48, 0) // stored birthday = birthday_ts
	}
	env, err := walletenv.New(c16SeedBytes(in.Seed), creation, in.W, nil)
	if err != nil {
		return obs, nil, "", err
	}
	defer env.Close()
	sc := simchain.New(params)
	var backend chain.Interface = sc
	if in.Backend != "" {
		rl, err := sc.WithRealFilterBlocks(in.Backend)
		if err != nil {
			return obs, nil, "", err
		}
		defer rl.Close()
		backend = rl
	}
	// a recovery that asks for more filter runs than blocks and batches can
	// account for is not advancing: the backend then refuses
	g := &guarded{Interface: backend,
		limit: 2*len(in.Blocks) + int(in.Len)/500 + 4*len(in.Cuts) + 16}
	extend := func(to int32) {
		for sc.Tip().Height < to {
			h := sc.Tip().Height + 1
			var ts *time.Time
			if len(in.Ts) > int(h) {
				t := time.Unix(in.Ts[h], 0)
				ts = &t
			}
			sc.Extend(byHeight[h], ts)
		}
	}

	obs.InitZero = true
	for _, s := range c16Scopes {
		p, err := env.W.AccountProperties(s, 0)
		if err != nil {
			return obs, nil, "", err
		}
		if p.ExternalKeyCount != 0 || p.InternalKeyCount != 0 {
			obs.InitZero = false
		}
	}

	var stamp *waddrmgr.BlockStamp
	first := true
	for _, cut := range in.Cuts {
		extend(cut)
		if !first {
			if err := env.Reopen(in.W, nil); err != nil {
				return obs, nil, "", err
			}
			// notifications left over from the previous start
			for drained := false; !drained; {
				select {
				case <-sc.Notifications():
				default:
					drained = true
				}
			}
		}
		if in.Unlocked {
			if err := env.W.Unlock(walletenv.PrivPass, nil); err != nil {
				return obs, nil, "", err
			}
		}
		if sync_ {
			// the production entry: attach the backend and announce the
			// connection; handleChainNotifications does the rest
			env.W.SynchronizeRPC(g)
			sc.Notify(chain.ClientConnected{})
			deadline := time.Now().Add(c16SyncTimeout)
			for !env.W.ChainSynced() && !g.isTripped() {
				if time.Now().After(deadline) {
					obs.Err = "start-up synchronisation did not complete"
					break
				}
				time.Sleep(200 * time.Microsecond)
			}
			if g.isTripped() {
				obs.Err = errFilterLoop.Error()
			}
			if first {
				err := walletdb.View(env.DB, func(tx walletdb.ReadTx) error {
					bs, _, err := env.W.Manager.BirthdayBlock(tx.ReadBucket(nsAddr))
					if err != nil {
						return err
					}
					obs.BdayUsed = bs.Height
					return nil
				})
				if err != nil && obs.Err == "" {
					obs.Err = "no birthday block stored by the first start: " + err.Error()
				}
			}
			first = false
			if obs.Err != "" {
				break
			}
			continue
		}
		first = false
		env.W.VerifSetChainClient(g)
		if stamp == nil {
			if in.Bday < 0 {
				stamp, err = wallet.VerifLocateBirthdayBlock(sc, env.W.Manager.Birthday())
				if err != nil {
					return obs, nil, "", err
				}
			} else {
				b := sc.At(in.Bday)
				if b == nil {
					b = sc.At(0)
				}
				stamp = &waddrmgr.BlockStamp{Height: in.Bday, Hash: b.Hash, Timestamp: b.Time}
			}
			obs.BdayUsed = stamp.Height
		}
		if err := env.W.VerifRecovery(g, stamp); err != nil {
			obs.Err = err.Error()
			break
		}
	}
	obs.FilterCalls = g.count()

	// ---- observe
	w := env.W
	for _, s := range c16Scopes {
		p, err := w.AccountProperties(s, 0)
		if err != nil {
			return obs, nil, "", err
		}
		obs.Next = append(obs.Next, p.ExternalKeyCount, p.InternalKeyCount)
	}
	bal, err := w.CalculateBalance(1)
	if err != nil {
		return obs, nil, "", err
	}
	obs.Balance = int64(bal)
	obs.Synced = w.Manager.SyncedTo().Height

	// the first block whose payments the property promises to recover
	scanFrom := c16ExpectFrom(in)
	maxPaid := map[[2]uint32]int64{}
	for _, b := range in.Blocks {
		if b.H < scanFrom || b.H > in.Len {
			continue // not promised / not on the chain
		}
		for _, t := range b.Txs {
			for _, o := range t.Outs {
				if o.K == nil {
					continue
				}
				bk := [2]uint32{o.K[0], o.K[1]}
				if cur, ok := maxPaid[bk]; !ok || int64(o.K[2]) > cur {
					maxPaid[bk] = int64(o.K[2])
				}
			}
		}
	}

	// probes: every paid path, the next three indices of each paid branch, index 0 of every branch
	probeSet := map[[3]uint32]bool{}
	for _, b := range in.Blocks {
		for _, t := range b.Txs {
			for _, o := range t.Outs {
				if o.K != nil {
					probeSet[*o.K] = true
				}
			}
		}
	}
	for bk, m := range maxPaid {
		for j := int64(1); j <= 3; j++ {
			probeSet[[3]uint32{bk[0], bk[1], uint32(m + j)}] = true
		}
	}
	for s := uint32(0); s < 4; s++ {
		for b := uint32(0); b < 2; b++ {
			probeSet[[3]uint32{s, b, 0}] = true
		}
	}
	var probes [][3]uint32
	for k := range probeSet {
		probes = append(probes, k)
	}
	sort.Slice(probes, func(i, j int) bool {
		a, b := probes[i], probes[j]
		if a[0] != b[0] {
			return a[0] < b[0]
		}
		if a[1] != b[1] {
			return a[1] < b[1]
		}
		return a[2] < b[2]
	})
	present := map[[3]uint32]bool{}
	used := map[[3]uint32]bool{}
	type det struct {
		height  int32
		credits map[uint32]bool
		debits  map[uint32]bool
	}
	details := map[int64]*det{}
	err = walletdb.View(env.DB, func(tx walletdb.ReadTx) error {
		ans := tx.ReadBucket(nsAddr)
		tns := tx.ReadBucket(nsTx)
		for _, k := range probes {
			a, err := d.addr(k)
			if err != nil {
				return err
			}
			ma, err := w.Manager.Address(ans, a)
			if err != nil {
				if waddrmgr.IsError(err, waddrmgr.ErrAddressNotFound) {
					continue
				}
				return err
			}
			present[k] = true
			used[k] = ma.Used(ans)
		}
		for _, id := range order {
			h := hashes[id]
			dd, err := w.TxStore.TxDetails(tns, &h)
			if err != nil {
				return err
			}
			if dd == nil {
				continue
			}
			x := &det{height: dd.Block.Height, credits: map[uint32]bool{}, debits: map[uint32]bool{}}
			for _, c := range dd.Credits {
				x.credits[c.Index] = true
			}
			for _, c := range dd.Debits {
				x.debits[c.Index] = true
			}
			details[id] = x
		}
		creds, err := w.TxStore.UnspentOutputs(tns)
		if err != nil {
			return err
		}
		for _, c := range creds {
			id, ok := ids[c.OutPoint.Hash]
			if !ok {
				id = -1
			}
			obs.Unspent = append(obs.Unspent, [3]int64{id, int64(c.OutPoint.Index), int64(c.Amount)})
		}
		return nil
	})
	if err != nil {
		return obs, nil, "", err
	}
	sort.Slice(obs.Unspent, func(i, j int) bool {
		a, b := obs.Unspent[i], obs.Unspent[j]
		if a[0] != b[0] {
			return a[0] < b[0]
		}
		return a[1] < b[1]
	})
	b2i := func(b bool) int64 {
		if b {
			return 1
		}
		return 0
	}
	for _, k := range probes {
		obs.Probes = append(obs.Probes, [5]int64{int64(k[0]), int64(k[1]), int64(k[2]), b2i(present[k]), b2i(used[k])})
	}
	for _, id := range order {
		if x, ok := details[id]; ok {
			obs.Recorded = append(obs.Recorded, x.height)
		} else {
			obs.Recorded = append(obs.Recorded, -1)
		}
	}

	// harness' own ledger of what it paid.  Promised: every payment from
	// block scanFrom on.  With the production entry the wallet may also have
	// scanned earlier blocks (after its birthday block, stamped within the
	// search's two-hour tolerance): an output there is not promised, but if
	// the wallet did credit it, it belongs to the balance and its spend must
	// be seen.
	var outs []*walletOut
	byOp := map[[2]int64]*walletOut{}
	type spendRef struct {
		tx  int64
		inp int
	}
	var spends []spendRef
	for _, b := range in.Blocks {
		if b.H < 1 || b.H > in.Len {
			continue // not on the chain
		}
		promised := b.H >= scanFrom
		if !promised && in.Entry != "sync" {
			continue // not scanned
		}
		for _, t := range b.Txs {
			for n, i := range t.Ins {
				if o, ok := byOp[[2]int64{i[0], i[1]}]; ok && !o.spent {
					o.spent = true
					spends = append(spends, spendRef{t.ID, n})
				}
			}
			for pos, o := range t.Outs {
				if o.K == nil {
					continue
				}
				if !promised {
					if x := details[t.ID]; x == nil || !x.credits[uint32(pos)] {
						continue
					}
				}
				wo := &walletOut{tx: t.ID, pos: uint32(pos), key: *o.K, val: o.V, h: b.H, promised: promised}
				outs = append(outs, wo)
				byOp[[2]int64{t.ID, int64(pos)}] = wo
			}
		}
	}

	// ---- oracle: the property, against what the harness itself paid
	var bad []string
	site := ""
	add := func(kind, s string) {
		for _, k := range bad {
			if k == kind {
				return
			}
		}
		bad = append(bad, kind)
		if site == "" {
			site = s
		}
	}
	bname := []string{"external", "internal"}
	sname := []string{"bip44", "bip49", "bip84", "bip86"}
	if obs.Err == errFilterLoop.Error() {
		add("recovery_does_not_terminate", "recovery")
	} else if obs.Err != "" {
		add("recovery_failed", "recovery")
	}
	var want int64
	if sync_ && obs.Err == "" {
		// the block scanning starts from (the one after the stored birthday
		// block) must not be later than the first block that could pay
		if scanFrom <= in.Len && obs.BdayUsed+1 > scanFrom {
			add("birthday_block_too_late", "syncWithChain")
		}
	}
	for _, o := range outs {
		st := sname[o.key[0]] + "/" + bname[o.key[1]]
		if o.promised {
			if !present[o.key] || !used[o.key] {
				add("used_address_not_discovered", st)
			}
			x := details[o.tx]
			if x == nil || !x.credits[o.pos] || x.height != o.h {
				add("payment_not_recorded", st)
			}
		}
		if !o.spent {
			want += o.val
		}
	}
	for _, s := range spends {
		x := details[s.tx]
		if x == nil || !x.debits[uint32(s.inp)] {
			add("spend_not_recorded", "spend")
		}
	}
	if obs.Balance != want {
		add("wrong_balance_after_recovery", "balance")
	}
	for bk, m := range maxPaid {
		n := int64(obs.Next[2*bk[0]+bk[1]])
		if n <= m {
			add("next_index_not_above_highest_used", sname[bk[0]]+"/"+bname[bk[1]])
		}
	}
	return obs, bad, site, nil
}

// c16Birthday runs the birthday block search over a chain with the given
// timestamps.
func c16Birthday(in c16In) (c16Obs, []string, []string, error) {
	obs := c16Obs{Next: []uint32{}, Probes: [][5]int64{}, Recorded: []int32{}, Unspent: [][3]int64{}}
	sc := simchain.New(&chaincfg.RegressionNetParams)
	for _, t := range in.Ts[1:] {
		tt := time.Unix(t, 0)
		sc.Extend(nil, &tt)
	}
	search := time.Unix(in.BirthdayTs, 0)
	if in.ViaWallet {
		env, err := walletenv.New(c16SeedBytes(in.Seed), time.Unix(in.BirthdayTs, 0), 0, nil)
		if err != nil {
			return obs, nil, nil, err
		}
		search = env.W.Manager.Birthday()
		env.Close()
	}
	obs.SearchFor = search.Unix()
	st, err := wallet.VerifLocateBirthdayBlock(sc, search)
	if err != nil {
		obs.Err = err.Error()
		return obs, []string{"birthday_search_failed"}, nil, nil
	}
	obs.Height = st.Height
	var bad, tags []string
	// A block that could pay the wallet is stamped later than the searched
	// birthday plus the two-hour tolerance (for a wallet, the searched
	// birthday is the creation time minus 48 hours, so this covers every
	// block stamped later than creation - 46h).
	strict := false
	for h := int32(0); h < st.Height; h++ {
		if in.Ts[h] > obs.SearchFor+c16Delta {
			bad = []string{"birthday_block_too_late"}
		}
		if in.Ts[h] > obs.SearchFor {
			strict = true
		}
	}
	if in.ViaWallet {
		for h := int32(0); h < st.Height; h++ {
			if in.Ts[h] >= in.BirthdayTs-c16Delta {
				bad = []string{"birthday_block_too_late"}
			}
		}
	}
	if strict {
		tags = append(tags, "later_than_first_block_after_birthday")
	}
	switch {
	case st.Height == 0:
		tags = append(tags, "result_genesis")
	case int(st.Height) == len(in.Ts)-1:
		tags = append(tags, "result_tip")
	default:
		tags = append(tags, "result_inner")
	}
	return obs, bad, tags, nil
}

// c16ExpectFrom is the height of the first block whose payments the property
// expects to be recovered.
func c16ExpectFrom(in c16In) int32 {
	if in.Entry == "sync" {
		// production entry: the first block after genesis stamped later
		// than the stored birthday + 2h (len+1 if there is none)
		for h := int32(1); h <= in.Len; h++ {
			if c16TsAt(in, h) > in.BirthdayTs+c16Delta {
				return h
			}
		}
		return in.Len + 1
	}
	if in.Bday < 0 {
		return 0
	}
	return in.Bday
}

// c16TsAt is the timestamp of the block at a height.
func c16TsAt(in c16In, h int32) int64 {
	if len(in.Ts) > int(h) {
		return in.Ts[h]
	}
	return c16Genesis + int64(h)*c16Spacing
}

// c16Aim is the harness' own copy of the search, used only to aim generated
// payments at the blocks around its result (never by the oracle).
func c16Aim(in c16In, best int32) int32 {
	left, right := int32(0), best
	for {
		mid := left + (right-left)/2
		if mid == 0 || mid == best || mid == left {
			return mid
		}
		d := c16TsAt(in, mid) - in.BirthdayTs
		if d > c16Delta {
			right = mid
			continue
		}
		if d < -c16Delta {
			left = mid
			continue
		}
		return mid
	}
}

// c16WithinLookahead decides the property's hypothesis on the input itself:
// in every scanned block, every paid index is below (1 + highest index paid
// on that branch in earlier scanned blocks, or 0) + W.
func c16WithinLookahead(in c16In, scanFrom int32) bool {
	fb := map[[2]uint32]int64{}
	for _, b := range in.Blocks {
		if b.H < scanFrom || b.H > in.Len {
			continue
		}
		bm := map[[2]uint32]int64{}
		for _, t := range b.Txs {
			for _, o := range t.Outs {
				if o.K == nil {
					continue
				}
				k := [2]uint32{o.K[0], o.K[1]}
				if int64(o.K[2]) >= fb[k]+int64(in.W) {
					return false
				}
				if m, ok := bm[k]; !ok || int64(o.K[2]) > m {
					bm[k] = int64(o.K[2])
				}
			}
		}
		for k, m := range bm {
			if m+1 > fb[k] {
				fb[k] = m + 1
			}
		}
	}
	return true
}

// ---------------------------------------------------------------- generators

type bk = [2]uint32

func c16GenRecovery(r *gen.R, long bool) (c16In, []string) {
	in := c16In{Kind: "recovery", Seed: r.Intn(6), Blocks: []c16Block{}}
	var tags []string
	in.W = []uint32{1, 2, 5, 20}[r.Intn(4)]
	in.Unlocked = r.Chance(1, 2)
	W := int64(in.W)
	if long {
		in.Len = int32(r.Range(2001, 2300))
		tags = append(tags, "crosses_batch_boundary")
	} else {
		in.Len = int32(r.Range(3, 60))
	}
	// how recovery is entered, and the birthday block
	first := int32(1)       // lowest height the pattern below pays at
	boundary := int32(2000) // last block of the first batch
	var hot []int32         // heights that get activity for sure
	c0 := in.Len            // chain length at the first start
	switch r.Pick(4, 1, 7) {
	case 0:
		in.Bday = 0
		tags = append(tags, "entry_hook")
	case 1:
		// the hook with a birthday block above the wallet's height: blocks
		// below it are looked at but not filtered; payments start after it
		in.Bday = int32(r.Range(1, int(in.Len)/2+1))
		first = in.Bday + 1
		boundary = in.Bday + 2000
		tags = append(tags, "entry_hook", "explicit_birthday_block")
	case 2:
		in.Entry = "sync"
		in.Bday = -1
		tags = append(tags, "entry_sync")
		if r.Chance(1, 2) {
			c0 = int32(r.Range(0, int(in.Len)))
		}
		gmax := int(in.Len) / 2
		if gmax > 60 {
			gmax = 60
		}
		g := int64(r.Range(0, gmax)) // the block the search is meant to end at
		switch r.Pick(3, 3, 3) {
		case 0:
			// default grid: the search ends somewhere within 2h of the birthday
			in.BirthdayTs = c16Genesis + g*c16Spacing + int64(r.Range(-600, 600))
			tags = append(tags, "ts_grid")
		case 1:
			// a gap: blocks up to g are stamped more than 2h before the
			// birthday, blocks after g more than 2h after it
			in.Ts = make([]int64, in.Len+1)
			for h := int64(0); h <= g; h++ {
				in.Ts[h] = c16Genesis + h*c16Spacing
			}
			in.BirthdayTs = in.Ts[g] + c16Delta + int64(r.Range(1, 5000))
			t := in.BirthdayTs + c16Delta + int64(r.Range(1, 3000))
			for h := g + 1; h <= int64(in.Len); h++ {
				in.Ts[h] = t
				t += int64(r.Pick(1, 4)) * c16Spacing
			}
			tags = append(tags, "ts_gap_around_birthday")
		case 2:
			// block g is the only one within 2h of the birthday
			in.Ts = make([]int64, in.Len+1)
			for h := int64(0); h < g; h++ {
				in.Ts[h] = c16Genesis + h*c16Spacing
			}
			in.Ts[g] = c16Genesis + g*c16Spacing
			if g > 0 {
				in.Ts[g] += 30000
			}
			in.BirthdayTs = in.Ts[g] + []int64{-7200, -7199, -1, 0, 1, 7199, 7200, int64(r.Range(-7200, 7200))}[r.Intn(8)]
			t := in.Ts[g]
			if in.BirthdayTs > t {
				t = in.BirthdayTs
			}
			t += c16Delta + int64(r.Range(1, 3000))
			for h := g + 1; h <= int64(in.Len); h++ {
				in.Ts[h] = t
				t += int64(r.Pick(1, 4)) * c16Spacing
			}
			tags = append(tags, "ts_single_block_in_tolerance")
		}
		payable := c16ExpectFrom(in) // first block stamped later than birthday + 2h
		aim := c16Aim(in, c0)        // where the first start's search ends
		first = payable
		switch r.Pick(5, 2, 1) {
		case 1:
			// the history begins right after the birthday block, inside the
			// search's tolerance: found, though not promised
			if aim+1 < first {
				first = aim + 1
				tags = append(tags, "history_starts_in_tolerance_zone")
			}
		case 2:
			// ... or in the birthday block itself, which is never scanned
			if aim >= 1 && aim < first {
				first = aim
				tags = append(tags, "history_starts_in_birthday_block")
			}
		}
		if first > in.Len {
			first = in.Len
		}
		if first < 1 {
			first = 1
		}
		hot = append(hot, first)
		if payable <= in.Len && r.Chance(2, 3) {
			hot = append(hot, payable)
		}
		if aim+1 == payable {
			tags = append(tags, "first_payable_block_right_after_birthday_block")
		}
		boundary = aim + 2000
		// the real loops cost a JSON-RPC round trip per block: on the long
		// chains they are used less often
		wsim := 4
		if long {
			wsim = 14
		}
		switch r.Pick(wsim, 3, 3) {
		case 1:
			in.Backend = "bitcoind"
		case 2:
			in.Backend = "btcd"
		}
		if in.Backend != "" {
			tags = append(tags, "real_filterblocks_loop_"+in.Backend)
		} else {
			tags = append(tags, "simulated_filterblocks_loop")
		}
	}
	if first > in.Len {
		first = in.Len
	}
	// active blocks
	nact := r.Range(1, 10)
	hs := map[int32]bool{}
	for _, h := range hot {
		hs[h] = true
	}
	for i := 0; i < nact; i++ {
		h := int32(r.Range(int(first), int(in.Len)))
		if long && r.Chance(1, 3) {
			h = boundary + int32(r.Range(-3, 3))
			if h < first {
				h = first
			}
			if h > in.Len {
				h = in.Len
			}
		}
		hs[h] = true
	}
	var heights []int32
	for h := range hs {
		heights = append(heights, h)
	}
	sort.Slice(heights, func(i, j int) bool { return heights[i] < heights[j] })
	for _, h := range heights {
		if h == boundary || h == boundary+1 {
			tags = append(tags, "activity_at_first_batch_boundary")
			break
		}
	}

	// active branches
	var active []bk
	for len(active) == 0 {
		for s := uint32(0); s < 4; s++ {
			for b := uint32(0); b < 2; b++ {
				if r.Chance(1, 3) {
					active = append(active, bk{s, b})
				}
			}
		}
	}
	violate := r.Chance(1, 5)
	violateAt := -1
	if violate {
		violateAt = r.Intn(len(heights))
	}
	fb := map[bk]int64{} // 1 + highest index paid in earlier blocks
	nextID := int64(1)
	nextForeign := c16Foreign
	type utxo struct {
		op  [2]int64
		val int64
	}
	var utxos []utxo
	maxGap := int64(0)
	sameBlockSpend, multiPay, spendsN, oldIdx := false, false, 0, false
	for bi, h := range heights {
		blk := c16Block{H: h}
		frozen := map[bk]int64{}
		for _, k := range active {
			frozen[k] = fb[k]
		}
		blockMax := map[bk]int64{}
		pick := func(k bk) int64 {
			lo, hi := frozen[k], frozen[k]+W-1
			var i int64
			switch r.Pick(3, 3, 2, 1) {
			case 0:
				i = hi
			case 1:
				i = lo
			case 2:
				i = int64(r.Range(int(lo), int(hi)))
			case 3:
				if lo > 0 {
					i = int64(r.Range(0, int(lo-1)))
					oldIdx = true
				} else {
					i = lo
				}
			}
			if i-lo > maxGap {
				maxGap = i - lo
			}
			if m, ok := blockMax[k]; !ok || i > m {
				blockMax[k] = i
			}
			return i
		}
		ntx := r.Range(1, 4)
		pays := 0
		for t := 0; t < ntx; t++ {
			tx := c16Tx{ID: nextID, Ins: [][2]int64{}, Outs: []c16Out{}}
			nextID++
			kind := r.Pick(5, 3, 1) // pay | spend | irrelevant
			if kind == 1 && len(utxos) == 0 {
				kind = 0
			}
			switch kind {
			case 0:
				tx.Ins = append(tx.Ins, [2]int64{nextForeign, 0})
				nextForeign++
				for n := r.Range(1, 3); n > 0; n-- {
					k := active[r.Intn(len(active))]
					tx.Outs = append(tx.Outs, c16Out{K: &[3]uint32{k[0], k[1], uint32(pick(k))}, V: int64(r.Range(1000, 900000))})
					pays++
				}
				if r.Chance(1, 2) {
					tx.Outs = append(tx.Outs, c16Out{V: int64(r.Range(1000, 900000))})
				}
			case 1:
				for n := r.Range(1, 2); n > 0 && len(utxos) > 0; n-- {
					j := r.Intn(len(utxos))
					tx.Ins = append(tx.Ins, utxos[j].op)
					for _, b2 := range blk.Txs {
						if b2.ID == utxos[j].op[0] {
							sameBlockSpend = true
						}
					}
					utxos = append(utxos[:j], utxos[j+1:]...)
					spendsN++
				}
				if r.Chance(1, 3) {
					tx.Ins = append(tx.Ins, [2]int64{nextForeign, 0})
					nextForeign++
				}
				tx.Outs = append(tx.Outs, c16Out{V: int64(r.Range(1000, 900000))})
				if r.Chance(1, 2) {
					// change to an internal branch (within the window)
					s := uint32(r.Intn(4))
					k := bk{s, 1}
					if _, ok := frozen[k]; !ok {
						frozen[k] = fb[k]
						active = append(active, k)
					}
					tx.Outs = append(tx.Outs, c16Out{K: &[3]uint32{k[0], k[1], uint32(pick(k))}, V: int64(r.Range(1000, 900000))})
					pays++
				}
			case 2:
				tx.Ins = append(tx.Ins, [2]int64{nextForeign, 0})
				nextForeign++
				tx.Outs = append(tx.Outs, c16Out{V: int64(r.Range(1000, 900000))})
			}
			for pos, o := range tx.Outs {
				if o.K != nil {
					utxos = append(utxos, utxo{[2]int64{tx.ID, int64(pos)}, o.V})
				}
			}
			blk.Txs = append(blk.Txs, tx)
		}
		if bi == violateAt {
			// one payment exactly one index beyond the window of this block
			k := active[r.Intn(len(active))]
			if _, ok := frozen[k]; !ok {
				frozen[k] = fb[k]
			}
			beyond := frozen[k] + W
			tx := c16Tx{ID: nextID, Ins: [][2]int64{{nextForeign, 0}}, Outs: []c16Out{}}
			nextID++
			nextForeign++
			if r.Chance(1, 2) {
				// the same block also pays the last index inside the window
				tx.Outs = append(tx.Outs, c16Out{K: &[3]uint32{k[0], k[1], uint32(beyond - 1)}, V: int64(r.Range(1000, 900000))})
				tags = append(tags, "violation_with_window_top_in_same_block")
			}
			tx.Outs = append(tx.Outs, c16Out{K: &[3]uint32{k[0], k[1], uint32(beyond)}, V: int64(r.Range(1000, 900000))})
			if m, ok := blockMax[k]; !ok || beyond > m {
				blockMax[k] = beyond
			}
			for pos, o := range tx.Outs {
				utxos = append(utxos, utxo{[2]int64{tx.ID, int64(pos)}, o.V})
			}
			at := r.Intn(len(blk.Txs) + 1)
			blk.Txs = append(blk.Txs[:at], append([]c16Tx{tx}, blk.Txs[at:]...)...)
			pays++
		}
		if pays > 1 {
			multiPay = true
		}
		for k, m := range blockMax {
			if m+1 > fb[k] {
				fb[k] = m + 1
			}
		}
		in.Blocks = append(in.Blocks, blk)
	}
	// a few irrelevant transactions in otherwise empty blocks
	if r.Chance(1, 3) {
		h := int32(r.Range(1, int(in.Len)))
		if !hs[h] {
			in.Blocks = append(in.Blocks, c16Block{H: h, Txs: []c16Tx{{ID: nextID, Ins: [][2]int64{{nextForeign, 0}},
				Outs: []c16Out{{V: 5000}}}}})
			sort.Slice(in.Blocks, func(i, j int) bool { return in.Blocks[i].H < in.Blocks[j].H })
		}
	}
	// interruption points
	in.Cuts = []int32{}
	if in.Entry == "sync" && c0 < in.Len {
		in.Cuts = append(in.Cuts, c0)
	}
	if r.Chance(1, 2) {
		for n := r.Range(1, 2); n > 0; n-- {
			var c int32
			switch r.Pick(2, 3, 1) {
			case 0:
				c = int32(r.Range(0, int(in.Len)))
			case 1:
				c = heights[r.Intn(len(heights))] - int32(r.Range(0, 1))
			case 2:
				c = boundary + int32(r.Range(-2, 2))
			}
			if c < 0 {
				c = 0
			}
			if c > in.Len {
				c = in.Len
			}
			if in.Entry == "sync" && c < c0 {
				c = c0 // the first start is the one the birthday block was aimed with
			}
			in.Cuts = append(in.Cuts, c)
		}
		sort.Slice(in.Cuts, func(i, j int) bool { return in.Cuts[i] < in.Cuts[j] })
	}
	if len(in.Cuts) > 0 {
		tags = append(tags, "interrupted_and_resumed")
	}
	in.Cuts = append(in.Cuts, in.Len)
	if in.Bday > 0 && in.Cuts[0] < in.Bday {
		// the birthday block must exist when recovery first runs
		in.Cuts[0] = in.Bday
		sort.Slice(in.Cuts, func(i, j int) bool { return in.Cuts[i] < in.Cuts[j] })
	}

	tags = append(tags, fmt.Sprintf("W=%d", in.W))
	if in.Unlocked {
		tags = append(tags, "unlocked")
	} else {
		tags = append(tags, "locked")
	}
	if violate {
		tags = append(tags, "one_index_beyond_window")
	}
	if maxGap == W-1 && W > 1 {
		tags = append(tags, "jump_of_W-1")
	}
	if sameBlockSpend {
		tags = append(tags, "same_block_spend")
	}
	if multiPay {
		tags = append(tags, "several_payments_per_block")
	}
	if spendsN > 0 {
		tags = append(tags, "spends_recovered_output")
	}
	if oldIdx {
		tags = append(tags, "pays_old_index")
	}
	return in, tags
}

func c16GenBirthday(r *gen.R) c16In {
	in := c16In{Kind: "birthday", Blocks: []c16Block{}, Cuts: []int32{}}
	n := r.Pick(1, 2, 4, 4, 2)
	n = []int{0, r.Range(1, 3), r.Range(4, 20), r.Range(21, 120), r.Range(121, 600)}[n]
	t := c16Genesis
	in.Ts = []int64{t}
	mode := r.Intn(4)
	for i := 0; i < n; i++ {
		var dt int64
		switch {
		case mode == 0:
			dt = 600
		case mode == 1:
			dt = int64(r.Pick(3, 5, 1, 1))
			dt = []int64{0, int64(r.Range(1, 1200)), int64(r.Range(7000, 7400)), int64(r.Range(3*3600, 30*86400))}[dt]
		case mode == 2:
			dt = int64(r.Pick(6, 2, 1))
			dt = []int64{0, int64(r.Range(1, 30)), int64(r.Range(7190, 7210))}[dt]
		default:
			dt = int64(r.Range(0, 3600))
		}
		t += dt
		in.Ts = append(in.Ts, t)
	}
	j := r.Intn(len(in.Ts))
	switch r.Pick(1, 1, 4, 2, 2) {
	case 0:
		in.BirthdayTs = c16Genesis - int64(r.Range(1, 20000))
	case 1:
		in.BirthdayTs = t + int64(r.Range(1, 20000))
	case 2:
		in.BirthdayTs = in.Ts[j] + []int64{-7201, -7200, -7199, 7199, 7200, 7201, 0, 1, -1}[r.Intn(9)]
	case 3:
		in.BirthdayTs = c16Genesis + int64(r.Range(0, int(t-c16Genesis)+1))
	case 4:
		in.BirthdayTs = in.Ts[j] + int64(r.Range(-9000, 9000))
	}
	return in
}

func main() {
	core.Main("c16", nil, func(c *core.Common, out *core.Emitter) error {
		defer closeDerivers()
		compute := func(in c16In, tags []string) (*c16Case, error) {
			switch in.Kind {
			case "recovery":
				// watchdog: a recovery that does not come back is reported as
				// such (the goroutine cannot be stopped, so the run ends here)
				type res struct {
					obs  c16Obs
					bad  []string
					site string
					err  error
				}
				ch := make(chan res, 1)
				go func() {
					obs, bad, site, err := c16Recovery(in)
					ch <- res{obs, bad, site, err}
				}()
				var rr res
				select {
				case rr = <-ch:
				case <-time.After(c16Watchdog):
					hangMu.Lock()
					// nothing has been emitted yet in a generated run (results
					// are emitted in order at the end): write the case directly
					b, _ := json.Marshal(c16Case{In: in, Obs: c16Obs{Err: "recovery did not return", Next: []uint32{}, Probes: [][5]int64{},
						Recorded: []int32{}, Unspent: [][3]int64{}}, Oracle: []string{"recovery_does_not_terminate"},
						Tags: append(tags, "watchdog"), Site: "recovery"})
					os.Stdout.Write(append(b, '\n'))
					os.Exit(0)
				}
				obs, bad, site, err := rr.obs, rr.bad, rr.site, rr.err
				if err != nil {
					return nil, err
				}
				oracle := []string{}
				violating := !c16WithinLookahead(in, c16ExpectFrom(in))
				if violating {
					tags = append(tags, "violates_lookahead")
				} else {
					tags = append(tags, "within_lookahead")
				}
				// outside the look-ahead hypothesis the property allows misses:
				// only model = implementation is compared there
				if !violating {
					oracle = append(oracle, bad...)
				} else if len(bad) > 0 {
					tags = append(tags, "violation_caused_a_miss")
				}
				return &c16Case{In: in, Obs: obs, Oracle: oracle, Tags: tags, Site: site}, nil
			case "branch":
				obs, bad, t2 := c16Branch(in)
				return &c16Case{In: in, Obs: obs, Oracle: append([]string{}, bad...), Tags: append(tags, t2...), Site: "BranchRecoveryState"}, nil
			case "birthday":
				obs, bad, t2, err := c16Birthday(in)
				if err != nil {
					return nil, err
				}
				return &c16Case{In: in, Obs: obs, Oracle: append([]string{}, bad...), Tags: append(tags, t2...), Site: "locateBirthdayBlock"}, nil
			default:
				return nil, fmt.Errorf("unknown kind %q", in.Kind)
			}
		}
		runOne := func(in c16In, tags []string) error {
			cs, err := compute(in, tags)
			if err != nil {
				return err
			}
			out.Emit(cs)
			return nil
		}
		// runAll computes the cases on a few workers and emits them in order
		type job struct {
			in   c16In
			tags []string
		}
		runAll := func(jobs []job) error {
			res := make([]*c16Case, len(jobs))
			errs := make([]error, len(jobs))
			var wg sync.WaitGroup
			// the long chains first (scheduling only: results are emitted in job order)
			order := make([]int, len(jobs))
			for i := range jobs {
				order[i] = i
			}
			sort.SliceStable(order, func(a, b int) bool { return jobs[order[a]].in.Len > jobs[order[b]].in.Len })
			next := make(chan int, len(jobs))
			for _, i := range order {
				next <- i
			}
			close(next)
			for w := 0; w < 8; w++ {
				wg.Add(1)
				go func() {
					defer wg.Done()
					for i := range next {
						t0 := time.Now()
						res[i], errs[i] = compute(jobs[i].in, jobs[i].tags)
						if res[i] != nil {
							res[i].Ms = time.Since(t0).Milliseconds()
						}
					}
				}()
			}
			wg.Wait()
			for i := range jobs {
				if errs[i] != nil {
					return errs[i]
				}
				out.Emit(res[i])
			}
			return nil
		}
		if c.Replay != "" {
			return core.ReadReplay(c.Replay, func(raw json.RawMessage) error {
				var cs struct {
					In c16In `json:"in"`
				}
				if err := json.Unmarshal(raw, &cs); err != nil {
					return err
				}
				return runOne(cs.In, []string{"replay"})
			})
		}
		r := gen.New(c.Seed, 16)
		var jobs []job
		for i := 0; i < c.N; i++ {
			in, tags := c16GenRecovery(r, i%4 == 3)
			jobs = append(jobs, job{in, tags})
		}
		rb := gen.New(c.Seed, 1016)
		for i := 0; i < 3*c.N; i++ {
			in := c16GenBirthday(rb)
			tags := []string{"birthday_search"}
			if i%12 == 11 {
				in.ViaWallet = true
				in.BirthdayTs += c16Margin48
				tags = append(tags, "birthday_via_wallet")
			}
			jobs = append(jobs, job{in, tags})
		}
		// the branch state with INVALID child indexes (no real key produces one:
		// the derive loop is replayed on the real BranchRecoveryState with a
		// chosen set of failing indexes); fixed witnesses first
		for _, w := range []c16In{
			{Kind: "branch", W: 2, Invalid: []uint32{1}, Found: []int64{0, -1}, Blocks: []c16Block{}, Cuts: []int32{}},
			{Kind: "branch", W: 3, Invalid: []uint32{0, 1, 5}, Found: []int64{-1, 2, 4, -1}, Blocks: []c16Block{}, Cuts: []int32{}},
			{Kind: "branch", W: 1, Invalid: []uint32{1, 2, 3}, Found: []int64{0, -1, 4, -1}, Blocks: []c16Block{}, Cuts: []int32{}},
		} {
			jobs = append(jobs, job{w, []string{"branch_witness"}})
		}
		rs := gen.New(c.Seed, 2016)
		for i := 0; i < 2*c.N; i++ {
			jobs = append(jobs, job{c16GenBranch(rs), nil})
		}
		if err := runAll(jobs); err != nil {
			return err
		}
		return nil
	})
}
