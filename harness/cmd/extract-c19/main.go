// extract-c19 reads the repository's source (go/ast, nothing is compiled or
// type-checked) and prints, as one JSON object, the facts the atomicity
// theorems of C19 take as premises (coq/Generated/MigrateFacts.v):
//
//	mig_error_returned   walletdb/migration/manager.go, func upgrade: the error
//	                     of the `<x>.Migration(ns)` call is returned when non-nil
//	setv_error_returned  same function: the error of `<x>.SetVersion(...)`
//	mgr_error_returned   func Upgrade: the error of `upgrade(mgr)`
//	one_update           every function of the repository that calls
//	                     migration.Upgrade does so exactly once, inside a
//	                     function literal handed to walletdb.Update (or to a
//	                     DB's Update method), with no loop, go or defer between
//	                     the function's body and the call
//	update_gets_error    that function literal returns Upgrade's error
//
// "The error of call C is returned when non-nil" is recognised in these
// equivalent shapes (e stands for any identifier):
//
//	return C
//	if e := C; e != nil { ...; return <expression mentioning e> }
//	e := C  (or e = C, or var e = C)   followed directly by
//	    if e != nil { ...; return <expression mentioning e> }     or by
//	    return e
//
// where "..." contains no assignment to e, no other return and no branch
// statement.  It is recognised as NOT returned in these shapes:
//
//	C            (expression statement)        _ = C
//	if e := C; e != nil { ... }                (no return in the block, or `return nil`)
//	e := C; if e != nil { ... }                (the same)
//
// Anything else is reported as {"ok": false, "why": ...}: nothing is guessed,
// lib/extract_c19.py then determines the fact by running the code.
//
// The LIST of call sites of migration.Upgrade (every non-test .go file outside
// vendor/ and outside the migration package itself) is always reported, also
// when a site's shape is not understood: the behavioural fallback is only
// valid for the sites it exercises.
//
//	usage: extract-c19 <repo>
package main

import (
	"encoding/json"
	"fmt"
	"go/ast"
	"go/parser"
	"go/token"
	"os"
	"path/filepath"
	"sort"
	"strconv"
	"strings"
)

type fact struct {
	OK    bool   `json:"ok"`
	Value bool   `json:"value"`
	Why   string `json:"why"`
}

type site struct {
	File     string `json:"file"`
	Func     string `json:"func"`
	Line     int    `json:"line"`
	InUpdate fact   `json:"in_one_update"`
	GetsErr  fact   `json:"update_gets_error"`
}

type result struct {
	Mig   fact   `json:"mig_error_returned"`
	Setv  fact   `json:"setv_error_returned"`
	Mgr   fact   `json:"mgr_error_returned"`
	One   fact   `json:"one_update"`
	Gets  fact   `json:"update_gets_error"`
	Sites []site `json:"sites"`
}

func yes(why string, a ...interface{}) fact {
	return fact{OK: true, Value: true, Why: fmt.Sprintf(why, a...)}
}
func no(why string, a ...interface{}) fact {
	return fact{OK: true, Value: false, Why: fmt.Sprintf(why, a...)}
}
func dunno(why string, a ...interface{}) fact { return fact{Why: fmt.Sprintf(why, a...)} }

// ---------------------------------------------------------------- generic helpers

// pathTo returns the chain of nodes from root down to target (inclusive).
func pathTo(root ast.Node, target ast.Node) []ast.Node {
	var stack, found []ast.Node
	ast.Inspect(root, func(n ast.Node) bool {
		if found != nil {
			return false
		}
		if n == nil {
			stack = stack[:len(stack)-1]
			return true
		}
		stack = append(stack, n)
		if n == target {
			found = append([]ast.Node{}, stack...)
			return false
		}
		return true
	})
	return found
}

func unparen(e ast.Expr) ast.Expr {
	for {
		p, ok := e.(*ast.ParenExpr)
		if !ok {
			return e
		}
		e = p.X
	}
}

func isIdent(e ast.Expr, name string) bool {
	id, ok := unparen(e).(*ast.Ident)
	return ok && id.Name == name
}

func mentions(n ast.Node, name string) bool {
	hit := false
	ast.Inspect(n, func(x ast.Node) bool {
		if id, ok := x.(*ast.Ident); ok && id.Name == name {
			hit = true
		}
		return !hit
	})
	return hit
}

// condNotNil: the condition is `e != nil` (or `nil != e`); returns e.
func condNotNil(c ast.Expr) (string, bool) {
	be, ok := unparen(c).(*ast.BinaryExpr)
	if !ok || be.Op != token.NEQ {
		return "", false
	}
	if id, ok := unparen(be.X).(*ast.Ident); ok && isIdent(be.Y, "nil") {
		return id.Name, true
	}
	if id, ok := unparen(be.Y).(*ast.Ident); ok && isIdent(be.X, "nil") {
		return id.Name, true
	}
	return "", false
}

// blockReturns analyses the block of `if e != nil { ... }`.
func blockReturns(b *ast.BlockStmt, e string, where string) fact {
	if len(b.List) == 0 {
		return no("%s: the block taken on a non-nil error is empty", where)
	}
	last := b.List[len(b.List)-1]
	returns, branches, reassigns := 0, 0, false
	ast.Inspect(b, func(n ast.Node) bool {
		switch x := n.(type) {
		case *ast.FuncLit:
			return false
		case *ast.ReturnStmt:
			returns++
		case *ast.BranchStmt:
			branches++
		case *ast.AssignStmt:
			for _, l := range x.Lhs {
				if isIdent(l, e) {
					reassigns = true
				}
			}
		}
		return true
	})
	rs, isRet := last.(*ast.ReturnStmt)
	switch {
	case returns == 0 && (branches == 0 || isContinueOnly(b)):
		return no("%s: the block taken on a non-nil error does not return (the error is dropped)", where)
	case !isRet || returns != 1 || branches != 0 || reassigns:
		return dunno("%s: the block taken on a non-nil error is not `...; return <error>`", where)
	case len(rs.Results) == 0:
		return dunno("%s: bare return", where)
	}
	res := rs.Results[len(rs.Results)-1]
	if isIdent(res, "nil") {
		return no("%s: the block taken on a non-nil error returns nil", where)
	}
	if mentions(res, e) {
		return yes("%s: `if %s != nil { ...; return ... %s ... }`", where, e, e)
	}
	return dunno("%s: what is returned on a non-nil error does not mention it", where)
}

func isContinueOnly(b *ast.BlockStmt) bool {
	ok := true
	ast.Inspect(b, func(n ast.Node) bool {
		if br, is := n.(*ast.BranchStmt); is && br.Tok != token.CONTINUE {
			ok = false
		}
		return ok
	})
	return ok
}

// stmtList returns the statement list that directly contains s, and its index.
func stmtList(parent ast.Node, s ast.Stmt) ([]ast.Stmt, int) {
	var list []ast.Stmt
	switch p := parent.(type) {
	case *ast.BlockStmt:
		list = p.List
	case *ast.CaseClause:
		list = p.Body
	case *ast.CommClause:
		list = p.Body
	default:
		return nil, -1
	}
	for i, x := range list {
		if x == s {
			return list, i
		}
	}
	return nil, -1
}

// errorHandling: how the (single, error) result of `call` is treated.
// path = nodes from the enclosing function's body down to the call.
func errorHandling(path []ast.Node, call *ast.CallExpr, where string) fact {
	if len(path) < 2 {
		return dunno("%s: no context", where)
	}
	parent := path[len(path)-2]
	for {
		if _, ok := parent.(*ast.ParenExpr); !ok {
			break
		}
		path = path[:len(path)-1]
		parent = path[len(path)-2]
	}
	var grand ast.Node
	if len(path) >= 3 {
		grand = path[len(path)-3]
	}
	switch p := parent.(type) {
	case *ast.ReturnStmt:
		if len(p.Results) >= 1 && unparen(p.Results[len(p.Results)-1]) == ast.Expr(call) {
			return yes("%s: `return <call>`", where)
		}
		return dunno("%s: call inside a return statement, not as the error result", where)
	case *ast.ExprStmt:
		return no("%s: the call is an expression statement (its error is ignored)", where)
	case *ast.ValueSpec: // var e = C
		if len(p.Names) != 1 || len(p.Values) != 1 {
			return dunno("%s: var declaration with several names", where)
		}
		e := p.Names[0].Name
		if len(path) >= 5 {
			if ds, ok := path[len(path)-4].(*ast.DeclStmt); ok {
				return afterAssign(path[len(path)-5], ds, e, where)
			}
		}
		return dunno("%s: var declaration outside a statement list", where)
	case *ast.AssignStmt:
		if len(p.Lhs) != 1 || len(p.Rhs) != 1 {
			return dunno("%s: assignment with several operands", where)
		}
		id, ok := unparen(p.Lhs[0]).(*ast.Ident)
		if !ok {
			return dunno("%s: the error is assigned to something that is not a plain variable", where)
		}
		if id.Name == "_" {
			return no("%s: `_ = <call>` (the error is ignored)", where)
		}
		e := id.Name
		if is, ok := grand.(*ast.IfStmt); ok && is.Init == ast.Stmt(p) {
			c, ok := condNotNil(is.Cond)
			if !ok || c != e {
				return dunno("%s: `if %s := <call>; <condition>` with a condition other than %s != nil", where, e, e)
			}
			return blockReturns(is.Body, e, where)
		}
		return afterAssign(grand, p, e, where)
	}
	return dunno("%s: the call's result is used in a way this reader does not know", where)
}

// afterAssign: `e := C` is statement s of a list; look at the next statement.
func afterAssign(parent ast.Node, s ast.Stmt, e string, where string) fact {
	list, i := stmtList(parent, s)
	if i < 0 {
		return dunno("%s: assignment outside a statement list", where)
	}
	if i+1 >= len(list) {
		return no("%s: nothing follows `%s := <call>` (the error is dropped)", where, e)
	}
	switch n := list[i+1].(type) {
	case *ast.ReturnStmt:
		if len(n.Results) >= 1 && isIdent(n.Results[len(n.Results)-1], e) {
			return yes("%s: `%s := <call>; return %s`", where, e, e)
		}
	case *ast.IfStmt:
		if n.Init == nil {
			if c, ok := condNotNil(n.Cond); ok && c == e {
				return blockReturns(n.Body, e, where)
			}
		}
	}
	return dunno("%s: `%s := <call>` is not followed by `if %s != nil {...}` or `return %s`", where, e, e, e)
}

// ---------------------------------------------------------------- manager.go

func findFunc(f *ast.File, name string) *ast.FuncDecl {
	for _, d := range f.Decls {
		if fd, ok := d.(*ast.FuncDecl); ok && fd.Name.Name == name && fd.Recv == nil && fd.Body != nil {
			return fd
		}
	}
	return nil
}

func callsWhere(root ast.Node, pred func(*ast.CallExpr) bool) []*ast.CallExpr {
	var out []*ast.CallExpr
	ast.Inspect(root, func(n ast.Node) bool {
		if c, ok := n.(*ast.CallExpr); ok && pred(c) {
			out = append(out, c)
		}
		return true
	})
	return out
}

func selName(c *ast.CallExpr) string {
	if s, ok := unparen(c.Fun).(*ast.SelectorExpr); ok {
		return s.Sel.Name
	}
	return ""
}

func oneCall(fd *ast.FuncDecl, what string, pred func(*ast.CallExpr) bool, where string) fact {
	cs := callsWhere(fd.Body, pred)
	if len(cs) != 1 {
		return dunno("%s: %d calls of %s, expected exactly one", where, len(cs), what)
	}
	return errorHandling(pathTo(fd.Body, cs[0]), cs[0], where)
}

func managerFacts(fset *token.FileSet, repo string, res *result) {
	path := filepath.Join(repo, "walletdb", "migration", "manager.go")
	f, err := parser.ParseFile(fset, path, nil, 0)
	if err != nil {
		d := dunno("parse %s: %v", path, err)
		res.Mig, res.Setv, res.Mgr = d, d, d
		return
	}
	up := findFunc(f, "upgrade")
	if up == nil {
		d := dunno("walletdb/migration/manager.go: no function `upgrade`")
		res.Mig, res.Setv = d, d
	} else {
		res.Mig = oneCall(up, "<version>.Migration(...)", func(c *ast.CallExpr) bool { return selName(c) == "Migration" },
			"migration.upgrade, call of the version's Migration")
		res.Setv = oneCall(up, "<mgr>.SetVersion(...)", func(c *ast.CallExpr) bool { return selName(c) == "SetVersion" },
			"migration.upgrade, call of SetVersion")
		if res.Mig.OK {
			// the call must sit in the loop over the versions, and the
			// loop must not be left early on success
			cs := callsWhere(up.Body, func(c *ast.CallExpr) bool { return selName(c) == "Migration" })
			inLoop := false
			for _, n := range pathTo(up.Body, cs[0]) {
				switch n.(type) {
				case *ast.RangeStmt, *ast.ForStmt:
					inLoop = true
				}
			}
			if !inLoop {
				res.Mig = dunno("migration.upgrade: the Migration call is not inside a loop")
			}
		}
	}
	U := findFunc(f, "Upgrade")
	if U == nil {
		res.Mgr = dunno("walletdb/migration/manager.go: no function `Upgrade`")
		return
	}
	res.Mgr = oneCall(U, "upgrade(mgr)", func(c *ast.CallExpr) bool { return isIdent(c.Fun, "upgrade") },
		"migration.Upgrade, call of upgrade(mgr)")
}

// ---------------------------------------------------------------- call sites

func importName(f *ast.File, suffix, deflt string) string {
	for _, im := range f.Imports {
		p, err := strconv.Unquote(im.Path.Value)
		if err != nil || !strings.HasSuffix(p, suffix) {
			continue
		}
		if im.Name != nil {
			return im.Name.Name
		}
		return deflt
	}
	return ""
}

func siteFacts(fset *token.FileSet, repo string, res *result) error {
	var files []string
	err := filepath.Walk(repo, func(p string, info os.FileInfo, err error) error {
		if err != nil {
			return err
		}
		if info.IsDir() {
			switch info.Name() {
			case "vendor", ".git", "testdata", "node_modules":
				return filepath.SkipDir
			}
			if rel, _ := filepath.Rel(repo, p); rel == filepath.Join("walletdb", "migration") {
				return filepath.SkipDir
			}
			return nil
		}
		if strings.HasSuffix(p, ".go") && !strings.HasSuffix(p, "_test.go") {
			files = append(files, p)
		}
		return nil
	})
	if err != nil {
		return err
	}
	sort.Strings(files)
	for _, p := range files {
		b, err := os.ReadFile(p)
		if err != nil {
			return err
		}
		if !strings.Contains(string(b), "walletdb/migration\"") {
			continue
		}
		f, err := parser.ParseFile(fset, p, b, 0)
		if err != nil {
			return fmt.Errorf("parse %s: %v", p, err)
		}
		mig := importName(f, "btcwallet/walletdb/migration", "migration")
		if mig == "" {
			continue
		}
		if mig == "." || mig == "_" {
			return fmt.Errorf("%s: dot/blank import of the migration package", p)
		}
		wdb := importName(f, "btcwallet/walletdb", "walletdb")
		rel, _ := filepath.Rel(repo, p)
		isUpgradeSel := func(e ast.Expr) bool {
			s, ok := unparen(e).(*ast.SelectorExpr)
			return ok && s.Sel.Name == "Upgrade" && isIdent(s.X, mig)
		}
		// every mention of migration.Upgrade must be the function of a call
		mention, called := 0, 0
		ast.Inspect(f, func(n ast.Node) bool {
			if e, ok := n.(ast.Expr); ok && isUpgradeSel(e) {
				if _, isSel := e.(*ast.SelectorExpr); isSel {
					mention++
				}
			}
			if c, ok := n.(*ast.CallExpr); ok && isUpgradeSel(c.Fun) {
				called++
			}
			return true
		})
		if mention != called {
			return fmt.Errorf("%s: migration.Upgrade is used as a value (%d mentions, %d calls)", rel, mention, called)
		}
		for _, d := range f.Decls {
			fd, ok := d.(*ast.FuncDecl)
			if !ok || fd.Body == nil {
				continue
			}
			calls := callsWhere(fd.Body, func(c *ast.CallExpr) bool { return isUpgradeSel(c.Fun) })
			for _, c := range calls {
				s := site{File: rel, Func: fd.Name.Name, Line: fset.Position(c.Pos()).Line}
				where := fmt.Sprintf("%s:%d %s", rel, s.Line, s.Func)
				path := pathTo(fd.Body, c)
				var lits []*ast.FuncLit
				loop, other := "", ""
				for _, n := range path {
					switch x := n.(type) {
					case *ast.FuncLit:
						lits = append(lits, x)
					case *ast.ForStmt, *ast.RangeStmt:
						loop = "a loop"
					case *ast.GoStmt:
						other = "a go statement"
					case *ast.DeferStmt:
						other = "a defer statement"
					}
				}
				switch {
				case len(calls) != 1:
					s.InUpdate = no("%s: the function calls migration.Upgrade %d times (the services are not upgraded by ONE call)", where, len(calls))
				case loop != "":
					s.InUpdate = no("%s: %s lies between the function's body and the call (a transaction per iteration)", where, loop)
				case other != "":
					s.InUpdate = dunno("%s: the call is inside %s", where, other)
				case len(lits) != 1:
					s.InUpdate = dunno("%s: the call is inside %d function literals, expected the one handed to walletdb.Update", where, len(lits))
				default:
					s.InUpdate = updateClosure(path, lits[0], wdb, where)
				}
				if len(lits) >= 1 {
					inner := pathTo(lits[len(lits)-1].Body, c)
					s.GetsErr = errorHandling(inner, c, where)
				} else {
					s.GetsErr = dunno("%s: the call is not inside a function literal", where)
				}
				res.Sites = append(res.Sites, s)
			}
		}
	}
	return nil
}

// updateClosure: lit is an argument of walletdb.Update(db, lit) or of
// <db>.Update(lit, ...).
func updateClosure(path []ast.Node, lit *ast.FuncLit, wdb, where string) fact {
	for i, n := range path {
		if n != ast.Node(lit) || i == 0 {
			continue
		}
		call, ok := path[i-1].(*ast.CallExpr)
		if !ok {
			return dunno("%s: the function literal around the call is not an argument of a call", where)
		}
		sel, ok := unparen(call.Fun).(*ast.SelectorExpr)
		if !ok || sel.Sel.Name != "Update" {
			return dunno("%s: the function literal around the call is handed to something other than Update", where)
		}
		arg := -1
		for j, a := range call.Args {
			if unparen(a) == ast.Expr(lit) {
				arg = j
			}
		}
		if wdb != "" && isIdent(sel.X, wdb) {
			if arg == 1 {
				return yes("%s: inside the closure of %s.Update(db, func(tx) error {...})", where, wdb)
			}
			return dunno("%s: %s.Update with the closure as argument %d", where, wdb, arg)
		}
		if arg == 0 {
			return yes("%s: inside the closure of <db>.Update(func(tx) error {...}, ...)", where)
		}
		return dunno("%s: <x>.Update with the closure as argument %d", where, arg)
	}
	return dunno("%s: function literal not found on the path", where)
}

func aggregate(sites []site, pick func(site) fact, what string) fact {
	if len(sites) == 0 {
		return dunno("no call site of migration.Upgrade found in the repository")
	}
	var whys []string
	unknown := ""
	for _, s := range sites {
		f := pick(s)
		if !f.OK {
			if unknown == "" {
				unknown = f.Why
			}
			continue
		}
		if !f.Value {
			return no("%s", f.Why)
		}
		whys = append(whys, f.Why)
	}
	if unknown != "" {
		return dunno("%s", unknown)
	}
	return yes("%s (%d call site(s)): %s", what, len(sites), strings.Join(whys, "; "))
}

func main() {
	if len(os.Args) != 2 {
		fmt.Fprintln(os.Stderr, "usage: extract-c19 <repo>")
		os.Exit(2)
	}
	repo := os.Args[1]
	fset := token.NewFileSet()
	var res result
	managerFacts(fset, repo, &res)
	if err := siteFacts(fset, repo, &res); err != nil {
		fmt.Fprintln(os.Stderr, "extract-c19:", err)
		os.Exit(1)
	}
	res.One = aggregate(res.Sites, func(s site) fact { return s.InUpdate }, "one walletdb.Update around the single Upgrade call")
	res.Gets = aggregate(res.Sites, func(s site) fact { return s.GetsErr }, "the closure returns Upgrade's error")
	if res.Sites == nil {
		res.Sites = []site{}
	}
	enc := json.NewEncoder(os.Stdout)
	enc.SetIndent("", " ")
	if err := enc.Encode(res); err != nil {
		fmt.Fprintln(os.Stderr, "extract-c19:", err)
		os.Exit(1)
	}
}
