package main

// c17 -probe determines the three regenerated facts of property C17
// (coq/Generated/SnaclFacts.v) BEHAVIOURALLY, on the code it is built against.
// lib/extract_c17.py uses it only for a fact whose source shape
// harness/cmd/extract-c17 refused; it also yields the witness input.
//
//	pw_unchanged   for every passphrase of a family (empty, terminators and
//	               blanks at either end, case, both Unicode normal forms,
//	               63/64/65/100 bytes, embedded NUL) and two parameter sets:
//	               the key of NewSecretKey and the key re-derived by DeriveKey
//	               on a fresh SecretKey (Unmarshal of the marshalled
//	               parameters) are scrypt.Key(passphrase bytes, stored salt,
//	               N, r, p, 32) computed here with golang.org/x/crypto/scrypt.
//	               true iff all agree; otherwise false with the first
//	               passphrase that does not.
//	digest_cmp     every single-bit flip of the 32 stored digest bytes, then
//	               Unmarshal + DeriveKey(creating passphrase): none accepted =
//	               the whole digest is compared; accepted exactly at the bytes
//	               n..31 = a prefix of n bytes is compared; anything else is
//	               inconsistent with both.
//	open_checked   ciphertexts of 0/1/32-byte plaintexts with a flipped bit in
//	               the box, in the nonce, cut by one byte, and under another
//	               key: Decrypt returns an error on all = true, a nil error on
//	               all = false, mixed = inconsistent.

import (
	"bytes"
	"encoding/json"
	"fmt"
	"os"

	"github.com/btcsuite/btcwallet/snacl"
	"golang.org/x/crypto/scrypt"
)

type probeOut struct {
	PwUnchanged struct {
		Value   bool   `json:"value"`
		Tried   int    `json:"tried"`
		Witness string `json:"witness,omitempty"`
	} `json:"pw_unchanged"`
	DigestCmp struct {
		Consistent bool   `json:"consistent"`
		Whole      bool   `json:"whole"`
		Prefix     int    `json:"prefix"`
		Detail     string `json:"detail"`
	} `json:"digest_cmp"`
	OpenChecked struct {
		Consistent bool   `json:"consistent"`
		Value      bool   `json:"value"`
		Tried      int    `json:"tried"`
		Detail     string `json:"detail"`
	} `json:"open_checked"`
}

func probeFamily() [][]byte {
	fill := func(n int) []byte {
		b := make([]byte, n)
		for i := range b {
			b[i] = byte(i*37 + 11)
		}
		return b
	}
	out := basePassphrases(fill)
	for _, w := range blanks {
		out = append(out, cat([]byte("Probe"), w.b), cat(w.b, []byte("Probe")))
	}
	return append(out, []byte("PROBE"), []byte("probe"), []byte("Probe"))
}

func runProbe() error {
	var out probeOut
	// pw_unchanged
	out.PwUnchanged.Value = true
	for _, q := range [][3]int{{16, 8, 1}, {2, 1, 1}} {
		for _, pw := range probeFamily() {
			out.PwUnchanged.Tried++
			pwc := append([]byte{}, pw...)
			sk, err := snacl.NewSecretKey(&pwc, q[0], q[1], q[2])
			if err != nil {
				return fmt.Errorf("NewSecretKey(%x, %v): %v", pw, q, err)
			}
			want, err := scrypt.Key(pw, sk.Parameters.Salt[:], q[0], q[1], q[2], snacl.KeySize)
			if err != nil {
				return err
			}
			bad := ""
			if !bytes.Equal(sk.Key[:], want) {
				bad = "the key of NewSecretKey"
			}
			var fresh snacl.SecretKey
			if err := fresh.Unmarshal(sk.Marshal()); err != nil {
				return fmt.Errorf("Unmarshal(Marshal()): %v", err)
			}
			if c, _ := derive(&fresh, pw); c != dkAccepted {
				bad = "DeriveKey of the creating passphrase is refused, so the key"
			} else if !bytes.Equal(fresh.Key[:], want) && bad == "" {
				bad = "the key re-derived by DeriveKey"
			}
			if bad != "" && out.PwUnchanged.Value {
				out.PwUnchanged.Value = false
				out.PwUnchanged.Witness = fmt.Sprintf("passphrase %q (hex %x), N=%d r=%d p=%d: %s is not scrypt.Key(passphrase bytes, salt, N, r, p, 32)",
					pw, pw, q[0], q[1], q[2], bad)
			}
		}
	}
	// digest_cmp
	{
		pw := []byte("probe-digest")
		pwc := append([]byte{}, pw...)
		sk, err := snacl.NewSecretKey(&pwc, 16, 8, 1)
		if err != nil {
			return err
		}
		m := sk.Marshal()
		if len(m) != 88 || !bytes.Equal(m[32:64], sk.Parameters.Digest[:]) {
			return fmt.Errorf("marshalled parameters do not carry the digest at bytes 32..63")
		}
		accepted := make([]int, 32) // accepted bit flips per digest byte
		for i := 0; i < 32; i++ {
			for j := 0; j < 8; j++ {
				buf := append([]byte{}, m...)
				buf[32+i] ^= 1 << uint(j)
				var s snacl.SecretKey
				if err := s.Unmarshal(buf); err != nil {
					return fmt.Errorf("Unmarshal of 88 bytes: %v", err)
				}
				if c, _ := derive(&s, pw); c == dkAccepted {
					accepted[i]++
				}
			}
		}
		first := 32
		for i := 31; i >= 0 && accepted[i] == 8; i-- {
			first = i
		}
		consistent := true
		for i := 0; i < first; i++ {
			if accepted[i] != 0 {
				consistent = false
			}
		}
		out.DigestCmp.Consistent = consistent
		out.DigestCmp.Whole = consistent && first == 32
		out.DigestCmp.Prefix = first
		out.DigestCmp.Detail = fmt.Sprintf("accepted single-bit flips per stored digest byte (creating passphrase %q, N=16 r=8 p=1): %v", pw, accepted)
	}
	// open_checked
	{
		errs, oks := 0, 0
		first := ""
		for _, n := range []int{0, 1, 32} {
			var ck, other snacl.CryptoKey
			for i := range ck {
				ck[i] = byte(i + 1)
				other[i] = byte(i + 2)
			}
			pt := bytes.Repeat([]byte{0x5a}, n)
			ct, err := ck.Encrypt(pt)
			if err != nil || len(ct) < snacl.NonceSize+1 {
				return fmt.Errorf("Encrypt: %v (length %d)", err, len(ct))
			}
			try := func(what string, k *snacl.CryptoKey, c []byte) {
				defer func() {
					if r := recover(); r != nil {
						errs++ // neither data nor nil error
					}
				}()
				_, err := k.Decrypt(c)
				if err != nil {
					errs++
				} else {
					oks++
					if first == "" {
						first = fmt.Sprintf("%s of the ciphertext of a %d-byte plaintext", what, n)
					}
				}
			}
			flip := func(i int) []byte {
				b := append([]byte{}, ct...)
				b[i] ^= 1
				return b
			}
			try("bit 0 of the last byte flipped", &ck, flip(len(ct)-1))
			try("bit 0 of box byte 0 flipped", &ck, flip(snacl.NonceSize))
			try("bit 0 of nonce byte 3 flipped", &ck, flip(3))
			try("the last byte cut off", &ck, append([]byte{}, ct[:len(ct)-1]...))
			try("another key", &other, ct)
		}
		out.OpenChecked.Tried = errs + oks
		out.OpenChecked.Consistent = errs == 0 || oks == 0
		out.OpenChecked.Value = oks == 0
		if oks == 0 {
			out.OpenChecked.Detail = fmt.Sprintf("all %d tampered / wrong-key decryptions return an error", errs)
		} else {
			out.OpenChecked.Detail = fmt.Sprintf("%d of %d tampered / wrong-key decryptions return a nil error; first: %s", oks, errs+oks, first)
		}
	}
	b, err := json.Marshal(out)
	if err != nil {
		return err
	}
	os.Stdout.Write(append(b, '\n'))
	return nil
}
