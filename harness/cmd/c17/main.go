// Command c17 exercises the real snacl package (and waddrmgr's use of it) for
// property C17: authenticated ciphertexts bound to the right key/passphrase.
//
// Case kinds (field "kind" of the input):
//
//	cipher  snacl.CryptoKey: round trip, EVERY single-bit flip and EVERY
//	        truncation length of the ciphertext, wrong keys, repeated
//	        encryption of the same plaintext
//	pass    snacl.SecretKey: creating passphrase vs near misses, after Zero
//	        and after Marshal/Unmarshal; Unmarshal by input length
//	params  EVERY single-bit flip of the 88 marshalled parameter bytes, then
//	        Unmarshal + DeriveKey(correct passphrase)
//	mgr     waddrmgr.Manager.Encrypt/Decrypt per crypto key type, unlocked
//	        and locked, same tampering as "cipher"
//	mgrpass waddrmgr: Open (public passphrase), Unlock on a locked and on an
//	        unlocked manager, ChangePassphrase's old-passphrase check (public
//	        and private), each with the right passphrase and every near miss
//
// Near misses: nearmiss.go.  -probe (probe.go) prints the behaviourally
// determined code facts for lib/extract_c17.py instead of running cases.
//
// Outcome classes are small integers shared with coq/Crypto/SnaclCorr.v.
package main

import (
	"bytes"
	"crypto/sha256"
	"encoding/hex"
	"encoding/json"
	"errors"
	"flag"
	"fmt"
	"os"
	"path/filepath"
	"runtime"
	"time"

	"github.com/btcsuite/btcd/btcutil/hdkeychain"
	"github.com/btcsuite/btcd/chaincfg"
	"github.com/btcsuite/btcwallet/snacl"
	"github.com/btcsuite/btcwallet/waddrmgr"
	"github.com/btcsuite/btcwallet/walletdb"
	_ "github.com/btcsuite/btcwallet/walletdb/bdb"

	"verifharness/internal/core"
	"verifharness/internal/gen"
)

// Decrypt classes.
const (
	clsOK        = 0
	clsMalformed = 1
	clsDecFailed = 2
	clsOther     = 3
	clsLocked    = 6
	clsOKOther   = 7 // no error but not the original data
	clsBadType   = 8
	clsPanic     = 9
)

// DeriveKey classes.
const (
	dkAccepted   = 0
	dkInvalidPW  = 1
	dkKdfError   = 2
	dkPanic      = 3
	dkSkipped    = 4
	dkUnmarshalE = 5
)

type c17Input struct {
	Kind   string `json:"kind"`
	PT     string `json:"pt,omitempty"`   // hex
	Key    string `json:"key,omitempty"`  // hex, 32 bytes
	Pass   string `json:"pass,omitempty"` // hex
	N      int    `json:"N,omitempty"`
	R      int    `json:"r,omitempty"`
	P      int    `json:"p,omitempty"`
	KT     int    `json:"kt"`
	Locked bool   `json:"locked,omitempty"`
	AllKey bool   `json:"all_key_flips,omitempty"`
	// pass / mgrpass: when present, ONLY these passphrases (hex) are presented
	// instead of the generated near misses (a replay that names the failing pair)
	Try []string `json:"try,omitempty"`
	// mgrpass: the operation that checks a passphrase, and the manager's passphrases (hex)
	Op   string `json:"op,omitempty"`
	Pub  string `json:"pub,omitempty"`
	Priv string `json:"priv,omitempty"`
}

type nearObs struct {
	Name    string `json:"name"`
	PW      string `json:"pw"`
	Zeroed  int    `json:"zeroed"`               // class on the original SecretKey after Zero
	Restart int    `json:"restart"`              // class on a fresh SecretKey after Unmarshal
	Equiv   bool   `json:"hmac_equiv,omitempty"` // same HMAC key block as the creating passphrase
}

// acceptedPair names one accepted passphrase that is not the creating one.
type acceptedPair struct {
	Created   string `json:"created"`   // hex
	Presented string `json:"presented"` // hex
	Name      string `json:"name"`
	Kind      string `json:"kind"` // oracle kind
	At        string `json:"at"`   // where it was accepted
}

type c17Obs struct {
	// cipher / mgr
	Nonce     string      `json:"nonce,omitempty"`
	CTLen     int         `json:"ct_len,omitempty"`
	RT        int         `json:"rt"`
	Flips     [][2]int    `json:"flips,omitempty"`  // rle of classes
	Truncs    [][2]int    `json:"truncs,omitempty"` // rle of classes
	NFlips    int         `json:"n_flips,omitempty"`
	NTruncs   int         `json:"n_truncs,omitempty"`
	Wrong     [][2]string `json:"wrong,omitempty"` // (key hex, class)
	Cross     [][2]int    `json:"cross,omitempty"` // (key type, class)
	Accepted  []string    `json:"accepted,omitempty"`
	NEncrypts int         `json:"n_encrypts,omitempty"`
	// pass / params
	Created           string         `json:"created,omitempty"`
	Salt              string         `json:"salt,omitempty"`
	Digest            string         `json:"digest,omitempty"`
	Marshalled        string         `json:"marshalled,omitempty"`
	ZeroOK            bool           `json:"zero_ok"`
	Exact             int            `json:"exact"`
	Restart           int            `json:"restart"`
	Near              []nearObs      `json:"near,omitempty"`
	Lens              [][2]int       `json:"lens,omitempty"`
	ParamFlips        []int          `json:"param_flips,omitempty"`
	Skipped           int            `json:"skipped,omitempty"`
	Panics            int            `json:"panics,omitempty"`
	KdfErrors         int            `json:"kdf_errors,omitempty"`
	PanicSample       string         `json:"panic_sample,omitempty"`
	LongPWHash        string         `json:"long_pw_sha256,omitempty"` // class of DeriveKey(sha256(pw)) when |pw| > 64
	HmacEquivAccepted int            `json:"hmac_equiv_accepted,omitempty"`
	AcceptedPairs     []acceptedPair `json:"accepted_pairs,omitempty"`
	// mgrpass
	RightOK int       `json:"right_ok,omitempty"` // class of the operation with the right passphrase
	MgrNear []mgrNear `json:"mgr_near,omitempty"`
	StillOK bool      `json:"still_ok,omitempty"` // the right passphrase works after all attempts
	Calls   int       `json:"calls"`              // Decrypt / DeriveKey / Unmarshal calls made for this case
}

type c17Case struct {
	In     c17Input `json:"in"`
	Obs    c17Obs   `json:"obs"`
	Oracle []string `json:"oracle"`
	Tags   []string `json:"tags"`
	Site   string   `json:"site"`
}

func hx(b []byte) string { return hex.EncodeToString(b) }
func unhx(s string) []byte {
	b, err := hex.DecodeString(s)
	if err != nil {
		panic(err)
	}
	return b
}

type oracle struct{ kinds []string }

func (o *oracle) add(k string) {
	for _, x := range o.kinds {
		if x == k {
			return
		}
	}
	o.kinds = append(o.kinds, k)
}

type rle struct{ runs [][2]int }

func (r *rle) push(c int) {
	if n := len(r.runs); n > 0 && r.runs[n-1][0] == c {
		r.runs[n-1][1]++
		return
	}
	r.runs = append(r.runs, [2]int{c, 1})
}

func clsSnacl(pt, out []byte, err error) int {
	switch {
	case err == nil:
		if bytes.Equal(out, pt) {
			return clsOK
		}
		return clsOKOther
	case errors.Is(err, snacl.ErrMalformed):
		return clsMalformed
	case errors.Is(err, snacl.ErrDecryptFailed):
		return clsDecFailed
	}
	return clsOther
}

func clsMgr(pt, out []byte, err error) int {
	switch {
	case err == nil:
		if bytes.Equal(out, pt) {
			return clsOK
		}
		return clsOKOther
	case waddrmgr.IsError(err, waddrmgr.ErrLocked):
		return clsLocked
	case waddrmgr.IsError(err, waddrmgr.ErrInvalidKeyType):
		return clsBadType
	case waddrmgr.IsError(err, waddrmgr.ErrCrypto):
		if errors.Is(err, snacl.ErrMalformed) {
			return clsMalformed
		}
		if errors.Is(err, snacl.ErrDecryptFailed) {
			return clsDecFailed
		}
	}
	return clsOther
}

// tamper runs dec on the intact ciphertext, on every single-bit flip and on
// every strict truncation, and applies the property directly.
func tamper(ct, pt []byte, dec func([]byte) ([]byte, error), cls func(pt, out []byte, err error) int,
	expectRefusal bool, obs *c17Obs, o *oracle) {

	// a run-time panic inside Decrypt (e.g. slicing a too short input) is
	// neither data nor an error: class 9, its own violation kind
	rawDec := dec
	errPanicked := errors.New("panic")
	dec = func(b []byte) (out []byte, err error) {
		defer func() {
			if r := recover(); r != nil {
				out, err = nil, fmt.Errorf("%w: %v", errPanicked, r)
				o.add("decrypt_panicked")
			}
		}()
		return rawDec(b)
	}
	rawCls := cls
	cls = func(pt, out []byte, err error) int {
		if errors.Is(err, errPanicked) {
			return clsPanic
		}
		return rawCls(pt, out, err)
	}
	out, err := dec(ct)
	obs.Calls++
	obs.RT = cls(pt, out, err)
	if !expectRefusal && obs.RT != clsOK {
		o.add("roundtrip_mismatch")
	}
	if err != nil && out != nil {
		o.add("data_returned_with_error")
	}
	var fl, tr rle
	buf := make([]byte, len(ct))
	for i := range ct {
		for j := 0; j < 8; j++ {
			copy(buf, ct)
			buf[i] ^= 1 << uint(j)
			out, err := dec(buf)
			obs.Calls++
			c := cls(pt, out, err)
			fl.push(c)
			obs.NFlips++
			if err == nil {
				o.add("tampered_ciphertext_accepted")
				if len(obs.Accepted) < 4 {
					obs.Accepted = append(obs.Accepted, fmt.Sprintf("flip:%d:%d", i, j))
				}
			} else if out != nil {
				o.add("data_returned_with_error")
			}
		}
	}
	for t := 0; t < len(ct); t++ {
		out, err := dec(append([]byte{}, ct[:t]...))
		obs.Calls++
		c := cls(pt, out, err)
		tr.push(c)
		obs.NTruncs++
		if err == nil {
			o.add("truncated_ciphertext_accepted")
			if len(obs.Accepted) < 4 {
				obs.Accepted = append(obs.Accepted, fmt.Sprintf("trunc:%d", t))
			}
		} else if out != nil {
			o.add("data_returned_with_error")
		}
	}
	obs.Flips, obs.Truncs = fl.runs, tr.runs
}

func runCipher(in c17Input) c17Case {
	cs := c17Case{In: in, Site: "snacl.CryptoKey.Decrypt", Tags: []string{"cipher"}}
	var o oracle
	pt := unhx(in.PT)
	var ck snacl.CryptoKey
	copy(ck[:], unhx(in.Key))
	ct, err := ck.Encrypt(pt)
	if err != nil {
		// nothing to judge; the correspondence flags the case (no ciphertext)
		cs.Tags = append(cs.Tags, "encrypt_error")
		cs.Oracle = o.kinds
		return cs
	}
	obs := &cs.Obs
	obs.CTLen = len(ct)
	if len(ct) >= snacl.NonceSize {
		obs.Nonce = hx(ct[:snacl.NonceSize])
	}
	tamper(ct, pt, ck.Decrypt, clsSnacl, false, obs, &o)

	// other keys
	var others [][]byte
	flipKey := func(bit int) []byte {
		k := append([]byte{}, ck[:]...)
		k[bit/8] ^= 1 << uint(bit%8)
		return k
	}
	if in.AllKey {
		for b := 0; b < 256; b++ {
			others = append(others, flipKey(b))
		}
	} else {
		for _, b := range []int{0, 7, 100, 255} {
			others = append(others, flipKey(b))
		}
	}
	others = append(others, make([]byte, 32), bytes.Repeat([]byte{0xff}, 32))
	for _, k := range others {
		if bytes.Equal(k, ck[:]) {
			continue
		}
		var wk snacl.CryptoKey
		copy(wk[:], k)
		out, err := wk.Decrypt(ct)
		obs.Calls++
		c := clsSnacl(pt, out, err)
		obs.Wrong = append(obs.Wrong, [2]string{hx(k), fmt.Sprint(c)})
		if err == nil {
			o.add("wrong_key_accepted")
		} else if out != nil {
			o.add("data_returned_with_error")
		}
	}

	// equal plaintexts, repeated encryption
	seen := map[string]bool{string(ct): true}
	obs.NEncrypts = 1
	for i := 0; i < 7; i++ {
		c2, err := ck.Encrypt(pt)
		if err != nil {
			cs.Tags = append(cs.Tags, "encrypt_error")
			break
		}
		obs.NEncrypts++
		if seen[string(c2)] {
			o.add("equal_ciphertexts")
		}
		seen[string(c2)] = true
		// and each of them decrypts
		out, err := ck.Decrypt(c2)
		obs.Calls++
		if err != nil || !bytes.Equal(out, pt) {
			o.add("roundtrip_mismatch")
		}
	}
	cs.Tags = append(cs.Tags, lenTag(len(pt)))
	if in.AllKey {
		cs.Tags = append(cs.Tags, "all_key_flips")
	}
	cs.Oracle = o.kinds
	return cs
}

func lenTag(n int) string {
	switch {
	case n == 0:
		return "pt_empty"
	case n < 16:
		return "pt_1_15"
	case n <= 64:
		return "pt_16_64"
	}
	return "pt_65_300"
}

// derive calls DeriveKey with a private copy of the passphrase; a run-time
// panic (scrypt divides by r and p) is a class of its own.
func derive(sk *snacl.SecretKey, pw []byte) (cls int, msg string) {
	defer func() {
		if r := recover(); r != nil {
			cls, msg = dkPanic, fmt.Sprint(r)
		}
	}()
	p := append([]byte{}, pw...)
	err := sk.DeriveKey(&p)
	switch {
	case err == nil:
		return dkAccepted, ""
	case errors.Is(err, snacl.ErrInvalidPassword):
		return dkInvalidPW, ""
	}
	return dkKdfError, err.Error()
}

// hmacBlock is the 64-byte HMAC-SHA256 key block of a passphrase: the only
// way a passphrase enters scrypt (PBKDF2-HMAC-SHA256).  Computed here from
// the definition of HMAC, independently of snacl.
func hmacBlock(pw []byte) [64]byte {
	var b [64]byte
	if len(pw) > 64 {
		h := sha256.Sum256(pw)
		copy(b[:], h[:])
	} else {
		copy(b[:], pw)
	}
	return b
}

// acceptedKind is the violation kind for an accepted passphrase that is not
// the creating one: passphrases with the creating passphrase's HMAC key
// block are the recorded finding, anything else is a fresh violation.
func acceptedKind(created, accepted []byte) string {
	if hmacBlock(created) == hmacBlock(accepted) {
		return "hmac_equivalent_passphrase_accepted"
	}
	return "wrong_passphrase_accepted"
}

func runPass(in c17Input, allBits bool) c17Case {
	cs := c17Case{In: in, Site: "snacl.SecretKey.DeriveKey", Tags: []string{"pass"}}
	var o oracle
	obs := &cs.Obs
	pw := unhx(in.Pass)
	pwc := append([]byte{}, pw...)
	sk, err := snacl.NewSecretKey(&pwc, in.N, in.R, in.P)
	if err != nil {
		obs.Created = "error: " + err.Error()
		cs.Tags = append(cs.Tags, "create_error")
		cs.Oracle = o.kinds
		return cs
	}
	obs.Created = "ok"
	key := append([]byte{}, sk.Key[:]...)
	m := sk.Marshal()
	obs.Salt, obs.Digest, obs.Marshalled = hx(sk.Parameters.Salt[:]), hx(sk.Parameters.Digest[:]), hx(m)

	// restart: a fresh SecretKey from the stored bytes
	fresh := func() *snacl.SecretKey {
		var s snacl.SecretKey
		obs.Calls++
		if err := s.Unmarshal(m); err != nil {
			o.add("marshal_roundtrip_mismatch")
			return nil
		}
		return &s
	}
	if s := fresh(); s != nil {
		if s.Parameters != sk.Parameters || !bytes.Equal(s.Marshal(), m) {
			o.add("marshal_roundtrip_mismatch")
		}
		c, _ := derive(s, pw)
		obs.Calls++
		obs.Restart = c
		if c != dkAccepted {
			o.add("right_passphrase_rejected")
		} else if !bytes.Equal(s.Key[:], key) {
			o.add("rederived_key_differs")
		}
	}
	// Zero, then the creating passphrase
	sk.Zero()
	// wiping is C05's subject: observed and compared with the model only
	obs.ZeroOK = bytes.Equal(sk.Key[:], make([]byte, 32))
	if !obs.ZeroOK {
		cs.Tags = append(cs.Tags, "zero_left_key_bytes")
	}
	c, _ := derive(sk, pw)
	obs.Calls++
	obs.Exact = c
	if c != dkAccepted {
		o.add("right_passphrase_rejected")
	} else if !bytes.Equal(sk.Key[:], key) {
		o.add("rederived_key_differs")
	}
	// near misses on both
	s2 := fresh()
	for _, nm := range presented(in, pw, allBits) {
		sk.Zero()
		c1, _ := derive(sk, nm.pw)
		c2 := -1
		if s2 != nil {
			c2, _ = derive(s2, nm.pw)
		}
		obs.Calls += 2
		equiv := hmacBlock(pw) == hmacBlock(nm.pw)
		obs.Near = append(obs.Near, nearObs{nm.name, hx(nm.pw), c1, c2, equiv})
		if c1 == dkAccepted || c2 == dkAccepted {
			k := acceptedKind(pw, nm.pw)
			o.add(k)
			if k == "hmac_equivalent_passphrase_accepted" {
				obs.HmacEquivAccepted++
			}
			at := "after Zero"
			if c1 != dkAccepted {
				at = "after Unmarshal"
			}
			obs.AcceptedPairs = append(obs.AcceptedPairs, acceptedPair{hx(pw), hx(nm.pw), nm.name, k, at})
		}
		// a passphrase longer than the HMAC block and its SHA-256 (the model's
		// hash is not SHA-256: rendered for the model as "equivalent")
		if nm.name == "sha256" && len(pw) > 64 {
			obs.LongPWHash = fmt.Sprint(c1)
		}
	}
	// and the right one still works after all the rejected attempts
	if c, _ := derive(sk, pw); c != dkAccepted || !bytes.Equal(sk.Key[:], key) {
		o.add("right_passphrase_rejected")
	}
	obs.Calls++
	// Unmarshal by length
	m3 := append(append(append([]byte{}, m...), m...), m...)
	for _, L := range []int{0, 1, 24, 32, 64, 80, 87, 88, 89, 96, 176, 264} {
		var s snacl.SecretKey
		err := s.Unmarshal(m3[:L])
		obs.Calls++
		c := 0
		switch {
		case err == nil:
		case errors.Is(err, snacl.ErrMalformed):
			c = 1
		default:
			c = 3
		}
		obs.Lens = append(obs.Lens, [2]int{L, c})
		if L != len(m) && err == nil {
			// not demanded by the property text: compared with the model only
			cs.Tags = append(cs.Tags, "wrong_length_params_accepted")
		}
		if L == len(m) && err != nil {
			o.add("marshal_roundtrip_mismatch")
		}
	}
	if obs.HmacEquivAccepted > 0 {
		cs.Tags = append(cs.Tags, "hmac_equivalent_near_miss_accepted")
	}
	switch {
	case len(pw) == 0:
		cs.Tags = append(cs.Tags, "pw_empty")
	case len(pw) <= 16:
		cs.Tags = append(cs.Tags, "pw_1_16")
	default:
		cs.Tags = append(cs.Tags, "pw_long")
	}
	cs.Oracle = o.kinds
	return cs
}

// tooBig says whether scrypt with these parameters could allocate more than
// 64 MiB or run for long; such parameter flips are not tried (counted).
// Parameters that scrypt refuses before allocating anything are tried.
func tooBig(N, r, p int) bool {
	if r < 0 || p < 0 {
		// refused by the r*p bound unless the unsigned product wraps around
		return uint64(r)*uint64(p) < 1<<30
	}
	if N <= 1 || r == 0 || p == 0 {
		return false // immediate error (or division by zero) in scrypt.Key
	}
	if N&(N-1) != 0 {
		return false // "N must be > 1 and a power of 2": refused first
	}
	const capBytes = float64(64 << 20)
	fN, fr, fp := float64(N), float64(r), float64(p)
	if 128*fr*fN > capBytes || 128*fr*fp > capBytes || fN*fr*fp > float64(1<<24) {
		return true
	}
	return false
}

func runParams(in c17Input) c17Case {
	cs := c17Case{In: in, Site: "snacl.SecretKey.DeriveKey", Tags: []string{"params"}}
	var o oracle
	obs := &cs.Obs
	pw := unhx(in.Pass)
	pwc := append([]byte{}, pw...)
	sk, err := snacl.NewSecretKey(&pwc, in.N, in.R, in.P)
	if err != nil {
		obs.Created = "error: " + err.Error()
		cs.Tags = append(cs.Tags, "create_error")
		cs.Oracle = o.kinds
		return cs
	}
	obs.Created = "ok"
	m := sk.Marshal()
	obs.Salt, obs.Digest, obs.Marshalled = hx(sk.Parameters.Salt[:]), hx(sk.Parameters.Digest[:]), hx(m)
	// sanity: the untouched bytes are accepted
	{
		var s snacl.SecretKey
		if err := s.Unmarshal(m); err != nil {
			o.add("marshal_roundtrip_mismatch")
		} else if c, _ := derive(&s, pw); c != dkAccepted {
			o.add("right_passphrase_rejected")
		}
		obs.Calls += 2
	}
	buf := make([]byte, len(m))
	for i := range m {
		for j := 0; j < 8; j++ {
			copy(buf, m)
			buf[i] ^= 1 << uint(j)
			var s snacl.SecretKey
			obs.Calls++
			if err := s.Unmarshal(buf); err != nil {
				obs.ParamFlips = append(obs.ParamFlips, dkUnmarshalE)
				continue
			}
			if tooBig(s.Parameters.N, s.Parameters.R, s.Parameters.P) {
				obs.ParamFlips = append(obs.ParamFlips, dkSkipped)
				obs.Skipped++
				continue
			}
			c, msg := derive(&s, pw)
			obs.Calls++
			obs.ParamFlips = append(obs.ParamFlips, c)
			switch c {
			case dkAccepted:
				o.add("params_flip_accepted")
				if len(obs.Accepted) < 4 {
					obs.Accepted = append(obs.Accepted, fmt.Sprintf("flip:%d:%d", i, j))
				}
			case dkPanic:
				obs.Panics++
				if obs.PanicSample == "" {
					obs.PanicSample = fmt.Sprintf("byte %d bit %d (N=%d r=%d p=%d): %s", i, j,
						s.Parameters.N, s.Parameters.R, s.Parameters.P, msg)
				}
			case dkKdfError:
				obs.KdfErrors++
			}
		}
	}
	if obs.Skipped > 0 {
		cs.Tags = append(cs.Tags, "some_flips_skipped_too_large")
	}
	if obs.Panics > 0 {
		cs.Tags = append(cs.Tags, "scrypt_panicked_on_flipped_params")
	}
	cs.Oracle = o.kinds
	return cs
}

// ---- waddrmgr

type mgrEnv struct {
	dir string
	db  walletdb.DB
	mgr *waddrmgr.Manager
}

var (
	mgrNS      = []byte("waddrmgr")
	mgrPubPass = []byte("pub-c17")
	mgrPrvPass = []byte("priv-c17")
)

func newMgrEnv(seed []byte) (*mgrEnv, error) {
	dir, err := os.MkdirTemp("", "vh-c17-")
	if err != nil {
		return nil, err
	}
	db, err := walletdb.Create("bdb", filepath.Join(dir, "c17.db"), true, time.Minute, false)
	if err != nil {
		os.RemoveAll(dir)
		return nil, err
	}
	e := &mgrEnv{dir: dir, db: db}
	root, err := hdkeychain.NewMaster(seed, &chaincfg.MainNetParams)
	if err != nil {
		e.close()
		return nil, err
	}
	err = walletdb.Update(db, func(tx walletdb.ReadWriteTx) error {
		ns, err := tx.CreateTopLevelBucket(mgrNS)
		if err != nil {
			return err
		}
		if err := waddrmgr.Create(ns, root, mgrPubPass, mgrPrvPass, &chaincfg.MainNetParams,
			&waddrmgr.FastScryptOptions, time.Time{}); err != nil {
			return err
		}
		e.mgr, err = waddrmgr.Open(ns, mgrPubPass, &chaincfg.MainNetParams)
		return err
	})
	if err != nil {
		e.close()
		return nil, err
	}
	return e, nil
}

func (e *mgrEnv) close() {
	if e.mgr != nil {
		e.mgr.Close()
	}
	if e.db != nil {
		e.db.Close()
	}
	os.RemoveAll(e.dir)
}

func (e *mgrEnv) unlock() error {
	return walletdb.View(e.db, func(tx walletdb.ReadTx) error {
		return e.mgr.Unlock(tx.ReadBucket(mgrNS), mgrPrvPass)
	})
}

func runMgr(e *mgrEnv, in c17Input) (c17Case, error) {
	cs := c17Case{In: in, Site: "waddrmgr.Manager.Decrypt", Tags: []string{"mgr", fmt.Sprintf("kt%d", in.KT)}}
	var o oracle
	obs := &cs.Obs
	pt := unhx(in.PT)
	kt := waddrmgr.CryptoKeyType(in.KT)
	if e.mgr.IsLocked() {
		if err := e.unlock(); err != nil {
			return cs, err
		}
	}
	ct, err := e.mgr.Encrypt(kt, pt)
	if err != nil {
		return cs, fmt.Errorf("Manager.Encrypt: %v", err)
	}
	obs.CTLen = len(ct)
	obs.Nonce = hx(ct[:snacl.NonceSize])
	refusal := false
	if in.Locked {
		if err := e.mgr.Lock(); err != nil {
			return cs, err
		}
		cs.Tags = append(cs.Tags, "locked")
		refusal = kt != waddrmgr.CKTPublic
	}
	dec := func(b []byte) ([]byte, error) { return e.mgr.Decrypt(kt, b) }
	tamper(ct, pt, dec, clsMgr, refusal, obs, &o)
	if refusal && obs.RT != clsLocked {
		// lock state is C05's subject: compared with the model only
		cs.Tags = append(cs.Tags, "locked_manager_decrypted")
	}
	for _, other := range []waddrmgr.CryptoKeyType{waddrmgr.CKTPrivate, waddrmgr.CKTScript, waddrmgr.CKTPublic} {
		if other == kt {
			continue
		}
		out, err := e.mgr.Decrypt(other, ct)
		obs.Calls++
		obs.Cross = append(obs.Cross, [2]int{int(other), clsMgr(pt, out, err)})
		if err == nil {
			o.add("wrong_key_accepted")
		} else if out != nil {
			o.add("data_returned_with_error")
		}
	}
	if !in.Locked {
		c2, err := e.mgr.Encrypt(kt, pt)
		if err == nil && bytes.Equal(c2, ct) {
			o.add("equal_ciphertexts")
		}
	}
	cs.Tags = append(cs.Tags, lenTag(len(pt)))
	cs.Oracle = o.kinds
	return cs, nil
}

// ---- generation

var spread = []int{0, 1, 15, 16, 17, 31, 32, 33, 63, 64, 65, 255, 256, 300}

// Every DeriveKey forces a garbage collection (snacl calls
// debug.FreeOSMemory after scrypt); with many Ps each of them costs
// milliseconds of parallel-mark start-up, with one P a fraction of that, and
// nothing here runs concurrently.
func main() {
	runtime.GOMAXPROCS(1)
	var probe bool
	core.Main("c17", func(fs *flag.FlagSet) {
		fs.BoolVar(&probe, "probe", false, "print the behaviourally determined code facts of Generated/SnaclFacts.v (probe.go) and exit")
	}, func(c *core.Common, out *core.Emitter) error {
		if probe {
			return runProbe()
		}
		var env *mgrEnv
		var penv *passEnv
		defer func() {
			if env != nil {
				env.close()
			}
			if penv != nil {
				penv.close()
			}
		}()
		emit := func(cs c17Case) {
			if cs.Oracle == nil {
				cs.Oracle = []string{}
			}
			out.Emit(cs)
		}
		run := func(in c17Input, allBits bool) error {
			switch in.Kind {
			case "cipher":
				emit(runCipher(in))
			case "pass":
				emit(runPass(in, allBits))
			case "params":
				emit(runParams(in))
			case "mgrpass":
				cs, err := runMgrPass(&penv, in, allBits)
				if err != nil {
					return err
				}
				emit(cs)
			case "mgr":
				if env == nil {
					var err error
					env, err = newMgrEnv(bytes.Repeat([]byte{0x17}, 32))
					if err != nil {
						return fmt.Errorf("cannot create address manager: %v", err)
					}
				}
				cs, err := runMgr(env, in)
				if err != nil {
					return err
				}
				emit(cs)
			default:
				return fmt.Errorf("unknown case kind %q", in.Kind)
			}
			return nil
		}
		if c.Replay != "" {
			return core.ReadReplay(c.Replay, func(raw json.RawMessage) error {
				var cs struct {
					In c17Input `json:"in"`
				}
				if err := json.Unmarshal(raw, &cs); err != nil {
					return err
				}
				return run(cs.In, true)
			})
		}
		thorough := c.Tier == "thorough"
		// each part draws from its own stream of the seed
		if err := genCipher(c, gen.New(c.Seed, 17), thorough, run); err != nil {
			return err
		}
		if err := genPass(c, gen.New(c.Seed, 18), thorough, run); err != nil {
			return err
		}
		if err := genMgr(c, gen.New(c.Seed, 19), thorough, run); err != nil {
			return err
		}
		return genMgrPass(c, gen.New(c.Seed, 20), thorough, run)
	})
}

type runFn func(in c17Input, allBits bool) error

func genCipher(c *core.Common, r *gen.R, thorough bool, run runFn) error {
	// the spread of lengths (thorough: every length 0..300)
	lens := spread
	if thorough {
		lens = nil
		for i := 0; i <= 300; i++ {
			lens = append(lens, i)
		}
	}
	for k, n := range lens {
		in := c17Input{Kind: "cipher", PT: hx(r.Bytes(n)), Key: hx(r.Bytes(32))}
		in.AllKey = n == 32 || (thorough && k%25 == 0)
		if err := run(in, false); err != nil {
			return err
		}
	}
	// degenerate contents: all-zero plaintext / key, all-ones
	for _, in := range []c17Input{
		{Kind: "cipher", PT: hx(make([]byte, 48)), Key: hx(make([]byte, 32))},
		{Kind: "cipher", PT: hx(bytes.Repeat([]byte{0xff}, 40)), Key: hx(bytes.Repeat([]byte{0xff}, 32))},
		{Kind: "cipher", PT: "", Key: hx(make([]byte, 32))},
	} {
		if err := run(in, false); err != nil {
			return err
		}
	}
	for i := 0; i < c.N; i++ {
		n := r.Range(0, 300)
		if r.Chance(1, 3) {
			n = r.Range(0, 40)
		}
		if err := run(c17Input{Kind: "cipher", PT: hx(r.Bytes(n)), Key: hx(r.Bytes(32))}, false); err != nil {
			return err
		}
	}
	return nil
}

func genPass(c *core.Common, r *gen.R, thorough bool, run runFn) error {
	passes := basePassphrases(r.Bytes)
	np := c.N / 4
	if thorough {
		np = c.N / 2
	}
	for i := 0; i < np; i++ {
		passes = append(passes, r.Bytes(r.Range(1, 40)))
	}
	for i, pw := range passes {
		in := c17Input{Kind: "pass", Pass: hx(pw), N: 16, R: 8, P: 1}
		if i%4 == 1 {
			in.N, in.R, in.P = 2, 1, 1
		}
		if thorough && i%4 == 2 {
			in.N, in.R, in.P = 64, 2, 2
		}
		if err := run(in, thorough); err != nil {
			return err
		}
	}
	// a parameter set scrypt refuses: NewSecretKey must fail, no key
	if err := run(c17Input{Kind: "pass", Pass: hx([]byte("x")), N: 15, R: 8, P: 1}, false); err != nil {
		return err
	}

	// marshalled parameter flips
	type nrp struct{ n, r, p int }
	combos := []nrp{{16, 8, 1}, {2, 1, 1}}
	if thorough {
		combos = append(combos, nrp{1024, 8, 1}, nrp{16, 1, 2}, nrp{32, 2, 3}, nrp{16, 8, 1}, nrp{4096, 4, 2})
	}
	for i, q := range combos {
		pw := []byte("params-" + fmt.Sprint(i))
		if i == 1 {
			pw = []byte{}
		}
		if err := run(c17Input{Kind: "params", Pass: hx(pw), N: q.n, R: q.r, P: q.p}, false); err != nil {
			return err
		}
	}
	return nil
}

func genMgr(c *core.Common, r *gen.R, thorough bool, run runFn) error {
	mlens := []int{0, 1, 16, 33, 64, 100}
	if thorough {
		mlens = append(mlens, 15, 17, 31, 32, 65, 128, 255, 256, 300)
	}
	for _, n := range mlens {
		for kt := 0; kt < 3; kt++ {
			if err := run(c17Input{Kind: "mgr", PT: hx(r.Bytes(n)), KT: kt}, false); err != nil {
				return err
			}
		}
	}
	for kt := 0; kt < 3; kt++ {
		if err := run(c17Input{Kind: "mgr", PT: hx(r.Bytes(16)), KT: kt, Locked: true}, false); err != nil {
			return err
		}
	}
	return nil
}

// waddrmgr: where a passphrase is checked (Open with the public one, Unlock
// and ChangePassphrase's old-passphrase check), on managers created with
// passphrase pairs drawn from the same base family.
func genMgrPass(c *core.Common, r *gen.R, thorough bool, run runFn) error {
	pairs := mgrPassPairs(basePassphrases(r.Bytes), thorough)
	for _, pp := range pairs {
		for _, op := range mgrOps {
			in := c17Input{Kind: "mgrpass", Op: op, Pub: hx(pp[0]), Priv: hx(pp[1])}
			if err := run(in, thorough); err != nil {
				return err
			}
		}
	}
	return nil
}
