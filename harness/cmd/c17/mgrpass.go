package main

// waddrmgr level of "bound to the right passphrase": the three places where
// the address manager checks a passphrase, each driven with the right
// passphrase and with every near miss of it.
//
//	open             waddrmgr.Open(ns, pubPassphrase)        loadManager -> masterKeyPub.DeriveKey
//	unlock           Manager.Unlock on a LOCKED manager       masterKeyPriv.DeriveKey
//	unlock_unlocked  Manager.Unlock on an UNLOCKED manager    salted SHA-512 of the passphrase
//	change_pub       ChangePassphrase(old, new, private=false) DeriveKey on a copy of the public parameters
//	change_priv      ChangePassphrase(old, new, private=true)  DeriveKey on a copy of the private parameters
//
// ChangePassphrase is always asked to change TO the manager's current
// passphrase, so that an (unexpectedly) accepted old passphrase leaves the
// manager with the passphrases the case was created with.

import (
	"bytes"
	"fmt"
	"os"
	"path/filepath"
	"time"

	"github.com/btcsuite/btcd/btcutil/hdkeychain"
	"github.com/btcsuite/btcd/chaincfg"
	"github.com/btcsuite/btcwallet/waddrmgr"
	"github.com/btcsuite/btcwallet/walletdb"
)

var mgrOps = []string{"open", "unlock", "unlock_unlocked", "change_pub", "change_priv"}

var mgrOpSite = map[string]string{
	"open":            "waddrmgr.Open",
	"unlock":          "waddrmgr.Manager.Unlock",
	"unlock_unlocked": "waddrmgr.Manager.Unlock",
	"change_pub":      "waddrmgr.Manager.ChangePassphrase",
	"change_priv":     "waddrmgr.Manager.ChangePassphrase",
}

// passphrase-check classes
const (
	pwAccepted = 0
	pwWrong    = 1 // ErrWrongPassphrase
	pwOther    = 3 // any other error
	pwPanic    = 9
	// unlock_unlocked only: the manager could not be unlocked with the right
	// passphrase beforehand, so nothing was presented
	pwUnreachable = 5
)

type mgrNear struct {
	Name  string `json:"name"`
	PW    string `json:"pw"`
	Cls   int    `json:"cls"`
	Equiv bool   `json:"hmac_equiv,omitempty"`
}

type passEnv struct {
	pub, priv []byte
	dir       string
	db        walletdb.DB
	mgr       *waddrmgr.Manager
}

func newPassEnv(pub, priv []byte) (*passEnv, error) {
	dir, err := os.MkdirTemp("", "vh-c17p-")
	if err != nil {
		return nil, err
	}
	db, err := walletdb.Create("bdb", filepath.Join(dir, "c17p.db"), true, time.Minute, false)
	if err != nil {
		os.RemoveAll(dir)
		return nil, err
	}
	e := &passEnv{pub: append([]byte{}, pub...), priv: append([]byte{}, priv...), dir: dir, db: db}
	root, err := hdkeychain.NewMaster(bytes.Repeat([]byte{0x71}, 32), &chaincfg.MainNetParams)
	if err != nil {
		e.close()
		return nil, err
	}
	err = walletdb.Update(db, func(tx walletdb.ReadWriteTx) error {
		ns, err := tx.CreateTopLevelBucket(mgrNS)
		if err != nil {
			return err
		}
		if err := waddrmgr.Create(ns, root, e.cp(e.pub), e.cp(e.priv), &chaincfg.MainNetParams,
			&waddrmgr.FastScryptOptions, time.Time{}); err != nil {
			return err
		}
		e.mgr, err = waddrmgr.Open(ns, e.cp(e.pub), &chaincfg.MainNetParams)
		return err
	})
	if err != nil {
		e.close()
		return nil, err
	}
	return e, nil
}

func (e *passEnv) cp(b []byte) []byte { return append([]byte{}, b...) }

func (e *passEnv) close() {
	if e.mgr != nil {
		e.mgr.Close()
	}
	if e.db != nil {
		e.db.Close()
	}
	os.RemoveAll(e.dir)
}

func pwClass(err error) int {
	switch {
	case err == nil:
		return pwAccepted
	case waddrmgr.IsError(err, waddrmgr.ErrWrongPassphrase):
		return pwWrong
	}
	return pwOther
}

func (e *passEnv) unlockWith(pw []byte) error {
	return walletdb.View(e.db, func(tx walletdb.ReadTx) error {
		return e.mgr.Unlock(tx.ReadBucket(mgrNS), e.cp(pw))
	})
}

func (e *passEnv) ensureLocked() {
	if !e.mgr.IsLocked() {
		e.mgr.Lock()
	}
}

// attempt performs the operation with the presented passphrase and returns
// its class; the manager is brought into the operation's starting state first
// (with the right passphrase) and left locked.
func (e *passEnv) attempt(op string, pw []byte) (cls int, err error) {
	defer func() {
		if r := recover(); r != nil {
			cls, err = pwPanic, nil
		}
	}()
	switch op {
	case "open":
		var m *waddrmgr.Manager
		oerr := walletdb.View(e.db, func(tx walletdb.ReadTx) error {
			var err error
			m, err = waddrmgr.Open(tx.ReadBucket(mgrNS), e.cp(pw), &chaincfg.MainNetParams)
			return err
		})
		if oerr == nil && m != nil {
			m.Close()
		}
		return pwClass(oerr), nil
	case "unlock":
		e.ensureLocked()
		uerr := e.unlockWith(pw)
		e.ensureLocked()
		return pwClass(uerr), nil
	case "unlock_unlocked":
		if e.mgr.IsLocked() {
			if err := e.unlockWith(e.priv); err != nil {
				// the starting state cannot be reached: the right
				// passphrase does not unlock (judged by the caller)
				return pwUnreachable, nil
			}
		}
		uerr := e.unlockWith(pw)
		e.ensureLocked()
		return pwClass(uerr), nil
	case "change_pub", "change_priv":
		private := op == "change_priv"
		target := e.pub
		if private {
			target = e.priv
		}
		e.ensureLocked()
		cerr := walletdb.Update(e.db, func(tx walletdb.ReadWriteTx) error {
			return e.mgr.ChangePassphrase(tx.ReadWriteBucket(mgrNS), e.cp(pw), e.cp(target), private,
				&waddrmgr.FastScryptOptions)
		})
		return pwClass(cerr), nil
	}
	return pwOther, fmt.Errorf("unknown mgrpass operation %q", op)
}

// presented is the list of passphrases offered instead of base: the named
// ones of the input (a replay of one failing pair) or the generated near misses.
func presented(in c17Input, base []byte, allBits bool) []near {
	if len(in.Try) == 0 {
		return nearMisses(base, allBits)
	}
	var out []near
	for i, h := range in.Try {
		b := unhx(h)
		if !bytes.Equal(b, base) {
			out = append(out, near{fmt.Sprintf("try:%d", i), b})
		}
	}
	return out
}

func runMgrPass(penv **passEnv, in c17Input, allBits bool) (c17Case, error) {
	cs := c17Case{In: in, Site: mgrOpSite[in.Op], Tags: []string{"mgrpass", "op_" + in.Op}}
	var o oracle
	obs := &cs.Obs
	pub, priv := unhx(in.Pub), unhx(in.Priv)
	if *penv == nil || !bytes.Equal((*penv).pub, pub) || !bytes.Equal((*penv).priv, priv) {
		if *penv != nil {
			(*penv).close()
			*penv = nil
		}
		e, err := newPassEnv(pub, priv)
		if err != nil {
			if waddrmgr.IsError(err, waddrmgr.ErrWrongPassphrase) {
				// Create succeeded and Open with the very same public
				// passphrase is refused: judged, not a harness failure
				o.add("right_passphrase_rejected")
				obs.RightOK = pwWrong
				cs.Tags = append(cs.Tags, "manager_unopenable_with_its_own_passphrase")
				cs.Oracle = o.kinds
				return cs, nil
			}
			return cs, fmt.Errorf("cannot create address manager with the case's passphrases: %v", err)
		}
		*penv = e
	}
	e := *penv
	base := pub
	if in.Op != "open" && in.Op != "change_pub" {
		base = priv
	}
	// unlock_unlocked compares a salted SHA-512 of the passphrase: no HMAC
	// key block is involved, so nothing but the passphrase itself may pass
	viaKdf := in.Op != "unlock_unlocked"

	c, err := e.attempt(in.Op, base)
	if err != nil {
		return cs, err
	}
	obs.Calls++
	obs.RightOK = c
	if c != pwAccepted {
		o.add("right_passphrase_rejected")
	}
	for _, nm := range presented(in, base, allBits) {
		c, err := e.attempt(in.Op, nm.pw)
		if err != nil {
			return cs, err
		}
		obs.Calls++
		equiv := viaKdf && hmacBlock(base) == hmacBlock(nm.pw)
		obs.MgrNear = append(obs.MgrNear, mgrNear{nm.name, hx(nm.pw), c, equiv})
		if c == pwAccepted {
			k := "wrong_passphrase_accepted"
			if equiv {
				k = "hmac_equivalent_passphrase_accepted"
				obs.HmacEquivAccepted++
			}
			o.add(k)
			obs.AcceptedPairs = append(obs.AcceptedPairs, acceptedPair{hx(base), hx(nm.pw), nm.name, k, in.Op})
		}
		if c == pwPanic {
			o.add("passphrase_check_panicked")
		}
		if c == pwUnreachable {
			o.add("right_passphrase_rejected")
		}
	}
	// and the right passphrase still works after all the attempts
	c, err = e.attempt(in.Op, base)
	if err != nil {
		return cs, err
	}
	obs.Calls++
	obs.StillOK = c == pwAccepted
	if !obs.StillOK {
		o.add("right_passphrase_rejected")
	}
	if obs.HmacEquivAccepted > 0 {
		cs.Tags = append(cs.Tags, "hmac_equivalent_near_miss_accepted")
	}
	switch {
	case len(base) == 0:
		cs.Tags = append(cs.Tags, "pw_empty")
	case len(base) <= 16:
		cs.Tags = append(cs.Tags, "pw_1_16")
	default:
		cs.Tags = append(cs.Tags, "pw_long")
	}
	cs.Oracle = o.kinds
	return cs, nil
}

// mgrPassPairs: (public, private) passphrases of the managers the mgrpass
// cases run on; the private passphrase is never empty (Create refuses it).
func mgrPassPairs(passes [][]byte, thorough bool) [][2][]byte {
	find := func(n int) []byte { // the ASCII base passphrase of length n
		for _, p := range passes {
			if len(p) == n && bytes.IndexFunc(p, func(r rune) bool { return r < 'A' || r > 'z' }) < 0 {
				return p
			}
		}
		return bytes.Repeat([]byte{'x'}, n)
	}
	pairs := [][2][]byte{
		{{}, []byte("a")},
		{find(63), find(64)},
		{find(65), find(100)},
		{[]byte("pässwörd-ünïcode"), []byte("Crème Brûlée")},
		{[]byte("secret\n"), []byte("line1\r\nline2")},
		{[]byte(" lead and trail "), []byte("nul-terminated\x00")},
		{[]byte("ab\x00cd"), []byte("\ttabbed\t")},
		{[]byte("Password1!"), []byte("secret\r\n")},
	}
	if thorough {
		for i, p := range passes {
			q := passes[(i+5)%len(passes)]
			if len(q) == 0 {
				q = []byte("q")
			}
			pairs = append(pairs, [2][]byte{p, q})
		}
	}
	return pairs
}
