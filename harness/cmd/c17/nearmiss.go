package main

// Near-miss passphrases: for a creating passphrase pw, the family of "almost
// the same" passphrases a careless wrapper could identify with it (trimming,
// normalising, truncating, folding case ...).  The property says every one of
// them is refused; the only accepted ones on the pinned code are the HMAC
// key-block equivalents (recorded finding), recognised by hmacBlock equality
// and by nothing else.

import (
	"bytes"
	"crypto/sha256"
	"fmt"
)

type near struct {
	name string
	pw   []byte
}

// the terminator / blank family of goal 1
var blanks = []struct {
	name string
	b    []byte
}{
	{"nul", []byte{0}},
	{"space", []byte{' '}},
	{"tab", []byte{'\t'}},
	{"cr", []byte{'\r'}},
	{"lf", []byte{'\n'}},
	{"crlf", []byte{'\r', '\n'}},
}

// truncation lengths of well-known careless KDF front ends (DES crypt 8, 16,
// 32-byte keys, the HMAC block 64, bcrypt 72)
var truncLens = []int{8, 16, 32, 64, 72}

// Latin-1 letters with a canonical decomposition: second UTF-8 byte of the
// precomposed letter (first byte 0xC3) -> base letter and second byte of the
// combining mark (first byte 0xCC; cedilla is U+0327 = CC A7).
var decomp = map[byte][2]byte{
	0x80: {'A', 0x80}, 0x81: {'A', 0x81}, 0x82: {'A', 0x82}, 0x83: {'A', 0x83}, 0x84: {'A', 0x88}, 0x85: {'A', 0x8a},
	0x87: {'C', 0xa7},
	0x88: {'E', 0x80}, 0x89: {'E', 0x81}, 0x8a: {'E', 0x82}, 0x8b: {'E', 0x88},
	0x8c: {'I', 0x80}, 0x8d: {'I', 0x81}, 0x8e: {'I', 0x82}, 0x8f: {'I', 0x88},
	0x91: {'N', 0x83},
	0x92: {'O', 0x80}, 0x93: {'O', 0x81}, 0x94: {'O', 0x82}, 0x95: {'O', 0x83}, 0x96: {'O', 0x88},
	0x99: {'U', 0x80}, 0x9a: {'U', 0x81}, 0x9b: {'U', 0x82}, 0x9c: {'U', 0x88}, 0x9d: {'Y', 0x81},
	0xa0: {'a', 0x80}, 0xa1: {'a', 0x81}, 0xa2: {'a', 0x82}, 0xa3: {'a', 0x83}, 0xa4: {'a', 0x88}, 0xa5: {'a', 0x8a},
	0xa7: {'c', 0xa7},
	0xa8: {'e', 0x80}, 0xa9: {'e', 0x81}, 0xaa: {'e', 0x82}, 0xab: {'e', 0x88},
	0xac: {'i', 0x80}, 0xad: {'i', 0x81}, 0xae: {'i', 0x82}, 0xaf: {'i', 0x88},
	0xb1: {'n', 0x83},
	0xb2: {'o', 0x80}, 0xb3: {'o', 0x81}, 0xb4: {'o', 0x82}, 0xb5: {'o', 0x83}, 0xb6: {'o', 0x88},
	0xb9: {'u', 0x80}, 0xba: {'u', 0x81}, 0xbb: {'u', 0x82}, 0xbc: {'u', 0x88}, 0xbd: {'y', 0x81}, 0xbf: {'y', 0x88},
}

var recomp = func() map[[2]byte]byte {
	m := map[[2]byte]byte{}
	for c, d := range decomp {
		m[d] = c
	}
	return m
}()

// toNFD decomposes the precomposed letters of the table (at most max of them;
// max < 0 = all); dropMarks also removes the combining mark (ASCII folding).
func toNFD(pw []byte, max int, dropMarks bool) []byte {
	var out []byte
	for i := 0; i < len(pw); i++ {
		if pw[i] == 0xc3 && i+1 < len(pw) && max != 0 {
			if d, ok := decomp[pw[i+1]]; ok {
				out = append(out, d[0])
				if !dropMarks {
					out = append(out, 0xcc, d[1])
				}
				i++
				max--
				continue
			}
		}
		out = append(out, pw[i])
	}
	return out
}

// toNFC composes base letter + combining mark of the table.
func toNFC(pw []byte) []byte {
	var out []byte
	for i := 0; i < len(pw); i++ {
		if i+2 < len(pw) && pw[i+1] == 0xcc {
			if c, ok := recomp[[2]byte{pw[i], pw[i+2]}]; ok {
				out = append(out, 0xc3, c)
				i += 2
				continue
			}
		}
		out = append(out, pw[i])
	}
	return out
}

// dropMarksOnly removes combining marks U+0300..U+033F (CC 80..BF).
func dropMarksOnly(pw []byte) []byte {
	var out []byte
	for i := 0; i < len(pw); i++ {
		if pw[i] == 0xcc && i+1 < len(pw) && pw[i+1] >= 0x80 && pw[i+1] <= 0xbf {
			i++
			continue
		}
		out = append(out, pw[i])
	}
	return out
}

func isLetter(c byte) bool { return (c >= 'a' && c <= 'z') || (c >= 'A' && c <= 'Z') }

// utf8Case changes the case of ASCII letters and of the Latin-1 letters
// (C3 80..9E <-> C3 A0..BE, without the multiplication / division signs):
// mode 0 upper, 1 lower, 2 swap.
func utf8Case(pw []byte, mode int) []byte {
	out := append([]byte{}, pw...)
	for i := 0; i < len(out); i++ {
		c := out[i]
		switch {
		case c >= 'a' && c <= 'z' && mode != 1:
			out[i] = c - 32
		case c >= 'A' && c <= 'Z' && mode != 0:
			out[i] = c + 32
		case c == 0xc3 && i+1 < len(out):
			d := out[i+1]
			if d >= 0xa0 && d <= 0xbe && d != 0xb7 && mode != 1 {
				out[i+1] = d - 0x20
			} else if d >= 0x80 && d <= 0x9e && d != 0x97 && mode != 0 {
				out[i+1] = d + 0x20
			}
			i++
		}
	}
	return out
}

func cat(parts ...[]byte) []byte {
	var out []byte
	for _, p := range parts {
		out = append(out, p...)
	}
	if out == nil {
		out = []byte{}
	}
	return out
}

// nearMisses returns the near misses of pw, each once, never pw itself.
// all = every single-bit flip (replay, thorough tier); otherwise every
// single-bit flip of passphrases up to 16 bytes and the eight bit flips of at
// most 14 byte positions spread over a longer one.
func nearMisses(pw []byte, all bool) []near {
	var out []near
	seen := map[string]bool{string(pw): true}
	add := func(name string, b []byte) {
		if b == nil {
			b = []byte{}
		}
		if seen[string(b)] {
			return
		}
		seen[string(b)] = true
		out = append(out, near{name, b})
	}
	// one flipped bit (a flip of bit 5 of a letter is a case change)
	pos := map[int]bool{}
	if all {
		for i := range pw {
			pos[i] = true
		}
	} else if n := len(pw); n > 0 {
		step := 1
		if n > 16 {
			step = n/12 + 1
		}
		for i := 0; i < n; i += step {
			pos[i] = true
		}
		pos[n-1] = true
	}
	for i := 0; i < len(pw); i++ {
		if !pos[i] {
			continue
		}
		for j := 0; j < 8; j++ {
			b := append([]byte{}, pw...)
			b[i] ^= 1 << uint(j)
			name := fmt.Sprintf("bit:%d:%d", i, j)
			if j == 5 && isLetter(pw[i]) {
				name = fmt.Sprintf("case:%d", i)
			}
			add(name, b)
		}
	}
	// case changes: first / last letter, whole passphrase (ASCII and Latin-1)
	for i := 0; i < len(pw); i++ {
		if isLetter(pw[i]) {
			b := append([]byte{}, pw...)
			b[i] ^= 0x20
			add("case_first_letter", b)
			break
		}
	}
	for i := len(pw) - 1; i >= 0; i-- {
		if isLetter(pw[i]) {
			b := append([]byte{}, pw...)
			b[i] ^= 0x20
			add("case_last_letter", b)
			break
		}
	}
	add("upper", utf8Case(pw, 0))
	add("lower", utf8Case(pw, 1))
	add("swapcase", utf8Case(pw, 2))
	add("ascii_upper", bytes.ToUpper(pw))
	add("ascii_lower", bytes.ToLower(pw))

	// blanks and terminators: appended, prepended, stripped, removed, converted
	for _, w := range blanks {
		add("append_"+w.name, cat(pw, w.b))
		add("append2_"+w.name, cat(pw, w.b, w.b))
		add("prepend_"+w.name, cat(w.b, pw))
		add("wrap_"+w.name, cat(w.b, pw, w.b))
		if bytes.HasSuffix(pw, w.b) {
			add("strip_trailing_"+w.name, cat(pw[:len(pw)-len(w.b)]))
		}
		if bytes.HasPrefix(pw, w.b) {
			add("strip_leading_"+w.name, cat(pw[len(w.b):]))
		}
		if bytes.Contains(pw, w.b) {
			add("remove_all_"+w.name, bytes.ReplaceAll(pw, w.b, nil))
		}
	}
	add("trimright_crlf", bytes.TrimRight(pw, "\r\n"))
	add("trimright_blank", bytes.TrimRight(pw, " \t\r\n"))
	add("trimleft_blank", bytes.TrimLeft(pw, " \t\r\n"))
	add("trimspace", cat(bytes.TrimSpace(pw)))
	add("trimright_nul", bytes.TrimRight(pw, "\x00"))
	add("trim_nul_and_blank", bytes.Trim(pw, "\x00 \t\r\n"))
	add("cut_at_first_nul", cutAt(pw, 0))
	add("cut_at_first_lf", cutAt(pw, '\n'))
	add("cut_at_first_cr", cutAt(pw, '\r'))
	add("lf_to_crlf", bytes.ReplaceAll(bytes.ReplaceAll(pw, []byte("\r\n"), []byte("\n")), []byte("\n"), []byte("\r\n")))
	add("crlf_to_lf", bytes.ReplaceAll(pw, []byte("\r\n"), []byte("\n")))
	add("tab_to_space", bytes.ReplaceAll(pw, []byte("\t"), []byte(" ")))
	add("collapse_spaces", bytes.Join(bytes.Fields(pw), []byte(" ")))
	add("append_nul_a", cat(pw, []byte{0, 'a'}))
	add("append_a", cat(pw, []byte{'a'}))

	// Unicode normalisation variants of accented letters
	add("nfd_all", toNFD(pw, -1, false))
	add("nfd_first", toNFD(pw, 1, false))
	add("nfc_all", toNFC(pw))
	add("strip_accents", dropMarksOnly(toNFD(pw, -1, true)))

	// truncation / extension
	for _, n := range truncLens {
		if len(pw) > n {
			add(fmt.Sprintf("trunc:%d", n), cat(pw[:n]))
		}
	}
	if len(pw) > 0 {
		add("drop_last", cat(pw[:len(pw)-1]))
		add("drop_first", cat(pw[1:]))
		add("empty", []byte{})
		b := append([]byte{}, pw...)
		b[0], b[len(b)-1] = b[len(b)-1], b[0]
		add("swap_ends", b)
	}
	add("doubled", cat(pw, pw))
	if len(pw) < 64 {
		// up to the HMAC block: the same key block (recorded finding) ...
		add("pad_nul_64", cat(pw, make([]byte, 64-len(pw))))
	}
	if len(pw) <= 64 {
		// ... one byte beyond it the padded passphrase is hashed: another block
		add("pad_nul_65", cat(pw, make([]byte, 65-len(pw))))
	}
	// the SHA-256 of the passphrase: the HMAC key block of a passphrase
	// longer than 64 bytes (recorded finding), a different passphrase for a
	// shorter one
	h := sha256.Sum256(pw)
	add("sha256", h[:])
	add("sha256_append_nul", cat(h[:], []byte{0}))
	add("sha256_append_a", cat(h[:], []byte{'a'}))
	return out
}

func cutAt(pw []byte, c byte) []byte {
	if i := bytes.IndexByte(pw, c); i >= 0 {
		return cat(pw[:i])
	}
	return cat(pw)
}

// The base passphrases every run covers (goal 1): empty, one byte, around the
// HMAC block, beyond the bcrypt bound, non-ASCII in both normal forms, and
// embedded / leading / trailing NUL, CR, LF, space, tab.
func basePassphrases(fill func(n int) []byte) [][]byte {
	ascii := func(n int) []byte {
		b := fill(n)
		for i := range b {
			b[i] = 'a' + b[i]%26
			if i%7 == 3 {
				b[i] -= 32
			}
		}
		return b
	}
	return [][]byte{
		{},
		[]byte("a"),
		[]byte("password"),
		[]byte("Password1!"),
		[]byte("correct horse battery staple"),
		{0},
		{0xff, 0xfe},
		[]byte("pässwörd-ünïcode"),
		toNFD([]byte("pässwörd-ünïcode"), -1, false),
		[]byte("Crème Brûlée"),
		ascii(63), ascii(64), ascii(65), ascii(100),
		fill(64), fill(200),
		[]byte("ab\x00cd"),
		[]byte("line1\r\nline2"),
		[]byte("two words\tand a tab"),
		[]byte("secret\n"),
		[]byte("secret\r\n"),
		[]byte("secret\r"),
		[]byte(" lead and trail "),
		[]byte("\ttabbed\t"),
		[]byte("nul-terminated\x00"),
		[]byte("\x00leading-nul"),
		[]byte("\r\nleading-crlf"),
		[]byte("\nleading-lf"),
		[]byte("\n"),
		[]byte(" "),
	}
}
