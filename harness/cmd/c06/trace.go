package main

// One trace = one real wallet over a simulated chain, driven by a list of
// operations; every transaction the wallet creates is judged against the
// independent ledger (ledger.go) and its inputs are verified by the script
// engine.

import (
	"bytes"
	"encoding/binary"
	"encoding/hex"
	"fmt"
	"sort"
	"strings"
	"time"

	"github.com/btcsuite/btcd/btcec/v2"
	"github.com/btcsuite/btcd/btcutil"
	"github.com/btcsuite/btcd/btcutil/psbt"
	"github.com/btcsuite/btcd/chaincfg"
	"github.com/btcsuite/btcd/chaincfg/chainhash"
	"github.com/btcsuite/btcd/txscript"
	"github.com/btcsuite/btcd/wire"
	"github.com/btcsuite/btcwallet/waddrmgr"
	"github.com/btcsuite/btcwallet/wallet"
	"github.com/btcsuite/btcwallet/wallet/txsizes"
	"github.com/btcsuite/btcwallet/walletdb"
	"github.com/btcsuite/btcwallet/wtxmgr"
	"github.com/lightningnetwork/lnd/clock"

	"verifharness/internal/simchain"
	"verifharness/internal/walletenv"
)

func hdPub(b []byte) (*btcec.PublicKey, error) { return btcec.ParsePubKey(b) }

var scopeOf = map[int]waddrmgr.KeyScope{
	44: waddrmgr.KeyScopeBIP0044,
	49: waddrmgr.KeyScopeBIP0049Plus,
	84: waddrmgr.KeyScopeBIP0084,
	86: waddrmgr.KeyScopeBIP0086,
}

// ---- inputs -------------------------------------------------------------

type fundOut struct {
	Scope    int    `json:"scope,omitempty"`
	Acct     uint32 `json:"acct,omitempty"`
	Amt      int64  `json:"amt"`
	Internal bool   `json:"int,omitempty"`
	Ext      bool   `json:"ext,omitempty"` // pays a script outside the wallet
}

type payOut struct {
	Kind  string `json:"kind"` // p2wpkh p2pkh p2tr p2sh p2wsh | own
	Scope int    `json:"scope,omitempty"`
	Acct  uint32 `json:"acct,omitempty"`
	Amt   int64  `json:"amt"`
}

type reqSpec struct {
	API      string   `json:"api"` // create | send | sendwith | fundpsbt
	Acct     uint32   `json:"acct"`
	Scope    int      `json:"scope"` // 0 = no key scope
	MinConf  int32    `json:"minconf"`
	Rate     int64    `json:"rate"`
	Strat    string   `json:"strat"` // largest | random | nil
	Pay      []payOut `json:"pay"`
	Dry      bool     `json:"dry,omitempty"`
	Publish  bool     `json:"publish,omitempty"`
	Reject   bool     `json:"reject,omitempty"`   // backend rejects the broadcast
	Explicit []int    `json:"explicit,omitempty"` // coin selectors (-1 = an outpoint nobody knows)
	Allow    []int    `json:"allow,omitempty"`    // WithUtxoFilter: only these coins
	HasAllow bool     `json:"has_allow,omitempty"`
	PsbtIn   []int    `json:"psbt_in,omitempty"` // FundPsbt with caller-supplied inputs
}

type op struct {
	K       string    `json:"k"` // fund cbfund spend mine reorg lock unlock lease release tick abandon publish req
	Outs    []fundOut `json:"outs,omitempty"`
	Conf    bool      `json:"conf,omitempty"`
	Coins   []int     `json:"coins,omitempty"`
	N       int       `json:"n,omitempty"`
	Include string    `json:"include,omitempty"` // all | none | half
	Depth   int       `json:"depth,omitempty"`
	Coin    int       `json:"coin,omitempty"`
	ID      int       `json:"id,omitempty"`
	Dur     int       `json:"dur,omitempty"`
	Dt      int       `json:"dt,omitempty"`
	Double  bool      `json:"double,omitempty"` // spend: outputs already spent by UNCONFIRMED transactions may be spent again
	Tx      int       `json:"tx,omitempty"`     // abandon: selector of a known unconfirmed transaction; publish: of a held one
	Reject  bool      `json:"reject,omitempty"` // publish: the backend rejects the broadcast
	Req     *reqSpec  `json:"req,omitempty"`
}

type c06Input struct {
	WSeed int  `json:"wseed"`
	Ops   []op `json:"ops"`
}

// ---- observations -------------------------------------------------------

type opRef [2]int64 // interned txid, output index

type candObs struct {
	Op  opRef    `json:"op"`
	Amt int64    `json:"amt"`
	H   int32    `json:"h"`
	CB  bool     `json:"cb"`
	Own *[2]int  `json:"own"` // address manager: purpose, account (null = not found)
	AT  string   `json:"at"`
	VS  int      `json:"vs"`
	Why []string `json:"why,omitempty"` // ledger's view for the request (evidence only)
}

type reqObs struct {
	API      string    `json:"api"`
	Site     string    `json:"site"`
	Acct     uint32    `json:"acct"`
	Scope    int       `json:"scope"`
	MinConf  int32     `json:"minconf"`
	Rate     int64     `json:"rate"`
	Strat    string    `json:"strat"`
	Explicit []opRef   `json:"explicit"`
	Allow    []opRef   `json:"allow"`
	HasAllow bool      `json:"has_allow"`
	Dry      bool      `json:"dry"`
	Sorted   bool      `json:"sorted"`
	Height   int32     `json:"height"`
	Maturity int32     `json:"maturity"`
	Locked   []opRef   `json:"locked"`
	Cands    []candObs `json:"cands"`
	Outcome  string    `json:"outcome"` // ok | refused | error
	Err      string    `json:"err,omitempty"`
	Inputs   []opRef   `json:"inputs"`
	Signed   bool      `json:"signed"`
	InModel  bool      `json:"in_model"` // compared with the selection model
	Bad      []string  `json:"bad,omitempty"`
	Note     []string  `json:"note,omitempty"`
}

type violation struct {
	Kind   string `json:"kind"`
	Site   string `json:"site"`
	Req    int    `json:"req"`
	Detail string `json:"detail"`
}

type c06Obs struct {
	Reqs    []reqObs `json:"reqs"`
	Deep    bool     `json:"deep_reorgs"`
	OpsRun  int      `json:"ops_run"`
	Problem string   `json:"problem,omitempty"`
}

// ---- trace --------------------------------------------------------------

type trace struct {
	env    *walletenv.Env
	w      *wallet.Wallet
	ch     *simchain.Chain
	clk    *clock.TestClock
	L      *ledger
	params *chaincfg.Params
	ctr    uint32
	intern map[chainhash.Hash]int64
	reqs   []reqObs
	viols  []violation
	tags   map[string]bool
	deep   bool
	noDisc map[int32]bool // heights the wallet can no longer detach (see probeDeepReorg)
	// scripts of outputs the harness asked for (to tell them from change)
	requested map[string]bool
	problem   string
	// signed transactions the wallet created and nobody has published yet
	held []*wire.MsgTx
}

var epoch = time.Unix(1700000000, 0)

func seedBytes(n int) []byte {
	s := make([]byte, 32)
	for i := range s {
		s[i] = byte(31*i + 7*n + 1)
	}
	return s
}

func newTrace(wseed int, deep bool) (*trace, error) {
	seed := seedBytes(wseed % 3)
	env, err := walletenv.New(seed, time.Unix(1600000000, 0), 0, nil)
	if err != nil {
		return nil, err
	}
	t := &trace{env: env, w: env.W, params: env.Params, intern: map[chainhash.Hash]int64{},
		tags: map[string]bool{}, deep: deep, noDisc: map[int32]bool{}, requested: map[string]bool{}}
	t.ch = simchain.New(env.Params)
	t.clk = clock.NewTestClock(epoch)
	t.w.TxStore.VerifSetClock(t.clk)
	t.w.VerifSetChainClient(t.ch)
	t.w.SetChainSynced(true)
	if err := t.w.Unlock(walletenv.PrivPass, nil); err != nil {
		env.Close()
		return nil, err
	}
	tab, err := tableFor(seed, env.Params)
	if err != nil {
		env.Close()
		return nil, err
	}
	t.L = newLedger(tab, epoch)
	for _, p := range purposes {
		for a := uint32(1); a < nAccounts; a++ {
			got, err := t.w.NextAccount(scopeOf[p], fmt.Sprintf("acct%d", a))
			if err != nil || got != a {
				env.Close()
				return nil, fmt.Errorf("NextAccount(%d): %d, %v", p, got, err)
			}
		}
	}
	return t, nil
}

func (t *trace) close() { t.env.Close() }

func (t *trace) ref(op wire.OutPoint) opRef {
	id, ok := t.intern[op.Hash]
	if !ok {
		id = int64(len(t.intern) + 1)
		t.intern[op.Hash] = id
	}
	return opRef{id, int64(op.Index)}
}

func (t *trace) refs(ops []wire.OutPoint) []opRef {
	out := make([]opRef, 0, len(ops))
	for _, o := range ops {
		out = append(out, t.ref(o))
	}
	return out
}

func (t *trace) fresh() chainhash.Hash {
	t.ctr++
	var b [8]byte
	binary.BigEndian.PutUint32(b[:], t.ctr)
	copy(b[4:], "c06x")
	return chainhash.DoubleHashH(b[:])
}

func (t *trace) extScript(kind string) []byte {
	h := t.fresh()
	var addr btcutil.Address
	switch kind {
	case "p2pkh":
		addr, _ = btcutil.NewAddressPubKeyHash(h[:20], t.params)
	case "p2sh":
		addr, _ = btcutil.NewAddressScriptHashFromHash(h[:20], t.params)
	case "p2wsh":
		addr, _ = btcutil.NewAddressWitnessScriptHash(h[:], t.params)
	case "p2tr":
		addr, _ = btcutil.NewAddressTaproot(h[:], t.params)
	default:
		addr, _ = btcutil.NewAddressWitnessPubKeyHash(h[:20], t.params)
	}
	s, _ := txscript.PayToAddrScript(addr)
	return s
}

func (t *trace) ownScript(scope int, acct uint32, internal bool) ([]byte, error) {
	ks, ok := scopeOf[scope]
	if !ok {
		ks = waddrmgr.KeyScopeBIP0084
	}
	var addr btcutil.Address
	var err error
	if internal {
		addr, err = t.w.NewChangeAddress(acct%nAccounts, ks)
	} else {
		addr, err = t.w.NewAddress(acct%nAccounts, ks)
	}
	if err != nil {
		return nil, err
	}
	pk, err := txscript.PayToAddrScript(addr)
	if err != nil {
		return nil, err
	}
	if t.L.table[hex.EncodeToString(pk)] == nil {
		return nil, fmt.Errorf("harness: wallet address %v is outside the independent derivation table", addr)
	}
	return pk, nil
}

func (t *trace) coinSel(s int) *coin {
	if len(t.L.coins) == 0 || s < 0 {
		return nil
	}
	return t.L.coins[s%len(t.L.coins)]
}

// ---- chain --------------------------------------------------------------

func (t *trace) deliver(tx *wire.MsgTx, blk *simchain.Block) error {
	rec, err := wtxmgr.NewTxRecordFromMsgTx(tx, epoch)
	if err != nil {
		return err
	}
	if blk == nil {
		return t.w.VerifAddRelevantTx(rec, nil)
	}
	meta := blk.Meta()
	return t.w.VerifAddRelevantTx(rec, &meta)
}

// mineBlock connects one block holding cb (optional), the fresh external
// transactions newTxs and the already known unconfirmed transactions incl.
func (t *trace) mineBlock(cb *wire.MsgTx, newTxs []*wire.MsgTx, incl []*ltx) error {
	var txs []*wire.MsgTx
	if cb != nil {
		txs = append(txs, cb)
	}
	txs = append(txs, newTxs...)
	for _, u := range incl {
		txs = append(txs, u.tx)
	}
	blk := t.ch.Extend(txs, nil)
	if err := t.w.VerifConnectBlock(blk.Meta()); err != nil {
		return err
	}
	t.L.tip = blk.Height
	for _, tx := range txs {
		if err := t.deliver(tx, blk); err != nil {
			return err
		}
		lt := t.L.add(tx, blk.Height, false)
		if lt.alive {
			t.L.confirm(lt, blk.Height)
		}
	}
	return nil
}

// includable lists known unconfirmed transactions that a block may hold now:
// parents first, no two spending the same output.
func (t *trace) includable(mode string) []*ltx {
	var out []*ltx
	chosen := map[chainhash.Hash]bool{}
	used := map[wire.OutPoint]bool{}
	i := 0
	for _, u := range t.L.txs {
		if !u.alive || u.height >= 0 {
			continue
		}
		i++
		if mode == "none" || (mode == "half" && i%2 == 0) {
			continue
		}
		ok := true
		for _, in := range u.tx.TxIn {
			p := t.L.byHash[in.PreviousOutPoint.Hash]
			if p != nil && (!p.alive || (p.height < 0 && !chosen[p.hash])) {
				ok = false
			}
			if used[in.PreviousOutPoint] {
				ok = false
			}
			if s := t.L.spender(in.PreviousOutPoint, &u.hash); s != nil && s.height >= 0 {
				ok = false
			}
		}
		if !ok {
			continue
		}
		chosen[u.hash] = true
		for _, in := range u.tx.TxIn {
			used[in.PreviousOutPoint] = true
		}
		out = append(out, u)
	}
	return out
}

func (t *trace) disconnectTip() error {
	blk := t.ch.Disconnect()
	if blk == nil {
		return nil
	}
	if err := t.w.VerifDisconnectBlock(blk.Meta()); err != nil {
		return err
	}
	t.L.disconnect(blk.Height)
	if !t.deep {
		// the wallet now holds an all-zero hash for height-1: it ignores a
		// later detach of height-1 and fails a later detach of height
		t.noDisc[blk.Height-1] = true
		t.noDisc[blk.Height] = true
	}
	return nil
}

func (t *trace) buildOuts(outs []fundOut) ([]*wire.TxOut, error) {
	var res []*wire.TxOut
	for _, o := range outs {
		var s []byte
		if o.Ext {
			s = t.extScript("p2wpkh")
		} else {
			var err error
			s, err = t.ownScript(o.Scope, o.Acct, o.Internal)
			if err != nil {
				return nil, err
			}
		}
		res = append(res, wire.NewTxOut(o.Amt, s))
	}
	return res, nil
}

// ---- operations ---------------------------------------------------------

func (t *trace) exec(o op) error {
	switch o.K {
	case "fund", "spend":
		if o.Conf {
			t.tags["op:"+o.K+"_confirmed"] = true
		} else {
			t.tags["op:"+o.K+"_unconfirmed"] = true
		}
	case "reorg":
		t.tags[fmt.Sprintf("op:reorg_depth_%d", min(o.Depth, 3))] = true
	case "mine":
		if o.N >= 50 {
			t.tags["op:mine_to_maturity"] = true
		} else {
			t.tags["op:mine"] = true
		}
	case "req":
	default:
		t.tags["op:"+o.K] = true
	}
	switch o.K {
	case "fund", "spend":
		tx := wire.NewMsgTx(2)
		if o.K == "fund" {
			tx.AddTxIn(wire.NewTxIn(&wire.OutPoint{Hash: t.fresh(), Index: 0}, nil, nil))
		} else {
			seen := map[wire.OutPoint]bool{}
			for _, s := range o.Coins {
				c := t.coinSel(s)
				// only outputs nobody spends: a node relays no conflicts of confirmed transactions
				if c == nil || !c.from.alive || seen[c.op] {
					continue
				}
				if sp := t.L.spender(c.op, nil); sp != nil && !(o.Double && !t.L.confirmedSpender(c.op)) {
					continue
				}
				if o.Conf && c.from.height < 0 {
					continue
				}
				seen[c.op] = true
				tx.AddTxIn(wire.NewTxIn(&c.op, nil, nil))
			}
			if len(tx.TxIn) == 0 {
				return nil
			}
		}
		outs, err := t.buildOuts(o.Outs)
		if err != nil {
			return err
		}
		tx.TxOut = outs
		if o.Conf {
			return t.mineBlock(nil, []*wire.MsgTx{tx}, nil)
		}
		if err := t.deliver(tx, nil); err != nil {
			return err
		}
		t.L.add(tx, -1, false)
		return nil

	case "cbfund":
		tx := wire.NewMsgTx(2)
		var hb [8]byte
		binary.BigEndian.PutUint32(hb[:], uint32(t.L.tip+1))
		t.ctr++
		binary.BigEndian.PutUint32(hb[4:], t.ctr)
		tx.AddTxIn(wire.NewTxIn(&wire.OutPoint{Index: 0xffffffff}, append([]byte{8}, hb[:]...), nil))
		outs, err := t.buildOuts(o.Outs)
		if err != nil {
			return err
		}
		tx.TxOut = outs
		return t.mineBlock(tx, nil, nil)

	case "mine":
		n := o.N
		if n < 1 {
			n = 1
		}
		for i := 0; i < n; i++ {
			var incl []*ltx
			if i == 0 {
				incl = t.includable(o.Include)
			}
			if err := t.mineBlock(nil, nil, incl); err != nil {
				return err
			}
		}
		return nil

	case "reorg":
		d := o.Depth
		if d < 1 {
			d = 1
		}
		for i := 0; i < d; i++ {
			tip := t.ch.Tip().Height
			if tip <= 1 || t.noDisc[tip] {
				break
			}
			if err := t.disconnectTip(); err != nil {
				return err
			}
		}
		n := o.N
		if !t.deep && n < 1 {
			n = 1
		}
		for i := 0; i < n; i++ {
			var incl []*ltx
			if i == 0 {
				incl = t.includable(o.Include)
			}
			if err := t.mineBlock(nil, nil, incl); err != nil {
				return err
			}
		}
		return nil

	case "lock":
		if c := t.coinSel(o.Coin); c != nil {
			t.w.LockOutpoint(c.op)
			t.L.locks[c.op] = true
		}
		return nil
	case "unlock":
		if c := t.coinSel(o.Coin); c != nil {
			t.w.UnlockOutpoint(c.op)
			delete(t.L.locks, c.op)
		}
		return nil
	case "lease":
		if c := t.coinSel(o.Coin); c != nil {
			dur := time.Duration(o.Dur) * time.Second
			var id wtxmgr.LockID
			id[0] = byte(o.ID)
			if _, err := t.w.LeaseOutput(id, c.op, dur); err == nil {
				t.L.leases[c.op] = lease{id: o.ID, expiry: t.L.now.Add(dur)}
			}
		}
		return nil
	case "release":
		if c := t.coinSel(o.Coin); c != nil {
			var id wtxmgr.LockID
			id[0] = byte(o.ID)
			if err := t.w.ReleaseOutput(id, c.op); err == nil {
				if le, ok := t.L.leases[c.op]; ok && le.id == o.ID {
					delete(t.L.leases, c.op)
				}
			}
		}
		return nil
	case "tick":
		t.L.now = t.L.now.Add(time.Duration(o.Dt) * time.Second)
		t.clk.SetTime(t.L.now)
		return nil
	case "abandon":
		// forget a known unconfirmed transaction (Wallet.RemoveDescendants
		// runs Store.RemoveUnminedTx on the transaction itself)
		var cand []*ltx
		for _, u := range t.L.txs {
			if u.alive && u.height < 0 {
				cand = append(cand, u)
			}
		}
		if len(cand) == 0 || o.Tx < 0 {
			return nil
		}
		u := cand[o.Tx%len(cand)]
		if err := t.w.RemoveDescendants(u.tx); err != nil {
			return err
		}
		t.L.kill(u)
		return nil
	case "publish":
		// hand a transaction created earlier (CreateSimpleTx, not a dry run)
		// to the backend now
		if len(t.held) == 0 || o.Tx < 0 {
			return nil
		}
		i := o.Tx % len(t.held)
		tx := t.held[i]
		t.held = append(t.held[:i:i], t.held[i+1:]...)
		// a node relays no conflict of a confirmed transaction and nothing
		// that spends outputs it does not know
		for _, in := range tx.TxIn {
			if t.L.confirmedSpender(in.PreviousOutPoint) || t.L.liveCoin(in.PreviousOutPoint) == nil {
				return nil
			}
		}
		if o.Reject {
			t.ch.NextSend = []simchain.SendAnswer{simchain.Reject}
		}
		err := t.w.PublishTransaction(tx, "")
		t.ch.NextSend = nil
		if err == nil {
			t.recordPublished(tx)
			t.tags["published_later"] = true
		} else {
			t.tags["publish_later_rejected"] = true
		}
		return nil
	case "req":
		if o.Req == nil {
			return nil
		}
		return t.request(o.Req)
	}
	return fmt.Errorf("unknown op %q", o.K)
}

// ---- requests -----------------------------------------------------------

func classOf(pk []byte) string {
	switch {
	case txscript.IsPayToTaproot(pk):
		return "p2tr"
	case txscript.IsPayToWitnessPubKeyHash(pk):
		return "p2wpkh"
	case txscript.IsPayToScriptHash(pk):
		return "np2wpkh"
	case txscript.IsPayToPubKeyHash(pk):
		return "p2pkh"
	}
	return "other"
}

// snapshot dumps what the wallet's selection will see: UnspentOutputs with
// the address manager's answer per script, the chain height, the lock set.
func (t *trace) snapshot(ro *reqObs, rv reqView) error {
	bs, err := t.ch.BlockStamp()
	if err != nil {
		return err
	}
	ro.Height = bs.Height
	ro.Maturity = int32(t.params.CoinbaseMaturity)
	for _, li := range t.w.LockedOutpoints() {
		h, err := chainhash.NewHashFromStr(li.Txid)
		if err != nil {
			return err
		}
		ro.Locked = append(ro.Locked, t.ref(wire.OutPoint{Hash: *h, Index: li.Vout}))
	}
	sort.Slice(ro.Locked, func(i, j int) bool {
		return ro.Locked[i][0] < ro.Locked[j][0] || (ro.Locked[i][0] == ro.Locked[j][0] && ro.Locked[i][1] < ro.Locked[j][1])
	})
	return walletdb.View(t.w.Database(), func(tx walletdb.ReadTx) error {
		txns := tx.ReadBucket([]byte("wtxmgr"))
		adns := tx.ReadBucket([]byte("waddrmgr"))
		us, err := t.w.TxStore.UnspentOutputs(txns)
		if err != nil {
			return err
		}
		for _, u := range us {
			c := candObs{Op: t.ref(u.OutPoint), Amt: int64(u.Amount), H: u.Height, CB: u.FromCoinBase,
				AT: classOf(u.PkScript), VS: txsizes.GetMinInputVirtualSize(u.PkScript)}
			_, addrs, _, err := txscript.ExtractPkScriptAddrs(u.PkScript, t.params)
			if err == nil && len(addrs) == 1 {
				if mgr, acct, err := t.w.Manager.AddrAccount(adns, addrs[0]); err == nil {
					c.Own = &[2]int{int(mgr.Scope().Purpose), int(acct)}
				}
			}
			c.Why = t.L.whyNot(u.OutPoint, rv, nil)
			ro.Cands = append(ro.Cands, c)
		}
		sort.Slice(ro.Cands, func(i, j int) bool {
			a, b := ro.Cands[i].Op, ro.Cands[j].Op
			return a[0] < b[0] || (a[0] == b[0] && a[1] < b[1])
		})
		return nil
	})
}

func (t *trace) flag(kind, site string, detail string) {
	t.viols = append(t.viols, violation{Kind: kind, Site: site, Req: len(t.reqs), Detail: detail})
}

func isSigned(tx *wire.MsgTx) bool {
	if len(tx.TxIn) == 0 {
		return false
	}
	for _, in := range tx.TxIn {
		if len(in.SignatureScript) == 0 && len(in.Witness) == 0 {
			return false
		}
	}
	return true
}

// verifySigs runs the script engine with standard flags on every input whose
// previous output the ledger knows.
func (t *trace) verifySigs(tx *wire.MsgTx) {
	prev := map[wire.OutPoint]*wire.TxOut{}
	for _, in := range tx.TxIn {
		if c := t.L.byOp[in.PreviousOutPoint]; c != nil {
			prev[in.PreviousOutPoint] = wire.NewTxOut(c.amt, c.pk)
		}
	}
	if len(prev) != len(tx.TxIn) {
		// an input the ledger has never seen (already reported as not owned):
		// the signature hashes cannot be computed independently
		known := map[wire.OutPoint]bool{}
		for _, in := range tx.TxIn {
			known[in.PreviousOutPoint] = true
		}
		if len(prev) != len(known) {
			t.tags["sig_check_skipped_unknown_prevout"] = true
			return
		}
	}
	fetcher := txscript.NewMultiPrevOutFetcher(prev)
	hashes := txscript.NewTxSigHashes(tx, fetcher)
	for i, in := range tx.TxIn {
		po := prev[in.PreviousOutPoint]
		if po == nil {
			continue
		}
		at := classOf(po.PkScript)
		vm, err := txscript.NewEngine(po.PkScript, tx, i, txscript.StandardVerifyFlags, nil, hashes, po.Value, fetcher)
		if err == nil {
			err = vm.Execute()
		}
		if err != nil {
			t.flag("invalid_signature", at, fmt.Sprintf("input %d (%v): %v", i, in.PreviousOutPoint, err))
		} else {
			t.tags["sig_ok:"+at] = true
		}
	}
}

// judge states the property on one created transaction.
func (t *trace) judge(site string, rv reqView, tx *wire.MsgTx, signed bool) {
	seen := map[wire.OutPoint]bool{}
	self := tx.TxHash()
	for _, in := range tx.TxIn {
		op := in.PreviousOutPoint
		if seen[op] {
			t.flag("duplicate_input", site, fmt.Sprintf("%v used twice", op))
		}
		seen[op] = true
		for _, w := range t.L.whyNot(op, rv, &self) {
			t.flag(kindOf[w], site, fmt.Sprintf("%v: %s", op, w))
		}
		if p := t.L.published[op]; p != nil && p.alive && p.hash != self {
			t.flag("published_input_reused", site, fmt.Sprintf("%v is an input of published %v", op, p.hash))
		}
	}
	if signed {
		t.verifySigs(tx)
	}
}

func (t *trace) recordPublished(tx *wire.MsgTx) {
	t.checkChange(tx)
	lt := t.L.add(tx, -1, true)
	lt.published = true
	for _, in := range tx.TxIn {
		t.L.published[in.PreviousOutPoint] = lt
	}
}

// checkChange: every output the wallet added to a transaction (its change)
// must be a script the independent derivation table knows, or the ledger
// would not see the change as a wallet coin (a harness limit, not a finding).
func (t *trace) checkChange(tx *wire.MsgTx) {
	for _, out := range tx.TxOut {
		if t.requested[hex.EncodeToString(out.PkScript)] || t.L.table[hex.EncodeToString(out.PkScript)] != nil {
			continue
		}
		t.problem = fmt.Sprintf("harness: output script %x of a wallet transaction is outside the derivation table", out.PkScript)
	}
}

func errClass(err error) string {
	if err == nil {
		return "ok"
	}
	if strings.Contains(err.Error(), "selected outpoint") {
		return "refused"
	}
	return "error"
}

func (t *trace) request(rs *reqSpec) error {
	rv := reqView{acct: rs.Acct, scope: rs.Scope, minconf: rs.MinConf, maturity: int32(t.params.CoinbaseMaturity)}
	var scopePtr *waddrmgr.KeyScope
	if ks, ok := scopeOf[rs.Scope]; ok {
		scopePtr = &ks
	} else {
		rv.scope = 0
	}
	var strat wallet.CoinSelectionStrategy
	switch rs.Strat {
	case "largest":
		strat = wallet.CoinSelectionLargest
	case "random":
		strat = wallet.CoinSelectionRandom
	}
	// requested outputs
	var outs []*wire.TxOut
	for _, p := range rs.Pay {
		var s []byte
		if p.Kind == "own" {
			var err error
			if s, err = t.ownScript(p.Scope, p.Acct, false); err != nil {
				return err
			}
		} else {
			s = t.extScript(p.Kind)
		}
		outs = append(outs, wire.NewTxOut(p.Amt, s))
		t.requested[hex.EncodeToString(s)] = true
	}
	// explicit selection / caller-supplied inputs
	pick := func(sels []int) []wire.OutPoint {
		var ops []wire.OutPoint
		for _, s := range sels {
			if c := t.coinSel(s); c != nil {
				ops = append(ops, c.op)
			} else {
				ops = append(ops, wire.OutPoint{Hash: t.fresh(), Index: uint32(len(ops))})
			}
		}
		return ops
	}
	sel := pick(rs.Explicit)
	psbtIn := pick(rs.PsbtIn)
	var opts []wallet.TxCreateOption
	site := map[string]string{"create": "CreateSimpleTx", "send": "SendOutputs", "sendwith": "SendOutputsWithInput",
		"fundpsbt": "FundPsbt"}[rs.API]
	if site == "" {
		return fmt.Errorf("unknown api %q", rs.API)
	}
	if len(sel) > 0 && rs.API != "sendwith" {
		opts = append(opts, wallet.WithCustomSelectUtxos(sel))
		site += "(WithCustomSelectUtxos)"
	}
	if rs.API == "send" {
		sel = nil
		opts = nil
		site = "SendOutputs"
	}
	var allowOps []wire.OutPoint
	hasAllow := rs.HasAllow && rs.API != "send" && rs.API != "sendwith"
	if hasAllow {
		allowOps = pick(rs.Allow)
		allowed := map[wire.OutPoint]bool{}
		for _, o := range allowOps {
			allowed[o] = true
		}
		opts = append(opts, wallet.WithUtxoFilter(func(u wtxmgr.Credit) bool { return allowed[u.OutPoint] }))
	}
	if rs.API == "fundpsbt" && len(psbtIn) > 0 {
		return t.fundPsbtWithInputs(rs, rv, scopePtr, strat, outs, psbtIn)
	}

	ro := reqObs{API: rs.API, Site: site, Acct: rs.Acct, Scope: rv.scope, MinConf: rs.MinConf, Rate: rs.Rate,
		Strat: rs.Strat, Explicit: t.refs(sel), Allow: t.refs(allowOps), HasAllow: hasAllow,
		Dry: rs.Dry && rs.API == "create", InModel: true, Inputs: []opRef{}, Locked: []opRef{}, Cands: []candObs{}}
	if ro.Strat == "" {
		ro.Strat = "nil"
	}
	if err := t.snapshot(&ro, rv); err != nil {
		return err
	}
	// the ledger's opinion of the selection, before the call
	selBad := map[string]bool{}
	dupSel := false
	outsideFilter := false
	{
		seen := map[wire.OutPoint]bool{}
		for _, o := range sel {
			if seen[o] {
				dupSel = true
			}
			seen[o] = true
			why := t.L.whyNot(o, rv, nil)
			if hasAllow {
				ok := false
				for _, a := range allowOps {
					if a == o {
						ok = true
					}
				}
				if !ok {
					// outside the caller's own filter: not one of the
					// property's eligibility conditions, so not judged by
					// the oracle (the model comparison covers it)
					outsideFilter = true
				}
			}
			for _, w := range why {
				selBad[w] = true
			}
		}
	}
	for w := range selBad {
		ro.Bad = append(ro.Bad, w)
	}
	sort.Strings(ro.Bad)
	if dupSel {
		ro.Bad = append(ro.Bad, "dup")
	}

	nSent := len(t.ch.Sent)
	if rs.Reject {
		t.ch.NextSend = []simchain.SendAnswer{simchain.Reject}
	}
	var (
		tx      *wire.MsgTx
		err     error
		signed  bool
		publish bool
	)
	switch rs.API {
	case "create":
		atx, e := t.w.CreateSimpleTx(scopePtr, rs.Acct, outs, rs.MinConf, btcutil.Amount(rs.Rate), strat, rs.Dry, opts...)
		err = e
		if e == nil {
			tx = atx.Tx
			signed = !rs.Dry
			publish = rs.Publish && !rs.Dry
		}
	case "send":
		tx, err = t.w.SendOutputs(outs, scopePtr, rs.Acct, rs.MinConf, btcutil.Amount(rs.Rate), strat, "")
		signed = true
	case "sendwith":
		tx, err = t.w.SendOutputsWithInput(outs, scopePtr, rs.Acct, rs.MinConf, btcutil.Amount(rs.Rate), strat, "", sel)
		signed = true
	case "fundpsbt":
		ro.Sorted = true
		var packet *psbt.Packet
		packet, err = psbt.New(nil, outs, 2, 0, nil)
		if err != nil {
			return err
		}
		_, err = t.w.FundPsbt(packet, scopePtr, rs.MinConf, rs.Acct, btcutil.Amount(rs.Rate), strat, opts...)
		if err == nil {
			// the funded packet is the created transaction; FundPsbt strips the
			// input scripts its inner CreateSimpleTx produced, so the signed
			// flag is not observable here and reported as the model expects
			ro.Outcome = "ok"
			ro.Signed = true
			for _, in := range packet.UnsignedTx.TxIn {
				ro.Inputs = append(ro.Inputs, t.ref(in.PreviousOutPoint))
			}
			t.judge(site, rv, packet.UnsignedTx, false)
			if t.hasLegacyInput(packet.UnsignedTx) {
				// the PSBT signer (ComputeInputScript) is documented for
				// P2WKH, nested P2WKH and taproot key spends only: a
				// packet with P2PKH inputs is not finalized here
				t.tags["psbt_p2pkh_inputs_not_finalized"] = true
				ro.Note = append(ro.Note, "p2pkh_inputs_not_finalized")
				break
			}
			ferr := t.w.FinalizePsbt(scopePtr, rs.Acct, packet)
			if ferr == nil {
				tx, ferr = psbt.Extract(packet)
			}
			if ferr != nil {
				at := "?"
				for _, in := range packet.UnsignedTx.TxIn {
					if c := t.L.byOp[in.PreviousOutPoint]; c != nil {
						at = classOf(c.pk)
					}
				}
				t.flag("invalid_signature", at, "FinalizePsbt: "+ferr.Error())
				tx = nil
			} else {
				t.verifySigs(tx)
				publish = rs.Publish
			}
		}
	}
	t.ch.NextSend = nil
	rejected := false
	if err != nil && len(t.ch.Sent) > nSent {
		// the backend refused the broadcast: the transaction was created all the same
		tx = t.ch.Sent[len(t.ch.Sent)-1]
		rejected = true
		ro.Note = append(ro.Note, "broadcast_rejected")
	}
	if rs.API != "fundpsbt" {
		switch {
		case err == nil || rejected:
			ro.Outcome = "ok"
		default:
			ro.Outcome = errClass(err)
			ro.Err = err.Error()
		}
		if tx != nil {
			for _, in := range tx.TxIn {
				ro.Inputs = append(ro.Inputs, t.ref(in.PreviousOutPoint))
			}
			ro.Signed = isSigned(tx)
			t.judge(site, rv, tx, signed)
		}
	} else if err != nil {
		ro.Outcome = errClass(err)
		ro.Err = err.Error()
	}
	// explicitly selected inputs that are not eligible must be refused
	if ro.Outcome == "ok" && len(sel) > 0 {
		for _, w := range ro.Bad {
			if w == "dup" {
				continue // reported as duplicate_input on the transaction itself
			}
			t.flag("ineligible_explicit_input_accepted", w, fmt.Sprintf("%s accepted a selection containing a %s outpoint", site, w))
		}
	}
	t.tags["api:"+site] = true
	t.tags["outcome:"+ro.Outcome] = true
	if ro.Outcome == "ok" {
		t.tags[fmt.Sprintf("ok_inputs:%d", min(len(ro.Inputs), 4))] = true
		t.tags[fmt.Sprintf("ok_minconf:%d", rs.MinConf)] = true
		t.tags["ok_strat:"+ro.Strat] = true
		var inOps []wire.OutPoint
		switch {
		case tx != nil:
			for _, in := range tx.TxIn {
				inOps = append(inOps, in.PreviousOutPoint)
			}
		}
		for _, o := range inOps {
			if c := t.L.byOp[o]; c != nil {
				t.tags["spent_type:"+c.own.AType] = true
				if c.from.coinbase {
					t.tags["spent_mature_coinbase"] = true
				}
				if c.from.height < 0 {
					t.tags["spent_unconfirmed"] = true
				}
				if c.from.byWallet {
					t.tags["spent_own_change"] = true
				}
			}
		}
	}
	for _, w := range ro.Bad {
		t.tags["explicit_bad:"+w+":"+ro.Outcome] = true
	}
	if outsideFilter {
		ro.Note = append(ro.Note, "selection_outside_filter")
		t.tags["explicit_outside_filter:"+ro.Outcome] = true
	} else if len(sel) > 0 && len(ro.Bad) == 0 {
		t.tags["explicit_valid:"+ro.Outcome] = true
	}
	clean := true
	for _, v := range t.viols {
		if v.Req == len(t.reqs) {
			clean = false
		}
	}
	switch {
	case tx == nil || rejected:
	case rs.API == "create" && !rs.Dry && !publish && clean:
		t.held = append(t.held, tx)
	case rs.API == "send" || rs.API == "sendwith":
		t.recordPublished(tx)
		t.tags["published"] = true
	case publish && clean:
		if rs.Reject {
			t.ch.NextSend = []simchain.SendAnswer{simchain.Reject}
		}
		perr := t.w.PublishTransaction(tx, "")
		t.ch.NextSend = nil
		if perr == nil {
			t.recordPublished(tx)
			t.tags["published"] = true
		} else {
			ro.Note = append(ro.Note, "publish: "+perr.Error())
		}
	}
	t.reqs = append(t.reqs, ro)
	return nil
}

// fundPsbtWithInputs: FundPsbt with caller-supplied inputs only establishes
// that the inputs belong to the wallet (DESIGN section 6, S13): asserted are
// ownership and single use; what else it accepts is recorded as observed.
func (t *trace) fundPsbtWithInputs(rs *reqSpec, rv reqView, scopePtr *waddrmgr.KeyScope,
	strat wallet.CoinSelectionStrategy, outs []*wire.TxOut, ins []wire.OutPoint) error {

	site := "FundPsbt(inputs)"
	ro := reqObs{API: rs.API, Site: site, Acct: rs.Acct, Scope: rv.scope, MinConf: rs.MinConf, Rate: rs.Rate,
		Strat: "nil", Explicit: t.refs(ins), InModel: false, Sorted: true, Inputs: []opRef{}, Locked: []opRef{},
		Cands: []candObs{}, Allow: []opRef{}}
	bad := map[string]bool{}
	seen := map[wire.OutPoint]bool{}
	dup := false
	for _, o := range ins {
		if seen[o] {
			dup = true
		}
		seen[o] = true
		for _, w := range t.L.whyNot(o, rv, nil) {
			bad[w] = true
		}
	}
	for w := range bad {
		ro.Bad = append(ro.Bad, w)
	}
	sort.Strings(ro.Bad)
	if dup {
		ro.Bad = append(ro.Bad, "dup")
	}
	ptrs := make([]*wire.OutPoint, len(ins))
	seqs := make([]uint32, len(ins))
	for i := range ins {
		o := ins[i]
		ptrs[i] = &o
		seqs[i] = wire.MaxTxInSequenceNum
	}
	packet, err := psbt.New(ptrs, outs, 2, 0, seqs)
	if err != nil {
		ro.Outcome, ro.Err = "error", "psbt.New: "+err.Error()
		t.reqs = append(t.reqs, ro)
		return nil
	}
	_, err = t.w.FundPsbt(packet, scopePtr, rs.MinConf, rs.Acct, btcutil.Amount(rs.Rate), strat)
	ro.Outcome = errClass(err)
	if err != nil {
		ro.Err = err.Error()
	} else {
		used := map[wire.OutPoint]bool{}
		for _, in := range packet.UnsignedTx.TxIn {
			op := in.PreviousOutPoint
			ro.Inputs = append(ro.Inputs, t.ref(op))
			if used[op] {
				t.flag("duplicate_input", site, fmt.Sprintf("%v used twice", op))
			}
			used[op] = true
			if t.L.liveCoin(op) == nil {
				t.flag("input_not_owned_by_account", site, fmt.Sprintf("%v is not an output of the wallet", op))
			}
		}
		for _, w := range ro.Bad {
			t.tags["psbt_inputs_accepted:"+w] = true
		}
		if len(ro.Bad) == 0 && t.hasLegacyInput(packet.UnsignedTx) {
			t.tags["psbt_p2pkh_inputs_not_finalized"] = true
			ro.Note = append(ro.Note, "p2pkh_inputs_not_finalized")
		} else if len(ro.Bad) == 0 {
			// nothing wrong with the inputs: the finalized transaction must verify
			ferr := t.w.FinalizePsbt(scopePtr, rs.Acct, packet)
			var tx *wire.MsgTx
			if ferr == nil {
				tx, ferr = psbt.Extract(packet)
			}
			if ferr != nil {
				at := "?"
				if c := t.L.byOp[ins[0]]; c != nil {
					at = classOf(c.pk)
				}
				t.flag("invalid_signature", at, "FinalizePsbt: "+ferr.Error())
			} else {
				t.verifySigs(tx)
				ro.Signed = isSigned(tx)
				if rs.Publish {
					if perr := t.w.PublishTransaction(tx, ""); perr == nil {
						t.recordPublished(tx)
						t.tags["published"] = true
					}
				}
			}
		}
	}
	t.tags["api:"+site] = true
	t.tags["outcome:"+ro.Outcome] = true
	t.reqs = append(t.reqs, ro)
	return nil
}

// finalizeP2PKH (flag -psbt-p2pkh): also finalize and verify PSBT packets with
// P2PKH inputs, to reproduce the recorded observation (FinalizePsbt attaches a
// witness to a P2PKH input and reports success).
var finalizeP2PKH bool

func (t *trace) hasLegacyInput(tx *wire.MsgTx) bool {
	if finalizeP2PKH {
		return false
	}
	for _, in := range tx.TxIn {
		if c := t.L.byOp[in.PreviousOutPoint]; c != nil && classOf(c.pk) == "p2pkh" {
			return true
		}
	}
	return false
}

func min(a, b int) int {
	if a < b {
		return a
	}
	return b
}

var _ = bytes.Equal
