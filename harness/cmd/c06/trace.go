package main

// One trace = one real wallet over a simulated chain, driven by a list of
// operations; every transaction the wallet creates is judged against the
// independent ledger (ledger.go) and its inputs are verified by the script
// engine.

import (
	"encoding/binary"
	"encoding/hex"
	"fmt"
	"os"
	"path/filepath"
	"time"

	"github.com/btcsuite/btcd/btcec/v2"
	"github.com/btcsuite/btcd/btcutil"
	"github.com/btcsuite/btcd/btcutil/hdkeychain"
	"github.com/btcsuite/btcd/chaincfg"
	"github.com/btcsuite/btcd/chaincfg/chainhash"
	"github.com/btcsuite/btcd/txscript"
	"github.com/btcsuite/btcd/wire"
	"github.com/btcsuite/btcwallet/waddrmgr"
	"github.com/btcsuite/btcwallet/wallet"
	"github.com/btcsuite/btcwallet/walletdb"
	"github.com/btcsuite/btcwallet/wtxmgr"
	"github.com/lightningnetwork/lnd/clock"

	"verifharness/internal/simchain"
	"verifharness/internal/walletenv"
)

func hdPub(b []byte) (*btcec.PublicKey, error) { return btcec.ParsePubKey(b) }

// customScope has the purpose of BIP84 and another coin type: a comparison of
// key scopes by purpose alone confuses it with waddrmgr.KeyScopeBIP0084.
var customScope = waddrmgr.KeyScope{Purpose: 84, Coin: customCoin}

// keyScope returns the key scope (purpose, coin) of a request or output
// (purpose 0 = none).
func keyScope(purpose, coin int) (waddrmgr.KeyScope, bool) {
	if coin == customCoin && purpose == 84 {
		return customScope, true
	}
	if coin != 0 {
		return waddrmgr.KeyScope{}, false
	}
	switch purpose {
	case 44:
		return waddrmgr.KeyScopeBIP0044, true
	case 49:
		return waddrmgr.KeyScopeBIP0049Plus, true
	case 84:
		return waddrmgr.KeyScopeBIP0084, true
	case 86:
		return waddrmgr.KeyScopeBIP0086, true
	}
	return waddrmgr.KeyScope{}, false
}

// ---- inputs -------------------------------------------------------------

type fundOut struct {
	Scope    int    `json:"scope,omitempty"`
	Coin     int    `json:"coin,omitempty"` // coin type of the key scope (1 = the custom scope (84, 1))
	Acct     uint32 `json:"acct,omitempty"` // 0..2; 3 = the watch-only account (scopes 84, 86)
	Imp      int    `json:"imp,omitempty"`  // > 0: pays the i-th imported private key (scope/acct ignored)
	Amt      int64  `json:"amt"`
	Internal bool   `json:"int,omitempty"`
	Ext      bool   `json:"ext,omitempty"` // pays a script outside the wallet
}

type payOut struct {
	Kind  string `json:"kind"` // p2wpkh p2pkh p2tr p2sh p2wsh | own
	Scope int    `json:"scope,omitempty"`
	Coin  int    `json:"coin,omitempty"`
	Acct  uint32 `json:"acct,omitempty"`
	Amt   int64  `json:"amt"`
}

type reqSpec struct {
	API   string `json:"api"` // create | send | sendwith | fundpsbt
	Acct  uint32 `json:"acct"`
	Scope int    `json:"scope"` // purpose; 0 = no key scope
	Coin  int    `json:"coin,omitempty"`
	// ChgScope/ChgCoin: WithCustomChangeScope (CreateSimpleTx, FundPsbt): the
	// key scope of the CHANGE output only; 0 = the option is not given
	ChgScope int      `json:"chg_scope,omitempty"`
	ChgCoin  int      `json:"chg_coin,omitempty"`
	MinConf  int32    `json:"minconf"`
	Rate     int64    `json:"rate"`
	Strat    string   `json:"strat"` // largest | random | nil
	Pay      []payOut `json:"pay"`
	Dry      bool     `json:"dry,omitempty"`
	Publish  bool     `json:"publish,omitempty"`
	Reject   bool     `json:"reject,omitempty"`   // backend rejects the broadcast (a reason of its own)
	Accept   bool     `json:"accept,omitempty"`   // backend accepts whatever it is handed (a node that has not seen the conflict)
	Explicit []int    `json:"explicit,omitempty"` // coin selectors (-1 = an outpoint nobody knows)
	Allow    []int    `json:"allow,omitempty"`    // WithUtxoFilter: only these coins
	HasAllow bool     `json:"has_allow,omitempty"`
	PsbtIn   []int    `json:"psbt_in,omitempty"` // FundPsbt with caller-supplied inputs
}

type op struct {
	K       string    `json:"k"` // fund cbfund spend mine reorg lock unlock lease release tick abandon publish restart race req
	Outs    []fundOut `json:"outs,omitempty"`
	Conf    bool      `json:"conf,omitempty"`
	Coins   []int     `json:"coins,omitempty"`
	N       int       `json:"n,omitempty"`
	Include string    `json:"include,omitempty"` // all | none | half
	Depth   int       `json:"depth,omitempty"`
	Coin    int       `json:"coin,omitempty"`
	ID      int       `json:"id,omitempty"`
	Dur     int       `json:"dur,omitempty"`
	Dt      int       `json:"dt,omitempty"`
	Double  bool      `json:"double,omitempty"` // spend: outputs already spent by UNCONFIRMED transactions may be spent again
	Tx      int       `json:"tx,omitempty"`     // abandon: selector of a known unconfirmed transaction; publish: of a held one
	Reject  bool      `json:"reject,omitempty"` // publish: the backend rejects the broadcast
	Accept  bool      `json:"accept,omitempty"` // publish: the backend accepts without looking
	Req     *reqSpec  `json:"req,omitempty"`
	Race    []reqSpec `json:"race,omitempty"` // race: SendOutputs requests issued at once from as many goroutines
}

type c06Input struct {
	WSeed int `json:"wseed"`
	// WatchOnlyWallet: the whole wallet is watch-only (created without a
	// seed; account 0 of scopes 84 and 86 imported by public key).
	WatchOnlyWallet bool `json:"wo_wallet,omitempty"`
	Ops             []op `json:"ops"`
}

// ---- observations -------------------------------------------------------

type opRef [2]int64 // interned txid, output index

type candObs struct {
	Op  opRef   `json:"op"`
	Amt int64   `json:"amt"`
	H   int32   `json:"h"`
	CB  bool    `json:"cb"`
	Own *[3]int `json:"own"` // address manager: scope purpose, scope coin type, account (null = not found)
	// Priv: the managed address answers PrivKey() (asked only when the request
	// is for the imported account: the only case the sign / skip decision reads it)
	Priv bool     `json:"priv,omitempty"`
	AT   string   `json:"at"`
	VS   int      `json:"vs"`
	Why  []string `json:"why,omitempty"` // ledger's view for the request (evidence only)
}

type reqObs struct {
	API      string `json:"api"`
	Site     string `json:"site"`
	Acct     uint32 `json:"acct"`
	Scope    int    `json:"scope"` // purpose (0 = none)
	Coin     int    `json:"coin"`
	ChgScope int    `json:"chg_scope"` // custom change scope (purpose, 0 = none) ...
	ChgCoin  int    `json:"chg_coin"`  // ... and its coin type
	WO       bool   `json:"wo"`        // the wallet's own IsWatchOnlyAccount(scope or BIP86, account) before the call
	WalletWO bool   `json:"wallet_wo"` // Manager.WatchOnly()
	// SignedObservable: false for FundPsbt (it strips the scripts of its inner creation)
	SignedObservable bool      `json:"signed_observable"`
	MinConf          int32     `json:"minconf"`
	Rate             int64     `json:"rate"`
	Strat            string    `json:"strat"`
	Explicit         []opRef   `json:"explicit"`
	Allow            []opRef   `json:"allow"`
	HasAllow         bool      `json:"has_allow"`
	Dry              bool      `json:"dry"`
	Sorted           bool      `json:"sorted"`
	Height           int32     `json:"height"`
	Maturity         int32     `json:"maturity"`
	Locked           []opRef   `json:"locked"`
	Cands            []candObs `json:"cands"`
	Outcome          string    `json:"outcome"` // ok (a transaction was created) | error (an error and nothing created, recorded or sent)
	Err              string    `json:"err,omitempty"`
	Inputs           []opRef   `json:"inputs"`
	Signed           bool      `json:"signed"`
	InModel          bool      `json:"in_model"` // compared with the selection model
	Bad              []string  `json:"bad,omitempty"`
	Note             []string  `json:"note,omitempty"`
}

type violation struct {
	Kind   string `json:"kind"`
	Site   string `json:"site"`
	Req    int    `json:"req"`
	Detail string `json:"detail"`
}

type c06Obs struct {
	Reqs    []reqObs `json:"reqs"`
	Deep    bool     `json:"deep_reorgs"`
	OpsRun  int      `json:"ops_run"`
	Problem string   `json:"problem,omitempty"`
	// Notes: behaviour that is recorded and reported but is not a violation
	// of the property's text (counted in the evidence).
	Notes map[string]int `json:"notes,omitempty"`
}

// ---- trace --------------------------------------------------------------

type trace struct {
	env    *walletenv.Env
	w      *wallet.Wallet
	ch     *backend
	woW    bool // watch-only wallet
	seed   []byte
	notes  map[string]int
	clk    *clock.TestClock
	L      *ledger
	params *chaincfg.Params
	ctr    uint32
	intern map[chainhash.Hash]int64
	reqs   []reqObs
	viols  []violation
	tags   map[string]bool
	deep   bool
	noDisc map[int32]bool // heights the wallet can no longer detach (see probeDeepReorg)
	// scripts of outputs the harness asked for (to tell them from change)
	requested map[string]bool
	problem   string
	// signed transactions the wallet created and nobody has published yet
	held []*wire.MsgTx
}

var epoch = time.Unix(1700000000, 0)

func seedBytes(n int) []byte {
	s := make([]byte, 32)
	for i := range s {
		s[i] = byte(31*i + 7*n + 1)
	}
	return s
}

func newTrace(in c06Input, deep bool) (*trace, error) {
	seed := seedBytes(in.WSeed % 3)
	var env *walletenv.Env
	var err error
	if in.WatchOnlyWallet {
		env, err = newWatchOnlyEnv(seed)
	} else {
		env, err = walletenv.New(seed, time.Unix(1600000000, 0), 0, nil)
	}
	if err != nil {
		return nil, err
	}
	t := &trace{env: env, w: env.W, params: env.Params, intern: map[chainhash.Hash]int64{}, seed: seed,
		tags: map[string]bool{}, deep: deep, noDisc: map[int32]bool{}, requested: map[string]bool{},
		notes: map[string]int{}, woW: in.WatchOnlyWallet}
	t.ch = &backend{Chain: simchain.New(env.Params), t: t}
	t.clk = clock.NewTestClock(epoch)
	tab, err := tableFor(seed, env.Params)
	if err != nil {
		env.Close()
		return nil, err
	}
	t.L = newLedger(tab, epoch)
	if err := t.attach(); err != nil {
		env.Close()
		return nil, err
	}
	fail := func(err error) (*trace, error) {
		env.Close()
		return nil, err
	}
	if in.WatchOnlyWallet {
		// account 0 of scopes 84 and 86 of the wallet's own seed, by public key
		root, err := hdPubRoot(seed, env.Params)
		if err != nil {
			return fail(err)
		}
		for _, p := range woPurposes {
			ak, err := accountKey(root, p, 0, 0)
			if err != nil {
				return fail(err)
			}
			pub, err := ak.Neuter()
			if err != nil {
				return fail(err)
			}
			ks, _ := keyScope(p, 0)
			props, err := t.w.ImportAccountWithScope("default", pub, 0, ks, waddrmgr.ScopeAddrMap[ks])
			if err != nil {
				return fail(fmt.Errorf("watch-only wallet: ImportAccountWithScope(%d): %w", p, err))
			}
			if props.AccountNumber != 0 {
				return fail(fmt.Errorf("watch-only wallet: first imported account of scope %d got number %d", p, props.AccountNumber))
			}
		}
		return t, nil
	}
	for _, p := range purposes {
		ks, _ := keyScope(p, 0)
		for a := uint32(1); a < nAccounts; a++ {
			got, err := t.w.NextAccount(ks, fmt.Sprintf("acct%d", a))
			if err != nil || got != a {
				return fail(fmt.Errorf("NextAccount(%d): %d, %v", p, got, err))
			}
		}
	}
	// the custom key scope (84, 1): P2WPKH on both branches
	if _, err := t.w.AddScopeManager(customScope, waddrmgr.ScopeAddrSchema{
		ExternalAddrType: waddrmgr.WitnessPubKey, InternalAddrType: waddrmgr.WitnessPubKey}); err != nil {
		return fail(fmt.Errorf("AddScopeManager: %w", err))
	}
	for a := uint32(1); a < customAccounts; a++ {
		got, err := t.w.NextAccount(customScope, fmt.Sprintf("custom%d", a))
		if err != nil || got != a {
			return fail(fmt.Errorf("NextAccount(custom): %d, %v", got, err))
		}
	}
	// watch-only accounts: account 0 of a foreign wallet, by extended public key
	for _, p := range woPurposes {
		pub, fp, err := woAccountKey(seed, p, env.Params)
		if err != nil {
			return fail(err)
		}
		ks, _ := keyScope(p, 0)
		props, err := t.w.ImportAccountWithScope(fmt.Sprintf("watch%d", p), pub, fp, ks, waddrmgr.ScopeAddrMap[ks])
		if err != nil {
			return fail(fmt.Errorf("ImportAccountWithScope(%d): %w", p, err))
		}
		if props.AccountNumber != woAcct {
			return fail(fmt.Errorf("watch-only account of scope %d got number %d", p, props.AccountNumber))
		}
	}
	// imported private keys (compressed and uncompressed); ImportPrivateKey
	// wants a birthday block to compare with
	err = walletdb.Update(t.w.Database(), func(tx walletdb.ReadWriteTx) error {
		return t.w.Manager.SetBirthdayBlock(tx.ReadWriteBucket([]byte("waddrmgr")), waddrmgr.BlockStamp{
			Hash: *env.Params.GenesisHash, Height: 0, Timestamp: env.Params.GenesisBlock.Header.Timestamp}, true)
	})
	if err != nil {
		return fail(err)
	}
	for i, ik := range importedKeys {
		if ik.pubOnly {
			if err := t.w.ImportPublicKey(importedPriv(seed, i+1).PubKey(), waddrmgr.WitnessPubKey); err != nil {
				return fail(fmt.Errorf("ImportPublicKey(%d): %w", i+1, err))
			}
			continue
		}
		wif, err := btcutil.NewWIF(importedPriv(seed, i+1), env.Params, !ik.uncompressed)
		if err != nil {
			return fail(err)
		}
		ks, _ := keyScope(ik.purpose, 0)
		if _, err := t.w.ImportPrivateKey(ks, wif, nil, false); err != nil {
			return fail(fmt.Errorf("ImportPrivateKey(%d): %w", i+1, err))
		}
	}
	return t, nil
}

func hdPubRoot(seed []byte, params *chaincfg.Params) (*hdkeychain.ExtendedKey, error) {
	return hdkeychain.NewMaster(seed, params)
}

// newWatchOnlyEnv creates a wallet without any private key material.
func newWatchOnlyEnv(seed []byte) (*walletenv.Env, error) {
	walletenv.FastScrypt()
	dir, err := os.MkdirTemp("", "vh-wallet-")
	if err != nil {
		return nil, err
	}
	e := &walletenv.Env{Dir: dir, Path: filepath.Join(dir, "wallet.db"), Params: &chaincfg.RegressionNetParams, Seed: seed}
	db, err := walletenv.OpenDB(e.Path, true)
	if err != nil {
		os.RemoveAll(dir)
		return nil, err
	}
	e.DB = db
	if err := wallet.CreateWatchingOnly(db, walletenv.PubPass, e.Params, time.Unix(1600000000, 0)); err != nil {
		e.Close()
		return nil, err
	}
	w, err := wallet.OpenWithRetry(db, walletenv.PubPass, nil, e.Params, 0, 10*time.Millisecond)
	if err != nil {
		e.Close()
		return nil, err
	}
	e.W = w
	w.Start()
	return e, nil
}

// attach connects the (re)opened wallet to the backend and the test clock.
func (t *trace) attach() error {
	t.w = t.env.W
	t.w.TxStore.VerifSetClock(t.clk)
	t.w.VerifSetChainClient(t.ch)
	t.w.SetChainSynced(true)
	if t.woW {
		return nil
	}
	return t.w.Unlock(walletenv.PrivPass, nil)
}

// restart stops the wallet, reopens the database file and the wallet, and
// re-broadcasts the unconfirmed transactions as the start-up rescan does.
// In-memory outpoint locks do not survive (they are not persisted).
func (t *trace) restart() error {
	if err := t.env.Reopen(0, nil); err != nil {
		return err
	}
	if err := t.attach(); err != nil {
		return err
	}
	t.L.locks = map[wire.OutPoint]bool{}
	t.w.VerifResendUnminedTxs()
	return nil
}

func (t *trace) close() { t.env.Close() }

func (t *trace) ref(op wire.OutPoint) opRef {
	id, ok := t.intern[op.Hash]
	if !ok {
		id = int64(len(t.intern) + 1)
		t.intern[op.Hash] = id
	}
	return opRef{id, int64(op.Index)}
}

func (t *trace) refs(ops []wire.OutPoint) []opRef {
	out := make([]opRef, 0, len(ops))
	for _, o := range ops {
		out = append(out, t.ref(o))
	}
	return out
}

func (t *trace) fresh() chainhash.Hash {
	t.ctr++
	var b [8]byte
	binary.BigEndian.PutUint32(b[:], t.ctr)
	copy(b[4:], "c06x")
	return chainhash.DoubleHashH(b[:])
}

func (t *trace) extScript(kind string) []byte {
	h := t.fresh()
	var addr btcutil.Address
	switch kind {
	case "p2pkh":
		addr, _ = btcutil.NewAddressPubKeyHash(h[:20], t.params)
	case "p2sh":
		addr, _ = btcutil.NewAddressScriptHashFromHash(h[:20], t.params)
	case "p2wsh":
		addr, _ = btcutil.NewAddressWitnessScriptHash(h[:], t.params)
	case "p2tr":
		addr, _ = btcutil.NewAddressTaproot(h[:], t.params)
	default:
		addr, _ = btcutil.NewAddressWitnessPubKeyHash(h[:20], t.params)
	}
	s, _ := txscript.PayToAddrScript(addr)
	return s
}

func (t *trace) ownScript(scope, coin int, acct uint32, internal bool) ([]byte, error) {
	ks, ok := keyScope(scope, coin)
	if !ok {
		ks = waddrmgr.KeyScopeBIP0084
		scope, coin = 84, 0
	}
	switch {
	case t.woW:
		acct = 0
		if scope != 84 && scope != 86 || coin != 0 {
			ks, scope, coin = waddrmgr.KeyScopeBIP0084, 84, 0
		}
	case coin == customCoin:
		acct %= customAccounts
	case acct == woAcct && (scope == 84 || scope == 86):
	default:
		acct %= nAccounts
	}
	var addr btcutil.Address
	var err error
	if internal {
		addr, err = t.w.NewChangeAddress(acct, ks)
	} else {
		addr, err = t.w.NewAddress(acct, ks)
	}
	if err != nil {
		return nil, err
	}
	pk, err := txscript.PayToAddrScript(addr)
	if err != nil {
		return nil, err
	}
	if t.L.table[hex.EncodeToString(pk)] == nil {
		return nil, fmt.Errorf("harness: wallet address %v is outside the independent derivation table", addr)
	}
	return pk, nil
}

// importedPk is the script of the i-th imported private key.
func (t *trace) importedPk(i int) ([]byte, error) {
	if t.woW {
		return t.ownScript(84, 0, 0, false)
	}
	i = (i-1)%len(importedKeys) + 1
	pk, _, err := importedScript(t.seed, i, t.params)
	return pk, err
}

func (t *trace) coinSel(s int) *coin {
	if len(t.L.coins) == 0 || s < 0 {
		return nil
	}
	return t.L.coins[s%len(t.L.coins)]
}

// ---- chain --------------------------------------------------------------

func (t *trace) deliver(tx *wire.MsgTx, blk *simchain.Block) error {
	rec, err := wtxmgr.NewTxRecordFromMsgTx(tx, epoch)
	if err != nil {
		return err
	}
	var meta *wtxmgr.BlockMeta
	if blk != nil {
		m := blk.Meta()
		meta = &m
	}
	if err := t.w.VerifAddRelevantTx(rec, meta); err != nil {
		return err
	}
	// The notification handler deliberately skips outputs paying addresses of
	// non-default key scopes (the application that registered the scope keeps
	// track of them).  Outputs of the custom scope are credited the way such
	// an application can: through the exported transaction store.
	var custom []uint32
	for i, out := range tx.TxOut {
		if o := t.L.table[hex.EncodeToString(out.PkScript)]; o != nil && o.Coin == customCoin {
			custom = append(custom, uint32(i))
		}
	}
	if len(custom) == 0 {
		return nil
	}
	return walletdb.Update(t.w.Database(), func(dbtx walletdb.ReadWriteTx) error {
		ns := dbtx.ReadWriteBucket([]byte("wtxmgr"))
		for _, i := range custom {
			if err := t.w.TxStore.AddCredit(ns, rec, meta, i, false); err != nil {
				return err
			}
		}
		return nil
	})
}

// mineBlock connects one block holding cb (optional), the fresh external
// transactions newTxs and the already known unconfirmed transactions incl.
func (t *trace) mineBlock(cb *wire.MsgTx, newTxs []*wire.MsgTx, incl []*ltx) error {
	var txs []*wire.MsgTx
	if cb != nil {
		txs = append(txs, cb)
	}
	txs = append(txs, newTxs...)
	for _, u := range incl {
		txs = append(txs, u.tx)
	}
	blk := t.ch.Extend(txs, nil)
	if err := t.w.VerifConnectBlock(blk.Meta()); err != nil {
		return err
	}
	t.L.tip = blk.Height
	for _, tx := range txs {
		if err := t.deliver(tx, blk); err != nil {
			return err
		}
		old := t.L.byHash[tx.TxHash()]
		fresh := old == nil || old.height < 0
		lt := t.L.add(tx, blk.Height, false)
		if lt.alive {
			t.L.confirm(lt, blk.Height, fresh)
		}
	}
	return nil
}

// includable lists known unconfirmed transactions that a block may hold now:
// parents first, no two spending the same output.
func (t *trace) includable(mode string) []*ltx {
	var out []*ltx
	chosen := map[chainhash.Hash]bool{}
	used := map[wire.OutPoint]bool{}
	i := 0
	for _, u := range t.L.txs {
		if !u.alive || u.height >= 0 {
			continue
		}
		i++
		if mode == "none" || (mode == "half" && i%2 == 0) {
			continue
		}
		ok := true
		for _, in := range u.tx.TxIn {
			p := t.L.byHash[in.PreviousOutPoint.Hash]
			if p != nil && (!p.alive || (p.height < 0 && !chosen[p.hash])) {
				ok = false
			}
			if used[in.PreviousOutPoint] {
				ok = false
			}
			if s := t.L.spender(in.PreviousOutPoint, &u.hash); s != nil && s.height >= 0 {
				ok = false
			}
		}
		if !ok {
			continue
		}
		chosen[u.hash] = true
		for _, in := range u.tx.TxIn {
			used[in.PreviousOutPoint] = true
		}
		out = append(out, u)
	}
	return out
}

func (t *trace) disconnectTip() error {
	blk := t.ch.Disconnect()
	if blk == nil {
		return nil
	}
	if err := t.w.VerifDisconnectBlock(blk.Meta()); err != nil {
		return err
	}
	t.L.disconnect(blk.Height)
	if !t.deep {
		// the wallet now holds an all-zero hash for height-1: it ignores a
		// later detach of height-1 and fails a later detach of height
		t.noDisc[blk.Height-1] = true
		t.noDisc[blk.Height] = true
	}
	return nil
}

func (t *trace) buildOuts(outs []fundOut) ([]*wire.TxOut, error) {
	var res []*wire.TxOut
	for _, o := range outs {
		var s []byte
		if o.Ext {
			s = t.extScript("p2wpkh")
		} else {
			var err error
			if o.Imp > 0 {
				s, err = t.importedPk(o.Imp)
			} else {
				s, err = t.ownScript(o.Scope, o.Coin, o.Acct, o.Internal)
			}
			if err != nil {
				return nil, err
			}
		}
		res = append(res, wire.NewTxOut(o.Amt, s))
	}
	return res, nil
}

// ---- operations ---------------------------------------------------------

func (t *trace) exec(o op) error {
	switch o.K {
	case "fund", "spend":
		if o.Conf {
			t.tags["op:"+o.K+"_confirmed"] = true
		} else {
			t.tags["op:"+o.K+"_unconfirmed"] = true
		}
	case "reorg":
		t.tags[fmt.Sprintf("op:reorg_depth_%d", min(o.Depth, 3))] = true
	case "mine":
		if o.N >= 50 {
			t.tags["op:mine_to_maturity"] = true
		} else {
			t.tags["op:mine"] = true
		}
	case "req", "race":
	default:
		t.tags["op:"+o.K] = true
	}
	switch o.K {
	case "fund", "spend":
		tx := wire.NewMsgTx(2)
		if o.K == "fund" {
			tx.AddTxIn(wire.NewTxIn(&wire.OutPoint{Hash: t.fresh(), Index: 0}, nil, nil))
		} else {
			seen := map[wire.OutPoint]bool{}
			for _, s := range o.Coins {
				c := t.coinSel(s)
				// only outputs nobody spends: a node relays no conflicts of confirmed transactions
				if c == nil || !c.from.alive || seen[c.op] {
					continue
				}
				if sp := t.L.spender(c.op, nil); sp != nil && !(o.Double && !t.L.confirmedSpender(c.op)) {
					continue
				}
				if o.Conf && c.from.height < 0 {
					continue
				}
				seen[c.op] = true
				tx.AddTxIn(wire.NewTxIn(&c.op, nil, nil))
			}
			if len(tx.TxIn) == 0 {
				return nil
			}
		}
		outs, err := t.buildOuts(o.Outs)
		if err != nil {
			return err
		}
		tx.TxOut = outs
		if o.Conf {
			return t.mineBlock(nil, []*wire.MsgTx{tx}, nil)
		}
		if err := t.deliver(tx, nil); err != nil {
			return err
		}
		t.L.add(tx, -1, false)
		return nil

	case "cbfund":
		tx := wire.NewMsgTx(2)
		var hb [8]byte
		binary.BigEndian.PutUint32(hb[:], uint32(t.L.tip+1))
		t.ctr++
		binary.BigEndian.PutUint32(hb[4:], t.ctr)
		tx.AddTxIn(wire.NewTxIn(&wire.OutPoint{Index: 0xffffffff}, append([]byte{8}, hb[:]...), nil))
		outs, err := t.buildOuts(o.Outs)
		if err != nil {
			return err
		}
		tx.TxOut = outs
		return t.mineBlock(tx, nil, nil)

	case "mine":
		n := o.N
		if n < 1 {
			n = 1
		}
		for i := 0; i < n; i++ {
			var incl []*ltx
			if i == 0 {
				incl = t.includable(o.Include)
			}
			if err := t.mineBlock(nil, nil, incl); err != nil {
				return err
			}
		}
		return nil

	case "reorg":
		d := o.Depth
		if d < 1 {
			d = 1
		}
		for i := 0; i < d; i++ {
			tip := t.ch.Tip().Height
			if tip <= 1 || t.noDisc[tip] {
				break
			}
			if err := t.disconnectTip(); err != nil {
				return err
			}
		}
		n := o.N
		if !t.deep && n < 1 {
			n = 1
		}
		for i := 0; i < n; i++ {
			var incl []*ltx
			if i == 0 {
				incl = t.includable(o.Include)
			}
			if err := t.mineBlock(nil, nil, incl); err != nil {
				return err
			}
		}
		return nil

	case "lock":
		if c := t.coinSel(o.Coin); c != nil {
			t.w.LockOutpoint(c.op)
			t.L.locks[c.op] = true
		}
		return nil
	case "unlock":
		if c := t.coinSel(o.Coin); c != nil {
			t.w.UnlockOutpoint(c.op)
			delete(t.L.locks, c.op)
		}
		return nil
	case "lease":
		if c := t.coinSel(o.Coin); c != nil {
			dur := time.Duration(o.Dur) * time.Second
			var id wtxmgr.LockID
			id[0] = byte(o.ID)
			if _, err := t.w.LeaseOutput(id, c.op, dur); err == nil {
				t.L.leases[c.op] = lease{id: o.ID, expiry: t.L.now.Add(dur)}
			}
		}
		return nil
	case "release":
		if c := t.coinSel(o.Coin); c != nil {
			var id wtxmgr.LockID
			id[0] = byte(o.ID)
			if err := t.w.ReleaseOutput(id, c.op); err == nil {
				if le, ok := t.L.leases[c.op]; ok && le.id == o.ID {
					delete(t.L.leases, c.op)
				}
			}
		}
		return nil
	case "tick":
		t.L.now = t.L.now.Add(time.Duration(o.Dt) * time.Second)
		t.clk.SetTime(t.L.now)
		return nil
	case "abandon":
		// forget a known unconfirmed transaction (Wallet.RemoveDescendants
		// runs Store.RemoveUnminedTx on the transaction itself)
		var cand []*ltx
		for _, u := range t.L.txs {
			if u.alive && u.height < 0 {
				cand = append(cand, u)
			}
		}
		if len(cand) == 0 || o.Tx < 0 {
			return nil
		}
		u := cand[o.Tx%len(cand)]
		if err := t.w.RemoveDescendants(u.tx); err != nil {
			return err
		}
		t.L.kill(u)
		return nil
	case "publish":
		// hand a transaction created earlier (CreateSimpleTx, not a dry run)
		// to the backend now; the backend decides as a node would unless the
		// answer is scripted
		if len(t.held) == 0 || o.Tx < 0 {
			return nil
		}
		i := o.Tx % len(t.held)
		tx := t.held[i]
		t.held = append(t.held[:i:i], t.held[i+1:]...)
		if o.Accept {
			// "a node that has not seen the conflict": still never a conflict
			// of a CONFIRMED transaction nor a spend of outputs nobody knows
			for _, in := range tx.TxIn {
				if t.L.confirmedSpender(in.PreviousOutPoint) || t.L.liveCoin(in.PreviousOutPoint) == nil {
					return nil
				}
			}
		}
		before := t.unminedSet()
		n := t.ch.nSent()
		t.scriptAnswer(o.Reject, o.Accept)
		err := t.w.PublishTransaction(tx, "")
		t.ch.script = nil
		accepted := false
		for _, s := range t.ch.sentFrom(n) {
			if s.answer == "accepted" {
				accepted = true
			}
		}
		switch {
		case err == nil && accepted:
			t.tags["published_later"] = true
		case err == nil:
			t.tags["publish_later_already_known"] = true
		default:
			t.tags["publish_later_rejected"] = true
			t.checkReleased("PublishTransaction", tx, before)
		}
		return nil
	case "restart":
		if t.woW {
			return nil
		}
		return t.restart()
	case "race":
		return t.race(o.Race)
	case "req":
		if o.Req == nil {
			return nil
		}
		return t.request(o.Req)
	}
	return fmt.Errorf("unknown op %q", o.K)
}
