package main

// c06 -probe: the regenerated facts of coq/Generated/SelectFacts.v determined
// BEHAVIOURALLY, by running the witness scenario of the corresponding theorem
// on the code this binary was built from.  Used by lib/extract_c06.py only
// when the source shape of the explicit selection is not recognised.
//
//	explicit_selection_rejects_duplicates  (witness: C06_refuted_duplicate_selection)
//	    one or two confirmed outputs of one account, an explicit selection
//	    naming one of them twice ([c, c] needing both copies to pay; [d, c, d]
//	    where one copy would do), through CreateSimpleTx(WithCustomSelectUtxos),
//	    SendOutputsWithInput and FundPsbt(WithCustomSelectUtxos), on three
//	    address types.  true iff every instance is refused (an error and no
//	    transaction created, recorded or sent) while the same request without
//	    the repetition succeeds; false iff every instance yields a transaction
//	    spending the outpoint twice.
//	explicit_selection_requires_eligible   (witness: C06_refuted_ineligible_selection)
//	    a good output next to one that is locked / leased / of another account /
//	    of another key scope / spent by an unconfirmed transaction /
//	    unconfirmed at minconf 1 / unknown, selected explicitly through the
//	    same three entry points.  true iff every instance is refused while the
//	    good output alone is accepted; false iff every instance yields a
//	    transaction (the ineligible outpoint is skipped or spent).
//
// Instances that disagree make the probe fail (exit status 3): the code is
// then neither of the two instances of the model.

import (
	"encoding/json"
	"fmt"
	"os"
)

var probeMode bool

type probeFact struct {
	OK    bool   `json:"ok"`
	Value bool   `json:"value"`
	Why   string `json:"why"`
}

type probeOut struct {
	RequiresEligible  probeFact `json:"requires_eligible"`
	RejectsDuplicates probeFact `json:"rejects_duplicates"`
	Scenarios         int       `json:"scenarios"`
}

// runProbe runs ops + the request and reports: created?, the inputs.
func runProbe(wseed int, ops []op) (reqObs, error) {
	cs, err := run(c06Input{WSeed: wseed, Ops: ops}, false, nil)
	if err != nil {
		return reqObs{}, err
	}
	if cs.Obs.Problem != "" {
		return reqObs{}, fmt.Errorf("%s", cs.Obs.Problem)
	}
	if len(cs.Obs.Reqs) == 0 {
		return reqObs{}, fmt.Errorf("no request ran")
	}
	return cs.Obs.Reqs[len(cs.Obs.Reqs)-1], nil
}

func hasDup(ins []opRef) bool {
	seen := map[opRef]bool{}
	for _, i := range ins {
		if seen[i] {
			return true
		}
		seen[i] = true
	}
	return false
}

func probe() error {
	out := probeOut{}
	apis := []string{"create", "sendwith", "fundpsbt"}
	// ---- duplicates
	{
		refused, accepted, n := 0, 0, 0
		var odd []string
		for si, p := range []int{84, 86, 49} {
			for _, api := range apis {
				for vi, v := range []struct {
					sel  []int
					ctrl []int
					amt  int64
				}{{[]int{0, 0}, []int{0}, 1500000}, {[]int{1, 0, 1}, []int{1, 0}, 300000}} {
					setup := fund(true, own(p, 0, 1000000), own(p, 0, 700000))
					amt := v.amt
					ctrlAmt := amt
					if vi == 0 {
						ctrlAmt = 500000
					}
					ctrl, err := runProbe(si, []op{setup, req(reqSpec{API: "create", Acct: 0, Scope: p, MinConf: 1, Pay: pay(ctrlAmt), Explicit: v.ctrl, Dry: true})})
					if err != nil {
						return err
					}
					got, err := runProbe(si, []op{setup, req(reqSpec{API: api, Acct: 0, Scope: p, MinConf: 1, Pay: pay(amt), Explicit: v.sel})})
					if err != nil {
						return err
					}
					n += 2
					name := fmt.Sprintf("%s/%d/%v", api, p, v.sel)
					switch {
					case ctrl.Outcome != "ok":
						odd = append(odd, name+": the selection without the repetition is not accepted: "+ctrl.Err)
					case got.Outcome == "error":
						refused++
					case got.Outcome == "ok" && hasDup(got.Inputs):
						accepted++
					default:
						odd = append(odd, fmt.Sprintf("%s: accepted without spending the outpoint twice (inputs %v)", name, got.Inputs))
					}
				}
			}
		}
		switch {
		case len(odd) > 0:
			out.RejectsDuplicates = probeFact{Why: fmt.Sprintf("inconsistent: %v", odd)}
		case accepted == 0:
			out.RejectsDuplicates = probeFact{OK: true, Value: true, Why: fmt.Sprintf("all %d repeated selections refused (error, nothing created), their duplicate-free versions accepted", refused)}
		case refused == 0:
			out.RejectsDuplicates = probeFact{OK: true, Value: false, Why: fmt.Sprintf("all %d repeated selections yield a transaction spending the outpoint twice", accepted)}
		default:
			out.RejectsDuplicates = probeFact{Why: fmt.Sprintf("inconsistent: %d refused, %d accepted", refused, accepted)}
		}
		out.Scenarios += n
	}
	// ---- ineligible outpoints
	{
		two := fund(true, own(84, 0, 50000), own(84, 0, 1000000))
		type bad struct {
			name  string
			setup []op
		}
		bads := []bad{
			{"locked", []op{two, {K: "lock", Coin: 1}}},
			{"leased", []op{two, {K: "lease", Coin: 1, ID: 7, Dur: 600}}},
			{"other_account", []op{fund(true, own(84, 0, 50000), own(84, 1, 1000000))}},
			{"other_scope", []op{fund(true, own(84, 0, 50000), own(86, 0, 1000000))}},
			{"spent_unconfirmed", []op{two, {K: "spend", Coins: []int{1}, Outs: []fundOut{{Ext: true, Amt: 990000}}}}},
			{"unconfirmed_minconf1", []op{fund(true, own(84, 0, 50000)), fund(false, own(84, 0, 1000000))}},
			{"unknown", []op{fund(true, own(84, 0, 50000))}},
		}
		refused, accepted, n := 0, 0, 0
		var odd []string
		for bi, b := range bads {
			for _, api := range apis {
				sel := []int{0, 1}
				if b.name == "unknown" {
					sel = []int{0, -1}
				}
				ctrl, err := runProbe(bi, append(append([]op{}, b.setup...),
					req(reqSpec{API: "create", Acct: 0, Scope: 84, MinConf: 1, Pay: pay(20000), Explicit: []int{0}, Dry: true})))
				if err != nil {
					return err
				}
				got, err := runProbe(bi, append(append([]op{}, b.setup...),
					req(reqSpec{API: api, Acct: 0, Scope: 84, MinConf: 1, Pay: pay(20000), Explicit: sel})))
				if err != nil {
					return err
				}
				n += 2
				name := api + "/" + b.name
				switch {
				case ctrl.Outcome != "ok":
					odd = append(odd, name+": the good output alone is not accepted: "+ctrl.Err)
				case got.Outcome == "error":
					refused++
				default:
					accepted++
				}
			}
		}
		switch {
		case len(odd) > 0:
			out.RequiresEligible = probeFact{Why: fmt.Sprintf("inconsistent: %v", odd)}
		case accepted == 0:
			out.RequiresEligible = probeFact{OK: true, Value: true, Why: fmt.Sprintf("all %d selections naming an ineligible outpoint (locked, leased, other account, other scope, spent, unconfirmed, unknown) refused, the good output alone accepted", refused)}
		case refused == 0:
			out.RequiresEligible = probeFact{OK: true, Value: false, Why: fmt.Sprintf("all %d selections naming an ineligible outpoint yield a transaction", accepted)}
		default:
			out.RequiresEligible = probeFact{Why: fmt.Sprintf("inconsistent: %d refused, %d accepted", refused, accepted)}
		}
		out.Scenarios += n
	}
	b, _ := json.Marshal(out)
	fmt.Fprintln(os.Stdout, string(b))
	return nil
}
