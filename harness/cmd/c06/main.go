// Command c06 runs the real wallet.Wallet over a simulated chain and judges
// every transaction it creates (property C06): inputs eligible by an
// independent ledger, used once, never reused after publication, explicit
// selections of ineligible outputs refused, signatures valid under the script
// engine.  One JSON object per wallet history:
//
//	{"in": {wseed, ops}, "obs": {reqs...}, "oracle": [kinds], "viol": [...], "tags": [...]}
package main

import (
	"encoding/json"
	"flag"
	"fmt"
	"os"
	"runtime"
	"sort"
	"sync"

	"verifharness/internal/core"
	"verifharness/internal/gen"
)

type c06Case struct {
	In     c06Input    `json:"in"`
	Obs    c06Obs      `json:"obs"`
	Oracle []string    `json:"oracle"`
	Viol   []violation `json:"viol"`
	Tags   []string    `json:"tags"`
}

// probeDeepReorg: can this wallet detach two blocks in a row?  (It cannot
// while disconnectBlock records an all-zero hash for the new tip - DESIGN
// section 6, S1, property C15.  Reorganisations deeper than one block are
// generated only when it can, so that C06 does not report C15's finding.)
func probeDeepReorg() (bool, error) {
	t, err := newTrace(c06Input{}, true)
	if err != nil {
		return false, err
	}
	defer t.close()
	if err := t.exec(op{K: "mine", N: 3, Include: "none"}); err != nil {
		return false, err
	}
	if err := t.exec(op{K: "reorg", Depth: 2, N: 0}); err != nil {
		return false, err
	}
	return t.w.Manager.SyncedTo().Height == 1, nil
}

// run executes in.Ops; gen (optional) produces further operations online.
func run(in c06Input, deep bool, g func(t *trace, i int) *op) (c06Case, error) {
	cs := c06Case{Oracle: []string{}, Viol: []violation{}, Tags: []string{}}
	t, err := newTrace(in, deep)
	if err != nil {
		return cs, err
	}
	defer t.close()
	step := func(o op) (bool, error) {
		if err := t.exec(o); err != nil {
			return false, fmt.Errorf("op %d %s: %w", len(cs.In.Ops), o.K, err)
		}
		cs.In.Ops = append(cs.In.Ops, o)
		// a history ends at its first violation (short replays)
		return len(t.viols) > 0, nil
	}
	cs.In.WSeed = in.WSeed
	cs.In.WatchOnlyWallet = in.WatchOnlyWallet
	cs.In.Ops = []op{}
	stop := false
	for _, o := range in.Ops {
		if stop, err = step(o); err != nil || stop {
			break
		}
	}
	for i := 0; g != nil && err == nil && !stop; i++ {
		o := g(t, i)
		if o == nil {
			break
		}
		stop, err = step(*o)
	}
	cs.Obs = c06Obs{Reqs: t.reqs, Deep: deep, OpsRun: len(cs.In.Ops), Notes: t.notes}
	if cs.Obs.Reqs == nil {
		cs.Obs.Reqs = []reqObs{}
	}
	if err != nil {
		cs.Obs.Problem = err.Error()
	} else if t.problem != "" {
		cs.Obs.Problem = t.problem
	}
	if stop {
		t.tags["stopped_after_violation"] = true
	}
	seen := map[string]bool{}
	for _, v := range t.viols {
		cs.Viol = append(cs.Viol, v)
		if !seen[v.Kind] {
			seen[v.Kind] = true
			cs.Oracle = append(cs.Oracle, v.Kind)
		}
	}
	for k := range t.tags {
		cs.Tags = append(cs.Tags, k)
	}
	sort.Strings(cs.Tags)
	return cs, err
}

func main() {
	if _, err := os.Stat("/dev/shm"); err == nil && os.Getenv("VERIF_KEEP_TMPDIR") == "" {
		os.Setenv("TMPDIR", "/dev/shm")
	}
	core.Main("c06", func(fs *flag.FlagSet) {
		fs.BoolVar(&finalizeP2PKH, "psbt-p2pkh", false, "a P2PKH input of a finalized PSBT that does not verify is a violation (default: a note)")
		fs.BoolVar(&probeMode, "probe", false, "determine the regenerated facts of Generated/SelectFacts.v behaviourally and print them")
	}, func(c *core.Common, out *core.Emitter) error {
		if probeMode {
			return probe()
		}
		deep, err := probeDeepReorg()
		if err != nil {
			return err
		}
		if c.Replay != "" {
			return core.ReadReplay(c.Replay, func(raw json.RawMessage) error {
				var cs struct {
					In c06Input `json:"in"`
				}
				if err := json.Unmarshal(raw, &cs); err != nil {
					return err
				}
				res, err := run(cs.In, deep, nil)
				res.Tags = append(res.Tags, "replay")
				out.Emit(res)
				return err
			})
		}
		type job struct {
			in  c06Input
			gen func(t *trace, i int) *op
			tag string
		}
		var jobs []job
		for _, s := range systematic() {
			jobs = append(jobs, job{in: s.in, tag: "systematic:" + s.name})
		}
		for i := 0; i < c.N; i++ {
			r := gen.New(c.Seed, int64(600+i))
			n := r.Range(18, 42)
			if c.Tier == "thorough" {
				n = r.Range(18, 70)
			}
			jobs = append(jobs, job{in: c06Input{WSeed: r.Intn(3)}, gen: randomOps(r, n), tag: "random"})
		}
		results := make([]c06Case, len(jobs))
		errs := make([]error, len(jobs))
		workers := runtime.NumCPU()
		if workers > 10 {
			workers = 10
		}
		var wg sync.WaitGroup
		next := make(chan int)
		for w := 0; w < workers; w++ {
			wg.Add(1)
			go func() {
				defer wg.Done()
				for i := range next {
					results[i], errs[i] = run(jobs[i].in, deep, jobs[i].gen)
					results[i].Tags = append(results[i].Tags, jobs[i].tag)
				}
			}()
		}
		for i := range jobs {
			next <- i
		}
		close(next)
		wg.Wait()
		for i := range jobs {
			out.Emit(results[i])
			if errs[i] != nil {
				return fmt.Errorf("case %d (%s): %w", i, jobs[i].tag, errs[i])
			}
		}
		return nil
	})
}
