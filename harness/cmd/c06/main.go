package main

import (
	"fmt"
	"os"
	"time"

	"github.com/btcsuite/btcwallet/waddrmgr"
	"verifharness/internal/simchain"
	"verifharness/internal/walletenv"
)

func main() {
	if len(os.Args) > 1 {
		os.Setenv("TMPDIR", os.Args[1])
	}
	t0 := time.Now()
	seed := make([]byte, 32)
	seed[0] = 7
	env, err := walletenv.New(seed, time.Unix(1600000000, 0), 0, nil)
	if err != nil {
		panic(err)
	}
	defer env.Close()
	w := env.W
	ch := simchain.New(env.Params)
	w.VerifSetChainClient(ch)
	w.SetChainSynced(true)
	if err := w.Unlock(walletenv.PrivPass, nil); err != nil {
		panic(err)
	}
	fmt.Println("create+unlock", time.Since(t0))
	t0 = time.Now()
	for _, sc := range waddrmgr.DefaultKeyScopes {
		for i := 1; i <= 2; i++ {
			a, err := w.NextAccount(sc, fmt.Sprintf("a%d", i))
			if err != nil {
				panic(err)
			}
			_ = a
		}
	}
	fmt.Println("8 accounts", time.Since(t0))
	t0 = time.Now()
	for _, sc := range waddrmgr.DefaultKeyScopes {
		for i := uint32(0); i <= 2; i++ {
			_, err := w.NewAddress(i, sc)
			if err != nil {
				panic(err)
			}
		}
	}
	fmt.Println("12 addrs", time.Since(t0))
	t0 = time.Now()
	for i := 0; i < 100; i++ {
		b := ch.Extend(nil, nil)
		if err := w.VerifConnectBlock(b.Meta()); err != nil {
			panic(err)
		}
	}
	fmt.Println("100 blocks", time.Since(t0))
}
