package main

// Requests: what the wallet is asked, what it answers, and the property
// stated on the answer.  Nothing here looks at the TEXT of an error: a request
// counts as refused when it returned an error AND no transaction was created,
// recorded in the wallet's store or handed to the backend.

import (
	"encoding/hex"
	"errors"
	"fmt"
	"sort"
	"sync"

	"github.com/btcsuite/btcd/btcutil"
	"github.com/btcsuite/btcd/btcutil/psbt"
	"github.com/btcsuite/btcd/chaincfg/chainhash"
	"github.com/btcsuite/btcd/txscript"
	"github.com/btcsuite/btcd/wire"
	"github.com/btcsuite/btcwallet/waddrmgr"
	"github.com/btcsuite/btcwallet/wallet"
	"github.com/btcsuite/btcwallet/wallet/txsizes"
	"github.com/btcsuite/btcwallet/walletdb"
	"github.com/btcsuite/btcwallet/wtxmgr"
)

func classOf(pk []byte) string {
	switch {
	case txscript.IsPayToTaproot(pk):
		return "p2tr"
	case txscript.IsPayToWitnessPubKeyHash(pk):
		return "p2wpkh"
	case txscript.IsPayToScriptHash(pk):
		return "np2wpkh"
	case txscript.IsPayToPubKeyHash(pk):
		return "p2pkh"
	}
	return "other"
}

// snapshot dumps what the wallet's selection will see: UnspentOutputs with
// the address manager's answer per script, the chain height, the lock set and
// the wallet's own watch-only answer for the selection scope.
func (t *trace) snapshot(ro *reqObs, rv reqView, scopePtr *waddrmgr.KeyScope) error {
	bs, err := t.ch.BlockStamp()
	if err != nil {
		return err
	}
	ro.Height = bs.Height
	ro.Maturity = int32(t.params.CoinbaseMaturity)
	ro.WalletWO = t.w.Manager.WatchOnly()
	for _, li := range t.w.LockedOutpoints() {
		h, err := chainhash.NewHashFromStr(li.Txid)
		if err != nil {
			return err
		}
		ro.Locked = append(ro.Locked, t.ref(wire.OutPoint{Hash: *h, Index: li.Vout}))
	}
	sort.Slice(ro.Locked, func(i, j int) bool {
		return ro.Locked[i][0] < ro.Locked[j][0] || (ro.Locked[i][0] == ro.Locked[j][0] && ro.Locked[i][1] < ro.Locked[j][1])
	})
	return walletdb.View(t.w.Database(), func(tx walletdb.ReadTx) error {
		txns := tx.ReadBucket([]byte("wtxmgr"))
		adns := tx.ReadBucket([]byte("waddrmgr"))
		// the input of the sign / skip decision (createtx.go: the account of
		// the selection scope, BIP86 when no scope is given)
		woScope := waddrmgr.KeyScopeBIP0086
		if scopePtr != nil {
			woScope = *scopePtr
		}
		if wo, err := t.w.Manager.IsWatchOnlyAccount(adns, woScope, rv.acct); err == nil {
			ro.WO = wo
		} else {
			ro.Note = append(ro.Note, "watch_only_lookup_failed")
		}
		us, err := t.w.TxStore.UnspentOutputs(txns)
		if err != nil {
			return err
		}
		for _, u := range us {
			c := candObs{Op: t.ref(u.OutPoint), Amt: int64(u.Amount), H: u.Height, CB: u.FromCoinBase,
				AT: classOf(u.PkScript), VS: txsizes.GetMinInputVirtualSize(u.PkScript)}
			_, addrs, _, err := txscript.ExtractPkScriptAddrs(u.PkScript, t.params)
			if err == nil && len(addrs) == 1 {
				if mgr, acct, err := t.w.Manager.AddrAccount(adns, addrs[0]); err == nil {
					sc := mgr.Scope()
					c.Own = &[3]int{int(sc.Purpose), int(sc.Coin), int(acct)}
					if rv.acct == importedAcc {
						if ma, err := t.w.Manager.Address(adns, addrs[0]); err == nil {
							if pka, ok := ma.(waddrmgr.ManagedPubKeyAddress); ok {
								if k, err := pka.PrivKey(); err == nil {
									k.Zero()
									c.Priv = true
								}
							}
						}
					}
				}
			}
			c.Why = t.L.whyNot(u.OutPoint, rv, nil)
			ro.Cands = append(ro.Cands, c)
		}
		sort.Slice(ro.Cands, func(i, j int) bool {
			a, b := ro.Cands[i].Op, ro.Cands[j].Op
			return a[0] < b[0] || (a[0] == b[0] && a[1] < b[1])
		})
		return nil
	})
}

func (t *trace) flag(kind, site string, detail string) {
	t.viols = append(t.viols, violation{Kind: kind, Site: site, Req: len(t.reqs), Detail: detail})
}

func carries(in *wire.TxIn) bool { return len(in.SignatureScript) > 0 || len(in.Witness) > 0 }

func isSigned(tx *wire.MsgTx) bool {
	if len(tx.TxIn) == 0 {
		return false
	}
	for _, in := range tx.TxIn {
		if !carries(in) {
			return false
		}
	}
	return true
}

// unminedSet: the unconfirmed transactions recorded in the wallet's store.
func (t *trace) unminedSet() map[chainhash.Hash]bool {
	out := map[chainhash.Hash]bool{}
	_ = walletdb.View(t.w.Database(), func(tx walletdb.ReadTx) error {
		hs, err := t.w.TxStore.UnminedTxHashes(tx.ReadBucket([]byte("wtxmgr")))
		if err != nil {
			return err
		}
		for _, h := range hs {
			out[*h] = true
		}
		return nil
	})
	return out
}

func (t *trace) walletUnspent() map[wire.OutPoint]bool {
	out := map[wire.OutPoint]bool{}
	_ = walletdb.View(t.w.Database(), func(tx walletdb.ReadTx) error {
		us, err := t.w.TxStore.UnspentOutputs(tx.ReadBucket([]byte("wtxmgr")))
		if err != nil {
			return err
		}
		for _, u := range us {
			out[u.OutPoint] = true
		}
		return nil
	})
	return out
}

// checkReleased: a transaction whose publication the backend refused must
// leave no trace: it is not among the wallet's unconfirmed transactions and
// every input that no OTHER known transaction spends (and that is not leased)
// is a candidate again.
func (t *trace) checkReleased(site string, tx *wire.MsgTx, before map[chainhash.Hash]bool) {
	h := tx.TxHash()
	if lt := t.L.byHash[h]; lt != nil && lt.alive {
		return // the ledger knows it (an earlier accepted publication): nothing to release
	}
	if t.unminedSet()[h] && !before[h] {
		t.flag("rejected_publish_not_released", site, fmt.Sprintf("%v is still recorded as unconfirmed after the backend refused it", h))
		return
	}
	unspent := t.walletUnspent()
	for _, in := range tx.TxIn {
		op := in.PreviousOutPoint
		if t.L.liveCoin(op) == nil || t.L.spender(op, &h) != nil || t.L.leased(op) {
			continue
		}
		if !unspent[op] {
			t.flag("rejected_publish_not_released", site, fmt.Sprintf("%v (input of the refused %v) is not spendable again", op, h))
		}
	}
	t.tags["rejected_publish_released"] = true
}

// verifySigs runs the script engine with standard flags on every input of tx
// that carries a script or witness (all of them when all is set).
func (t *trace) verifySigs(site string, tx *wire.MsgTx, all bool, lenientP2PKH bool) {
	prev := map[wire.OutPoint]*wire.TxOut{}
	for _, in := range tx.TxIn {
		if c := t.L.byOp[in.PreviousOutPoint]; c != nil {
			prev[in.PreviousOutPoint] = wire.NewTxOut(c.amt, c.pk)
		}
	}
	known := map[wire.OutPoint]bool{}
	for _, in := range tx.TxIn {
		known[in.PreviousOutPoint] = true
	}
	if len(prev) != len(known) {
		// an input the ledger has never seen (already reported as not owned):
		// the signature hashes cannot be computed independently
		t.tags["sig_check_skipped_unknown_prevout"] = true
		return
	}
	fetcher := txscript.NewMultiPrevOutFetcher(prev)
	hashes := txscript.NewTxSigHashes(tx, fetcher)
	for i, in := range tx.TxIn {
		if !all && !carries(in) {
			continue
		}
		po := prev[in.PreviousOutPoint]
		at := classOf(po.PkScript)
		if c := t.L.byOp[in.PreviousOutPoint]; c != nil && c.own.Imported > 0 {
			at += ":imported"
			if c.own.Uncompressed {
				at += "-uncompressed"
			}
		}
		vm, err := txscript.NewEngine(po.PkScript, tx, i, txscript.StandardVerifyFlags, nil, hashes, po.Value, fetcher)
		if err == nil {
			err = vm.Execute()
		}
		switch {
		case err == nil:
			t.tags["sig_ok:"+at] = true
		case lenientP2PKH && classOf(po.PkScript) == "p2pkh":
			// FinalizePsbt (documented for P2WKH, nested P2WKH and taproot key
			// spends) attaches a witness to a P2PKH input and reports success
			t.notes["finalized_psbt_p2pkh_input_invalid"]++
			t.tags["psbt_p2pkh_input_invalid_after_finalize"] = true
		default:
			t.flag("invalid_signature", site+":"+at, fmt.Sprintf("input %d (%v): %v", i, in.PreviousOutPoint, err))
		}
	}
}

// judgeInputs states the eligibility part of the property on one created
// transaction; spends by the transactions in ignore do not count.
func (t *trace) judgeInputs(site string, rv reqView, tx *wire.MsgTx, ignore map[chainhash.Hash]bool) {
	seen := map[wire.OutPoint]bool{}
	self := tx.TxHash()
	for _, in := range tx.TxIn {
		op := in.PreviousOutPoint
		if seen[op] {
			t.flag("duplicate_input", site, fmt.Sprintf("%v used twice", op))
		}
		seen[op] = true
		if ignore[op.Hash] && t.L.liveCoin(op) == nil {
			// an output of a transaction of the same race that the backend
			// refused afterwards: known to the wallet when this one was
			// created, gone (with this one) since
			t.tags["race:spent_output_of_refused_race_tx"] = true
			continue
		}
		for _, w := range t.L.whyNotIgnoring(op, rv, &self, ignore) {
			t.flag(kindOf[w], site, fmt.Sprintf("%v: %s", op, w))
		}
		if p := t.L.published[op]; p != nil && p.alive && p.hash != self && !ignore[p.hash] {
			t.flag("published_input_reused", site, fmt.Sprintf("%v is an input of published %v", op, p.hash))
		}
	}
}

// noKeys: by the harness' own knowledge (what it created and imported), the
// wallet holds no private key for the account as such: a watch-only wallet, an
// account imported by extended public key.  (The imported account is judged
// input by input: keysHeld.)
func (t *trace) noKeys(acct uint32) bool {
	return t.woW || acct == woAcct
}

// judgeSigned states the signature part of the property on a created, not
// dry-run transaction: every input of a result for keys the wallet holds
// carries a signature that verifies; whatever script a watch-only result does
// carry must verify too.
func (t *trace) judgeSigned(site string, acct uint32, tx *wire.MsgTx) {
	switch {
	case t.noKeys(acct), acct == importedAcc && !t.keysHeld(tx):
		t.verifySigs(site, tx, false, false)
		if isSigned(tx) {
			t.tags["watch_only_result_signed"] = true
		} else {
			t.tags["watch_only_result_unsigned"] = true
		}
	case acct == importedAcc && !isSigned(tx):
		// every input belongs to a key imported WITH its private key (the
		// finding fixed by 7cd4d93: the imported account was never signed)
		t.flag("unsigned_result_for_imported_keys", "ImportedAddrAccount",
			fmt.Sprintf("%s: result for the imported account carries no signatures although the wallet holds the private key of every input", site))
		t.completeImported(site, tx)
	default:
		for i, in := range tx.TxIn {
			if !carries(in) {
				t.flag("unsigned_input_in_spendable_result", site, fmt.Sprintf("input %d (%v) of a result for account %d carries neither script nor witness", i, in.PreviousOutPoint, acct))
			}
		}
		t.verifySigs(site, tx, true, false)
	}
}

// keysHeld: every input spends a coin of a key imported with its private key.
func (t *trace) keysHeld(tx *wire.MsgTx) bool {
	for _, in := range tx.TxIn {
		if c := t.L.byOp[in.PreviousOutPoint]; c == nil || c.own.Imported == 0 || c.own.PubOnly {
			return false
		}
	}
	return len(tx.TxIn) > 0
}

// completeImported signs an unsigned result for the imported account with the
// wallet's own signers (ComputeInputScript for witness inputs, SignTransaction
// for P2PKH) and verifies every input: the imported keys - compressed and
// uncompressed - must produce valid signatures.
func (t *trace) completeImported(site string, tx *wire.MsgTx) {
	cp := tx.Copy()
	prev := map[wire.OutPoint]*wire.TxOut{}
	for _, in := range cp.TxIn {
		c := t.L.byOp[in.PreviousOutPoint]
		if c == nil || c.own.Imported == 0 || c.own.PubOnly {
			return
		}
		prev[in.PreviousOutPoint] = wire.NewTxOut(c.amt, c.pk)
	}
	fetcher := txscript.NewMultiPrevOutFetcher(prev)
	hashes := txscript.NewTxSigHashes(cp, fetcher)
	legacy := false
	for i, in := range cp.TxIn {
		po := prev[in.PreviousOutPoint]
		if classOf(po.PkScript) == "p2pkh" {
			legacy = true
			continue
		}
		wit, sigScript, err := t.w.ComputeInputScript(cp, po, i, hashes, sigHashFor(po.PkScript), nil)
		if err != nil {
			t.flag("invalid_signature", "ComputeInputScript(imported):"+classOf(po.PkScript), fmt.Sprintf("input %d: %v", i, err))
			return
		}
		in.Witness, in.SignatureScript = wit, sigScript
	}
	if legacy {
		if _, err := t.w.SignTransaction(cp, txscript.SigHashAll, nil, nil, nil); err != nil {
			t.flag("invalid_signature", "SignTransaction(imported):p2pkh", err.Error())
			return
		}
	}
	t.tags["imported_result_completed_by_wallet_signers"] = true
	t.verifySigs("wallet signers on "+site, cp, true, false)
}

func sigHashFor(pk []byte) txscript.SigHashType {
	if txscript.IsPayToTaproot(pk) {
		return txscript.SigHashDefault
	}
	return txscript.SigHashAll
}

func (t *trace) recordPublished(tx *wire.MsgTx) {
	t.checkChange(tx)
	lt := t.L.add(tx, -1, true)
	lt.published = true
	for _, in := range tx.TxIn {
		t.L.published[in.PreviousOutPoint] = lt
	}
}

// checkChange: every output the wallet added to a transaction (its change)
// must be a script the independent derivation table knows, or the ledger
// would not see the change as a wallet coin (a harness limit, not a finding).
func (t *trace) checkChange(tx *wire.MsgTx) {
	for _, out := range tx.TxOut {
		if t.requested[hex.EncodeToString(out.PkScript)] || t.L.table[hex.EncodeToString(out.PkScript)] != nil {
			continue
		}
		t.problem = fmt.Sprintf("harness: output script %x of a wallet transaction is outside the derivation table", out.PkScript)
	}
}

func (t *trace) scriptAnswer(reject, accept bool) {
	switch {
	case reject:
		t.ch.script = []string{"reject"}
	case accept:
		t.ch.script = []string{"accept"}
	default:
		t.ch.script = nil
	}
}

// reqArgs is a request translated into the wallet's types.
type reqArgs struct {
	rv       reqView
	scopePtr *waddrmgr.KeyScope
	strat    wallet.CoinSelectionStrategy
	outs     []*wire.TxOut
}

func (t *trace) args(rs *reqSpec) (reqArgs, error) {
	a := reqArgs{rv: reqView{acct: rs.Acct, scope: rs.Scope, coin: rs.Coin, minconf: rs.MinConf, maturity: int32(t.params.CoinbaseMaturity)}}
	if ks, ok := keyScope(rs.Scope, rs.Coin); ok {
		a.scopePtr = &ks
	} else {
		a.rv.scope, a.rv.coin = 0, 0
	}
	switch rs.Strat {
	case "largest":
		a.strat = wallet.CoinSelectionLargest
	case "random":
		a.strat = wallet.CoinSelectionRandom
	}
	for _, p := range rs.Pay {
		var s []byte
		if p.Kind == "own" {
			var err error
			if s, err = t.ownScript(p.Scope, p.Coin, p.Acct, false); err != nil {
				return a, err
			}
		} else {
			s = t.extScript(p.Kind)
		}
		a.outs = append(a.outs, wire.NewTxOut(p.Amt, s))
		t.requested[hex.EncodeToString(s)] = true
	}
	return a, nil
}

func (t *trace) pick(sels []int) []wire.OutPoint {
	var ops []wire.OutPoint
	for _, s := range sels {
		if c := t.coinSel(s); c != nil {
			ops = append(ops, c.op)
		} else {
			ops = append(ops, wire.OutPoint{Hash: t.fresh(), Index: uint32(len(ops))})
		}
	}
	return ops
}

var siteOf = map[string]string{"create": "CreateSimpleTx", "send": "SendOutputs", "sendwith": "SendOutputsWithInput",
	"fundpsbt": "FundPsbt"}

func (t *trace) request(rs *reqSpec) error {
	a, err := t.args(rs)
	if err != nil {
		return err
	}
	rv, scopePtr, strat, outs := a.rv, a.scopePtr, a.strat, a.outs
	sel := t.pick(rs.Explicit)
	psbtIn := t.pick(rs.PsbtIn)
	var opts []wallet.TxCreateOption
	site := siteOf[rs.API]
	if site == "" {
		return fmt.Errorf("unknown api %q", rs.API)
	}
	if len(sel) > 0 && rs.API != "sendwith" {
		opts = append(opts, wallet.WithCustomSelectUtxos(sel))
		site += "(WithCustomSelectUtxos)"
	}
	if rs.API == "send" {
		sel = nil
		opts = nil
		site = "SendOutputs"
	}
	// a change scope of its own (the selection scope still decides the inputs)
	chgScope, chgCoin := 0, 0
	if ks, ok := keyScope(rs.ChgScope, rs.ChgCoin); ok && (rs.API == "create" || rs.API == "fundpsbt") {
		opts = append(opts, wallet.WithCustomChangeScope(&ks))
		chgScope, chgCoin = rs.ChgScope, rs.ChgCoin
		site += "(WithCustomChangeScope)"
	}
	var allowOps []wire.OutPoint
	hasAllow := rs.HasAllow && rs.API != "send" && rs.API != "sendwith"
	if hasAllow {
		allowOps = t.pick(rs.Allow)
		allowed := map[wire.OutPoint]bool{}
		for _, o := range allowOps {
			allowed[o] = true
		}
		opts = append(opts, wallet.WithUtxoFilter(func(u wtxmgr.Credit) bool { return allowed[u.OutPoint] }))
	}
	if rs.API == "fundpsbt" && len(psbtIn) > 0 {
		return t.fundPsbtWithInputs(rs, rv, scopePtr, strat, outs, psbtIn)
	}

	dry := rs.Dry && rs.API == "create"
	ro := reqObs{API: rs.API, Site: site, Acct: rs.Acct, Scope: rv.scope, Coin: rv.coin, ChgScope: chgScope, ChgCoin: chgCoin,
		MinConf: rs.MinConf, Rate: rs.Rate,
		Strat: rs.Strat, Explicit: t.refs(sel), Allow: t.refs(allowOps), HasAllow: hasAllow,
		Dry: dry, InModel: true, Inputs: []opRef{}, Locked: []opRef{}, Cands: []candObs{}}
	if ro.Strat == "" {
		ro.Strat = "nil"
	}
	if err := t.snapshot(&ro, rv, scopePtr); err != nil {
		return err
	}
	// the ledger's opinion of the selection, before the call
	selBad := map[string]bool{}
	dupSel := false
	outsideFilter := false
	{
		seen := map[wire.OutPoint]bool{}
		for _, o := range sel {
			if seen[o] {
				dupSel = true
			}
			seen[o] = true
			why := t.L.whyNot(o, rv, nil)
			if hasAllow {
				ok := false
				for _, al := range allowOps {
					if al == o {
						ok = true
					}
				}
				if !ok {
					// outside the caller's own filter: not one of the
					// property's eligibility conditions, so not judged by
					// the oracle (the model comparison covers it)
					outsideFilter = true
				}
			}
			for _, w := range why {
				selBad[w] = true
			}
		}
	}
	for w := range selBad {
		ro.Bad = append(ro.Bad, w)
	}
	sort.Strings(ro.Bad)
	if dupSel {
		ro.Bad = append(ro.Bad, "dup")
	}

	before := t.unminedSet()
	nSent := t.ch.nSent()
	t.scriptAnswer(rs.Reject, rs.Accept)
	var (
		tx       *wire.MsgTx // the created transaction
		packet   *psbt.Packet
		unsigned bool // the API itself flagged the result as unsigned (ErrTxUnsigned)
	)
	switch rs.API {
	case "create":
		atx, e := t.w.CreateSimpleTx(scopePtr, rs.Acct, outs, rs.MinConf, btcutil.Amount(rs.Rate), strat, rs.Dry, opts...)
		err = e
		if e == nil {
			tx = atx.Tx
		}
	case "send":
		tx, err = t.w.SendOutputs(outs, scopePtr, rs.Acct, rs.MinConf, btcutil.Amount(rs.Rate), strat, "")
	case "sendwith":
		tx, err = t.w.SendOutputsWithInput(outs, scopePtr, rs.Acct, rs.MinConf, btcutil.Amount(rs.Rate), strat, "", sel)
	case "fundpsbt":
		ro.Sorted = true
		packet, err = psbt.New(nil, outs, 2, 0, nil)
		if err != nil {
			return err
		}
		_, err = t.w.FundPsbt(packet, scopePtr, rs.MinConf, rs.Acct, btcutil.Amount(rs.Rate), strat, opts...)
		if err == nil {
			tx = packet.UnsignedTx
		}
	}
	t.ch.script = nil
	if err != nil && tx != nil && errors.Is(err, wallet.ErrTxUnsigned) {
		// a watch-only wallet: the transaction is returned together with the flag
		unsigned = true
		err = nil
		ro.Note = append(ro.Note, "flagged_unsigned")
		t.tags["flagged_unsigned"] = true
	} else if err != nil {
		tx = nil
	}
	sent := t.ch.sentFrom(nSent)
	rejected, accepted := false, false
	if len(sent) > 0 {
		last := sent[len(sent)-1]
		switch {
		case tx == nil && last.answer == "rejected":
			// the backend refused the broadcast: the transaction was created all the same
			tx = last.tx
			rejected = true
			ro.Note = append(ro.Note, "broadcast_rejected")
		case last.answer == "accepted":
			accepted = true
		}
	}
	created := tx != nil
	if created {
		ro.Outcome = "ok"
		for _, in := range tx.TxIn {
			ro.Inputs = append(ro.Inputs, t.ref(in.PreviousOutPoint))
		}
	} else {
		ro.Outcome = "error"
		ro.Err = err.Error()
		// refused by behaviour: nothing may have been recorded
		after := t.unminedSet()
		for h := range after {
			if !before[h] {
				t.flag("error_but_transaction_recorded", site, fmt.Sprintf("the call returned an error (%v) and %v is recorded as unconfirmed", err, h))
			}
		}
	}
	if created {
		t.judgeInputs(site, rv, tx, nil)
		switch {
		case rs.API == "fundpsbt":
			// FundPsbt strips the input scripts its inner CreateSimpleTx
			// produced: the signed flag is not observable on the packet and is
			// reported as the model expects; the signatures are exercised by
			// finalizing the packet
			ro.Signed = false
			tx = t.finalize(site, rs, scopePtr, packet)
		case dry:
			ro.Signed, ro.SignedObservable = isSigned(tx), true
		default:
			ro.Signed, ro.SignedObservable = isSigned(tx), true
			t.judgeSigned(site, rs.Acct, tx)
			if unsigned && ro.Signed {
				t.flag("invalid_signature", site, "a result flagged unsigned carries scripts")
			}
		}
		if rejected {
			if why := sent[len(sent)-1].why; why != "scripted" {
				if !isSigned(sent[len(sent)-1].tx) {
					// SendOutputs looks at the WALLET's watch-only flag only:
					// for a watch-only ACCOUNT it hands the unsigned result to
					// the backend instead of returning ErrTxUnsigned
					t.notes["unsigned_transaction_handed_to_backend"]++
				}
			}
			t.checkReleased(site, sent[len(sent)-1].tx, before)
		}
	} else if !dry && !t.woW && rs.API != "fundpsbt" {
		t.explainFailure(site, rs, a, opts)
	}
	// explicitly selected inputs that are not eligible must be refused
	if created && len(sel) > 0 {
		for _, w := range ro.Bad {
			if w == "dup" {
				continue // reported as duplicate_input on the transaction itself
			}
			t.flag("ineligible_explicit_input_accepted", w, fmt.Sprintf("%s accepted a selection containing a %s outpoint", site, w))
		}
	}
	t.tags["api:"+site] = true
	t.tags["outcome:"+ro.Outcome] = true
	t.tagAccount(rs, rv, ro.Outcome)
	if chgScope != 0 && (chgScope != rv.scope || chgCoin != rv.coin) {
		t.tags["change_scope_differs:"+ro.Outcome] = true
	}
	if created {
		t.tags[fmt.Sprintf("ok_inputs:%d", min(len(ro.Inputs), 4))] = true
		t.tags[fmt.Sprintf("ok_minconf:%d", rs.MinConf)] = true
		t.tags["ok_strat:"+ro.Strat] = true
		if tx != nil {
			for _, in := range tx.TxIn {
				if c := t.L.byOp[in.PreviousOutPoint]; c != nil {
					t.tags["spent_type:"+c.own.AType] = true
					if c.from.coinbase {
						t.tags["spent_mature_coinbase"] = true
					}
					if c.from.height < 0 {
						t.tags["spent_unconfirmed"] = true
					}
					if c.from.byWallet {
						t.tags["spent_own_change"] = true
					}
				}
			}
		}
	}
	for _, w := range ro.Bad {
		t.tags["explicit_bad:"+w+":"+ro.Outcome] = true
	}
	if outsideFilter {
		ro.Note = append(ro.Note, "selection_outside_filter")
		t.tags["explicit_outside_filter:"+ro.Outcome] = true
	} else if len(sel) > 0 && len(ro.Bad) == 0 {
		t.tags["explicit_valid:"+ro.Outcome] = true
	}
	clean := true
	for _, v := range t.viols {
		if v.Req == len(t.reqs) {
			clean = false
		}
	}
	// what happens to the created transaction next
	switch {
	case tx == nil || rejected || dry || unsigned:
	case rs.API == "send" || rs.API == "sendwith":
		if accepted {
			t.tags["published"] = true
		}
	case !clean || !isSigned(tx):
	case !rs.Publish:
		if rs.API == "create" {
			t.held = append(t.held, tx)
		}
	default:
		b2 := t.unminedSet()
		n := t.ch.nSent()
		t.scriptAnswer(rs.Reject, rs.Accept)
		perr := t.w.PublishTransaction(tx, "")
		t.ch.script = nil
		ok := false
		for _, s := range t.ch.sentFrom(n) {
			if s.answer == "accepted" {
				ok = true
			}
		}
		switch {
		case perr == nil && ok:
			t.tags["published"] = true
		case perr != nil:
			ro.Note = append(ro.Note, "publish_rejected")
			t.tags["publish_rejected"] = true
			t.checkReleased("PublishTransaction", tx, b2)
		}
	}
	t.reqs = append(t.reqs, ro)
	return nil
}

func (t *trace) tagAccount(rs *reqSpec, rv reqView, outcome string) {
	switch {
	case t.woW:
		t.tags["acct:watch_only_wallet:"+outcome] = true
	case rs.Acct == importedAcc:
		t.tags["acct:imported_keys:"+outcome] = true
	case rs.Acct == woAcct:
		t.tags["acct:watch_only_xpub:"+outcome] = true
	case rv.coin == customCoin:
		t.tags["scope:custom_84_1:"+outcome] = true
	}
}

// explainFailure: a request for an account whose keys the wallet holds (or a
// watch-only account, where nothing has to be signed) failed.  The same
// request as a dry run stops right before the sign / skip decision; if that
// succeeds, selection and authoring were fine and the failure lies in the
// signing step: a spendable account's coins could not be signed, or signing
// was attempted for a watch-only account.
func (t *trace) explainFailure(site string, rs *reqSpec, a reqArgs, opts []wallet.TxCreateOption) {
	if len(t.L.eligible(a.rv)) == 0 {
		return
	}
	if rs.API == "sendwith" {
		opts = []wallet.TxCreateOption{wallet.WithCustomSelectUtxos(t.pick(rs.Explicit))}
		for _, s := range rs.Explicit {
			if s < 0 {
				return // an unknown outpoint is made up anew by every pick
			}
		}
	}
	if rs.API != "create" {
		for _, o := range a.outs {
			// sendOutputs checks the outputs before it creates anything
			if o.Value < 1000 {
				return
			}
		}
	}
	if _, err := t.w.CreateSimpleTx(a.scopePtr, rs.Acct, a.outs, rs.MinConf, btcutil.Amount(rs.Rate), a.strat, true, opts...); err != nil {
		return
	}
	switch {
	case rs.Acct == woAcct:
		t.flag("watch_only_request_failed_in_signing", site, fmt.Sprintf("account %d: the dry run of the same request succeeds", rs.Acct))
	case rs.Acct == importedAcc:
		// every eligible coin of the imported account with its private key:
		// whatever was selected had to be signed
		for _, c := range t.L.eligible(a.rv) {
			if c.own.PubOnly {
				return
			}
		}
		t.flag("signing_failed_for_spendable_account", site, "imported account, every eligible key held: the dry run of the same request succeeds")
	case rs.Acct < nAccounts:
		t.flag("signing_failed_for_spendable_account", site, fmt.Sprintf("account %d scope (%d,%d): the dry run of the same request succeeds",
			rs.Acct, a.rv.scope, a.rv.coin))
	}
}

// finalize signs a funded packet with FinalizePsbt and verifies every input
// of the extracted transaction.  Returns the final transaction (nil if none).
func (t *trace) finalize(site string, rs *reqSpec, scopePtr *waddrmgr.KeyScope, packet *psbt.Packet) *wire.MsgTx {
	if t.noKeys(rs.Acct) || rs.Acct == importedAcc {
		// nothing to sign with: FinalizePsbt skips every input and cannot finalize
		if err := t.w.FinalizePsbt(scopePtr, rs.Acct, packet); err == nil {
			if tx, err := psbt.Extract(packet); err == nil {
				t.verifySigs("FinalizePsbt", tx, true, false)
			}
		} else {
			t.tags["watch_only_psbt_not_finalized"] = true
		}
		return nil
	}
	legacy := t.hasLegacyInput(packet.UnsignedTx)
	ferr := t.w.FinalizePsbt(scopePtr, rs.Acct, packet)
	var tx *wire.MsgTx
	if ferr == nil {
		tx, ferr = psbt.Extract(packet)
	}
	if ferr != nil {
		at := "?"
		for _, in := range packet.UnsignedTx.TxIn {
			if c := t.L.byOp[in.PreviousOutPoint]; c != nil {
				at = classOf(c.pk)
			}
		}
		t.flag("invalid_signature", "FinalizePsbt:"+at, "FinalizePsbt: "+ferr.Error())
		return nil
	}
	// every input is run through the engine; a P2PKH input that FinalizePsbt
	// "signed" with a witness is recorded (note) unless -psbt-p2pkh asks for
	// a violation
	t.verifySigs("FinalizePsbt", tx, true, !finalizeP2PKH)
	if legacy {
		return nil // not broadcastable: the P2PKH input is invalid
	}
	return tx
}

// fundPsbtWithInputs: FundPsbt with caller-supplied inputs only establishes
// that the inputs belong to the wallet (DESIGN section 6, S13): asserted are
// ownership and single use; what else it accepts is recorded as observed.
func (t *trace) fundPsbtWithInputs(rs *reqSpec, rv reqView, scopePtr *waddrmgr.KeyScope,
	strat wallet.CoinSelectionStrategy, outs []*wire.TxOut, ins []wire.OutPoint) error {

	site := "FundPsbt(inputs)"
	ro := reqObs{API: rs.API, Site: site, Acct: rs.Acct, Scope: rv.scope, Coin: rv.coin, MinConf: rs.MinConf, Rate: rs.Rate,
		Strat: "nil", Explicit: t.refs(ins), InModel: false, Sorted: true, Inputs: []opRef{}, Locked: []opRef{},
		Cands: []candObs{}, Allow: []opRef{}}
	bad := map[string]bool{}
	seen := map[wire.OutPoint]bool{}
	dup := false
	for _, o := range ins {
		if seen[o] {
			dup = true
		}
		seen[o] = true
		for _, w := range t.L.whyNot(o, rv, nil) {
			bad[w] = true
		}
	}
	for w := range bad {
		ro.Bad = append(ro.Bad, w)
	}
	sort.Strings(ro.Bad)
	if dup {
		ro.Bad = append(ro.Bad, "dup")
	}
	ptrs := make([]*wire.OutPoint, len(ins))
	seqs := make([]uint32, len(ins))
	for i := range ins {
		o := ins[i]
		ptrs[i] = &o
		seqs[i] = wire.MaxTxInSequenceNum
	}
	packet, err := psbt.New(ptrs, outs, 2, 0, seqs)
	if err != nil {
		ro.Outcome, ro.Err = "error", "psbt.New: "+err.Error()
		t.reqs = append(t.reqs, ro)
		return nil
	}
	_, err = t.w.FundPsbt(packet, scopePtr, rs.MinConf, rs.Acct, btcutil.Amount(rs.Rate), strat)
	if err != nil {
		ro.Outcome = "error"
		ro.Err = err.Error()
	} else {
		ro.Outcome = "ok"
		used := map[wire.OutPoint]bool{}
		for _, in := range packet.UnsignedTx.TxIn {
			op := in.PreviousOutPoint
			ro.Inputs = append(ro.Inputs, t.ref(op))
			if used[op] {
				t.flag("duplicate_input", site, fmt.Sprintf("%v used twice", op))
			}
			used[op] = true
			if t.L.liveCoin(op) == nil {
				t.flag("input_not_owned_by_account", site, fmt.Sprintf("%v is not an output of the wallet", op))
			}
		}
		for _, w := range ro.Bad {
			t.tags["psbt_inputs_accepted:"+w] = true
		}
		allOurs := true
		for _, in := range packet.UnsignedTx.TxIn {
			if c := t.L.liveCoin(in.PreviousOutPoint); c == nil || c.own.WatchOnly || c.own.Imported > 0 {
				allOurs = false
			}
		}
		if len(ro.Bad) == 0 && allOurs && !t.noKeys(rs.Acct) && rs.Acct != importedAcc {
			// nothing wrong with the inputs: the finalized transaction must verify
			if tx := t.finalize(site, rs, scopePtr, packet); tx != nil {
				ro.Signed = isSigned(tx)
				if rs.Publish {
					b2 := t.unminedSet()
					if perr := t.w.PublishTransaction(tx, ""); perr == nil {
						t.tags["published"] = true
					} else {
						t.checkReleased("PublishTransaction", tx, b2)
					}
				}
			}
		}
	}
	t.tags["api:"+site] = true
	t.tags["outcome:"+ro.Outcome] = true
	t.reqs = append(t.reqs, ro)
	return nil
}

// race issues the requests at once, one goroutine each (SendOutputs: create
// and publish).  Every transaction the wallet handed to the backend during
// the race is judged against the ledger as it was before the race (spends by
// the other transactions of the race do not count: their order is unknown);
// two of them spending the same coin is the subject of the concurrency clause.
func (t *trace) race(reqs []reqSpec) error {
	if len(reqs) < 2 || t.woW {
		return nil
	}
	type res struct {
		tx  *wire.MsgTx
		err error
	}
	args := make([]reqArgs, len(reqs))
	for i := range reqs {
		a, err := t.args(&reqs[i])
		if err != nil {
			return err
		}
		args[i] = a
	}
	before := t.unminedSet()
	nSent := t.ch.nSent()
	out := make([]res, len(reqs))
	var wg sync.WaitGroup
	for i := range reqs {
		wg.Add(1)
		go func(i int) {
			defer wg.Done()
			rs, a := &reqs[i], args[i]
			out[i].tx, out[i].err = t.w.SendOutputs(a.outs, a.scopePtr, rs.Acct, rs.MinConf, btcutil.Amount(rs.Rate), a.strat, "")
		}(i)
	}
	wg.Wait()
	sent := t.ch.sentFrom(nSent)
	ignore := map[chainhash.Hash]bool{}
	for _, s := range sent {
		ignore[s.tx.TxHash()] = true
	}
	// all requests of a race select from the same account and scope
	rv := args[0].rv
	site := "SendOutputs(concurrent)"
	users := map[wire.OutPoint][]chainhash.Hash{}
	for _, s := range sent {
		h := s.tx.TxHash()
		t.judgeInputs(site, rv, s.tx, ignore)
		t.judgeSigned(site, reqs[0].Acct, s.tx)
		for _, in := range s.tx.TxIn {
			users[in.PreviousOutPoint] = append(users[in.PreviousOutPoint], h)
		}
	}
	shared := false
	for op, hs := range users {
		if len(hs) > 1 {
			shared = true
			_ = op
		}
	}
	if shared {
		t.notes["concurrent_sends_shared_coin"]++
		t.tags["race:shared_coin"] = true
	} else {
		t.tags["race:disjoint"] = true
	}
	for _, s := range sent {
		if s.answer == "rejected" {
			t.checkReleased(site, s.tx, before)
		}
	}
	for i := range reqs {
		ro := reqObs{API: "send", Site: site, Acct: reqs[i].Acct, Scope: rv.scope, Coin: rv.coin, MinConf: reqs[i].MinConf,
			Rate: reqs[i].Rate, Strat: reqs[i].Strat, InModel: false, Inputs: []opRef{}, Locked: []opRef{}, Cands: []candObs{},
			Explicit: []opRef{}, Allow: []opRef{}}
		if out[i].err == nil && out[i].tx != nil {
			ro.Outcome = "ok"
			ro.Signed = isSigned(out[i].tx)
			for _, in := range out[i].tx.TxIn {
				ro.Inputs = append(ro.Inputs, t.ref(in.PreviousOutPoint))
			}
		} else {
			ro.Outcome = "error"
			if out[i].err != nil {
				ro.Err = out[i].err.Error()
			}
		}
		t.tags["api:"+site] = true
		t.tags["outcome:"+ro.Outcome] = true
		t.reqs = append(t.reqs, ro)
	}
	return nil
}

// finalizeP2PKH (flag -psbt-p2pkh): a P2PKH input of a finalized packet that
// does not verify is a violation (default: recorded as a note - FinalizePsbt
// attaches a witness to a P2PKH input and reports success; its signer is
// documented for P2WKH, nested P2WKH and taproot key spends only).
var finalizeP2PKH bool

func (t *trace) hasLegacyInput(tx *wire.MsgTx) bool {
	for _, in := range tx.TxIn {
		if c := t.L.byOp[in.PreviousOutPoint]; c != nil && classOf(c.pk) == "p2pkh" {
			return true
		}
	}
	return false
}

func min(a, b int) int {
	if a < b {
		return a
	}
	return b
}
