package main

// Independent bookkeeping of what the wallet owns.  Nothing in this file asks
// the wallet: ownership comes from a BIP32 derivation of the wallet's seed done
// here, the set of known transactions from the notifications the harness
// itself delivered, and locks / leases from the calls it made.

import (
	"crypto/sha256"
	"encoding/hex"
	"fmt"
	"sync"
	"time"

	"github.com/btcsuite/btcd/btcec/v2"
	"github.com/btcsuite/btcd/btcec/v2/schnorr"
	"github.com/btcsuite/btcd/btcutil"
	"github.com/btcsuite/btcd/btcutil/hdkeychain"
	"github.com/btcsuite/btcd/chaincfg"
	"github.com/btcsuite/btcd/chaincfg/chainhash"
	"github.com/btcsuite/btcd/txscript"
	"github.com/btcsuite/btcd/wire"
	"github.com/btcsuite/btcwallet/waddrmgr"
)

// ownerT is the derivation path of a wallet script.
type ownerT struct {
	Scope  int // BIP-43 purpose: 44, 49, 84, 86
	Coin   int // coin type of the key scope: 0 for the default scopes, 1 for the custom scope (84, 1)
	Acct   uint32
	Branch uint32
	Index  uint32
	AType  string // p2pkh | np2wpkh | p2wpkh | p2tr
	// WatchOnly: the account was imported from an extended PUBLIC key (the
	// wallet holds no private key of it).
	WatchOnly bool
	// Imported > 0: the i-th private key imported with ImportPrivateKey
	// (account waddrmgr.ImportedAddrAccount of the scope it was imported
	// into); Uncompressed: its address commits to the 65-byte public key.
	Imported     int
	Uncompressed bool
	// PubOnly: imported WITHOUT its private key (ImportPublicKey)
	PubOnly bool
}

const (
	nAccounts   = 3
	deriveLimit = 160
	// woAcct is the number the watch-only accounts get: NextAccount created
	// 1 .. nAccounts-1 before they are imported.
	woAcct      = nAccounts
	woLimit     = 48
	importedAcc = uint32(waddrmgr.ImportedAddrAccount)
	// the custom key scope: the purpose of BIP84 with another coin type
	customCoin     = 1
	customAccounts = 2
)

var purposes = []int{44, 49, 84, 86}

// the scopes that get a watch-only (extended public key) account woAcct
var woPurposes = []int{84, 86}

// importedKey describes the private keys every harness wallet imports.
type importedKey struct {
	purpose      int
	uncompressed bool
	pubOnly      bool
}

var importedKeys = []importedKey{
	{44, false, false}, // 1: P2PKH, compressed
	{44, true, false},  // 2: P2PKH, UNcompressed
	{84, false, false}, // 3: P2WPKH
	{49, false, false}, // 4: nested P2WPKH
	{86, false, false}, // 5: P2TR
	{84, false, true},  // 6: P2WPKH, public key only (ImportPublicKey)
}

// importedPriv derives the i-th (1-based) imported private key from the seed.
func importedPriv(seed []byte, i int) *btcec.PrivateKey {
	h := sha256.Sum256(append(append([]byte("c06-imported-key"), seed...), byte(i)))
	k, _ := btcec.PrivKeyFromBytes(h[:])
	return k
}

// foreignSeed is the seed of the OTHER wallet whose account public keys are
// imported as watch-only accounts.
func foreignSeed(seed []byte) []byte {
	h := sha256.Sum256(append([]byte("c06-foreign-wallet"), seed...))
	return h[:]
}

// addrTypeOf is the address schema of the wallet's default scopes
// (waddrmgr.ScopeAddrMap): BIP49 change addresses are native P2WPKH.
func addrTypeOf(purpose int, branch uint32) string {
	switch purpose {
	case 44:
		return "p2pkh"
	case 49:
		if branch == 1 {
			return "p2wpkh"
		}
		return "np2wpkh"
	case 84:
		return "p2wpkh"
	default:
		return "p2tr"
	}
}

func scriptFor(pub []byte, atype string, params *chaincfg.Params) ([]byte, error) {
	h160 := btcutil.Hash160(pub)
	var addr btcutil.Address
	var err error
	switch atype {
	case "p2pkh":
		addr, err = btcutil.NewAddressPubKeyHash(h160, params)
	case "p2wpkh":
		addr, err = btcutil.NewAddressWitnessPubKeyHash(h160, params)
	case "np2wpkh":
		var wa *btcutil.AddressWitnessPubKeyHash
		wa, err = btcutil.NewAddressWitnessPubKeyHash(h160, params)
		if err != nil {
			return nil, err
		}
		var prog []byte
		prog, err = txscript.PayToAddrScript(wa)
		if err != nil {
			return nil, err
		}
		addr, err = btcutil.NewAddressScriptHash(prog, params)
	case "p2tr":
		pk, perr := hdPub(pub)
		if perr != nil {
			return nil, perr
		}
		out := txscript.ComputeTaprootKeyNoScript(pk)
		addr, err = btcutil.NewAddressTaproot(schnorr.SerializePubKey(out), params)
	default:
		return nil, fmt.Errorf("address type %q", atype)
	}
	if err != nil {
		return nil, err
	}
	return txscript.PayToAddrScript(addr)
}

// deriveTable maps pkScript (hex) to its derivation path, for the first
// deriveLimit indices of both branches of accounts 0..nAccounts-1 of the four
// default scopes.  btcwallet derives with hdkeychain's legacy rule
// (DeriveNonStandard); so does this table.
type deriveTable map[string]*ownerT

var (
	tableMu sync.Mutex
	tables  = map[string]deriveTable{}
)

// accountKey derives m/purpose'/coin'/acct' with hdkeychain's legacy rule.
func accountKey(root *hdkeychain.ExtendedKey, purpose, coin int, acct uint32) (*hdkeychain.ExtendedKey, error) {
	pk, err := root.DeriveNonStandard(hdkeychain.HardenedKeyStart + uint32(purpose)) // nolint:staticcheck
	if err != nil {
		return nil, err
	}
	ck, err := pk.DeriveNonStandard(hdkeychain.HardenedKeyStart + uint32(coin)) // nolint:staticcheck
	if err != nil {
		return nil, err
	}
	return ck.DeriveNonStandard(hdkeychain.HardenedKeyStart + acct) // nolint:staticcheck
}

func (t deriveTable) addAccount(ak *hdkeychain.ExtendedKey, purpose, coin int, acct uint32, limit uint32, wo bool,
	params *chaincfg.Params) error {

	for branch := uint32(0); branch < 2; branch++ {
		bk, err := ak.DeriveNonStandard(branch) // nolint:staticcheck
		if err != nil {
			return err
		}
		for idx := uint32(0); idx < limit; idx++ {
			k, err := bk.DeriveNonStandard(idx) // nolint:staticcheck
			if err != nil {
				return err
			}
			pub, err := k.ECPubKey()
			if err != nil {
				return err
			}
			at := addrTypeOf(purpose, branch)
			if wo && purpose == 49 {
				at = "np2wpkh"
			}
			script, err := scriptFor(pub.SerializeCompressed(), at, params)
			if err != nil {
				return err
			}
			t[hex.EncodeToString(script)] = &ownerT{Scope: purpose, Coin: coin, Acct: acct, Branch: branch, Index: idx,
				AType: at, WatchOnly: wo}
		}
	}
	return nil
}

// woAccountKey is the extended PUBLIC key of account 0 of the foreign wallet
// in the given default scope (what the harness wallet imports as account woAcct).
func woAccountKey(seed []byte, purpose int, params *chaincfg.Params) (*hdkeychain.ExtendedKey, uint32, error) {
	root, err := hdkeychain.NewMaster(foreignSeed(seed), params)
	if err != nil {
		return nil, 0, err
	}
	ak, err := accountKey(root, purpose, 0, 0)
	if err != nil {
		return nil, 0, err
	}
	pub, err := ak.Neuter()
	if err != nil {
		return nil, 0, err
	}
	rp, err := root.ECPubKey()
	if err != nil {
		return nil, 0, err
	}
	fp := btcutil.Hash160(rp.SerializeCompressed())[:4]
	return pub, uint32(fp[0])<<24 | uint32(fp[1])<<16 | uint32(fp[2])<<8 | uint32(fp[3]), nil
}

func importedScript(seed []byte, i int, params *chaincfg.Params) ([]byte, *ownerT, error) {
	ik := importedKeys[i-1]
	pub := importedPriv(seed, i).PubKey()
	ser := pub.SerializeCompressed()
	if ik.uncompressed {
		ser = pub.SerializeUncompressed()
	}
	at := addrTypeOf(ik.purpose, 0)
	script, err := scriptFor(ser, at, params)
	if err != nil {
		return nil, nil, err
	}
	return script, &ownerT{Scope: ik.purpose, Acct: importedAcc, AType: at, Imported: i, Uncompressed: ik.uncompressed,
		PubOnly: ik.pubOnly}, nil
}

func tableFor(seed []byte, params *chaincfg.Params) (deriveTable, error) {
	tableMu.Lock()
	defer tableMu.Unlock()
	key := hex.EncodeToString(seed)
	if t, ok := tables[key]; ok {
		return t, nil
	}
	root, err := hdkeychain.NewMaster(seed, params)
	if err != nil {
		return nil, err
	}
	t := deriveTable{}
	// btcwallet's default key scopes fix the coin type to 0 on every network
	for _, purpose := range purposes {
		for acct := uint32(0); acct < nAccounts; acct++ {
			ak, err := accountKey(root, purpose, 0, acct)
			if err != nil {
				return nil, err
			}
			if err := t.addAccount(ak, purpose, 0, acct, deriveLimit, false, params); err != nil {
				return nil, err
			}
		}
	}
	// the custom scope (84, customCoin): BIP84's purpose, another coin type
	for acct := uint32(0); acct < customAccounts; acct++ {
		ak, err := accountKey(root, 84, customCoin, acct)
		if err != nil {
			return nil, err
		}
		if err := t.addAccount(ak, 84, customCoin, acct, deriveLimit, false, params); err != nil {
			return nil, err
		}
	}
	// watch-only accounts: account 0 of another wallet, by its public key
	for _, purpose := range woPurposes {
		ak, _, err := woAccountKey(seed, purpose, params)
		if err != nil {
			return nil, err
		}
		if err := t.addAccount(ak, purpose, 0, woAcct, woLimit, true, params); err != nil {
			return nil, err
		}
	}
	// imported private keys
	for i := range importedKeys {
		script, own, err := importedScript(seed, i+1, params)
		if err != nil {
			return nil, err
		}
		t[hex.EncodeToString(script)] = own
	}
	tables[key] = t
	return t, nil
}

// ltx is a transaction the wallet has been told about (or has published).
type ltx struct {
	n         int
	tx        *wire.MsgTx
	hash      chainhash.Hash
	height    int32 // -1 unconfirmed
	coinbase  bool
	alive     bool // known to the wallet (not removed by a conflict / reorg)
	byWallet  bool // created by the wallet
	published bool // handed to the backend and accepted
}

// coin is an output of a known transaction that pays a wallet script.
type coin struct {
	id   int
	op   wire.OutPoint
	amt  int64
	pk   []byte
	own  *ownerT
	from *ltx
}

type lease struct {
	id     int
	expiry time.Time
}

type ledger struct {
	table  deriveTable
	txs    []*ltx
	byHash map[chainhash.Hash]*ltx
	coins  []*coin
	byOp   map[wire.OutPoint]*coin
	locks  map[wire.OutPoint]bool
	leases map[wire.OutPoint]lease
	tip    int32
	now    time.Time
	// inputs of transactions that were published and accepted
	published map[wire.OutPoint]*ltx
}

func newLedger(t deriveTable, now time.Time) *ledger {
	return &ledger{table: t, byHash: map[chainhash.Hash]*ltx{}, byOp: map[wire.OutPoint]*coin{},
		locks: map[wire.OutPoint]bool{}, leases: map[wire.OutPoint]lease{}, now: now,
		published: map[wire.OutPoint]*ltx{}}
}

func isCoinbase(tx *wire.MsgTx) bool {
	return len(tx.TxIn) == 1 && tx.TxIn[0].PreviousOutPoint.Index == 0xffffffff &&
		tx.TxIn[0].PreviousOutPoint.Hash == chainhash.Hash{}
}

// add records a transaction the wallet is being told about; ownCoins lists, in
// a stable order, the outputs that pay wallet scripts.
func (l *ledger) add(tx *wire.MsgTx, height int32, byWallet bool) *ltx {
	h := tx.TxHash()
	if t, ok := l.byHash[h]; ok {
		return t
	}
	t := &ltx{n: len(l.txs), tx: tx, hash: h, height: height, coinbase: isCoinbase(tx), alive: true, byWallet: byWallet}
	l.txs = append(l.txs, t)
	l.byHash[h] = t
	for i, out := range tx.TxOut {
		own := l.table[hex.EncodeToString(out.PkScript)]
		if own == nil {
			continue
		}
		c := &coin{id: len(l.coins), op: wire.OutPoint{Hash: h, Index: uint32(i)}, amt: out.Value, pk: out.PkScript, own: own, from: t}
		l.coins = append(l.coins, c)
		l.byOp[c.op] = c
	}
	return t
}

// kill removes a transaction and everything that spends its outputs.
func (l *ledger) kill(t *ltx) {
	if !t.alive {
		return
	}
	t.alive = false
	for _, u := range l.txs {
		if !u.alive {
			continue
		}
		for _, in := range u.tx.TxIn {
			if in.PreviousOutPoint.Hash == t.hash {
				l.kill(u)
				break
			}
		}
	}
}

// confirm marks t confirmed at height and removes unconfirmed conflicts.
func (l *ledger) confirm(t *ltx, height int32, fresh bool) {
	if fresh {
		// a NEW confirmation: the store clears the lease of every output the
		// transaction spends (wtxmgr insertMinedTx: "clear any locked outputs
		// since we now have a confirmed spend for them"; Tx/Ledger.v
		// spec_confirm).  The lease does not come back when the block is
		// detached and the spend forgotten later.
		for _, in := range t.tx.TxIn {
			delete(l.leases, in.PreviousOutPoint)
		}
	}
	t.height = height
	spent := map[wire.OutPoint]bool{}
	for _, in := range t.tx.TxIn {
		spent[in.PreviousOutPoint] = true
	}
	for _, u := range l.txs {
		if u == t || !u.alive || u.height >= 0 {
			continue
		}
		for _, in := range u.tx.TxIn {
			if spent[in.PreviousOutPoint] {
				l.kill(u)
				break
			}
		}
	}
}

// disconnect detaches the block at height: its transactions become
// unconfirmed, coinbases vanish with their descendants.
func (l *ledger) disconnect(height int32) {
	for _, t := range l.txs {
		if !t.alive || t.height != height {
			continue
		}
		if t.coinbase {
			l.kill(t)
		} else {
			t.height = -1
		}
	}
	l.tip = height - 1
}

// spender returns a known transaction (other than except) that spends op.
func (l *ledger) spender(op wire.OutPoint, except *chainhash.Hash) *ltx {
	for _, t := range l.txs {
		if !t.alive || (except != nil && t.hash == *except) {
			continue
		}
		for _, in := range t.tx.TxIn {
			if in.PreviousOutPoint == op {
				return t
			}
		}
	}
	return nil
}

func (l *ledger) spenderIgnoring(op wire.OutPoint, except *chainhash.Hash, ignore map[chainhash.Hash]bool) *ltx {
	for _, t := range l.txs {
		if !t.alive || (except != nil && t.hash == *except) || ignore[t.hash] {
			continue
		}
		for _, in := range t.tx.TxIn {
			if in.PreviousOutPoint == op {
				return t
			}
		}
	}
	return nil
}

// confirmedSpender: some known CONFIRMED transaction spends op.
func (l *ledger) confirmedSpender(op wire.OutPoint) bool {
	for _, t := range l.txs {
		if !t.alive || t.height < 0 {
			continue
		}
		for _, in := range t.tx.TxIn {
			if in.PreviousOutPoint == op {
				return true
			}
		}
	}
	return false
}

func (l *ledger) confs(t *ltx) int32 {
	if !t.alive || t.height < 0 || t.height > l.tip {
		return 0
	}
	return l.tip - t.height + 1
}

func (l *ledger) leased(op wire.OutPoint) bool {
	le, ok := l.leases[op]
	return ok && l.now.Before(le.expiry)
}

// liveCoin returns the coin at op when its transaction is known.
func (l *ledger) liveCoin(op wire.OutPoint) *coin {
	c := l.byOp[op]
	if c == nil || !c.from.alive {
		return nil
	}
	return c
}

// reqView is what eligibility depends on besides the ledger.
type reqView struct {
	acct     uint32
	scope    int // purpose; 0 = any key scope
	coin     int // coin type of the requested key scope
	minconf  int32
	maturity int32
}

// whyNot lists every reason op is not eligible for the request (empty =
// eligible), in the property's words.
func (l *ledger) whyNot(op wire.OutPoint, rv reqView, except *chainhash.Hash) []string {
	return l.whyNotIgnoring(op, rv, except, nil)
}

// whyNotIgnoring: as whyNot, but spends by the transactions in ignore do not
// count (transactions created concurrently with the one being judged).
func (l *ledger) whyNotIgnoring(op wire.OutPoint, rv reqView, except *chainhash.Hash, ignore map[chainhash.Hash]bool) []string {
	c := l.liveCoin(op)
	if c == nil {
		return []string{"unknown"}
	}
	var why []string
	if c.own.Acct != rv.acct || (rv.scope != 0 && (c.own.Scope != rv.scope || c.own.Coin != rv.coin)) {
		why = append(why, "foreign")
	}
	if l.spenderIgnoring(op, except, ignore) != nil {
		why = append(why, "spent")
	}
	if l.locks[op] {
		why = append(why, "locked")
	}
	if l.leased(op) {
		why = append(why, "leased")
	}
	cf := l.confs(c.from)
	if cf < rv.minconf {
		why = append(why, "lowconf")
	}
	if c.from.coinbase && cf < rv.maturity {
		why = append(why, "immature")
	}
	return why
}

func (l *ledger) eligible(rv reqView) []*coin {
	var out []*coin
	for _, c := range l.coins {
		if len(l.whyNot(c.op, rv, nil)) == 0 {
			out = append(out, c)
		}
	}
	return out
}

var kindOf = map[string]string{
	"unknown":  "input_not_owned_by_account",
	"foreign":  "input_not_owned_by_account",
	"spent":    "input_already_spent",
	"locked":   "input_locked",
	"leased":   "input_leased",
	"lowconf":  "input_below_minconf",
	"immature": "input_immature_coinbase",
}
