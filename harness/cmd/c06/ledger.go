package main

// Independent bookkeeping of what the wallet owns.  Nothing in this file asks
// the wallet: ownership comes from a BIP32 derivation of the wallet's seed done
// here, the set of known transactions from the notifications the harness
// itself delivered, and locks / leases from the calls it made.

import (
	"encoding/hex"
	"fmt"
	"sync"
	"time"

	"github.com/btcsuite/btcd/btcec/v2/schnorr"
	"github.com/btcsuite/btcd/btcutil"
	"github.com/btcsuite/btcd/btcutil/hdkeychain"
	"github.com/btcsuite/btcd/chaincfg"
	"github.com/btcsuite/btcd/chaincfg/chainhash"
	"github.com/btcsuite/btcd/txscript"
	"github.com/btcsuite/btcd/wire"
)

// ownerT is the derivation path of a wallet script.
type ownerT struct {
	Scope  int // BIP-43 purpose: 44, 49, 84, 86
	Acct   uint32
	Branch uint32
	Index  uint32
	AType  string // p2pkh | np2wpkh | p2wpkh | p2tr
}

const (
	nAccounts   = 3
	deriveLimit = 160
)

var purposes = []int{44, 49, 84, 86}

// addrTypeOf is the address schema of the wallet's default scopes
// (waddrmgr.ScopeAddrMap): BIP49 change addresses are native P2WPKH.
func addrTypeOf(purpose int, branch uint32) string {
	switch purpose {
	case 44:
		return "p2pkh"
	case 49:
		if branch == 1 {
			return "p2wpkh"
		}
		return "np2wpkh"
	case 84:
		return "p2wpkh"
	default:
		return "p2tr"
	}
}

func scriptFor(pub []byte, atype string, params *chaincfg.Params) ([]byte, error) {
	h160 := btcutil.Hash160(pub)
	var addr btcutil.Address
	var err error
	switch atype {
	case "p2pkh":
		addr, err = btcutil.NewAddressPubKeyHash(h160, params)
	case "p2wpkh":
		addr, err = btcutil.NewAddressWitnessPubKeyHash(h160, params)
	case "np2wpkh":
		var wa *btcutil.AddressWitnessPubKeyHash
		wa, err = btcutil.NewAddressWitnessPubKeyHash(h160, params)
		if err != nil {
			return nil, err
		}
		var prog []byte
		prog, err = txscript.PayToAddrScript(wa)
		if err != nil {
			return nil, err
		}
		addr, err = btcutil.NewAddressScriptHash(prog, params)
	case "p2tr":
		pk, perr := hdPub(pub)
		if perr != nil {
			return nil, perr
		}
		out := txscript.ComputeTaprootKeyNoScript(pk)
		addr, err = btcutil.NewAddressTaproot(schnorr.SerializePubKey(out), params)
	default:
		return nil, fmt.Errorf("address type %q", atype)
	}
	if err != nil {
		return nil, err
	}
	return txscript.PayToAddrScript(addr)
}

// deriveTable maps pkScript (hex) to its derivation path, for the first
// deriveLimit indices of both branches of accounts 0..nAccounts-1 of the four
// default scopes.  btcwallet derives with hdkeychain's legacy rule
// (DeriveNonStandard); so does this table.
type deriveTable map[string]*ownerT

var (
	tableMu sync.Mutex
	tables  = map[string]deriveTable{}
)

func tableFor(seed []byte, params *chaincfg.Params) (deriveTable, error) {
	tableMu.Lock()
	defer tableMu.Unlock()
	key := hex.EncodeToString(seed)
	if t, ok := tables[key]; ok {
		return t, nil
	}
	root, err := hdkeychain.NewMaster(seed, params)
	if err != nil {
		return nil, err
	}
	t := deriveTable{}
	for _, purpose := range purposes {
		pk, err := root.DeriveNonStandard(hdkeychain.HardenedKeyStart + uint32(purpose)) // nolint:staticcheck
		if err != nil {
			return nil, err
		}
		// btcwallet's default key scopes fix the coin type to 0 on every network
		ck, err := pk.DeriveNonStandard(hdkeychain.HardenedKeyStart + 0) // nolint:staticcheck
		if err != nil {
			return nil, err
		}
		for acct := uint32(0); acct < nAccounts; acct++ {
			ak, err := ck.DeriveNonStandard(hdkeychain.HardenedKeyStart + acct) // nolint:staticcheck
			if err != nil {
				return nil, err
			}
			for branch := uint32(0); branch < 2; branch++ {
				bk, err := ak.DeriveNonStandard(branch) // nolint:staticcheck
				if err != nil {
					return nil, err
				}
				for idx := uint32(0); idx < deriveLimit; idx++ {
					k, err := bk.DeriveNonStandard(idx) // nolint:staticcheck
					if err != nil {
						return nil, err
					}
					pub, err := k.ECPubKey()
					if err != nil {
						return nil, err
					}
					at := addrTypeOf(purpose, branch)
					script, err := scriptFor(pub.SerializeCompressed(), at, params)
					if err != nil {
						return nil, err
					}
					t[hex.EncodeToString(script)] = &ownerT{Scope: purpose, Acct: acct, Branch: branch, Index: idx, AType: at}
				}
			}
		}
	}
	tables[key] = t
	return t, nil
}

// ltx is a transaction the wallet has been told about (or has published).
type ltx struct {
	n         int
	tx        *wire.MsgTx
	hash      chainhash.Hash
	height    int32 // -1 unconfirmed
	coinbase  bool
	alive     bool // known to the wallet (not removed by a conflict / reorg)
	byWallet  bool // created by the wallet
	published bool // handed to the backend and accepted
}

// coin is an output of a known transaction that pays a wallet script.
type coin struct {
	id   int
	op   wire.OutPoint
	amt  int64
	pk   []byte
	own  *ownerT
	from *ltx
}

type lease struct {
	id     int
	expiry time.Time
}

type ledger struct {
	table  deriveTable
	txs    []*ltx
	byHash map[chainhash.Hash]*ltx
	coins  []*coin
	byOp   map[wire.OutPoint]*coin
	locks  map[wire.OutPoint]bool
	leases map[wire.OutPoint]lease
	tip    int32
	now    time.Time
	// inputs of transactions that were published and accepted
	published map[wire.OutPoint]*ltx
}

func newLedger(t deriveTable, now time.Time) *ledger {
	return &ledger{table: t, byHash: map[chainhash.Hash]*ltx{}, byOp: map[wire.OutPoint]*coin{},
		locks: map[wire.OutPoint]bool{}, leases: map[wire.OutPoint]lease{}, now: now,
		published: map[wire.OutPoint]*ltx{}}
}

func isCoinbase(tx *wire.MsgTx) bool {
	return len(tx.TxIn) == 1 && tx.TxIn[0].PreviousOutPoint.Index == 0xffffffff &&
		tx.TxIn[0].PreviousOutPoint.Hash == chainhash.Hash{}
}

// add records a transaction the wallet is being told about; ownCoins lists, in
// a stable order, the outputs that pay wallet scripts.
func (l *ledger) add(tx *wire.MsgTx, height int32, byWallet bool) *ltx {
	h := tx.TxHash()
	if t, ok := l.byHash[h]; ok {
		return t
	}
	t := &ltx{n: len(l.txs), tx: tx, hash: h, height: height, coinbase: isCoinbase(tx), alive: true, byWallet: byWallet}
	l.txs = append(l.txs, t)
	l.byHash[h] = t
	for i, out := range tx.TxOut {
		own := l.table[hex.EncodeToString(out.PkScript)]
		if own == nil {
			continue
		}
		c := &coin{id: len(l.coins), op: wire.OutPoint{Hash: h, Index: uint32(i)}, amt: out.Value, pk: out.PkScript, own: own, from: t}
		l.coins = append(l.coins, c)
		l.byOp[c.op] = c
	}
	return t
}

// kill removes a transaction and everything that spends its outputs.
func (l *ledger) kill(t *ltx) {
	if !t.alive {
		return
	}
	t.alive = false
	for _, u := range l.txs {
		if !u.alive {
			continue
		}
		for _, in := range u.tx.TxIn {
			if in.PreviousOutPoint.Hash == t.hash {
				l.kill(u)
				break
			}
		}
	}
}

// confirm marks t confirmed at height and removes unconfirmed conflicts.
func (l *ledger) confirm(t *ltx, height int32) {
	t.height = height
	spent := map[wire.OutPoint]bool{}
	for _, in := range t.tx.TxIn {
		spent[in.PreviousOutPoint] = true
	}
	for _, u := range l.txs {
		if u == t || !u.alive || u.height >= 0 {
			continue
		}
		for _, in := range u.tx.TxIn {
			if spent[in.PreviousOutPoint] {
				l.kill(u)
				break
			}
		}
	}
}

// disconnect detaches the block at height: its transactions become
// unconfirmed, coinbases vanish with their descendants.
func (l *ledger) disconnect(height int32) {
	for _, t := range l.txs {
		if !t.alive || t.height != height {
			continue
		}
		if t.coinbase {
			l.kill(t)
		} else {
			t.height = -1
		}
	}
	l.tip = height - 1
}

// spender returns a known transaction (other than except) that spends op.
func (l *ledger) spender(op wire.OutPoint, except *chainhash.Hash) *ltx {
	for _, t := range l.txs {
		if !t.alive || (except != nil && t.hash == *except) {
			continue
		}
		for _, in := range t.tx.TxIn {
			if in.PreviousOutPoint == op {
				return t
			}
		}
	}
	return nil
}

// confirmedSpender: some known CONFIRMED transaction spends op.
func (l *ledger) confirmedSpender(op wire.OutPoint) bool {
	for _, t := range l.txs {
		if !t.alive || t.height < 0 {
			continue
		}
		for _, in := range t.tx.TxIn {
			if in.PreviousOutPoint == op {
				return true
			}
		}
	}
	return false
}

func (l *ledger) confs(t *ltx) int32 {
	if !t.alive || t.height < 0 || t.height > l.tip {
		return 0
	}
	return l.tip - t.height + 1
}

func (l *ledger) leased(op wire.OutPoint) bool {
	le, ok := l.leases[op]
	return ok && l.now.Before(le.expiry)
}

// liveCoin returns the coin at op when its transaction is known.
func (l *ledger) liveCoin(op wire.OutPoint) *coin {
	c := l.byOp[op]
	if c == nil || !c.from.alive {
		return nil
	}
	return c
}

// reqView is what eligibility depends on besides the ledger.
type reqView struct {
	acct     uint32
	scope    int // 0 = any
	minconf  int32
	maturity int32
}

// whyNot lists every reason op is not eligible for the request (empty =
// eligible), in the property's words.
func (l *ledger) whyNot(op wire.OutPoint, rv reqView, except *chainhash.Hash) []string {
	c := l.liveCoin(op)
	if c == nil {
		return []string{"unknown"}
	}
	var why []string
	if c.own.Acct != rv.acct || (rv.scope != 0 && c.own.Scope != rv.scope) {
		why = append(why, "foreign")
	}
	if l.spender(op, except) != nil {
		why = append(why, "spent")
	}
	if l.locks[op] {
		why = append(why, "locked")
	}
	if l.leased(op) {
		why = append(why, "leased")
	}
	cf := l.confs(c.from)
	if cf < rv.minconf {
		why = append(why, "lowconf")
	}
	if c.from.coinbase && cf < rv.maturity {
		why = append(why, "immature")
	}
	return why
}

func (l *ledger) eligible(rv reqView) []*coin {
	var out []*coin
	for _, c := range l.coins {
		if len(l.whyNot(c.op, rv, nil)) == 0 {
			out = append(out, c)
		}
	}
	return out
}

var kindOf = map[string]string{
	"unknown":  "input_not_owned_by_account",
	"foreign":  "input_not_owned_by_account",
	"spent":    "input_already_spent",
	"locked":   "input_locked",
	"leased":   "input_leased",
	"lowconf":  "input_below_minconf",
	"immature": "input_immature_coinbase",
}
