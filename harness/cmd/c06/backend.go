package main

// The chain backend the wallet publishes to.  It embeds the simulated chain
// and answers SendRawTransaction the way a validating node with a mempool
// does, from the harness' own ledger (never from the wallet):
//
//	already in the mempool / already confirmed  -> the two sentinel errors
//	an input the node does not know             -> rejected
//	an input another known transaction spends   -> rejected (no replacement)
//	an input used twice, a script that fails    -> rejected
//	otherwise                                   -> accepted: the transaction is
//	                                               PUBLISHED and enters the ledger
//
// A scripted answer ("reject": the node refuses for a reason of its own, e.g.
// its fee floor; "accept": a node that has not seen the conflicting
// transaction) overrides the rule for the next call.  "Published" in the
// oracle therefore means: created by the wallet, handed to this backend by the
// wallet itself, and accepted.

import (
	"errors"
	"fmt"
	"sync"

	"github.com/btcsuite/btcd/chaincfg/chainhash"
	"github.com/btcsuite/btcd/txscript"
	"github.com/btcsuite/btcd/wire"
	"github.com/btcsuite/btcwallet/chain"

	"verifharness/internal/simchain"
)

type sentRec struct {
	tx     *wire.MsgTx
	answer string // accepted | rejected | in_mempool | confirmed
	why    string
}

type backend struct {
	*simchain.Chain
	t  *trace
	mu sync.Mutex
	// scripted answers for the next calls ("accept" | "reject"), front first
	script []string
	sent   []sentRec
}

var errBackendRejected = errors.New("c06 backend: transaction rejected")

func (b *backend) nSent() int {
	b.mu.Lock()
	defer b.mu.Unlock()
	return len(b.sent)
}

func (b *backend) sentFrom(n int) []sentRec {
	b.mu.Lock()
	defer b.mu.Unlock()
	return append([]sentRec{}, b.sent[n:]...)
}

// scriptsVerify runs the script engine (standard flags) on every input of tx
// against the ledger's previous outputs; "" = all inputs verify.
func (t *trace) scriptsVerify(tx *wire.MsgTx) string {
	prev := map[wire.OutPoint]*wire.TxOut{}
	for _, in := range tx.TxIn {
		c := t.L.byOp[in.PreviousOutPoint]
		if c == nil {
			return fmt.Sprintf("input %v unknown", in.PreviousOutPoint)
		}
		prev[in.PreviousOutPoint] = wire.NewTxOut(c.amt, c.pk)
	}
	fetcher := txscript.NewMultiPrevOutFetcher(prev)
	hashes := txscript.NewTxSigHashes(tx, fetcher)
	for i, in := range tx.TxIn {
		po := prev[in.PreviousOutPoint]
		vm, err := txscript.NewEngine(po.PkScript, tx, i, txscript.StandardVerifyFlags, nil, hashes, po.Value, fetcher)
		if err == nil {
			err = vm.Execute()
		}
		if err != nil {
			return fmt.Sprintf("input %d (%v): %v", i, in.PreviousOutPoint, err)
		}
	}
	return ""
}

// SendRawTransaction implements chain.Interface.
func (b *backend) SendRawTransaction(tx *wire.MsgTx, _ bool) (*chainhash.Hash, error) {
	b.mu.Lock()
	defer b.mu.Unlock()
	t := b.t
	h := tx.TxHash()
	forced := ""
	if len(b.script) > 0 {
		forced, b.script = b.script[0], b.script[1:]
	}
	rec := func(answer, why string) {
		b.sent = append(b.sent, sentRec{tx: tx, answer: answer, why: why})
	}
	if lt := t.L.byHash[h]; lt != nil && lt.alive && forced == "" {
		if lt.height >= 0 {
			rec("confirmed", "")
			return nil, chain.ErrTxAlreadyConfirmed
		}
		rec("in_mempool", "")
		return nil, chain.ErrTxAlreadyInMempool
	}
	why := ""
	switch forced {
	case "reject":
		why = "scripted"
	case "accept":
	default:
		seen := map[wire.OutPoint]bool{}
		for _, in := range tx.TxIn {
			op := in.PreviousOutPoint
			switch {
			case seen[op]:
				why = fmt.Sprintf("input %v twice", op)
			case t.L.liveCoin(op) == nil:
				why = fmt.Sprintf("input %v missing", op)
			case t.L.spender(op, &h) != nil:
				why = fmt.Sprintf("input %v already spent (conflict)", op)
			}
			seen[op] = true
		}
		if why == "" {
			why = t.scriptsVerify(tx)
		}
	}
	if why != "" {
		rec("rejected", why)
		return nil, fmt.Errorf("%w: %s", errBackendRejected, why)
	}
	rec("accepted", "")
	t.recordPublished(tx)
	return &h, nil
}
