package main

// Generators: fixed small scenarios that put exactly one output in every
// state the property names (run first, so that a violation comes with a short
// replay), then random wallet histories generated online against the ledger.

import (
	"fmt"

	"verifharness/internal/gen"
)

type scenario struct {
	name string
	in   c06Input
}

func fund(conf bool, outs ...fundOut) op { return op{K: "fund", Conf: conf, Outs: outs} }
func own(scope int, acct uint32, amt int64) fundOut {
	return fundOut{Scope: scope, Acct: acct, Amt: amt}
}
func ownC(scope, coin int, acct uint32, amt int64) fundOut {
	return fundOut{Scope: scope, Coin: coin, Acct: acct, Amt: amt}
}
func imp(i int, amt int64) fundOut { return fundOut{Imp: i, Amt: amt} }
func mine(n int) op                { return op{K: "mine", N: n, Include: "all"} }
func pay(amt int64) []payOut       { return []payOut{{Kind: "p2wpkh", Amt: amt}} }
func req(r reqSpec) op {
	if r.Rate == 0 {
		r.Rate = 1000
	}
	if r.Strat == "" {
		r.Strat = "largest"
	}
	return op{K: "req", Req: &r}
}

func systematic() []scenario {
	var out []scenario
	add := func(name string, ops ...op) {
		out = append(out, scenario{name: name, in: c06Input{WSeed: len(out), Ops: ops}})
	}
	addWO := func(name string, ops ...op) {
		out = append(out, scenario{name: name, in: c06Input{WSeed: len(out), WatchOnlyWallet: true, Ops: ops}})
	}
	// S8 first: the shortest possible replay.
	add("explicit_duplicate_create", fund(true, own(84, 0, 1000000)),
		req(reqSpec{API: "create", Acct: 0, Scope: 84, MinConf: 1, Pay: pay(1500000), Explicit: []int{0, 0}}))
	add("explicit_duplicate_sendwith", fund(true, own(86, 0, 1000000)),
		req(reqSpec{API: "sendwith", Acct: 0, Scope: 86, MinConf: 1, Pay: pay(1500000), Explicit: []int{0, 0}}))
	add("explicit_duplicate_fundpsbt", fund(true, own(84, 0, 1000000)),
		req(reqSpec{API: "fundpsbt", Acct: 0, Scope: 84, MinConf: 1, Pay: pay(1500000), Explicit: []int{0, 0}}))
	add("explicit_duplicate_affordable", fund(true, own(49, 0, 1000000), own(49, 0, 700000)),
		req(reqSpec{API: "create", Acct: 0, Scope: 49, MinConf: 1, Pay: pay(300000), Explicit: []int{1, 0, 1}}))

	// every address type: automatic and explicit selection through every API,
	// signatures checked by the engine
	for _, p := range purposes {
		for _, api := range []string{"send", "create", "sendwith", "fundpsbt"} {
			r1 := reqSpec{API: api, Acct: 0, Scope: p, MinConf: 1, Pay: pay(1200000), Publish: true}
			r2 := reqSpec{API: api, Acct: 0, Scope: p, MinConf: 0, Pay: pay(250000), Strat: "random", Publish: true}
			if api == "sendwith" {
				r1.Explicit = []int{0, 1}
				r2.Explicit = []int{2}
			}
			add(fmt.Sprintf("type_%d_%s", p, api),
				fund(true, own(p, 0, 1000000), own(p, 0, 400000), fundOut{Scope: p, Acct: 0, Amt: 300000, Internal: true}),
				req(r1), req(r2), mine(1),
				req(reqSpec{API: api, Acct: 0, Scope: p, MinConf: 1, Pay: pay(100000), Explicit: []int{3}, Dry: api == "create"}))
		}
	}
	// all four types in one transaction, no key scope
	add("all_types_one_tx",
		fund(true, own(44, 0, 300000), own(49, 0, 300000), own(84, 0, 300000), own(86, 0, 300000)),
		req(reqSpec{API: "send", Acct: 0, Scope: 0, MinConf: 1, Pay: pay(1100000)}))
	add("all_types_one_psbt",
		fund(true, own(44, 1, 300000), own(49, 1, 300000), own(84, 1, 300000), own(86, 1, 300000)),
		req(reqSpec{API: "fundpsbt", Acct: 1, Scope: 0, MinConf: 1, Pay: pay(1100000)}))

	// one output in each ineligible state: (a) an explicit selection naming it
	// next to a good one must be refused, (b) an automatic selection that could
	// only succeed by using it must fail.  Coin 0 = good (50 000), coin 1 = the
	// large one in the bad state.
	type bad struct {
		name    string
		setup   []op
		minconf int32
		scope   int
	}
	two := fund(true, own(84, 0, 50000), own(84, 0, 1000000))
	bads := []bad{
		{"spent_unconfirmed", []op{two, {K: "spend", Coins: []int{1}, Outs: []fundOut{{Ext: true, Amt: 990000}}}}, 1, 84},
		{"spent_confirmed", []op{two, {K: "spend", Conf: true, Coins: []int{1}, Outs: []fundOut{{Ext: true, Amt: 990000}}}}, 1, 84},
		{"locked", []op{two, {K: "lock", Coin: 1}}, 1, 84},
		{"leased", []op{two, {K: "lease", Coin: 1, ID: 7, Dur: 600}, {K: "tick", Dt: 599}}, 1, 84},
		{"unconfirmed_minconf1", []op{fund(true, own(84, 0, 50000)), fund(false, own(84, 0, 1000000))}, 1, 84},
		{"one_conf_minconf2", []op{fund(true, own(84, 0, 50000)), mine(1), fund(true, own(84, 0, 1000000))}, 2, 84},
		{"five_conf_minconf6", []op{fund(true, own(84, 0, 50000)), mine(5), fund(true, own(84, 0, 1000000)), mine(4)}, 6, 84},
		{"immature_coinbase_99", []op{fund(true, own(84, 0, 50000)), {K: "cbfund", Outs: []fundOut{own(84, 0, 1000000)}}, mine(98)}, 1, 84},
		{"other_account", []op{fund(true, own(84, 0, 50000), own(84, 1, 1000000))}, 1, 84},
		{"other_scope", []op{fund(true, own(84, 0, 50000), own(86, 0, 1000000))}, 1, 84},
		{"reorged_out_minconf1", []op{fund(true, own(84, 0, 50000)), mine(1), fund(true, own(84, 0, 1000000)),
			{K: "reorg", Depth: 1, N: 1, Include: "none"}}, 1, 84},
		{"reorged_coinbase", []op{fund(true, own(84, 0, 50000)), mine(1), {K: "cbfund", Outs: []fundOut{own(84, 0, 1000000)}},
			{K: "reorg", Depth: 1, N: 1, Include: "none"}}, 0, 84},
	}
	for _, b := range bads {
		for _, api := range []string{"create", "sendwith", "send"} {
			ops := append([]op{}, b.setup...)
			r := reqSpec{API: api, Acct: 0, Scope: b.scope, MinConf: b.minconf, Pay: pay(200000)}
			if api != "send" {
				r.Explicit = []int{0, 1}
			}
			ops = append(ops, req(r))
			if api == "send" {
				// also without a key scope and with the random strategy
				ops = append(ops, req(reqSpec{API: "create", Acct: 0, MinConf: b.minconf, Pay: pay(200000), Strat: "random", Dry: true}))
			}
			add("bad_"+b.name+"_"+api, ops...)
		}
	}
	add("explicit_unknown_outpoint", fund(true, own(84, 0, 1000000)),
		req(reqSpec{API: "create", Acct: 0, Scope: 84, MinConf: 1, Pay: pay(200000), Explicit: []int{0, -1}}))
	add("explicit_outside_filter", fund(true, own(84, 0, 1000000), own(84, 0, 500000)),
		req(reqSpec{API: "create", Acct: 0, Scope: 84, MinConf: 1, Pay: pay(200000), Explicit: []int{0}, Allow: []int{1}, HasAllow: true}),
		req(reqSpec{API: "create", Acct: 0, Scope: 84, MinConf: 1, Pay: pay(200000), Allow: []int{1}, HasAllow: true}))

	// the good side of every boundary
	add("boundary_minconf2_reached", fund(true, own(84, 0, 1000000)), mine(1),
		req(reqSpec{API: "send", Acct: 0, Scope: 84, MinConf: 2, Pay: pay(200000)}))
	add("boundary_minconf6_reached", fund(true, own(86, 0, 1000000)), mine(5),
		req(reqSpec{API: "send", Acct: 0, Scope: 86, MinConf: 6, Pay: pay(200000)}))
	add("boundary_coinbase_mature_100", op{K: "cbfund", Outs: []fundOut{own(84, 0, 1000000)}}, mine(99),
		req(reqSpec{API: "send", Acct: 0, Scope: 84, MinConf: 1, Pay: pay(200000)}))
	add("boundary_lease_expired", fund(true, own(84, 0, 1000000)), op{K: "lease", Coin: 0, ID: 3, Dur: 600}, op{K: "tick", Dt: 600},
		req(reqSpec{API: "send", Acct: 0, Scope: 84, MinConf: 1, Pay: pay(200000)}))
	add("boundary_released_unlocked", fund(true, own(84, 0, 1000000), own(84, 0, 900000)),
		op{K: "lease", Coin: 0, ID: 3, Dur: 600}, op{K: "release", Coin: 0, ID: 3}, op{K: "lock", Coin: 1}, op{K: "unlock", Coin: 1},
		req(reqSpec{API: "send", Acct: 0, Scope: 84, MinConf: 1, Pay: pay(1500000)}))

	// successive sends: the published inputs are gone, the change arrives
	add("successive_sends", fund(true, own(84, 0, 1000000)),
		req(reqSpec{API: "send", Acct: 0, Scope: 84, MinConf: 1, Pay: pay(300000)}),
		req(reqSpec{API: "send", Acct: 0, Scope: 84, MinConf: 1, Pay: pay(300000)}),                      // only unconfirmed change left: must fail
		req(reqSpec{API: "send", Acct: 0, Scope: 84, MinConf: 0, Pay: pay(300000)}),                      // spends the change
		req(reqSpec{API: "create", Acct: 0, Scope: 84, MinConf: 0, Pay: pay(10000), Explicit: []int{0}}), // published input, explicitly: refused
		mine(1),
		req(reqSpec{API: "send", Acct: 0, Scope: 84, MinConf: 1, Pay: pay(100000)}),
		op{K: "reorg", Depth: 1, N: 1, Include: "none"},
		req(reqSpec{API: "send", Acct: 0, Scope: 84, MinConf: 1, Pay: pay(100000)}), // everything unconfirmed again
		req(reqSpec{API: "send", Acct: 0, Scope: 84, MinConf: 0, Pay: pay(100000), Strat: "random"}))
	add("rejected_broadcast_frees_inputs", fund(true, own(84, 0, 1000000)),
		req(reqSpec{API: "send", Acct: 0, Scope: 84, MinConf: 1, Pay: pay(300000), Reject: true}),
		req(reqSpec{API: "send", Acct: 0, Scope: 84, MinConf: 1, Pay: pay(300000)}))
	add("created_not_published_then_published", fund(true, own(86, 2, 1000000), own(86, 2, 600000)),
		req(reqSpec{API: "create", Acct: 2, Scope: 86, MinConf: 1, Pay: pay(300000)}),
		req(reqSpec{API: "create", Acct: 2, Scope: 86, MinConf: 1, Pay: pay(300000), Publish: true}),
		req(reqSpec{API: "create", Acct: 2, Scope: 86, MinConf: 1, Pay: pay(300000), Publish: true}),
		req(reqSpec{API: "create", Acct: 2, Scope: 86, MinConf: 1, Pay: pay(300000), Dry: true}))
	add("double_spent_by_block", fund(true, own(84, 0, 1000000), own(84, 0, 600000)),
		req(reqSpec{API: "send", Acct: 0, Scope: 84, MinConf: 1, Pay: pay(1200000)}), // uses both
		op{K: "fund", Conf: true, Outs: []fundOut{own(84, 0, 777)}},                  // unrelated block
		req(reqSpec{API: "send", Acct: 0, Scope: 84, MinConf: 0, Pay: pay(100000)}))

	// minconf above the coinbase maturity: a mature coinbase output still
	// needs the requested confirmations (100 <= confs < minconf)
	for _, mc := range []struct {
		minconf int32
		confs   int
	}{{101, 100}, {105, 100}, {105, 104}, {150, 100}, {150, 149}} {
		cb := []op{fund(true, own(84, 0, 50000)), {K: "cbfund", Outs: []fundOut{own(84, 0, 1000000)}}, mine(mc.confs - 1)}
		for _, api := range []string{"send", "create", "sendwith", "fundpsbt"} {
			r := reqSpec{API: api, Acct: 0, Scope: 84, MinConf: mc.minconf, Pay: pay(200000)}
			if api == "create" || api == "sendwith" {
				r.Explicit = []int{1}
			}
			ops := append(append([]op{}, cb...), req(r))
			if api == "send" {
				ops = append(ops, req(reqSpec{API: "create", Acct: 0, MinConf: mc.minconf, Pay: pay(200000), Strat: "random", Dry: true}))
			}
			add(fmt.Sprintf("bad_coinbase_%dconf_minconf%d_%s", mc.confs, mc.minconf, api), ops...)
		}
	}
	add("boundary_coinbase_minconf101_reached", op{K: "cbfund", Outs: []fundOut{own(84, 0, 1000000)}}, mine(100),
		req(reqSpec{API: "send", Acct: 0, Scope: 84, MinConf: 101, Pay: pay(200000)}))
	add("boundary_coinbase_minconf150_reached", op{K: "cbfund", Outs: []fundOut{own(86, 0, 1000000)}}, mine(149),
		req(reqSpec{API: "create", Acct: 0, Scope: 86, MinConf: 150, Pay: pay(200000), Explicit: []int{0}}))
	add("ordinary_output_minconf101", fund(true, own(84, 0, 50000)), mine(50), fund(true, own(84, 0, 1000000)), mine(99),
		req(reqSpec{API: "send", Acct: 0, Scope: 84, MinConf: 101, Pay: pay(200000)}), // 100 confirmations: must fail
		mine(1),
		req(reqSpec{API: "send", Acct: 0, Scope: 84, MinConf: 101, Pay: pay(200000)}))

	// leases and locks on still UNCONFIRMED outputs, then minconf 0
	for _, how := range []string{"lease", "lock"} {
		hold := op{K: how, Coin: 1, ID: 5, Dur: 600}
		setup := []op{fund(true, own(84, 0, 50000)), fund(false, own(84, 0, 1000000)), hold}
		for _, api := range []string{"send", "create", "sendwith", "fundpsbt"} {
			r := reqSpec{API: api, Acct: 0, Scope: 84, MinConf: 0, Pay: pay(200000)}
			if api == "create" || api == "sendwith" {
				r.Explicit = []int{0, 1}
			}
			ops := append(append([]op{}, setup...), req(r))
			if api == "send" {
				ops = append(ops, req(reqSpec{API: "create", Acct: 0, MinConf: 0, Pay: pay(200000), Strat: "random", Dry: true}))
			}
			add("bad_unconfirmed_"+how+"_"+api, ops...)
		}
	}
	add("unconfirmed_change_leased", fund(true, own(86, 0, 1000000)),
		req(reqSpec{API: "send", Acct: 0, Scope: 86, MinConf: 1, Pay: pay(300000)}), // change = coin 1, unconfirmed
		op{K: "lease", Coin: 1, ID: 2, Dur: 600},
		req(reqSpec{API: "send", Acct: 0, Scope: 86, MinConf: 0, Pay: pay(300000)}), // must fail
		op{K: "tick", Dt: 600},
		req(reqSpec{API: "send", Acct: 0, Scope: 86, MinConf: 0, Pay: pay(300000)})) // lease expired: spends it
	add("unconfirmed_lease_then_confirmed", fund(false, own(84, 0, 1000000)), op{K: "lease", Coin: 0, ID: 2, Dur: 600}, mine(1),
		req(reqSpec{API: "send", Acct: 0, Scope: 84, MinConf: 1, Pay: pay(300000)})) // still leased: must fail

	// two unconfirmed transactions spend the same wallet output; one of them
	// is forgotten: the output is still spent by the other
	x1 := op{K: "spend", Coins: []int{1}, Outs: []fundOut{{Ext: true, Amt: 990000}}}
	x2 := op{K: "spend", Double: true, Coins: []int{1}, Outs: []fundOut{{Ext: true, Amt: 980000}}}
	x2b := op{K: "spend", Double: true, Coins: []int{1, 2}, Outs: []fundOut{{Ext: true, Amt: 1000000}, own(84, 0, 30000)}}
	three := fund(true, own(84, 0, 50000), own(84, 0, 1000000), own(84, 0, 60000))
	for _, v := range []struct {
		name string
		ops  []op
	}{
		{"abandon_second", []op{three, x1, x2, {K: "abandon", Tx: 1}}},
		{"abandon_first", []op{three, x1, x2, {K: "abandon", Tx: 0}}},
		{"abandon_second_two_inputs", []op{three, x1, x2b, {K: "abandon", Tx: 1}}},
		{"abandon_first_two_inputs", []op{three, x1, x2b, {K: "abandon", Tx: 0}}},
	} {
		for _, api := range []string{"send", "create", "sendwith"} {
			r := reqSpec{API: api, Acct: 0, Scope: 84, MinConf: 1, Pay: pay(200000)}
			if api != "send" {
				r.Explicit = []int{0, 1}
			}
			ops := append(append([]op{}, v.ops...), req(r))
			if api == "send" {
				ops = append(ops, req(reqSpec{API: "fundpsbt", Acct: 0, MinConf: 0, Pay: pay(200000), Strat: "random"}))
			}
			add("double_spend_pair_"+v.name+"_"+api, ops...)
		}
	}
	// the wallet's own transaction loses the race: created, a conflicting
	// spend arrives, the late broadcast is rejected and the transaction forgotten
	add("own_tx_conflicts_rejected_later", fund(true, own(84, 0, 1000000)),
		req(reqSpec{API: "create", Acct: 0, Scope: 84, MinConf: 1, Pay: pay(300000)}), // held
		op{K: "spend", Coins: []int{0}, Outs: []fundOut{{Ext: true, Amt: 990000}}},
		op{K: "publish", Tx: 0, Reject: true},
		req(reqSpec{API: "send", Acct: 0, Scope: 84, MinConf: 0, Pay: pay(300000)}),
		req(reqSpec{API: "create", Acct: 0, Scope: 84, MinConf: 1, Pay: pay(300000), Explicit: []int{0}}))
	add("own_tx_conflicts_accepted_then_abandoned", fund(true, own(84, 0, 1000000), own(84, 0, 50000)),
		req(reqSpec{API: "create", Acct: 0, Scope: 84, MinConf: 1, Pay: pay(300000)}), // held, spends coin 0
		op{K: "spend", Coins: []int{0}, Outs: []fundOut{{Ext: true, Amt: 990000}}},
		op{K: "publish", Tx: 0, Accept: true},
		op{K: "abandon", Tx: 1},
		req(reqSpec{API: "send", Acct: 0, Scope: 84, MinConf: 0, Pay: pay(300000)}))
	add("double_spend_pair_one_confirms", three, x1, x2b, op{K: "mine", N: 1, Include: "half"},
		req(reqSpec{API: "send", Acct: 0, Scope: 84, MinConf: 0, Pay: pay(100000)}),
		req(reqSpec{API: "create", Acct: 0, Scope: 84, MinConf: 0, Pay: pay(10000), Explicit: []int{1}}))

	// ---- key scopes are (purpose, coin type) pairs: BIP84 (84, 0) and the
	// custom scope (84, 1) share the purpose.  Coin 0 = 50 000 in the requested
	// scope, coin 1 = 1 000 000 in the other one.
	for _, d := range []struct {
		name      string
		reqCoin   int
		otherCoin int
	}{{"bip84_vs_custom", 0, customCoin}, {"custom_vs_bip84", customCoin, 0}} {
		setup := fund(true, ownC(84, d.reqCoin, 0, 50000), ownC(84, d.otherCoin, 0, 1000000))
		for _, api := range []string{"create", "sendwith", "send", "fundpsbt"} {
			r := reqSpec{API: api, Acct: 0, Scope: 84, Coin: d.reqCoin, MinConf: 1, Pay: pay(200000)}
			if api == "create" || api == "sendwith" {
				r.Explicit = []int{0, 1}
			}
			add("bad_same_purpose_other_coin_"+d.name+"_"+api, setup, req(r),
				// the good side: the small coin alone, and the big one through its own scope
				req(reqSpec{API: "create", Acct: 0, Scope: 84, Coin: d.reqCoin, MinConf: 1, Pay: pay(20000)}),
				req(reqSpec{API: "send", Acct: 0, Scope: 84, Coin: d.otherCoin, MinConf: 1, Pay: pay(200000)}))
		}
	}
	add("custom_scope_all_apis", fund(true, ownC(84, customCoin, 1, 1000000), ownC(84, customCoin, 1, 400000),
		fundOut{Scope: 84, Coin: customCoin, Acct: 1, Amt: 300000, Internal: true}),
		req(reqSpec{API: "send", Acct: 1, Scope: 84, Coin: customCoin, MinConf: 1, Pay: pay(1200000)}),
		req(reqSpec{API: "create", Acct: 1, Scope: 84, Coin: customCoin, MinConf: 0, Pay: pay(150000), Strat: "random", Publish: true}),
		mine(1),
		req(reqSpec{API: "fundpsbt", Acct: 1, Scope: 84, Coin: customCoin, MinConf: 1, Pay: pay(50000), Publish: true}))
	add("no_scope_spends_default_and_custom", fund(true, own(84, 0, 300000), ownC(84, customCoin, 0, 300000), own(44, 0, 300000)),
		req(reqSpec{API: "send", Acct: 0, Scope: 0, MinConf: 1, Pay: pay(800000)}))

	// ---- a change scope of its own (WithCustomChangeScope): the SELECTION scope
	// still decides the inputs.  Coin 0 = 50 000 in the selection scope, coin 1
	// = 1 000 000 in the change scope.
	for _, d := range []struct {
		name         string
		sel, selCoin int
		chg, chgCoin int
	}{{"sel86_chg84", 86, 0, 84, 0}, {"sel84_chg86", 84, 0, 86, 0}, {"sel44_chg49", 44, 0, 49, 0}, {"sel84_chg_custom", 84, 0, 84, customCoin},
		{"sel_custom_chg84", 84, customCoin, 84, 0}} {
		setup := fund(true, ownC(d.sel, d.selCoin, 0, 50000), ownC(d.chg, d.chgCoin, 0, 1000000))
		for _, api := range []string{"create", "fundpsbt"} {
			for _, explicit := range []bool{false, true} {
				r := reqSpec{API: api, Acct: 0, Scope: d.sel, Coin: d.selCoin, ChgScope: d.chg, ChgCoin: d.chgCoin, MinConf: 1, Pay: pay(200000)}
				n := "auto"
				if explicit {
					r.Explicit, n = []int{0, 1}, "explicit"
				}
				add("bad_change_scope_coin_"+d.name+"_"+api+"_"+n, setup, req(r),
					// the good side: the selection scope's own coin pays, the change goes to the other scope
					req(reqSpec{API: api, Acct: 0, Scope: d.sel, Coin: d.selCoin, ChgScope: d.chg, ChgCoin: d.chgCoin, MinConf: 1, Pay: pay(20000), Publish: true}),
					req(reqSpec{API: "create", Acct: 0, Scope: d.chg, Coin: d.chgCoin, ChgScope: d.sel, ChgCoin: d.selCoin, MinConf: 0, Pay: pay(900000), Strat: "random"}))
			}
		}
	}
	// no selection scope, change scope given: every scope's coins of the account are eligible
	add("no_selection_scope_custom_change_scope", fund(true, own(84, 0, 300000), own(86, 0, 300000), own(44, 1, 900000)),
		req(reqSpec{API: "create", Acct: 0, Scope: 0, ChgScope: 84, MinConf: 1, Pay: pay(500000), Publish: true}),
		req(reqSpec{API: "fundpsbt", Acct: 1, Scope: 0, ChgScope: 49, MinConf: 1, Pay: pay(500000)}))

	// ---- imported private keys (account ImportedAddrAccount of the scope they
	// were imported into), compressed and uncompressed
	for i, ik := range importedKeys {
		for _, api := range []string{"create", "send", "fundpsbt"} {
			add(fmt.Sprintf("imported_key_%d_%s", i+1, api), fund(true, imp(i+1, 1000000), own(ik.purpose, 0, 700000)),
				req(reqSpec{API: api, Acct: importedAcc, Scope: ik.purpose, MinConf: 1, Pay: pay(300000)}),
				// the HD account next to it is signed as usual
				req(reqSpec{API: api, Acct: 0, Scope: ik.purpose, MinConf: 1, Pay: pay(300000), Publish: true}))
		}
	}
	// a key imported WITHOUT its private part next to one with it: signed only
	// when every selected input's key is held
	add("imported_public_only_next_to_private", fund(true, imp(3, 600000), imp(6, 300000)),
		req(reqSpec{API: "create", Acct: importedAcc, Scope: 84, MinConf: 1, Pay: pay(100000)}),                     // key 3 alone: signed
		req(reqSpec{API: "create", Acct: importedAcc, Scope: 84, MinConf: 1, Pay: pay(800000)}),                     // both: unsigned
		req(reqSpec{API: "create", Acct: importedAcc, Scope: 84, MinConf: 1, Pay: pay(100000), Explicit: []int{1}}), // key 6 alone: unsigned
		req(reqSpec{API: "send", Acct: importedAcc, Scope: 84, MinConf: 1, Pay: pay(100000)}))
	add("imported_keys_no_scope", fund(true, imp(1, 400000), imp(2, 400000), imp(3, 400000), imp(5, 400000)),
		req(reqSpec{API: "create", Acct: importedAcc, Scope: 0, MinConf: 1, Pay: pay(1400000)}))
	add("imported_uncompressed_after_restart", fund(true, imp(2, 1000000), imp(1, 500000)), op{K: "restart"},
		req(reqSpec{API: "create", Acct: importedAcc, Scope: 44, MinConf: 1, Pay: pay(1200000)}))
	add("imported_other_account_refused", fund(true, own(84, 0, 50000), imp(3, 1000000)),
		req(reqSpec{API: "create", Acct: 0, Scope: 84, MinConf: 1, Pay: pay(200000), Explicit: []int{0, 1}}),
		req(reqSpec{API: "send", Acct: 0, Scope: 84, MinConf: 1, Pay: pay(200000)}),
		req(reqSpec{API: "create", Acct: importedAcc, Scope: 84, MinConf: 1, Pay: pay(200000), Explicit: []int{1, 0}}))

	// ---- watch-only accounts (imported by extended public key): nothing is
	// signed, and a spendable account next to them is
	for _, p := range woPurposes {
		for _, api := range []string{"create", "send", "sendwith", "fundpsbt"} {
			r := reqSpec{API: api, Acct: woAcct, Scope: p, MinConf: 1, Pay: pay(300000)}
			g := reqSpec{API: api, Acct: 0, Scope: p, MinConf: 1, Pay: pay(300000), Publish: true}
			if api == "sendwith" {
				r.Explicit, g.Explicit = []int{0}, []int{2}
			}
			add(fmt.Sprintf("watch_only_account_%d_%s", p, api),
				fund(true, own(p, woAcct, 1000000), fundOut{Scope: p, Acct: woAcct, Amt: 600000, Internal: true}, own(p, 0, 700000)),
				req(r), req(g),
				req(reqSpec{API: "create", Acct: woAcct, Scope: p, MinConf: 1, Pay: pay(300000), Dry: true}))
		}
	}
	add("watch_only_account_no_scope", fund(true, own(84, woAcct, 500000), own(86, woAcct, 500000)),
		req(reqSpec{API: "create", Acct: woAcct, Scope: 0, MinConf: 1, Pay: pay(800000)}),
		req(reqSpec{API: "fundpsbt", Acct: woAcct, Scope: 0, MinConf: 1, Pay: pay(800000)}))
	add("watch_only_account_other_account_refused", fund(true, own(84, 0, 50000), own(84, woAcct, 1000000)),
		req(reqSpec{API: "create", Acct: 0, Scope: 84, MinConf: 1, Pay: pay(200000), Explicit: []int{0, 1}}),
		req(reqSpec{API: "send", Acct: 0, Scope: 84, MinConf: 1, Pay: pay(200000)}))
	// a wallet that is watch-only as a whole: the result is flagged unsigned
	for _, api := range []string{"send", "sendwith", "create", "fundpsbt"} {
		r := reqSpec{API: api, Acct: 0, Scope: 84, MinConf: 1, Pay: pay(300000)}
		if api == "sendwith" {
			r.Explicit = []int{1}
		}
		addWO("watch_only_wallet_"+api, fund(true, own(84, 0, 1000000), own(84, 0, 600000), own(86, 0, 500000)), req(r),
			req(reqSpec{API: "create", Acct: 0, Scope: 0, MinConf: 1, Pay: pay(1900000)}),
			req(reqSpec{API: "create", Acct: 0, Scope: 84, MinConf: 1, Pay: pay(100000), Explicit: []int{0, 0}}))
	}

	// ---- published = created by the wallet, handed over by it, accepted
	add("publish_rejected_releases_inputs", fund(true, own(84, 0, 1000000), own(84, 0, 50000)),
		req(reqSpec{API: "create", Acct: 0, Scope: 84, MinConf: 1, Pay: pay(300000)}), // held, spends coin 0
		op{K: "publish", Tx: 0, Reject: true},
		req(reqSpec{API: "send", Acct: 0, Scope: 84, MinConf: 1, Pay: pay(300000)}),                      // needs coin 0 again
		req(reqSpec{API: "create", Acct: 0, Scope: 84, MinConf: 1, Pay: pay(10000), Explicit: []int{0}})) // now published: refused
	add("published_then_restart_no_reuse", fund(true, own(84, 0, 1000000), own(84, 0, 900000)),
		req(reqSpec{API: "send", Acct: 0, Scope: 84, MinConf: 1, Pay: pay(300000)}), // spends coin 0
		op{K: "restart"},
		req(reqSpec{API: "send", Acct: 0, Scope: 84, MinConf: 1, Pay: pay(300000)}),                      // must take coin 1
		req(reqSpec{API: "create", Acct: 0, Scope: 84, MinConf: 0, Pay: pay(10000), Explicit: []int{0}}), // refused
		op{K: "restart"},
		req(reqSpec{API: "send", Acct: 0, Scope: 84, MinConf: 1, Pay: pay(300000)}), // nothing confirmed is left
		req(reqSpec{API: "send", Acct: 0, Scope: 84, MinConf: 0, Pay: pay(300000)}), // the change
		mine(1), op{K: "restart"},
		req(reqSpec{API: "send", Acct: 0, Scope: 84, MinConf: 1, Pay: pay(100000)}))
	add("created_publish_rejected_restart", fund(true, own(86, 0, 1000000)),
		req(reqSpec{API: "create", Acct: 0, Scope: 86, MinConf: 1, Pay: pay(300000), Publish: true, Reject: true}),
		op{K: "restart"},
		req(reqSpec{API: "send", Acct: 0, Scope: 86, MinConf: 1, Pay: pay(300000)}),
		op{K: "restart"},
		req(reqSpec{API: "create", Acct: 0, Scope: 86, MinConf: 0, Pay: pay(10000), Explicit: []int{0}}))
	add("restart_keeps_leases_drops_locks", fund(true, own(84, 0, 1000000), own(84, 0, 900000), own(84, 0, 50000)),
		op{K: "lease", Coin: 0, ID: 4, Dur: 600}, op{K: "lock", Coin: 1}, op{K: "restart"},
		req(reqSpec{API: "create", Acct: 0, Scope: 84, MinConf: 1, Pay: pay(10000), Explicit: []int{0}}), // leased: refused
		req(reqSpec{API: "send", Acct: 0, Scope: 84, MinConf: 1, Pay: pay(300000)}))                      // coin 1: the lock is gone

	// ---- requests issued at once
	for _, n := range []int{2, 3} {
		var rs []reqSpec
		for i := 0; i < n; i++ {
			rs = append(rs, reqSpec{API: "send", Acct: 0, Scope: 84, MinConf: 1, Rate: 1000, Strat: "largest", Pay: pay(int64(300000 + 1000*i))})
		}
		add(fmt.Sprintf("race_%d_sends_three_equal_coins", n), fund(true, own(84, 0, 1000000), own(84, 0, 1000000), own(84, 0, 1000000)),
			op{K: "race", Race: rs},
			req(reqSpec{API: "send", Acct: 0, Scope: 84, MinConf: 0, Pay: pay(100000)}))
		add(fmt.Sprintf("race_%d_sends_one_coin", n), fund(true, own(86, 0, 1000000)),
			op{K: "race", Race: func() []reqSpec {
				out := append([]reqSpec{}, rs...)
				for i := range out {
					out[i].Scope = 86
				}
				return out
			}()},
			req(reqSpec{API: "send", Acct: 0, Scope: 86, MinConf: 0, Pay: pay(100000)}))
	}

	// FundPsbt with caller-supplied inputs (S13): ownership and single use
	psbtIn := func(name string, ins []int, setup ...op) {
		ops := append([]op{fund(true, own(84, 0, 1000000), own(84, 0, 600000), own(86, 1, 500000))}, setup...)
		ops = append(ops, req(reqSpec{API: "fundpsbt", Acct: 0, Scope: 84, MinConf: 1, Pay: pay(300000), PsbtIn: ins, Publish: true}))
		add("psbt_inputs_"+name, ops...)
	}
	psbtIn("valid", []int{0})
	psbtIn("two_valid", []int{1, 0})
	psbtIn("taproot_other_account", []int{2})
	psbtIn("duplicate", []int{0, 0})
	psbtIn("unknown", []int{0, -1})
	psbtIn("leased", []int{0}, op{K: "lease", Coin: 0, ID: 9, Dur: 600})
	psbtIn("locked", []int{0}, op{K: "lock", Coin: 0})
	psbtIn("spent", []int{1}, op{K: "spend", Coins: []int{1}, Outs: []fundOut{{Ext: true, Amt: 590000}}})
	return out
}

// ---- random histories ---------------------------------------------------

var (
	rates    = []int64{1000, 1000, 2000, 10000, 50000, 200000}
	minconfs = []int32{0, 0, 1, 1, 1, 2, 6, 0, 1, 2, 6, 101, 105, 150}
	extKinds = []string{"p2wpkh", "p2pkh", "p2tr", "p2sh", "p2wsh"}
)

func randAmt(r *gen.R) int64 {
	switch r.Pick(2, 4, 5, 2) {
	case 0:
		return int64(r.Range(600, 4000))
	case 1:
		return int64(r.Range(5000, 80000))
	case 2:
		return int64(r.Range(100000, 20000000))
	default:
		return int64(r.Range(100000000, 500000000))
	}
}

func randOwn(r *gen.R) fundOut {
	switch r.Pick(16, 3, 3, 3) {
	case 1:
		return fundOut{Scope: 84, Coin: customCoin, Acct: uint32(r.Intn(customAccounts)), Amt: randAmt(r), Internal: r.Chance(1, 5)}
	case 2:
		return fundOut{Scope: woPurposes[r.Intn(len(woPurposes))], Acct: woAcct, Amt: randAmt(r), Internal: r.Chance(1, 5)}
	case 3:
		return fundOut{Imp: r.Range(1, len(importedKeys)), Amt: randAmt(r)}
	}
	return fundOut{Scope: purposes[r.Intn(4)], Acct: uint32(r.Pick(5, 3, 2)), Amt: randAmt(r), Internal: r.Chance(1, 5)}
}

// coinsWhere lists ids of coins (of known transactions) in a given state.
func coinsWhere(t *trace, f func(c *coin) bool) []int {
	var out []int
	for _, c := range t.L.coins {
		if c.from.alive && f(c) {
			out = append(out, c.id)
		}
	}
	return out
}

func pickFrom(r *gen.R, l []int) int { return l[r.Intn(len(l))] }

func randomOps(r *gen.R, n int) func(t *trace, i int) *op {
	return func(t *trace, i int) *op {
		if i >= n {
			return nil
		}
		if i == 0 {
			return &op{K: "mine", N: r.Range(1, 4), Include: "none"}
		}
		if i <= 3 {
			o := fund(r.Chance(3, 4), randOwn(r), randOwn(r))
			return &o
		}
		unspent := coinsWhere(t, func(c *coin) bool { return t.L.spender(c.op, nil) == nil })
		unconfCoins := coinsWhere(t, func(c *coin) bool { return c.from.height < 0 && t.L.spender(c.op, nil) == nil })
		switch r.Pick(18, 4, 12, 3, 6, 5, 7, 3, 8, 3, 3, 40, 3, 3, 2, 2) {
		case 12:
			return &op{K: "abandon", Tx: r.Intn(8)}
		case 13:
			o := &op{K: "publish", Tx: r.Intn(4)}
			switch r.Pick(3, 2, 1) {
			case 1:
				o.Reject = true
			case 2:
				o.Accept = true
			}
			return o
		case 14:
			return &op{K: "restart"}
		case 15:
			// two or three sends at once from one account and scope
			base := randomRequest(r, t)
			base.API, base.Explicit, base.PsbtIn, base.HasAllow, base.Allow, base.Dry, base.Reject, base.Accept = "send", nil, nil, false, nil, false, false, false
			if base.Acct >= nAccounts {
				base.Acct = 0
			}
			n := r.Range(2, 3)
			var rs []reqSpec
			for i := 0; i < n; i++ {
				q := *base
				q.Pay = nil
				for _, p := range base.Pay {
					p.Amt = p.Amt*int64(2+i)/int64(2+n) + 1000
					q.Pay = append(q.Pay, p)
				}
				rs = append(rs, q)
			}
			return &op{K: "race", Race: rs}
		case 0:
			outs := []fundOut{randOwn(r)}
			for r.Chance(1, 3) && len(outs) < 3 {
				outs = append(outs, randOwn(r))
			}
			if r.Chance(1, 4) {
				outs = append(outs, fundOut{Ext: true, Amt: randAmt(r)})
			}
			o := fund(r.Chance(2, 3), outs...)
			return &o
		case 1:
			return &op{K: "cbfund", Outs: []fundOut{randOwn(r)}}
		case 2:
			return &op{K: "mine", N: []int{1, 1, 1, 2, 3, 6}[r.Intn(6)], Include: []string{"all", "all", "none", "half"}[r.Intn(4)]}
		case 3:
			// bring the youngest immature coinbase output to 99 / 100 / 101 confirmations
			var young *coin
			for _, c := range t.L.coins {
				if c.from.alive && c.from.coinbase && t.L.confs(c.from) < 99 {
					young = c
				}
			}
			if young == nil {
				return &op{K: "mine", N: 1, Include: "all"}
			}
			// 99 / 100 / 101 confirmations, or somewhere between the maturity and
			// the largest minconf the requests use
			extra := r.Range(0, 2)
			if r.Chance(2, 5) {
				extra = []int{1, 2, 5, 6, 30, 50, 51, 52}[r.Intn(8)]
			}
			return &op{K: "mine", N: int(99-t.L.confs(young.from)) + extra, Include: "all"}
		case 4:
			d := 1
			if t.deep {
				d = r.Pick(0, 5, 3, 2)
			}
			return &op{K: "reorg", Depth: d, N: r.Range(0, d+1), Include: []string{"all", "none", "half"}[r.Intn(3)]}
		case 5:
			pool, double := unspent, false
			if r.Chance(1, 3) {
				// spend again an output that only unconfirmed transactions spend
				if l := coinsWhere(t, func(c *coin) bool {
					return t.L.spender(c.op, nil) != nil && !t.L.confirmedSpender(c.op)
				}); len(l) > 0 {
					pool, double = l, true
				}
			}
			if len(pool) == 0 {
				return &op{K: "tick", Dt: 60}
			}
			cs := []int{pickFrom(r, pool)}
			if r.Chance(1, 3) && len(unspent) > 0 {
				cs = append(cs, pickFrom(r, unspent))
			}
			outs := []fundOut{{Ext: true, Amt: 700}}
			if r.Chance(1, 3) {
				outs = append(outs, randOwn(r))
			}
			return &op{K: "spend", Conf: r.Chance(1, 2), Double: double, Coins: cs, Outs: outs}
		case 6:
			if len(unspent) == 0 {
				return &op{K: "tick", Dt: 60}
			}
			if len(unconfCoins) > 0 && r.Chance(1, 3) {
				return &op{K: "lock", Coin: pickFrom(r, unconfCoins)}
			}
			return &op{K: "lock", Coin: pickFrom(r, unspent)}
		case 7:
			locked := coinsWhere(t, func(c *coin) bool { return t.L.locks[c.op] })
			if len(locked) == 0 {
				return &op{K: "tick", Dt: 30}
			}
			return &op{K: "unlock", Coin: pickFrom(r, locked)}
		case 8:
			if len(unspent) == 0 {
				return &op{K: "tick", Dt: 60}
			}
			if len(unconfCoins) > 0 && r.Chance(1, 2) {
				return &op{K: "lease", Coin: pickFrom(r, unconfCoins), ID: r.Range(1, 3), Dur: []int{300, 600, 1200}[r.Intn(3)]}
			}
			return &op{K: "lease", Coin: pickFrom(r, unspent), ID: r.Range(1, 3), Dur: []int{300, 600, 1200}[r.Intn(3)]}
		case 9:
			leased := coinsWhere(t, func(c *coin) bool { return t.L.leased(c.op) })
			if len(leased) == 0 {
				return &op{K: "tick", Dt: 30}
			}
			c := pickFrom(r, leased)
			id := t.L.leases[t.L.coins[c].op].id
			if r.Chance(1, 4) {
				id = r.Range(1, 3)
			}
			return &op{K: "release", Coin: c, ID: id}
		case 10:
			return &op{K: "tick", Dt: []int{60, 300, 600, 3600}[r.Intn(4)]}
		}
		o := op{K: "req", Req: randomRequest(r, t)}
		return &o
	}
}

func randomRequest(r *gen.R, t *trace) *reqSpec {
	rs := &reqSpec{
		API:     []string{"send", "send", "create", "create", "sendwith", "fundpsbt", "fundpsbt"}[r.Intn(7)],
		MinConf: minconfs[r.Intn(len(minconfs))],
		Rate:    rates[r.Intn(len(rates))],
		Strat:   []string{"largest", "largest", "random", "random", "nil"}[r.Intn(5)],
	}
	// an account / scope that has something, most of the time
	rs.Acct = uint32(r.Pick(5, 3, 2))
	rs.Scope = []int{0, 0, 44, 49, 84, 86}[r.Intn(6)]
	if r.Chance(1, 12) && rs.Scope == 84 {
		rs.Coin = customCoin
		rs.Acct %= customAccounts
	}
	if r.Chance(3, 4) {
		if live := coinsWhere(t, func(c *coin) bool { return t.L.spender(c.op, nil) == nil }); len(live) > 0 {
			c := t.L.coins[pickFrom(r, live)]
			rs.Acct = c.own.Acct
			if rs.Scope != 0 {
				rs.Scope, rs.Coin = c.own.Scope, c.own.Coin
				if r.Chance(1, 10) && c.own.Scope == 84 {
					// the other scope with the same purpose
					rs.Coin = customCoin - c.own.Coin
				}
			}
		}
	}
	rv := reqView{acct: rs.Acct, scope: rs.Scope, coin: rs.Coin, minconf: rs.MinConf, maturity: int32(t.params.CoinbaseMaturity)}
	elig := t.L.eligible(rv)
	var total int64
	for _, c := range elig {
		total += c.amt
	}
	if (rs.API == "create" || rs.API == "fundpsbt") && r.Chance(1, 4) {
		// a change scope of its own, most of the time another one than the selection scope
		rs.ChgScope = purposes[r.Intn(4)]
		if r.Chance(1, 5) {
			rs.ChgScope, rs.ChgCoin = 84, customCoin
		}
		if r.Chance(1, 2) {
			// the scope of some other live coin of the account
			if l := coinsWhere(t, func(c *coin) bool {
				return c.own.Acct == rs.Acct && t.L.spender(c.op, nil) == nil && (c.own.Scope != rs.Scope || c.own.Coin != rs.Coin)
			}); len(l) > 0 {
				c := t.L.coins[pickFrom(r, l)]
				rs.ChgScope, rs.ChgCoin = c.own.Scope, c.own.Coin
			}
		}
	}
	rs.Dry = rs.API == "create" && r.Chance(2, 5)
	rs.Publish = r.Chance(3, 5)
	rs.Reject = r.Chance(1, 10)

	target := total * int64([]int{5, 30, 60, 90, 99, 120}[r.Intn(6)]) / 100
	// explicit selection
	wantExplicit := rs.API == "sendwith" || (rs.API != "send" && r.Chance(3, 10))
	if rs.API == "fundpsbt" && r.Chance(1, 4) {
		wantExplicit = false
		// caller-supplied inputs
		all := coinsWhere(t, func(c *coin) bool { return true })
		if len(all) > 0 {
			k := r.Range(1, 2)
			for j := 0; j < k; j++ {
				rs.PsbtIn = append(rs.PsbtIn, pickFrom(r, all))
			}
			switch r.Pick(6, 1, 1) {
			case 1:
				rs.PsbtIn = append(rs.PsbtIn, rs.PsbtIn[0])
			case 2:
				rs.PsbtIn = append(rs.PsbtIn, -1)
			}
			var sum int64
			for _, s := range rs.PsbtIn {
				if s >= 0 {
					sum += t.L.coins[s].amt
				}
			}
			target = sum * int64([]int{30, 60, 95}[r.Intn(3)]) / 100
		}
	}
	if wantExplicit {
		k := r.Range(1, 3)
		var sum int64
		for j := 0; j < k && len(elig) > 0; j++ {
			c := elig[r.Intn(len(elig))]
			dup := false
			for _, s := range rs.Explicit {
				if s == c.id {
					dup = true
				}
			}
			if !dup {
				rs.Explicit = append(rs.Explicit, c.id)
				sum += c.amt
			}
		}
		// a bad one?
		state := func(why string) []int {
			return coinsWhere(t, func(c *coin) bool {
				for _, w := range t.L.whyNot(c.op, rv, nil) {
					if w == why {
						return true
					}
				}
				return false
			})
		}
		switch r.Pick(8, 4, 2, 8) {
		case 1:
			if len(rs.Explicit) > 0 {
				rs.Explicit = append(rs.Explicit, rs.Explicit[r.Intn(len(rs.Explicit))])
			}
		case 2:
			rs.Explicit = append(rs.Explicit, -1)
		case 3:
			why := []string{"spent", "locked", "leased", "lowconf", "immature", "foreign"}[r.Intn(6)]
			if l := state(why); len(l) > 0 {
				rs.Explicit = append(rs.Explicit, pickFrom(r, l))
			}
		}
		if len(rs.Explicit) == 0 {
			rs.Explicit = []int{-1}
		}
		if r.Chance(1, 8) { // shuffle a little
			rs.Explicit[0], rs.Explicit[len(rs.Explicit)-1] = rs.Explicit[len(rs.Explicit)-1], rs.Explicit[0]
		}
		target = sum * int64([]int{20, 50, 80, 97, 110}[r.Intn(5)]) / 100
	} else if rs.API != "send" && rs.API != "sendwith" && len(rs.PsbtIn) == 0 && r.Chance(1, 8) {
		rs.HasAllow = true
		for _, c := range t.L.coins {
			if r.Chance(1, 2) {
				rs.Allow = append(rs.Allow, c.id)
			}
		}
	}
	if target < 1000 {
		target = int64(r.Range(1000, 30000))
	}
	nout := r.Pick(6, 3, 1) + 1
	for j := 0; j < nout; j++ {
		amt := target / int64(nout)
		if amt < 700 {
			amt = 700
		}
		p := payOut{Kind: extKinds[r.Intn(len(extKinds))], Amt: amt}
		if r.Chance(1, 5) {
			p = payOut{Kind: "own", Scope: purposes[r.Intn(4)], Acct: uint32(r.Intn(nAccounts)), Amt: amt}
			if r.Chance(1, 6) {
				p = payOut{Kind: "own", Scope: 84, Coin: customCoin, Acct: uint32(r.Intn(customAccounts)), Amt: amt}
			}
		}
		rs.Pay = append(rs.Pay, p)
	}
	return rs
}
