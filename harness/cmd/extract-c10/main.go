// extract-c10 lists, for the packages wtxmgr and waddrmgr of the repository
// given as argument, every call whose returned error may stem from a database
// write, and what the caller does with that error.
//
//	usage: extract-c10 <repo>          (prints one JSON object)
//
// "May stem from a database write" (the fallible set):
//   - a mutating walletdb primitive (Put, Delete, CreateBucket,
//     CreateBucketIfNotExists, DeleteNestedBucket, CreateTopLevelBucket,
//     DeleteTopLevelBucket, SetSequence, NextSequence, Commit, cursor Delete,
//     walletdb.Update / walletdb.Batch), recognised by the static type of the
//     receiver (an interface of package walletdb) - not by name alone;
//   - a function or method of the package under analysis whose last result is
//     `error` and whose body (closures included) contains a fallible call
//     (least fixpoint over the package call graph);
//   - any call that is handed a function literal / a function of the package
//     that is itself fallible (ForEach(func(k, v []byte) error { ... Put ... })).
//
// Dispositions (code = what Generated/ErrFlow.v and the Coq model see):
//
//	returned               0  the call is (part of) the error result of a return
//	                          statement, possibly wrapped: return wrap(f(..))
//	checked_and_returned   0  if err := f(..); err != nil { return .. <error> }
//	assigned_then_checked  0  err = f(..) ... if err != nil { return .. <error> }
//	                          (also: err = f(..) ... return .. err)
//	dropped_return         1  the error branch returns a nil error without
//	                          using the error: if err != nil { return nil }
//	dropped_continue       2  call used as a statement, error assigned to _,
//	                          go statement, `ok := f() == nil` that no return
//	                          depends on, error overwritten or never looked at
//	                          before the function ends, error branch that falls
//	                          through / continues / breaks without using it
//	deferred_drop          3  defer f(..): the error of a call that can write
//	                          is discarded when the function exits
//	logged_return          4  if err != nil { log...(err); return nil }
//	logged_continue        5  if err != nil { log...(err) } (falls through,
//	                          continue, break)
//	unknown                6  none of the shapes above was recognised.  Counts
//	                          as NOT propagated: the proof obligation of every
//	                          operation using the site fails, and the fault
//	                          sweep decides whether a failing input exists.
//
// Only code 0 counts as propagated.  A site can be put on the reviewed
// exception list below (keyed by package, function and callee, with the
// reason); it is then emitted with code 0 and the reason.
//
// Site ids: "<pkg>:<function>><callee>" with walletdb receivers shortened to
// "db." (all calls of one callee made by one function are one site; its code is
// the worst of them).  The Coq transcription names sites by these ids.
//
// Memory shapes.  For every function of the packages that can write, the
// order of its database writes (W) and of its assignments to manager memory
// (M: an assignment, delete(), copy(), zero.Bytes(), a mutating method, whose
// target is reached from the receiver) is determined by abstract execution of
// the body (both branches of a conditional from the same state, loop bodies
// twice, branches ending in return dropped, calls of package functions
// replaced by their own summary).  M inside a closure handed to OnCommit is
// "at commit".  M inside a function that only gets a walletdb.ReadBucket and
// cannot write is a read-side cache fill and is not counted.
//
//	none       0  no M
//	after      1  no W is executed after an M
//	at_commit  2  as `none`, plus effects registered with OnCommit
//	before     3  some W can follow an M
//
// Types come from go/types run with an importer that only knows the
// repository's own walletdb package (parsed from <repo>/walletdb); every other
// import is an empty stand-in and the resulting type errors are ignored.  That
// is enough to resolve package-local callees and receivers of walletdb
// interface type, and it keeps the tool independent of the module cache.
package main

import (
	"encoding/json"
	"fmt"
	"go/ast"
	"go/parser"
	"go/token"
	"go/types"
	"os"
	"path/filepath"
	"sort"
	"strings"
)

const walletdbPath = "github.com/btcsuite/btcwallet/walletdb"

var primitives = map[string]bool{
	"Put": true, "Delete": true, "CreateBucket": true, "CreateBucketIfNotExists": true,
	"DeleteNestedBucket": true, "CreateTopLevelBucket": true, "DeleteTopLevelBucket": true,
	"SetSequence": true, "NextSequence": true, "Commit": true,
	"Update": true, "Batch": true,
}

// reviewed exceptions: sites whose error is legitimately not propagated, or
// whose shape the classifier does not recognise but which were reviewed (the
// fault sweep of the check exercises them on every run).  Keyed by package,
// function and callee; every entry needs a justification; it is printed in the
// output, in Generated/ErrFlow.v and in the evidence.  (None is needed for the
// present tree: no site is classified unknown, deferred or dropped.)
type allowEntry struct {
	Pkg, Func, Callee, Why string
}

var allowList = []allowEntry{}

type site struct {
	ID      string `json:"id"`
	Code    int    `json:"code"`
	Pkg     string `json:"pkg"`
	Func    string `json:"func"`
	Callee  string `json:"callee"`
	File    string `json:"file"`
	Line    int    `json:"line"`
	Disp    string `json:"disp"`
	Detail  string `json:"detail"`
	Prim    bool   `json:"prim"`
	Allowed string `json:"allowed,omitempty"`
}

type shapeRow struct {
	Func   string `json:"func"` // "<pkg>:<function>"
	Shape  string `json:"shape"`
	Code   int    `json:"code"`
	Writes bool   `json:"writes"`
	Detail string `json:"detail,omitempty"`
}

var dispCode = map[string]int{
	"returned": 0, "checked_and_returned": 0, "assigned_then_checked": 0,
	"dropped_return": 1, "dropped_continue": 2, "deferred_drop": 3,
	"logged_return": 4, "logged_continue": 5, "unknown": 6,
}

func shortCallee(c string) string {
	for _, p := range []string{"walletdb.ReadWriteBucket.", "walletdb.ReadWriteTx.", "walletdb.ReadWriteCursor.", "walletdb."} {
		if strings.HasPrefix(c, p) {
			return "db." + c[len(p):]
		}
	}
	return c
}

type result struct {
	Shapes   []shapeRow          `json:"shapes"`
	Sites    []site              `json:"sites"`
	Fallible map[string][]string `json:"fallible"`
	Indirect []string            `json:"indirect"` // calls of function values returning error (not classified)
	// functions whose assignments to memory are read-side cache fills (not counted in the shapes)
	ReadCaches []string `json:"read_caches"`
}

func die(format string, a ...interface{}) {
	fmt.Fprintf(os.Stderr, "extract-c10: "+format+"\n", a...)
	os.Exit(2)
}

// ---------------------------------------------------------------- loading

type fakeImporter struct {
	repo string
	fset *token.FileSet
	pkgs map[string]*types.Package
}

func (im *fakeImporter) Import(path string) (*types.Package, error) {
	if p, ok := im.pkgs[path]; ok {
		return p, nil
	}
	if path == walletdbPath {
		files := parseDir(im.fset, filepath.Join(im.repo, "walletdb"))
		conf := types.Config{Importer: im, Error: func(error) {}, FakeImportC: true, DisableUnusedImportCheck: true}
		p, _ := conf.Check(path, im.fset, files, nil)
		if p == nil {
			return nil, fmt.Errorf("cannot check walletdb")
		}
		im.pkgs[path] = p
		return p, nil
	}
	name := path[strings.LastIndex(path, "/")+1:]
	if len(name) >= 2 && name[0] == 'v' && name[1] >= '0' && name[1] <= '9' {
		rest := path[:strings.LastIndex(path, "/")]
		name = rest[strings.LastIndex(rest, "/")+1:]
	}
	p := types.NewPackage(path, name)
	p.MarkComplete()
	im.pkgs[path] = p
	return p, nil
}

func parseDir(fset *token.FileSet, dir string) []*ast.File {
	ents, err := os.ReadDir(dir)
	if err != nil {
		die("read %s: %v", dir, err)
	}
	var files []*ast.File
	for _, e := range ents {
		n := e.Name()
		if e.IsDir() || !strings.HasSuffix(n, ".go") || strings.HasSuffix(n, "_test.go") {
			continue
		}
		f, err := parser.ParseFile(fset, filepath.Join(dir, n), nil, parser.ParseComments)
		if err != nil {
			die("parse %s: %v", n, err)
		}
		files = append(files, f)
	}
	if len(files) == 0 {
		die("no Go files in %s", dir)
	}
	return files
}

// ---------------------------------------------------------------- analysis

type analysis struct {
	pkgName  string
	fset     *token.FileSet
	info     *types.Info
	pkg      *types.Package
	files    []*ast.File
	decls    map[*types.Func]*ast.FuncDecl
	fallible map[*types.Func]bool
	sites    []site
	indirect []string

	summaries  map[*types.Func]*memSummary
	readCaches map[string]bool
	resultObjs map[types.Object]bool // the named results of every function
	curCallee  *types.Func           // the callee of the site being classified
}

func isErrorType(t types.Type) bool {
	if t == nil {
		return false
	}
	n, ok := t.(*types.Named)
	return ok && n.Obj().Pkg() == nil && n.Obj().Name() == "error"
}

func lastResultIsError(sig *types.Signature) bool {
	if sig == nil || sig.Results().Len() == 0 {
		return false
	}
	return isErrorType(sig.Results().At(sig.Results().Len() - 1).Type())
}

func (a *analysis) calleeFunc(call *ast.CallExpr) *types.Func {
	var id *ast.Ident
	switch f := ast.Unparen(call.Fun).(type) {
	case *ast.Ident:
		id = f
	case *ast.SelectorExpr:
		id = f.Sel
	default:
		return nil
	}
	if fn, ok := a.info.Uses[id].(*types.Func); ok {
		return fn
	}
	return nil
}

// isPrimitive: a mutating walletdb call (receiver of walletdb interface type,
// or the package-level walletdb.Update / walletdb.Batch).
func (a *analysis) isPrimitive(fn *types.Func) bool {
	if fn == nil || fn.Pkg() == nil || fn.Pkg().Path() != walletdbPath || !primitives[fn.Name()] {
		return false
	}
	sig, _ := fn.Type().(*types.Signature)
	return lastResultIsError(sig)
}

func (a *analysis) funcLitFallible(lit *ast.FuncLit) bool {
	sig, _ := a.info.TypeOf(lit).(*types.Signature)
	if !lastResultIsError(sig) {
		return false
	}
	return a.containsFallible(lit.Body)
}

// callFallible reports whether the error returned by call may stem from a
// write, and a printable callee name.
func (a *analysis) callFallible(call *ast.CallExpr) (bool, string, bool) {
	fn := a.calleeFunc(call)
	sig, _ := a.info.TypeOf(call.Fun).(*types.Signature)
	if !lastResultIsError(sig) {
		return false, "", false
	}
	name := exprString(call.Fun)
	if fn != nil {
		if a.isPrimitive(fn) {
			return true, "walletdb." + recvName(fn) + fn.Name(), true
		}
		if fn.Pkg() == a.pkg && a.fallible[fn] {
			return true, recvName(fn) + fn.Name(), false
		}
	}
	// callback carrying writes
	for _, arg := range call.Args {
		switch x := ast.Unparen(arg).(type) {
		case *ast.FuncLit:
			if a.funcLitFallible(x) {
				return true, name + "(callback)", false
			}
		case *ast.Ident:
			if f, ok := a.info.Uses[x].(*types.Func); ok && f.Pkg() == a.pkg && a.fallible[f] {
				return true, name + "(" + f.Name() + ")", false
			}
		case *ast.SelectorExpr:
			if f, ok := a.info.Uses[x.Sel].(*types.Func); ok && f.Pkg() == a.pkg && a.fallible[f] {
				return true, name + "(" + f.Name() + ")", false
			}
		}
	}
	return false, "", false
}

func recvName(fn *types.Func) string {
	sig, _ := fn.Type().(*types.Signature)
	if sig == nil || sig.Recv() == nil {
		return ""
	}
	t := sig.Recv().Type()
	ptr := ""
	if p, ok := t.(*types.Pointer); ok {
		t = p.Elem()
		ptr = "*"
	}
	if n, ok := t.(*types.Named); ok {
		if ptr != "" {
			return "(*" + n.Obj().Name() + ")."
		}
		return n.Obj().Name() + "."
	}
	return ""
}

func (a *analysis) containsFallible(n ast.Node) bool {
	found := false
	ast.Inspect(n, func(x ast.Node) bool {
		if found {
			return false
		}
		if c, ok := x.(*ast.CallExpr); ok {
			if ok, _, _ := a.callFallible(c); ok {
				found = true
				return false
			}
		}
		return true
	})
	return found
}

func (a *analysis) fixpoint() {
	for changed := true; changed; {
		changed = false
		for fn, d := range a.decls {
			if a.fallible[fn] || d.Body == nil {
				continue
			}
			sig, _ := fn.Type().(*types.Signature)
			if !lastResultIsError(sig) {
				continue
			}
			if a.containsFallible(d.Body) {
				a.fallible[fn] = true
				changed = true
			}
		}
	}
}

// ---------------------------------------------------------------- dispositions

// unit = innermost enclosing function (declaration or literal).
type unit struct {
	name      string
	ftype     *ast.FuncType
	body      *ast.BlockStmt
	errResult bool
	named     map[string]bool // named results of type error
	parent    *unit           // enclosing function, for closures
}

func (a *analysis) mkUnit(name string, ft *ast.FuncType, body *ast.BlockStmt) *unit {
	u := &unit{name: name, ftype: ft, body: body, named: map[string]bool{}}
	if a.resultObjs == nil {
		a.resultObjs = map[types.Object]bool{}
	}
	if ft.Results != nil && len(ft.Results.List) > 0 {
		last := ft.Results.List[len(ft.Results.List)-1]
		if isErrorType(a.info.TypeOf(last.Type)) {
			u.errResult = true
			for _, n := range last.Names {
				u.named[n.Name] = true
				if o := a.info.Defs[n]; o != nil {
					a.resultObjs[o] = true
				}
			}
		}
	}
	return u
}

func exprString(e ast.Expr) string {
	switch x := e.(type) {
	case *ast.Ident:
		return x.Name
	case *ast.SelectorExpr:
		return exprString(x.X) + "." + x.Sel.Name
	case *ast.CallExpr:
		return exprString(x.Fun) + "()"
	case *ast.ParenExpr:
		return exprString(x.X)
	case *ast.IndexExpr:
		return exprString(x.X) + "[]"
	}
	return "?"
}

func mentions(n ast.Node, name string) bool {
	if n == nil {
		return false
	}
	found := false
	ast.Inspect(n, func(x ast.Node) bool {
		if id, ok := x.(*ast.Ident); ok && id.Name == name {
			found = true
		}
		return !found
	})
	return found
}

// mentionsVar: does n mention the variable (the same object when the type
// checker resolved it: an inner `err :=` shadows the outer err)?
func (a *analysis) mentionsVar(n ast.Node, name string, obj types.Object) bool {
	if n == nil {
		return false
	}
	found := false
	ast.Inspect(n, func(x ast.Node) bool {
		if id, ok := x.(*ast.Ident); ok && id.Name == name {
			if obj == nil {
				found = true
			} else if o := a.objOf(id); o == nil || o == obj {
				found = true
			}
		}
		return !found
	})
	return found
}

func (a *analysis) objOf(id *ast.Ident) types.Object {
	if o := a.info.Defs[id]; o != nil {
		return o
	}
	return a.info.Uses[id]
}

func isNilIdent(e ast.Expr) bool {
	id, ok := ast.Unparen(e).(*ast.Ident)
	return ok && id.Name == "nil"
}

// condIsErrNotNil: the condition makes the branch an error branch for v:
// `v != nil`, possibly as an operand of || (a && would make the branch
// conditional on something else, which is still an error branch when taken).
func condIsErrNotNil(c ast.Expr, v string) bool {
	switch x := ast.Unparen(c).(type) {
	case *ast.BinaryExpr:
		switch x.Op {
		case token.NEQ:
			if id, ok := ast.Unparen(x.X).(*ast.Ident); ok && id.Name == v && isNilIdent(x.Y) {
				return true
			}
			if id, ok := ast.Unparen(x.Y).(*ast.Ident); ok && id.Name == v && isNilIdent(x.X) {
				return true
			}
		case token.LOR:
			return condIsErrNotNil(x.X, v) && condIsErrNotNil(x.Y, v) ||
				(condIsErrNotNil(x.X, v) && !mentions(x.Y, v)) || (condIsErrNotNil(x.Y, v) && !mentions(x.X, v))
		case token.LAND:
			// `v != nil && v != pkg.ErrSentinel`: an error branch that
			// exempts one named sentinel value (reported in the detail)
			if condIsErrNotNil(x.X, v) && isSentinelExemption(x.Y, v) {
				return true
			}
		}
	}
	return false
}

func isSentinelExemption(c ast.Expr, v string) bool {
	b, ok := ast.Unparen(c).(*ast.BinaryExpr)
	if !ok || b.Op != token.NEQ {
		return false
	}
	id, ok := ast.Unparen(b.X).(*ast.Ident)
	if !ok || id.Name != v {
		return false
	}
	switch ast.Unparen(b.Y).(type) {
	case *ast.SelectorExpr, *ast.Ident:
		return !isNilIdent(b.Y)
	}
	return false
}

func sentinelOf(c ast.Expr) string {
	if b, ok := ast.Unparen(c).(*ast.BinaryExpr); ok && b.Op == token.LAND {
		if y, ok := ast.Unparen(b.Y).(*ast.BinaryExpr); ok {
			return "error branch exempts " + exprString(y.Y)
		}
	}
	return ""
}

// isLogCall: log.Warnf(..) and friends (the package logger of btcwallet, or the
// standard log / fmt printing functions).
func isLogCall(c *ast.CallExpr) bool {
	sel, ok := ast.Unparen(c.Fun).(*ast.SelectorExpr)
	if !ok {
		return false
	}
	id, ok := ast.Unparen(sel.X).(*ast.Ident)
	if !ok {
		return false
	}
	switch id.Name {
	case "log", "logger":
		return true
	case "fmt":
		return strings.HasPrefix(sel.Sel.Name, "Print") || strings.HasPrefix(sel.Sel.Name, "Fprint")
	}
	return false
}

// verdict on how an error branch (taken when v != nil) ends.
//
//	"ok"               every path that leaves through a return reports an error
//	                   (or the error is stored in a named error result of an
//	                   enclosing function: the deferred-closure idiom)
//	"dropped_return"   the branch returns a nil error without using v
//	"dropped_continue" the branch falls through / continues / breaks without
//	                   using v
//	"logged_return", "logged_continue"  the same, v only handed to a logger
//	"unknown"          anything else
func (a *analysis) errBranch(u *unit, body *ast.BlockStmt, v string) (string, string) {
	logUses, otherUses := 0, 0
	storedInResult := false
	returnsErr, returnsNil, otherExit := 0, 0, 0
	var walk func(n ast.Node, inLog bool)
	walk = func(n ast.Node, inLog bool) {
		ast.Inspect(n, func(x ast.Node) bool {
			switch s := x.(type) {
			case *ast.FuncLit:
				return false
			case *ast.CallExpr:
				if !inLog && isLogCall(s) {
					for _, arg := range s.Args {
						walk(arg, true)
					}
					return false
				}
			case *ast.AssignStmt:
				// retErr = err (named error result of this or an enclosing function)
				if len(s.Lhs) == 1 && len(s.Rhs) == 1 && mentions(s.Rhs[0], v) {
					if id, ok := s.Lhs[0].(*ast.Ident); ok {
						for w := u; w != nil; w = w.parent {
							if w.named[id.Name] {
								storedInResult = true
								return false
							}
						}
					}
				}
			case *ast.ReturnStmt:
				if len(s.Results) == 0 {
					if u.named[v] {
						returnsErr++
					} else if len(u.named) > 0 {
						otherExit++ // bare return of another named error
					} else {
						returnsNil++ // unit has no error result at all
					}
					return false
				}
				last := s.Results[len(s.Results)-1]
				if !u.errResult {
					returnsNil++
					return false
				}
				switch {
				case mentions(last, v):
					returnsErr++
				case isNilIdent(last):
					returnsNil++
				default:
					// a freshly built or package-level error value: the
					// operation still reports an error
					switch ast.Unparen(last).(type) {
					case *ast.CallExpr, *ast.SelectorExpr, *ast.Ident:
						returnsErr++
					default:
						otherExit++
					}
				}
				return false
			case *ast.BranchStmt:
				if s.Tok == token.CONTINUE || s.Tok == token.BREAK || s.Tok == token.GOTO {
					otherExit++
				}
			case *ast.Ident:
				if s.Name == v {
					if inLog {
						logUses++
					} else {
						otherUses++
					}
				}
			}
			return true
		})
	}
	walk(body, false)
	switch {
	case returnsErr > 0 && returnsNil == 0 && otherExit == 0:
		return "ok", ""
	case storedInResult && returnsNil == 0:
		return "ok", "stored in a named error result"
	case otherUses > 0:
		return "unknown", "error branch of unrecognised shape (uses " + v + ")"
	case returnsNil > 0 && returnsErr == 0 && logUses > 0:
		return "logged_return", "error branch logs " + v + " and returns a nil error"
	case returnsNil > 0 && returnsErr == 0:
		return "dropped_return", "error branch returns a nil error without using " + v
	case returnsErr == 0 && logUses > 0:
		return "logged_continue", "error branch logs " + v + " and goes on"
	case returnsErr == 0:
		return "dropped_continue", "error branch leaves without using " + v
	}
	return "unknown", "error branch of unrecognised shape"
}

// path from the unit's body down to the statement containing the call.
type pathEl struct {
	list []ast.Stmt // statement list containing stmt
	idx  int
	stmt ast.Stmt
}

func stmtLists(s ast.Stmt) [][]ast.Stmt {
	switch x := s.(type) {
	case *ast.BlockStmt:
		return [][]ast.Stmt{x.List}
	case *ast.IfStmt:
		out := [][]ast.Stmt{x.Body.List}
		if x.Else != nil {
			out = append(out, []ast.Stmt{x.Else})
		}
		return out
	case *ast.ForStmt:
		return [][]ast.Stmt{x.Body.List}
	case *ast.RangeStmt:
		return [][]ast.Stmt{x.Body.List}
	case *ast.SwitchStmt:
		return [][]ast.Stmt{x.Body.List}
	case *ast.TypeSwitchStmt:
		return [][]ast.Stmt{x.Body.List}
	case *ast.SelectStmt:
		return [][]ast.Stmt{x.Body.List}
	case *ast.CaseClause:
		return [][]ast.Stmt{x.Body}
	case *ast.CommClause:
		return [][]ast.Stmt{x.Body}
	case *ast.LabeledStmt:
		return [][]ast.Stmt{{x.Stmt}}
	}
	return nil
}

func contains(n ast.Node, pos token.Pos) bool { return n.Pos() <= pos && pos < n.End() }

// findPath returns the chain of (list, index) from the outermost list to the
// innermost simple statement holding pos (not descending into function
// literals: those are their own units).
func findPath(list []ast.Stmt, pos token.Pos) []pathEl {
	for i, s := range list {
		if !contains(s, pos) {
			continue
		}
		el := pathEl{list, i, s}
		for _, sub := range stmtLists(s) {
			if p := findPath(sub, pos); p != nil {
				return append([]pathEl{el}, p...)
			}
		}
		return []pathEl{el}
	}
	return nil
}

// scanForward looks at the statements following position (path) for the first
// one that examines variable v.
func (a *analysis) scanForward(u *unit, path []pathEl, v string, obj types.Object) (string, string) {
	leftLoop := 0 // line of the innermost loop the assignment sits in and that was left without finding a use
	res, why := a.scanForward1(u, path, v, obj, &leftLoop)
	if leftLoop > 0 && (res == "assigned_then_checked" || res == "returned") {
		return "dropped_continue", fmt.Sprintf("assigned inside the loop at line %d, examined only after it: overwritten by the next iteration", leftLoop)
	}
	return res, why
}

func (a *analysis) scanForward1(u *unit, path []pathEl, v string, obj types.Object, leftLoop *int) (string, string) {
	for depth := len(path) - 1; depth >= 0; depth-- {
		el := path[depth]
		switch el.stmt.(type) {
		case *ast.CaseClause, *ast.CommClause:
			// the sibling clauses are alternatives, not successors
			continue
		}
		if depth < len(path)-1 {
			// el.stmt contains the assignment: when it is a loop, everything
			// scanned from here on comes after the loop
			switch el.stmt.(type) {
			case *ast.ForStmt, *ast.RangeStmt:
				if *leftLoop == 0 {
					*leftLoop = a.fset.Position(el.stmt.Pos()).Line
				}
			}
		}
		for i := el.idx + 1; i < len(el.list); i++ {
			s := el.list[i]
			if !a.mentionsVar(s, v, obj) {
				continue
			}
			switch x := s.(type) {
			case *ast.IfStmt:
				if x.Init != nil && mentions(x.Init, v) {
					if as, ok := x.Init.(*ast.AssignStmt); ok && assignsTo(as, v) && !rhsMentions(as, v) {
						return "dropped_continue", fmt.Sprintf("%s overwritten at line %d before being examined", v, a.fset.Position(as.Pos()).Line)
					}
					return "unknown", "used in an if-init"
				}
				if condIsErrNotNil(x.Cond, v) {
					verdict, why := a.errBranch(u, x.Body, v)
					if verdict == "ok" {
						return "assigned_then_checked", sentinelOf(x.Cond)
					}
					return verdict, why
				}
				if mentions(x.Cond, v) {
					// e.g. `if err == ErrDuplicateTx { return true, nil }` or
					// `if err == nil && ... {}`: a special case is peeled
					// off, the general error is still pending.
					if mentions(x.Body, v) || (x.Else != nil && mentions(x.Else, v)) {
						if x.Else == nil && condIsErrEqNil(x.Cond, v) {
							// success branch that mentions err? unusual
							return "unknown", "success branch mentions " + v
						}
						return "unknown", "conditional use of " + v
					}
					if why := a.peeledSentinelsDirty(x.Cond, v); why != "" {
						return "unknown", why
					}
					continue
				}
				return "unknown", "nested use of " + v
			case *ast.SwitchStmt:
				verdict, why, pending := a.switchOnErr(u, x, v)
				if pending {
					continue // every clause peels a special value off; the general error is still pending
				}
				return verdict, why
			case *ast.ReturnStmt:
				if len(x.Results) > 0 && mentions(x.Results[len(x.Results)-1], v) && u.errResult {
					return "assigned_then_checked", ""
				}
				return "unknown", "returned in a non-error position"
			case *ast.AssignStmt:
				if assignsTo(x, v) && !rhsMentions(x, v) {
					return "dropped_continue", fmt.Sprintf("%s overwritten at line %d before being examined", v, a.fset.Position(x.Pos()).Line)
				}
				return "unknown", "used in an assignment"
			default:
				// a compound statement that assigns v again in all its
				// branches before reading it would be a drop; anything
				// else that touches v is not understood.
				return "unknown", fmt.Sprintf("used at line %d in an unrecognised statement", a.fset.Position(s.Pos()).Line)
			}
		}
		// end of this list: for a loop body, the next iteration comes first,
		// but the code after the loop is what decides in every loop of these
		// packages; continue with the enclosing list.
	}
	if u.named[v] {
		if obj != nil {
			if _, isResult := a.resultObjs[obj]; !isResult {
				return "dropped_continue", v + " (a variable shadowing the named result) is never examined"
			}
		}
		return "returned", "named result"
	}
	if obj != nil {
		return "dropped_continue", v + " is never examined before its scope ends (a later " + v + " is another variable)"
	}
	return "dropped_continue", v + " is never examined before the function ends"
}

// peeledSentinelsDirty: the condition compares v with package-level error
// values of this package (v == ErrX); says why when one of them can be
// returned by the callee after it has written.
func (a *analysis) peeledSentinelsDirty(c ast.Expr, v string) string {
	why := ""
	ast.Inspect(c, func(n ast.Node) bool {
		b, ok := n.(*ast.BinaryExpr)
		if !ok || b.Op != token.EQL || why != "" {
			return why == ""
		}
		for _, pair := range [][2]ast.Expr{{b.X, b.Y}, {b.Y, b.X}} {
			if id, ok := ast.Unparen(pair[0]).(*ast.Ident); ok && id.Name == v {
				if name := a.sentinelName(pair[1]); name != "" && !strings.Contains(name, ".") {
					if ok, w := a.sentinelClean(a.curCallee, name); !ok {
						why = "compared with " + name + " and turned into success, but " + w
					}
				}
			}
		}
		return true
	})
	return why
}

// switchOnErr classifies `switch v { case ErrX: ..; default: return .., v }`
// (and the tagless form `switch { case v == ErrX: ..; case v != nil: .. }`).
// A clause for nil is the success path.  A clause comparing v with named error
// values peels them off (its body must not use v, and a value of this package
// must be one the callee can only return before it has written anything, see
// sentinelClean; values of other packages are accepted as the `if` form
// accepts them).  The clause taken for every other error - `default`, or
// `case v != nil` - decides; without one the error is still pending after the
// switch.
func (a *analysis) switchOnErr(u *unit, sw *ast.SwitchStmt, v string) (verdict, why string, pending bool) {
	if sw.Init != nil {
		return "unknown", "switch with an init statement", false
	}
	tagged := false
	if sw.Tag != nil {
		id, ok := ast.Unparen(sw.Tag).(*ast.Ident)
		if !ok || id.Name != v {
			return "unknown", fmt.Sprintf("used at line %d in a switch on something else", a.fset.Position(sw.Pos()).Line), false
		}
		tagged = true
	}
	var general *ast.CaseClause
	for _, cl := range sw.Body.List {
		cc, ok := cl.(*ast.CaseClause)
		if !ok {
			return "unknown", "switch clause of unrecognised shape", false
		}
		body := &ast.BlockStmt{List: cc.Body}
		if cc.List == nil { // default
			if general == nil {
				general = cc
			}
			continue
		}
		for _, e := range cc.List {
			switch {
			case tagged && isNilIdent(e):
				if mentions(body, v) {
					return "unknown", "the nil clause uses " + v, false
				}
			case tagged:
				name := a.sentinelName(e)
				if name == "" {
					return "unknown", "switch case that is not a named error value", false
				}
				if mentions(body, v) {
					return "unknown", "the clause for " + name + " uses " + v, false
				}
				if !strings.Contains(name, ".") {
					if ok, w := a.sentinelClean(a.curCallee, name); !ok {
						return "unknown", "case " + name + " turned into success, but " + w, false
					}
				}
			case condIsErrNotNil(e, v):
				if len(cc.List) != 1 {
					return "unknown", "switch case list of unrecognised shape", false
				}
				general = cc
			case condIsErrEqNil(e, v):
				if mentions(body, v) {
					return "unknown", "the nil clause uses " + v, false
				}
			case mentions(e, v):
				if mentions(body, v) {
					return "unknown", "conditional use of " + v, false
				}
				if w := a.peeledSentinelsDirty(e, v); w != "" {
					return "unknown", w, false
				}
			default:
				// a clause about something else: the error is not looked at on that path
				return "unknown", "switch clause that does not look at " + v, false
			}
		}
	}
	if general == nil {
		return "", "", true
	}
	vd, w := a.errBranch(u, &ast.BlockStmt{List: general.Body}, v)
	if vd == "ok" {
		return "assigned_then_checked", "switch: the clause for every other error returns it", false
	}
	return vd, w, false
}

func condIsErrEqNil(c ast.Expr, v string) bool {
	if b, ok := ast.Unparen(c).(*ast.BinaryExpr); ok && b.Op == token.EQL {
		if id, ok := ast.Unparen(b.X).(*ast.Ident); ok && id.Name == v && isNilIdent(b.Y) {
			return true
		}
	}
	return false
}

func assignsTo(as *ast.AssignStmt, v string) bool {
	for _, l := range as.Lhs {
		if id, ok := l.(*ast.Ident); ok && id.Name == v {
			return true
		}
	}
	return false
}

func rhsMentions(as *ast.AssignStmt, v string) bool {
	for _, r := range as.Rhs {
		if mentions(r, v) {
			return true
		}
	}
	return false
}

// errVarOfAssign: which LHS receives the error of call in this assignment.
func errVarOfAssign(lhs []ast.Expr, rhs []ast.Expr, call *ast.CallExpr) (string, bool) {
	if len(rhs) == 1 {
		if ast.Unparen(rhs[0]) != ast.Expr(call) {
			return "", false
		}
		l := lhs[len(lhs)-1]
		if id, ok := l.(*ast.Ident); ok {
			return id.Name, true
		}
		return "", false
	}
	for i, r := range rhs {
		if ast.Unparen(r) == ast.Expr(call) && i < len(lhs) {
			if id, ok := lhs[i].(*ast.Ident); ok {
				return id.Name, true
			}
		}
	}
	return "", false
}

// classify one fallible call inside unit u. parents = ancestors of the call
// inside the unit, innermost last.
func (a *analysis) classify(u *unit, call *ast.CallExpr, parents []ast.Node) (string, string) {
	a.curCallee = a.calleeFunc(call)
	// innermost statement
	var stmt ast.Stmt
	si := -1
	for i := len(parents) - 1; i >= 0; i-- {
		if s, ok := parents[i].(ast.Stmt); ok {
			stmt, si = s, i
			break
		}
	}
	if stmt == nil {
		return "unknown", "no enclosing statement"
	}
	// is the call reached only through wrapper calls / parens from the statement?
	direct := true
	wrapped := false
	for _, p := range parents[si+1:] {
		switch p.(type) {
		case *ast.ParenExpr:
		case *ast.CallExpr:
			wrapped = true
		default:
			direct = false
		}
	}
	if bin := nilComparison(parents[si+1:]); bin != nil {
		return a.comparedWithNil(u, stmt, bin, call, parents[:si])
	}
	switch s := stmt.(type) {
	case *ast.ExprStmt:
		if direct && !wrapped {
			return "dropped_continue", "call used as a statement"
		}
		return "unknown", "inside an expression statement"
	case *ast.DeferStmt:
		return "deferred_drop", "defer: the error of a call that can write is discarded"
	case *ast.GoStmt:
		return "dropped_continue", "go statement"
	case *ast.ReturnStmt:
		if !u.errResult {
			return "dropped_continue", "returned from a function without error result"
		}
		last := s.Results[len(s.Results)-1]
		if contains(last, call.Pos()) && direct {
			return "returned", ""
		}
		return "unknown", "in a return statement but not as the error result"
	case *ast.AssignStmt:
		if !direct || wrapped {
			return "unknown", "nested inside an assignment expression"
		}
		v, ok := errVarOfAssign(s.Lhs, s.Rhs, call)
		if !ok {
			return "unknown", "error assigned to a non-identifier"
		}
		return a.afterAssign(u, s, v, call, parents[:si])
	case *ast.DeclStmt:
		gd, _ := s.Decl.(*ast.GenDecl)
		if gd != nil {
			for _, sp := range gd.Specs {
				vs, ok := sp.(*ast.ValueSpec)
				if !ok || !contains(vs, call.Pos()) {
					continue
				}
				lhs := make([]ast.Expr, len(vs.Names))
				for i, n := range vs.Names {
					lhs[i] = n
				}
				v, ok := errVarOfAssign(lhs, vs.Values, call)
				if !ok {
					return "unknown", "var declaration of unrecognised shape"
				}
				return a.afterAssign(u, s, v, call, parents[:si])
			}
		}
	}
	return "unknown", fmt.Sprintf("inside %T", stmt)
}

// nilComparison: the nodes between the statement and the call are parentheses
// around exactly one comparison of the call's result with nil.
func nilComparison(between []ast.Node) *ast.BinaryExpr {
	var bin *ast.BinaryExpr
	for _, n := range between {
		switch x := n.(type) {
		case *ast.ParenExpr:
		case *ast.BinaryExpr:
			if bin != nil || (x.Op != token.EQL && x.Op != token.NEQ) || !(isNilIdent(x.X) || isNilIdent(x.Y)) {
				return nil
			}
			bin = x
		default:
			return nil
		}
	}
	return bin
}

// boolCond: does cond hold exactly when b is `want`?  (`b`, `!b`, `b == true`...)
func boolCond(cond ast.Expr, b string, want bool) bool {
	switch x := ast.Unparen(cond).(type) {
	case *ast.Ident:
		return x.Name == b && want
	case *ast.UnaryExpr:
		if x.Op == token.NOT {
			return boolCond(x.X, b, !want)
		}
	}
	return false
}

// comparedWithNil classifies `if f() != nil { .. }`, `if f() == nil { .. } else { .. }`
// and `ok := f() == nil` (the error value itself is discarded; what matters is
// whether a return of an error depends on the comparison).
func (a *analysis) comparedWithNil(u *unit, stmt ast.Stmt, bin *ast.BinaryExpr, call *ast.CallExpr, above []ast.Node) (string, string) {
	const none = "\x00no-variable"
	failedWhenTrue := bin.Op == token.NEQ // the comparison is true when the call failed
	verdictOf := func(blk *ast.BlockStmt) (string, string) {
		v, why := a.errBranch(u, blk, none)
		if v == "ok" {
			return "checked_and_returned", "compared with nil; the branch returns an error of its own"
		}
		return v, "compared with nil: " + strings.TrimSpace(strings.ReplaceAll(why, none, "the error"))
	}
	switch s := stmt.(type) {
	case *ast.IfStmt:
		if !contains(s.Cond, call.Pos()) || ast.Unparen(s.Cond) != ast.Expr(bin) {
			return "unknown", "compared with nil inside a larger condition"
		}
		if failedWhenTrue {
			return verdictOf(s.Body)
		}
		if blk, ok := s.Else.(*ast.BlockStmt); ok {
			return verdictOf(blk)
		}
		return "dropped_continue", "compared with nil; the failure case falls through"
	case *ast.AssignStmt:
		if len(s.Lhs) != 1 || len(s.Rhs) != 1 || ast.Unparen(s.Rhs[0]) != ast.Expr(bin) {
			return "unknown", "compared with nil inside an assignment expression"
		}
		id, ok := s.Lhs[0].(*ast.Ident)
		if !ok || id.Name == "_" {
			return "dropped_continue", "compared with nil and the result discarded"
		}
		b := id.Name
		path := findPath(u.body.List, s.Pos())
		for depth := len(path) - 1; depth >= 0; depth-- {
			el := path[depth]
			for i := el.idx + 1; i < len(el.list); i++ {
				st := el.list[i]
				if !mentions(st, b) {
					continue
				}
				if is, ok := st.(*ast.IfStmt); ok && is.Init == nil {
					if boolCond(is.Cond, b, failedWhenTrue) {
						return verdictOf(is.Body)
					}
					if blk, ok := is.Else.(*ast.BlockStmt); ok && boolCond(is.Cond, b, !failedWhenTrue) {
						return verdictOf(blk)
					}
				}
				return "dropped_continue", "only compared with nil (" + b + "); no return of an error depends on it"
			}
		}
		return "dropped_continue", "only compared with nil (" + b + "); never looked at"
	}
	return "unknown", "compared with nil in an unrecognised statement"
}

func (a *analysis) lhsObj(s ast.Stmt, v string) types.Object {
	var obj types.Object
	ast.Inspect(s, func(x ast.Node) bool {
		switch y := x.(type) {
		case *ast.AssignStmt:
			for _, l := range y.Lhs {
				if id, ok := l.(*ast.Ident); ok && id.Name == v && obj == nil {
					obj = a.objOf(id)
				}
			}
			return false
		case *ast.ValueSpec:
			for _, id := range y.Names {
				if id.Name == v && obj == nil {
					obj = a.objOf(id)
				}
			}
			return false
		}
		return obj == nil
	})
	return obj
}

func (a *analysis) afterAssign(u *unit, s ast.Stmt, v string, call *ast.CallExpr, above []ast.Node) (string, string) {
	if v == "_" {
		return "dropped_continue", "error assigned to _"
	}
	obj := a.lhsObj(s, v)
	// if-init form?
	if len(above) > 0 {
		if is, ok := above[len(above)-1].(*ast.IfStmt); ok && is.Init == s {
			if condIsErrNotNil(is.Cond, v) {
				verdict, why := a.errBranch(u, is.Body, v)
				if verdict == "ok" {
					return "checked_and_returned", sentinelOf(is.Cond)
				}
				return verdict, why
			}
			if mentions(is.Cond, v) && !mentions(is.Body, v) && (is.Else == nil || !mentions(is.Else, v)) {
				// special value peeled off (err == ErrX): v stays pending, but a
				// variable declared in the if-init is out of scope afterwards
				if as, ok := s.(*ast.AssignStmt); ok && as.Tok == token.DEFINE {
					return "dropped_continue", "only compared with a special value inside the if statement"
				}
				if why := a.peeledSentinelsDirty(is.Cond, v); why != "" {
					return "unknown", why
				}
				path := findPath(u.body.List, is.Pos())
				if path == nil {
					return "unknown", "if statement not found"
				}
				// the path ends inside the if; cut it at the if statement itself
				for i, el := range path {
					if el.stmt == ast.Stmt(is) {
						path = path[:i+1]
						break
					}
				}
				return a.scanForward(u, path, v, obj)
			}
			return "unknown", "if-init with unrecognised condition"
		}
		switch above[len(above)-1].(type) {
		case *ast.ForStmt, *ast.SwitchStmt, *ast.TypeSwitchStmt:
			return "unknown", "assigned in the header of a for/switch"
		}
	}
	path := findPath(u.body.List, s.Pos())
	if path == nil {
		return "unknown", "statement not found in function body"
	}
	return a.scanForward(u, path, v, obj)
}

// walkUnit visits every call inside body that belongs to this unit (closures
// are visited as their own units).
func (a *analysis) walkUnit(u *unit, file string) {
	var stack []ast.Node
	nlit := 0
	ast.Inspect(u.body, func(n ast.Node) bool {
		if n == nil {
			stack = stack[:len(stack)-1]
			return true
		}
		if lit, ok := n.(*ast.FuncLit); ok {
			nlit++
			sub := a.mkUnit(fmt.Sprintf("%s$%d", u.name, nlit), lit.Type, lit.Body)
			sub.parent = u
			a.walkUnit(sub, file)
			return false
		}
		if call, ok := n.(*ast.CallExpr); ok {
			if ok, callee, prim := a.callFallible(call); ok {
				disp, detail := a.classify(u, call, stack)
				pos := a.fset.Position(call.Pos())
				s := site{Pkg: a.pkgName, Func: u.name, Callee: callee, File: file, Line: pos.Line, Disp: disp, Detail: detail, Prim: prim}
				s.ID = a.pkgName + ":" + u.name + ">" + shortCallee(callee)
				s.Code = dispCode[disp]
				for _, al := range allowList {
					if al.Pkg == s.Pkg && al.Func == s.Func && al.Callee == s.Callee {
						s.Allowed = al.Why
						s.Code = 0
					}
				}
				a.sites = append(a.sites, s)
			} else if sig, _ := a.info.TypeOf(call.Fun).(*types.Signature); lastResultIsError(sig) && a.calleeFunc(call) == nil {
				if _, isLit := ast.Unparen(call.Fun).(*ast.FuncLit); !isLit {
					pos := a.fset.Position(call.Pos())
					a.indirect = append(a.indirect, fmt.Sprintf("%s:%d %s calls function value %s", file, pos.Line, u.name, exprString(call.Fun)))
				}
			}
		}
		stack = append(stack, n)
		return true
	})
}

func analyse(repo, pkgName string) *analysis {
	fset := token.NewFileSet()
	dir := filepath.Join(repo, pkgName)
	files := parseDir(fset, dir)
	im := &fakeImporter{repo: repo, fset: fset, pkgs: map[string]*types.Package{}}
	info := &types.Info{
		Types: map[ast.Expr]types.TypeAndValue{},
		Defs:  map[*ast.Ident]types.Object{},
		Uses:  map[*ast.Ident]types.Object{},
	}
	conf := types.Config{Importer: im, Error: func(error) {}, FakeImportC: true, DisableUnusedImportCheck: true}
	pkg, _ := conf.Check("github.com/btcsuite/btcwallet/"+pkgName, fset, files, info)
	if pkg == nil {
		die("type check of %s produced no package", pkgName)
	}
	if im.pkgs[walletdbPath] == nil {
		die("%s does not import walletdb: nothing to analyse", pkgName)
	}
	a := &analysis{pkgName: pkgName, fset: fset, info: info, pkg: pkg, files: files,
		decls: map[*types.Func]*ast.FuncDecl{}, fallible: map[*types.Func]bool{}}
	for _, f := range files {
		for _, d := range f.Decls {
			if fd, ok := d.(*ast.FuncDecl); ok {
				if fn, ok := info.Defs[fd.Name].(*types.Func); ok {
					a.decls[fn] = fd
				}
			}
		}
	}
	a.fixpoint()
	for _, f := range files {
		fname := pkgName + "/" + filepath.Base(fset.Position(f.Pos()).Filename)
		for _, d := range f.Decls {
			fd, ok := d.(*ast.FuncDecl)
			if !ok || fd.Body == nil {
				continue
			}
			fn, _ := info.Defs[fd.Name].(*types.Func)
			name := fd.Name.Name
			if fn != nil {
				name = recvName(fn) + fd.Name.Name
			}
			a.walkUnit(a.mkUnit(name, fd.Type, fd.Body), fname)
		}
	}
	return a
}

func main() {
	if len(os.Args) != 2 {
		die("usage: extract-c10 <repo>")
	}
	repo := os.Args[1]
	res := result{Fallible: map[string][]string{}}
	for _, p := range []string{"wtxmgr", "waddrmgr"} {
		a := analyse(repo, p)
		nprim := 0
		for _, s := range a.sites {
			if s.Prim {
				nprim++
			}
		}
		if nprim == 0 {
			die("no walletdb write primitive recognised in %s: the receiver types did not resolve", p)
		}
		res.Sites = append(res.Sites, a.sites...)
		res.Indirect = append(res.Indirect, a.indirect...)
		res.Shapes = append(res.Shapes, a.shapes()...)
		for f := range a.readCaches {
			res.ReadCaches = append(res.ReadCaches, p+":"+f)
		}
		var fl []string
		for fn := range a.fallible {
			fl = append(fl, recvName(fn)+fn.Name())
		}
		sort.Strings(fl)
		res.Fallible[p] = fl
	}
	sort.SliceStable(res.Sites, func(i, j int) bool {
		if res.Sites[i].File != res.Sites[j].File {
			return res.Sites[i].File < res.Sites[j].File
		}
		return res.Sites[i].Line < res.Sites[j].Line
	})
	sort.Strings(res.Indirect)
	sort.Strings(res.ReadCaches)
	b, err := json.MarshalIndent(res, "", " ")
	if err != nil {
		die("%v", err)
	}
	os.Stdout.Write(b)
	os.Stdout.Write([]byte("\n"))
}
