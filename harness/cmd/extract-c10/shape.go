package main

// Memory shapes: for every function of the package that can write to the
// database, in which order its writes (W) and its assignments to the
// manager's memory (M) can be executed.  See the comment at the top of
// main.go for the rules.

import (
	"fmt"
	"go/ast"
	"go/token"
	"go/types"
	"os"
	"sort"
	"strings"
)

type memSummary struct {
	// package-level error values the function can return (`return .., ErrX`,
	// directly or through a callee): before any write was executed on the
	// path / after one
	sentClean map[string]bool
	sentDirty map[string]bool
	hasW    bool
	hasM    bool // executed in line
	commitM bool // registered with OnCommit
	bad     bool // some W can follow an M
	detail  string
	busy    bool
	done    bool
}

// methods of types outside the package that change their receiver
var mutatingNames = map[string]bool{
	"Store": true, "Zero": true, "Add": true, "Put": true, "Delete": true, "Remove": true,
	"Set": true, "Reset": true, "Clear": true, "Swap": true, "CompareAndSwap": true, "Purge": true,
}

type shapeState struct {
	memSeen    bool
	wSeen      bool // a database write was executed on this path
	terminated bool
}

type shapeCtx struct {
	a        *analysis
	fn       *types.Func
	recv     string
	alias    map[string]bool
	loops    [][]shapeState // states leaving the current loop bodies through continue / break
	closures map[string]*ast.FuncLit
	deferred []*ast.CallExpr
	sum      *memSummary
	depth    int
}

func (a *analysis) summaryOf(fn *types.Func) *memSummary {
	if a.summaries == nil {
		a.summaries = map[*types.Func]*memSummary{}
	}
	if s, ok := a.summaries[fn]; ok {
		return s // (a cycle sees the partial summary: recursion adds nothing new)
	}
	s := &memSummary{busy: true, sentClean: map[string]bool{}, sentDirty: map[string]bool{}}
	a.summaries[fn] = s
	d := a.decls[fn]
	if d == nil || d.Body == nil {
		s.done = true
		return s
	}
	c := &shapeCtx{a: a, fn: fn, alias: map[string]bool{}, closures: map[string]*ast.FuncLit{}, sum: s}
	if d.Recv != nil && len(d.Recv.List) == 1 && len(d.Recv.List[0].Names) == 1 {
		c.recv = d.Recv.List[0].Names[0].Name
	}
	st := c.block(d.Body.List, shapeState{})
	// deferred calls run when the function exits, last first
	st.terminated = false
	for i := len(c.deferred) - 1; i >= 0; i-- {
		c.call(c.deferred[i], &st)
	}
	s.busy, s.done = false, true
	return s
}

func (c *shapeCtx) pos(n ast.Node) string {
	p := c.a.fset.Position(n.Pos())
	return fmt.Sprintf("%s:%d", p.Filename[strings.LastIndex(p.Filename, "/")+1:], p.Line)
}

func (c *shapeCtx) evW(n ast.Node, st *shapeState, what string) {
	c.sum.hasW = true
	st.wSeen = true
	if st.memSeen && !c.sum.bad {
		c.sum.bad = true
		c.sum.detail = fmt.Sprintf("write (%s) at %s can follow an assignment to memory", what, c.pos(n))
	}
}

func (c *shapeCtx) evM(n ast.Node, st *shapeState) {
	if os.Getenv("C10_SHAPE_DEBUG") != "" {
		fmt.Fprintf(os.Stderr, "M in %s at %s\n", c.fn.Name(), c.pos(n))
	}
	c.sum.hasM = true
	st.memSeen = true
}

// rooted: the expression denotes (part of) an object reached from the receiver.
func (c *shapeCtx) rooted(e ast.Expr) bool {
	switch x := e.(type) {
	case *ast.Ident:
		return x.Name != "_" && (x.Name == c.recv && c.recv != "" || c.alias[x.Name])
	case *ast.SelectorExpr:
		if id, ok := x.X.(*ast.Ident); ok {
			if _, isPkg := c.a.info.Uses[id].(*types.PkgName); isPkg {
				return false
			}
		}
		return c.rooted(x.X)
	case *ast.IndexExpr:
		return c.rooted(x.X)
	case *ast.SliceExpr:
		return c.rooted(x.X)
	case *ast.StarExpr:
		return c.rooted(x.X)
	case *ast.ParenExpr:
		return c.rooted(x.X)
	case *ast.TypeAssertExpr:
		return c.rooted(x.X)
	case *ast.UnaryExpr:
		if x.Op == token.AND {
			return c.rooted(x.X)
		}
	case *ast.CallExpr:
		// the result of a package method called on a rooted object may be
		// (a pointer into) that object; results of foreign methods are fresh
		if sel, ok := ast.Unparen(x.Fun).(*ast.SelectorExpr); ok && c.rooted(sel.X) {
			if fn, ok := c.a.info.Uses[sel.Sel].(*types.Func); ok && fn.Pkg() == c.a.pkg {
				sig, _ := fn.Type().(*types.Signature)
				if sig != nil && sig.Results().Len() > 0 && c.pointsIntoPackage(sig.Results().At(0).Type()) {
					return true
				}
			}
		}
	}
	return false
}

// pointsIntoPackage: a pointer to, or a map / slice of, a named type of the
// package under analysis (an object the manager may hold).
func (c *shapeCtx) pointsIntoPackage(t types.Type) bool {
	switch u := t.(type) {
	case *types.Pointer:
		if n, ok := u.Elem().(*types.Named); ok {
			return n.Obj().Pkg() == c.a.pkg
		}
	case *types.Map:
		return c.pointsIntoPackage(u.Elem())
	case *types.Slice:
		return c.pointsIntoPackage(u.Elem())
	case *types.Named:
		if n, ok := u.Underlying().(*types.Interface); ok && n != nil {
			return u.Obj().Pkg() == c.a.pkg
		}
	}
	return false
}

func (c *shapeCtx) referenceLike(id *ast.Ident) bool {
	t := c.a.info.TypeOf(id)
	if t == nil {
		return true
	}
	switch u := t.Underlying().(type) {
	case *types.Basic:
		return u.Kind() == types.Invalid // foreign types do not resolve: assume a reference
	case *types.Struct, *types.Array:
		return false
	}
	return true
}

func (c *shapeCtx) bind(lhs ast.Expr, rhs ast.Expr) {
	id, ok := lhs.(*ast.Ident)
	if !ok || id.Name == "_" {
		return
	}
	if lit, ok := ast.Unparen(rhs).(*ast.FuncLit); ok {
		c.closures[id.Name] = lit
		return
	}
	if c.rooted(rhs) && c.referenceLike(id) {
		c.alias[id.Name] = true
	}
}

// expr: the events of evaluating e, in source order.
func (c *shapeCtx) expr(e ast.Node, st *shapeState) {
	if e == nil {
		return
	}
	ast.Inspect(e, func(n ast.Node) bool {
		switch x := n.(type) {
		case *ast.FuncLit:
			return false // runs where it is called
		case *ast.CallExpr:
			// arguments first, then the call itself
			for _, arg := range x.Args {
				c.expr(arg, st)
			}
			if sel, ok := ast.Unparen(x.Fun).(*ast.SelectorExpr); ok {
				c.expr(sel.X, st)
			}
			c.call(x, st)
			return false
		}
		return true
	})
}

func hasReadOnlyBucketParam(sig *types.Signature) (readOnly, readWrite bool) {
	for i := 0; i < sig.Params().Len(); i++ {
		t := sig.Params().At(i).Type().String()
		if strings.HasSuffix(t, "walletdb.ReadBucket") || strings.HasSuffix(t, "walletdb.ReadTx") {
			readOnly = true
		}
		if strings.HasSuffix(t, "walletdb.ReadWriteBucket") || strings.HasSuffix(t, "walletdb.ReadWriteTx") {
			readWrite = true
		}
	}
	return
}

func (c *shapeCtx) runClosure(lit *ast.FuncLit, st *shapeState, times int) {
	if c.depth > 6 {
		return
	}
	c.depth++
	for i := 0; i < times; i++ {
		inner := c.block(lit.Body.List, shapeState{memSeen: st.memSeen, wSeen: st.wSeen})
		if inner.memSeen {
			st.memSeen = true
		}
		if inner.wSeen {
			st.wSeen = true
		}
	}
	c.depth--
}

func (c *shapeCtx) call(x *ast.CallExpr, st *shapeState) {
	a := c.a
	fun := ast.Unparen(x.Fun)
	// builtins and zero.Bytes
	if id, ok := fun.(*ast.Ident); ok {
		switch id.Name {
		case "delete", "copy", "clear":
			if len(x.Args) > 0 && c.rooted(x.Args[0]) {
				c.evM(x, st)
			}
			return
		case "panic":
			st.terminated = true
			return
		}
		if lit, ok := c.closures[id.Name]; ok {
			c.runClosure(lit, st, 1)
			return
		}
	}
	if sel, ok := fun.(*ast.SelectorExpr); ok {
		if id, ok := sel.X.(*ast.Ident); ok && id.Name == "zero" {
			if len(x.Args) > 0 && c.rooted(x.Args[0]) {
				c.evM(x, st)
			}
			return
		}
		if sel.Sel.Name == "OnCommit" {
			for _, arg := range x.Args {
				var lit *ast.FuncLit
				switch y := ast.Unparen(arg).(type) {
				case *ast.FuncLit:
					lit = y
				case *ast.Ident:
					lit = c.closures[y.Name]
				}
				if lit != nil {
					probe := &shapeCtx{a: a, fn: c.fn, recv: c.recv, alias: c.alias, closures: c.closures, sum: &memSummary{}}
					probe.block(lit.Body.List, shapeState{})
					if probe.sum.hasM {
						c.sum.commitM = true
					}
					if probe.sum.hasW {
						c.evW(x, st, "inside an OnCommit closure")
					}
				}
			}
			return
		}
	}
	if lit, ok := fun.(*ast.FuncLit); ok {
		c.runClosure(lit, st, 1)
		return
	}
	fn := a.calleeFunc(x)
	switch {
	case fn != nil && a.isPrimitive(fn):
		c.evW(x, st, "walletdb."+fn.Name())
	case fn != nil && fn.Pkg() == a.pkg && a.decls[fn] != nil:
		sum := a.summaryOf(fn)
		if c.sum.sentClean != nil {
			// whatever the callee can return, this function may hand on
			for n := range sum.sentDirty {
				c.sum.sentDirty[n] = true
			}
			for n := range sum.sentClean {
				if st.wSeen {
					c.sum.sentDirty[n] = true
				} else {
					c.sum.sentClean[n] = true
				}
			}
		}
		if sum.bad && !c.sum.bad {
			c.sum.bad = true
			c.sum.detail = "in " + recvName(fn) + fn.Name() + ": " + sum.detail
		}
		if sum.hasW {
			c.evW(x, st, recvName(fn)+fn.Name())
		}
		if sum.commitM {
			c.sum.commitM = true
		}
		sigc, _ := fn.Type().(*types.Signature)
		onManager := true
		if sigc != nil && sigc.Recv() != nil {
			sel, ok := fun.(*ast.SelectorExpr)
			onManager = ok && c.rooted(sel.X)
		}
		if sum.hasM && onManager {
			sig, _ := fn.Type().(*types.Signature)
			ro, rw := false, false
			if sig != nil {
				ro, rw = hasReadOnlyBucketParam(sig)
			}
			if !sum.hasW && ro && !rw {
				a.readCaches[recvName(fn)+fn.Name()] = true // read-side cache fill
			} else {
				c.evM(x, st)
			}
		}
	default:
		// a method of a foreign type on an object of the manager
		if sel, ok := fun.(*ast.SelectorExpr); ok && mutatingNames[sel.Sel.Name] && c.rooted(sel.X) {
			c.evM(x, st)
		}
	}
	// callbacks run inside the call (ForEach and the like), possibly many times
	for _, arg := range x.Args {
		switch y := ast.Unparen(arg).(type) {
		case *ast.FuncLit:
			c.runClosure(y, st, 2)
		case *ast.Ident:
			if lit, ok := c.closures[y.Name]; ok {
				c.runClosure(lit, st, 2)
			}
		}
	}
}

func merge(outs ...shapeState) shapeState {
	res := shapeState{terminated: true}
	for _, o := range outs {
		if o.terminated {
			continue
		}
		res.terminated = false
		if o.memSeen {
			res.memSeen = true
		}
		if o.wSeen {
			res.wSeen = true
		}
	}
	return res
}

// loopBody: one iteration; what comes out is the end of the body or any
// continue / break inside it (a return leaves the function).
func (c *shapeCtx) loopBody(list []ast.Stmt, st shapeState) shapeState {
	if st.terminated {
		return st
	}
	c.loops = append(c.loops, nil)
	out := c.block(list, st)
	exits := c.loops[len(c.loops)-1]
	c.loops = c.loops[:len(c.loops)-1]
	return merge(append(exits, out)...)
}

func (c *shapeCtx) block(list []ast.Stmt, st shapeState) shapeState {
	for _, s := range list {
		if st.terminated {
			break
		}
		st = c.stmt(s, st)
	}
	return st
}

func (c *shapeCtx) stmt(s ast.Stmt, st shapeState) shapeState {
	switch x := s.(type) {
	case *ast.BlockStmt:
		return c.block(x.List, st)
	case *ast.LabeledStmt:
		return c.stmt(x.Stmt, st)
	case *ast.ExprStmt:
		c.expr(x.X, &st)
	case *ast.SendStmt:
		c.expr(x.Value, &st)
	case *ast.IncDecStmt:
		c.expr(x.X, &st)
		if _, plain := x.X.(*ast.Ident); !plain && c.rooted(x.X) {
			c.evM(x, &st)
		}
	case *ast.AssignStmt:
		for _, r := range x.Rhs {
			c.expr(r, &st)
		}
		for i, l := range x.Lhs {
			if _, plain := l.(*ast.Ident); plain {
				switch {
				case len(x.Rhs) == len(x.Lhs):
					c.bind(l, x.Rhs[i])
				case len(x.Rhs) == 1 && i == 0:
					c.bind(l, x.Rhs[0])
				}
				continue
			}
			c.expr(l, &st)
			if c.rooted(l) {
				c.evM(x, &st)
			}
		}
	case *ast.DeclStmt:
		if gd, ok := x.Decl.(*ast.GenDecl); ok {
			for _, sp := range gd.Specs {
				if vs, ok := sp.(*ast.ValueSpec); ok {
					for _, v := range vs.Values {
						c.expr(v, &st)
					}
					for i, n := range vs.Names {
						if i < len(vs.Values) {
							c.bind(n, vs.Values[i])
						}
					}
				}
			}
		}
	case *ast.ReturnStmt:
		for _, r := range x.Results {
			c.expr(r, &st)
		}
		if len(x.Results) > 0 {
			if name := c.a.sentinelName(x.Results[len(x.Results)-1]); name != "" && c.sum.sentClean != nil {
				if st.wSeen {
					c.sum.sentDirty[name] = true
				} else {
					c.sum.sentClean[name] = true
				}
			}
		}
		st.terminated = true
	case *ast.DeferStmt:
		for _, arg := range x.Call.Args {
			c.expr(arg, &st)
		}
		c.deferred = append(c.deferred, x.Call)
	case *ast.GoStmt:
		c.expr(x.Call, &st)
	case *ast.BranchStmt:
		if (x.Tok == token.CONTINUE || x.Tok == token.BREAK) && len(c.loops) > 0 {
			c.loops[len(c.loops)-1] = append(c.loops[len(c.loops)-1], st)
			st.terminated = true
		}
	case *ast.IfStmt:
		if x.Init != nil {
			st = c.stmt(x.Init, st)
		}
		c.expr(x.Cond, &st)
		a := c.block(x.Body.List, st)
		b := st
		if x.Else != nil {
			b = c.stmt(x.Else, st)
		}
		return merge(a, b)
	case *ast.ForStmt:
		if x.Init != nil {
			st = c.stmt(x.Init, st)
		}
		c.expr(x.Cond, &st)
		once := c.loopBody(x.Body.List, st)
		if x.Post != nil && !once.terminated {
			once = c.stmt(x.Post, once)
		}
		twice := c.loopBody(x.Body.List, once)
		return merge(st, once, twice)
	case *ast.RangeStmt:
		c.expr(x.X, &st)
		if c.rooted(x.X) {
			for _, kv := range []ast.Expr{x.Key, x.Value} {
				if id, ok := kv.(*ast.Ident); ok && id.Name != "_" && c.referenceLike(id) {
					c.alias[id.Name] = true
				}
			}
		}
		once := c.loopBody(x.Body.List, st)
		twice := c.loopBody(x.Body.List, once)
		return merge(st, once, twice)
	case *ast.SwitchStmt:
		if x.Init != nil {
			st = c.stmt(x.Init, st)
		}
		c.expr(x.Tag, &st)
		return c.clauses(x.Body, st)
	case *ast.TypeSwitchStmt:
		if x.Init != nil {
			st = c.stmt(x.Init, st)
		}
		if as, ok := x.Assign.(*ast.AssignStmt); ok && len(as.Lhs) == 1 && len(as.Rhs) == 1 {
			c.expr(as.Rhs[0], &st)
			if ta, ok := ast.Unparen(as.Rhs[0]).(*ast.TypeAssertExpr); ok && c.rooted(ta.X) {
				if id, ok := as.Lhs[0].(*ast.Ident); ok {
					c.alias[id.Name] = true
				}
			}
		} else if es, ok := x.Assign.(*ast.ExprStmt); ok {
			c.expr(es.X, &st)
		}
		return c.clauses(x.Body, st)
	case *ast.SelectStmt:
		return c.clauses(x.Body, st)
	}
	return st
}

func (c *shapeCtx) clauses(body *ast.BlockStmt, st shapeState) shapeState {
	outs := []shapeState{}
	hasDefault := false
	for _, cl := range body.List {
		switch y := cl.(type) {
		case *ast.CaseClause:
			if y.List == nil {
				hasDefault = true
			}
			in := st
			for _, e := range y.List {
				c.expr(e, &in)
			}
			outs = append(outs, c.block(y.Body, in))
		case *ast.CommClause:
			if y.Comm == nil {
				hasDefault = true
			}
			in := st
			if y.Comm != nil {
				in = c.stmt(y.Comm, in)
			}
			outs = append(outs, c.block(y.Body, in))
		}
	}
	if !hasDefault {
		outs = append(outs, st)
	}
	return merge(outs...)
}

// sentinelName: e is a package-level variable of error type (of this or of
// another package): the name under which it is tracked, else "".
func (a *analysis) sentinelName(e ast.Expr) string {
	switch x := ast.Unparen(e).(type) {
	case *ast.Ident:
		if v, ok := a.info.Uses[x].(*types.Var); ok && v.Pkg() == a.pkg && v.Parent() == a.pkg.Scope() {
			return x.Name
		}
	case *ast.SelectorExpr:
		if id, ok := x.X.(*ast.Ident); ok {
			if _, isPkg := a.info.Uses[id].(*types.PkgName); isPkg {
				return id.Name + "." + x.Sel.Name
			}
		}
	}
	return ""
}

// sentinelClean: can callee return the sentinel only on paths on which it has
// not written anything yet?  (A comparison `err == Sentinel` that turns the
// error into success is harmless exactly then: the operation has no effect to
// lose.)  Decided on the same abstract execution as the memory shapes: every
// `return .., Sentinel` of the callee and of the package functions it calls is
// looked at together with "was a write executed before on this path".
func (a *analysis) sentinelClean(callee *types.Func, name string) (bool, string) {
	if callee == nil || callee.Pkg() != a.pkg || a.decls[callee] == nil {
		return false, "the callee is not a function of the package"
	}
	sum := a.summaryOf(callee)
	if sum.sentDirty[name] {
		return false, recvName(callee) + callee.Name() + " can return " + name + " after it has written"
	}
	return true, ""
}

func (a *analysis) shapes() []shapeRow {
	a.readCaches = map[string]bool{}
	var rows []shapeRow
	for fn := range a.decls {
		sum := a.summaryOf(fn)
		if !sum.hasW {
			continue
		}
		r := shapeRow{Func: a.pkgName + ":" + recvName(fn) + fn.Name(), Writes: true}
		switch {
		case sum.bad:
			r.Shape, r.Code, r.Detail = "before", 3, sum.detail
		case sum.hasM:
			r.Shape, r.Code = "after", 1
		case sum.commitM:
			r.Shape, r.Code = "at_commit", 2
		default:
			r.Shape, r.Code = "none", 0
		}
		rows = append(rows, r)
	}
	sort.Slice(rows, func(i, j int) bool { return rows[i].Func < rows[j].Func })
	return rows
}
