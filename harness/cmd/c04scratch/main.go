package main

import (
	"bytes"
	"encoding/binary"
	"fmt"
	"os"
	"path/filepath"
	"time"

	"github.com/btcsuite/btcd/btcec/v2"
	"github.com/btcsuite/btcd/btcutil/hdkeychain"
	"github.com/btcsuite/btcd/chaincfg"
	"github.com/btcsuite/btcd/txscript"
	"github.com/btcsuite/btcwallet/snacl"
	"github.com/btcsuite/btcwallet/waddrmgr"
	"github.com/btcsuite/btcwallet/walletdb"
	_ "github.com/btcsuite/btcwallet/walletdb/bdb"
)

var nsKey = []byte("waddrmgr")

func must(err error) {
	if err != nil {
		panic(err)
	}
}

func dump(b walletdb.ReadBucket, indent string) {
	b.ForEach(func(k, v []byte) error {
		if v == nil {
			fmt.Printf("%s[%q / %x]\n", indent, k, k)
			dump(b.NestedReadBucket(k), indent+"  ")
		} else {
			fmt.Printf("%s%x (%q) = %d bytes\n", indent, k, k, len(v))
		}
		return nil
	})
}

func main() {
	dir, _ := os.MkdirTemp("", "c04s")
	defer os.RemoveAll(dir)
	path := filepath.Join(dir, "w.db")
	db, err := walletdb.Create("bdb", path, true, time.Minute, false)
	must(err)
	seed := bytes.Repeat([]byte{7}, 32)
	params := &chaincfg.RegressionNetParams
	root, err := hdkeychain.NewMaster(seed, params)
	must(err)
	pub, priv := []byte("pubpass-XYZ"), []byte("privpass-ABC")
	must(walletdb.Update(db, func(tx walletdb.ReadWriteTx) error {
		ns, err := tx.CreateTopLevelBucket(nsKey)
		if err != nil {
			return err
		}
		return waddrmgr.Create(ns, root, pub, priv, params, &waddrmgr.FastScryptOptions, time.Now())
	}))
	var mgr *waddrmgr.Manager
	must(walletdb.View(db, func(tx walletdb.ReadTx) error {
		var err error
		mgr, err = waddrmgr.Open(tx.ReadBucket(nsKey), pub, params)
		return err
	}))
	must(walletdb.View(db, func(tx walletdb.ReadTx) error { return mgr.Unlock(tx.ReadBucket(nsKey), priv) }))
	sm, err := mgr.FetchScopedKeyManager(waddrmgr.KeyScopeBIP0084)
	must(err)
	script := []byte{0x51, 0x52, 0x93, 0x53, 0x87, 0x01, 0x02, 0x03, 0x04, 0x05, 0x06}
	ikey, _ := btcec.NewPrivateKey()
	leaf := txscript.NewBaseTapLeaf([]byte{0x51, 0x02, 0xaa, 0xbb, 0x75, 0x51})
	ts := &waddrmgr.Tapscript{Type: waddrmgr.TapscriptTypeFullTree,
		ControlBlock: &txscript.ControlBlock{InternalKey: ikey.PubKey()}, Leaves: []txscript.TapLeaf{leaf}}
	var p2sh, tr, wsh waddrmgr.ManagedScriptAddress
	must(walletdb.Update(db, func(tx walletdb.ReadWriteTx) error {
		ns := tx.ReadWriteBucket(nsKey)
		var err error
		p2sh, err = sm.ImportScript(ns, script, &waddrmgr.BlockStamp{})
		if err != nil {
			return err
		}
		wsh, err = sm.ImportWitnessScript(ns, script, &waddrmgr.BlockStamp{}, 0, true)
		if err != nil {
			return err
		}
		tr, err = sm.ImportTaprootScript(ns, ts, &waddrmgr.BlockStamp{}, 1, true)
		return err
	}))
	fmt.Println("p2sh", p2sh.Address(), "wsh", wsh.Address(), "tr", tr.Address())
	rowsScript := func(tag string) {
		walletdb.View(db, func(tx walletdb.ReadTx) error {
			ns := tx.ReadBucket(nsKey)
			sk := make([]byte, 8)
			binary.LittleEndian.PutUint32(sk[0:4], 84)
			ab := ns.NestedReadBucket([]byte("scope")).NestedReadBucket(sk).NestedReadBucket([]byte("addr"))
			ab.ForEach(func(k, v []byte) error {
				typ := v[0]
				raw := v[18:]
				fmt.Printf("%s addr row type=%d rawlen=%d\n", tag, typ, len(raw))
				var encScript []byte
				switch typ {
				case 2:
					hl := binary.LittleEndian.Uint32(raw[0:4])
					sl := binary.LittleEndian.Uint32(raw[4+hl : 8+hl])
					encScript = raw[8+hl : 8+hl+sl]
				case 3, 4:
					hl := binary.LittleEndian.Uint32(raw[2:6])
					sl := binary.LittleEndian.Uint32(raw[6+hl : 10+hl])
					encScript = raw[10+hl : 10+hl+sl]
				}
				fmt.Printf("   encScript len=%d\n", len(encScript))
				if len(encScript) > 0 {
					var zero snacl.CryptoKey
					pt, err := zero.Decrypt(encScript)
					fmt.Printf("   decrypt with ALL-ZERO key: err=%v pt=%x\n", err, pt)
				}
				return nil
			})
			return nil
		})
	}
	rowsScript("before")
	must(walletdb.Update(db, func(tx walletdb.ReadWriteTx) error {
		return mgr.ConvertToWatchingOnly(tx.ReadWriteBucket(nsKey))
	}))
	rowsScript("after-convert")
	mgr.Close()
	must(walletdb.View(db, func(tx walletdb.ReadTx) error {
		var err error
		mgr, err = waddrmgr.Open(tx.ReadBucket(nsKey), pub, params)
		return err
	}))
	walletdb.View(db, func(tx walletdb.ReadTx) error {
		ns := tx.ReadBucket(nsKey)
		fmt.Println("unlock priv:", mgr.Unlock(ns, priv))
		for _, a := range []waddrmgr.ManagedScriptAddress{p2sh, wsh, tr} {
			ma, err := mgr.Address(ns, a.Address())
			if err != nil {
				fmt.Println("address lost", err)
				continue
			}
			s, err := ma.(waddrmgr.ManagedScriptAddress).Script()
			fmt.Printf("%T Script() = %x err=%v\n", ma, s, err)
		}
		dump(ns, "")
		return nil
	})
	db.Close()
}
