// extract-c06 reads the package in <repo>/wallet (go/ast, no type checking)
// and prints, as one JSON object, two facts about the explicit input selection
// of (*Wallet).txToOutputs (the loop over the caller's selected outpoints):
//
//	requires_eligible   every selected outpoint is looked up in the map built
//	                    from findEligibleOutputs' result and a miss returns an
//	                    error;
//	rejects_duplicates  a second occurrence of an outpoint in the selection
//	                    returns an error.
//
//	usage: extract-c06 <repo>
//
// Everything here is syntactic.  A shape that is not understood is never
// guessed: the fact concerned is reported as {"ok": false, "why": ...} and
// lib/extract_c06.py then determines it behaviourally (c06 -probe).  The
// program itself only fails (exit status 2) when the package cannot be parsed
// or txToOutputs does not exist.
//
// Shapes that are recognised:
//
//   - the loop may live in txToOutputs itself or in a function / method of the
//     same package that txToOutputs (transitively, depth <= 3) calls with the
//     selection as an argument; the eligible outputs are then followed through
//     the corresponding argument;
//   - `for _, K := range SEL` and `for i := range SEL { K := SEL[i]; ... }`;
//   - the lookup `e, ok := M[K]` followed by `if !ok { return ..., err }`, or
//     `if e, ok := M[K]; !ok { return ..., err }`, or
//     `if _, ok := M[K]; !ok { return ..., err }` with a later `M[K]` use;
//   - M filled by `for _, v := range E { M[v.OutPoint] = v }` where E is the
//     result of findEligibleOutputs (directly, or handed down as an argument);
//   - duplicate tests inside the loop body (S = another map):
//     A.  delete(M, K)                       after the lookup: a second lookup misses
//     B.  if _, d := S[K]; d { return … }    together with   S[K] = …
//     C.  if S[K] { return … }               together with   S[K] = true
//     (map[OutPoint]struct{} and map[OutPoint]bool alike; any local names).
package main

import (
	"bytes"
	"encoding/json"
	"fmt"
	"go/ast"
	"go/parser"
	"go/printer"
	"go/token"
	"os"
	"path/filepath"
	"sort"
	"strings"
)

type fact struct {
	OK    bool   `json:"ok"`
	Value bool   `json:"value"`
	Why   string `json:"why"`
}

type result struct {
	RequiresEligible  fact   `json:"requires_eligible"`
	RejectsDuplicates fact   `json:"rejects_duplicates"`
	Form              string `json:"form"` // "none" | "delete-from-eligible-map" | "seen-set"
	Loop              string `json:"loop"` // position of the loop
	Func              string `json:"func"` // function holding the loop
	Map               string `json:"map"`  // name of the eligibility map
}

func die(format string, a ...interface{}) {
	fmt.Fprintf(os.Stderr, "extract-c06: "+format+"\n", a...)
	os.Exit(2)
}

var fset = token.NewFileSet()

func show(n ast.Node) string {
	var b bytes.Buffer
	_ = printer.Fprint(&b, fset, n)
	return b.String()
}

func pos(n ast.Node) string {
	p := fset.Position(n.Pos())
	return fmt.Sprintf("%s:%d", filepath.Base(p.Filename), p.Line)
}

func isIdent(e ast.Expr, name string) bool {
	id, ok := e.(*ast.Ident)
	return ok && id.Name == name
}

// indexOf returns (map name, true) when e is `<ident>[key]`.
func indexOf(e ast.Expr, key string) (string, bool) {
	ix, ok := e.(*ast.IndexExpr)
	if !ok || !isIdent(ix.Index, key) {
		return "", false
	}
	id, ok := ix.X.(*ast.Ident)
	if !ok {
		return "", false
	}
	return id.Name, true
}

// returnsError: the block ends by returning, and the last result (the error
// of the enclosing function) is not nil.
func returnsError(b *ast.BlockStmt) bool {
	if b == nil || len(b.List) == 0 {
		return false
	}
	r, ok := b.List[len(b.List)-1].(*ast.ReturnStmt)
	if !ok || len(r.Results) == 0 {
		return false
	}
	return !isIdent(r.Results[len(r.Results)-1], "nil")
}

// ---- the package -------------------------------------------------------

var funcs = map[string]*ast.FuncDecl{} // functions and methods by name

func paramNames(fd *ast.FuncDecl) []string {
	var out []string
	for _, p := range fd.Type.Params.List {
		if len(p.Names) == 0 {
			out = append(out, "_")
		}
		for _, n := range p.Names {
			out = append(out, n.Name)
		}
	}
	return out
}

func calleeName(c *ast.CallExpr) string {
	switch f := c.Fun.(type) {
	case *ast.Ident:
		return f.Name
	case *ast.SelectorExpr:
		return f.Sel.Name
	}
	return ""
}

// fromFind: within fd, is the identifier name assigned from a call of
// findEligibleOutputs?
func fromFind(fd *ast.FuncDecl, name string) bool {
	found := false
	ast.Inspect(fd.Body, func(n ast.Node) bool {
		a, ok := n.(*ast.AssignStmt)
		if !ok || len(a.Lhs) < 1 || len(a.Rhs) != 1 || !isIdent(a.Lhs[0], name) {
			return true
		}
		if call, ok := a.Rhs[0].(*ast.CallExpr); ok && calleeName(call) == "findEligibleOutputs" {
			found = true
		}
		return true
	})
	return found
}

// site is a function that ranges over the selection, with what is known about
// where its eligible outputs come from.
type site struct {
	fd       *ast.FuncDecl
	sel      string          // name of the selection in fd
	eligible map[string]bool // identifiers of fd known to hold findEligibleOutputs' result
	chain    []string
}

func rangesOver(fd *ast.FuncDecl, sel string) []*ast.RangeStmt {
	var loops []*ast.RangeStmt
	ast.Inspect(fd.Body, func(n ast.Node) bool {
		if r, ok := n.(*ast.RangeStmt); ok && isIdent(r.X, sel) {
			loops = append(loops, r)
		}
		return true
	})
	return loops
}

// findSites follows the selection from fd into callees of the same package.
func findSites(fd *ast.FuncDecl, sel string, elig map[string]bool, chain []string, depth int) []site {
	var out []site
	if len(rangesOver(fd, sel)) > 0 {
		out = append(out, site{fd: fd, sel: sel, eligible: elig, chain: chain})
	}
	if depth == 0 {
		return out
	}
	ast.Inspect(fd.Body, func(n ast.Node) bool {
		call, ok := n.(*ast.CallExpr)
		if !ok {
			return true
		}
		callee := funcs[calleeName(call)]
		if callee == nil || callee == fd || callee.Body == nil {
			return true
		}
		names := paramNames(callee)
		if len(names) != len(call.Args) {
			return true
		}
		selIn := ""
		eligIn := map[string]bool{}
		for i, a := range call.Args {
			id, ok := a.(*ast.Ident)
			if !ok {
				continue
			}
			if id.Name == sel {
				selIn = names[i]
			}
			if elig[id.Name] {
				eligIn[names[i]] = true
			}
		}
		if selIn == "" {
			return true
		}
		for k := range eligIn {
			_ = k
		}
		// locals of the callee that are assigned from findEligibleOutputs count too
		out = append(out, findSites(callee, selIn, eligIn, append(append([]string{}, chain...), callee.Name.Name), depth-1)...)
		return true
	})
	return out
}

// ---- the loop ----------------------------------------------------------

type loopInfo struct {
	K         string
	M         string
	sawLookup bool
	sawMiss   bool
	sawAppend bool
	deleteM   bool
	seenTest  map[string]bool
	seenSet   map[string]bool
	unknown   []string // statements not understood
}

func analyseLoop(loop *ast.RangeStmt, sel string) loopInfo {
	li := loopInfo{seenTest: map[string]bool{}, seenSet: map[string]bool{}}
	body := loop.Body.List
	if v, ok := loop.Value.(*ast.Ident); ok && v.Name != "_" {
		li.K = v.Name
	} else if k, ok := loop.Key.(*ast.Ident); ok && k.Name != "_" && len(body) > 0 {
		// for i := range SEL { K := SEL[i]; ...
		if a, ok := body[0].(*ast.AssignStmt); ok && a.Tok == token.DEFINE && len(a.Lhs) == 1 && len(a.Rhs) == 1 {
			if ix, ok := a.Rhs[0].(*ast.IndexExpr); ok && isIdent(ix.X, sel) && isIdent(ix.Index, k.Name) {
				if id, ok := a.Lhs[0].(*ast.Ident); ok {
					li.K = id.Name
					body = body[1:]
				}
			}
		}
	}
	if li.K == "" {
		li.unknown = append(li.unknown, pos(loop)+": the loop does not bind the outpoint")
		return li
	}
	K := li.K
	var okVar, elemVar string
	for _, st := range body {
		switch s := st.(type) {
		case *ast.AssignStmt:
			// e, ok := M[K]   (also with =)
			if len(s.Lhs) == 2 && len(s.Rhs) == 1 {
				if m, ok := indexOf(s.Rhs[0], K); ok && !li.sawLookup {
					e, ok1 := s.Lhs[0].(*ast.Ident)
					o, ok2 := s.Lhs[1].(*ast.Ident)
					if ok1 && ok2 && o.Name != "_" {
						li.M, elemVar, okVar, li.sawLookup = m, e.Name, o.Name, true
						continue
					}
				}
			}
			if s.Tok == token.ASSIGN && len(s.Lhs) == 1 && len(s.Rhs) == 1 {
				// S[K] = …
				if m, ok := indexOf(s.Lhs[0], K); ok {
					li.seenSet[m] = true
					continue
				}
				// acc = append(acc, e)   or   acc = append(acc, M[K])
				if call, ok := s.Rhs[0].(*ast.CallExpr); ok && isIdent(call.Fun, "append") &&
					len(call.Args) == 2 && li.sawLookup && show(call.Args[0]) == show(s.Lhs[0]) {

					if isIdent(call.Args[1], elemVar) && elemVar != "_" {
						li.sawAppend = true
						continue
					}
					if m, ok := indexOf(call.Args[1], K); ok && m == li.M {
						li.sawAppend = true
						continue
					}
				}
			}
			li.unknown = append(li.unknown, pos(s)+": "+show(s))

		case *ast.IfStmt:
			if s.Else != nil {
				li.unknown = append(li.unknown, pos(s)+": if/else")
				continue
			}
			// if !ok { return error }
			if u, ok := s.Cond.(*ast.UnaryExpr); ok && s.Init == nil && u.Op == token.NOT &&
				li.sawLookup && isIdent(u.X, okVar) {

				if !returnsError(s.Body) {
					li.unknown = append(li.unknown, pos(s)+": a miss does not return an error")
					continue
				}
				li.sawMiss = true
				continue
			}
			if a, ok := s.Init.(*ast.AssignStmt); ok && a.Tok == token.DEFINE && len(a.Lhs) == 2 && len(a.Rhs) == 1 {
				if m, ok := indexOf(a.Rhs[0], K); ok {
					d, okd := a.Lhs[1].(*ast.Ident)
					// if e, ok := M[K]; !ok { return error }
					if u, oku := s.Cond.(*ast.UnaryExpr); oku && okd && u.Op == token.NOT && isIdent(u.X, d.Name) &&
						!li.sawLookup && returnsError(s.Body) {

						e, _ := a.Lhs[0].(*ast.Ident)
						li.M, li.sawLookup, li.sawMiss, okVar = m, true, true, d.Name
						if e != nil {
							elemVar = e.Name
						}
						continue
					}
					// if _, d := S[K]; d { return error }
					if okd && isIdent(a.Lhs[0], "_") && isIdent(s.Cond, d.Name) && returnsError(s.Body) {
						li.seenTest[m] = true
						continue
					}
				}
			}
			// if S[K] { return error }
			if m, ok := indexOf(s.Cond, K); ok && s.Init == nil && returnsError(s.Body) {
				li.seenTest[m] = true
				continue
			}
			li.unknown = append(li.unknown, pos(s)+": if "+show(s.Cond))

		case *ast.ExprStmt:
			// delete(M, K)
			if call, ok := s.X.(*ast.CallExpr); ok && isIdent(call.Fun, "delete") && len(call.Args) == 2 &&
				li.sawLookup && li.sawMiss && isIdent(call.Args[0], li.M) && isIdent(call.Args[1], K) {

				li.deleteM = true
				continue
			}
			li.unknown = append(li.unknown, pos(s)+": "+show(s))

		default:
			li.unknown = append(li.unknown, pos(st)+": "+strings.SplitN(show(st), "\n", 2)[0])
		}
	}
	return li
}

// filledFrom returns the identifier E of `for _, v := range E { M[v.OutPoint] = v }`.
func filledFrom(fd *ast.FuncDecl, M string) string {
	src := ""
	ast.Inspect(fd.Body, func(n ast.Node) bool {
		r, ok := n.(*ast.RangeStmt)
		if !ok || len(r.Body.List) != 1 {
			return true
		}
		a, ok := r.Body.List[0].(*ast.AssignStmt)
		if !ok || len(a.Lhs) != 1 || len(a.Rhs) != 1 {
			return true
		}
		ix, ok := a.Lhs[0].(*ast.IndexExpr)
		if !ok || !isIdent(ix.X, M) {
			return true
		}
		x, okx := r.X.(*ast.Ident)
		if v, ok := r.Value.(*ast.Ident); ok && okx && show(ix.Index) == v.Name+".OutPoint" && isIdent(a.Rhs[0], v.Name) {
			src = x.Name
		}
		// for i := range E { M[E[i].OutPoint] = E[i] }
		if k, ok := r.Key.(*ast.Ident); ok && okx && r.Value == nil {
			el := x.Name + "[" + k.Name + "]"
			if show(ix.Index) == el+".OutPoint" && show(a.Rhs[0]) == el {
				src = x.Name
			}
		}
		return true
	})
	return src
}

func main() {
	if len(os.Args) != 2 {
		die("usage: extract-c06 <repo>")
	}
	dir := filepath.Join(os.Args[1], "wallet")
	pkgs, err := parser.ParseDir(fset, dir, func(fi os.FileInfo) bool {
		return !strings.HasSuffix(fi.Name(), "_test.go")
	}, 0)
	if err != nil {
		die("parse %s: %v", dir, err)
	}
	pkg := pkgs["wallet"]
	if pkg == nil {
		die("%s: package wallet not found", dir)
	}
	var names []string
	for n := range pkg.Files {
		names = append(names, n)
	}
	sort.Strings(names)
	for _, n := range names {
		for _, d := range pkg.Files[n].Decls {
			if fd, ok := d.(*ast.FuncDecl); ok && fd.Body != nil {
				if _, dup := funcs[fd.Name.Name]; dup {
					funcs[fd.Name.Name] = nil // ambiguous: never followed
					continue
				}
				funcs[fd.Name.Name] = fd
			}
		}
	}
	fn := funcs["txToOutputs"]
	if fn == nil || fn.Recv == nil {
		die("%s: method txToOutputs not found", dir)
	}
	res := result{Form: "none"}
	no := func(why string) {
		res.RequiresEligible = fact{Why: why}
		res.RejectsDuplicates = fact{Why: why}
		out, _ := json.Marshal(res)
		fmt.Println(string(out))
		os.Exit(0)
	}
	// the parameter that carries the selection
	selParam := ""
	for _, p := range fn.Type.Params.List {
		if show(p.Type) == "[]wire.OutPoint" {
			if len(p.Names) != 1 || selParam != "" {
				no("txToOutputs: expected exactly one []wire.OutPoint parameter")
			}
			selParam = p.Names[0].Name
		}
	}
	if selParam == "" {
		no("txToOutputs: no []wire.OutPoint parameter (explicit selection)")
	}
	elig := map[string]bool{}
	ast.Inspect(fn.Body, func(n ast.Node) bool {
		if a, ok := n.(*ast.AssignStmt); ok && len(a.Rhs) == 1 && len(a.Lhs) >= 1 {
			if call, ok := a.Rhs[0].(*ast.CallExpr); ok && calleeName(call) == "findEligibleOutputs" {
				if id, ok := a.Lhs[0].(*ast.Ident); ok {
					elig[id.Name] = true
				}
			}
		}
		return true
	})
	sites := findSites(fn, selParam, elig, []string{"txToOutputs"}, 3)
	if len(sites) != 1 {
		no(fmt.Sprintf("expected exactly one function ranging over the selection %s (txToOutputs or a callee of the package), found %d", selParam, len(sites)))
	}
	st := sites[0]
	loops := rangesOver(st.fd, st.sel)
	if len(loops) != 1 {
		no(fmt.Sprintf("%s: expected exactly one loop over %s, found %d", st.fd.Name.Name, st.sel, len(loops)))
	}
	loop := loops[0]
	res.Loop = pos(loop)
	res.Func = strings.Join(st.chain, " -> ")
	li := analyseLoop(loop, st.sel)
	res.Map = li.M
	if len(li.unknown) > 0 {
		no("statement in the selection loop not recognised: " + strings.Join(li.unknown, "; "))
	}
	if !li.sawLookup || !li.sawMiss || !li.sawAppend {
		no(fmt.Sprintf("%s: selection loop lacks lookup (%v), refusal of a miss (%v) or accumulation (%v)",
			res.Loop, li.sawLookup, li.sawMiss, li.sawAppend))
	}
	// M must be filled from the eligible outputs
	src := filledFrom(st.fd, li.M)
	switch {
	case src == "":
		res.RequiresEligible = fact{Why: fmt.Sprintf("%s: the map %s is not filled from the eligible outputs in a recognised way", st.fd.Name.Name, li.M)}
	case st.eligible[src] || fromFind(st.fd, src):
		res.RequiresEligible = fact{OK: true, Value: true,
			Why: fmt.Sprintf("%s: a miss in %s (filled from %s = findEligibleOutputs) returns an error", res.Loop, li.M, src)}
	default:
		res.RequiresEligible = fact{Why: fmt.Sprintf("%s: %s (source of the map %s) is not known to be the result of findEligibleOutputs", st.fd.Name.Name, src, li.M)}
	}
	// duplicates
	switch {
	case li.deleteM:
		res.RejectsDuplicates, res.Form = fact{OK: true, Value: true, Why: "delete(" + li.M + ", " + li.K + ") after the lookup"}, "delete-from-eligible-map"
	default:
		bad := ""
		hit := ""
		for s := range li.seenTest {
			if s != li.M && li.seenSet[s] {
				hit = s
			} else {
				bad = fmt.Sprintf("%s: test on %s[%s] without the matching insertion", res.Loop, s, li.K)
			}
		}
		for s := range li.seenSet {
			if !li.seenTest[s] {
				bad = fmt.Sprintf("%s: insertion into %s[%s] without the matching test", res.Loop, s, li.K)
			}
		}
		switch {
		case bad != "":
			res.RejectsDuplicates = fact{Why: bad}
		case hit != "":
			res.RejectsDuplicates, res.Form = fact{OK: true, Value: true, Why: "seen-set " + hit}, "seen-set"
		default:
			res.RejectsDuplicates = fact{OK: true, Value: false, Why: "no duplicate test in the loop"}
		}
	}
	out, _ := json.Marshal(res)
	fmt.Println(string(out))
}
