// extract-c06 reads wallet/createtx.go (go/ast, no type checking) and prints,
// as one JSON object, two facts about the explicit input selection of
// (*Wallet).txToOutputs (the loop `for _, outpoint := range selectedUtxos`):
//
//	requires_eligible   every selected outpoint is looked up in the map built
//	                    from findEligibleOutputs' result and a miss returns an
//	                    error (always true when the program succeeds: any other
//	                    shape is refused);
//	rejects_duplicates  a second occurrence of an outpoint in the selection
//	                    returns an error.
//
//	usage: extract-c06 <repo>
//
// Everything here is syntactic.  The program refuses (exit status 2, message
// on stderr) every shape it does not understand instead of guessing.
//
// Shapes of a duplicate test that are recognised inside the loop body
// (K = the range variable, M = the eligibility map, S = another map):
//
//	A.  delete(M, K)                       after the lookup: a second lookup misses
//	B.  if _, d := S[K]; d { return … }    together with   S[K] = …
//	C.  if S[K] { return … }               together with   S[K] = true
package main

import (
	"bytes"
	"encoding/json"
	"fmt"
	"go/ast"
	"go/parser"
	"go/printer"
	"go/token"
	"os"
	"path/filepath"
)

type result struct {
	RequiresEligible  bool   `json:"requires_eligible"`
	RejectsDuplicates bool   `json:"rejects_duplicates"`
	Form              string `json:"form"` // "none" | "delete-from-eligible-map" | "seen-set"
	Loop              string `json:"loop"` // position of the loop
	Map               string `json:"map"`  // name of the eligibility map
}

func die(format string, a ...interface{}) {
	fmt.Fprintf(os.Stderr, "extract-c06: "+format+"\n", a...)
	os.Exit(2)
}

var fset = token.NewFileSet()

func show(n ast.Node) string {
	var b bytes.Buffer
	_ = printer.Fprint(&b, fset, n)
	return b.String()
}

func isIdent(e ast.Expr, name string) bool {
	id, ok := e.(*ast.Ident)
	return ok && id.Name == name
}

// indexOf returns (map name, true) when e is `<ident>[key]`.
func indexOf(e ast.Expr, key string) (string, bool) {
	ix, ok := e.(*ast.IndexExpr)
	if !ok || !isIdent(ix.Index, key) {
		return "", false
	}
	id, ok := ix.X.(*ast.Ident)
	if !ok {
		return "", false
	}
	return id.Name, true
}

// returnsError: the block ends by returning a call of fmt.Errorf / errors.New
// (or any non-nil expression) as its only result.
func returnsError(b *ast.BlockStmt) bool {
	if b == nil || len(b.List) == 0 {
		return false
	}
	r, ok := b.List[len(b.List)-1].(*ast.ReturnStmt)
	if !ok || len(r.Results) != 1 {
		return false
	}
	return !isIdent(r.Results[0], "nil")
}

func main() {
	if len(os.Args) != 2 {
		die("usage: extract-c06 <repo>")
	}
	path := filepath.Join(os.Args[1], "wallet", "createtx.go")
	f, err := parser.ParseFile(fset, path, nil, 0)
	if err != nil {
		die("parse %s: %v", path, err)
	}
	var fn *ast.FuncDecl
	for _, d := range f.Decls {
		if fd, ok := d.(*ast.FuncDecl); ok && fd.Name.Name == "txToOutputs" && fd.Recv != nil {
			fn = fd
		}
	}
	if fn == nil {
		die("%s: method txToOutputs not found", path)
	}
	// the parameter that carries the selection
	selParam := ""
	for _, p := range fn.Type.Params.List {
		if show(p.Type) == "[]wire.OutPoint" {
			if len(p.Names) != 1 || selParam != "" {
				die("txToOutputs: expected exactly one []wire.OutPoint parameter")
			}
			selParam = p.Names[0].Name
		}
	}
	if selParam == "" {
		die("txToOutputs: no []wire.OutPoint parameter (explicit selection)")
	}
	var loops []*ast.RangeStmt
	ast.Inspect(fn.Body, func(n ast.Node) bool {
		if r, ok := n.(*ast.RangeStmt); ok && isIdent(r.X, selParam) {
			loops = append(loops, r)
		}
		return true
	})
	if len(loops) != 1 {
		die("txToOutputs: expected exactly one loop over %s, found %d", selParam, len(loops))
	}
	loop := loops[0]
	key, ok := loop.Value.(*ast.Ident)
	if !ok || key.Name == "_" {
		die("%s: the loop over %s does not bind the outpoint", fset.Position(loop.Pos()), selParam)
	}
	K := key.Name

	res := result{Form: "none", Loop: fset.Position(loop.Pos()).String()}
	var (
		M         string // eligibility map
		okVar     string // the comma-ok variable of the lookup
		elemVar   string // the looked-up credit
		sawLookup bool
		sawMiss   bool
		sawAppend bool
		deleteM   bool
		seenTest  = map[string]bool{} // S -> a test `S[K]` that returns an error was seen
		seenSet   = map[string]bool{} // S -> an assignment S[K] = … was seen
	)
	for _, st := range loop.Body.List {
		switch s := st.(type) {
		case *ast.AssignStmt:
			// e, ok := M[K]
			if s.Tok == token.DEFINE && len(s.Lhs) == 2 && len(s.Rhs) == 1 {
				if m, ok := indexOf(s.Rhs[0], K); ok && !sawLookup {
					e, ok1 := s.Lhs[0].(*ast.Ident)
					o, ok2 := s.Lhs[1].(*ast.Ident)
					if !ok1 || !ok2 || e.Name == "_" || o.Name == "_" {
						die("%s: lookup shape not recognised: %s", fset.Position(s.Pos()), show(s))
					}
					M, elemVar, okVar, sawLookup = m, e.Name, o.Name, true
					continue
				}
			}
			// S[K] = …
			if s.Tok == token.ASSIGN && len(s.Lhs) == 1 && len(s.Rhs) == 1 {
				if m, ok := indexOf(s.Lhs[0], K); ok {
					seenSet[m] = true
					continue
				}
				// acc = append(acc, e)
				if call, ok := s.Rhs[0].(*ast.CallExpr); ok && isIdent(call.Fun, "append") &&
					len(call.Args) == 2 && sawLookup && isIdent(call.Args[1], elemVar) &&
					show(call.Args[0]) == show(s.Lhs[0]) {

					sawAppend = true
					continue
				}
			}
			die("%s: statement in the selection loop not recognised: %s", fset.Position(s.Pos()), show(s))

		case *ast.IfStmt:
			if s.Else != nil {
				die("%s: if/else in the selection loop not recognised", fset.Position(s.Pos()))
			}
			// if !ok { return error }
			if u, ok := s.Cond.(*ast.UnaryExpr); ok && s.Init == nil && u.Op == token.NOT &&
				sawLookup && isIdent(u.X, okVar) {

				if !returnsError(s.Body) {
					die("%s: a selected outpoint that is not eligible does not return an error", fset.Position(s.Pos()))
				}
				sawMiss = true
				continue
			}
			// if _, d := S[K]; d { return error }
			if a, ok := s.Init.(*ast.AssignStmt); ok && a.Tok == token.DEFINE && len(a.Lhs) == 2 && len(a.Rhs) == 1 {
				if m, ok := indexOf(a.Rhs[0], K); ok && isIdent(a.Lhs[0], "_") {
					if d, ok := a.Lhs[1].(*ast.Ident); ok && isIdent(s.Cond, d.Name) && returnsError(s.Body) {
						seenTest[m] = true
						continue
					}
				}
			}
			// if S[K] { return error }
			if m, ok := indexOf(s.Cond, K); ok && s.Init == nil && returnsError(s.Body) {
				seenTest[m] = true
				continue
			}
			die("%s: test in the selection loop not recognised: %s", fset.Position(s.Pos()), show(s.Cond))

		case *ast.ExprStmt:
			// delete(M, K)
			if call, ok := s.X.(*ast.CallExpr); ok && isIdent(call.Fun, "delete") && len(call.Args) == 2 &&
				sawLookup && sawMiss && isIdent(call.Args[0], M) && isIdent(call.Args[1], K) {

				deleteM = true
				continue
			}
			die("%s: statement in the selection loop not recognised: %s", fset.Position(s.Pos()), show(s))

		default:
			die("%s: statement in the selection loop not recognised: %s", fset.Position(st.Pos()), show(st))
		}
	}
	if !sawLookup || !sawMiss || !sawAppend {
		die("%s: selection loop lacks lookup (%v), refusal of a miss (%v) or accumulation (%v)",
			res.Loop, sawLookup, sawMiss, sawAppend)
	}
	// M must be filled from the eligible outputs: `M[e.OutPoint] = e` in a
	// loop over the result of findEligibleOutputs.
	filled := false
	ast.Inspect(fn.Body, func(n ast.Node) bool {
		r, ok := n.(*ast.RangeStmt)
		if !ok || len(r.Body.List) != 1 {
			return true
		}
		a, ok := r.Body.List[0].(*ast.AssignStmt)
		if !ok || len(a.Lhs) != 1 || len(a.Rhs) != 1 {
			return true
		}
		ix, ok := a.Lhs[0].(*ast.IndexExpr)
		if !ok || !isIdent(ix.X, M) {
			return true
		}
		v, ok := r.Value.(*ast.Ident)
		if ok && show(ix.Index) == v.Name+".OutPoint" && isIdent(a.Rhs[0], v.Name) && isIdent(r.X, "eligible") {
			filled = true
		}
		return true
	})
	if !filled {
		die("txToOutputs: the map %s is not filled from the eligible outputs in the recognised way", M)
	}
	// `eligible` must come from findEligibleOutputs
	fromFind := false
	ast.Inspect(fn.Body, func(n ast.Node) bool {
		a, ok := n.(*ast.AssignStmt)
		if !ok || len(a.Lhs) != 2 || len(a.Rhs) != 1 || !isIdent(a.Lhs[0], "eligible") {
			return true
		}
		if call, ok := a.Rhs[0].(*ast.CallExpr); ok {
			if sel, ok := call.Fun.(*ast.SelectorExpr); ok && sel.Sel.Name == "findEligibleOutputs" {
				fromFind = true
			}
		}
		return true
	})
	if !fromFind {
		die("txToOutputs: `eligible` is not the result of findEligibleOutputs")
	}
	res.RequiresEligible = true
	res.Map = M
	switch {
	case deleteM:
		res.RejectsDuplicates, res.Form = true, "delete-from-eligible-map"
	default:
		for s := range seenTest {
			if s != M && seenSet[s] {
				res.RejectsDuplicates, res.Form = true, "seen-set"
			}
		}
		for s := range seenTest {
			if !(s != M && seenSet[s]) {
				die("%s: test on %s[%s] without the matching insertion", res.Loop, s, K)
			}
		}
		for s := range seenSet {
			if !seenTest[s] {
				die("%s: insertion into %s[%s] without the matching test", res.Loop, s, K)
			}
		}
	}
	out, _ := json.Marshal(res)
	fmt.Println(string(out))
}
