// c20 drives a REAL wallet (wallet.Wallet over bbolt, regtest) against the
// simulated backend (internal/simchain) through scripted wallet-level
// histories and reports, per case, what the wallet said before and after
// every broadcast attempt.
//
// Property C20: a failed broadcast (backend rejection, or the hand-over fails
// because the NotifyReceived subscription fails) leaves no trace; a
// transaction the backend already has in its mempool stays recorded and is
// counted once; after every (re)synchronisation each still-unconfirmed wallet
// transaction is offered again, parents before children.
//
// The backend's answers (answers.go): every exported error sentinel of
// package chain (list regenerated from the source, c20_sentinels.json), plain
// and wrapped with %w, an error that is no sentinel, and raw node replies
// that go through the REAL SendRawTransaction + MapRPCErr of
// chain.BitcoindClient / chain.RPCClient / chain.NeutrinoClient (wire.go).
// The oracle is stated on what the backend MEANT (the truth of the answer)
// and on what the caller got, never on btcwallet's own classification.
// Cases with "map" in their input run only the error mapping (mapping.go).
//
// One JSON object per case: {"in": script, "obs": universe + events with the
// wallet's observations, "oracle": violation kinds, "tags": .., "site": ..}.
package main

import (
	"encoding/json"
	"errors"
	"flag"
	"fmt"
	"os"
	"sort"
	"sync"
	"time"

	"github.com/btcsuite/btcd/btcutil"
	"github.com/btcsuite/btcd/chaincfg/chainhash"
	"github.com/btcsuite/btcd/txscript"
	"github.com/btcsuite/btcd/wire"
	"github.com/btcsuite/btcwallet/chain"
	"github.com/btcsuite/btcwallet/waddrmgr"
	"github.com/btcsuite/btcwallet/wallet"
	"github.com/btcsuite/btcwallet/walletdb"
	"github.com/btcsuite/btcwallet/wtxmgr"

	"verifharness/internal/core"
	"verifharness/internal/gen"
	"verifharness/internal/simchain"
	"verifharness/internal/walletenv"
)

// ---------------------------------------------------------------- script

// opIn is one step of a case script.  Amounts and choices are intentions:
// what they resolve to depends on the wallet state, which is deterministic
// for a given script (up to the random position of the change output).
type opIn struct {
	K       string   `json:"k"` // fund recv mine confirm publish send republish lease resend restart
	Amts    []int64  `json:"amts,omitempty"`
	Amt     int64    `json:"amt,omitempty"`     // publish/send: payment; 0 = Pct of the spendable balance
	Pct     int      `json:"pct,omitempty"`     // publish/send: percentage of balance(minconf)
	Minconf int32    `json:"minconf,omitempty"` // publish/send
	Ans     string   `json:"ans,omitempty"`     // accept in_mempool known confirmed reject s:<Name> w:<Name> r:<flavour>:<truth>:<code>:<text> (answers.go)
	NFail   bool     `json:"nfail,omitempty"`   // the hand-over's NotifyReceived fails
	NFailC  bool     `json:"nfailc,omitempty"`  // send: the first NotifyReceived of the call fails
	Own     []int64  `json:"own,omitempty"`     // publish/send: additional outputs paying fresh addresses of the wallet itself
	Lease   bool     `json:"lease,omitempty"`   // publish: lease the inputs before publishing
	Which   string   `json:"which,omitempty"`   // republish: unconf conf forgotten
	Pick    int      `json:"pick,omitempty"`    // republish / lease / confirm: choice index
	N       int      `json:"n,omitempty"`       // confirm: how many
	Answers []string `json:"answers,omitempty"` // resend / restart: answer per offered tx
	Mode    string   `json:"mode,omitempty"`    // restart: resend | sync
}

type caseIn struct {
	Seed int64  `json:"seed"`
	Ops  []opIn `json:"ops,omitempty"`
	// Map != "": not a wallet history but the error mapping of one backend
	// flavour run over every key of the regenerated tables (mapping.go)
	Map string `json:"map,omitempty"`
}

// ---------------------------------------------------------------- output

type txOut struct {
	ID       uint64      `json:"id"`
	Ins      [][2]uint64 `json:"ins"`
	Outs     []int64     `json:"outs"`
	Creds    [][2]uint64 `json:"creds"` // index, change flag
	Coinbase bool        `json:"coinbase"`
}

type utxoOut struct {
	Op  [2]uint64 `json:"op"`
	Amt int64     `json:"amt"`
	H   int32     `json:"h"`
	B   uint64    `json:"b"`
	CB  bool      `json:"cb"`
}

type snapshot struct {
	Sync    int32     `json:"sync"`
	Bal     []int64   `json:"bal"` // CalculateBalance for minconfs
	Utxos   []utxoOut `json:"utxos"`
	Unmined []uint64  `json:"unmined"`
}

type evOut struct {
	K       string    `json:"k"` // confirm seen lease publish resend nop
	T       uint64    `json:"t,omitempty"`
	H       int32     `json:"h,omitempty"`
	B       uint64    `json:"b,omitempty"`
	LID     uint64    `json:"lid,omitempty"`
	Op      [2]uint64 `json:"op,omitempty"`
	Dur     int64     `json:"dur,omitempty"`
	Ans     string    `json:"ans,omitempty"`   // the answer as the model sees it (modelAnswer)
	Truth   string    `json:"truth,omitempty"` // what the backend meant
	Sent    string    `json:"sent,omitempty"`  // the scripted answer (string form)
	NOK     bool      `json:"nok,omitempty"`
	Offered []uint64  `json:"offered,omitempty"`
	Answers []string  `json:"answers,omitempty"`
	Truths  []string  `json:"truths,omitempty"`
	Sents   []string  `json:"sents,omitempty"` // resend: the scripted answers (string form) per offer
	Res     int       `json:"res"`             // 0 n/a, 1 success, 2 error
	Src     string    `json:"src"`             // script op that produced the event
	OpIdx   int       `json:"opidx"`
	Obs     snapshot  `json:"obs"`
}

type obsOut struct {
	Universe []txOut  `json:"universe"`
	Minconfs []int32  `json:"minconfs"`
	Events   []evOut  `json:"events"`
	Mapping  []mapRow `json:"mapping,omitempty"`
}

type caseOut struct {
	In     caseIn   `json:"in"`
	Obs    obsOut   `json:"obs"`
	Oracle []string `json:"oracle"`
	Detail []string `json:"detail,omitempty"` // kind@op-index: explanation
	Tags   []string `json:"tags"`
	Site   string   `json:"site"`
}

var minconfs = []int32{0, 1, 6}

// ---------------------------------------------------------------- backend wrapper

// backend wraps the simulated chain: it answers SendRawTransaction as
// scripted (answers.go: sentinels, wrapped sentinels, raw node replies through
// the real chain clients of wire.go), records every call under its own lock
// (the wallet's resend goroutine runs concurrently after a
// resynchronisation) and lets a script pass a given number of NotifyReceived
// calls before simchain's NotifyFail applies (SendOutputs subscribes once
// while creating the transaction and once in the hand-over).
type backend struct {
	*simchain.Chain
	mu         sync.Mutex
	next       []ansSpec // consumed front first; empty = accept
	sent       []sentRec
	notifyPass int // upcoming NotifyReceived calls answered ok before NotifyFail is consulted
	notifyN    int // calls seen
	sendErr    error
	// probe hooks (extract fallback): called on entry, outside the lock
	hookNotify func()
	hookSend   func(tx *wire.MsgTx)
}

type sentRec struct {
	hash  chainhash.Hash
	tx    *wire.MsgTx
	spec  ansSpec
	model string // modelAnswer
}

func (b *backend) SendRawTransaction(tx *wire.MsgTx, allowHighFees bool) (*chainhash.Hash, error) {
	if b.hookSend != nil {
		b.hookSend(tx)
	}
	b.mu.Lock()
	defer b.mu.Unlock()
	spec := ansSpec{src: "accept", kind: "accept", truth: "accept"}
	if len(b.next) > 0 {
		spec = b.next[0]
		b.next = b.next[1:]
	}
	h := tx.TxHash()
	var err error
	switch spec.kind {
	case "accept":
		b.Chain.Mempool[h] = tx
	case "raw":
		err = wires.send(spec.flavour, spec.reply, tx)
	default:
		err = errorOf(spec)
	}
	model, merr := modelAnswer(spec, err)
	if merr != nil && b.sendErr == nil {
		b.sendErr = merr
	}
	b.sent = append(b.sent, sentRec{h, tx, spec, model})
	if err != nil {
		return nil, err
	}
	return &h, nil
}

func (b *backend) NotifyReceived(addrs []btcutil.Address) error {
	if b.hookNotify != nil {
		b.hookNotify()
	}
	b.mu.Lock()
	defer b.mu.Unlock()
	b.notifyN++
	if b.notifyPass > 0 {
		b.notifyPass--
		return nil
	}
	return b.Chain.NotifyReceived(addrs)
}

func (b *backend) sentCount() int {
	b.mu.Lock()
	defer b.mu.Unlock()
	return len(b.sent)
}

func (b *backend) sentSince(n int) []sentRec {
	b.mu.Lock()
	defer b.mu.Unlock()
	return append([]sentRec{}, b.sent[n:]...)
}

func (b *backend) script(answers []ansSpec, notifyPass, notifyFail int) {
	b.mu.Lock()
	defer b.mu.Unlock()
	b.next = append([]ansSpec{}, answers...)
	b.Chain.NotifyFail = notifyFail
	b.notifyPass = notifyPass
	b.notifyN = 0
}

func (b *backend) clear() int {
	b.mu.Lock()
	defer b.mu.Unlock()
	b.next = nil
	b.Chain.NotifyFail = 0
	b.notifyPass = 0
	return b.notifyN
}

func (b *backend) failure() error {
	b.mu.Lock()
	defer b.mu.Unlock()
	return b.sendErr
}

// ---------------------------------------------------------------- world

type txInfo struct {
	id     uint64
	hash   chainhash.Hash
	tx     *wire.MsgTx
	out    txOut
	ours   bool // authored by the wallet
	mined  bool
	height int32
}

type world struct {
	env    *walletenv.Env
	w      *wallet.Wallet
	ch     *backend
	r      *gen.R
	ids    map[chainhash.Hash]uint64
	nextID uint64
	txs    []*txInfo
	byHash map[chainhash.Hash]*txInfo
	spentC map[wire.OutPoint]bool // outpoints spent by a confirmed transaction
	events []evOut
	oracle map[string]bool
	detail []string
	tags   map[string]bool
	site   string
	leases uint64
	leased map[[2]uint64]bool // outpoints under a (one hour) lease placed by the script
	opIdx  int
	payee  []byte
}

var scope84 = waddrmgr.KeyScopeBIP0084

func newWorld(seed int64) (*world, error) {
	sd := make([]byte, 32)
	for i := range sd {
		sd[i] = byte(seed>>uint(8*(i%8))) ^ byte(i*37+1)
	}
	env, err := walletenv.New(sd, time.Unix(1600000000, 0), 0, nil)
	if err != nil {
		return nil, err
	}
	wd := &world{env: env, w: env.W, ids: map[chainhash.Hash]uint64{}, nextID: 1,
		byHash: map[chainhash.Hash]*txInfo{}, spentC: map[wire.OutPoint]bool{},
		oracle: map[string]bool{}, tags: map[string]bool{}, r: gen.New(seed, 2020), leased: map[[2]uint64]bool{}}
	wd.ch = &backend{Chain: simchain.New(env.Params)}
	wd.payee = append([]byte{0x00, 0x14}, wd.r.Bytes(20)...)
	if err := wd.attach(); err != nil {
		env.Close()
		return nil, err
	}
	return wd, nil
}

func (wd *world) attach() error {
	wd.w = wd.env.W
	wd.w.VerifSetChainClient(wd.ch)
	wd.w.SetChainSynced(true)
	return wd.w.Unlock(walletenv.PrivPass, nil)
}

func (wd *world) flag(kind, site, why string) {
	wd.oracle[kind] = true
	if wd.site == "" {
		wd.site = site
	}
	wd.detail = append(wd.detail, fmt.Sprintf("%s@%d(%s): %s", kind, wd.opIdx, site, why))
}

func (wd *world) intern(h chainhash.Hash) uint64 {
	if id, ok := wd.ids[h]; ok {
		return id
	}
	id := wd.nextID
	wd.nextID++
	wd.ids[h] = id
	return id
}

// addTx registers a transaction in the universe (parents first, so that an
// input always refers to a smaller id).
func (wd *world) addTx(tx *wire.MsgTx, ours bool) (*txInfo, error) {
	h := tx.TxHash()
	if ti, ok := wd.byHash[h]; ok {
		return ti, nil
	}
	if _, ok := wd.ids[h]; ok {
		return nil, fmt.Errorf("transaction %v was referenced as a parent before it was known", h)
	}
	ti := &txInfo{hash: h, tx: tx, ours: ours}
	for _, in := range tx.TxIn {
		pid := wd.intern(in.PreviousOutPoint.Hash)
		ti.out.Ins = append(ti.out.Ins, [2]uint64{pid, uint64(in.PreviousOutPoint.Index)})
	}
	ti.id = wd.intern(h)
	ti.out.ID = ti.id
	ti.out.Creds = [][2]uint64{}
	if ti.out.Ins == nil {
		ti.out.Ins = [][2]uint64{}
	}
	for i, o := range tx.TxOut {
		ti.out.Outs = append(ti.out.Outs, o.Value)
		_, addrs, _, err := txscript.ExtractPkScriptAddrs(o.PkScript, wd.env.Params)
		if err != nil || len(addrs) != 1 {
			continue
		}
		ma, err := wd.w.AddressInfo(addrs[0])
		if err != nil {
			continue
		}
		chg := uint64(0)
		if ma.Internal() {
			chg = 1
		}
		ti.out.Creds = append(ti.out.Creds, [2]uint64{uint64(i), chg})
	}
	wd.txs = append(wd.txs, ti)
	wd.byHash[h] = ti
	return ti, nil
}

func (wd *world) view(f func(ns walletdb.ReadBucket) error) error {
	return walletdb.View(wd.w.Database(), func(tx walletdb.ReadTx) error {
		return f(tx.ReadBucket([]byte("wtxmgr")))
	})
}

func (wd *world) observe() (snapshot, error) {
	var s snapshot
	s.Sync = wd.w.Manager.SyncedTo().Height
	for _, mc := range minconfs {
		b, err := wd.w.CalculateBalance(mc)
		if err != nil {
			return s, err
		}
		s.Bal = append(s.Bal, int64(b))
	}
	s.Utxos = []utxoOut{}
	s.Unmined = []uint64{}
	err := wd.view(func(ns walletdb.ReadBucket) error {
		hs, err := wd.w.TxStore.UnminedTxHashes(ns)
		if err != nil {
			return err
		}
		for _, h := range hs {
			id, ok := wd.ids[*h]
			if !ok {
				// a transaction the harness has not seen yet (SendOutputs that
				// failed after recording): register it from the store
				det, err := wd.w.TxStore.TxDetails(ns, h)
				if err != nil || det == nil {
					return fmt.Errorf("unmined transaction %v without details: %v", h, err)
				}
				cp := det.MsgTx.Copy()
				ti, err := wd.addTx(cp, true)
				if err != nil {
					return err
				}
				id = ti.id
			}
			s.Unmined = append(s.Unmined, id)
		}
		cs, err := wd.w.TxStore.UnspentOutputs(ns)
		if err != nil {
			return err
		}
		for _, c := range cs {
			id, ok := wd.ids[c.OutPoint.Hash]
			if !ok {
				return fmt.Errorf("unspent output of an unknown transaction %v", c.OutPoint)
			}
			u := utxoOut{Op: [2]uint64{id, uint64(c.OutPoint.Index)}, Amt: int64(c.Amount), H: c.Height, CB: c.FromCoinBase}
			if c.Height >= 0 {
				u.B = uint64(c.Height) + 1
			}
			s.Utxos = append(s.Utxos, u)
		}
		return nil
	})
	sort.Slice(s.Utxos, func(i, j int) bool {
		a, b := s.Utxos[i].Op, s.Utxos[j].Op
		return a[0] < b[0] || (a[0] == b[0] && a[1] < b[1])
	})
	sort.Slice(s.Unmined, func(i, j int) bool { return s.Unmined[i] < s.Unmined[j] })
	return s, err
}

func (wd *world) emit(e evOut, src string) (snapshot, error) {
	s, err := wd.observe()
	if err != nil {
		return s, err
	}
	e.Obs = s
	e.Src = src
	e.OpIdx = wd.opIdx
	wd.events = append(wd.events, e)
	return s, nil
}

// ---------------------------------------------------------------- chain side ops

func (wd *world) externalTx(amts []int64) (*wire.MsgTx, error) {
	tx := wire.NewMsgTx(2)
	var ph chainhash.Hash
	copy(ph[:], wd.r.Bytes(32))
	tx.AddTxIn(wire.NewTxIn(wire.NewOutPoint(&ph, uint32(wd.r.Intn(3))), nil, nil))
	for _, a := range amts {
		addr, err := wd.w.NewAddress(0, scope84)
		if err != nil {
			return nil, err
		}
		pk, err := txscript.PayToAddrScript(addr)
		if err != nil {
			return nil, err
		}
		tx.AddTxOut(wire.NewTxOut(a, pk))
	}
	// a stranger's output as well
	tx.AddTxOut(wire.NewTxOut(12345, wd.payee))
	return tx, nil
}

// mineBlock extends the chain with txs and notifies the wallet: block
// connected first, then every relevant transaction with its block.
func (wd *world) mineBlock(txs []*txInfo, src string) error {
	msgs := []*wire.MsgTx{}
	for _, ti := range txs {
		msgs = append(msgs, ti.tx)
	}
	b := wd.ch.Chain.Extend(msgs, nil)
	meta := b.Meta()
	if err := wd.w.VerifConnectBlock(meta); err != nil {
		return err
	}
	if _, err := wd.emit(evOut{K: "nop"}, src+":connect"); err != nil {
		return err
	}
	for _, ti := range txs {
		rec, err := wtxmgr.NewTxRecordFromMsgTx(ti.tx, b.Time)
		if err != nil {
			return err
		}
		if err := wd.w.VerifAddRelevantTx(rec, &meta); err != nil {
			return err
		}
		ti.mined, ti.height = true, b.Height
		for _, in := range ti.tx.TxIn {
			wd.spentC[in.PreviousOutPoint] = true
		}
		if _, err := wd.emit(evOut{K: "confirm", T: ti.id, H: b.Height, B: uint64(b.Height) + 1}, src); err != nil {
			return err
		}
	}
	return nil
}

func (wd *world) opFund(op opIn) error {
	tx, err := wd.externalTx(op.Amts)
	if err != nil {
		return err
	}
	ti, err := wd.addTx(tx, false)
	if err != nil {
		return err
	}
	return wd.mineBlock([]*txInfo{ti}, "fund")
}

func (wd *world) opRecv(op opIn) error {
	tx, err := wd.externalTx(op.Amts)
	if err != nil {
		return err
	}
	ti, err := wd.addTx(tx, false)
	if err != nil {
		return err
	}
	rec, err := wtxmgr.NewTxRecordFromMsgTx(tx, time.Now())
	if err != nil {
		return err
	}
	if err := wd.w.VerifAddRelevantTx(rec, nil); err != nil {
		return err
	}
	_, err = wd.emit(evOut{K: "seen", T: ti.id}, "recv")
	return err
}

func (wd *world) unminedInfos() ([]*txInfo, error) {
	s, err := wd.observe()
	if err != nil {
		return nil, err
	}
	byID := map[uint64]*txInfo{}
	for _, ti := range wd.txs {
		byID[ti.id] = ti
	}
	out := []*txInfo{}
	for _, id := range s.Unmined {
		out = append(out, byID[id])
	}
	return out, nil
}

// opConfirm mines up to N of the wallet's unconfirmed transactions, oldest
// first, keeping the block valid (parents in or before the block, no double
// spend).
func (wd *world) opConfirm(op opIn) error {
	cands, err := wd.unminedInfos()
	if err != nil {
		return err
	}
	n := op.N
	if n <= 0 {
		n = 1
	}
	sel := []*txInfo{}
	used := map[wire.OutPoint]bool{}
	inBlock := map[chainhash.Hash]bool{}
	for _, ti := range cands {
		if len(sel) >= n {
			break
		}
		ok := true
		for _, in := range ti.tx.TxIn {
			po := in.PreviousOutPoint
			if wd.spentC[po] || used[po] {
				ok = false
			}
			if p, known := wd.byHash[po.Hash]; known && !p.mined && !inBlock[po.Hash] {
				ok = false
			}
		}
		if !ok {
			continue
		}
		for _, in := range ti.tx.TxIn {
			used[in.PreviousOutPoint] = true
		}
		inBlock[ti.hash] = true
		sel = append(sel, ti)
	}
	if len(sel) > 0 {
		wd.tags["confirm_wallet_tx"] = true
	}
	return wd.mineBlock(sel, "confirm")
}

func (wd *world) opLease(op opIn) error {
	s, err := wd.observe()
	if err != nil {
		return err
	}
	if len(s.Utxos) == 0 {
		_, err := wd.emit(evOut{K: "nop"}, "lease:none")
		return err
	}
	u := s.Utxos[op.Pick%len(s.Utxos)]
	return wd.lease(u.Op, "lease")
}

func (wd *world) hashOf(id uint64) (chainhash.Hash, bool) {
	for h, i := range wd.ids {
		if i == id {
			return h, true
		}
	}
	return chainhash.Hash{}, false
}

func (wd *world) lease(op [2]uint64, src string) error {
	h, _ := wd.hashOf(op[0])
	wd.leases++
	var lid wtxmgr.LockID
	lid[0] = byte(wd.leases)
	lid[1] = byte(wd.leases >> 8)
	_, err := wd.w.LeaseOutput(lid, wire.OutPoint{Hash: h, Index: uint32(op[1])}, time.Hour)
	if err != nil {
		return fmt.Errorf("LeaseOutput: %v", err)
	}
	wd.tags["lease"] = true
	wd.leased[op] = true
	_, err = wd.emit(evOut{K: "lease", LID: wd.leases, Op: op, Dur: 3600000}, src)
	return err
}

// ---------------------------------------------------------------- broadcast attempts

func (wd *world) payment(op opIn) (int64, error) {
	if op.Amt > 0 {
		return op.Amt, nil
	}
	b, err := wd.w.CalculateBalance(op.Minconf)
	if err != nil {
		return 0, err
	}
	pct := op.Pct
	if pct <= 0 {
		pct = 30
	}
	return int64(b) * int64(pct) / 100, nil
}

func sameSnap(a, b snapshot) bool {
	x, _ := json.Marshal(a)
	y, _ := json.Marshal(b)
	return string(x) == string(y)
}

func has(l []uint64, x uint64) int {
	n := 0
	for _, y := range l {
		if y == x {
			n++
		}
	}
	return n
}

// descendants of id among the transactions listed in set (spend graph of the universe)
func (wd *world) descendants(id uint64, set []uint64) map[uint64]bool {
	in := map[uint64]bool{}
	for _, x := range set {
		in[x] = true
	}
	byID := map[uint64]*txInfo{}
	for _, ti := range wd.txs {
		byID[ti.id] = ti
	}
	dead := map[uint64]bool{id: true}
	for changed := true; changed; {
		changed = false
		for x := range in {
			if dead[x] {
				continue
			}
			for _, i := range byID[x].out.Ins {
				if dead[i[0]] {
					dead[x] = true
					changed = true
				}
			}
		}
	}
	delete(dead, id)
	return dead
}

// judgeAttempt states the property on one PublishTransaction / SendOutputs.
//
//		truth: what the backend meant (accept in_mempool known confirmed reject; "" = not stated),
//		       or notify_failure when the hand-over's subscription failed
//		callErr: what the caller got
//
//	 1. truth accept / in_mempool: the transaction stays recorded, counted once.
//	 2. otherwise, when the backend refused it (truth reject), the hand-over
//	    failed (notify_failure) or the caller got an error for whatever reason:
//	    the transaction and every unconfirmed transaction spending its outputs
//	    are forgotten; for a fresh transaction without recorded spenders
//	    balances and spendable set are exactly those of before the attempt.
//	 3. truth known / confirmed and success: nothing is demanded - the text does
//	    not say whether a transaction the chain already contains is kept.
func (wd *world) judgeAttempt(ti *txInfo, truth string, before, after snapshot, callErr error) {
	wasUnmined := has(before.Unmined, ti.id) > 0
	wasKnown := wasUnmined || ti.mined
	switch {
	case truth == "accept" || truth == "in_mempool":
		class := truth
		if ti.mined {
			return
		}
		n := has(after.Unmined, ti.id)
		if n == 0 {
			wd.flag("mempool_tx_not_recorded", class, fmt.Sprintf("tx %d is not recorded as unconfirmed (the call returned %v)", ti.id, callErr))
			return
		}
		if n > 1 {
			wd.flag("mempool_tx_counted_twice", class, fmt.Sprintf("tx %d listed %d times", ti.id, n))
		}
		if !wasKnown {
			// balance(0) moves by exactly: - the spendable coins it spends + its own credits
			delta := int64(0)
			for _, in := range ti.out.Ins {
				for _, u := range before.Utxos {
					if u.Op == in {
						delta -= u.Amt
					}
				}
			}
			// outputs of ti that a recorded unconfirmed transaction spends (a
			// child that was re-published before its forgotten parent)
			spentByUnmined := map[[2]uint64]bool{}
			for _, x := range wd.txs {
				if has(after.Unmined, x.id) > 0 {
					for _, in := range x.out.Ins {
						spentByUnmined[in] = true
					}
				}
			}
			for _, c := range ti.out.Creds {
				// an output that is still under a lease from an earlier life
				// of this transaction, or already spent by a recorded child,
				// does not count towards the balance
				o := [2]uint64{ti.id, c[0]}
				if !wd.leased[o] && !spentByUnmined[o] {
					delta += ti.out.Outs[c[0]]
				}
				cnt := 0
				for _, u := range after.Utxos {
					if u.Op == [2]uint64{ti.id, c[0]} {
						cnt++
					}
				}
				if cnt > 1 {
					wd.flag("mempool_tx_counted_twice", class, fmt.Sprintf("output %d:%d listed %d times", ti.id, c[0], cnt))
				}
			}
			if after.Bal[0]-before.Bal[0] != delta {
				wd.flag("mempool_tx_counted_twice", class,
					fmt.Sprintf("balance(0) moved by %d, the transaction accounts for %d", after.Bal[0]-before.Bal[0], delta))
			}
		}
	case truth == "reject" || truth == "notify_failure" || callErr != nil:
		site := "rejected"
		switch {
		case truth == "notify_failure":
			site = "notify_failure"
		case truth != "reject":
			site = "error_returned"
		}
		if has(after.Unmined, ti.id) > 0 {
			wd.flag("failed_broadcast_left_trace", site,
				fmt.Sprintf("tx %d still recorded as unconfirmed after the call returned %v", ti.id, callErr))
		}
		for d := range wd.descendants(ti.id, before.Unmined) {
			if has(after.Unmined, d) > 0 {
				wd.flag("descendant_survived_failed_broadcast", site,
					fmt.Sprintf("tx %d spends (transitively) an output of the refused tx %d and is still recorded", d, ti.id))
			}
		}
		if !wasKnown && len(wd.descendants(ti.id, before.Unmined)) == 0 {
			if fmt.Sprint(before.Bal) != fmt.Sprint(after.Bal) || fmt.Sprint(before.Utxos) != fmt.Sprint(after.Utxos) {
				wd.flag("balance_changed_after_failed_broadcast", site,
					fmt.Sprintf("balances %v -> %v, %d -> %d spendable outputs", before.Bal, after.Bal, len(before.Utxos), len(after.Utxos)))
			}
		}
		// The label handed to PublishTransaction is written in the same database
		// transaction as the record (wallet.go, PutTxLabel) and is not removed
		// with it.  The property text spells "forgotten" out as coins, change,
		// balance and spendable set; a label of a transaction the wallet no
		// longer knows is reachable through none of them (TxDetails and
		// LabelTransaction only look at recorded transactions), so it is
		// reported as an observation (tag), not as a violation.
		if wd.labelOf(ti.hash) != "" && has(after.Unmined, ti.id) == 0 && !ti.mined {
			wd.tags["observation:label_left_after_forgotten_tx"] = true
		}
	}
}

func (wd *world) labelOf(h chainhash.Hash) string {
	label := ""
	_ = wd.view(func(ns walletdb.ReadBucket) error {
		l, err := wtxmgr.FetchTxLabel(ns, h)
		if err == nil {
			label = l
		}
		return nil
	})
	return label
}

// siteFor names where to look when an attempt with a raw reply goes wrong: a
// mapped class that differs from the truth points at chain/errors.go.
func (wd *world) tagAnswer(spec ansSpec, model string) {
	wd.tags["form:"+spec.kind] = true
	switch spec.kind {
	case "sentinel", "wrapped":
		wd.tags["sent:"+spec.kind+":"+spec.name] = true
	case "raw":
		wd.tags["raw:"+spec.flavour+":"+spec.truth] = true
		wd.tags["raw_mapped_to:"+model] = true
		if wires.direct {
			wd.tags["wire:direct"] = true
		} else {
			wd.tags["wire:loopback"] = true
		}
	}
}

// truthOf: what the scripted backend means by its answer to this attempt
func truthOf(op opIn, spec ansSpec) string {
	if op.NFail {
		return "notify_failure"
	}
	return spec.truth
}

// outputs of a publish/send: the payment to a stranger (unless Amt < 0) and
// one output per entry of Own to a fresh external address of the wallet.
func (wd *world) outputs(op opIn) ([]*wire.TxOut, error) {
	var outs []*wire.TxOut
	if op.Amt >= 0 {
		amt, err := wd.payment(op)
		if err != nil {
			return nil, err
		}
		if amt < 10000 {
			return nil, errors.New("amount below the harness minimum")
		}
		outs = append(outs, wire.NewTxOut(amt, wd.payee))
	}
	for _, a := range op.Own {
		addr, err := wd.w.NewAddress(0, scope84)
		if err != nil {
			return nil, err
		}
		pk, err := txscript.PayToAddrScript(addr)
		if err != nil {
			return nil, err
		}
		outs = append(outs, wire.NewTxOut(a, pk))
	}
	if len(outs) == 0 {
		return nil, errors.New("no outputs")
	}
	return outs, nil
}

func (wd *world) createTx(op opIn) (*wire.MsgTx, error) {
	outs, err := wd.outputs(op)
	if err != nil {
		return nil, err
	}
	at, err := wd.w.CreateSimpleTx(&scope84, 0, outs, op.Minconf, 2000, wallet.CoinSelectionLargest, false)
	if err != nil {
		return nil, err
	}
	return at.Tx, nil
}

func (wd *world) opPublish(op opIn) error {
	tx, err := wd.createTx(op)
	if err != nil {
		wd.tags["create_failed"] = true
		_, err2 := wd.emit(evOut{K: "nop"}, "publish:create_failed")
		return err2
	}
	ti, err := wd.addTx(tx, true)
	if err != nil {
		return err
	}
	if op.Lease {
		for _, in := range ti.out.Ins {
			if err := wd.lease(in, "publish:lease_input"); err != nil {
				return err
			}
		}
		wd.tags["leased_inputs"] = true
	}
	return wd.attempt(ti, op, "publish")
}

// attempt = PublishTransaction of ti with the scripted outcome
func (wd *world) attempt(ti *txInfo, op opIn, src string) error {
	spec, err := parseAnswer(op.Ans)
	if err != nil {
		return err
	}
	before, err := wd.observe()
	if err != nil {
		return err
	}
	truth := truthOf(op, spec)
	nf := 0
	if op.NFail {
		nf = 1
	}
	n0 := wd.ch.sentCount()
	wd.ch.script([]ansSpec{spec}, 0, nf)
	callErr := wd.w.PublishTransaction(ti.tx, "c20")
	wd.ch.clear()
	sent := wd.ch.sentSince(n0)
	res := 1
	if callErr != nil {
		res = 2
	}
	// the answer as the model sees it: known once the backend was asked
	model := spec.src
	if spec.kind != "accept" && spec.kind != "legacy" {
		model = "s:" + spec.name
	}
	if len(sent) > 0 {
		model = sent[len(sent)-1].model
		wd.tagAnswer(spec, model)
	} else if spec.kind == "raw" {
		// never reached the backend (subscription failure): any answer will do
		model = "reject"
	}
	after, err := wd.emit(evOut{K: "publish", T: ti.id, Ans: model, Truth: spec.truth, Sent: spec.src, NOK: !op.NFail, Res: res}, src)
	if err != nil {
		return err
	}
	wd.tags["class:"+truth] = true
	wd.tagChain(ti, before)
	wd.judgeAttempt(ti, truth, before, after, callErr)
	return nil
}

func ansOrAccept(a string) string {
	if a == "" {
		return "accept"
	}
	return a
}

func (wd *world) tagChain(ti *txInfo, before snapshot) {
	perParent := map[uint64]int{}
	for _, in := range ti.out.Ins {
		if has(before.Unmined, in[0]) > 0 {
			wd.tags["chained_unconfirmed_spend"] = true
			perParent[in[0]]++
		}
	}
	for _, n := range perParent {
		if n >= 2 {
			wd.tags[fmt.Sprintf("consolidates_%d_outputs_of_unconfirmed_parent", min(n, 3))] = true
		}
	}
	if len(ti.out.Creds) >= 3 {
		wd.tags["tx_with_several_wallet_outputs"] = true
	}
	if len(wd.descendants(ti.id, before.Unmined)) > 0 {
		wd.tags["has_unconfirmed_descendants"] = true
	}
}

func (wd *world) opSend(op opIn) error {
	outs, oerr := wd.outputs(op)
	if oerr != nil {
		_, err := wd.emit(evOut{K: "nop"}, "send:create_failed")
		return err
	}
	spec, err := parseAnswer(op.Ans)
	if err != nil {
		return err
	}
	before, err := wd.observe()
	if err != nil {
		return err
	}
	class := truthOf(op, spec)
	pass, nf := 0, 0
	switch {
	case op.NFailC:
		nf = 1
	case op.NFail:
		pass, nf = 1, 1
	}
	n0 := wd.ch.sentCount()
	wd.ch.script([]ansSpec{spec}, pass, nf)
	tx, callErr := wd.w.SendOutputs(outs, &scope84, 0, op.Minconf, 2000, wallet.CoinSelectionLargest, "c20")
	calls := wd.ch.clear()
	sent := wd.ch.sentSince(n0)
	res := 1
	if callErr != nil {
		res = 2
	}
	// which transaction was it?
	var ti *txInfo
	switch {
	case tx != nil:
		ti, err = wd.addTx(tx, true)
	case len(sent) > 0:
		// rejected after the broadcast: the store may already have dropped it,
		// the backend saw it
		ti, err = wd.addTx(sent[len(sent)-1].tx, true)
	}
	if err != nil {
		return err
	}
	after, err := wd.observe() // registers a transaction left in the store
	if err != nil {
		return err
	}
	if ti == nil {
		for _, id := range after.Unmined {
			if has(before.Unmined, id) == 0 {
				for _, x := range wd.txs {
					if x.id == id {
						ti = x
					}
				}
			}
		}
	}
	notifyFailed := (op.NFailC && calls >= 1) || (op.NFail && calls >= 2)
	if !notifyFailed && (op.NFail || op.NFailC) {
		// the planned subscription failure did not apply (no change output):
		// the call went through with the scripted answer
		class = spec.truth
	}
	if ti == nil {
		// nothing recorded, nothing sent: creation failed, or the hand-over
		// failed and everything was taken back.  The property: no trace.
		wd.tags["send_without_tx"] = true
		if callErr == nil {
			return fmt.Errorf("SendOutputs succeeded without a transaction")
		}
		if _, err := wd.emit(evOut{K: "nop", Res: res}, "send:"+class+":no_tx"); err != nil {
			return err
		}
		if !sameSnap(before, after) {
			wd.flag("failed_broadcast_left_trace", "notify_failure", "a send that returned an error changed balances or sets")
		}
		return nil
	}
	if len(sent) == 0 && has(after.Unmined, ti.id) == 0 {
		return fmt.Errorf("send: transaction %d neither sent nor recorded", ti.id)
	}
	nok := !(notifyFailed && len(sent) == 0)
	model := "reject"
	if len(sent) > 0 {
		model = sent[len(sent)-1].model
		wd.tagAnswer(spec, model)
	}
	if _, err := wd.emit(evOut{K: "publish", T: ti.id, Ans: model, Truth: spec.truth, Sent: spec.src, NOK: nok, Res: res}, "send"); err != nil {
		return err
	}
	if !nok {
		class = "notify_failure"
	}
	wd.tags["class:"+class] = true
	wd.tags["send_outputs"] = true
	wd.tagChain(ti, before)
	wd.judgeAttempt(ti, class, before, after, callErr)
	return nil
}

func (wd *world) opRepublish(op opIn) error {
	unm, err := wd.unminedInfos()
	if err != nil {
		return err
	}
	isUnm := map[uint64]bool{}
	for _, ti := range unm {
		isUnm[ti.id] = true
	}
	var cands []*txInfo
	for _, ti := range wd.txs {
		switch op.Which {
		case "conf":
			if ti.mined && ti.ours {
				cands = append(cands, ti)
			}
		case "forgotten":
			// removed earlier; admissible again when nothing confirmed conflicts with it
			if ti.ours && !ti.mined && !isUnm[ti.id] {
				ok := true
				for _, in := range ti.tx.TxIn {
					if wd.spentC[in.PreviousOutPoint] {
						ok = false
					}
				}
				if ok {
					cands = append(cands, ti)
				}
			}
		default:
			if isUnm[ti.id] && ti.ours {
				cands = append(cands, ti)
			}
		}
	}
	if len(cands) == 0 {
		_, err := wd.emit(evOut{K: "nop"}, "republish:none")
		return err
	}
	ti := cands[op.Pick%len(cands)]
	wd.tags["republish:"+whichOr(op.Which)] = true
	return wd.attempt(ti, op, "republish")
}

func whichOr(s string) string {
	if s == "" {
		return "unconf"
	}
	return s
}

// ---------------------------------------------------------------- re-broadcast

// judgeResend states the property on one re-broadcast: every transaction that
// was unconfirmed before it is offered exactly once, parents first; per
// offered transaction the consequences of what the backend meant (truths):
// refused -> it and its unconfirmed descendants are forgotten; accepted or
// already in the mempool (and not a descendant of a dropped one) -> still
// recorded exactly once; already known / confirmed -> nothing demanded.
func (wd *world) judgeResend(before, after snapshot, offered []uint64, truths []string, site string) {
	pos := map[uint64]int{}
	for i, id := range offered {
		if _, dup := pos[id]; dup {
			wd.flag("tx_offered_twice", site, fmt.Sprintf("tx %d offered more than once: %v", id, offered))
		} else {
			pos[id] = i
		}
	}
	byID := map[uint64]*txInfo{}
	for _, ti := range wd.txs {
		byID[ti.id] = ti
	}
	for _, id := range before.Unmined {
		p, ok := pos[id]
		if !ok {
			wd.flag("unconfirmed_tx_not_reoffered", site, fmt.Sprintf("unconfirmed tx %d was not offered: %v", id, offered))
			continue
		}
		for _, in := range byID[id].out.Ins {
			if has(before.Unmined, in[0]) > 0 {
				if pp, ok := pos[in[0]]; ok && pp > p {
					wd.flag("child_offered_before_parent", site, fmt.Sprintf("tx %d offered before its parent %d: %v", id, in[0], offered))
				}
			}
		}
	}
	// consequences of the per-transaction answers
	refused := map[uint64]bool{}
	dropped := map[uint64]bool{}
	for i, id := range offered {
		a := "accept"
		if i < len(truths) {
			a = truths[i]
		}
		if a == "reject" {
			refused[id] = true
		}
		if a != "accept" && a != "in_mempool" {
			dropped[id] = true
			for d := range wd.descendants(id, before.Unmined) {
				dropped[d] = true
			}
		}
	}
	for id := range refused {
		if has(after.Unmined, id) > 0 {
			wd.flag("failed_broadcast_left_trace", "resend_rejected", fmt.Sprintf("tx %d rejected during the re-broadcast is still recorded", id))
		}
		for d := range wd.descendants(id, before.Unmined) {
			if has(after.Unmined, d) > 0 {
				wd.flag("descendant_survived_failed_broadcast", "resend_rejected",
					fmt.Sprintf("tx %d depends on tx %d (rejected during the re-broadcast) and is still recorded", d, id))
			}
		}
	}
	for _, id := range before.Unmined {
		if !dropped[id] && has(after.Unmined, id) != 1 {
			wd.flag("mempool_tx_not_recorded", "resend", fmt.Sprintf("tx %d was accepted again but is listed %d times", id, has(after.Unmined, id)))
		}
	}
}

// offeredIDs: per SendRawTransaction call of a re-broadcast the transaction,
// the answer as the model sees it, and what the backend meant
func (wd *world) offeredIDs(recs []sentRec) (ids []uint64, answers, truths []string) {
	ids, answers, truths = []uint64{}, []string{}, []string{}
	for _, r := range recs {
		ids = append(ids, wd.ids[r.hash])
		answers = append(answers, r.model)
		truths = append(truths, r.spec.truth)
		wd.tagAnswer(r.spec, r.model)
	}
	return
}

func sentForms(recs []sentRec) []string {
	out := []string{}
	for _, r := range recs {
		out = append(out, r.spec.src)
	}
	return out
}

func mapAnswers(l []string) ([]ansSpec, error) {
	out := []ansSpec{}
	for _, s := range l {
		a, err := parseAnswer(s)
		if err != nil {
			return nil, err
		}
		out = append(out, a)
	}
	return out, nil
}

func (wd *world) opResend(op opIn, src string) error {
	before, err := wd.observe()
	if err != nil {
		return err
	}
	specs, err := mapAnswers(op.Answers)
	if err != nil {
		return err
	}
	n0 := wd.ch.sentCount()
	wd.ch.script(specs, 0, 0)
	wd.w.VerifResendUnminedTxs()
	wd.ch.clear()
	recs := wd.ch.sentSince(n0)
	offered, answers, truths := wd.offeredIDs(recs)
	after, err := wd.emit(evOut{K: "resend", Offered: offered, Answers: answers, Truths: truths, Sents: sentForms(recs)}, src)
	if err != nil {
		return err
	}
	wd.tagResend(before, truths)
	wd.judgeResend(before, after, offered, truths, src)
	return nil
}

func (wd *world) tagResend(before snapshot, answers []string) {
	wd.tags[fmt.Sprintf("resend_len:%d", min(len(before.Unmined), 4))] = true
	for _, a := range answers {
		if a != "accept" {
			wd.tags["resend_answer:"+a] = true
		}
	}
	byID := map[uint64]*txInfo{}
	for _, ti := range wd.txs {
		byID[ti.id] = ti
	}
	for _, id := range before.Unmined {
		if len(wd.descendants(id, before.Unmined)) > 0 {
			wd.tags["resend_with_chain"] = true
		}
		per := map[uint64]int{}
		for _, in := range byID[id].out.Ins {
			if has(before.Unmined, in[0]) > 0 {
				per[in[0]]++
			}
		}
		for _, n := range per {
			if n >= 2 {
				wd.tags["resend_with_multi_edge_child"] = true
			}
		}
	}
}

func min(a, b int) int {
	if a < b {
		return a
	}
	return b
}

func (wd *world) opRestart(op opIn) error {
	before, err := wd.observe()
	if err != nil {
		return err
	}
	if err := wd.env.Reopen(0, nil); err != nil {
		return err
	}
	wd.w = wd.env.W
	wd.tags["restart:"+op.Mode] = true
	if op.Mode != "sync" {
		if err := wd.attach(); err != nil {
			return err
		}
		if _, err := wd.emit(evOut{K: "nop"}, "restart"); err != nil {
			return err
		}
		return wd.opResend(op, "restart_resend")
	}
	// full resynchronisation: the wallet's own goroutines run the start-up
	// sync, request a rescan, and re-broadcast after RescanFinished
	if err := wd.w.Unlock(walletenv.PrivPass, nil); err != nil {
		return err
	}
	specs, err := mapAnswers(op.Answers)
	if err != nil {
		return err
	}
	n0 := wd.ch.sentCount()
	wd.ch.script(specs, 0, 0)
	wd.w.SynchronizeRPC(wd.ch)
	wd.ch.Chain.Notify(chain.ClientConnected{})
	want := len(before.Unmined)
	deadline := time.Now().Add(6 * time.Second)
	for time.Now().Before(deadline) {
		if wd.w.ChainSynced() && wd.ch.sentCount()-n0 >= want {
			break
		}
		time.Sleep(2 * time.Millisecond)
	}
	// let the last removal (if any) commit and catch extra offers: wait until
	// two observations 15 ms apart agree
	var last snapshot
	for i := 0; i < 200; i++ {
		time.Sleep(15 * time.Millisecond)
		s, err := wd.observe()
		if err != nil {
			return err
		}
		if i > 0 && sameSnap(s, last) && wd.ch.sentCount()-n0 >= want {
			break
		}
		if time.Now().After(deadline) {
			break
		}
		last = s
	}
	wd.ch.clear()
	recs := wd.ch.sentSince(n0)
	offered, answers, truths := wd.offeredIDs(recs)
	after, err := wd.emit(evOut{K: "resend", Offered: offered, Answers: answers, Truths: truths, Sents: sentForms(recs)}, "restart_sync")
	if err != nil {
		return err
	}
	wd.tagResend(before, truths)
	wd.judgeResend(before, after, offered, truths, "restart_sync")
	return nil
}

// ---------------------------------------------------------------- running a case

func runCase(in caseIn, extraTags []string) (out caseOut, err error) {
	if in.Map != "" {
		out, err = runMapCase(in)
		out.Tags = append(out.Tags, extraTags...)
		sort.Strings(out.Oracle)
		sort.Strings(out.Tags)
		return out, err
	}
	wd, err := newWorld(in.Seed)
	if err != nil {
		return out, err
	}
	defer wd.env.Close()
	for i, op := range in.Ops {
		wd.opIdx = i
		switch op.K {
		case "fund":
			err = wd.opFund(op)
		case "recv":
			err = wd.opRecv(op)
		case "mine":
			err = wd.mineBlock(nil, "mine")
		case "confirm":
			err = wd.opConfirm(op)
		case "lease":
			err = wd.opLease(op)
		case "publish":
			err = wd.opPublish(op)
		case "send":
			err = wd.opSend(op)
		case "republish":
			err = wd.opRepublish(op)
		case "resend":
			err = wd.opResend(op, "resend")
		case "restart":
			err = wd.opRestart(op)
		default:
			err = fmt.Errorf("unknown op %q", op.K)
		}
		if err == nil {
			err = wd.ch.failure()
		}
		if err != nil {
			return out, fmt.Errorf("op %d (%s): %v", i, op.K, err)
		}
	}
	out.In = in
	out.Obs.Minconfs = minconfs
	out.Obs.Events = wd.events
	for _, ti := range wd.txs {
		out.Obs.Universe = append(out.Obs.Universe, ti.out)
	}
	out.Oracle = []string{}
	for k := range wd.oracle {
		out.Oracle = append(out.Oracle, k)
	}
	sort.Strings(out.Oracle)
	out.Detail = wd.detail
	out.Tags = append([]string{}, extraTags...)
	for k := range wd.tags {
		out.Tags = append(out.Tags, k)
	}
	sort.Strings(out.Tags)
	out.Site = wd.site
	if out.Site == "" {
		out.Site = "*"
	}
	return out, nil
}

// ---------------------------------------------------------------- generators

var classes = []string{"accept", "in_mempool", "known", "confirmed", "reject", "notify_failure"}

func withClass(op opIn, class string) opIn {
	op.Ans, op.NFail = "", false
	if class == "notify_failure" {
		op.NFail = true
	} else {
		op.Ans = class
	}
	return op
}

// systematic: every answer class at every broadcast position of short
// scripts (initial broadcasts, chained unconfirmed sends, leased inputs,
// re-broadcasts of known transactions, resend positions).
func systematic(seed int64) []caseIn {
	var out []caseIn
	base := func() []opIn {
		return []opIn{
			{K: "fund", Amts: []int64{1000000, 600000}},
			{K: "mine"},
			{K: "publish", Amt: 200000, Minconf: 1},              // broadcast 0
			{K: "send", Amt: 300000, Minconf: 0},                 // broadcast 1: spends the change of 0 when 0 stayed
			{K: "publish", Amt: 150000, Minconf: 0, Lease: true}, // broadcast 2: leased inputs
			{K: "republish", Which: "unconf", Pick: 0},           // broadcast 3: oldest unconfirmed, has descendants
			{K: "send", Amt: 50000, Minconf: 0},                  // broadcast 4
			{K: "resend"},
		}
	}
	bpos := []int{2, 3, 4, 5, 6}
	n := int64(0)
	for _, p := range bpos {
		for _, c := range classes {
			ops := base()
			ops[p] = withClass(ops[p], c)
			n++
			out = append(out, caseIn{Seed: seed*100000 + n, Ops: ops})
		}
	}
	// every answer at every position of the re-broadcast of a chain of three
	// plus an independent transaction, directly and after a restart
	for _, mode := range []string{"", "resend", "sync"} {
		for pos := 0; pos < 4; pos++ {
			for _, a := range []string{"in_mempool", "known", "confirmed", "reject"} {
				ops := []opIn{
					{K: "fund", Amts: []int64{2000000}},
					{K: "fund", Amts: []int64{400000}},
					{K: "publish", Amt: 500000, Minconf: 1},
					{K: "send", Amt: 300000, Minconf: 0},
					{K: "publish", Amt: 200000, Minconf: 0},
					{K: "recv", Amts: []int64{70000}},
				}
				answers := []string{"accept", "accept", "accept", "accept"}
				answers[pos] = a
				if mode == "" {
					ops = append(ops, opIn{K: "resend", Answers: answers})
				} else {
					ops = append(ops, opIn{K: "restart", Mode: mode, Answers: answers})
				}
				ops = append(ops, opIn{K: "resend"}, opIn{K: "confirm", N: 3})
				n++
				out = append(out, caseIn{Seed: seed*100000 + n, Ops: ops})
			}
		}
	}
	// an unconfirmed child that consolidates TWO or THREE outputs of ONE
	// unconfirmed wallet parent (parallel edges of the spend graph), with a
	// grandchild, re-broadcast directly / after a restart / after a full
	// resynchronisation, all accepted and with one refusal at each position
	for _, childAmt := range []int64{600000, 900000} { // two / three outputs of the parent
		for _, mode := range []string{"", "resend", "sync"} {
			for pos := -1; pos < 3; pos++ {
				ops := []opIn{
					{K: "fund", Amts: []int64{1000000}},
					{K: "publish", Amt: -1, Own: []int64{300000, 250000}, Minconf: 1}, // parent: two own outputs + change
					{K: "publish", Amt: childAmt, Minconf: 0},                         // child spends several of them
					{K: "send", Amt: 20000, Minconf: 0},                               // grandchild
				}
				answers := []string{"accept", "accept", "accept"}
				if pos >= 0 {
					answers[pos] = []string{"reject", "known", "in_mempool"}[pos]
				}
				if mode == "" {
					ops = append(ops, opIn{K: "resend", Answers: answers})
				} else {
					ops = append(ops, opIn{K: "restart", Mode: mode, Answers: answers})
				}
				ops = append(ops, opIn{K: "resend"}, opIn{K: "confirm", N: 3}, opIn{K: "resend"})
				n++
				out = append(out, caseIn{Seed: seed*100000 + n, Ops: ops})
			}
		}
	}
	// PublishTransaction of an already CONFIRMED wallet transaction whose change an unconfirmed
	// transaction spends (the child hangs on an output that has no unmined credit), refused in
	// every form / reported as known
	for _, a := range []string{"reject", "s:ErrDust", "w:ErrMissingInputs", "r:bitcoind:reject:-26:txn-mempool-conflict",
		"r:neutrino:confirmed:-27:TX rejected: transaction already exists", "known"} {
		ops := []opIn{
			{K: "fund", Amts: []int64{1000000}},
			{K: "publish", Amt: 200000, Minconf: 1},
			{K: "confirm", N: 1},
			{K: "publish", Amt: 100000, Minconf: 0},
			{K: "send", Amt: 50000, Minconf: 0},
			withClass(opIn{K: "republish", Which: "conf", Pick: 0}, a),
			{K: "resend"},
		}
		n++
		out = append(out, caseIn{Seed: seed*100000 + n, Ops: ops})
	}
	out = append(out, sentinelCases(seed, &n)...)
	out = append(out, rawCases(seed, &n)...)
	// SendOutputs whose own subscriptions fail (while creating / in the hand-over)
	for _, v := range []opIn{{K: "send", Amt: 250000, Minconf: 1, NFail: true}, {K: "send", Amt: 250000, Minconf: 1, NFailC: true},
		{K: "send", Amt: 250000, Minconf: 0, NFail: true, Ans: "reject"}} {
		ops := []opIn{{K: "fund", Amts: []int64{900000, 300000}}, {K: "mine"}, {K: "send", Amt: 100000, Minconf: 1}, v,
			{K: "resend"}, {K: "restart", Mode: "resend"}}
		n++
		out = append(out, caseIn{Seed: seed*100000 + n, Ops: ops})
	}
	return out
}

func randomAnswer(r *gen.R) string {
	return variant(r, []string{"accept", "in_mempool", "known", "confirmed", "reject"}[r.Pick(8, 3, 1, 1, 4)])
}

// variant replaces a class by one of the forms a backend can say it in: the
// class's sentinel itself (plain / wrapped), any other sentinel of the
// rejection class, a raw reply of some backend flavour with that meaning.
func variant(r *gen.R, class string) string {
	if class == "accept" || class == "notify_failure" {
		return class
	}
	var names []string
	for _, s := range chainSrc.Sentinels {
		if truthOfSentinel(s.Name) == class {
			names = append(names, s.Name)
		}
	}
	switch r.Pick(3, 3, 2, 4) {
	case 1:
		return "s:" + names[r.Intn(len(names))]
	case 2:
		return "w:" + names[r.Intn(len(names))]
	case 3:
		fl := wireFlavours[r.Intn(len(wireFlavours))]
		var rows []rawRow
		for _, row := range rawRowsFor(fl) {
			if row.truth == class {
				rows = append(rows, row)
			}
		}
		if len(rows) > 0 {
			return rows[r.Intn(len(rows))].answer(fl)
		}
	}
	return class
}

// sentinelCases: EVERY sentinel of the regenerated list answers an initial
// broadcast (PublishTransaction and SendOutputs, on a transaction chained on
// an unconfirmed parent), plain and wrapped, and one position of a
// re-broadcast.
func sentinelCases(seed int64, n *int64) []caseIn {
	var out []caseIn
	const per = 3
	ss := chainSrc.Sentinels
	for i := 0; i < len(ss); i += per {
		ops := []opIn{
			{K: "fund", Amts: []int64{1500000, 700000}},
			{K: "mine"},
			{K: "publish", Amt: 200000, Minconf: 1}, // accepted parent
		}
		var last string
		for j := i; j < i+per && j < len(ss); j++ {
			a, b := "s:", "w:"
			if j%2 == 1 {
				a, b = b, a
			}
			ops = append(ops,
				opIn{K: "publish", Amt: 40000 + int64(j)*10, Minconf: 0, Ans: a + ss[j].Name},
				opIn{K: "send", Amt: 30000 + int64(j)*10, Minconf: 0, Ans: b + ss[j].Name})
			last = ss[j].Name
		}
		// the parent (and whatever stayed) is re-offered; the first offer is answered with the sentinel
		ops = append(ops, opIn{K: "send", Amt: 25000, Minconf: 0}, opIn{K: "resend", Answers: []string{"w:" + last}}, opIn{K: "resend"})
		*n++
		out = append(out, caseIn{Seed: seed*100000 + *n, Ops: ops})
	}
	// an error that is no sentinel at all
	*n++
	out = append(out, caseIn{Seed: seed*100000 + *n, Ops: []opIn{{K: "fund", Amts: []int64{900000}}, {K: "mine"},
		{K: "publish", Amt: 100000, Minconf: 1, Ans: "reject"}, {K: "send", Amt: 100000, Minconf: 1, Ans: "reject"},
		{K: "send", Amt: 50000, Minconf: 1}, {K: "resend", Answers: []string{"reject"}}}})
	return out
}

// rawCases: every ground-truth reply of every backend flavour answers an
// initial broadcast or a re-broadcast, through the real mapping; plus the
// mapping of every table key (mapping.go).
func rawCases(seed int64, n *int64) []caseIn {
	var out []caseIn
	const per = 4
	for _, fl := range wireFlavours {
		*n++
		out = append(out, caseIn{Seed: seed*100000 + *n, Map: fl})
		rows := rawRowsFor(fl)
		for i := 0; i < len(rows); i += per {
			ops := []opIn{
				{K: "fund", Amts: []int64{1500000, 700000}},
				{K: "mine"},
				{K: "publish", Amt: 200000, Minconf: 1},
			}
			var answers []string
			for j := i; j < i+per && j < len(rows); j++ {
				k := []string{"publish", "send"}[j%2]
				ops = append(ops, opIn{K: k, Amt: 40000 + int64(j)*10, Minconf: 0, Ans: rows[j].answer(fl)})
				answers = append(answers, rows[j].answer(fl))
			}
			// re-broadcast: whatever is recorded now gets the same replies, last first
			for l, r := 0, len(answers)-1; l < r; l, r = l+1, r-1 {
				answers[l], answers[r] = answers[r], answers[l]
			}
			ops = append(ops, opIn{K: "resend", Answers: answers}, opIn{K: "resend"})
			*n++
			out = append(out, caseIn{Seed: seed*100000 + *n, Ops: ops})
		}
	}
	return out
}

func randomCase(r *gen.R, seed int64, long bool) caseIn {
	c := caseIn{Seed: seed}
	nf := r.Range(1, 3)
	for i := 0; i < nf; i++ {
		amts := []int64{}
		for j := r.Range(1, 3); j > 0; j-- {
			amts = append(amts, int64(r.Range(200, 3000))*1000)
		}
		c.Ops = append(c.Ops, opIn{K: "fund", Amts: amts})
	}
	n := r.Range(6, 14)
	if long {
		n = r.Range(20, 40)
	}
	for i := 0; i < n; i++ {
		var op opIn
		switch r.Pick(30, 22, 10, 8, 8, 6, 5, 5, 4, 2) {
		case 0:
			op = opIn{K: "publish", Pct: r.Range(5, 70), Minconf: int32(r.Pick(3, 2)), Lease: r.Chance(1, 6)}
			if r.Chance(1, 5) {
				// a transaction with several wallet outputs, then (next op) a
				// spend large enough to need more than one coin
				op.Amt, op.Lease = -1, false
				for j := r.Range(2, 3); j > 0; j-- {
					op.Own = append(op.Own, int64(r.Range(80, 400))*1000)
				}
				c.Ops = append(c.Ops, withClass(op, variant(r, classes[r.Pick(8, 4, 1, 1, 1, 1)])))
				op = opIn{K: []string{"publish", "send"}[r.Intn(2)], Pct: r.Range(75, 97), Minconf: 0}
			}
		case 1:
			op = opIn{K: "send", Pct: r.Range(5, 70), Minconf: int32(r.Pick(3, 2))}
			if r.Chance(1, 12) {
				op.NFailC = true
			}
		case 2:
			op = opIn{K: "republish", Which: []string{"unconf", "conf", "forgotten"}[r.Pick(6, 1, 2)], Pick: r.Intn(8)}
		case 3:
			op = opIn{K: "confirm", N: r.Range(1, 3)}
		case 4:
			op = opIn{K: "resend"}
			for j := r.Range(0, 5); j > 0; j-- {
				op.Answers = append(op.Answers, randomAnswer(r))
			}
		case 5:
			op = opIn{K: "restart", Mode: []string{"resend", "sync"}[r.Pick(2, 1)]}
			for j := r.Range(0, 4); j > 0; j-- {
				op.Answers = append(op.Answers, randomAnswer(r))
			}
		case 6:
			op = opIn{K: "mine"}
		case 7:
			op = opIn{K: "recv", Amts: []int64{int64(r.Range(20, 900)) * 1000}}
		case 8:
			op = opIn{K: "lease", Pick: r.Intn(8)}
		case 9:
			op = opIn{K: "fund", Amts: []int64{int64(r.Range(100, 2000)) * 1000}}
		}
		if op.K == "publish" || op.K == "send" || op.K == "republish" {
			if !op.NFailC {
				op = withClass(op, variant(r, classes[r.Pick(8, 4, 2, 2, 6, 4)]))
			}
		}
		c.Ops = append(c.Ops, op)
	}
	return c
}

func main() {
	probe := false
	sentinels := "c20_sentinels.json"
	core.Main("c20", func(fs *flag.FlagSet) {
		fs.BoolVar(&probe, "probe", false, "print the behaviourally determined facts of the broadcast path (extract fallback)")
		fs.StringVar(&sentinels, "sentinels", sentinels, "sentinels and MapRPCErr tables regenerated from package chain (written by lib/extract_c20.py)")
	}, func(c *core.Common, out *core.Emitter) error {
		if err := loadSentinels(sentinels); err != nil {
			return err
		}
		defer wires.close()
		if probe {
			res, err := runProbe()
			if err != nil {
				return err
			}
			out.Emit(res)
			return nil
		}
		timing := os.Getenv("C20_TIMING") != ""
		emit := func(in caseIn, tags []string) error {
			t0 := time.Now()
			if timing {
				defer func() { fmt.Fprintf(os.Stderr, "c20: case %d %v %.2fs\n", in.Seed, tags, time.Since(t0).Seconds()) }()
			}
			co, err := runCase(in, tags)
			if err != nil {
				return fmt.Errorf("case seed %d: %v", in.Seed, err)
			}
			out.Emit(co)
			return nil
		}
		if c.Replay != "" {
			return core.ReadReplay(c.Replay, func(raw json.RawMessage) error {
				var cs struct {
					In caseIn `json:"in"`
				}
				if err := json.Unmarshal(raw, &cs); err != nil {
					return err
				}
				return emit(cs.In, []string{"replay"})
			})
		}
		for _, in := range systematic(c.Seed) {
			if err := emit(in, []string{"systematic"}); err != nil {
				return err
			}
		}
		r := gen.New(c.Seed, 20)
		for i := 0; i < c.N; i++ {
			long := i%10 == 9
			tags := []string{"random"}
			if long {
				tags = []string{"random_long"}
			}
			if err := emit(randomCase(r, c.Seed*1000000+int64(i)+1, long), tags); err != nil {
				return err
			}
		}
		return nil
	})
}
