package main

// The REAL error path of the chain backends.
//
// The wallet sees a backend through chain.Interface.SendRawTransaction.  In
// btcwallet that method is, for every backend, "ask the node, and when it
// answers with an error hand that error to MapRPCErr" (chain/btcd.go,
// chain/bitcoind_client.go, chain/neutrino.go); MapRPCErr turns the node's
// text into one of the sentinels of chain/errors.go by substring matching
// against the tables of that file.  publishTransaction then classifies the
// sentinel.  A slip anywhere on that path (a text matched to the wrong
// sentinel, a sentinel matched by the wrong substring, a missing MapRPCErr
// call) changes what the wallet does with the transaction.
//
// This file lets a script answer a broadcast with the RAW reply of a node -
// JSON-RPC error code and message as bitcoind / btcd put them on the wire, a
// transport failure, or a neutrino broadcast error - and runs the real code
// on it:
//
//	bitcoind  chain.NewBitcoindConn + NewBitcoindClient -> BitcoindClient.SendRawTransaction
//	          -> rpcclient (HTTP POST) -> stub node on 127.0.0.1 -> BitcoindClient.MapRPCErr
//	btcd      chain.RPCClient{Client: rpcclient} -> RPCClient.SendRawTransaction -> rpcclient
//	          -> stub node (getinfo version 0.24.2) -> RPCClient.MapRPCErr (BtcdErrMap)
//	btcdold   the same against a stub node reporting version 0.24.0
//	          (RPCClient.MapRPCErr consults BtcdErrMapPre2402 as well)
//	neutrino  chain.NeutrinoClient{CS: stub}.SendRawTransaction -> NeutrinoClient.MapRPCErr
//
// When no loopback listener can be opened the bitcoind and neutrino mappers
// are still called directly on a *btcjson.RPCError (their MapRPCErr does not
// use the receiver) and the btcd flavours fall back to the neutrino mapper
// (same tables); the cases are then tagged wire:direct.

import (
	"encoding/json"
	"errors"
	"fmt"
	"io"
	"net"
	"net/http"
	"strings"
	"sync"
	"time"

	"github.com/btcsuite/btcd/btcjson"
	"github.com/btcsuite/btcd/chaincfg"
	"github.com/btcsuite/btcd/rpcclient"
	"github.com/btcsuite/btcd/wire"
	"github.com/btcsuite/btcwallet/chain"
)

// rawReply is what the node answers to sendrawtransaction.
//
//	Code != 0            JSON-RPC error {code, message}
//	Code == 0, HTTP != 0 transport-level failure: that HTTP status with Msg as a plain-text body
//	neutrino             Msg is the text of the broadcast error
type rawReply struct {
	Code int
	HTTP int
	Msg  string
}

type stubNode struct {
	flavour string
	ln      net.Listener
	srv     *http.Server
	mu      sync.Mutex
	next    *rawReply
	calls   int
}

func (n *stubNode) setNext(r rawReply) {
	n.mu.Lock()
	defer n.mu.Unlock()
	cp := r
	n.next = &cp
}

type rpcReq struct {
	ID     json.RawMessage   `json:"id"`
	Method string            `json:"method"`
	Params []json.RawMessage `json:"params"`
}

func (n *stubNode) ServeHTTP(w http.ResponseWriter, r *http.Request) {
	body, _ := io.ReadAll(r.Body)
	var req rpcReq
	if err := json.Unmarshal(body, &req); err != nil {
		http.Error(w, "bad request", 400)
		return
	}
	reply := func(result interface{}, e *btcjson.RPCError) {
		out := map[string]interface{}{"id": req.ID, "result": result, "error": e}
		b, _ := json.Marshal(out)
		w.Header().Set("Content-Type", "application/json")
		if e != nil {
			// both nodes answer an RPC error with a non-200 status and the JSON body
			w.WriteHeader(500)
		}
		w.Write(b)
	}
	notFound := &btcjson.RPCError{Code: btcjson.ErrRPCMethodNotFound.Code, Message: "Method not found"}
	genesis := chaincfg.RegressionNetParams.GenesisHash.String()
	switch req.Method {
	case "getinfo":
		switch n.flavour {
		case "btcd":
			reply(map[string]interface{}{"version": 240200, "protocolversion": 70002, "blocks": 0}, nil)
		case "btcdold":
			reply(map[string]interface{}{"version": 240000, "protocolversion": 70002, "blocks": 0}, nil)
		default:
			reply(nil, notFound)
		}
	case "getnetworkinfo":
		reply(map[string]interface{}{"version": 250000, "subversion": "/Satoshi:25.0.0/", "protocolversion": 70016}, nil)
	case "getblockhash":
		reply(genesis, nil)
	case "getblockchaininfo":
		reply(map[string]interface{}{"chain": "regtest", "blocks": 0, "headers": 0, "bestblockhash": genesis,
			"difficulty": 1.0, "mediantime": 0, "pruned": false}, nil)
	case "sendrawtransaction":
		n.mu.Lock()
		nx := n.next
		n.next = nil
		n.calls++
		n.mu.Unlock()
		switch {
		case nx == nil:
			reply(strings.Repeat("00", 32), nil)
		case nx.Code != 0:
			reply(nil, &btcjson.RPCError{Code: btcjson.RPCErrorCode(nx.Code), Message: nx.Msg})
		default:
			w.Header().Set("Content-Type", "text/plain")
			w.WriteHeader(nx.HTTP)
			w.Write([]byte(nx.Msg))
		}
	default:
		reply(nil, notFound)
	}
}

func startStub(flavour string) (*stubNode, error) {
	ln, err := net.Listen("tcp", "127.0.0.1:0")
	if err != nil {
		return nil, err
	}
	n := &stubNode{flavour: flavour, ln: ln}
	n.srv = &http.Server{Handler: n, ReadHeaderTimeout: 5 * time.Second}
	go n.srv.Serve(ln)
	return n, nil
}

// neutrinoCS is the part of the chain service that SendRawTransaction uses.
type neutrinoCS struct {
	chain.NeutrinoChainService
	mu   sync.Mutex
	next error
}

func (c *neutrinoCS) SendTransaction(*wire.MsgTx) error {
	c.mu.Lock()
	defer c.mu.Unlock()
	e := c.next
	c.next = nil
	return e
}

// wireBackends holds the real chain clients, created on first use.
type wireBackends struct {
	once     sync.Once
	direct   bool // no loopback: MapRPCErr is called directly
	why      string
	nodes    map[string]*stubNode
	clients  map[string]chain.Interface
	ncs      *neutrinoCS
	neutrino *chain.NeutrinoClient
	closers  []func()
}

var wires wireBackends

var wireFlavours = []string{"bitcoind", "btcd", "btcdold", "neutrino"}

func (wb *wireBackends) init() {
	wb.once.Do(func() {
		wb.nodes = map[string]*stubNode{}
		wb.clients = map[string]chain.Interface{}
		wb.ncs = &neutrinoCS{}
		wb.neutrino = &chain.NeutrinoClient{CS: wb.ncs}
		fail := func(err error) {
			wb.direct, wb.why = true, err.Error()
			wb.close()
		}
		for _, fl := range []string{"bitcoind", "btcd", "btcdold"} {
			n, err := startStub(fl)
			if err != nil {
				fail(err)
				return
			}
			wb.nodes[fl] = n
			wb.closers = append(wb.closers, func() { n.srv.Close() })
			host := n.ln.Addr().String()
			if fl == "bitcoind" {
				conn, err := chain.NewBitcoindConn(&chain.BitcoindConfig{
					ChainParams: &chaincfg.RegressionNetParams, Host: host, User: "u", Pass: "p",
					PollingConfig: &chain.PollingConfig{BlockPollingInterval: time.Hour, TxPollingInterval: time.Hour},
				})
				if err != nil {
					fail(fmt.Errorf("NewBitcoindConn against the stub node: %v", err))
					return
				}
				wb.clients[fl] = conn.NewBitcoindClient()
				continue
			}
			rc, err := rpcclient.New(&rpcclient.ConnConfig{Host: host, User: "u", Pass: "p",
				HTTPPostMode: true, DisableTLS: true}, nil)
			if err != nil {
				fail(err)
				return
			}
			wb.closers = append(wb.closers, rc.Shutdown)
			wb.clients[fl] = &chain.RPCClient{Client: rc}
		}
	})
}

func (wb *wireBackends) close() {
	for _, f := range wb.closers {
		f()
	}
	wb.closers = nil
}

// rawError is the error value rpcclient hands to the chain client for a
// reply (used on the direct path and to print the text of a reply).
func rawError(r rawReply) error {
	if r.Code != 0 {
		return &btcjson.RPCError{Code: btcjson.RPCErrorCode(r.Code), Message: r.Msg}
	}
	if r.HTTP != 0 {
		return fmt.Errorf("status code: %d, response: %q", r.HTTP, r.Msg)
	}
	return errors.New(r.Msg)
}

// send runs the real SendRawTransaction of the flavour's chain client with
// the node scripted to answer r, and returns what the wallet would get.
func (wb *wireBackends) send(flavour string, r rawReply, tx *wire.MsgTx) error {
	wb.init()
	if flavour == "neutrino" {
		wb.ncs.mu.Lock()
		wb.ncs.next = rawError(r)
		wb.ncs.mu.Unlock()
		_, err := wb.neutrino.SendRawTransaction(tx, false)
		return err
	}
	if wb.direct {
		raw := rawError(r)
		if flavour == "bitcoind" {
			return (&chain.BitcoindClient{}).MapRPCErr(raw)
		}
		return wb.neutrino.MapRPCErr(raw)
	}
	cl, ok := wb.clients[flavour]
	if !ok {
		return fmt.Errorf("c20: unknown backend flavour %q", flavour)
	}
	wb.nodes[flavour].setNext(r)
	_, err := cl.SendRawTransaction(tx, false)
	if err == nil {
		return errors.New("c20: the stub node's error reply was lost (SendRawTransaction returned nil)")
	}
	return err
}
