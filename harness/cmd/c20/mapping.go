package main

// The error mapping of one backend flavour, run over EVERY key of the tables
// regenerated from chain/errors.go (all four tables for every flavour: a
// bitcoind text offered to the btcd mapper and vice versa is part of the
// picture) and over the ground-truth replies of answers.go, through the real
// SendRawTransaction / MapRPCErr of the flavour (wire.go).  Reported per
// reply: the text MapRPCErr saw (err.Error() of what rpcclient hands over),
// the sentinel the result Is, and the truth when it is known.  The Coq side
// (Tx/PublishCorr.v) compares the CLASS of the mapped sentinel with the
// classes the model of MapRPCErr allows for that text (tables regenerated
// into Generated/PublishFacts.v), and with the truth.

import (
	"fmt"
	"strings"

	"github.com/btcsuite/btcd/wire"
)

type mapRow struct {
	Backend string `json:"backend"`
	Text    string `json:"text"`   // what matchErrStr sees
	Mapped  string `json:"mapped"` // sentinel name; "" = the result Is no sentinel
	Truth   string `json:"truth,omitempty"`
	Src     string `json:"src"` // table:key or truth
}

func dummyTx() *wire.MsgTx {
	tx := wire.NewMsgTx(2)
	tx.AddTxIn(wire.NewTxIn(&wire.OutPoint{Index: 1}, nil, nil))
	tx.AddTxOut(wire.NewTxOut(1000, []byte{0x51}))
	return tx
}

func asciiOnly(s string) bool {
	for _, c := range s {
		if c < 32 || c > 126 {
			return false
		}
	}
	return true
}

func runMapCase(in caseIn) (out caseOut, err error) {
	fl := in.Map
	ok := false
	for _, f := range wireFlavours {
		ok = ok || f == fl
	}
	if !ok {
		return out, fmt.Errorf("unknown backend flavour %q", fl)
	}
	tx := dummyTx()
	oracle := map[string]bool{}
	var detail []string
	one := func(r rawReply, truth, src string) error {
		e := wires.send(fl, r, tx)
		if e == nil {
			return fmt.Errorf("mapping %s: no error for reply %+v", fl, r)
		}
		model, merr := modelAnswer(ansSpec{kind: "raw"}, e)
		if merr != nil {
			return merr
		}
		row := mapRow{Backend: fl, Text: rawError(r).Error(), Mapped: strings.TrimPrefix(model, "s:"), Truth: truth, Src: src}
		if model == "reject" {
			row.Mapped = ""
		}
		if !asciiOnly(row.Text) {
			return fmt.Errorf("mapping: non-ASCII text %q", row.Text)
		}
		out.Obs.Mapping = append(out.Obs.Mapping, row)
		// what the property needs from the mapping
		mt := truthOfSentinel(row.Mapped)
		switch {
		case truth == "reject" && mt != "reject":
			oracle["rejection_mapped_to_accepting_class"] = true
			detail = append(detail, fmt.Sprintf("%s: %q means a rejection but is mapped to chain.%s, which publishTransaction treats as %s", fl, row.Text, row.Mapped, mt))
		case truth == "in_mempool" && mt != "in_mempool":
			oracle["mempool_answer_mapped_to_other_class"] = true
			detail = append(detail, fmt.Sprintf("%s: %q means the node has the transaction in its mempool but is mapped to chain.%s (%s): the wallet would forget it", fl, row.Text, row.Mapped, mt))
		}
		return nil
	}
	for _, tbl := range []string{"bitcoind", "bitcoind28", "btcd", "btcd_pre2402"} {
		for _, kv := range chainSrc.Tables[tbl] {
			key := kv[0]
			variants := []string{key}
			if strings.HasPrefix(tbl, "bitcoind") && key == strings.ToLower(key) && strings.Contains(key, " ") {
				// bitcoind's reject reasons are dashed; chain/errors.go stores them with spaces
				variants = append(variants, strings.ReplaceAll(key, " ", "-"))
			}
			for _, v := range variants {
				msg, code := v, -26
				if strings.HasPrefix(tbl, "btcd") {
					msg = "TX rejected: " + v
				}
				if err := one(rawReply{Code: code, Msg: msg}, "", tbl+":"+key); err != nil {
					return out, err
				}
			}
		}
	}
	for _, r := range rawRowsFor(fl) {
		spec, err := parseAnswer(r.answer(fl))
		if err != nil {
			return out, err
		}
		if err := one(spec.reply, r.truth, "truth"); err != nil {
			return out, err
		}
	}
	out.In = in
	out.Obs.Minconfs = minconfs
	out.Obs.Events = []evOut{}
	out.Oracle = []string{}
	for k := range oracle {
		out.Oracle = append(out.Oracle, k)
	}
	out.Detail = detail
	mode := "wire:loopback"
	if wires.direct {
		mode = "wire:direct"
	}
	out.Tags = []string{"mapping", "mapping:" + fl, mode}
	out.Site = "*"
	if len(out.Oracle) > 0 {
		out.Site = "chain/errors.go:" + fl
	}
	return out, nil
}
