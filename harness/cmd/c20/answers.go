package main

// What a script can make the backend answer to SendRawTransaction, and what
// the property says about each answer.
//
// An answer is written as a string (replayable):
//
//	accept                      no error
//	in_mempool known confirmed  the sentinel chain.ErrTxAlreadyInMempool / ..Known / ..Confirmed itself
//	reject                      an error that is no sentinel of package chain (simchain.ErrRejected)
//	s:<Name>                    the exported sentinel chain.<Name> itself
//	w:<Name>                    fmt.Errorf("...: %w", chain.<Name>)
//	r:<flavour>:<truth>:<code>:<text>
//	                            the RAW reply of a node, passed through the real SendRawTransaction /
//	                            MapRPCErr of the flavour's chain client (wire.go); code = JSON-RPC error
//	                            code, or h<status> for a transport failure; truth = what the node means
//
// The list of sentinels is NOT written here: it is regenerated from the
// source of package chain by lib/extract_c20.py (harness/cmd/extract-c20
// -chain) into c20_sentinels.json, and every sentinel of that list is sent.
// RPCErr constants are obtained as chain.RPCErr(index); the handful of
// errors.New variables need a Go identifier and are listed in varSentinels -
// a variable sentinel that appears in the source but not there makes the
// harness fail (nothing is silently skipped).
//
// The TRUTH of an answer is what the backend is saying, independently of how
// btcwallet maps or classifies it:
//
//	accept      the node took the transaction
//	in_mempool  the node already has it in its mempool
//	known       the node already knows it / confirmed: it is already in the block chain
//	reject      anything else: the node refused it, or the hand-over failed
//
// and the oracle (judgeAttempt, judgeResend) is stated on the truth and on
// what the caller got:
//
//	truth accept / in_mempool        -> the transaction stays recorded, counted once
//	truth reject, or the call
//	returned an error                -> it and every unconfirmed transaction spending its outputs
//	                                    are forgotten; for a fresh transaction balances and the
//	                                    spendable set are those of before the attempt
//	truth known / confirmed, success -> nothing is demanded (the property text does not say whether
//	                                    such a transaction is kept)
//
// What the property needs from the error mapping follows: a text that means
// "rejected" must not come out of MapRPCErr as a sentinel that
// publishTransaction treats as "the node has it" (the wallet would keep, and
// report as sent, a transaction nobody has), and a text that means "in my
// mempool" must come out as the sentinel that makes the wallet keep the
// transaction (otherwise the wallet forgets a transaction that is out there).

import (
	"encoding/json"
	"errors"
	"fmt"
	"os"
	"strconv"
	"strings"

	"github.com/btcsuite/btcwallet/chain"

	"verifharness/internal/simchain"
)

type sentinelInfo struct {
	Name  string `json:"name"`
	Kind  string `json:"kind"`
	Index int    `json:"index"`
	Where string `json:"where"`
}

type chainInfo struct {
	Sentinels []sentinelInfo         `json:"sentinels"`
	Tables    map[string][][2]string `json:"tables"`
}

var (
	chainSrc   chainInfo
	sentinelOf = map[string]error{}
)

// the errors.New sentinels of package chain (a Go identifier is needed)
var varSentinels = map[string]error{
	"ErrBackendVersion":             chain.ErrBackendVersion,
	"ErrInvalidParam":               chain.ErrInvalidParam,
	"ErrUndefined":                  chain.ErrUndefined,
	"ErrBitcoindClientShuttingDown": chain.ErrBitcoindClientShuttingDown,
	"ErrBitcoindStartTimeout":       chain.ErrBitcoindStartTimeout,
	"ErrUnimplemented":              chain.ErrUnimplemented,
}

func loadSentinels(path string) error {
	b, err := os.ReadFile(path)
	if err != nil {
		return fmt.Errorf("the list of sentinels regenerated from package chain is missing (%v): run bin/extract", err)
	}
	if err := json.Unmarshal(b, &chainSrc); err != nil {
		return fmt.Errorf("%s: %v", path, err)
	}
	nConst := 0
	for _, s := range chainSrc.Sentinels {
		switch s.Kind {
		case "rpcerr":
			v := chain.RPCErr(s.Index)
			// the source reading and the compiled package must agree
			if want := chainSrc.Tables["bitcoind"][s.Index]; want[1] != s.Name || want[0] != v.Error() {
				return fmt.Errorf("sentinel %s: source says RPCErr(%d) with text %q, the compiled package says %q",
					s.Name, s.Index, want[0], v.Error())
			}
			sentinelOf[s.Name] = v
			nConst++
		case "var":
			v, ok := varSentinels[s.Name]
			if !ok {
				return fmt.Errorf("sentinel chain.%s (%s) is declared in the source but has no value in harness/cmd/c20/answers.go varSentinels", s.Name, s.Where)
			}
			sentinelOf[s.Name] = v
		default:
			return fmt.Errorf("sentinel %s of unknown kind %q", s.Name, s.Kind)
		}
	}
	for n := range varSentinels {
		if _, ok := sentinelOf[n]; !ok {
			return fmt.Errorf("chain.%s is known to the harness but was not found in the source", n)
		}
	}
	if got := chain.RPCErr(nConst).Error(); got != chain.RPCErr(1<<30).Error() {
		return fmt.Errorf("the compiled package has an RPCErr(%d) = %q beyond the %d constants read from the source", nConst, got, nConst)
	}
	if len(sentinelOf) < 4 {
		return errors.New("implausibly short sentinel list")
	}
	return nil
}

// truthOfSentinel: what a backend that answers with this sentinel is saying
// (doc comments of chain/errors.go).
func truthOfSentinel(name string) string {
	switch name {
	case "ErrTxAlreadyInMempool":
		return "in_mempool"
	case "ErrTxAlreadyKnown":
		return "known"
	case "ErrTxAlreadyConfirmed":
		return "confirmed"
	}
	return "reject"
}

type ansSpec struct {
	src     string // the string form
	kind    string // accept legacy sentinel wrapped raw
	name    string // sentinel name (sentinel, wrapped, legacy classes)
	flavour string
	reply   rawReply
	truth   string
}

func parseAnswer(s string) (ansSpec, error) {
	a := ansSpec{src: s}
	switch {
	case s == "" || s == "accept":
		a.src, a.kind, a.truth = "accept", "accept", "accept"
	case s == "in_mempool":
		a.kind, a.name, a.truth = "legacy", "ErrTxAlreadyInMempool", "in_mempool"
	case s == "known":
		a.kind, a.name, a.truth = "legacy", "ErrTxAlreadyKnown", "known"
	case s == "confirmed":
		a.kind, a.name, a.truth = "legacy", "ErrTxAlreadyConfirmed", "confirmed"
	case s == "reject":
		a.kind, a.truth = "legacy", "reject"
	case strings.HasPrefix(s, "s:"), strings.HasPrefix(s, "w:"):
		a.kind, a.name = "sentinel", s[2:]
		if s[0] == 'w' {
			a.kind = "wrapped"
		}
		if _, ok := sentinelOf[a.name]; !ok {
			return a, fmt.Errorf("answer %q: chain.%s is not in the regenerated sentinel list", s, a.name)
		}
		a.truth = truthOfSentinel(a.name)
	case strings.HasPrefix(s, "r:"):
		p := strings.SplitN(s, ":", 5)
		if len(p) != 5 {
			return a, fmt.Errorf("answer %q: want r:<flavour>:<truth>:<code>:<text>", s)
		}
		a.kind, a.flavour, a.truth = "raw", p[1], p[2]
		ok := false
		for _, f := range wireFlavours {
			ok = ok || f == a.flavour
		}
		if !ok {
			return a, fmt.Errorf("answer %q: unknown flavour", s)
		}
		switch a.truth {
		case "in_mempool", "known", "confirmed", "reject", "":
		default:
			return a, fmt.Errorf("answer %q: unknown truth", s)
		}
		if strings.HasPrefix(p[3], "h") {
			n, err := strconv.Atoi(p[3][1:])
			if err != nil || n < 400 {
				return a, fmt.Errorf("answer %q: bad HTTP status", s)
			}
			a.reply = rawReply{HTTP: n, Msg: p[4]}
		} else {
			n, err := strconv.Atoi(p[3])
			if err != nil || n == 0 {
				return a, fmt.Errorf("answer %q: bad JSON-RPC error code", s)
			}
			a.reply = rawReply{Code: n, Msg: p[4]}
		}
	default:
		return a, fmt.Errorf("unknown answer %q", s)
	}
	return a, nil
}

// modelAnswer names the answer as the model sees it: the error's relation to
// the sentinels (errors.Is), which is all publishTransaction looks at.
//
//	accept | in_mempool | known | confirmed | reject (Is no sentinel) | s:<Name>
func modelAnswer(a ansSpec, err error) (string, error) {
	switch a.kind {
	case "accept":
		return "accept", nil
	case "legacy":
		return a.src, nil
	case "sentinel", "wrapped":
		return "s:" + a.name, nil
	}
	// raw: which sentinel did the real mapping produce?
	var is []string
	for _, s := range chainSrc.Sentinels {
		if errors.Is(err, sentinelOf[s.Name]) {
			is = append(is, s.Name)
		}
	}
	switch len(is) {
	case 0:
		return "reject", nil
	case 1:
		return "s:" + is[0], nil
	}
	return "", fmt.Errorf("the mapped error %v Is several sentinels: %v", err, is)
}

// errorOf produces the error value of a non-raw answer.
func errorOf(a ansSpec) error {
	switch a.kind {
	case "legacy":
		if a.name == "" {
			return simchain.ErrRejected
		}
		return sentinelOf[a.name]
	case "sentinel":
		return sentinelOf[a.name]
	case "wrapped":
		return fmt.Errorf("c20: backend said: %w", sentinelOf[a.name])
	}
	return nil
}

// ---------------------------------------------------------------- ground truth of raw replies

// rawRow is one reply as a node puts it on the wire, with what the node
// means.  Codes: bitcoind RPC_TRANSACTION_ERROR -25, RPC_TRANSACTION_REJECTED
// -26, RPC_TRANSACTION_ALREADY_IN_CHAIN -27, RPC_DESERIALIZATION_ERROR -22,
// RPC_IN_WARMUP -28; btcd ErrRPCTxError -25, ErrRPCTxRejected -26,
// ErrRPCTxAlreadyInChain -27 (message "TX rejected: " + rule error).
// Written from the nodes' sources (bitcoind validation.cpp / rpc, btcd
// mempool.go / rpcserver.go), NOT from chain/errors.go.
type rawRow struct {
	flavours []string
	code     string
	text     string
	truth    string
}

var h64 = "4a5e1e4baab89f3a32518a88c31bc87f618f76673e2cc77ab2127b7afdeda33b"

var bitcoindOnly = []string{"bitcoind"}
var btcdNew = []string{"btcd"}
var btcdOld = []string{"btcdold", "neutrino"}
var btcdAll = []string{"btcd", "btcdold", "neutrino"}
var allFl = []string{"bitcoind", "btcd", "btcdold", "neutrino"}

var rawTruth = []rawRow{
	// --- the node has it
	{bitcoindOnly, "-26", "txn-already-in-mempool", "in_mempool"},
	{bitcoindOnly, "-26", "txn-already-known", "known"},
	{bitcoindOnly, "-27", "Transaction already in block chain", "confirmed"},
	{bitcoindOnly, "-27", "Transaction outputs already in utxo set", "confirmed"},
	{btcdNew, "-26", "TX rejected: already have transaction in mempool " + h64, "in_mempool"},
	{btcdOld, "-26", "TX rejected: already have transaction " + h64, "in_mempool"},
	{btcdNew, "-27", "TX rejected: transaction already exists in blockchain " + h64, "confirmed"},
	{btcdOld, "-27", "TX rejected: transaction already exists", "confirmed"},
	// --- refused
	{bitcoindOnly, "-26", "txn-mempool-conflict", "reject"},
	{bitcoindOnly, "-26", "insufficient fee, rejecting replacement " + h64 + "; new feerate 0.00001000 BTC/kvB <= old feerate 0.00002000 BTC/kvB", "reject"},
	{bitcoindOnly, "-26", "min relay fee not met, 110 < 141", "reject"},
	{bitcoindOnly, "-26", "mempool min fee not met, 141 < 1000", "reject"},
	{bitcoindOnly, "-25", "bad-txns-inputs-missingorspent", "reject"},
	{bitcoindOnly, "-25", "Fee exceeds maximum configured by user (e.g. -maxtxfee, maxfeerate)", "reject"},
	{bitcoindOnly, "-25", "Unspendable output exceeds maximum configured by user (maxburnamount)", "reject"},
	{bitcoindOnly, "-26", "dust", "reject"},
	{bitcoindOnly, "-26", "tx-size-small", "reject"},
	{bitcoindOnly, "-26", "tx-size", "reject"},
	{bitcoindOnly, "-26", "non-mandatory-script-verify-flag (Witness program hash mismatch)", "reject"},
	{bitcoindOnly, "-26", "mandatory-script-verify-flag-failed (Script evaluated without error but finished with a false/empty top stack element)", "reject"},
	{bitcoindOnly, "-26", "non-final", "reject"},
	{bitcoindOnly, "-26", "non-BIP68-final", "reject"},
	{bitcoindOnly, "-26", "too-long-mempool-chain, too many unconfirmed ancestors [limit: 25]", "reject"},
	{bitcoindOnly, "-26", "bad-txns-in-belowout, value in (0.001) < value out (0.002)", "reject"},
	{bitcoindOnly, "-26", "too many potential replacements, rejecting replacement " + h64 + "; too many potential replacements (101 > 100)", "reject"},
	{bitcoindOnly, "-26", "replacement-adds-unconfirmed, replacement " + h64 + " adds unconfirmed input, idx 1", "reject"},
	{bitcoindOnly, "-26", "bad-txns-spends-conflicting-tx, " + h64 + " spends conflicting transaction " + h64, "reject"},
	{bitcoindOnly, "-26", "scriptpubkey", "reject"},
	{bitcoindOnly, "-26", "bare-multisig", "reject"},
	{bitcoindOnly, "-22", "TX decode failed. Make sure the tx has at least one input.", "reject"},
	{bitcoindOnly, "-28", "Loading block index...", "reject"},
	{btcdAll, "-26", "TX rejected: transaction " + h64 + " has 110 fees which is under the required amount of 141", "reject"},
	{btcdAll, "-26", "TX rejected: transaction " + h64 + " has been rejected by the rate limiter due to low fees", "reject"},
	{btcdNew, "-26", "TX rejected: output already spent in mempool: output=" + h64 + ":0, tx=" + h64, "reject"},
	{btcdOld, "-26", "TX rejected: output " + h64 + ":0 already spent by transaction " + h64 + " in the memory pool", "reject"},
	{btcdAll, "-25", "TX rejected: orphan transaction " + h64 + " references outputs of unknown or fully-spent transaction " + h64, "reject"},
	{btcdNew, "-26", "TX rejected: replacement transaction has an insufficient fee rate: needs more than 10, has 5", "reject"},
	{btcdOld, "-26", "TX rejected: replacement transaction " + h64 + " has an insufficient fee rate: needs more than 10, has 5", "reject"},
	{btcdNew, "-26", "TX rejected: transaction output 0: payment is dust", "reject"},
	{btcdOld, "-26", "TX rejected: transaction output 0: payment of 100 is dust", "reject"},
	{btcdAll, "-26", "TX rejected: transaction " + h64 + " is not finalized", "reject"},
	{btcdAll, "-26", "TX rejected: transaction " + h64 + " has a non-standard input: signature script is not push only", "reject"},
	{btcdAll, "-26", "TX rejected: transaction has no inputs", "reject"},
	{btcdAll, "-22", "TX decode failed: unexpected EOF", "reject"},
	// --- the hand-over itself fails (transport)
	{allFl, "h503", "Work queue depth exceeded", "reject"},
	{allFl, "h401", "", "reject"},
	{allFl, "-32603", "Internal error", "reject"},
}

func (r rawRow) answer(flavour string) string {
	return "r:" + flavour + ":" + r.truth + ":" + r.code + ":" + r.text
}

func rawRowsFor(flavour string) []rawRow {
	var out []rawRow
	for _, r := range rawTruth {
		for _, f := range r.flavours {
			if f == flavour {
				out = append(out, r)
			}
		}
	}
	return out
}
