package main

// Behavioural determination of the facts of Generated/PublishFacts.v, used by
// lib/extract_c20.py ONLY when the source-shape reader (harness/cmd/extract-c20)
// does not recognise the code.  Every fact is a statement about what one call
// does, and each scenario below is the minimal witness scenario of that fact
// (the same ones as Properties/C20.v's examples and corpus/C20): the fact is
// reported as the code behaves.  Several instances per fact (a transaction
// spending a confirmed coin, and one chained on an unconfirmed parent; several
// wallets, hence several txids and map orders); instances that disagree make
// the probe fail.

import (
	"fmt"

	"github.com/btcsuite/btcd/wire"
	"github.com/btcsuite/btcwallet/walletdb"
)

type probeAction struct {
	Removes bool   `json:"removes"`
	IsError bool   `json:"is_error"`
	Where   string `json:"where"`
}

type probeResult struct {
	RecordsBeforeBroadcast bool                   `json:"records_before_broadcast"`
	NotifyRemoves          bool                   `json:"notify_failure_removes_tx"`
	NotifyIsError          bool                   `json:"notify_failure_is_error"`
	NotifyWhere            string                 `json:"notify_where"`
	Classes                map[string]probeAction `json:"classes"`
	ResendSorted           bool                   `json:"resend_uses_dependency_sort"`
	ResendEvery            bool                   `json:"resend_offers_every_element"`
	ResendWhere            string                 `json:"resend_where"`
	RemoveIsRecursive      bool                   `json:"remove_unmined_is_remove_conflict"`
	RemoveWhere            string                 `json:"remove_where"`
	// per sentinel of the regenerated list: what PublishTransaction does when
	// the backend answers with it (plain AND wrapped with %w, which must agree)
	SentinelActions map[string]probeAction `json:"sentinel_actions"`
	Scenarios       int                    `json:"scenarios"`
}

type attemptObs struct {
	isErr, stays           bool
	recAtNotify, recAtSend bool
	nNotify, nSend         int
	notifyBeforeSend       bool
}

func (wd *world) isUnmined(tx *wire.MsgTx) bool {
	h := tx.TxHash()
	found := false
	_ = wd.view(func(ns walletdb.ReadBucket) error {
		hs, err := wd.w.TxStore.UnminedTxHashes(ns)
		if err != nil {
			return err
		}
		for _, x := range hs {
			if *x == h {
				found = true
			}
		}
		return nil
	})
	return found
}

// probeAttempt: a funded wallet; optionally an accepted unconfirmed parent;
// a FRESH transaction is created (spending the parent's change when chained)
// and handed to PublishTransaction with the scripted outcome.
func probeAttempt(seed int64, chained bool, ans string, nfail bool) (attemptObs, error) {
	var o attemptObs
	wd, err := newWorld(seed)
	if err != nil {
		return o, err
	}
	defer wd.env.Close()
	if err := wd.opFund(opIn{Amts: []int64{1000000, 600000}}); err != nil {
		return o, err
	}
	if err := wd.mineBlock(nil, "mine"); err != nil {
		return o, err
	}
	mc := int32(1)
	if chained {
		if err := wd.opPublish(opIn{Amt: 200000, Minconf: 1}); err != nil {
			return o, err
		}
		mc = 0
	}
	tx, err := wd.createTx(opIn{Amt: 150000, Minconf: mc})
	if err != nil {
		return o, err
	}
	ti, err := wd.addTx(tx, true)
	if err != nil {
		return o, err
	}
	if chained {
		before, err := wd.observe()
		if err != nil {
			return o, err
		}
		ok := false
		for _, in := range ti.out.Ins {
			if has(before.Unmined, in[0]) > 0 {
				ok = true
			}
		}
		if !ok {
			return o, fmt.Errorf("probe: chained instance does not spend the unconfirmed parent")
		}
	}
	if wd.isUnmined(tx) {
		return o, fmt.Errorf("probe: created transaction already recorded")
	}
	wd.ch.hookNotify = func() {
		o.nNotify++
		o.recAtNotify = wd.isUnmined(tx)
		o.notifyBeforeSend = o.nSend == 0
	}
	wd.ch.hookSend = func(m *wire.MsgTx) {
		o.nSend++
		o.recAtSend = wd.isUnmined(tx)
	}
	nf := 0
	if nfail {
		nf = 1
	}
	spec, err := parseAnswer(ans)
	if err != nil {
		return o, err
	}
	wd.ch.script([]ansSpec{spec}, 0, nf)
	callErr := wd.w.PublishTransaction(tx, "probe")
	wd.ch.clear()
	wd.ch.hookNotify, wd.ch.hookSend = nil, nil
	o.isErr = callErr != nil
	o.stays = wd.isUnmined(tx)
	return o, nil
}

// probeSentinel: one funded wallet; for each answer in turn a FRESH
// transaction is created and handed to PublishTransaction.
func probeSentinel(seed int64, answers []string) ([]attemptObs, error) {
	wd, err := newWorld(seed)
	if err != nil {
		return nil, err
	}
	defer wd.env.Close()
	if err := wd.opFund(opIn{Amts: []int64{1000000, 600000}}); err != nil {
		return nil, err
	}
	if err := wd.mineBlock(nil, "mine"); err != nil {
		return nil, err
	}
	var out []attemptObs
	for i, ans := range answers {
		tx, err := wd.createTx(opIn{Amt: 90000 + int64(i)*1000, Minconf: 0})
		if err != nil {
			return nil, err
		}
		if _, err := wd.addTx(tx, true); err != nil {
			return nil, err
		}
		spec, err := parseAnswer(ans)
		if err != nil {
			return nil, err
		}
		var o attemptObs
		wd.ch.hookSend = func(m *wire.MsgTx) { o.nSend++ }
		wd.ch.script([]ansSpec{spec}, 0, 0)
		callErr := wd.w.PublishTransaction(tx, "probe")
		wd.ch.clear()
		wd.ch.hookSend = nil
		if o.nSend != 1 {
			return nil, fmt.Errorf("probe: %s: %d SendRawTransaction calls", ans, o.nSend)
		}
		o.isErr = callErr != nil
		o.stays = wd.isUnmined(tx)
		out = append(out, o)
	}
	return out, nil
}

// chainWorld: parent -> child -> grandchild (each spends the previous change)
// plus an independent unconfirmed payment to the wallet; all recorded.
func chainWorld(seed int64) (*world, []*txInfo, error) {
	wd, err := newWorld(seed)
	if err != nil {
		return nil, nil, err
	}
	fail := func(e error) (*world, []*txInfo, error) { wd.env.Close(); return nil, nil, e }
	if err := wd.opFund(opIn{Amts: []int64{2000000}}); err != nil {
		return fail(err)
	}
	var chain []*txInfo
	for i, amt := range []int64{500000, 300000, 200000} {
		mc := int32(0)
		if i == 0 {
			mc = 1
		}
		tx, err := wd.createTx(opIn{Amt: amt, Minconf: mc})
		if err != nil {
			return fail(err)
		}
		ti, err := wd.addTx(tx, true)
		if err != nil {
			return fail(err)
		}
		wd.ch.script(nil, 0, 0)
		if err := wd.w.PublishTransaction(tx, "probe"); err != nil {
			return fail(fmt.Errorf("probe: accepted publish failed: %v", err))
		}
		if i > 0 {
			ok := false
			for _, in := range ti.out.Ins {
				if in[0] == chain[i-1].id {
					ok = true
				}
			}
			if !ok {
				return fail(fmt.Errorf("probe: transaction %d of the chain does not spend its predecessor", i))
			}
		}
		chain = append(chain, ti)
	}
	if err := wd.opRecv(opIn{Amts: []int64{70000}}); err != nil {
		return fail(err)
	}
	return wd, chain, nil
}

func runProbe() (probeResult, error) {
	res := probeResult{Classes: map[string]probeAction{}, NotifyWhere: "probe", ResendWhere: "probe", RemoveWhere: "probe"}
	seed := int64(7700000)
	next := func() int64 { seed++; res.Scenarios++; return seed }

	// 1. answer classes, subscription failure, record/subscribe/broadcast order.
	//    The fact "<class>_removes" is literally: after PublishTransaction of a
	//    fresh transaction answered <class>, it is not in the unconfirmed store;
	//    "<class>_is_error": the call returned an error.
	recOK := true
	classes := []struct{ key, ans string }{{"accepted", "accept"}, {"in_mempool", "in_mempool"},
		{"already_known", "known"}, {"already_confirmed", "confirmed"}, {"other", "reject"}}
	for _, c := range classes {
		var first *attemptObs
		for _, chained := range []bool{false, true} {
			o, err := probeAttempt(next(), chained, c.ans, false)
			if err != nil {
				return res, err
			}
			if o.nSend != 1 {
				return res, fmt.Errorf("probe: %s: %d SendRawTransaction calls", c.key, o.nSend)
			}
			// recorded before the subscription, subscription before the broadcast,
			// still recorded when the backend is asked
			if !(o.nNotify == 1 && o.recAtNotify && o.notifyBeforeSend && o.recAtSend) {
				recOK = false
			}
			if first == nil {
				cp := o
				first = &cp
			} else if first.isErr != o.isErr || first.stays != o.stays {
				return res, fmt.Errorf("probe: class %s behaves differently on a chained transaction", c.key)
			}
		}
		res.Classes[c.key] = probeAction{Removes: !first.stays, IsError: first.isErr, Where: "probe"}
	}
	res.RecordsBeforeBroadcast = recOK
	var nfFirst *attemptObs
	for _, chained := range []bool{false, true} {
		for _, ans := range []string{"accept", "reject"} {
			o, err := probeAttempt(next(), chained, ans, true)
			if err != nil {
				return res, err
			}
			if o.nSend != 0 {
				return res, fmt.Errorf("probe: broadcast although the subscription failed")
			}
			if nfFirst == nil {
				cp := o
				nfFirst = &cp
			} else if nfFirst.isErr != o.isErr || nfFirst.stays != o.stays {
				return res, fmt.Errorf("probe: subscription failure behaves differently across instances")
			}
		}
	}
	res.NotifyRemoves, res.NotifyIsError = !nfFirst.stays, nfFirst.isErr

	// 1b. EVERY sentinel of the list regenerated from package chain, plain and
	//     wrapped (errors.Is must see through %w), and an error that is no
	//     sentinel: nothing is taken from the five classes above.
	res.SentinelActions = map[string]probeAction{}
	for _, sn := range chainSrc.Sentinels {
		obs, err := probeSentinel(next(), []string{"s:" + sn.Name, "w:" + sn.Name, "w:" + sn.Name, "s:" + sn.Name})
		if err != nil {
			return res, err
		}
		for _, o := range obs[1:] {
			if o.isErr != obs[0].isErr || o.stays != obs[0].stays {
				return res, fmt.Errorf("probe: chain.%s is treated differently when wrapped with %%w or on a chained transaction", sn.Name)
			}
		}
		res.SentinelActions[sn.Name] = probeAction{Removes: !obs[0].stays, IsError: obs[0].isErr, Where: "probe"}
	}
	for key, name := range map[string]string{"in_mempool": "ErrTxAlreadyInMempool", "already_known": "ErrTxAlreadyKnown", "already_confirmed": "ErrTxAlreadyConfirmed"} {
		a, b := res.Classes[key], res.SentinelActions[name]
		if a.Removes != b.Removes || a.IsError != b.IsError {
			return res, fmt.Errorf("probe: instances of chain.%s disagree", name)
		}
	}

	// 2. RemoveUnminedTx is the recursive removal: refuse the re-broadcast of
	//    the parent of a chain with an answer class that removes; the fact is
	//    true iff child and grandchild are gone as well.
	removing := ""
	for _, c := range classes {
		if res.Classes[c.key].Removes && removing == "" {
			removing = c.ans
		}
	}
	res.RemoveIsRecursive = true
	if removing != "" {
		for i := 0; i < 2; i++ {
			wd, chain, err := chainWorld(next())
			if err != nil {
				return res, err
			}
			rspec, _ := parseAnswer(removing)
			wd.ch.script([]ansSpec{rspec}, 0, 0)
			_ = wd.w.PublishTransaction(chain[0].tx, "probe")
			wd.ch.clear()
			if wd.isUnmined(chain[0].tx) {
				wd.env.Close()
				return res, fmt.Errorf("probe: a recorded transaction is not removed by the class that removes a fresh one")
			}
			if wd.isUnmined(chain[1].tx) || wd.isUnmined(chain[2].tx) {
				res.RemoveIsRecursive = false
			}
			wd.env.Close()
		}
	}

	// 3. resend order: six wallets (different txids, Go map orders), three
	//    re-broadcasts each, all accepted: a dependency sort never offers a
	//    child first; the store order (by txid) does so with probability 5/6
	//    per wallet.
	res.ResendSorted, res.ResendEvery = true, true
	for i := 0; i < 6; i++ {
		wd, chain, err := chainWorld(next())
		if err != nil {
			return res, err
		}
		for k := 0; k < 3; k++ {
			n0 := wd.ch.sentCount()
			wd.ch.script(nil, 0, 0)
			wd.w.VerifResendUnminedTxs()
			offered, _, _ := wd.offeredIDs(wd.ch.sentSince(n0))
			pos := map[uint64]int{}
			for j, id := range offered {
				pos[id] = j
			}
			for j := 1; j < len(chain); j++ {
				pp, ok1 := pos[chain[j-1].id]
				pc, ok2 := pos[chain[j].id]
				if !ok1 || !ok2 {
					res.ResendEvery = false
				} else if pp > pc {
					res.ResendSorted = false
				}
			}
			if len(offered) != 4 {
				res.ResendEvery = false
			}
		}
		wd.env.Close()
	}
	// 4. every element is offered even when earlier ones are refused: a
	//    non-accept answer at each position of the four-element re-broadcast.
	for posn := 0; posn < 4; posn++ {
		for _, a := range []string{"reject", "known"} {
			wd, _, err := chainWorld(next())
			if err != nil {
				return res, err
			}
			before, err := wd.observe()
			if err != nil {
				wd.env.Close()
				return res, err
			}
			acc, _ := parseAnswer("accept")
			answers := []ansSpec{acc, acc, acc, acc}
			answers[posn], _ = parseAnswer(a)
			n0 := wd.ch.sentCount()
			wd.ch.script(answers, 0, 0)
			wd.w.VerifResendUnminedTxs()
			wd.ch.clear()
			offered, _, _ := wd.offeredIDs(wd.ch.sentSince(n0))
			for _, id := range before.Unmined {
				if has(offered, id) != 1 {
					res.ResendEvery = false
				}
			}
			wd.env.Close()
		}
	}
	return res, nil
}
