// extract-c04 reads package waddrmgr of the repository given as argument
// (go/ast only, nothing is compiled or run) and prints, as one JSON object,
// WHICH KEY SEALS WHAT at every place where the address manager stores the
// result of an `X.Encrypt(arg)` call:
//
//	usage: extract-c04 <repo>
//
// For every call of a function of db.go that takes sealed fields
// (putMasterHDKeys, putCryptoKeys, putCoinTypeKeys, putDefaultAccountInfo,
// putWatchOnlyAccountInfo, putImportedAddress, putScriptAddress,
// putWitnessScriptAddress) every argument in a sealed-field position is traced
// back to its origin inside the calling function (through local variables,
// and through parameters to every call site of that function):
//
//   - `nil`                                        -> nothing stored
//   - a field of an existing row or object whose name says it is a stored
//     sealed blob (x.pubKeyEncrypted, a.scriptEncrypted, ...) -> pass-through
//   - the result of `X.Encrypt(arg)`               -> an entry
//     (function holding the Encrypt call, slot, key = identity of X,
//     content = origin class of arg)
//   - anything else                                -> error (an unsealed or
//     unrecognised value reaches a sealed slot)
//
// Identity of the receiver X:
//   - a field m.cryptoKeyPub / cryptoKeyPriv / cryptoKeyScript / masterKeyPub /
//     masterKeyPriv (through any selector chain, e.g. s.rootManager.cryptoKeyPub);
//   - a parameter: the identity every call site passes (they must agree);
//   - a local made by newCryptoKey(): the crypto key whose slot of
//     putCryptoKeys receives the sealing of its .Bytes();
//   - a local made by newSecretKey(..): the master key whose slot of
//     putMasterKeyParams receives its .Marshal() (on the same branch);
//   - a local assigned a key field and re-assigned under `if !isSecretScript`
//     (or `if isSecretScript`): one identity per value of the flag.
//
// Origin class of the argument (content): see classOf below.  Secret origins:
// the root key handed to Create, keys decoded from fields decrypted with the
// private crypto key, results of deriveCoinTypeKey / deriveAccountKey on
// those, EC private keys, the script of a secret script import, crypto key
// bytes; Neuter(), PubKey(), Serialize{PubKey,Compressed,Uncompressed}(),
// AddrHash() and the identity closure of a script import give public classes.
//
// The db.go side is checked too: each put function stores its sealed
// parameters under the expected names / in the expected order, and every
// other (re-)serialisation of a row in db.go passes the stored fields
// through (or nil).
//
// Any shape that is not recognised is an error (exit status 1, message on
// stderr): lib/extract_c04.py then falls back to the behavioural probe.
package main

import (
	"encoding/json"
	"fmt"
	"go/ast"
	"go/parser"
	"go/token"
	"os"
	"path/filepath"
	"sort"
	"strings"
)

type entry struct {
	Func    string `json:"func"`    // function that holds the Encrypt call
	Owner   string `json:"owner"`   // nearest function of the model's vocabulary that reaches it
	Slot    string `json:"slot"`    // mhdpriv mhdpub cpub cpriv cscript ctpub ctpriv acctpub acctpriv watchacctpub imppub imppriv scrhash scrscript
	Cond    string `json:"cond"`    // "", "secret", "public" (value of isSecretScript)
	Key     string `json:"key"`     // masterKeyPub masterKeyPriv cryptoKeyPub cryptoKeyPriv cryptoKeyScript
	Content string `json:"content"` // see classOf
	Pos     string `json:"pos"`
}

type result struct {
	Entries     []entry  `json:"entries"`
	Passthrough []string `json:"passthrough"`
	DbChecks    []string `json:"db_checks"`
}

type fail struct{ msg string }

func die(format string, a ...interface{}) { panic(fail{fmt.Sprintf(format, a...)}) }

// ------------------------------------------------------------------ package

type pkg struct {
	fset  *token.FileSet
	funcs map[string][]*ast.FuncDecl // by bare name
	files map[*ast.FuncDecl]string
}

func load(dir string) *pkg {
	p := &pkg{fset: token.NewFileSet(), funcs: map[string][]*ast.FuncDecl{}, files: map[*ast.FuncDecl]string{}}
	names, err := filepath.Glob(filepath.Join(dir, "*.go"))
	if err != nil || len(names) == 0 {
		die("no Go files in %s", dir)
	}
	sort.Strings(names)
	for _, n := range names {
		if strings.HasSuffix(n, "_test.go") || strings.HasPrefix(filepath.Base(n), "verif_hooks") {
			continue
		}
		f, err := parser.ParseFile(p.fset, n, nil, 0)
		if err != nil {
			die("parse %s: %v", n, err)
		}
		for _, d := range f.Decls {
			if fd, ok := d.(*ast.FuncDecl); ok && fd.Body != nil {
				p.funcs[fd.Name.Name] = append(p.funcs[fd.Name.Name], fd)
				p.files[fd] = filepath.Base(n)
			}
		}
	}
	return p
}

func (p *pkg) pos(n ast.Node) string {
	ps := p.fset.Position(n.Pos())
	return fmt.Sprintf("%s:%d", filepath.Base(ps.Filename), ps.Line)
}

func (p *pkg) one(name string) *ast.FuncDecl {
	l := p.funcs[name]
	if len(l) != 1 {
		die("function %s: %d declarations", name, len(l))
	}
	return l[0]
}

// params returns the parameter names of fd in order.
func params(fd *ast.FuncDecl) []string {
	var out []string
	for _, f := range fd.Type.Params.List {
		if len(f.Names) == 0 {
			out = append(out, "_")
		}
		for _, n := range f.Names {
			out = append(out, n.Name)
		}
	}
	return out
}

func paramIndex(fd *ast.FuncDecl, name string) int {
	for i, n := range params(fd) {
		if n == name {
			return i
		}
	}
	return -1
}

func paramType(fd *ast.FuncDecl, name string) ast.Expr {
	for _, f := range fd.Type.Params.List {
		for _, n := range f.Names {
			if n.Name == name {
				return f.Type
			}
		}
	}
	return nil
}

func exprString(e ast.Expr) string {
	switch x := e.(type) {
	case *ast.Ident:
		return x.Name
	case *ast.SelectorExpr:
		return exprString(x.X) + "." + x.Sel.Name
	case *ast.StarExpr:
		return "*" + exprString(x.X)
	case *ast.UnaryExpr:
		return x.Op.String() + exprString(x.X)
	case *ast.CallExpr:
		var a []string
		for _, y := range x.Args {
			a = append(a, exprString(y))
		}
		return exprString(x.Fun) + "(" + strings.Join(a, ",") + ")"
	case *ast.ArrayType:
		return "[]" + exprString(x.Elt)
	case *ast.ParenExpr:
		return "(" + exprString(x.X) + ")"
	case *ast.IndexExpr:
		return exprString(x.X) + "[" + exprString(x.Index) + "]"
	case *ast.SliceExpr:
		return exprString(x.X) + "[:]"
	case *ast.BasicLit:
		return x.Value
	case *ast.FuncLit:
		return "func(){..}"
	case *ast.CompositeLit:
		return "lit{..}"
	}
	return fmt.Sprintf("<%T>", e)
}

func calleeName(c *ast.CallExpr) string {
	switch f := c.Fun.(type) {
	case *ast.Ident:
		return f.Name
	case *ast.SelectorExpr:
		return f.Sel.Name
	}
	return ""
}

// calls lists every call of the function/method named name in the package.
type callSite struct {
	fn   *ast.FuncDecl
	call *ast.CallExpr
}

func (p *pkg) callsOf(name string) []callSite {
	var out []callSite
	var fns []*ast.FuncDecl
	for _, l := range p.funcs {
		fns = append(fns, l...)
	}
	sort.Slice(fns, func(i, j int) bool { return fns[i].Pos() < fns[j].Pos() })
	for _, fd := range fns {
		ast.Inspect(fd.Body, func(n ast.Node) bool {
			if c, ok := n.(*ast.CallExpr); ok && calleeName(c) == name {
				// a package-level function called as pkg.F is not ours
				if s, ok := c.Fun.(*ast.SelectorExpr); ok {
					if id, ok := s.X.(*ast.Ident); ok && (id.Name == "hdkeychain" || id.Name == "btcutil" || id.Name == "txscript") {
						return true
					}
				}
				out = append(out, callSite{fd, c})
			}
			return true
		})
	}
	return out
}

// ----------------------------------------------------- definitions of locals

type def struct {
	rhs    ast.Expr   // the defining expression (for a multi-value call: the call)
	idx    int        // which result
	stmt   ast.Stmt   // the assignment
	blocks []ast.Node // enclosing block path (outermost first)
	conds  []string   // conditions of the enclosing if statements ("c" / "!c" for else)
	isDecl bool       // `var x T` without value
}

type walker struct {
	p     *pkg
	fd    *ast.FuncDecl
	defs  map[string][]def
	paths map[ast.Node][]ast.Node // call -> enclosing branch bodies
	conds map[ast.Node][]string
}

func condString(e ast.Expr) string { return exprString(e) }

func negate(c string) string {
	if strings.HasPrefix(c, "!") {
		return c[1:]
	}
	return "!" + c
}

func newWalker(p *pkg, fd *ast.FuncDecl) *walker {
	w := &walker{p: p, fd: fd, defs: map[string][]def{}, paths: map[ast.Node][]ast.Node{}, conds: map[ast.Node][]string{}}
	var visit func(n ast.Node, path []ast.Node, conds []string)
	record := func(lhs []ast.Expr, rhs []ast.Expr, st ast.Stmt, path []ast.Node, conds []string) {
		for i, l := range lhs {
			id, ok := l.(*ast.Ident)
			if !ok || id.Name == "_" {
				continue
			}
			d := def{stmt: st, blocks: append([]ast.Node{}, path...), conds: append([]string{}, conds...)}
			if len(rhs) == len(lhs) {
				d.rhs, d.idx = rhs[i], 0
			} else if len(rhs) == 1 {
				d.rhs, d.idx = rhs[0], i
			} else {
				continue
			}
			w.defs[id.Name] = append(w.defs[id.Name], d)
		}
	}
	visit = func(n ast.Node, path []ast.Node, conds []string) {
		if n == nil {
			return
		}
		switch x := n.(type) {
		case *ast.AssignStmt:
			record(x.Lhs, x.Rhs, x, path, conds)
		case *ast.DeclStmt:
			if gd, ok := x.Decl.(*ast.GenDecl); ok {
				for _, s := range gd.Specs {
					if vs, ok := s.(*ast.ValueSpec); ok {
						if len(vs.Values) == 0 {
							for _, nm := range vs.Names {
								w.defs[nm.Name] = append(w.defs[nm.Name], def{stmt: x, isDecl: true,
									blocks: append([]ast.Node{}, path...), conds: append([]string{}, conds...)})
							}
						} else {
							var lhs []ast.Expr
							for _, nm := range vs.Names {
								lhs = append(lhs, nm)
							}
							record(lhs, vs.Values, x, path, conds)
						}
					}
				}
			}
		case *ast.CallExpr:
			w.paths[x] = append([]ast.Node{}, path...)
			w.conds[x] = append([]string{}, conds...)
		case *ast.FuncLit:
			// closures: same function for our purposes
		}
		switch x := n.(type) {
		case *ast.IfStmt:
			visit(x.Init, path, conds)
			visit(x.Cond, path, conds)
			c := condString(x.Cond)
			visit(x.Body, append(append([]ast.Node{}, path...), x.Body), append(append([]string{}, conds...), c))
			if x.Else != nil {
				visit(x.Else, append(append([]ast.Node{}, path...), x.Else), append(append([]string{}, conds...), negate(c)))
			}
			return
		case *ast.CaseClause:
			np := append(append([]ast.Node{}, path...), x)
			for _, e := range x.List {
				visit(e, np, conds)
			}
			for _, s := range x.Body {
				visit(s, np, conds)
			}
			return
		case *ast.CommClause:
			np := append(append([]ast.Node{}, path...), x)
			visit(x.Comm, np, conds)
			for _, s := range x.Body {
				visit(s, np, conds)
			}
			return
		}
		// generic children
		children(n, func(c ast.Node) { visit(c, path, conds) })
	}
	visit(fd.Body, nil, nil)
	return w
}

// children calls f on the direct children of n.
func children(n ast.Node, f func(ast.Node)) {
	first := true
	ast.Inspect(n, func(c ast.Node) bool {
		if c == nil {
			return false
		}
		if first {
			first = false
			return true
		}
		f(c)
		return false
	})
}

// compatible: two block paths lie on one control-flow branch (one is a prefix of the other).
func compatible(a, b []ast.Node) bool {
	n := len(a)
	if len(b) < n {
		n = len(b)
	}
	for i := 0; i < n; i++ {
		if a[i] != b[i] {
			return false
		}
	}
	return true
}

func unparen(e ast.Expr) ast.Expr {
	for {
		p, ok := e.(*ast.ParenExpr)
		if !ok {
			return e
		}
		e = p.X
	}
}

// ------------------------------------------------------------- key identity

var keyFields = map[string]bool{"cryptoKeyPub": true, "cryptoKeyPriv": true, "cryptoKeyScript": true,
	"masterKeyPub": true, "masterKeyPriv": true}

type keyID struct {
	plain  string            // identity when unconditional
	byFlag map[string]string // "secret"/"public" -> identity (isSecretScript)
}

func (k keyID) String() string {
	if k.byFlag != nil {
		return fmt.Sprintf("secret:%s/public:%s", k.byFlag["secret"], k.byFlag["public"])
	}
	return k.plain
}

type ext struct {
	p     *pkg
	ws    map[*ast.FuncDecl]*walker
	depth int
}

func (x *ext) w(fd *ast.FuncDecl) *walker {
	if w, ok := x.ws[fd]; ok {
		return w
	}
	w := newWalker(x.p, fd)
	x.ws[fd] = w
	return w
}

func (x *ext) enter(what string, n ast.Node) func() {
	x.depth++
	if x.depth > 40 {
		die("%s at %s: origin chain too deep", what, x.p.pos(n))
	}
	return func() { x.depth-- }
}

// keyOf resolves the receiver of an Encrypt call made at `at` inside fd.
func (x *ext) keyOf(fd *ast.FuncDecl, e ast.Expr, at *ast.CallExpr) keyID {
	defer x.enter("key", e)()
	e = unparen(e)
	switch v := e.(type) {
	case *ast.SelectorExpr:
		if keyFields[v.Sel.Name] {
			return keyID{plain: v.Sel.Name}
		}
		die("%s: receiver %s of Encrypt is not a key field", x.p.pos(e), exprString(e))
	case *ast.Ident:
		w := x.w(fd)
		if i := paramIndex(fd, v.Name); i >= 0 && len(w.defs[v.Name]) == 0 {
			if i < 0 {
				die("unreachable")
			}
			// identity passed by the callers
			cs := x.p.callsOf(fd.Name.Name)
			if len(cs) == 0 {
				die("%s: key parameter %s of %s: no call site", x.p.pos(e), v.Name, fd.Name.Name)
			}
			var got *keyID
			for _, c := range cs {
				if i >= len(c.call.Args) {
					die("%s: call of %s with too few arguments", x.p.pos(c.call), fd.Name.Name)
				}
				k := x.keyOf(c.fn, c.call.Args[i], c.call)
				if got != nil && got.String() != k.String() {
					die("%s: key parameter %s of %s receives %s and %s", x.p.pos(c.call), v.Name, fd.Name.Name, got, k)
				}
				got = &k
			}
			return *got
		}
		var ds []def
		for _, d := range w.defs[v.Name] {
			if !d.isDecl {
				ds = append(ds, d)
			}
		}
		if len(ds) == 0 {
			die("%s: key %s has no definition in %s", x.p.pos(e), v.Name, fd.Name.Name)
		}
		first := ds[0]
		if c, ok := unparen(first.rhs).(*ast.CallExpr); ok && len(ds) == 1 {
			switch calleeName(c) {
			case "newCryptoKey":
				return keyID{plain: x.cryptoKeyBySlot(fd, v.Name, e)}
			case "newSecretKey":
				return keyID{plain: x.masterKeyBySlot(fd, v.Name, at, e)}
			}
			die("%s: key %s comes from %s", x.p.pos(e), v.Name, exprString(c.Fun))
		}
		// key field, possibly re-assigned under the secret-script flag
		base := x.keyOf(fd, first.rhs, at)
		if base.byFlag != nil {
			die("%s: nested conditional key", x.p.pos(e))
		}
		if len(first.conds) != 0 {
			die("%s: key %s first assigned under a condition", x.p.pos(e), v.Name)
		}
		if len(ds) == 1 {
			return base
		}
		out := keyID{byFlag: map[string]string{"secret": base.plain, "public": base.plain}}
		for _, d := range ds[1:] {
			if d.stmt.Pos() > at.Pos() {
				continue
			}
			if len(d.conds) != 1 {
				die("%s: key %s re-assigned outside a single if", x.p.pos(d.stmt), v.Name)
			}
			k := x.keyOf(fd, d.rhs, at)
			switch d.conds[0] {
			case "!isSecretScript":
				out.byFlag["public"] = k.plain
			case "isSecretScript":
				out.byFlag["secret"] = k.plain
			default:
				die("%s: key %s re-assigned under condition %q", x.p.pos(d.stmt), v.Name, d.conds[0])
			}
		}
		return out
	}
	die("%s: receiver %s of Encrypt not recognised", x.p.pos(e), exprString(e))
	return keyID{}
}

// cryptoKeyBySlot: a key made by newCryptoKey() is the crypto key in whose
// slot of putCryptoKeys the sealing of its Bytes() is stored.
func (x *ext) cryptoKeyBySlot(fd *ast.FuncDecl, name string, at ast.Node) string {
	w := x.w(fd)
	put := x.p.one("putCryptoKeys")
	slots := map[string]string{"pubKeyEncrypted": "cryptoKeyPub", "privKeyEncrypted": "cryptoKeyPriv", "scriptKeyEncrypted": "cryptoKeyScript"}
	found := map[string]bool{}
	for call := range w.paths {
		c := call.(*ast.CallExpr)
		if calleeName(c) != "putCryptoKeys" {
			continue
		}
		for pn, id := range slots {
			i := paramIndex(put, pn)
			if i < 0 || i >= len(c.Args) {
				die("putCryptoKeys: parameter %s not found", pn)
			}
			a, ok := unparen(c.Args[i]).(*ast.Ident)
			if !ok || a.Name == "nil" {
				continue
			}
			for _, d := range w.defs[a.Name] {
				if d.isDecl {
					continue
				}
				enc, ok := unparen(d.rhs).(*ast.CallExpr)
				if !ok || calleeName(enc) != "Encrypt" || len(enc.Args) != 1 {
					continue
				}
				if b, ok := unparen(enc.Args[0]).(*ast.CallExpr); ok && calleeName(b) == "Bytes" {
					if s, ok := b.Fun.(*ast.SelectorExpr); ok {
						if r, ok := s.X.(*ast.Ident); ok && r.Name == name {
							found[id] = true
						}
					}
				}
			}
		}
	}
	if len(found) != 1 {
		die("%s: crypto key %s of %s: its Bytes() reach %d slots of putCryptoKeys", x.p.pos(at), name, fd.Name.Name, len(found))
	}
	for id := range found {
		return id
	}
	return ""
}

// masterKeyBySlot: a key made by newSecretKey() is the master key in whose
// slot of putMasterKeyParams its Marshal() is stored, on the branch of `at`.
func (x *ext) masterKeyBySlot(fd *ast.FuncDecl, name string, at *ast.CallExpr, where ast.Node) string {
	w := x.w(fd)
	put := x.p.one("putMasterKeyParams")
	slots := map[string]string{"pubParams": "masterKeyPub", "privParams": "masterKeyPriv"}
	isMarshalOf := func(e ast.Expr) bool {
		c, ok := unparen(e).(*ast.CallExpr)
		if !ok || calleeName(c) != "Marshal" {
			return false
		}
		s, ok := c.Fun.(*ast.SelectorExpr)
		if !ok {
			return false
		}
		r, ok := s.X.(*ast.Ident)
		return ok && r.Name == name
	}
	found := map[string]bool{}
	for call, path := range w.paths {
		c := call.(*ast.CallExpr)
		if calleeName(c) != "putMasterKeyParams" || !compatible(path, w.paths[at]) {
			continue
		}
		for pn, id := range slots {
			i := paramIndex(put, pn)
			if i < 0 || i >= len(c.Args) {
				die("putMasterKeyParams: parameter %s not found", pn)
			}
			a := unparen(c.Args[i])
			if isMarshalOf(a) {
				found[id] = true
				continue
			}
			if aid, ok := a.(*ast.Ident); ok && aid.Name != "nil" {
				for _, d := range w.defs[aid.Name] {
					if !d.isDecl && isMarshalOf(d.rhs) {
						found[id] = true
					}
				}
			}
		}
	}
	if len(found) != 1 {
		die("%s: master key %s of %s: its Marshal() reaches %d slots of putMasterKeyParams on this branch",
			x.p.pos(where), name, fd.Name.Name, len(found))
	}
	for id := range found {
		return id
	}
	return ""
}

// -------------------------------------------------------- content (origin)

// extended-key kinds
type xkind struct {
	level string // master coin acct imported
	priv  bool
}

func (k xkind) content() string {
	switch k.level {
	case "imported":
		if k.priv {
			return "unknown_secret"
		}
		return "imported_xpub"
	case "master", "cointype", "account":
		if k.priv {
			return k.level + "_xprv"
		}
		return k.level + "_xpub"
	}
	return "unknown_secret"
}

// lastDef returns the definition of a local that is in force at `at`.
func (x *ext) lastDef(fd *ast.FuncDecl, name string, at ast.Node) (def, bool) {
	w := x.w(fd)
	var best *def
	for i := range w.defs[name] {
		d := w.defs[name][i]
		if d.isDecl || d.stmt.Pos() > at.Pos() {
			continue
		}
		if best != nil && len(d.conds) > 0 {
			die("%s: %s is re-assigned under a condition", x.p.pos(d.stmt), name)
		}
		best = &w.defs[name][i]
	}
	if best == nil {
		return def{}, false
	}
	return *best, true
}

func (x *ext) xkindOf(fd *ast.FuncDecl, e ast.Expr, at ast.Node) xkind {
	defer x.enter("extended key", e)()
	e = unparen(e)
	switch v := e.(type) {
	case *ast.Ident:
		if d, ok := x.lastDef(fd, v.Name, at); ok {
			return x.xkindOf(fd, d.rhs, at)
		}
		if i := paramIndex(fd, v.Name); i >= 0 {
			switch {
			case fd.Name.Name == "Create" && v.Name == "rootKey":
				// the root key handed to Create (private unless watching-only, in which case it is nil)
				return xkind{"master", true}
			case fd.Name.Name == "newAccountWatchingOnly" || fd.Name.Name == "NewAccountWatchingOnly" ||
				fd.Name.Name == "NewRawAccountWatchingOnly":
				// the account key handed in by the caller of the watch-only import
				return xkind{"imported", false}
			}
			cs := x.p.callsOf(fd.Name.Name)
			if len(cs) == 0 {
				die("%s: extended-key parameter %s of %s: no call site", x.p.pos(e), v.Name, fd.Name.Name)
			}
			var got *xkind
			for _, c := range cs {
				k := x.xkindOf(c.fn, c.call.Args[i], c.call)
				if got != nil && *got != k {
					die("%s: parameter %s of %s receives different kinds of keys", x.p.pos(c.call), v.Name, fd.Name.Name)
				}
				got = &k
			}
			return *got
		}
	case *ast.CallExpr:
		switch calleeName(v) {
		case "Neuter":
			s := v.Fun.(*ast.SelectorExpr)
			k := x.xkindOf(fd, s.X, at)
			k.priv = false
			return k
		case "deriveCoinTypeKey":
			k := x.xkindOf(fd, v.Args[0], at)
			if k.level != "master" {
				die("%s: deriveCoinTypeKey of a %s key", x.p.pos(e), k.level)
			}
			return xkind{"cointype", k.priv}
		case "deriveAccountKey":
			k := x.xkindOf(fd, v.Args[0], at)
			if k.level != "cointype" {
				die("%s: deriveAccountKey of a %s key", x.p.pos(e), k.level)
			}
			return xkind{"account", k.priv}
		case "NewKeyFromString":
			// hdkeychain.NewKeyFromString(string(v)), v := K.Decrypt(blob): level by where blob was fetched from
			arg := unparen(v.Args[0])
			if c, ok := arg.(*ast.CallExpr); ok && len(c.Args) == 1 {
				arg = unparen(c.Args[0])
			}
			id, ok := arg.(*ast.Ident)
			if !ok {
				break
			}
			d, ok := x.lastDef(fd, id.Name, at)
			if !ok {
				break
			}
			dec, ok := unparen(d.rhs).(*ast.CallExpr)
			if !ok || calleeName(dec) != "Decrypt" || len(dec.Args) != 1 {
				break
			}
			k := x.keyOf(fd, dec.Fun.(*ast.SelectorExpr).X, dec)
			priv := k.plain != "cryptoKeyPub"
			blob, ok := unparen(dec.Args[0]).(*ast.Ident)
			if !ok {
				break
			}
			bd, ok := x.lastDef(fd, blob.Name, at)
			if !ok {
				break
			}
			fc, ok := unparen(bd.rhs).(*ast.CallExpr)
			if !ok {
				break
			}
			switch calleeName(fc) {
			case "fetchMasterHDKeys":
				return xkind{"master", priv}
			case "fetchCoinTypeKeys":
				return xkind{"cointype", priv}
			}
		}
	}
	die("%s: origin of extended key %s not recognised", x.p.pos(e), exprString(e))
	return xkind{}
}

var passphraseNames = map[string]bool{"pubPassphrase": true, "privPassphrase": true, "newPassphrase": true,
	"oldPassphrase": true, "passphrase": true}

// classOf gives the origin class of the plaintext handed to Encrypt.
//
//	master_xprv master_xpub cointype_xprv cointype_xpub account_xprv account_xpub imported_xpub
//	privkey pubkey addr_id script(by flag) crypto_key_pub crypto_key_priv crypto_key_script
//	passphrase seed unknown_secret
func (x *ext) classOf(fd *ast.FuncDecl, e ast.Expr, at ast.Node) string {
	defer x.enter("plaintext", e)()
	e = unparen(e)
	switch v := e.(type) {
	case *ast.CallExpr:
		// conversions []byte(s), string(b)
		if _, ok := v.Fun.(*ast.ArrayType); ok && len(v.Args) == 1 {
			return x.classOf(fd, v.Args[0], at)
		}
		if id, ok := v.Fun.(*ast.Ident); ok && id.Name == "string" && len(v.Args) == 1 {
			return x.classOf(fd, v.Args[0], at)
		}
		sel, _ := v.Fun.(*ast.SelectorExpr)
		switch calleeName(v) {
		case "String":
			if sel != nil {
				return x.xkindOf(fd, sel.X, at).content()
			}
		case "Bytes":
			if sel != nil {
				k := x.keyOf(fd, sel.X, nil)
				if k.byFlag != nil {
					die("%s: Bytes() of a conditional key", x.p.pos(e))
				}
				switch k.plain {
				case "cryptoKeyPub":
					return "crypto_key_pub"
				case "cryptoKeyPriv":
					return "crypto_key_priv"
				case "cryptoKeyScript":
					return "crypto_key_script"
				}
				return "unknown_secret" // bytes of a master key
			}
		case "Serialize":
			// serialisation of an EC private key
			if sel != nil && x.isPrivKeyExpr(fd, sel.X, at) {
				return "privkey"
			}
		case "SerializePubKey", "SerializeCompressed", "SerializeUncompressed":
			return "pubkey"
		case "AddrHash":
			return "addr_id"
		case "Decrypt":
			if sel != nil && len(v.Args) == 1 {
				if f, ok := unparen(v.Args[0]).(*ast.SelectorExpr); ok {
					switch f.Sel.Name {
					case "cryptoKeyPubEncrypted":
						return "crypto_key_pub"
					case "cryptoKeyPrivEncrypted":
						return "crypto_key_priv"
					case "cryptoKeyScriptEncrypted":
						return "crypto_key_script"
					}
				}
			}
		}
		// result of calling a function-typed parameter: the identity closure of a script import
		if id, ok := v.Fun.(*ast.Ident); ok && len(v.Args) == 0 {
			t := paramType(fd, id.Name)
			_, isFunc := t.(*ast.FuncType)
			tid, isNamed := t.(*ast.Ident)
			if isFunc || (isNamed && tid.Name == "Identity") {
				x.checkIdentityClosures(fd, id.Name)
				return "addr_id"
			}
		}
	case *ast.Ident:
		if d, ok := x.lastDef(fd, v.Name, at); ok {
			return x.classOf(fd, d.rhs, at)
		}
		if i := paramIndex(fd, v.Name); i >= 0 {
			if passphraseNames[v.Name] {
				return "passphrase"
			}
			if v.Name == "seed" {
				return "seed"
			}
			if v.Name == "script" && paramIndex(fd, "isSecretScript") >= 0 {
				return "script"
			}
			cs := x.p.callsOf(fd.Name.Name)
			if len(cs) == 0 {
				die("%s: parameter %s of %s: no call site", x.p.pos(e), v.Name, fd.Name.Name)
			}
			got := ""
			for _, c := range cs {
				k := x.classOf(c.fn, c.call.Args[i], c.call)
				if got != "" && got != k {
					die("%s: parameter %s of %s receives %s and %s", x.p.pos(c.call), v.Name, fd.Name.Name, got, k)
				}
				got = k
			}
			return got
		}
	}
	die("%s: origin of the sealed plaintext %s not recognised", x.p.pos(e), exprString(e))
	return ""
}

// isPrivKeyExpr: e denotes an EC private key (wif.PrivKey, the result of ECPrivKey(), a *btcec.PrivateKey parameter).
func (x *ext) isPrivKeyExpr(fd *ast.FuncDecl, e ast.Expr, at ast.Node) bool {
	e = unparen(e)
	switch v := e.(type) {
	case *ast.SelectorExpr:
		return v.Sel.Name == "PrivKey"
	case *ast.Ident:
		if d, ok := x.lastDef(fd, v.Name, at); ok {
			if c, ok := unparen(d.rhs).(*ast.CallExpr); ok {
				n := calleeName(c)
				return n == "ECPrivKey" || n == "PrivKeyFromBytes" || n == "PrivKey"
			}
			return x.isPrivKeyExpr(fd, d.rhs, at)
		}
		if t := paramType(fd, v.Name); t != nil {
			return strings.HasSuffix(exprString(t), "PrivateKey")
		}
	}
	return false
}

// checkIdentityClosures: every call site hands a closure (a function literal,
// or the result of a package function that returns one) which returns a
// digest / output key, never the script itself.
func (x *ext) checkIdentityClosures(fd *ast.FuncDecl, pname string) {
	i := paramIndex(fd, pname)
	checkLit := func(holder *ast.FuncDecl, fl *ast.FuncLit) {
		ast.Inspect(fl.Body, func(n ast.Node) bool {
			r, ok := n.(*ast.ReturnStmt)
			if !ok {
				return true
			}
			for _, res := range r.Results {
				switch rv := unparen(res).(type) {
				case *ast.CallExpr: // btcutil.Hash160(script), schnorr.SerializePubKey(..)
				case *ast.SliceExpr: // digest[:] of a local made by a call
					id, ok := unparen(rv.X).(*ast.Ident)
					if !ok {
						die("%s: identity closure returns %s", x.p.pos(r), exprString(res))
					}
					d, ok := x.lastDef(holder, id.Name, r)
					if !ok {
						die("%s: identity closure returns a slice of %s", x.p.pos(r), id.Name)
					}
					if _, isCall := unparen(d.rhs).(*ast.CallExpr); !isCall {
						die("%s: identity closure returns a slice of %s = %s", x.p.pos(r), id.Name, exprString(d.rhs))
					}
				default:
					die("%s: identity closure returns %s", x.p.pos(r), exprString(res))
				}
			}
			return true
		})
	}
	for _, c := range x.p.callsOf(fd.Name.Name) {
		switch a := unparen(c.call.Args[i]).(type) {
		case *ast.FuncLit:
			checkLit(c.fn, a)
		case *ast.CallExpr:
			l := x.p.funcs[calleeName(a)]
			if len(l) != 1 {
				die("%s: %s of %s comes from %s", x.p.pos(c.call), pname, fd.Name.Name, exprString(a.Fun))
			}
			n := 0
			for _, st := range l[0].Body.List {
				r, ok := st.(*ast.ReturnStmt)
				if !ok || len(r.Results) != 1 {
					die("%s: %s is not a plain closure constructor", x.p.pos(st), l[0].Name.Name)
				}
				fl, ok := unparen(r.Results[0]).(*ast.FuncLit)
				if !ok {
					die("%s: %s does not return a function literal", x.p.pos(st), l[0].Name.Name)
				}
				checkLit(l[0], fl)
				n++
			}
			if n != 1 {
				die("%s: closure constructor with %d statements", x.p.pos(l[0]), n)
			}
		default:
			die("%s: %s of %s is %s", x.p.pos(c.call), pname, fd.Name.Name, exprString(c.call.Args[i]))
		}
	}
}

// ------------------------------------------------------------ slot tracing

type slotParam struct{ param, slot string }

var slotFuncs = map[string][]slotParam{
	"putMasterHDKeys":         {{"masterHDPrivEnc", "mhdpriv"}, {"masterHDPubEnc", "mhdpub"}},
	"putCryptoKeys":           {{"pubKeyEncrypted", "cpub"}, {"privKeyEncrypted", "cpriv"}, {"scriptKeyEncrypted", "cscript"}},
	"putCoinTypeKeys":         {{"coinTypePubKeyEnc", "ctpub"}, {"coinTypePrivKeyEnc", "ctpriv"}},
	"putDefaultAccountInfo":   {{"encryptedPubKey", "acctpub"}, {"encryptedPrivKey", "acctpriv"}},
	"putWatchOnlyAccountInfo": {{"encryptedPubKey", "watchacctpub"}},
	"putImportedAddress":      {{"encryptedPubKey", "imppub"}, {"encryptedPrivKey", "imppriv"}},
	"putScriptAddress":        {{"encryptedHash", "scrhash"}, {"encryptedScript", "scrscript"}},
	"putWitnessScriptAddress": {{"encryptedHash", "scrhash"}, {"encryptedScript", "scrscript"}},
}

// the functions the operations of the model Addr/Taint.v are named after
var modelFuncs = map[string]bool{"Create": true, "createManagerKeyScope": true, "newAccount": true,
	"newAccountWatchingOnly": true, "ImportPrivateKey": true, "importPublicKey": true, "importScriptAddress": true,
	"ChangePassphrase": true, "nextAddresses": true, "extendAddresses": true, "RenameAccount": true}

func sealedFieldName(n string) bool {
	l := strings.ToLower(n)
	return strings.Contains(l, "encrypted")
}

func (x *ext) owner(fn string, seen map[string]bool) []string {
	if modelFuncs[fn] {
		return []string{fn}
	}
	if seen[fn] {
		return nil
	}
	seen[fn] = true
	set := map[string]bool{}
	for _, c := range x.p.callsOf(fn) {
		for _, o := range x.owner(c.fn.Name.Name, seen) {
			set[o] = true
		}
	}
	var out []string
	for o := range set {
		out = append(out, o)
	}
	sort.Strings(out)
	return out
}

// origin traces the value stored into `slot` by the expression e of fd.
func (x *ext) origin(res *result, fd *ast.FuncDecl, e ast.Expr, at *ast.CallExpr, slot string) {
	defer x.enter("slot "+slot, e)()
	e = unparen(e)
	switch v := e.(type) {
	case *ast.Ident:
		if v.Name == "nil" {
			return
		}
		w := x.w(fd)
		ds := w.defs[v.Name]
		if len(ds) == 0 {
			if i := paramIndex(fd, v.Name); i >= 0 {
				cs := x.p.callsOf(fd.Name.Name)
				if len(cs) == 0 {
					die("%s: %s (slot %s) is a parameter of %s, which nobody calls", x.p.pos(e), v.Name, slot, fd.Name.Name)
				}
				for _, c := range cs {
					x.origin(res, c.fn, c.call.Args[i], c.call, slot)
				}
				return
			}
			die("%s: %s (slot %s) has no definition", x.p.pos(e), v.Name, slot)
		}
		n := 0
		for _, d := range ds {
			if d.isDecl {
				continue
			}
			if d.stmt.Pos() > at.Pos() {
				continue
			}
			n++
			x.originRHS(res, fd, d.rhs, slot, v.Name)
		}
		if n == 0 {
			return // declared, never assigned before the call: nil
		}
		return
	case *ast.SelectorExpr:
		if sealedFieldName(v.Sel.Name) {
			res.Passthrough = append(res.Passthrough, fmt.Sprintf("%s %s <- %s (%s)", x.p.pos(e), slot, exprString(e), fd.Name.Name))
			return
		}
	case *ast.CallExpr:
		x.originRHS(res, fd, v, slot, exprString(e))
		return
	}
	die("%s: value %s reaches the sealed slot %s: origin not recognised", x.p.pos(e), exprString(e), slot)
}

func (x *ext) originRHS(res *result, fd *ast.FuncDecl, rhs ast.Expr, slot, name string) {
	rhs = unparen(rhs)
	if id, ok := rhs.(*ast.Ident); ok && id.Name == "nil" {
		return
	}
	if s, ok := rhs.(*ast.SelectorExpr); ok && sealedFieldName(s.Sel.Name) {
		res.Passthrough = append(res.Passthrough, fmt.Sprintf("%s %s <- %s (%s)", x.p.pos(rhs), slot, exprString(rhs), fd.Name.Name))
		return
	}
	c, ok := rhs.(*ast.CallExpr)
	if !ok || calleeName(c) != "Encrypt" || len(c.Args) != 1 {
		die("%s: %s (slot %s) = %s is not the result of an Encrypt call", x.p.pos(rhs), name, slot, exprString(rhs))
	}
	sel, ok := c.Fun.(*ast.SelectorExpr)
	if !ok {
		die("%s: Encrypt without receiver", x.p.pos(rhs))
	}
	key := x.keyOf(fd, sel.X, c)
	content := x.classOf(fd, c.Args[0], c)
	owners := x.owner(fd.Name.Name, map[string]bool{})
	if len(owners) == 0 {
		owners = []string{fd.Name.Name}
	}
	for _, o := range owners {
		add := func(cond, k, ct string) {
			res.Entries = append(res.Entries, entry{Func: fd.Name.Name, Owner: o, Slot: slot, Cond: cond, Key: k, Content: ct, Pos: x.p.pos(c)})
		}
		switch {
		case key.byFlag != nil && content == "script":
			add("secret", key.byFlag["secret"], "secret_script")
			add("public", key.byFlag["public"], "public_script")
		case key.byFlag != nil:
			add("secret", key.byFlag["secret"], content)
			add("public", key.byFlag["public"], content)
		case content == "script":
			// one key for both values of the flag
			add("secret", key.plain, "secret_script")
			add("public", key.plain, "public_script")
		default:
			add("", key.plain, content)
		}
	}
}

// ------------------------------------------------------------- db.go checks

func (x *ext) checkDb(res *result) {
	// main / scope bucket: Put(<name>, <param>) pairs
	pairs := map[string]map[string]string{
		"putMasterHDKeys":    {"masterHDPrivName": "masterHDPrivEnc", "masterHDPubName": "masterHDPubEnc"},
		"putCryptoKeys":      {"cryptoPubKeyName": "pubKeyEncrypted", "cryptoPrivKeyName": "privKeyEncrypted", "cryptoScriptKeyName": "scriptKeyEncrypted"},
		"putCoinTypeKeys":    {"coinTypePubKeyName": "coinTypePubKeyEnc", "coinTypePrivKeyName": "coinTypePrivKeyEnc"},
		"putMasterKeyParams": {"masterPubKeyName": "pubParams", "masterPrivKeyName": "privParams"},
	}
	for fn, want := range pairs {
		fd := x.p.one(fn)
		got := map[string]string{}
		ast.Inspect(fd.Body, func(n ast.Node) bool {
			c, ok := n.(*ast.CallExpr)
			if ok && calleeName(c) == "Put" && len(c.Args) == 2 {
				got[exprString(c.Args[0])] = exprString(c.Args[1])
			}
			return true
		})
		for k, v := range want {
			if got[k] != v {
				die("db.go %s: Put(%s, ..) stores %q, expected the parameter %s", fn, k, got[k], v)
			}
		}
		if len(got) != len(want) {
			die("db.go %s: %d Put calls, expected %d", fn, len(got), len(want))
		}
		res.DbChecks = append(res.DbChecks, fn)
	}
	// row puts: the sealed parameters go to the serialiser in order
	ser := map[string]struct {
		fn   string
		args []string
	}{
		"putDefaultAccountInfo":   {"serializeDefaultAccountRow", []string{"encryptedPubKey", "encryptedPrivKey"}},
		"putWatchOnlyAccountInfo": {"serializeWatchOnlyAccountRow", []string{"encryptedPubKey"}},
		"putImportedAddress":      {"serializeImportedAddress", []string{"encryptedPubKey", "encryptedPrivKey"}},
		"putScriptAddress":        {"serializeScriptAddress", []string{"encryptedHash", "encryptedScript"}},
		"putWitnessScriptAddress": {"serializeWitnessScriptAddress", []string{"witnessVersion", "isSecretScript", "encryptedHash", "encryptedScript"}},
	}
	for fn, s := range ser {
		fd := x.p.one(fn)
		ok := false
		ast.Inspect(fd.Body, func(n ast.Node) bool {
			c, isCall := n.(*ast.CallExpr)
			if isCall && calleeName(c) == s.fn && len(c.Args) >= len(s.args) {
				match := true
				for i, a := range s.args {
					match = match && exprString(c.Args[i]) == a
				}
				ok = ok || match
			}
			return true
		})
		if !ok {
			die("db.go %s: does not hand (%s) to %s in this order", fn, strings.Join(s.args, ", "), s.fn)
		}
		// the serialiser's own parameter order
		sd := x.p.one(s.fn)
		ps := params(sd)
		for i, a := range s.args {
			if i >= len(ps) || ps[i] != a {
				die("db.go %s: parameter %d is %v, expected %s", s.fn, i, ps, a)
			}
		}
		res.DbChecks = append(res.DbChecks, fn)
	}
	// every other use of a row serialiser in the package passes stored fields through (or nil)
	sealedPos := map[string][]int{"serializeDefaultAccountRow": {0, 1}, "serializeWatchOnlyAccountRow": {0},
		"serializeImportedAddress": {0, 1}, "serializeScriptAddress": {0, 1}, "serializeWitnessScriptAddress": {2, 3}}
	for sfn, idxs := range sealedPos {
		for _, c := range x.p.callsOf(sfn) {
			if _, isPut := ser[c.fn.Name.Name]; isPut {
				continue
			}
			for _, i := range idxs {
				a := unparen(c.call.Args[i])
				switch v := a.(type) {
				case *ast.Ident:
					if v.Name == "nil" {
						continue
					}
				case *ast.SelectorExpr:
					if sealedFieldName(v.Sel.Name) || strings.HasPrefix(v.Sel.Name, "encrypted") {
						res.Passthrough = append(res.Passthrough, fmt.Sprintf("%s %s arg %d <- %s (%s)", x.p.pos(a), sfn, i, exprString(a), c.fn.Name.Name))
						continue
					}
				}
				die("%s: %s receives %s in a sealed position (%s)", x.p.pos(a), sfn, exprString(a), c.fn.Name.Name)
			}
		}
	}
	// row structs written through putAccountRow / putAddress directly: their rawData comes from a serialiser
	// (checked above) or is read back from the database; nothing to add here.
}

func main() {
	if len(os.Args) != 2 {
		fmt.Fprintln(os.Stderr, "usage: extract-c04 <repo>")
		os.Exit(2)
	}
	defer func() {
		if r := recover(); r != nil {
			if f, ok := r.(fail); ok {
				fmt.Fprintln(os.Stderr, "extract-c04: "+f.msg)
				os.Exit(1)
			}
			panic(r)
		}
	}()
	p := load(filepath.Join(os.Args[1], "waddrmgr"))
	x := &ext{p: p, ws: map[*ast.FuncDecl]*walker{}}
	res := &result{}
	x.checkDb(res)
	var fnames []string
	for fn := range slotFuncs {
		fnames = append(fnames, fn)
	}
	sort.Strings(fnames)
	for _, fn := range fnames {
		fd := p.one(fn)
		for _, sp := range slotFuncs[fn] {
			i := paramIndex(fd, sp.param)
			if i < 0 {
				die("db.go %s: parameter %s not found", fn, sp.param)
			}
			for _, c := range p.callsOf(fn) {
				if i >= len(c.call.Args) {
					die("%s: call of %s with too few arguments", p.pos(c.call), fn)
				}
				x.origin(res, c.fn, c.call.Args[i], c.call, sp.slot)
			}
		}
	}
	// every Encrypt call of the package is accounted for: it either produced an entry, or its result never
	// reaches the database (kept in memory / returned to the caller): list those by name so that a new one is seen
	seen := map[string]bool{}
	for _, e := range res.Entries {
		seen[e.Pos] = true
	}
	memoryOnly := map[string]bool{"Encrypt": true, "Unlock": true, "newManagedAddress": true}
	for name, l := range p.funcs {
		for _, fd := range l {
			ast.Inspect(fd.Body, func(n ast.Node) bool {
				c, ok := n.(*ast.CallExpr)
				if ok && calleeName(c) == "Encrypt" && len(c.Args) == 1 && !seen[p.pos(c)] {
					if !memoryOnly[name] {
						die("%s: the result of this Encrypt call (in %s) reaches no sealed slot the reader knows", p.pos(c), name)
					}
				}
				return true
			})
		}
	}
	// de-duplicate, stable order
	sort.SliceStable(res.Entries, func(i, j int) bool {
		a, b := res.Entries[i], res.Entries[j]
		if a.Owner != b.Owner {
			return a.Owner < b.Owner
		}
		if a.Slot != b.Slot {
			return a.Slot < b.Slot
		}
		if a.Cond != b.Cond {
			return a.Cond < b.Cond
		}
		return a.Pos < b.Pos
	})
	var ded []entry
	for i, e := range res.Entries {
		if i > 0 && e == res.Entries[i-1] {
			continue
		}
		ded = append(ded, e)
	}
	res.Entries = ded
	sort.Strings(res.Passthrough)
	sort.Strings(res.DbChecks)
	out, _ := json.MarshalIndent(res, "", " ")
	fmt.Println(string(out))
}
