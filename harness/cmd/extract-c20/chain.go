package main

// The answer classes of a broadcast, read from package chain (go/ast only):
//
//   - sentinels: EVERY exported error sentinel of the package - the constants
//     of type RPCErr (chain/errors.go, iota block, in order, with their index)
//     and every package-level `var ErrX = errors.New(..)`.  These are the
//     values a chain.Interface implementation can answer SendRawTransaction
//     with (RPCClient / BitcoindClient / NeutrinoClient return what MapRPCErr
//     gives: a table value, RPCErr(i), or an error wrapping ErrUndefined).
//   - tables: the substring tables MapRPCErr matches a node's text against:
//     the text of every RPCErr (func (r RPCErr) Error, bitcoind, in the order
//     of the loop `for i := 0; i < errSentinel; i++`), Bitcoind28ErrMap,
//     BtcdErrMap, BtcdErrMapPre2402 (source order of the literals).
//
// A declaration whose shape is not one of these is an error.

import (
	"go/ast"
	"go/token"
	"path/filepath"
	"sort"
	"strconv"
	"strings"
)

type sentinel struct {
	Name  string `json:"name"`
	Kind  string `json:"kind"` // rpcerr | var
	Index int    `json:"index"`
	Where string `json:"where"`
}

type chainFacts struct {
	Sentinels []sentinel             `json:"sentinels"`
	Tables    map[string][][2]string `json:"tables"`
}

func exportedErr(name string) bool {
	return strings.HasPrefix(name, "Err") && ast.IsExported(name)
}

func strLit(e ast.Expr) (string, bool) {
	b, ok := e.(*ast.BasicLit)
	if !ok || b.Kind != token.STRING {
		return "", false
	}
	s, err := strconv.Unquote(b.Value)
	return s, err == nil
}

func analyseChain(repo string) chainFacts {
	dir := filepath.Join(repo, "chain")
	files := parseFiles(dir)
	names := make([]string, 0, len(files))
	for n := range files {
		names = append(names, n)
	}
	sort.Strings(names)
	cf := chainFacts{Tables: map[string][][2]string{}}
	var consts []sentinel
	var vars []sentinel
	texts := map[string]string{}
	maps := map[string]string{"Bitcoind28ErrMap": "bitcoind28", "BtcdErrMap": "btcd", "BtcdErrMapPre2402": "btcd_pre2402"}
	seenMaps := map[string]bool{}
	sawEnd := false
	for _, fn := range names {
		f := files[fn]
		for _, d := range f.Decls {
			switch gd := d.(type) {
			case *ast.GenDecl:
				switch gd.Tok {
				case token.CONST:
					// an iota block of type RPCErr
					inBlock, idx := false, 0
					for _, sp := range gd.Specs {
						vs := sp.(*ast.ValueSpec)
						if id, ok := vs.Type.(*ast.Ident); ok && id.Name == "RPCErr" {
							if inBlock || len(consts) > 0 {
								fail("%s: second block of RPCErr constants", pos(vs))
							}
							if len(vs.Values) != 1 || !isIdent(vs.Values[0], "iota") || len(vs.Names) != 1 {
								fail("%s: RPCErr block does not start with `X RPCErr = iota`", pos(vs))
							}
							inBlock, idx = true, 0
						} else if inBlock {
							if vs.Type != nil || len(vs.Values) != 0 || len(vs.Names) != 1 {
								fail("%s: RPCErr constant with an explicit type or value", pos(vs))
							}
							idx++
						} else {
							for _, n := range vs.Names {
								if exportedErr(n.Name) {
									fail("%s: exported constant %s outside the RPCErr block", pos(vs), n.Name)
								}
							}
							continue
						}
						n := vs.Names[0].Name
						if n == "errSentinel" {
							sawEnd = true
							inBlock = false
							continue
						}
						if sawEnd {
							fail("%s: constant after errSentinel", pos(vs))
						}
						if !exportedErr(n) {
							fail("%s: RPCErr constant %s is not an exported Err name", pos(vs), n)
						}
						consts = append(consts, sentinel{n, "rpcerr", idx, pos(vs)})
					}
				case token.VAR:
					for _, sp := range gd.Specs {
						vs := sp.(*ast.ValueSpec)
						for i, n := range vs.Names {
							if tbl, ok := maps[n.Name]; ok {
								if len(vs.Values) != len(vs.Names) {
									fail("%s: %s without a literal", pos(vs), n.Name)
								}
								cl, ok := vs.Values[i].(*ast.CompositeLit)
								if !ok {
									fail("%s: %s is not a map literal", pos(vs), n.Name)
								}
								for _, el := range cl.Elts {
									kv, ok := el.(*ast.KeyValueExpr)
									if !ok {
										fail("%s: element of %s not recognised", pos(el), n.Name)
									}
									k, ok1 := strLit(kv.Key)
									v, ok2 := kv.Value.(*ast.Ident)
									if !ok1 || !ok2 {
										fail("%s: entry of %s is not `\"text\": ErrX`", pos(el), n.Name)
									}
									cf.Tables[tbl] = append(cf.Tables[tbl], [2]string{k, v.Name})
								}
								seenMaps[n.Name] = true
								continue
							}
							if !exportedErr(n.Name) {
								continue
							}
							if len(vs.Values) != len(vs.Names) {
								fail("%s: sentinel %s without an initialiser", pos(vs), n.Name)
							}
							c, ok := vs.Values[i].(*ast.CallExpr)
							if !ok {
								fail("%s: sentinel %s is not errors.New(..)", pos(vs), n.Name)
							}
							se, ok := c.Fun.(*ast.SelectorExpr)
							if !ok || !isIdent(se.X, "errors") || se.Sel.Name != "New" {
								fail("%s: sentinel %s is not errors.New(..)", pos(vs), n.Name)
							}
							vars = append(vars, sentinel{n.Name, "var", -1, pos(vs)})
						}
					}
				}
			case *ast.FuncDecl:
				// func (r RPCErr) Error() string { switch r { case X: return "text" .. } .. }
				if gd.Name.Name != "Error" || gd.Recv == nil || len(gd.Recv.List) != 1 || recvName(gd.Recv.List[0].Type) != "RPCErr" {
					continue
				}
				var sw *ast.SwitchStmt
				for _, st := range gd.Body.List {
					if s, ok := st.(*ast.SwitchStmt); ok {
						if sw != nil {
							fail("%s: two switches in RPCErr.Error", pos(s))
						}
						sw = s
					}
				}
				if sw == nil || sw.Init != nil || len(gd.Recv.List[0].Names) != 1 || !isIdent(sw.Tag, gd.Recv.List[0].Names[0].Name) {
					fail("%s: RPCErr.Error is not a switch over the receiver", pos(gd))
				}
				for _, cc := range sw.Body.List {
					cl := cc.(*ast.CaseClause)
					if cl.List == nil {
						fail("%s: default clause in RPCErr.Error", pos(cl))
					}
					if len(cl.Body) != 1 {
						fail("%s: case of RPCErr.Error is not a single return", pos(cl))
					}
					r, ok := cl.Body[0].(*ast.ReturnStmt)
					if !ok || len(r.Results) != 1 {
						fail("%s: case of RPCErr.Error is not a single return", pos(cl))
					}
					txt, ok := strLit(r.Results[0])
					if !ok {
						fail("%s: RPCErr.Error does not return a string literal", pos(r))
					}
					for _, e := range cl.List {
						id, ok := e.(*ast.Ident)
						if !ok {
							fail("%s: case expression of RPCErr.Error is not a constant name", pos(e))
						}
						if _, dup := texts[id.Name]; dup {
							fail("%s: %s has two texts", pos(e), id.Name)
						}
						texts[id.Name] = txt
					}
				}
			}
		}
	}
	if len(consts) == 0 || !sawEnd {
		fail("chain: block of RPCErr constants ending in errSentinel not found")
	}
	for m := range maps {
		if !seenMaps[m] {
			fail("chain: table %s not found", m)
		}
	}
	for _, c := range consts {
		t, ok := texts[c.Name]
		if !ok {
			// RPCErr.Error answers "unknown error" for it; bitcoind's MapRPCErr then matches that text
			t = "unknown error"
		}
		cf.Tables["bitcoind"] = append(cf.Tables["bitcoind"], [2]string{t, c.Name})
	}
	cf.Sentinels = append(cf.Sentinels, vars...)
	cf.Sentinels = append(cf.Sentinels, consts...)
	known := map[string]bool{}
	for _, s := range cf.Sentinels {
		if known[s.Name] {
			fail("chain: sentinel %s declared twice", s.Name)
		}
		known[s.Name] = true
	}
	for tbl, rows := range cf.Tables {
		for _, r := range rows {
			if !known[r[1]] {
				fail("chain: table %s maps %q to %s, which is not a declared sentinel", tbl, r[0], r[1])
			}
		}
	}
	return cf
}
