// extract-c20 reads the broadcast path of the wallet from the repository given
// as argument (go/ast only, nothing is compiled or run) and prints, as one
// JSON object, the facts that the theorems of property C20 depend on:
//
//	usage: extract-c20 <repo>
//
// wallet/wallet.go, func reliablyPublishTransaction
//   - records_before_broadcast: a walletdb.Update whose closure ends in
//     `w.addRelevantTx(dbTx, txRec, nil)` precedes the NotifyReceived call,
//     which precedes the final `return w.publishTransaction(tx)`;
//   - notify_failure_removes_tx: the error branch of
//     `if err := chainClient.NotifyReceived(..); err != nil { .. }` removes the
//     transaction recorded just before (a call of RemoveUnminedTx, or of
//     a wallet method whose body calls it) before it returns;
//   - notify_failure_is_error: that branch returns a non-nil error.
//
// wallet/wallet.go, func publishTransaction: for every answer class of
// SendRawTransaction (accepted = rpcErr == nil, chain.ErrTxAlreadyInMempool,
// chain.ErrTxAlreadyKnown, chain.ErrTxAlreadyConfirmed, any other error)
// whether the branch taken calls RemoveUnminedTx and whether it returns an
// error.
//
// wallet/wallet.go, func resendUnminedTxs and wtxmgr/unconfirmed.go, func
// UnminedTxs:
//   - resend_uses_dependency_sort: the list comes from w.TxStore.UnminedTxs
//     and UnminedTxs returns DependencySort(..) of the unmined records;
//   - resend_offers_every_element: the loop ranges over that list, calls
//     w.publishTransaction on the element and contains no break/return/goto.
//
// wtxmgr/tx.go, func RemoveUnminedTx:
//   - remove_unmined_is_remove_conflict: its body is
//     `return s.removeConflict(ns, rec)` (the recursive removal that the model
//     Tx/Store.v transcribes).
//
// The branch of publishTransaction is determined for EVERY exported sentinel
// of package chain (chain.go in this directory reads the list): the tests
// errors.Is(rpcErr, chain.X) are evaluated in source order for an error that
// Is exactly X; a sentinel no test names takes the rejection path.  A test
// that names something that is not a declared sentinel is an error.
//
//	usage: extract-c20 -chain <repo>
//
// prints only the sentinels and the MapRPCErr tables of package chain
// (lib/extract_c20.py needs them also when the shape of wallet.go is not
// recognised: the behavioural fallback must try every sentinel).
//
// Any shape that is not recognised is an error (exit status 1): the check then
// reports a broken obligation instead of keeping an old table.
package main

import (
	"encoding/json"
	"fmt"
	"go/ast"
	"go/parser"
	"go/token"
	"os"
	"path/filepath"
)

type action struct {
	Removes bool   `json:"removes"`
	IsError bool   `json:"is_error"`
	Where   string `json:"where"`
}

type result struct {
	RecordsBeforeBroadcast bool              `json:"records_before_broadcast"`
	NotifyRemoves          bool              `json:"notify_failure_removes_tx"`
	NotifyIsError          bool              `json:"notify_failure_is_error"`
	NotifyWhere            string            `json:"notify_where"`
	Classes                map[string]action `json:"classes"`
	ResendSorted           bool              `json:"resend_uses_dependency_sort"`
	ResendEvery            bool              `json:"resend_offers_every_element"`
	ResendWhere            string            `json:"resend_where"`
	RemoveIsRecursive      bool              `json:"remove_unmined_is_remove_conflict"`
	RemoveWhere            string            `json:"remove_where"`
	// per exported sentinel of package chain: the branch an error that Is it takes
	SentinelActions map[string]action `json:"sentinel_actions"`
	Chain           chainFacts        `json:"chain"`
}

var fset = token.NewFileSet()

func fail(format string, a ...interface{}) {
	fmt.Fprintf(os.Stderr, "extract-c20: "+format+"\n", a...)
	os.Exit(1)
}

func pos(n ast.Node) string {
	p := fset.Position(n.Pos())
	return fmt.Sprintf("%s:%d", filepath.Base(p.Filename), p.Line)
}

func parseDir(dir string) map[string]*ast.FuncDecl {
	pkgs, err := parser.ParseDir(fset, dir, func(fi os.FileInfo) bool {
		n := fi.Name()
		return len(n) < 8 || n[len(n)-8:] != "_test.go"
	}, 0)
	if err != nil {
		fail("parse %s: %v", dir, err)
	}
	out := map[string]*ast.FuncDecl{}
	for _, p := range pkgs {
		for _, f := range p.Files {
			for _, d := range f.Decls {
				if fd, ok := d.(*ast.FuncDecl); ok && fd.Body != nil {
					name := fd.Name.Name
					if fd.Recv != nil && len(fd.Recv.List) == 1 {
						name = recvName(fd.Recv.List[0].Type) + "." + name
					}
					out[name] = fd
				}
			}
		}
	}
	return out
}

// parseFiles returns the non-test files of a directory by name.
func parseFiles(dir string) map[string]*ast.File {
	pkgs, err := parser.ParseDir(fset, dir, func(fi os.FileInfo) bool {
		n := fi.Name()
		return len(n) < 8 || n[len(n)-8:] != "_test.go"
	}, 0)
	if err != nil {
		fail("parse %s: %v", dir, err)
	}
	out := map[string]*ast.File{}
	for _, p := range pkgs {
		for n, f := range p.Files {
			out[filepath.Base(n)] = f
		}
	}
	return out
}

func recvName(e ast.Expr) string {
	switch t := e.(type) {
	case *ast.StarExpr:
		return recvName(t.X)
	case *ast.Ident:
		return t.Name
	}
	return "?"
}

// selName returns the selector name of a call (x.y.Name(...) -> Name), or the
// identifier for a plain call.
func selName(c *ast.CallExpr) string {
	switch f := c.Fun.(type) {
	case *ast.SelectorExpr:
		return f.Sel.Name
	case *ast.Ident:
		return f.Name
	}
	return ""
}

func isIdent(e ast.Expr, name string) bool {
	id, ok := e.(*ast.Ident)
	return ok && id.Name == name
}

// callsRemove reports whether the node contains (closures included) a call of
// RemoveUnminedTx, or of a Wallet method (w.m(..)) whose body does, to depth 2.
func callsRemove(n ast.Node, funcs map[string]*ast.FuncDecl, depth int) bool {
	found := false
	ast.Inspect(n, func(x ast.Node) bool {
		if found {
			return false
		}
		// `name := func() .. { .. }` only DEFINES a local closure: its body
		// runs where `name()` is called
		if as, ok := x.(*ast.AssignStmt); ok && localDef(as) != "" {
			return false
		}
		c, ok := x.(*ast.CallExpr)
		if !ok {
			return true
		}
		if id, ok := c.Fun.(*ast.Ident); ok {
			if fl, ok := localFuncs[id.Name]; ok {
				if depth > 0 && callsRemove(fl.Body, funcs, depth-1) {
					found = true
					return false
				}
				return true
			}
		}
		name := selName(c)
		if name == "RemoveUnminedTx" {
			found = true
			return false
		}
		if depth > 0 {
			if se, ok := c.Fun.(*ast.SelectorExpr); ok && isIdent(se.X, "w") {
				if fd, ok := funcs["Wallet."+name]; ok && name != "publishTransaction" &&
					name != "reliablyPublishTransaction" {
					if callsRemove(fd.Body, funcs, depth-1) {
						found = true
						return false
					}
				}
			}
		}
		return true
	})
	return found
}

// localFuncs: closures defined by `name := func(..) .. {..}` at the top level
// of the function under analysis (set by collectLocalFuncs).
var localFuncs = map[string]*ast.FuncLit{}

// localDef returns the name when the statement is `name := func(..) {..}`.
func localDef(as *ast.AssignStmt) string {
	if len(as.Lhs) != 1 || len(as.Rhs) != 1 {
		return ""
	}
	id, ok := as.Lhs[0].(*ast.Ident)
	if !ok {
		return ""
	}
	if _, ok := as.Rhs[0].(*ast.FuncLit); !ok {
		return ""
	}
	return id.Name
}

func collectLocalFuncs(fd *ast.FuncDecl) {
	localFuncs = map[string]*ast.FuncLit{}
	for _, st := range fd.Body.List {
		if as, ok := st.(*ast.AssignStmt); ok {
			if n := localDef(as); n != "" {
				if _, dup := localFuncs[n]; dup || as.Tok != token.DEFINE {
					fail("%s: local closure %s assigned more than once", pos(as), n)
				}
				localFuncs[n] = as.Rhs[0].(*ast.FuncLit)
			}
		}
	}
	// a closure that is reassigned anywhere else is not understood
	ast.Inspect(fd.Body, func(x ast.Node) bool {
		if as, ok := x.(*ast.AssignStmt); ok && as.Tok != token.DEFINE {
			for _, l := range as.Lhs {
				if id, ok := l.(*ast.Ident); ok {
					if _, isLocal := localFuncs[id.Name]; isLocal {
						fail("%s: local closure %s is reassigned", pos(as), id.Name)
					}
				}
			}
		}
		return true
	})
}

// lastReturn returns the last statement of a block when it is a return.
func lastReturn(stmts []ast.Stmt) *ast.ReturnStmt {
	if len(stmts) == 0 {
		return nil
	}
	r, _ := stmts[len(stmts)-1].(*ast.ReturnStmt)
	return r
}

// returnsError: the return statement's last result is not the literal nil.
func returnsError(r *ast.ReturnStmt) bool {
	if len(r.Results) == 0 {
		fail("%s: bare return not recognised", pos(r))
	}
	return !isIdent(r.Results[len(r.Results)-1], "nil")
}

// noEarlyExit: apart from the final return, the block has no return, break,
// goto, fallthrough or panic at any depth outside function literals.
func noEarlyExit(stmts []ast.Stmt, final ast.Stmt) bool {
	ok := true
	for _, s := range stmts {
		ast.Inspect(s, func(x ast.Node) bool {
			switch t := x.(type) {
			case *ast.FuncLit:
				return false
			case *ast.ReturnStmt:
				if ast.Stmt(t) != final {
					ok = false
				}
			case *ast.BranchStmt:
				ok = false
			}
			return true
		})
	}
	return ok
}

// notifyIf finds `if err := <x>.NotifyReceived(..); err != nil {..}` among the
// top-level statements.
func notifyIf(stmts []ast.Stmt) (int, *ast.IfStmt) {
	for i, s := range stmts {
		is, ok := s.(*ast.IfStmt)
		if !ok || is.Init == nil {
			continue
		}
		as, ok := is.Init.(*ast.AssignStmt)
		if !ok || len(as.Rhs) != 1 {
			continue
		}
		c, ok := as.Rhs[0].(*ast.CallExpr)
		if !ok || selName(c) != "NotifyReceived" {
			continue
		}
		be, ok := is.Cond.(*ast.BinaryExpr)
		if !ok || be.Op != token.NEQ || !isIdent(be.Y, "nil") {
			fail("%s: condition of the NotifyReceived test not recognised", pos(is))
		}
		if is.Else != nil {
			fail("%s: NotifyReceived test has an else branch", pos(is))
		}
		return i, is
	}
	return -1, nil
}

func analyseReliably(fd *ast.FuncDecl, funcs map[string]*ast.FuncDecl, res *result) {
	collectLocalFuncs(fd)
	stmts := fd.Body.List
	ni, nif := notifyIf(stmts)
	if nif == nil {
		fail("%s: no `if err := ..NotifyReceived(..); err != nil` in reliablyPublishTransaction", pos(fd))
	}
	// the recording Update before it
	rec := -1
	for i, s := range stmts[:ni] {
		found := false
		ast.Inspect(s, func(x ast.Node) bool {
			c, ok := x.(*ast.CallExpr)
			if ok && selName(c) == "addRelevantTx" && len(c.Args) == 3 && isIdent(c.Args[2], "nil") {
				found = true
			}
			return true
		})
		if found {
			rec = i
		}
	}
	// the final statement: return w.publishTransaction(tx)
	last := lastReturn(stmts)
	finalOK := false
	if last != nil && len(last.Results) == 1 {
		if c, ok := last.Results[0].(*ast.CallExpr); ok && selName(c) == "publishTransaction" {
			finalOK = true
		}
	}
	if !finalOK {
		fail("%s: reliablyPublishTransaction does not end in `return w.publishTransaction(tx)`", pos(fd))
	}
	// nothing between the NotifyReceived test and the final return may touch the store
	for _, s := range stmts[ni+1 : len(stmts)-1] {
		if callsRemove(s, funcs, 2) {
			fail("%s: unexpected removal between NotifyReceived and the broadcast", pos(s))
		}
	}
	res.RecordsBeforeBroadcast = rec >= 0
	body := nif.Body.List
	r := lastReturn(body)
	if r == nil || !noEarlyExit(body, r) {
		fail("%s: error branch of the NotifyReceived test does not end in a single return", pos(nif))
	}
	res.NotifyRemoves = callsRemove(nif.Body, funcs, 2)
	res.NotifyIsError = returnsError(r)
	res.NotifyWhere = pos(nif)
	if !res.NotifyRemoves {
		// without a removal the branch must be the plain `return nil, err`
		// (logging allowed): anything else is not understood
		for _, s := range body[:len(body)-1] {
			es, ok := s.(*ast.ExprStmt)
			if !ok {
				fail("%s: statement in the NotifyReceived error branch not recognised", pos(s))
			}
			c, ok := es.X.(*ast.CallExpr)
			if !ok {
				fail("%s: statement in the NotifyReceived error branch not recognised", pos(s))
			}
			if se, ok := c.Fun.(*ast.SelectorExpr); !ok || !isIdent(se.X, "log") {
				fail("%s: call in the NotifyReceived error branch not recognised", pos(s))
			}
		}
	}
}

// errorsIsTarget: errors.Is(rpcErr, chain.X) -> X
func errorsIsTarget(e ast.Expr) string {
	c, ok := e.(*ast.CallExpr)
	if !ok || len(c.Args) != 2 {
		return ""
	}
	se, ok := c.Fun.(*ast.SelectorExpr)
	if !ok || !isIdent(se.X, "errors") || se.Sel.Name != "Is" || !isIdent(c.Args[0], "rpcErr") {
		return ""
	}
	t, ok := c.Args[1].(*ast.SelectorExpr)
	if !ok || !isIdent(t.X, "chain") {
		return ""
	}
	return t.Sel.Name
}

func analysePublish(fd *ast.FuncDecl, funcs map[string]*ast.FuncDecl, res *result, sentinels []sentinel) {
	collectLocalFuncs(fd)
	stmts := fd.Body.List
	res.Classes = map[string]action{}
	// locate `_, rpcErr := chainClient.SendRawTransaction(tx, false)`
	send := -1
	for i, s := range stmts {
		as, ok := s.(*ast.AssignStmt)
		if !ok || len(as.Rhs) != 1 || len(as.Lhs) != 2 || !isIdent(as.Lhs[1], "rpcErr") {
			continue
		}
		if c, ok := as.Rhs[0].(*ast.CallExpr); ok && selName(c) == "SendRawTransaction" {
			send = i
		}
	}
	if send < 0 {
		fail("%s: `_, rpcErr := ..SendRawTransaction(..)` not found in publishTransaction", pos(fd))
	}
	for _, s := range stmts[:send] {
		if callsRemove(s, funcs, 2) {
			fail("%s: removal before the broadcast in publishTransaction", pos(s))
		}
	}
	rest := stmts[send+1:]
	// if rpcErr == nil { return &txid, nil }
	if len(rest) == 0 {
		fail("%s: publishTransaction ends after SendRawTransaction", pos(fd))
	}
	is, ok := rest[0].(*ast.IfStmt)
	if !ok || is.Init != nil || is.Else != nil {
		fail("%s: `if rpcErr == nil` not found", pos(rest[0]))
	}
	be, ok := is.Cond.(*ast.BinaryExpr)
	if !ok || be.Op != token.EQL || !isIdent(be.X, "rpcErr") || !isIdent(be.Y, "nil") {
		fail("%s: `if rpcErr == nil` not found", pos(is))
	}
	r := lastReturn(is.Body.List)
	if r == nil || !noEarlyExit(is.Body.List, r) {
		fail("%s: accepted branch does not end in a single return", pos(is))
	}
	res.Classes["accepted"] = action{callsRemove(is.Body, funcs, 2), returnsError(r), pos(is)}
	rest = rest[1:]
	// the answer classification: tagless switches over errors.Is(rpcErr,
	// chain.X) and/or if / else-if chains over (disjunctions of) the same
	// tests; everything after the last of them is the rejection path (unless
	// a chain ends in a plain else block, which then is the rejection path)
	named := []string{"ErrTxAlreadyInMempool", "ErrTxAlreadyKnown", "ErrTxAlreadyConfirmed"}
	key := map[string]string{"ErrTxAlreadyInMempool": "in_mempool", "ErrTxAlreadyKnown": "already_known",
		"ErrTxAlreadyConfirmed": "already_confirmed"}
	declared := map[string]bool{}
	for _, s := range sentinels {
		declared[s.Name] = true
	}
	for _, n := range named {
		if !declared[n] {
			fail("chain.%s is not declared in package chain", n)
		}
	}
	res.SentinelActions = map[string]action{}
	handled := map[string]bool{}
	branch := func(where ast.Node, body []ast.Stmt, targets []string) {
		r := lastReturn(body)
		if r == nil || !noEarlyExit(body, r) {
			fail("%s: classification branch does not end in a single return", pos(where))
		}
		act := action{false, returnsError(r), pos(where)}
		for _, b := range body {
			if callsRemove(b, funcs, 2) {
				act.Removes = true
			}
		}
		for _, t := range targets {
			if handled[t] {
				continue // an earlier branch wins
			}
			if !declared[t] {
				fail("%s: chain.%s is not an exported error sentinel of package chain", pos(where), t)
			}
			handled[t] = true
			res.SentinelActions[t] = act
			if k, ok := key[t]; ok {
				res.Classes[k] = act
			}
		}
	}
	isCls := func(st ast.Stmt) bool {
		switch t := st.(type) {
		case *ast.SwitchStmt:
			return t.Tag == nil && t.Init == nil
		case *ast.IfStmt:
			return t.Init == nil && condTargets(t.Cond) != nil
		}
		return false
	}
	last := -1
	for i, st := range rest {
		if isCls(st) {
			last = i
		}
	}
	var other *action
	for i := 0; i <= last; i++ {
		st := rest[i]
		if !isCls(st) {
			if callsRemove(st, funcs, 2) {
				fail("%s: removal outside a classification branch", pos(st))
			}
			if _, isRet := st.(*ast.ReturnStmt); isRet || !noEarlyExit([]ast.Stmt{st}, nil) {
				fail("%s: return outside a classification branch", pos(st))
			}
			continue
		}
		if other != nil {
			fail("%s: classification after a closing else", pos(st))
		}
		switch t := st.(type) {
		case *ast.SwitchStmt:
			for _, cc := range t.Body.List {
				cl := cc.(*ast.CaseClause)
				if cl.List == nil {
					fail("%s: default clause in the answer classification not recognised", pos(cl))
				}
				var targets []string
				for _, e := range cl.List {
					ts := condTargets(e)
					if ts == nil {
						fail("%s: case expression is not errors.Is(rpcErr, chain.X)", pos(e))
					}
					targets = append(targets, ts...)
				}
				branch(cl, cl.Body, targets)
			}
		case *ast.IfStmt:
			for cur := t; cur != nil; {
				if cur.Init != nil {
					fail("%s: if with an init statement in the answer classification", pos(cur))
				}
				ts := condTargets(cur.Cond)
				if ts == nil {
					fail("%s: condition is not a disjunction of errors.Is(rpcErr, chain.X)", pos(cur))
				}
				branch(cur, cur.Body.List, ts)
				switch el := cur.Else.(type) {
				case nil:
					cur = nil
				case *ast.IfStmt:
					cur = el
				case *ast.BlockStmt:
					r := lastReturn(el.List)
					if r == nil || !noEarlyExit(el.List, r) {
						fail("%s: closing else does not end in a single return", pos(el))
					}
					o := action{false, returnsError(r), pos(el)}
					for _, b := range el.List {
						if callsRemove(b, funcs, 2) {
							o.Removes = true
						}
					}
					other = &o
					cur = nil
				default:
					fail("%s: else shape not recognised", pos(cur))
				}
			}
		}
	}
	tail := rest[last+1:]
	if other == nil {
		r = lastReturn(tail)
		if r == nil || !noEarlyExit(tail, r) {
			fail("%s: rejection path of publishTransaction does not end in a single return", pos(fd))
		}
		o := action{false, returnsError(r), pos(r)}
		for _, st := range tail {
			if callsRemove(st, funcs, 2) {
				o.Removes = true
			}
		}
		other = &o
	}
	res.Classes["other"] = *other
	for _, n := range named {
		if !handled[n] {
			o := *other
			o.Where = other.Where + " (no case for chain." + n + ")"
			res.Classes[key[n]] = o
		}
	}
	// every other sentinel: an error that Is it matches no test
	for _, sn := range sentinels {
		if !handled[sn.Name] {
			res.SentinelActions[sn.Name] = *other
		}
	}
}

// condTargets: errors.Is(rpcErr, chain.X) [|| errors.Is(rpcErr, chain.Y) ..]
// -> [X, Y, ..]; nil when the expression has another shape.
func condTargets(e ast.Expr) []string {
	switch t := e.(type) {
	case *ast.ParenExpr:
		return condTargets(t.X)
	case *ast.BinaryExpr:
		if t.Op != token.LOR {
			return nil
		}
		l, r := condTargets(t.X), condTargets(t.Y)
		if l == nil || r == nil {
			return nil
		}
		return append(l, r...)
	}
	if x := errorsIsTarget(e); x != "" {
		return []string{x}
	}
	return nil
}

func analyseResend(fd *ast.FuncDecl, unmined *ast.FuncDecl, res *result) {
	// the list variable assigned from w.TxStore.UnminedTxs(..)
	listVar, src := "", ""
	ast.Inspect(fd.Body, func(x ast.Node) bool {
		as, ok := x.(*ast.AssignStmt)
		if !ok || len(as.Rhs) != 1 || len(as.Lhs) != 2 {
			return true
		}
		c, ok := as.Rhs[0].(*ast.CallExpr)
		if !ok {
			return true
		}
		n := selName(c)
		if n == "UnminedTxs" || n == "UnminedTxHashes" || n == "unminedTxRecords" {
			if id, ok := as.Lhs[0].(*ast.Ident); ok {
				listVar, src = id.Name, n
			}
		}
		return true
	})
	if listVar == "" {
		fail("%s: source of the list in resendUnminedTxs not recognised", pos(fd))
	}
	// the loop
	var loop *ast.RangeStmt
	for _, s := range fd.Body.List {
		if rs, ok := s.(*ast.RangeStmt); ok && isIdent(rs.X, listVar) {
			loop = rs
		}
	}
	if loop == nil {
		fail("%s: `for _, tx := range %s` not found in resendUnminedTxs", pos(fd), listVar)
	}
	elem, _ := loop.Value.(*ast.Ident)
	calls, exits := false, false
	ast.Inspect(loop.Body, func(x ast.Node) bool {
		switch t := x.(type) {
		case *ast.FuncLit:
			return false
		case *ast.CallExpr:
			if selName(t) == "publishTransaction" && len(t.Args) == 1 && elem != nil && isIdent(t.Args[0], elem.Name) {
				calls = true
			}
		case *ast.ReturnStmt:
			exits = true
		case *ast.BranchStmt:
			if t.Tok != token.CONTINUE {
				exits = true
			}
		}
		return true
	})
	res.ResendEvery = calls && !exits
	// UnminedTxs returns DependencySort(..)
	sorted := false
	if unmined != nil {
		if r := lastReturn(unmined.Body.List); r != nil && len(r.Results) == 2 {
			if c, ok := r.Results[0].(*ast.CallExpr); ok && selName(c) == "DependencySort" {
				sorted = true
			}
		}
	}
	res.ResendSorted = src == "UnminedTxs" && sorted
	res.ResendWhere = pos(loop)
}

func main() {
	if len(os.Args) == 3 && os.Args[1] == "-chain" {
		b, _ := json.Marshal(analyseChain(os.Args[2]))
		fmt.Println(string(b))
		return
	}
	if len(os.Args) != 2 {
		fail("usage: extract-c20 [-chain] <repo>")
	}
	repo := os.Args[1]
	wf := parseDir(filepath.Join(repo, "wallet"))
	tf := parseDir(filepath.Join(repo, "wtxmgr"))
	var res result
	res.Chain = analyseChain(repo)
	rel, ok := wf["Wallet.reliablyPublishTransaction"]
	if !ok {
		fail("func (w *Wallet) reliablyPublishTransaction not found")
	}
	pub, ok := wf["Wallet.publishTransaction"]
	if !ok {
		fail("func (w *Wallet) publishTransaction not found")
	}
	rs, ok := wf["Wallet.resendUnminedTxs"]
	if !ok {
		fail("func (w *Wallet) resendUnminedTxs not found")
	}
	analyseReliably(rel, wf, &res)
	analysePublish(pub, wf, &res, res.Chain.Sentinels)
	analyseResend(rs, tf["Store.UnminedTxs"], &res)
	// RemoveUnminedTx must be the recursive removal
	rm, ok := tf["Store.RemoveUnminedTx"]
	if !ok {
		fail("func (s *Store) RemoveUnminedTx not found")
	}
	isRC := false
	if r := lastReturn(rm.Body.List); r != nil && len(r.Results) == 1 {
		if c, ok := r.Results[0].(*ast.CallExpr); ok && selName(c) == "removeConflict" {
			isRC = true
		}
	}
	res.RemoveIsRecursive = isRC
	res.RemoveWhere = pos(rm)
	b, _ := json.Marshal(res)
	fmt.Println(string(b))
}
