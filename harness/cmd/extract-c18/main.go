// extract-c18 reads the two inline notification queues of package chain from
// the repository given as argument (go/ast only, nothing is compiled or run)
// and prints, as one JSON object, the facts the slice-queue theorems of
// property C18 (coq/Queue/SliceQueue*.v) depend on:
//
//	usage: extract-c18 <repo>
//
// chain/btcd.go      func (c *RPCClient) handler()
// chain/neutrino.go  func (s *NeutrinoClient) notificationHandler()
//
// Both must contain, after declaring the four locals
//
//	var Q []interface{}            the pending slice
//	E := <recv>.enqueueNotification
//	var D chan interface{}         the (nil-able) output channel
//	var NX interface{}             the element offered to the consumer
//
// (names are free; the roles are told apart by type / initialiser), a labelled
// `for` whose body is - apart from statements that do not mention Q, E, D, NX -
// one `select` with these cases:
//
//	case n, ok := <-E:
//	    if !ok { if EMPTY(Q) { break L }; E = nil; continue }
//	    if EMPTY(Q) { NX = n; D = <recv>.dequeueNotification }    -> enq_arms
//	    Q = append(Q, n)                                           -> enq_tail
//	case D <- NX:
//	    [if v, ok := NX.(BlockConnected); ok { bs = ... }]         -> bs_from_delivered
//	    [Q[0] = nil]
//	    SHIFT(Q)
//	    if NONEMPTY(Q) { NX = Q[0] } else { if E == nil { break L }; D = nil }
//	                                           -> deq_shift_first, deq_disarms
//	case <recv>.currentBlock <- bs:     (empty)
//	case <-<recv>.quit: break L                                    -> sel_quit
//	case .. := <-other:                 (body must not mention Q, E, D, NX nor
//	                                     leave the loop: neutrino's rescanErr)
//
// followed, after the loop, by `close(<recv>.dequeueNotification)` (exit_closes);
// and `func (..) Notifications()` must return <recv>.dequeueNotification.
//
// Harmless variants that are understood:
//
//	EMPTY(Q)     len(Q) == 0 | 0 == len(Q) | len(Q) < 1 | len(Q) <= 0
//	NONEMPTY(Q)  len(Q) != 0 | len(Q) > 0 | len(Q) >= 1 | 0 < len(Q) | 0 != len(Q)
//	             (the if/else may be written the other way round with EMPTY)
//	SHIFT(Q)     Q = Q[1:]   |   copy(Q, Q[1:]) [; Q[len(Q)-1] = nil] ; Q = Q[:len(Q)-1]
//	the two assignments of the arming block in either order
//	expression statements that neither mention Q, E, D, NX nor transfer
//	control nor touch a channel (logging) anywhere in the two cases
//
// Slips that are understood and REPORTED as a fact being false (the theorem
// C18_slice_code_shape then fails):
//
//	enq_tail = false         Q = append([]interface{}{n}, Q...)
//	enq_arms = false         the arming block is missing
//	deq_shift_first = false  `if len(Q) > 1 { NX = Q[0] }` (or != 1 / >= 2)
//	                         BEFORE the shift, none after it
//	deq_disarms = false      `D = nil` is missing from the empty branch
//	sel_quit = false         no `case <-<recv>.quit`
//	exit_closes = false      no close(<recv>.dequeueNotification) after the loop
//
// Anything else is refused (exit status 1): the check then reports a broken
// obligation instead of keeping an old table.
package main

import (
	"encoding/json"
	"fmt"
	"go/ast"
	"go/parser"
	"go/token"
	"os"
	"path/filepath"
	"strings"
)

type facts struct {
	Where          string `json:"where"`
	EnqTail        bool   `json:"enq_tail"`
	EnqArms        bool   `json:"enq_arms"`
	DeqShiftFirst  bool   `json:"deq_shift_first"`
	DeqDisarms     bool   `json:"deq_disarms"`
	SelQuit        bool   `json:"sel_quit"`
	ExitCloses     bool   `json:"exit_closes"`
	BSFromDeliverd bool   `json:"bs_from_delivered"`
	OutIsDequeue   bool   `json:"notifications_returns_dequeue"`
	Locals         string `json:"locals"`
	Shift          string `json:"shift_form"`
	ExtraCases     int    `json:"harmless_extra_cases"`
}

type reader struct {
	fset *token.FileSet
	file string
	q    string // pending slice
	e    string // enqueue
	d    string // dequeue
	nx   string // next
	recv string // receiver name
	lbl  string // loop label
}

func (r *reader) pos(n ast.Node) string {
	p := r.fset.Position(n.Pos())
	return fmt.Sprintf("%s:%d", r.file, p.Line)
}

func (r *reader) fail(n ast.Node, format string, a ...interface{}) error {
	return fmt.Errorf("%s: %s", r.pos(n), fmt.Sprintf(format, a...))
}

func isIdent(e ast.Expr, name string) bool {
	id, ok := e.(*ast.Ident)
	return ok && id.Name == name
}

func isInt(e ast.Expr, v string) bool {
	l, ok := e.(*ast.BasicLit)
	return ok && l.Kind == token.INT && l.Value == v
}

func isEmptyInterface(e ast.Expr) bool {
	it, ok := e.(*ast.InterfaceType)
	if ok {
		return it.Methods == nil || len(it.Methods.List) == 0
	}
	return isIdent(e, "any")
}

// recvField: <recv>.<field>
func (r *reader) recvField(e ast.Expr, field string) bool {
	s, ok := e.(*ast.SelectorExpr)
	return ok && s.Sel.Name == field && isIdent(s.X, r.recv)
}

// lenOf: len(<name>)
func lenOf(e ast.Expr, name string) bool {
	c, ok := e.(*ast.CallExpr)
	return ok && isIdent(c.Fun, "len") && len(c.Args) == 1 && isIdent(c.Args[0], name)
}

func unparen(e ast.Expr) ast.Expr {
	for {
		p, ok := e.(*ast.ParenExpr)
		if !ok {
			return e
		}
		e = p.X
	}
}

// lenCmp classifies a comparison of len(Q) with a constant:
// "empty" (len==0), "nonempty" (len!=0), "gt1" (len>1: at least two), "" else.
func (r *reader) lenCmp(e ast.Expr) string {
	b, ok := unparen(e).(*ast.BinaryExpr)
	if !ok {
		return ""
	}
	op, x, y := b.Op, unparen(b.X), unparen(b.Y)
	if !lenOf(x, r.q) {
		// constant on the left: mirror
		if !lenOf(y, r.q) {
			return ""
		}
		x, y = y, x
		switch op {
		case token.LSS:
			op = token.GTR
		case token.GTR:
			op = token.LSS
		case token.LEQ:
			op = token.GEQ
		case token.GEQ:
			op = token.LEQ
		}
	}
	switch {
	case op == token.EQL && isInt(y, "0"), op == token.LSS && isInt(y, "1"), op == token.LEQ && isInt(y, "0"):
		return "empty"
	case op == token.NEQ && isInt(y, "0"), op == token.GTR && isInt(y, "0"), op == token.GEQ && isInt(y, "1"):
		return "nonempty"
	case op == token.GTR && isInt(y, "1"), op == token.GEQ && isInt(y, "2"), op == token.NEQ && isInt(y, "1"):
		return "gt1"
	}
	return ""
}

// mentions reports whether the node mentions one of the four locals.
func (r *reader) mentions(n ast.Node) bool {
	found := false
	ast.Inspect(n, func(x ast.Node) bool {
		if id, ok := x.(*ast.Ident); ok {
			if id.Name == r.q || id.Name == r.e || id.Name == r.d || id.Name == r.nx {
				found = true
			}
		}
		return !found
	})
	return found
}

func leavesLoop(n ast.Node) bool {
	found := false
	ast.Inspect(n, func(x ast.Node) bool {
		switch s := x.(type) {
		case *ast.ReturnStmt:
			found = true
		case *ast.BranchStmt:
			if s.Tok == token.GOTO || s.Label != nil {
				found = true
			}
		case *ast.FuncLit:
			return false
		}
		return !found
	})
	return found
}

// inert: a statement that neither mentions the queue's locals nor transfers
// control (logging, metrics, ...).  Such statements are ignored wherever a
// case body is matched.
func (r *reader) inert(s ast.Stmt) bool {
	if r.mentions(s) || leavesLoop(s) {
		return false
	}
	ok := true
	ast.Inspect(s, func(x ast.Node) bool {
		switch b := x.(type) {
		case *ast.BranchStmt:
			ok = false
		case *ast.FuncLit, *ast.GoStmt, *ast.DeferStmt, *ast.SelectStmt, *ast.SendStmt:
			ok = false
		case *ast.UnaryExpr:
			if b.Op == token.ARROW {
				ok = false // a receive may block
			}
		}
		return ok
	})
	return ok
}

func (r *reader) strip(l []ast.Stmt) []ast.Stmt {
	var out []ast.Stmt
	for _, s := range l {
		if _, isExpr := s.(*ast.ExprStmt); isExpr && r.inert(s) {
			continue
		}
		out = append(out, s)
	}
	return out
}

func (r *reader) isBreakOut(s ast.Stmt) bool {
	b, ok := s.(*ast.BranchStmt)
	return ok && b.Tok == token.BREAK && b.Label != nil && b.Label.Name == r.lbl
}

// assign1: `<lhs> = <rhs>` with one operand on each side.
func assign1(s ast.Stmt) (ast.Expr, ast.Expr, bool) {
	a, ok := s.(*ast.AssignStmt)
	if !ok || a.Tok != token.ASSIGN || len(a.Lhs) != 1 || len(a.Rhs) != 1 {
		return nil, nil, false
	}
	return a.Lhs[0], a.Rhs[0], true
}

// isIndex0: Q[0]
func (r *reader) isIndex0(e ast.Expr) bool {
	ix, ok := e.(*ast.IndexExpr)
	return ok && isIdent(ix.X, r.q) && isInt(ix.Index, "0")
}

// isLenMinus1: len(Q)-1
func (r *reader) isLenMinus1(e ast.Expr) bool {
	b, ok := unparen(e).(*ast.BinaryExpr)
	return ok && b.Op == token.SUB && lenOf(b.X, r.q) && isInt(b.Y, "1")
}

func (r *reader) locals(fn *ast.FuncDecl) error {
	for _, st := range fn.Body.List {
		switch s := st.(type) {
		case *ast.DeclStmt:
			gd, ok := s.Decl.(*ast.GenDecl)
			if !ok || gd.Tok != token.VAR {
				continue
			}
			for _, sp := range gd.Specs {
				vs := sp.(*ast.ValueSpec)
				if len(vs.Names) != 1 || len(vs.Values) != 0 || vs.Type == nil {
					continue
				}
				name := vs.Names[0].Name
				switch t := vs.Type.(type) {
				case *ast.ArrayType:
					if t.Len == nil && isEmptyInterface(t.Elt) {
						if r.q != "" {
							return r.fail(vs, "two []interface{} locals (%s, %s)", r.q, name)
						}
						r.q = name
					}
				case *ast.ChanType:
					if t.Dir == ast.SEND|ast.RECV && isEmptyInterface(t.Value) {
						if r.d != "" {
							return r.fail(vs, "two chan interface{} locals (%s, %s)", r.d, name)
						}
						r.d = name
					}
				default:
					if isEmptyInterface(vs.Type) {
						if r.nx != "" {
							return r.fail(vs, "two interface{} locals (%s, %s)", r.nx, name)
						}
						r.nx = name
					}
				}
			}
		case *ast.AssignStmt:
			if s.Tok == token.DEFINE && len(s.Lhs) == 1 && len(s.Rhs) == 1 && r.recvField(s.Rhs[0], "enqueueNotification") {
				id, ok := s.Lhs[0].(*ast.Ident)
				if !ok {
					continue
				}
				if r.e != "" {
					return r.fail(s, "two locals bound to enqueueNotification")
				}
				r.e = id.Name
			}
		}
	}
	if r.q == "" || r.e == "" || r.d == "" || r.nx == "" {
		return r.fail(fn, "locals of the queue not found (slice=%q enqueue=%q dequeue=%q next=%q)", r.q, r.e, r.d, r.nx)
	}
	return nil
}

// enqueueCase: case n, ok := <-E:
func (r *reader) enqueueCase(cc *ast.CommClause, f *facts) error {
	a := cc.Comm.(*ast.AssignStmt)
	if len(a.Lhs) != 2 {
		return r.fail(cc, "the receive from %s must bind value and ok", r.e)
	}
	n, ok1 := a.Lhs[0].(*ast.Ident)
	okv, ok2 := a.Lhs[1].(*ast.Ident)
	if !ok1 || !ok2 {
		return r.fail(cc, "unexpected receive pattern")
	}
	body := r.strip(cc.Body)
	if len(body) < 2 {
		return r.fail(cc, "enqueue case too short")
	}
	// 1. the !ok block
	closedIf, ok := body[0].(*ast.IfStmt)
	if !ok || closedIf.Init != nil || closedIf.Else != nil {
		return r.fail(body[0], "expected `if !%s { .. }` first", okv.Name)
	}
	u, ok := unparen(closedIf.Cond).(*ast.UnaryExpr)
	if !ok || u.Op != token.NOT || !isIdent(u.X, okv.Name) {
		return r.fail(closedIf, "expected `if !%s`", okv.Name)
	}
	cb := r.strip(closedIf.Body.List)
	if len(cb) != 3 {
		return r.fail(closedIf, "closed-channel branch: expected 3 statements")
	}
	in, ok := cb[0].(*ast.IfStmt)
	if !ok || r.lenCmp(in.Cond) != "empty" || in.Else != nil || len(in.Body.List) != 1 || !r.isBreakOut(in.Body.List[0]) {
		return r.fail(cb[0], "closed-channel branch: expected `if len(%s) == 0 { break %s }`", r.q, r.lbl)
	}
	if l, rr, ok := assign1(cb[1]); !ok || !isIdent(l, r.e) || !isIdent(rr, "nil") {
		return r.fail(cb[1], "closed-channel branch: expected `%s = nil`", r.e)
	}
	if b, ok := cb[2].(*ast.BranchStmt); !ok || b.Tok != token.CONTINUE || b.Label != nil {
		return r.fail(cb[2], "closed-channel branch: expected `continue`")
	}
	// 2. the rest: [arming block] append
	rest := body[1:]
	f.EnqArms = false
	if ifs, ok := rest[0].(*ast.IfStmt); ok {
		if ifs.Init != nil || ifs.Else != nil || r.lenCmp(ifs.Cond) != "empty" {
			return r.fail(ifs, "expected the arming block `if len(%s) == 0 { %s = %s; %s = <recv>.dequeueNotification }`", r.q, r.nx, n.Name, r.d)
		}
		var setNext, setDeq bool
		for _, s := range r.strip(ifs.Body.List) {
			l, rr, ok := assign1(s)
			switch {
			case ok && isIdent(l, r.nx) && isIdent(rr, n.Name) && !setNext:
				setNext = true
			case ok && isIdent(l, r.d) && r.recvField(rr, "dequeueNotification") && !setDeq:
				setDeq = true
			default:
				return r.fail(s, "unexpected statement in the arming block")
			}
		}
		if !setNext || !setDeq {
			return r.fail(ifs, "the arming block must set both %s and %s", r.nx, r.d)
		}
		f.EnqArms = true
		rest = rest[1:]
	}
	if len(rest) != 1 {
		return r.fail(cc, "enqueue case: expected exactly the append after the arming block (found %d statements)", len(rest))
	}
	l, rr, ok := assign1(rest[0])
	call, ok2 := rr.(*ast.CallExpr)
	if !ok || !ok2 || !isIdent(l, r.q) || !isIdent(call.Fun, "append") || len(call.Args) != 2 {
		return r.fail(rest[0], "expected `%s = append(..)`", r.q)
	}
	switch {
	case isIdent(call.Args[0], r.q) && isIdent(call.Args[1], n.Name) && call.Ellipsis == token.NoPos:
		f.EnqTail = true
	case call.Ellipsis != token.NoPos && isIdent(call.Args[1], r.q):
		cl, ok := call.Args[0].(*ast.CompositeLit)
		at, ok2 := cl.Type.(*ast.ArrayType)
		if !ok || !ok2 || at.Len != nil || !isEmptyInterface(at.Elt) || len(cl.Elts) != 1 || !isIdent(cl.Elts[0], n.Name) {
			return r.fail(rest[0], "append form not understood")
		}
		f.EnqTail = false
	default:
		return r.fail(rest[0], "append form not understood")
	}
	return nil
}

// shiftAt recognises SHIFT(Q) starting at body[i]; returns the number of
// statements it spans (0 = no shift here) and its form.
func (r *reader) shiftAt(body []ast.Stmt, i int) (int, string) {
	if i >= len(body) {
		return 0, ""
	}
	// Q = Q[1:]
	if l, rr, ok := assign1(body[i]); ok && isIdent(l, r.q) {
		if sl, ok := rr.(*ast.SliceExpr); ok && isIdent(sl.X, r.q) && sl.Low != nil && isInt(sl.Low, "1") && sl.High == nil && !sl.Slice3 {
			return 1, "reslice"
		}
	}
	// copy(Q, Q[1:]) [; Q[len(Q)-1] = nil] ; Q = Q[:len(Q)-1]
	es, ok := body[i].(*ast.ExprStmt)
	if !ok {
		return 0, ""
	}
	call, ok := es.X.(*ast.CallExpr)
	if !ok || !isIdent(call.Fun, "copy") || len(call.Args) != 2 || !isIdent(call.Args[0], r.q) {
		return 0, ""
	}
	sl, ok := call.Args[1].(*ast.SliceExpr)
	if !ok || !isIdent(sl.X, r.q) || sl.Low == nil || !isInt(sl.Low, "1") || sl.High != nil {
		return 0, ""
	}
	j := i + 1
	if j < len(body) {
		if l, rr, ok := assign1(body[j]); ok && isIdent(rr, "nil") {
			if ix, ok := l.(*ast.IndexExpr); ok && isIdent(ix.X, r.q) && r.isLenMinus1(ix.Index) {
				j++
			}
		}
	}
	if j < len(body) {
		if l, rr, ok := assign1(body[j]); ok && isIdent(l, r.q) {
			if s2, ok := rr.(*ast.SliceExpr); ok && isIdent(s2.X, r.q) && s2.Low == nil && s2.High != nil && r.isLenMinus1(s2.High) {
				return j + 1 - i, "copy-shift"
			}
		}
	}
	return 0, ""
}

// isNextFromHead: { NX = Q[0] }
func (r *reader) isNextFromHead(b *ast.BlockStmt) bool {
	if b == nil {
		return false
	}
	list := r.strip(b.List)
	if len(list) != 1 {
		return false
	}
	l, rr, ok := assign1(list[0])
	return ok && isIdent(l, r.nx) && r.isIndex0(rr)
}

// emptyBranch: { if E == nil { break L }; [D = nil] }
func (r *reader) emptyBranch(b *ast.BlockStmt) (disarms bool, err error) {
	if b == nil {
		return false, fmt.Errorf("empty-queue branch missing")
	}
	b = &ast.BlockStmt{List: r.strip(b.List)}
	if len(b.List) < 1 || len(b.List) > 2 {
		return false, fmt.Errorf("empty-queue branch: expected `if %s == nil { break %s }` and `%s = nil`", r.e, r.lbl, r.d)
	}
	in, ok := b.List[0].(*ast.IfStmt)
	if !ok || in.Init != nil || in.Else != nil || len(in.Body.List) != 1 || !r.isBreakOut(in.Body.List[0]) {
		return false, fmt.Errorf("empty-queue branch: expected `if %s == nil { break %s }` first", r.e, r.lbl)
	}
	c, ok := unparen(in.Cond).(*ast.BinaryExpr)
	if !ok || c.Op != token.EQL || !isIdent(c.X, r.e) || !isIdent(c.Y, "nil") {
		return false, fmt.Errorf("empty-queue branch: expected the test `%s == nil`", r.e)
	}
	if len(b.List) == 1 {
		return false, nil
	}
	l, rr, ok := assign1(b.List[1])
	if !ok || !isIdent(l, r.d) || !isIdent(rr, "nil") {
		return false, fmt.Errorf("empty-queue branch: expected `%s = nil`", r.d)
	}
	return true, nil
}

// dequeueCase: case D <- NX:
func (r *reader) dequeueCase(cc *ast.CommClause, f *facts) error {
	body := r.strip(cc.Body)
	i := 0
	// optional best-block bookkeeping
	if i < len(body) {
		if ifs, ok := body[i].(*ast.IfStmt); ok && ifs.Init != nil {
			a, ok := ifs.Init.(*ast.AssignStmt)
			if ok && len(a.Rhs) == 1 {
				if ta, ok := a.Rhs[0].(*ast.TypeAssertExpr); ok && isIdent(ta.X, r.nx) && isIdent(ta.Type, "BlockConnected") {
					if r.mentionsAssignTo(ifs.Body) {
						return r.fail(ifs, "the bookkeeping block must not assign the queue's locals")
					}
					f.BSFromDeliverd = true
					i++
				}
			}
		}
	}
	// slip: next refreshed from index 0 BEFORE the shift
	early := false
	if i < len(body) {
		if ifs, ok := body[i].(*ast.IfStmt); ok && ifs.Init == nil && ifs.Else == nil &&
			r.lenCmp(ifs.Cond) == "gt1" && r.isNextFromHead(ifs.Body) {
			early = true
			i++
		}
	}
	// optional Q[0] = nil
	if i < len(body) {
		if l, rr, ok := assign1(body[i]); ok && r.isIndex0(l) && isIdent(rr, "nil") {
			i++
		}
	}
	n, form := r.shiftAt(body, i)
	if n == 0 {
		if i < len(body) {
			return r.fail(body[i], "expected the shift of %s by one element here", r.q)
		}
		return r.fail(cc, "dequeue case: no shift of %s", r.q)
	}
	f.Shift = form
	i += n
	if i != len(body)-1 {
		return r.fail(cc, "dequeue case: expected exactly one `if` after the shift")
	}
	ifs, ok := body[i].(*ast.IfStmt)
	if !ok || ifs.Init != nil {
		return r.fail(body[i], "expected `if len(%s) != 0 { %s = %s[0] } else { .. }`", r.q, r.nx, r.q)
	}
	var nonEmpty, empty *ast.BlockStmt
	els, _ := ifs.Else.(*ast.BlockStmt)
	if ifs.Else != nil && els == nil {
		return r.fail(ifs, "else-if chain not understood")
	}
	switch r.lenCmp(ifs.Cond) {
	case "nonempty":
		nonEmpty, empty = ifs.Body, els
	case "empty":
		nonEmpty, empty = els, ifs.Body
	default:
		return r.fail(ifs, "test on len(%s) not understood", r.q)
	}
	if early {
		if nonEmpty != nil {
			return r.fail(ifs, "%s is refreshed both before and after the shift", r.nx)
		}
		f.DeqShiftFirst = false
	} else {
		if !r.isNextFromHead(nonEmpty) {
			return r.fail(ifs, "non-empty branch: expected exactly `%s = %s[0]`", r.nx, r.q)
		}
		f.DeqShiftFirst = true
	}
	dis, err := r.emptyBranch(empty)
	if err != nil {
		return r.fail(ifs, "%v", err)
	}
	f.DeqDisarms = dis
	return nil
}

// mentionsAssignTo: does the node assign one of the four locals?
func (r *reader) mentionsAssignTo(n ast.Node) bool {
	found := false
	ast.Inspect(n, func(x ast.Node) bool {
		if a, ok := x.(*ast.AssignStmt); ok {
			for _, l := range a.Lhs {
				if r.mentions(l) {
					found = true
				}
			}
		}
		return !found
	})
	return found
}

func (r *reader) read(fn *ast.FuncDecl) (*facts, error) {
	f := &facts{Where: fmt.Sprintf("%s %s", r.pos(fn), fn.Name.Name)}
	if err := r.locals(fn); err != nil {
		return nil, err
	}
	f.Locals = fmt.Sprintf("slice=%s enqueue=%s dequeue=%s next=%s", r.q, r.e, r.d, r.nx)
	// the labelled loop
	var loop *ast.ForStmt
	loopIdx := -1
	for i, st := range fn.Body.List {
		ls, ok := st.(*ast.LabeledStmt)
		if !ok {
			continue
		}
		fs, ok := ls.Stmt.(*ast.ForStmt)
		if !ok {
			continue
		}
		if loop != nil {
			return nil, r.fail(ls, "more than one labelled loop")
		}
		if fs.Init != nil || fs.Cond != nil || fs.Post != nil {
			return nil, r.fail(fs, "the loop must be `for { .. }`")
		}
		loop, loopIdx, r.lbl = fs, i, ls.Label.Name
	}
	if loop == nil {
		return nil, r.fail(fn, "labelled `for` loop not found")
	}
	// nothing outside the loop (before it) may touch the locals beyond their declaration
	for _, st := range fn.Body.List[:loopIdx] {
		switch s := st.(type) {
		case *ast.DeclStmt:
		case *ast.AssignStmt:
			if s.Tok == token.ASSIGN && r.mentions(s) {
				return nil, r.fail(s, "the queue's locals are assigned before the loop")
			}
		default:
			if r.mentions(st) {
				return nil, r.fail(st, "the queue's locals are used before the loop")
			}
		}
	}
	var sel *ast.SelectStmt
	for _, st := range loop.Body.List {
		if s, ok := st.(*ast.SelectStmt); ok {
			if sel != nil {
				return nil, r.fail(s, "more than one select in the loop")
			}
			sel = s
			continue
		}
		if r.mentions(st) || leavesLoop(st) {
			return nil, r.fail(st, "a statement of the loop outside the select touches the queue or leaves the loop")
		}
		if b, ok := st.(*ast.BranchStmt); ok && b != nil {
			return nil, r.fail(st, "break/continue outside the select")
		}
	}
	if sel == nil {
		return nil, r.fail(loop, "no select in the loop")
	}
	var sawEnq, sawDeq bool
	for _, cst := range sel.Body.List {
		cc := cst.(*ast.CommClause)
		switch c := cc.Comm.(type) {
		case nil:
			return nil, r.fail(cc, "the select has a default case")
		case *ast.SendStmt:
			switch {
			case isIdent(c.Chan, r.d):
				if !isIdent(c.Value, r.nx) {
					return nil, r.fail(cc, "the value sent on %s is not %s", r.d, r.nx)
				}
				if sawDeq {
					return nil, r.fail(cc, "two send cases on %s", r.d)
				}
				sawDeq = true
				if err := r.dequeueCase(cc, f); err != nil {
					return nil, err
				}
			case r.recvField(c.Chan, "currentBlock"):
				if len(cc.Body) != 0 || r.mentions(c.Value) {
					return nil, r.fail(cc, "currentBlock case not understood")
				}
			default:
				return nil, r.fail(cc, "unexpected send case")
			}
		case *ast.AssignStmt, *ast.ExprStmt:
			var rx ast.Expr
			if a, ok := c.(*ast.AssignStmt); ok {
				if len(a.Rhs) != 1 {
					return nil, r.fail(cc, "unexpected receive case")
				}
				rx = a.Rhs[0]
			} else {
				rx = c.(*ast.ExprStmt).X
			}
			u, ok := rx.(*ast.UnaryExpr)
			if !ok || u.Op != token.ARROW {
				return nil, r.fail(cc, "unexpected case")
			}
			switch {
			case isIdent(u.X, r.e):
				if _, ok := c.(*ast.AssignStmt); !ok || sawEnq {
					return nil, r.fail(cc, "receive case on %s not understood", r.e)
				}
				sawEnq = true
				if err := r.enqueueCase(cc, f); err != nil {
					return nil, err
				}
			case r.recvField(u.X, "quit"):
				if len(cc.Body) != 1 || !r.isBreakOut(cc.Body[0]) {
					return nil, r.fail(cc, "quit case: expected `break %s`", r.lbl)
				}
				f.SelQuit = true
			default:
				// a case on another channel: must be inert for the queue
				for _, s := range cc.Body {
					if r.mentions(s) || leavesLoop(s) {
						return nil, r.fail(s, "a foreign select case touches the queue or leaves the loop")
					}
					bad := false
					ast.Inspect(s, func(x ast.Node) bool {
						if b, ok := x.(*ast.BranchStmt); ok && (b.Tok == token.BREAK || b.Tok == token.CONTINUE) {
							bad = true
						}
						return !bad
					})
					if bad {
						return nil, r.fail(s, "a foreign select case contains break/continue")
					}
				}
				if r.mentions(u.X) {
					return nil, r.fail(cc, "a foreign select case receives from a queue channel")
				}
				f.ExtraCases++
			}
		default:
			return nil, r.fail(cc, "unexpected case")
		}
	}
	if !sawEnq {
		return nil, r.fail(sel, "no receive case on %s", r.e)
	}
	if !sawDeq {
		return nil, r.fail(sel, "no send case on %s", r.d)
	}
	// after the loop
	for _, st := range fn.Body.List[loopIdx+1:] {
		if r.mentions(st) {
			return nil, r.fail(st, "the queue's locals are used after the loop")
		}
		es, ok := st.(*ast.ExprStmt)
		if !ok {
			continue
		}
		call, ok := es.X.(*ast.CallExpr)
		if ok && isIdent(call.Fun, "close") && len(call.Args) == 1 && r.recvField(call.Args[0], "dequeueNotification") {
			f.ExitCloses = true
		}
	}
	return f, nil
}

func findMethod(file *ast.File, recvType, name string) (*ast.FuncDecl, string) {
	for _, d := range file.Decls {
		fn, ok := d.(*ast.FuncDecl)
		if !ok || fn.Name.Name != name || fn.Recv == nil || len(fn.Recv.List) != 1 || fn.Body == nil {
			continue
		}
		t := fn.Recv.List[0].Type
		if st, ok := t.(*ast.StarExpr); ok {
			t = st.X
		}
		if !isIdent(t, recvType) || len(fn.Recv.List[0].Names) != 1 {
			continue
		}
		return fn, fn.Recv.List[0].Names[0].Name
	}
	return nil, ""
}

func readFile(repo, rel, recvType, fname string) (*facts, error) {
	fset := token.NewFileSet()
	file, err := parser.ParseFile(fset, filepath.Join(repo, rel), nil, 0)
	if err != nil {
		return nil, err
	}
	fn, recv := findMethod(file, recvType, fname)
	if fn == nil {
		return nil, fmt.Errorf("%s: func (*%s) %s not found", rel, recvType, fname)
	}
	r := &reader{fset: fset, file: rel, recv: recv}
	f, err := r.read(fn)
	if err != nil {
		return nil, err
	}
	// Notifications() returns <recv>.dequeueNotification
	nf, nrecv := findMethod(file, recvType, "Notifications")
	if nf != nil && len(nf.Body.List) == 1 {
		if rs, ok := nf.Body.List[0].(*ast.ReturnStmt); ok && len(rs.Results) == 1 {
			if s, ok := rs.Results[0].(*ast.SelectorExpr); ok && s.Sel.Name == "dequeueNotification" && isIdent(s.X, nrecv) {
				f.OutIsDequeue = true
			}
		}
	}
	if !f.OutIsDequeue {
		return nil, fmt.Errorf("%s: (*%s).Notifications does not return the dequeueNotification channel", rel, recvType)
	}
	return f, nil
}

func main() {
	if len(os.Args) != 2 {
		fmt.Fprintln(os.Stderr, "usage: extract-c18 <repo>")
		os.Exit(2)
	}
	repo := os.Args[1]
	out := map[string]*facts{}
	var errs []string
	for _, t := range []struct{ key, rel, typ, fn string }{
		{"btcd", "chain/btcd.go", "RPCClient", "handler"},
		{"neutrino", "chain/neutrino.go", "NeutrinoClient", "notificationHandler"},
	} {
		f, err := readFile(repo, t.rel, t.typ, t.fn)
		if err != nil {
			errs = append(errs, err.Error())
			continue
		}
		out[t.key] = f
	}
	if len(errs) > 0 {
		fmt.Fprintln(os.Stderr, "extract-c18: shape not recognised: "+strings.Join(errs, "; "))
		os.Exit(1)
	}
	b, _ := json.MarshalIndent(out, "", " ")
	fmt.Println(string(b))
}
