// extract-c15 reads wallet/chainntfns.go and waddrmgr/db.go (go/ast, no type
// checking) and prints, as one JSON object, the facts the C15 theorems take
// as premises:
//
//   - records_parent_hash: in disconnectBlock, the block stamp handed to
//     w.Manager.SetSyncedTo carries, in its Hash field, the dereferenced
//     result of w.Manager.BlockHash(ns, <b.Height - 1>) - the parent's hash.
//     Two shapes of the construction are understood (they are equivalent:
//     same calls, same arguments, same field values at the SetSyncedTo call):
//
//     incremental   bs := waddrmgr.BlockStamp{Height: b.Height - 1}
//     hash, err = w.Manager.BlockHash(ns, bs.Height)
//     <x>.Hash = *hash            (fact: x is bs)
//     … SetSyncedTo(ns, &bs)
//
//     one literal   ph := b.Height - 1                       (optional local)
//     h, err := w.Manager.BlockHash(ns, ph)
//     st := waddrmgr.BlockStamp{Height: ph, Hash: *h, …}
//     … SetSyncedTo(ns, &st)      (fact: true)
//
//   - max_reorg_depth: the value of waddrmgr.MaxReorgDepth, and the fact that
//     staleHeight(h) is h - MaxReorgDepth.
//
//     usage: extract-c15 <repo>
//
// Everything is syntactic.  Each of the two facts is reported separately:
// {"ok":true,"value":…} or {"ok":false,"why":"…"} when the shape is not
// recognised (nothing is guessed; lib/extract_c15.py then determines the
// fact by running the code).
package main

import (
	"encoding/json"
	"fmt"
	"go/ast"
	"go/parser"
	"go/token"
	"os"
	"path/filepath"
	"strconv"
)

type boolFact struct {
	OK    bool   `json:"ok"`
	Value bool   `json:"value"`
	Why   string `json:"why"`
}

type intFact struct {
	OK    bool   `json:"ok"`
	Value int64  `json:"value"`
	Why   string `json:"why"`
}

type result struct {
	RecordsParentHash boolFact `json:"records_parent_hash"`
	MaxReorgDepth     intFact  `json:"max_reorg_depth"`
	RecoveryFirst     boolFact `json:"recovery_before_rollback"`
	KnownTest         string   `json:"known_block_test"` // informational
	RollbackArg       string   `json:"rollback_arg"`     // informational
	StartupRollback   string   `json:"startup_rollback"` // informational
}

type refuse struct{ msg string }

func refusef(format string, a ...interface{}) { panic(refuse{fmt.Sprintf(format, a...)}) }

func parseFile(fset *token.FileSet, path string) *ast.File {
	f, err := parser.ParseFile(fset, path, nil, 0)
	if err != nil {
		refusef("parse %s: %v", path, err)
	}
	return f
}

func findFunc(f *ast.File, name string) *ast.FuncDecl {
	for _, d := range f.Decls {
		if fd, ok := d.(*ast.FuncDecl); ok && fd.Name.Name == name && fd.Body != nil {
			return fd
		}
	}
	return nil
}

// selPath renders a.b.c selector chains ("" when the expression is anything else).
func selPath(e ast.Expr) string {
	switch x := e.(type) {
	case *ast.Ident:
		return x.Name
	case *ast.SelectorExpr:
		p := selPath(x.X)
		if p == "" {
			return ""
		}
		return p + "." + x.Sel.Name
	case *ast.ParenExpr:
		return selPath(x.X)
	}
	return ""
}

func src(fset *token.FileSet, path string, n ast.Node) string {
	b, err := os.ReadFile(path)
	if err != nil {
		return ""
	}
	s, e := fset.Position(n.Pos()).Offset, fset.Position(n.End()).Offset
	if s < 0 || e > len(b) || s > e {
		return ""
	}
	return string(b[s:e])
}

// isHeightMinusOne: the expression is literally b.Height - 1.
func isHeightMinusOne(e ast.Expr) bool {
	if p, ok := e.(*ast.ParenExpr); ok {
		return isHeightMinusOne(p.X)
	}
	be, ok := e.(*ast.BinaryExpr)
	if !ok || be.Op != token.SUB || selPath(be.X) != "b.Height" {
		return false
	}
	bl, ok := be.Y.(*ast.BasicLit)
	return ok && bl.Kind == token.INT && bl.Value == "1"
}

// assignments to the identifier name anywhere in body (":=" or "="), and
// whether it is ever assigned through another statement kind (++ etc.).
type assignInfo struct {
	pos token.Pos
	rhs ast.Expr // nil when the identifier is one of several results of a call
	tok token.Token
}

func assignsOf(body *ast.BlockStmt, name string) []assignInfo {
	var out []assignInfo
	ast.Inspect(body, func(n ast.Node) bool {
		switch s := n.(type) {
		case *ast.AssignStmt:
			for i, l := range s.Lhs {
				if id, ok := l.(*ast.Ident); ok && id.Name == name {
					var rhs ast.Expr
					if len(s.Lhs) == len(s.Rhs) {
						rhs = s.Rhs[i]
					}
					out = append(out, assignInfo{s.Pos(), rhs, s.Tok})
				}
			}
		case *ast.IncDecStmt:
			if id, ok := s.X.(*ast.Ident); ok && id.Name == name {
				out = append(out, assignInfo{s.Pos(), nil, token.INC})
			}
		case *ast.UnaryExpr:
			if s.Op == token.AND {
				if id, ok := s.X.(*ast.Ident); ok && id.Name == name {
					// address taken: may be written through the pointer
					out = append(out, assignInfo{s.Pos(), nil, token.AND})
				}
			}
		}
		return true
	})
	return out
}

func disconnectFact(fset *token.FileSet, repo string, res *result) (val bool, why string) {
	cpath := filepath.Join(repo, "wallet", "chainntfns.go")
	cf := parseFile(fset, cpath)
	fd := findFunc(cf, "disconnectBlock")
	if fd == nil {
		refusef("%s: func disconnectBlock not found", cpath)
	}
	// informational
	ast.Inspect(fd.Body, func(n ast.Node) bool {
		switch x := n.(type) {
		case *ast.IfStmt:
			if be, ok := x.Cond.(*ast.BinaryExpr); ok && selPath(be.X) == "b.Height" && res.KnownTest == "" {
				res.KnownTest = src(fset, cpath, be)
			}
		case *ast.CallExpr:
			if selPath(x.Fun) == "w.TxStore.Rollback" && len(x.Args) == 2 {
				res.RollbackArg = src(fset, cpath, x.Args[1])
			}
		}
		return true
	})

	// 1. the SetSyncedTo call and its stamp variable
	var setCall *ast.CallExpr
	nSet := 0
	ast.Inspect(fd.Body, func(n ast.Node) bool {
		if c, ok := n.(*ast.CallExpr); ok && selPath(c.Fun) == "w.Manager.SetSyncedTo" {
			nSet++
			setCall = c
		}
		return true
	})
	if nSet != 1 {
		refusef("disconnectBlock: expected exactly one w.Manager.SetSyncedTo call, found %d", nSet)
	}
	if len(setCall.Args) != 2 {
		refusef("disconnectBlock: SetSyncedTo call with %d arguments", len(setCall.Args))
	}
	stampVar := ""
	if u, ok := setCall.Args[1].(*ast.UnaryExpr); ok && u.Op == token.AND {
		if id, ok := u.X.(*ast.Ident); ok {
			stampVar = id.Name
		}
	}
	if stampVar == "" {
		refusef("disconnectBlock: second argument of SetSyncedTo is not &<identifier>")
	}

	// 2. the stamp variable: exactly one whole-value assignment, a keyed
	//    waddrmgr.BlockStamp literal, before the call; its address is taken
	//    only in the SetSyncedTo call
	var lit *ast.CompositeLit
	var litPos token.Pos
	for _, a := range assignsOf(fd.Body, stampVar) {
		if a.tok == token.AND {
			if a.pos >= setCall.Pos() && a.pos < setCall.End() {
				continue
			}
			refusef("disconnectBlock: the address of %s is taken outside the SetSyncedTo call", stampVar)
		}
		if lit != nil {
			refusef("disconnectBlock: %s is assigned more than once", stampVar)
		}
		cl, ok := a.rhs.(*ast.CompositeLit)
		if !ok || selPath(cl.Type) != "waddrmgr.BlockStamp" {
			refusef("disconnectBlock: %s is not assigned a waddrmgr.BlockStamp literal", stampVar)
		}
		lit, litPos = cl, a.pos
	}
	if lit == nil {
		refusef("disconnectBlock: declaration of %s not found", stampVar)
	}
	if !(litPos < setCall.Pos()) {
		refusef("disconnectBlock: %s is declared after SetSyncedTo", stampVar)
	}
	fields := map[string]ast.Expr{}
	for _, el := range lit.Elts {
		kv, ok := el.(*ast.KeyValueExpr)
		if !ok {
			refusef("disconnectBlock: positional BlockStamp literal")
		}
		fields[selPath(kv.Key)] = kv.Value
	}

	// resolveHeight: the expression denotes b.Height - 1 (directly, through
	// a local defined once as b.Height - 1, or as <stamp>.Height of the
	// stamp whose literal says Height: b.Height - 1)
	var resolveHeight func(e ast.Expr, at token.Pos, depth int) bool
	resolveHeight = func(e ast.Expr, at token.Pos, depth int) bool {
		if depth > 3 {
			return false
		}
		if isHeightMinusOne(e) {
			return true
		}
		p := selPath(e)
		if p == stampVar+".Height" {
			h, ok := fields["Height"]
			if !ok || !(litPos < at) {
				return false
			}
			// no later write to <stamp>.Height
			bad := false
			ast.Inspect(fd.Body, func(n ast.Node) bool {
				if as, ok := n.(*ast.AssignStmt); ok {
					for _, l := range as.Lhs {
						if selPath(l) == stampVar+".Height" {
							bad = true
						}
					}
				}
				return true
			})
			return !bad && resolveHeight(h, litPos, depth+1)
		}
		if id, ok := e.(*ast.Ident); ok {
			as := assignsOf(fd.Body, id.Name)
			if len(as) != 1 || as[0].rhs == nil || !(as[0].pos < at) || as[0].tok == token.AND {
				return false
			}
			return resolveHeight(as[0].rhs, as[0].pos, depth+1)
		}
		return false
	}
	hExpr, ok := fields["Height"]
	if !ok || !resolveHeight(hExpr, litPos, 0) {
		refusef("disconnectBlock: the new stamp's height is not recognisably b.Height - 1")
	}

	// 3. the parent hash fetch: <h>, err (:=|=) w.Manager.BlockHash(ns, <b.Height - 1>)
	var fetchPos token.Pos
	hashVar := ""
	ast.Inspect(fd.Body, func(n ast.Node) bool {
		as, ok := n.(*ast.AssignStmt)
		if !ok || len(as.Rhs) != 1 || len(as.Lhs) != 2 {
			return true
		}
		c, ok := as.Rhs[0].(*ast.CallExpr)
		if !ok || selPath(c.Fun) != "w.Manager.BlockHash" || len(c.Args) != 2 {
			return true
		}
		if !resolveHeight(c.Args[1], as.Pos(), 0) {
			return true
		}
		id, ok := as.Lhs[0].(*ast.Ident)
		if !ok {
			refusef("disconnectBlock: parent hash fetch assigns to a non-identifier")
		}
		if hashVar != "" {
			refusef("disconnectBlock: more than one parent hash fetch")
		}
		hashVar, fetchPos = id.Name, as.Pos()
		return true
	})
	if hashVar == "" {
		refusef("disconnectBlock: no w.Manager.BlockHash(ns, <b.Height - 1>) fetch found")
	}
	if !(fetchPos < setCall.Pos()) {
		refusef("disconnectBlock: the parent hash is fetched after SetSyncedTo")
	}
	// the fetched pointer is not re-assigned before SetSyncedTo
	for _, a := range assignsOf(fd.Body, hashVar) {
		if a.pos > fetchPos && a.pos < setCall.Pos() {
			refusef("disconnectBlock: %s is assigned again between the parent hash fetch and SetSyncedTo", hashVar)
		}
	}
	isDerefHash := func(e ast.Expr) bool {
		st, ok := e.(*ast.StarExpr)
		return ok && selPath(st.X) == hashVar
	}

	// 4. writes to <x>.Hash between the fetch and SetSyncedTo
	type hw struct {
		target string
		deref  bool // the value written is *<hashVar>, after the fetch
	}
	var writes []hw
	ast.Inspect(fd.Body, func(n ast.Node) bool {
		as, ok := n.(*ast.AssignStmt)
		if !ok {
			return true
		}
		for i, l := range as.Lhs {
			se, ok := l.(*ast.SelectorExpr)
			if !ok || se.Sel.Name != "Hash" {
				continue
			}
			if as.Pos() > litPos && as.Pos() < setCall.Pos() || as.Pos() > fetchPos && as.Pos() < setCall.Pos() {
				d := len(as.Lhs) == len(as.Rhs) && as.Tok == token.ASSIGN && isDerefHash(as.Rhs[i]) &&
					as.Pos() > fetchPos
				writes = append(writes, hw{selPath(se.X), d})
			}
		}
		return true
	})

	if hv, inLit := fields["Hash"]; inLit {
		// shape "one literal"
		if !(fetchPos < litPos) {
			refusef("disconnectBlock: the stamp literal sets Hash before the parent hash is fetched")
		}
		if !isDerefHash(hv) {
			refusef("disconnectBlock: the stamp literal sets Hash to %s, not to *%s", src(fset, cpath, hv), hashVar)
		}
		for _, w := range writes {
			if w.target == stampVar {
				refusef("disconnectBlock: %s.Hash is written again after the literal", stampVar)
			}
		}
		return true, fmt.Sprintf("SetSyncedTo(ns, &%s); %s is one BlockStamp literal with Height = b.Height - 1 and Hash: *%s, "+
			"%s fetched with BlockHash(ns, b.Height - 1)", stampVar, stampVar, hashVar, hashVar)
	}
	// shape "incremental"
	if len(writes) != 1 || !writes[0].deref {
		refusef("disconnectBlock: expected exactly one `<x>.Hash = *%s` between the fetch and SetSyncedTo "+
			"(or Hash: *%s in the stamp literal), found %d writes to a Hash field", hashVar, hashVar, len(writes))
	}
	return writes[0].target == stampVar, fmt.Sprintf("SetSyncedTo(ns, &%s); parent hash %s fetched with BlockHash(ns, b.Height - 1) "+
		"is assigned to %s.Hash", stampVar, hashVar, writes[0].target)
}

func depthFact(fset *token.FileSet, repo string) int64 {
	dpath := filepath.Join(repo, "waddrmgr", "db.go")
	df := parseFile(fset, dpath)
	found := false
	var val int64
	for _, d := range df.Decls {
		gd, ok := d.(*ast.GenDecl)
		if !ok || gd.Tok != token.CONST {
			continue
		}
		for _, s := range gd.Specs {
			vs := s.(*ast.ValueSpec)
			for i, nm := range vs.Names {
				if nm.Name != "MaxReorgDepth" {
					continue
				}
				if i >= len(vs.Values) {
					refusef("%s: MaxReorgDepth has no value", dpath)
				}
				bl, ok := vs.Values[i].(*ast.BasicLit)
				if !ok || bl.Kind != token.INT {
					refusef("%s: MaxReorgDepth is not an integer literal", dpath)
				}
				v, err := strconv.ParseInt(bl.Value, 0, 64)
				if err != nil {
					refusef("%s: MaxReorgDepth: %v", dpath, err)
				}
				val, found = v, true
			}
		}
	}
	if !found {
		refusef("%s: const MaxReorgDepth not found", dpath)
	}
	sh := findFunc(df, "staleHeight")
	if sh == nil || len(sh.Body.List) != 1 {
		refusef("%s: func staleHeight not found or not a single statement", dpath)
	}
	ret, ok := sh.Body.List[0].(*ast.ReturnStmt)
	if !ok || len(ret.Results) != 1 {
		refusef("%s: staleHeight is not a single return", dpath)
	}
	be, ok := ret.Results[0].(*ast.BinaryExpr)
	if !ok || be.Op != token.SUB || selPath(be.X) != "height" || selPath(be.Y) != "MaxReorgDepth" {
		refusef("%s: staleHeight is not `height - MaxReorgDepth`", dpath)
	}
	return val
}

// recoveryOrderFact: in wallet.go syncWithChain, exactly one top-level
// statement `if w.recoveryWindow > 0 { ... w.recovery(...) ... }` and exactly
// one top-level statement holding the rollback loop (the walletdb.Update whose
// closure calls w.Manager.BlockHash and w.TxStore.Rollback); the fact is
// whether the first stands before the second.
func recoveryOrderFact(fset *token.FileSet, repo string) (bool, string) {
	wpath := filepath.Join(repo, "wallet", "wallet.go")
	wf := parseFile(fset, wpath)
	sf := findFunc(wf, "syncWithChain")
	if sf == nil {
		refusef("%s: func syncWithChain not found", wpath)
	}
	calls := func(n ast.Node, path string) int {
		k := 0
		ast.Inspect(n, func(x ast.Node) bool {
			if c, ok := x.(*ast.CallExpr); ok && selPath(c.Fun) == path {
				k++
			}
			return true
		})
		return k
	}
	rec, loop := -1, -1
	for i, st := range sf.Body.List {
		if calls(st, "w.recovery") > 0 {
			ifs, ok := st.(*ast.IfStmt)
			if !ok || ifs.Init != nil || ifs.Else != nil || src(fset, wpath, ifs.Cond) != "w.recoveryWindow > 0" || rec != -1 {
				refusef("%s: syncWithChain: w.recovery is not called from a single top-level `if w.recoveryWindow > 0`", wpath)
			}
			rec = i
		}
		if calls(st, "w.TxStore.Rollback") > 0 {
			if loop != -1 || calls(st, "w.Manager.BlockHash") == 0 || calls(st, "walletdb.Update") != 1 {
				refusef("%s: syncWithChain: the rollback loop is not a single top-level walletdb.Update calling BlockHash and TxStore.Rollback", wpath)
			}
			loop = i
		}
	}
	if rec == -1 || loop == -1 || rec == loop {
		refusef("%s: syncWithChain: recovery call (statement %d) / rollback loop (statement %d) not found as separate top-level statements", wpath, rec, loop)
	}
	if rec < loop {
		return true, "syncWithChain: `if w.recoveryWindow > 0 { w.recovery(...) }` stands BEFORE the rollback-loop transaction"
	}
	return false, "syncWithChain: `if w.recoveryWindow > 0 { w.recovery(...) }` stands after the rollback-loop transaction"
}

func guard(f func()) (why string) {
	defer func() {
		if r := recover(); r != nil {
			if rf, ok := r.(refuse); ok {
				why = rf.msg
				return
			}
			panic(r)
		}
	}()
	f()
	return ""
}

func main() {
	if len(os.Args) != 2 {
		fmt.Fprintln(os.Stderr, "usage: extract-c15 <repo>")
		os.Exit(2)
	}
	repo := os.Args[1]
	fset := token.NewFileSet()
	var res result

	if why := guard(func() {
		v, w := disconnectFact(fset, repo, &res)
		res.RecordsParentHash = boolFact{OK: true, Value: v, Why: w}
	}); why != "" {
		res.RecordsParentHash = boolFact{OK: false, Why: why}
	}
	if why := guard(func() {
		res.MaxReorgDepth = intFact{OK: true, Value: depthFact(fset, repo)}
	}); why != "" {
		res.MaxReorgDepth = intFact{OK: false, Why: why}
	}
	if why := guard(func() {
		v, w := recoveryOrderFact(fset, repo)
		res.RecoveryFirst = boolFact{OK: true, Value: v, Why: w}
	}); why != "" {
		res.RecoveryFirst = boolFact{OK: false, Why: why}
	}
	// informational only
	_ = guard(func() {
		wpath := filepath.Join(repo, "wallet", "wallet.go")
		wf := parseFile(fset, wpath)
		if sf := findFunc(wf, "syncWithChain"); sf != nil {
			ast.Inspect(sf.Body, func(n ast.Node) bool {
				if c, ok := n.(*ast.CallExpr); ok && selPath(c.Fun) == "w.TxStore.Rollback" && len(c.Args) == 2 {
					res.StartupRollback = src(fset, wpath, c.Args[1])
				}
				return true
			})
		}
	})
	out, _ := json.Marshal(res)
	fmt.Println(string(out))
}
