// extract-c15 reads wallet/chainntfns.go and waddrmgr/db.go (go/ast, no type
// checking) and prints, as one JSON object, the facts the C15 theorems take
// as premises:
//
//   - records_parent_hash: in disconnectBlock, the block stamp handed to
//     w.Manager.SetSyncedTo carries the parent's hash fetched with
//     w.Manager.BlockHash(ns, <stamp>.Height) (the assignment
//     `<x>.Hash = *<hash>` between the fetch and the call targets the stamp
//     variable itself);
//
//   - max_reorg_depth: the value of waddrmgr.MaxReorgDepth, and the fact that
//     staleHeight(h) is h - MaxReorgDepth.
//
//     usage: extract-c15 <repo>
//
// Everything is syntactic; a shape that is not recognised is refused (exit
// status 2, message on stderr) instead of guessed.
package main

import (
	"encoding/json"
	"fmt"
	"go/ast"
	"go/parser"
	"go/token"
	"os"
	"path/filepath"
	"strconv"
)

type result struct {
	RecordsParentHash bool   `json:"records_parent_hash"`
	Why               string `json:"why"`
	StampVar          string `json:"stamp_var"`
	HashTarget        string `json:"hash_target"`
	MaxReorgDepth     int64  `json:"max_reorg_depth"`
	KnownTest         string `json:"known_block_test"` // informational: source text of the "block is known" comparison
	RollbackArg       string `json:"rollback_arg"`     // informational: argument of TxStore.Rollback in disconnectBlock
	StartupRollback   string `json:"startup_rollback"` // informational: argument of TxStore.Rollback in syncWithChain
}

func die(format string, a ...interface{}) {
	fmt.Fprintf(os.Stderr, "extract-c15: "+format+"\n", a...)
	os.Exit(2)
}

func parseFile(fset *token.FileSet, path string) *ast.File {
	f, err := parser.ParseFile(fset, path, nil, 0)
	if err != nil {
		die("parse %s: %v", path, err)
	}
	return f
}

func findFunc(f *ast.File, name string) *ast.FuncDecl {
	for _, d := range f.Decls {
		if fd, ok := d.(*ast.FuncDecl); ok && fd.Name.Name == name && fd.Body != nil {
			return fd
		}
	}
	return nil
}

// selPath renders a.b.c selector chains ("" when the expression is anything else).
func selPath(e ast.Expr) string {
	switch x := e.(type) {
	case *ast.Ident:
		return x.Name
	case *ast.SelectorExpr:
		p := selPath(x.X)
		if p == "" {
			return ""
		}
		return p + "." + x.Sel.Name
	}
	return ""
}

func src(fset *token.FileSet, path string, n ast.Node) string {
	b, err := os.ReadFile(path)
	if err != nil {
		return ""
	}
	s, e := fset.Position(n.Pos()).Offset, fset.Position(n.End()).Offset
	if s < 0 || e > len(b) || s > e {
		return ""
	}
	return string(b[s:e])
}

func main() {
	if len(os.Args) != 2 {
		die("usage: extract-c15 <repo>")
	}
	repo := os.Args[1]
	fset := token.NewFileSet()
	var res result

	// ---- wallet/chainntfns.go: disconnectBlock
	cpath := filepath.Join(repo, "wallet", "chainntfns.go")
	cf := parseFile(fset, cpath)
	fd := findFunc(cf, "disconnectBlock")
	if fd == nil {
		die("%s: func disconnectBlock not found", cpath)
	}

	// 1. the SetSyncedTo call and its stamp variable
	var setCall *ast.CallExpr
	var stampVar string
	nSet := 0
	ast.Inspect(fd.Body, func(n ast.Node) bool {
		c, ok := n.(*ast.CallExpr)
		if !ok {
			return true
		}
		if selPath(c.Fun) == "w.Manager.SetSyncedTo" {
			nSet++
			setCall = c
		}
		return true
	})
	if nSet != 1 {
		die("disconnectBlock: expected exactly one w.Manager.SetSyncedTo call, found %d", nSet)
	}
	if len(setCall.Args) != 2 {
		die("disconnectBlock: SetSyncedTo call with %d arguments", len(setCall.Args))
	}
	if u, ok := setCall.Args[1].(*ast.UnaryExpr); ok && u.Op == token.AND {
		if id, ok := u.X.(*ast.Ident); ok {
			stampVar = id.Name
		}
	}
	if stampVar == "" {
		die("disconnectBlock: second argument of SetSyncedTo is not &<identifier>")
	}
	res.StampVar = stampVar

	// 2. the stamp's composite literal: Height: b.Height - 1, no Hash key
	litHash := false
	litFound := false
	ast.Inspect(fd.Body, func(n ast.Node) bool {
		as, ok := n.(*ast.AssignStmt)
		if !ok || len(as.Lhs) != 1 || len(as.Rhs) != 1 {
			return true
		}
		id, ok := as.Lhs[0].(*ast.Ident)
		if !ok || id.Name != stampVar {
			return true
		}
		cl, ok := as.Rhs[0].(*ast.CompositeLit)
		if !ok || selPath(cl.Type) != "waddrmgr.BlockStamp" {
			die("disconnectBlock: %s is not assigned a waddrmgr.BlockStamp literal", stampVar)
		}
		litFound = true
		heightOK := false
		for _, el := range cl.Elts {
			kv, ok := el.(*ast.KeyValueExpr)
			if !ok {
				die("disconnectBlock: positional BlockStamp literal")
			}
			switch selPath(kv.Key) {
			case "Height":
				if be, ok := kv.Value.(*ast.BinaryExpr); ok && be.Op == token.SUB &&
					selPath(be.X) == "b.Height" {
					if bl, ok := be.Y.(*ast.BasicLit); ok && bl.Value == "1" {
						heightOK = true
					}
				}
			case "Hash":
				litHash = true
			}
		}
		if !heightOK {
			die("disconnectBlock: the new stamp's height is not b.Height - 1")
		}
		return true
	})
	if !litFound {
		die("disconnectBlock: declaration of %s not found", stampVar)
	}
	if litHash {
		die("disconnectBlock: the stamp literal already sets Hash (shape not recognised)")
	}

	// 3. the parent hash fetch: <h>, err = w.Manager.BlockHash(ns, <stamp>.Height)
	var fetchPos token.Pos
	hashVar := ""
	ast.Inspect(fd.Body, func(n ast.Node) bool {
		as, ok := n.(*ast.AssignStmt)
		if !ok || len(as.Rhs) != 1 || len(as.Lhs) != 2 {
			return true
		}
		c, ok := as.Rhs[0].(*ast.CallExpr)
		if !ok || selPath(c.Fun) != "w.Manager.BlockHash" || len(c.Args) != 2 {
			return true
		}
		if selPath(c.Args[1]) != stampVar+".Height" {
			return true
		}
		id, ok := as.Lhs[0].(*ast.Ident)
		if !ok {
			die("disconnectBlock: parent hash fetch assigns to a non-identifier")
		}
		if hashVar != "" {
			die("disconnectBlock: more than one parent hash fetch")
		}
		hashVar = id.Name
		fetchPos = as.Pos()
		return true
	})
	if hashVar == "" {
		die("disconnectBlock: no w.Manager.BlockHash(ns, %s.Height) fetch found", stampVar)
	}
	if !(fetchPos < setCall.Pos()) {
		die("disconnectBlock: the parent hash is fetched after SetSyncedTo")
	}

	// 4. assignments <x>.Hash = *<hashVar> between the fetch and SetSyncedTo
	var targets []string
	ast.Inspect(fd.Body, func(n ast.Node) bool {
		as, ok := n.(*ast.AssignStmt)
		if !ok || len(as.Lhs) != 1 || len(as.Rhs) != 1 || as.Tok != token.ASSIGN {
			return true
		}
		se, ok := as.Lhs[0].(*ast.SelectorExpr)
		if !ok || se.Sel.Name != "Hash" {
			return true
		}
		st, ok := as.Rhs[0].(*ast.StarExpr)
		if !ok || selPath(st.X) != hashVar {
			return true
		}
		if as.Pos() > fetchPos && as.Pos() < setCall.Pos() {
			targets = append(targets, selPath(se.X))
		}
		return true
	})
	if len(targets) != 1 {
		die("disconnectBlock: expected exactly one `<x>.Hash = *%s` between the fetch and SetSyncedTo, found %d",
			hashVar, len(targets))
	}
	res.HashTarget = targets[0]
	res.RecordsParentHash = targets[0] == stampVar
	res.Why = fmt.Sprintf("SetSyncedTo(ns, &%s); parent hash %s fetched with BlockHash(ns, %s.Height) is assigned to %s.Hash",
		stampVar, hashVar, stampVar, targets[0])

	// informational: the known-block test and the Rollback argument
	ast.Inspect(fd.Body, func(n ast.Node) bool {
		switch x := n.(type) {
		case *ast.IfStmt:
			if be, ok := x.Cond.(*ast.BinaryExpr); ok && selPath(be.X) == "b.Height" && res.KnownTest == "" {
				res.KnownTest = src(fset, cpath, be)
			}
		case *ast.CallExpr:
			if selPath(x.Fun) == "w.TxStore.Rollback" && len(x.Args) == 2 {
				res.RollbackArg = src(fset, cpath, x.Args[1])
			}
		}
		return true
	})
	wpath := filepath.Join(repo, "wallet", "wallet.go")
	wf := parseFile(fset, wpath)
	if sf := findFunc(wf, "syncWithChain"); sf != nil {
		ast.Inspect(sf.Body, func(n ast.Node) bool {
			if c, ok := n.(*ast.CallExpr); ok && selPath(c.Fun) == "w.TxStore.Rollback" && len(c.Args) == 2 {
				res.StartupRollback = src(fset, wpath, c.Args[1])
			}
			return true
		})
	}

	// ---- waddrmgr/db.go: MaxReorgDepth and staleHeight
	dpath := filepath.Join(repo, "waddrmgr", "db.go")
	df := parseFile(fset, dpath)
	found := false
	for _, d := range df.Decls {
		gd, ok := d.(*ast.GenDecl)
		if !ok || gd.Tok != token.CONST {
			continue
		}
		for _, s := range gd.Specs {
			vs := s.(*ast.ValueSpec)
			for i, nm := range vs.Names {
				if nm.Name != "MaxReorgDepth" {
					continue
				}
				if i >= len(vs.Values) {
					die("%s: MaxReorgDepth has no value", dpath)
				}
				bl, ok := vs.Values[i].(*ast.BasicLit)
				if !ok || bl.Kind != token.INT {
					die("%s: MaxReorgDepth is not an integer literal", dpath)
				}
				v, err := strconv.ParseInt(bl.Value, 0, 64)
				if err != nil {
					die("%s: MaxReorgDepth: %v", dpath, err)
				}
				res.MaxReorgDepth = v
				found = true
			}
		}
	}
	if !found {
		die("%s: const MaxReorgDepth not found", dpath)
	}
	sh := findFunc(df, "staleHeight")
	if sh == nil || len(sh.Body.List) != 1 {
		die("%s: func staleHeight not found or not a single statement", dpath)
	}
	ret, ok := sh.Body.List[0].(*ast.ReturnStmt)
	if !ok || len(ret.Results) != 1 {
		die("%s: staleHeight is not a single return", dpath)
	}
	be, ok := ret.Results[0].(*ast.BinaryExpr)
	if !ok || be.Op != token.SUB || selPath(be.X) != "height" || selPath(be.Y) != "MaxReorgDepth" {
		die("%s: staleHeight is not `height - MaxReorgDepth`", dpath)
	}

	out, _ := json.Marshal(res)
	fmt.Println(string(out))
}
