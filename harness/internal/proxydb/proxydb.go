// Package proxydb wraps a walletdb.DB (normally the real bdb backend) so that a
// harness can observe and steer the life cycle of database transactions while
// the code under test is unchanged:
//
//   - every read/write transaction is numbered and reported to hooks at
//     begin, around the real commit / rollback, and around the OnCommit
//     handlers;
//   - OnCommit registrations are NOT forwarded to the backend: the proxy
//     collects them and runs them itself after the real Commit returned, in
//     the committing goroutine and before Commit returns - the order bbolt
//     uses (tx.close() releases the writer lock, then the handlers run) - so a
//     hook can hold a transaction between "committed, writer lock released"
//     and "handlers ran" (Hooks.AfterCommit may block);
//   - a commit can be made to fail (Hooks.BeforeCommit returns an error: the
//     real transaction is rolled back, no handler runs);
//   - every mutating call (Put, Delete, CreateBucket..., cursor Delete,
//     SetSequence/NextSequence) is counted per transaction and offered to
//     Hooks.BeforeWrite, which can fail it before the backend is touched.
//
// Native mode (DB.SetNative(true)): OnCommit registrations ARE forwarded to the
// backend, so the handlers are run by the backend itself, in its own order and
// at its own point of Commit (bbolt: after tx.close() released the writer lock).
// The proxy registers two handlers of its own on the backend transaction: the
// first one (registered at Begin, hence run first) calls Hooks.AfterCommit -
// it may block, which parks the transaction between "writer lock released" and
// "the code's handlers ran" exactly as in the default mode - and the last one
// (registered at the start of Commit) calls Hooks.AfterCallbacks.  In this
// mode the real Commit returns only after all handlers ran, so AroundCommit
// wraps commit AND handlers.
//
// Buckets obtained from a proxied write transaction are proxies too, so that
// bucket.Tx() is the proxied transaction (waddrmgr registers its handlers
// through ns.Tx().OnCommit).  Read-only buckets and read cursors are the
// backend's own objects.  walletdb.BatchDB is deliberately not implemented.
package proxydb

import (
	"io"
	"sync"
	"sync/atomic"

	"github.com/btcsuite/btcwallet/walletdb"
)

// Op names a mutating call.
type Op string

// Mutating calls reported to Hooks.BeforeWrite.
const (
	OpPut               Op = "Put"
	OpDelete            Op = "Delete"
	OpCreateBucket      Op = "CreateBucket"
	OpCreateIfNotExists Op = "CreateBucketIfNotExists"
	OpDeleteBucket      Op = "DeleteNestedBucket"
	OpCreateTopLevel    Op = "CreateTopLevelBucket"
	OpDeleteTopLevel    Op = "DeleteTopLevelBucket"
	OpCursorDelete      Op = "Cursor.Delete"
	OpNextSequence      Op = "NextSequence"
	OpSetSequence       Op = "SetSequence"
)

// TxInfo describes one proxied transaction.  Hooks may store their own data in
// User (it is only touched by hooks).
type TxInfo struct {
	ID        int64 // 1, 2, ... in begin order on this DB
	Writable  bool
	Managed   bool // opened by DB.Update / DB.View (as opposed to Begin*Tx)
	Writes    int  // mutating calls attempted so far (the current one included in BeforeWrite)
	Callbacks int  // OnCommit registrations so far
	Native    bool // the backend runs the OnCommit handlers (DB.SetNative)
	User      interface{}
}

// Hooks are called synchronously in the goroutine that drives the
// transaction.  Every field may be nil.
type Hooks struct {
	// OnBegin runs right after the backend's Begin returned successfully
	// (for a write transaction: the backend's writer lock is now held).
	OnBegin func(tx *TxInfo)
	// BeforeWrite runs before a mutating call reaches the backend; a non-nil
	// error is returned to the caller instead of performing the call.
	BeforeWrite func(tx *TxInfo, op Op, key []byte) error
	// BeforeCommit runs first thing in Commit; a non-nil error makes the
	// proxy roll the real transaction back and return that error.
	BeforeCommit func(tx *TxInfo) error
	// AroundCommit, if set, is given the real commit as a function and must
	// call it exactly once (for taking a lock around it, timing, ...).
	AroundCommit func(tx *TxInfo, commit func() error) error
	// AfterCommit runs after the real commit succeeded (writer lock
	// released) and BEFORE the OnCommit handlers; it may block.
	AfterCommit func(tx *TxInfo)
	// AfterCallbacks runs after the OnCommit handlers ran, before Commit returns.
	AfterCallbacks func(tx *TxInfo)
	// AroundRollback is the analogue of AroundCommit for Rollback (write
	// transactions only).
	AroundRollback func(tx *TxInfo, rollback func() error) error
}

// DB is the proxy.
type DB struct {
	inner  walletdb.DB
	seq    int64
	mu     sync.RWMutex
	hooks  *Hooks
	native bool
}

var _ walletdb.DB = (*DB)(nil)

// New wraps inner.
func New(inner walletdb.DB) *DB { return &DB{inner: inner, hooks: &Hooks{}} }

// SetHooks installs h (nil = no hooks) for transactions begun afterwards and
// for the later phases of transactions already open.
func (d *DB) SetHooks(h *Hooks) {
	if h == nil {
		h = &Hooks{}
	}
	d.mu.Lock()
	d.hooks = h
	d.mu.Unlock()
}

// SetNative switches native mode on or off for write transactions begun
// afterwards (see the package comment).
func (d *DB) SetNative(on bool) {
	d.mu.Lock()
	d.native = on
	d.mu.Unlock()
}

func (d *DB) isNative() bool {
	d.mu.RLock()
	defer d.mu.RUnlock()
	return d.native
}

// Inner returns the wrapped database.
func (d *DB) Inner() walletdb.DB { return d.inner }

func (d *DB) h() *Hooks {
	d.mu.RLock()
	defer d.mu.RUnlock()
	return d.hooks
}

// BeginReadTx is part of walletdb.DB.
func (d *DB) BeginReadTx() (walletdb.ReadTx, error) { return d.beginRead(false) }

func (d *DB) beginRead(managed bool) (walletdb.ReadTx, error) {
	tx, err := d.inner.BeginReadTx()
	if err != nil {
		return nil, err
	}
	info := &TxInfo{ID: atomic.AddInt64(&d.seq, 1), Managed: managed}
	if f := d.h().OnBegin; f != nil {
		f(info)
	}
	return &readTx{ReadTx: tx, info: info}, nil
}

// BeginReadWriteTx is part of walletdb.DB.
func (d *DB) BeginReadWriteTx() (walletdb.ReadWriteTx, error) { return d.beginWrite(false) }

func (d *DB) beginWrite(managed bool) (*rwTx, error) {
	tx, err := d.inner.BeginReadWriteTx()
	if err != nil {
		return nil, err
	}
	info := &TxInfo{ID: atomic.AddInt64(&d.seq, 1), Writable: true, Managed: managed, Native: d.isNative()}
	p := &rwTx{db: d, real: tx, info: info}
	if info.Native {
		// registered first, so the backend runs it first: right after the
		// real commit released the writer lock, before the code's handlers
		tx.OnCommit(func() {
			if f := d.h().AfterCommit; f != nil {
				f(info)
			}
		})
	}
	if f := d.h().OnBegin; f != nil {
		f(info)
	}
	return p, nil
}

// Copy is part of walletdb.DB.
func (d *DB) Copy(w io.Writer) error { return d.inner.Copy(w) }

// Close is part of walletdb.DB.
func (d *DB) Close() error { return d.inner.Close() }

// PrintStats is part of walletdb.DB.
func (d *DB) PrintStats() string { return d.inner.PrintStats() }

// View is part of walletdb.DB; same control flow as the bdb backend.
func (d *DB) View(f func(tx walletdb.ReadTx) error, reset func()) error {
	reset()
	tx, err := d.beginRead(true)
	if err != nil {
		return err
	}
	defer func() {
		if tx != nil {
			_ = tx.Rollback()
		}
	}()
	err = f(tx)
	rollbackErr := tx.Rollback()
	if err != nil {
		return err
	}
	if rollbackErr != nil {
		return rollbackErr
	}
	return nil
}

// Update is part of walletdb.DB; same control flow as the bdb backend: begin,
// run f, roll back if f failed, else commit (the OnCommit handlers run inside
// Commit, after the writer lock is gone).
func (d *DB) Update(f func(tx walletdb.ReadWriteTx) error, reset func()) error {
	reset()
	tx, err := d.beginWrite(true)
	if err != nil {
		return err
	}
	defer func() {
		if tx != nil && !tx.done {
			_ = tx.Rollback()
		}
	}()
	err = f(tx)
	if err != nil {
		_ = tx.Rollback()
		return err
	}
	return tx.Commit()
}

// ------------------------------------------------------------ transactions

type readTx struct {
	walletdb.ReadTx
	info *TxInfo
}

type rwTx struct {
	db        *DB
	real      walletdb.ReadWriteTx
	info      *TxInfo
	callbacks []func()
	done      bool
}

var _ walletdb.ReadWriteTx = (*rwTx)(nil)

func (t *rwTx) write(op Op, key []byte) error {
	t.info.Writes++
	if f := t.db.h().BeforeWrite; f != nil {
		return f(t.info, op, key)
	}
	return nil
}

func (t *rwTx) ReadBucket(key []byte) walletdb.ReadBucket {
	b := t.real.ReadBucket(key)
	if b == nil {
		return nil
	}
	return b
}

func (t *rwTx) ForEachBucket(f func(key []byte) error) error { return t.real.ForEachBucket(f) }

func (t *rwTx) ReadWriteBucket(key []byte) walletdb.ReadWriteBucket {
	return t.wrap(t.real.ReadWriteBucket(key))
}

func (t *rwTx) CreateTopLevelBucket(key []byte) (walletdb.ReadWriteBucket, error) {
	if err := t.write(OpCreateTopLevel, key); err != nil {
		return nil, err
	}
	b, err := t.real.CreateTopLevelBucket(key)
	if err != nil {
		return nil, err
	}
	return t.wrap(b), nil
}

func (t *rwTx) DeleteTopLevelBucket(key []byte) error {
	if err := t.write(OpDeleteTopLevel, key); err != nil {
		return err
	}
	return t.real.DeleteTopLevelBucket(key)
}

// OnCommit collects the handler; see the package comment.
func (t *rwTx) OnCommit(f func()) {
	t.info.Callbacks++
	if t.info.Native {
		t.real.OnCommit(f)
		return
	}
	t.callbacks = append(t.callbacks, f)
}

func (t *rwTx) Commit() error {
	h := t.db.h()
	if h.BeforeCommit != nil {
		if err := h.BeforeCommit(t.info); err != nil {
			_ = t.Rollback()
			return err
		}
	}
	t.done = true
	if t.info.Native {
		// registered last: runs after the code's handlers, inside the real Commit
		t.real.OnCommit(func() {
			if f := t.db.h().AfterCallbacks; f != nil {
				f(t.info)
			}
		})
		if h.AroundCommit != nil {
			return h.AroundCommit(t.info, t.real.Commit)
		}
		return t.real.Commit()
	}
	var err error
	if h.AroundCommit != nil {
		err = h.AroundCommit(t.info, t.real.Commit)
	} else {
		err = t.real.Commit()
	}
	if err != nil {
		return err
	}
	// The backend has released its writer lock; the handlers have not run.
	if f := t.db.h().AfterCommit; f != nil {
		f(t.info)
	}
	for _, fn := range t.callbacks {
		fn()
	}
	if f := t.db.h().AfterCallbacks; f != nil {
		f(t.info)
	}
	return nil
}

func (t *rwTx) Rollback() error {
	t.done = true
	if f := t.db.h().AroundRollback; f != nil {
		return f(t.info, t.real.Rollback)
	}
	return t.real.Rollback()
}

func (t *rwTx) wrap(b walletdb.ReadWriteBucket) walletdb.ReadWriteBucket {
	if b == nil {
		return nil
	}
	return &rwBucket{tx: t, real: b}
}

// ----------------------------------------------------------------- buckets

type rwBucket struct {
	tx   *rwTx
	real walletdb.ReadWriteBucket
}

var _ walletdb.ReadWriteBucket = (*rwBucket)(nil)

func (b *rwBucket) NestedReadBucket(key []byte) walletdb.ReadBucket {
	n := b.real.NestedReadBucket(key)
	if n == nil {
		return nil
	}
	return n
}
func (b *rwBucket) ForEach(f func(k, v []byte) error) error { return b.real.ForEach(f) }
func (b *rwBucket) Get(key []byte) []byte                   { return b.real.Get(key) }
func (b *rwBucket) ReadCursor() walletdb.ReadCursor         { return b.real.ReadCursor() }
func (b *rwBucket) Sequence() uint64                        { return b.real.Sequence() }

func (b *rwBucket) NestedReadWriteBucket(key []byte) walletdb.ReadWriteBucket {
	return b.tx.wrap(b.real.NestedReadWriteBucket(key))
}

func (b *rwBucket) CreateBucket(key []byte) (walletdb.ReadWriteBucket, error) {
	if err := b.tx.write(OpCreateBucket, key); err != nil {
		return nil, err
	}
	n, err := b.real.CreateBucket(key)
	if err != nil {
		return nil, err
	}
	return b.tx.wrap(n), nil
}

func (b *rwBucket) CreateBucketIfNotExists(key []byte) (walletdb.ReadWriteBucket, error) {
	if err := b.tx.write(OpCreateIfNotExists, key); err != nil {
		return nil, err
	}
	n, err := b.real.CreateBucketIfNotExists(key)
	if err != nil {
		return nil, err
	}
	return b.tx.wrap(n), nil
}

func (b *rwBucket) DeleteNestedBucket(key []byte) error {
	if err := b.tx.write(OpDeleteBucket, key); err != nil {
		return err
	}
	return b.real.DeleteNestedBucket(key)
}

func (b *rwBucket) Put(key, value []byte) error {
	if err := b.tx.write(OpPut, key); err != nil {
		return err
	}
	return b.real.Put(key, value)
}

func (b *rwBucket) Delete(key []byte) error {
	if err := b.tx.write(OpDelete, key); err != nil {
		return err
	}
	return b.real.Delete(key)
}

func (b *rwBucket) ReadWriteCursor() walletdb.ReadWriteCursor {
	return &rwCursor{ReadWriteCursor: b.real.ReadWriteCursor(), tx: b.tx}
}

func (b *rwBucket) Tx() walletdb.ReadWriteTx { return b.tx }

func (b *rwBucket) NextSequence() (uint64, error) {
	if err := b.tx.write(OpNextSequence, nil); err != nil {
		return 0, err
	}
	return b.real.NextSequence()
}

func (b *rwBucket) SetSequence(v uint64) error {
	if err := b.tx.write(OpSetSequence, nil); err != nil {
		return err
	}
	return b.real.SetSequence(v)
}

type rwCursor struct {
	walletdb.ReadWriteCursor
	tx *rwTx
}

func (c *rwCursor) Delete() error {
	if err := c.tx.write(OpCursorDelete, nil); err != nil {
		return err
	}
	return c.ReadWriteCursor.Delete()
}
