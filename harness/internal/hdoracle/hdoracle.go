// Package hdoracle is an independent implementation of BIP32 key derivation
// (the standard rule and btcsuite's legacy DeriveNonStandard rule for hardened
// children) and of the four single-key address encodings btcwallet issues
// (P2PKH, P2WPKH, P2SH-nested P2WPKH, BIP86 P2TR).
//
// It shares no code with hdkeychain, btcutil's address types or txscript:
// HMAC-SHA512, SHA-256 and RIPEMD-160 come from the Go libraries, base58check
// and bech32(m) are written out here, and only the secp256k1 group operations
// (scalar reduction, base-point multiplication, point addition) are taken from
// btcec.  The harness uses it to map every key the real wallet hands out back
// to a derivation path without trusting waddrmgr.
package hdoracle

import (
	"crypto/hmac"
	"crypto/sha256"
	"crypto/sha512"
	"encoding/binary"
	"errors"
	"math/big"

	"github.com/btcsuite/btcd/btcec/v2"
	"golang.org/x/crypto/ripemd160" //nolint:staticcheck
)

// HardenedStart is the first hardened child number.
const HardenedStart = uint32(0x80000000)

var curveN = btcec.S256().N

// Key is an extended key: a private scalar (nil for a public-only key), the
// public point, and the chain code.
type Key struct {
	Priv     *big.Int // nil when only the public part is known
	Pub      [33]byte // compressed public key
	Chain    [32]byte
	Depth    uint8
	ChildNum uint32
	ParentFP [4]byte
}

// ErrInvalidChild is returned when IL is not a valid scalar (probability 2^-127).
var ErrInvalidChild = errors.New("hdoracle: invalid child")

// ErrHardenedFromPublic is returned for a hardened step from a public key.
var ErrHardenedFromPublic = errors.New("hdoracle: hardened child of a public key")

func pubOfScalar(k *big.Int) [33]byte {
	var s btcec.ModNScalar
	var b [32]byte
	k.FillBytes(b[:])
	s.SetBytes(&b)
	var j btcec.JacobianPoint
	btcec.ScalarBaseMultNonConst(&s, &j)
	j.ToAffine()
	p := btcec.NewPublicKey(&j.X, &j.Y)
	var out [33]byte
	copy(out[:], p.SerializeCompressed())
	return out
}

// Master is BIP32's master key generation.
func Master(seed []byte) (*Key, error) {
	m := hmac.New(sha512.New, []byte("Bitcoin seed"))
	m.Write(seed)
	i := m.Sum(nil)
	k := new(big.Int).SetBytes(i[:32])
	if k.Sign() == 0 || k.Cmp(curveN) >= 0 {
		return nil, ErrInvalidChild
	}
	out := &Key{Priv: k}
	copy(out.Chain[:], i[32:])
	out.Pub = pubOfScalar(k)
	return out, nil
}

// Hash160 is RIPEMD160(SHA256(b)).
func Hash160(b []byte) []byte {
	h := sha256.Sum256(b)
	r := ripemd160.New()
	r.Write(h[:])
	return r.Sum(nil)
}

// Rule selects how the parent private key is laid out in the HMAC input of a
// hardened step.
type Rule int

const (
	// Standard is BIP32: 0x00 || ser256(k).
	Standard Rule = iota
	// Legacy is btcsuite's DeriveNonStandard on a key whose in-memory bytes
	// lost their leading zero bytes: 0x00 || minimal big-endian bytes of k,
	// padded with zeros ON THE RIGHT to 33 bytes.  Equal to Standard unless k
	// has a leading zero byte.
	Legacy
)

// LeadingZero reports whether the private key has a leading zero byte (the
// only case in which the two rules differ for hardened children of k).
func (k *Key) LeadingZero() bool {
	return k.Priv != nil && k.Priv.BitLen() <= 248
}

// Child derives child number i (hardened when i >= HardenedStart).
func (k *Key) Child(i uint32, rule Rule) (*Key, error) {
	hard := i >= HardenedStart
	data := make([]byte, 37)
	if hard {
		if k.Priv == nil {
			return nil, ErrHardenedFromPublic
		}
		switch rule {
		case Standard:
			k.Priv.FillBytes(data[1:33])
		case Legacy:
			copy(data[1:], k.Priv.Bytes())
		}
	} else {
		copy(data, k.Pub[:])
	}
	binary.BigEndian.PutUint32(data[33:], i)
	m := hmac.New(sha512.New, k.Chain[:])
	m.Write(data)
	ilr := m.Sum(nil)
	il := new(big.Int).SetBytes(ilr[:32])
	if il.Sign() == 0 || il.Cmp(curveN) >= 0 {
		return nil, ErrInvalidChild
	}
	out := &Key{Depth: k.Depth + 1, ChildNum: i}
	copy(out.Chain[:], ilr[32:])
	copy(out.ParentFP[:], Hash160(k.Pub[:])[:4])
	if k.Priv != nil {
		c := new(big.Int).Add(il, k.Priv)
		c.Mod(c, curveN)
		if c.Sign() == 0 {
			return nil, ErrInvalidChild
		}
		out.Priv = c
		out.Pub = pubOfScalar(c)
		return out, nil
	}
	// public parent: point(IL) + parent
	parent, err := btcec.ParsePubKey(k.Pub[:])
	if err != nil {
		return nil, err
	}
	var ilS btcec.ModNScalar
	var ilB [32]byte
	il.FillBytes(ilB[:])
	ilS.SetBytes(&ilB)
	var a, b, r btcec.JacobianPoint
	btcec.ScalarBaseMultNonConst(&ilS, &a)
	parent.AsJacobian(&b)
	btcec.AddNonConst(&a, &b, &r)
	if r.Z.IsZero() {
		return nil, ErrInvalidChild
	}
	r.ToAffine()
	copy(out.Pub[:], btcec.NewPublicKey(&r.X, &r.Y).SerializeCompressed())
	return out, nil
}

// Neuter drops the private part.
func (k *Key) Neuter() *Key {
	c := *k
	c.Priv = nil
	return &c
}

// PrivBytes is ser256 of the private key.
func (k *Key) PrivBytes() []byte {
	b := make([]byte, 32)
	k.Priv.FillBytes(b)
	return b
}

// ------------------------------------------------------------------ encodings

const b58 = "123456789ABCDEFGHJKLMNPQRSTUVWXYZabcdefghijkmnopqrstuvwxyz"

// Base58Check encodes version || payload with the 4-byte double-SHA256 checksum.
func Base58Check(version byte, payload []byte) string {
	b := append([]byte{version}, payload...)
	h1 := sha256.Sum256(b)
	h2 := sha256.Sum256(h1[:])
	b = append(b, h2[:4]...)
	x := new(big.Int).SetBytes(b)
	radix := big.NewInt(58)
	mod := new(big.Int)
	var out []byte
	for x.Sign() > 0 {
		x.DivMod(x, radix, mod)
		out = append(out, b58[mod.Int64()])
	}
	for _, c := range b {
		if c != 0 {
			break
		}
		out = append(out, b58[0])
	}
	for i, j := 0, len(out)-1; i < j; i, j = i+1, j-1 {
		out[i], out[j] = out[j], out[i]
	}
	return string(out)
}

const bech32Charset = "qpzry9x8gf2tvdw0s3jn54khce6mua7l"

func bech32Polymod(v []byte) uint32 {
	gen := [5]uint32{0x3b6a57b2, 0x26508e6d, 0x1ea119fa, 0x3d4233dd, 0x2a1462b3}
	chk := uint32(1)
	for _, x := range v {
		top := chk >> 25
		chk = (chk&0x1ffffff)<<5 ^ uint32(x)
		for i := 0; i < 5; i++ {
			if (top>>uint(i))&1 == 1 {
				chk ^= gen[i]
			}
		}
	}
	return chk
}

// SegwitAddr is BIP173 (version 0, bech32) / BIP350 (version 1+, bech32m).
func SegwitAddr(hrp string, version byte, program []byte) string {
	// 8-bit to 5-bit groups
	data := []byte{version}
	acc, bits := uint32(0), uint(0)
	for _, b := range program {
		acc = acc<<8 | uint32(b)
		bits += 8
		for bits >= 5 {
			bits -= 5
			data = append(data, byte(acc>>bits)&31)
		}
	}
	if bits > 0 {
		data = append(data, byte(acc<<(5-bits))&31)
	}
	var exp []byte
	for _, c := range hrp {
		exp = append(exp, byte(c)>>5)
	}
	exp = append(exp, 0)
	for _, c := range hrp {
		exp = append(exp, byte(c)&31)
	}
	konst := uint32(1)
	if version != 0 {
		konst = 0x2bc830a3
	}
	values := append(append(exp, data...), 0, 0, 0, 0, 0, 0)
	pm := bech32Polymod(values) ^ konst
	out := hrp + "1"
	for _, d := range data {
		out += string(bech32Charset[d])
	}
	for i := 0; i < 6; i++ {
		out += string(bech32Charset[(pm>>uint(5*(5-i)))&31])
	}
	return out
}

func taggedHash(tag string, msg []byte) [32]byte {
	t := sha256.Sum256([]byte(tag))
	h := sha256.New()
	h.Write(t[:])
	h.Write(t[:])
	h.Write(msg)
	var out [32]byte
	copy(out[:], h.Sum(nil))
	return out
}

// TaprootOutputKey is BIP341/BIP86: Q = lift_x(P) + H_TapTweak(P.x)*G, x-only.
func TaprootOutputKey(pub33 []byte) ([]byte, error) {
	even := append([]byte{0x02}, pub33[1:]...)
	p, err := btcec.ParsePubKey(even)
	if err != nil {
		return nil, err
	}
	t := taggedHash("TapTweak", pub33[1:])
	var ts btcec.ModNScalar
	if ts.SetBytes(&t) != 0 {
		return nil, errors.New("hdoracle: tweak out of range")
	}
	var a, b, r btcec.JacobianPoint
	btcec.ScalarBaseMultNonConst(&ts, &a)
	p.AsJacobian(&b)
	btcec.AddNonConst(&a, &b, &r)
	r.ToAffine()
	q := btcec.NewPublicKey(&r.X, &r.Y).SerializeCompressed()
	return q[1:], nil
}

// Address formats.
const (
	P2PKH  = "p2pkh"
	NP2WKH = "np2wkh"
	P2WKH  = "p2wkh"
	P2TR   = "p2tr"
)

// Formats lists every single-key format.
var Formats = []string{P2PKH, NP2WKH, P2WKH, P2TR}

// Net carries the address parameters of a network.
type Net struct {
	PKHVersion, SHVersion byte
	HRP                   string
}

// MainNet are Bitcoin's main network parameters.
var MainNet = Net{0x00, 0x05, "bc"}

// Address encodes a compressed public key in the given format.
func Address(net Net, format string, pub33 []byte) (string, error) {
	h := Hash160(pub33)
	switch format {
	case P2PKH:
		return Base58Check(net.PKHVersion, h), nil
	case P2WKH:
		return SegwitAddr(net.HRP, 0, h), nil
	case NP2WKH:
		redeem := append([]byte{0x00, 0x14}, h...)
		return Base58Check(net.SHVersion, Hash160(redeem)), nil
	case P2TR:
		q, err := TaprootOutputKey(pub33)
		if err != nil {
			return "", err
		}
		return SegwitAddr(net.HRP, 1, q), nil
	}
	return "", errors.New("hdoracle: unknown format " + format)
}

// ScriptHashAddress is the P2SH address of a script.
func ScriptHashAddress(net Net, script []byte) string {
	return Base58Check(net.SHVersion, Hash160(script))
}

// FormatOf finds the format under which addr encodes pub33 ("" if none).
func FormatOf(net Net, addr string, pub33 []byte) string {
	for _, f := range Formats {
		if a, err := Address(net, f, pub33); err == nil && a == addr {
			return f
		}
	}
	return ""
}

// ------------------------------------------------ imported keys and scripts

// Uncompressed is the 65-byte serialization 0x04 || X || Y of a compressed key.
func Uncompressed(pub33 []byte) ([]byte, error) {
	p, err := btcec.ParsePubKey(pub33)
	if err != nil {
		return nil, err
	}
	out := make([]byte, 65)
	out[0] = 4
	p.X().FillBytes(out[1:33])
	p.Y().FillBytes(out[33:65])
	return out, nil
}

// AddressOfSerialized encodes a public key given in the serialization the
// owner uses for it (33 or 65 bytes): the hash formats hash that
// serialization, the taproot format only depends on the point.
func AddressOfSerialized(net Net, format string, pub []byte) (string, error) {
	if len(pub) == 33 {
		return Address(net, format, pub)
	}
	h := Hash160(pub)
	switch format {
	case P2PKH:
		return Base58Check(net.PKHVersion, h), nil
	case P2WKH:
		return SegwitAddr(net.HRP, 0, h), nil
	case NP2WKH:
		return Base58Check(net.SHVersion, Hash160(append([]byte{0x00, 0x14}, h...))), nil
	case P2TR:
		p, err := btcec.ParsePubKey(pub)
		if err != nil {
			return "", err
		}
		return Address(net, P2TR, p.SerializeCompressed())
	}
	return "", errors.New("hdoracle: unknown format " + format)
}

// WitnessScriptAddress is the P2WSH address of a script (BIP141).
func WitnessScriptAddress(net Net, script []byte) string {
	h := sha256.Sum256(script)
	return SegwitAddr(net.HRP, 0, h[:])
}

func compactSize(n int) []byte {
	switch {
	case n < 0xfd:
		return []byte{byte(n)}
	case n <= 0xffff:
		return []byte{0xfd, byte(n), byte(n >> 8)}
	}
	return []byte{0xfe, byte(n), byte(n >> 8), byte(n >> 16), byte(n >> 24)}
}

// TapLeafHash is BIP341's leaf hash.
func TapLeafHash(leafVersion byte, script []byte) [32]byte {
	msg := append([]byte{leafVersion}, compactSize(len(script))...)
	return taggedHash("TapLeaf", append(msg, script...))
}

// TaprootScriptOutputKey is BIP341's Q = lift_x(P) + H_TapTweak(P.x || root)*G
// (x-only) for internal key P and script tree root.
func TaprootScriptOutputKey(internal33 []byte, root []byte) ([]byte, error) {
	even := append([]byte{0x02}, internal33[1:]...)
	p, err := btcec.ParsePubKey(even)
	if err != nil {
		return nil, err
	}
	t := taggedHash("TapTweak", append(append([]byte{}, internal33[1:]...), root...))
	var ts btcec.ModNScalar
	if ts.SetBytes(&t) != 0 {
		return nil, errors.New("hdoracle: tweak out of range")
	}
	var a, b, r btcec.JacobianPoint
	btcec.ScalarBaseMultNonConst(&ts, &a)
	p.AsJacobian(&b)
	btcec.AddNonConst(&a, &b, &r)
	r.ToAffine()
	q := btcec.NewPublicKey(&r.X, &r.Y).SerializeCompressed()
	return q[1:], nil
}

// TaprootSingleLeafAddress is the P2TR address committing to internal key P and
// a tree made of the single leaf (version 0xc0, script).
func TaprootSingleLeafAddress(net Net, internal33 []byte, script []byte) (string, error) {
	root := TapLeafHash(0xc0, script)
	q, err := TaprootScriptOutputKey(internal33, root[:])
	if err != nil {
		return "", err
	}
	return SegwitAddr(net.HRP, 1, q), nil
}

// FormatOfSerialized finds the format under which addr encodes the public key
// given in its owner's serialization ("" if none).
func FormatOfSerialized(net Net, addr string, pub []byte) string {
	for _, f := range Formats {
		if a, err := AddressOfSerialized(net, f, pub); err == nil && a == addr {
			return f
		}
	}
	return ""
}
