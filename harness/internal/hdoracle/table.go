package hdoracle

// Reverse tables: compressed public key -> where it sits in a key tree.  The
// harness fills one table with the keys the specification (spec.go) assigns to
// the paths of a case - and nothing else - and uses it to NAME the keys the
// wallet hands out.  A second table of the same type may hold the keys a
// wallet would make if it deviated from the rule table at some hardened step;
// it only serves to word the violation report.

// Step is one derivation step (child number below 2^31, hardened flag).
type Step struct {
	Index    uint32
	Hardened bool
}

// Entry names a key: the root it descends from and the path walked.
type Entry struct {
	Root string // "seed", "xpub", "imp"
	ID   uint64 // which seed / xpub / imported key
	Path []Step
	Priv []byte // ser256 of the private key, nil if only the public key is derivable
	Pub  [33]byte
	// Note is empty in the specification table; in a diagnostic table it says
	// which deviation from the rule table yields this key.
	Note string
}

// Table maps public keys to entries.
type Table struct {
	m map[[33]byte]*Entry
}

// NewTable returns an empty table.
func NewTable() *Table { return &Table{m: map[[33]byte]*Entry{}} }

// Len is the number of keys.
func (t *Table) Len() int { return len(t.m) }

// Lookup returns the entry of a compressed public key, or nil.
func (t *Table) Lookup(pub33 []byte) *Entry {
	var k [33]byte
	if len(pub33) != 33 {
		return nil
	}
	copy(k[:], pub33)
	return t.m[k]
}

func (t *Table) add(e *Entry) {
	if _, ok := t.m[e.Pub]; ok {
		return // first registration wins
	}
	t.m[e.Pub] = e
}

// AddKey registers a single key.
func (t *Table) AddKey(root string, id uint64, path []Step, k *Key, note string) {
	e := &Entry{Root: root, ID: id, Path: append([]Step{}, path...), Pub: k.Pub, Note: note}
	if k.Priv != nil {
		e.Priv = k.PrivBytes()
	}
	t.add(e)
}

// AddAccount registers the unhardened children branch/index of an account key
// for the given branches and indices 0..maxIndex (both rules coincide there).
func (t *Table) AddAccount(root string, id uint64, prefix []Step, acct *Key, note string,
	branches []uint32, maxIndex uint32) error {

	for _, b := range branches {
		bk, err := acct.Child(b, Standard)
		if err != nil {
			return err
		}
		for i := uint32(0); i <= maxIndex; i++ {
			ck, err := bk.Child(i, Standard)
			if err != nil {
				continue // invalid child (2^-127): the wallet skips it too
			}
			p := append(append([]Step{}, prefix...), Step{b, false}, Step{i, false})
			t.AddKey(root, id, p, ck, note)
		}
	}
	return nil
}
