package hdoracle

// Reverse tables: compressed public key -> where it sits in a key tree.

// Step is one derivation step (child number below 2^31, hardened flag).
type Step struct {
	Index    uint32
	Hardened bool
}

// Entry names a key: the root it descends from and the path walked.
type Entry struct {
	Root string // "seed", "xpub", "imp"
	ID   uint64 // which seed / xpub / imported key
	Path []Step
	Priv []byte // ser256 of the private key, nil if only the public key is derivable
	Pub  [33]byte
	// Alt is non-empty when the key is only reached by using, at some hardened
	// step, the other rule than the one btcsuite effectively applies there
	// (possible only when an intermediate private key has a leading zero byte).
	Alt string
}

// Table maps public keys to entries.
type Table struct {
	m map[[33]byte]*Entry
}

// NewTable returns an empty table.
func NewTable() *Table { return &Table{m: map[[33]byte]*Entry{}} }

// Lookup returns the entry of a compressed public key, or nil.
func (t *Table) Lookup(pub33 []byte) *Entry {
	var k [33]byte
	if len(pub33) != 33 {
		return nil
	}
	copy(k[:], pub33)
	return t.m[k]
}

func (t *Table) add(e *Entry) {
	if old, ok := t.m[e.Pub]; ok && old.Alt == "" {
		return // the primary derivation wins
	}
	t.m[e.Pub] = e
}

// AddKey registers a single key (imported private key).
func (t *Table) AddKey(root string, id uint64, k *Key) {
	e := &Entry{Root: root, ID: id, Pub: k.Pub}
	if k.Priv != nil {
		e.Priv = k.PrivBytes()
	}
	t.add(e)
}

// AddAccount registers children branch/index of an account key for the given
// branches and indices 0..maxIndex.
func (t *Table) AddAccount(root string, id uint64, prefix []Step, acct *Key, alt string,
	branches []uint32, maxIndex uint32) error {

	for _, b := range branches {
		bk, err := acct.Child(b, Legacy)
		if err != nil {
			return err
		}
		for i := uint32(0); i <= maxIndex; i++ {
			ck, err := bk.Child(i, Legacy)
			if err != nil {
				continue // invalid child: the wallet skips it too
			}
			p := append(append([]Step{}, prefix...), Step{b, false}, Step{i, false})
			e := &Entry{Root: root, ID: id, Path: p, Pub: ck.Pub, Alt: alt}
			if ck.Priv != nil {
				e.Priv = ck.PrivBytes()
			}
			t.add(e)
		}
	}
	return nil
}

// Variant is one way of walking a hardened path.
type Variant struct {
	Key *Key
	Alt string // "" = the effective rule at every step
}

// HardenedPath derives master/steps... with every step hardened.  rules[i] is
// the rule btcsuite effectively applies at step i (DeriveNonStandard pads a key
// whose in-memory bytes lost their leading zeros on the wrong side; a key that
// was just created by NewMaster or parsed from its serialization still has all
// 32 bytes, and the step is then the standard one).  The first variant follows
// rules throughout; further variants (only when a parent private key has a
// leading zero byte, the only case in which the two rules differ) use the other
// rule at some steps.
func HardenedPath(master *Key, steps []uint32, rules []Rule) ([]Variant, error) {
	cur := []Variant{{Key: master}}
	for depth, s := range steps {
		var next []Variant
		for _, v := range cur {
			k, err := v.Key.Child(s+HardenedStart, rules[depth])
			if err != nil {
				return nil, err
			}
			next = append(next, Variant{Key: k, Alt: v.Alt})
			if v.Key.LeadingZero() {
				other, name := Standard, "std@"
				if rules[depth] == Standard {
					other, name = Legacy, "legacy@"
				}
				k2, err := v.Key.Child(s+HardenedStart, other)
				if err != nil {
					return nil, err
				}
				next = append(next, Variant{Key: k2, Alt: v.Alt + name + string(rune('0'+depth))})
			}
		}
		cur = next
	}
	return cur, nil
}
