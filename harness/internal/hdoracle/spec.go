package hdoracle

import "math/big"

// The derivation rule the wallet must use at every step of
// m/purpose'/coin'/account'/branch/index - the SPECIFICATION property C03 is
// checked against.  Nothing in this file looks at btcwallet or hdkeychain; it
// is written from the property text, BIP32, and the documented history of
// btcsuite's issue 172.
//
// The property says: "hardened steps follow btcsuite's legacy rule, which
// equals BIP32 unless an intermediate private key has a leading zero byte ...
// so that a wallet re-created from the same seed issues the same addresses".
//
// btcsuite's legacy rule (hdkeychain's old Child method, today
// DeriveNonStandard; btcutil issue 172; hdkeychain/extendedkey.go: "Derive ...
// IMPORTANT: if you were previously using the Child method, this method is
// incompatible", "IsAffectedByIssue172: len(k.key) < 32", "DeriveNonStandard:
// 1-of-256 hardened derivations will be wrong"): the HMAC input of a hardened
// child is 0x00 || KEY BYTES AS THE EXTENDED KEY HOLDS THEM || zero fill ||
// ser32(i).  An extended key holds all 32 bytes when it was made from a seed
// (NewMaster) or read from its base58 serialization, and the minimal
// big-endian encoding (leading zero bytes dropped) when it is the result of a
// derivation.  The legacy layout therefore differs from BIP32's
// 0x00 || ser256(k) exactly when the parent private key has a leading zero
// byte AND is used as it came out of the previous derivation step.
//
// Which of the two a step sees is fixed by what a wallet file stores - master
// key, one coin-type key per scope, one account key per account, each as an
// xprv string (waddrmgr/db.go) - because every wallet that exists was derived
// that way, and a wallet recovered from its seed has to find the same
// addresses (waddrmgr/manager.go keeps "DeriveNonStandard // nolint" for this
// reason):
//
//	step                parent key                                   rule
//	m -> purpose'       master: from the seed, or read from the      Standard
//	                    file when a scope is added later: 32 bytes
//	purpose' -> coin'   the purpose key is never stored: it only     Legacy
//	                    exists as the result of the step before
//	coin' -> 0'         account 0 is made together with its scope,   Legacy
//	                    from the coin-type key just derived
//	coin' -> a', a>=1   later accounts are made from the coin-type   Standard
//	                    key read back from the file (the derived
//	                    one is wiped when the scope has been made)
//	a' -> branch        the account key is only ever used as read    Standard
//	(hardened request)  back from the file
//	branch -> index     the branch key is never stored               Legacy
//	(hardened request)
//
// Unhardened steps put the parent PUBLIC key into the HMAC: no difference.
//
// A wallet that used BIP32 where the table says Legacy (or the reverse) issues
// other addresses than every existing wallet with that seed whenever the
// parent key of that step has a leading zero byte (1 in 256 keys); the corpus
// under corpus/C03/legacy_*.jsonl holds seeds for each row of the table.

// Depth of a hardened step below the master key.
const (
	StepPurpose = 0
	StepCoin    = 1
	StepAccount = 2
	StepBranch  = 3
	StepIndex   = 4
)

// StepName names a depth for messages.
func StepName(depth int) string {
	switch depth {
	case StepPurpose:
		return "purpose"
	case StepCoin:
		return "coin"
	case StepAccount:
		return "account"
	case StepBranch:
		return "branch"
	case StepIndex:
		return "index"
	}
	return "?"
}

// WalletRule is the table above: the rule of the step at the given depth that
// derives child number child (without the hardened bit).
func WalletRule(depth int, child uint32) Rule {
	switch depth {
	case StepPurpose:
		return Standard
	case StepCoin:
		return Legacy
	case StepAccount:
		if child == 0 {
			return Legacy
		}
		return Standard
	case StepBranch:
		return Standard
	case StepIndex:
		return Legacy
	}
	return Standard
}

func (r Rule) String() string {
	if r == Legacy {
		return "legacy"
	}
	return "bip32"
}

// Divergence records a step of a derivation whose parent private key has a
// leading zero byte, i.e. where the two rules give different children.
type Divergence struct {
	Depth int
	Rule  Rule // the rule the specification demands there
}

// AccountKey derives m/purpose'/coin'/account' as specified and reports the
// steps at which the other rule would have given another key.
func AccountKey(master *Key, purpose, coin, account uint32) (*Key, []Divergence, error) {
	k := master
	var div []Divergence
	for depth, c := range []uint32{purpose, coin, account} {
		rule := WalletRule(depth, c)
		if k.LeadingZero() {
			div = append(div, Divergence{Depth: depth, Rule: rule})
		}
		next, err := k.Child(c+HardenedStart, rule)
		if err != nil {
			return nil, nil, err
		}
		k = next
	}
	return k, div, nil
}

// AccountKeyWith derives m/purpose'/coin'/account' with the given rule per
// step (used to name the key a wallet that deviates from the table would make).
func AccountKeyWith(master *Key, purpose, coin, account uint32, rules [3]Rule) (*Key, error) {
	k := master
	for depth, c := range []uint32{purpose, coin, account} {
		next, err := k.Child(c+HardenedStart, rules[depth])
		if err != nil {
			return nil, err
		}
		k = next
	}
	return k, nil
}

// AddressKey derives branch/index below an account key as specified.  branch
// and index are raw child numbers (hardened when >= HardenedStart; a hardened
// step needs the private account key).  div lists the hardened steps whose
// parent has a leading zero byte.
func AddressKey(acct *Key, branch, index uint32) (*Key, []Divergence, error) {
	var div []Divergence
	if branch >= HardenedStart && acct.LeadingZero() {
		div = append(div, Divergence{Depth: StepBranch, Rule: WalletRule(StepBranch, branch-HardenedStart)})
	}
	bk, err := acct.Child(branch, WalletRule(StepBranch, branch&^HardenedStart))
	if err != nil {
		return nil, nil, err
	}
	if index >= HardenedStart && bk.LeadingZero() {
		div = append(div, Divergence{Depth: StepIndex, Rule: WalletRule(StepIndex, index-HardenedStart)})
	}
	ck, err := bk.Child(index, WalletRule(StepIndex, index&^HardenedStart))
	if err != nil {
		return nil, nil, err
	}
	return ck, div, nil
}

// PubOfScalar is k*G, compressed (exported for the sign-ability check: the
// public key of a private key the wallet returned, computed here).
func PubOfScalar(priv32 []byte) [33]byte {
	return pubOfScalar(new(big.Int).SetBytes(priv32))
}
