// Package walletenv creates real wallets quickly (fast scrypt parameters)
// over a walletdb.DB chosen by the caller, attached to a simulated chain.
package walletenv

import (
	"os"
	"path/filepath"
	"sync"
	"time"

	"github.com/btcsuite/btcd/btcutil/hdkeychain"
	"github.com/btcsuite/btcd/chaincfg"
	"github.com/btcsuite/btcwallet/snacl"
	"github.com/btcsuite/btcwallet/waddrmgr"
	"github.com/btcsuite/btcwallet/wallet"
	"github.com/btcsuite/btcwallet/walletdb"
	_ "github.com/btcsuite/btcwallet/walletdb/bdb" // driver
)

// Passphrases used by every harness wallet.
var (
	PubPass  = []byte("public-pass")
	PrivPass = []byte("private-pass")
)

var fastOnce sync.Once

// FastScrypt makes every new secret key use tiny scrypt parameters.
func FastScrypt() {
	fastOnce.Do(func() {
		waddrmgr.SetSecretKeyGen(func(pass *[]byte, _ *waddrmgr.ScryptOptions) (*snacl.SecretKey, error) {
			return snacl.NewSecretKey(pass, 16, 8, 1)
		})
	})
}

// Env is a wallet over a bbolt file in a private temp directory.
type Env struct {
	Dir    string
	Path   string
	DB     walletdb.DB
	W      *wallet.Wallet
	Params *chaincfg.Params
	Seed   []byte
}

// OpenDB creates or opens the bbolt file.
func OpenDB(path string, create bool) (walletdb.DB, error) {
	if create {
		return walletdb.Create("bdb", path, true, time.Minute, false)
	}
	return walletdb.Open("bdb", path, true, time.Minute, false)
}

// New creates a wallet from seed on regtest parameters. wrap (optional) may
// wrap the database (proxy); recoveryWindow 0 disables recovery.
func New(seed []byte, birthday time.Time, recoveryWindow uint32,
	wrap func(walletdb.DB) walletdb.DB) (*Env, error) {

	FastScrypt()
	dir, err := os.MkdirTemp("", "vh-wallet-")
	if err != nil {
		return nil, err
	}
	e := &Env{Dir: dir, Path: filepath.Join(dir, "wallet.db"), Params: &chaincfg.RegressionNetParams, Seed: seed}
	db, err := OpenDB(e.Path, true)
	if err != nil {
		os.RemoveAll(dir)
		return nil, err
	}
	if wrap != nil {
		db = wrap(db)
	}
	e.DB = db
	root, err := hdkeychain.NewMaster(seed, e.Params)
	if err != nil {
		e.Close()
		return nil, err
	}
	if err := wallet.Create(db, PubPass, PrivPass, root, e.Params, birthday); err != nil {
		e.Close()
		return nil, err
	}
	w, err := wallet.OpenWithRetry(db, PubPass, nil, e.Params, recoveryWindow, 10*time.Millisecond)
	if err != nil {
		e.Close()
		return nil, err
	}
	e.W = w
	w.Start()
	return e, nil
}

// Reopen stops the wallet, closes and reopens the database file and wallet.
func (e *Env) Reopen(recoveryWindow uint32, wrap func(walletdb.DB) walletdb.DB) error {
	if e.W != nil {
		e.W.Stop()
		e.W.WaitForShutdown()
	}
	if err := e.DB.Close(); err != nil {
		return err
	}
	db, err := OpenDB(e.Path, false)
	if err != nil {
		return err
	}
	if wrap != nil {
		db = wrap(db)
	}
	e.DB = db
	w, err := wallet.OpenWithRetry(db, PubPass, nil, e.Params, recoveryWindow, 10*time.Millisecond)
	if err != nil {
		return err
	}
	e.W = w
	w.Start()
	return nil
}

// Close stops the wallet and removes all files.
func (e *Env) Close() {
	if e.W != nil {
		e.W.Stop()
		e.W.WaitForShutdown()
	}
	if e.DB != nil {
		e.DB.Close()
	}
	os.RemoveAll(e.Dir)
}
