// Package gen holds the single PRNG every generator of the harness draws from,
// so that a run is fully determined by VERIF_SEED.
package gen

import (
	"math/rand"
	"os"
	"strconv"
)

// Seed returns VERIF_SEED (default 1).
func Seed() int64 {
	if s := os.Getenv("VERIF_SEED"); s != "" {
		if v, err := strconv.ParseInt(s, 10, 64); err == nil {
			return v
		}
	}
	return 1
}

// R is a thin wrapper around math/rand with helpers used by all generators.
type R struct{ *rand.Rand }

// New returns a generator for (seed, stream); streams are independent.
func New(seed int64, stream int64) *R {
	return &R{rand.New(rand.NewSource(seed*1000003 + stream*7919 + 17))}
}

// Range returns a value in [lo, hi].
func (r *R) Range(lo, hi int) int {
	if hi <= lo {
		return lo
	}
	return lo + r.Intn(hi-lo+1)
}

// Chance returns true with probability num/den.
func (r *R) Chance(num, den int) bool { return r.Intn(den) < num }

// Pick returns a random index weighted by w.
func (r *R) Pick(w ...int) int {
	t := 0
	for _, x := range w {
		t += x
	}
	n := r.Intn(t)
	for i, x := range w {
		if n < x {
			return i
		}
		n -= x
	}
	return len(w) - 1
}

// Bytes returns n random bytes.
func (r *R) Bytes(n int) []byte {
	b := make([]byte, n)
	r.Read(b)
	return b
}
