// Package simchain is a programmable chain.Interface: a best chain that can
// be extended and reorganised, real block filtering (chain.BlockFilterer),
// scripted answers for SendRawTransaction / NotifyReceived, and a
// notification channel for wallets attached with SynchronizeRPC.
package simchain

import (
	"errors"
	"fmt"
	"sync"
	"time"

	"github.com/btcsuite/btcd/btcjson"
	"github.com/btcsuite/btcd/btcutil"
	"github.com/btcsuite/btcd/chaincfg"
	"github.com/btcsuite/btcd/chaincfg/chainhash"
	"github.com/btcsuite/btcd/txscript"
	"github.com/btcsuite/btcd/wire"
	"github.com/btcsuite/btcwallet/chain"
	"github.com/btcsuite/btcwallet/waddrmgr"
	"github.com/btcsuite/btcwallet/wtxmgr"
)

// Block is one block of the simulated chain.
type Block struct {
	Height int32
	Hash   chainhash.Hash
	Time   time.Time
	Msg    *wire.MsgBlock
}

// Meta returns the wtxmgr.BlockMeta of the block.
func (b *Block) Meta() wtxmgr.BlockMeta {
	return wtxmgr.BlockMeta{Block: wtxmgr.Block{Hash: b.Hash, Height: b.Height}, Time: b.Time}
}

// SendAnswer scripts what SendRawTransaction returns.
type SendAnswer int

// Answers.
const (
	Accept SendAnswer = iota
	AlreadyInMempool
	AlreadyKnown
	AlreadyConfirmed
	Reject
)

// ErrRejected is the error used for the Reject answer.
var ErrRejected = errors.New("simchain: transaction rejected (insufficient fee)")

// ErrNotify is the error used when NotifyReceived is scripted to fail.
var ErrNotify = errors.New("simchain: notifyreceived failed")

// Chain implements chain.Interface.
type Chain struct {
	mu     sync.Mutex
	Params *chaincfg.Params
	blocks []*Block // index = height
	byHash map[chainhash.Hash]*Block
	nonce  uint32

	ntfns chan interface{}

	// scripted behaviour
	NextSend      []SendAnswer // consumed front first; empty = Accept
	NotifyFail    int          // number of upcoming NotifyReceived calls that fail
	Sent          []*wire.MsgTx
	SentAnswers   []SendAnswer
	Watched       []btcutil.Address
	Mempool       map[chainhash.Hash]*wire.MsgTx
	RescanCalls   int
	EmitOnRescan  bool // deliver relevant transactions during Rescan (as btcd does)
	startTime     time.Time
	blockInterval time.Duration
}

var _ chain.Interface = (*Chain)(nil)

// New returns a chain holding only a genesis block.
func New(params *chaincfg.Params) *Chain {
	c := &Chain{Params: params, byHash: map[chainhash.Hash]*Block{}, ntfns: make(chan interface{}, 100000),
		Mempool: map[chainhash.Hash]*wire.MsgTx{}, startTime: time.Unix(1600000000, 0), blockInterval: 10 * time.Minute,
		EmitOnRescan: true}
	g := &Block{Height: 0, Hash: *params.GenesisHash, Time: c.startTime, Msg: params.GenesisBlock}
	c.blocks = []*Block{g}
	c.byHash[g.Hash] = g
	return c
}

// Tip returns the best block.
func (c *Chain) Tip() *Block {
	c.mu.Lock()
	defer c.mu.Unlock()
	return c.blocks[len(c.blocks)-1]
}

// At returns the block at a height (nil if above the tip).
func (c *Chain) At(h int32) *Block {
	c.mu.Lock()
	defer c.mu.Unlock()
	if h < 0 || int(h) >= len(c.blocks) {
		return nil
	}
	return c.blocks[h]
}

// Extend appends a block with the given transactions (a coinbase is added in
// front when coinbase is non-nil) and optional explicit timestamp.
func (c *Chain) Extend(txs []*wire.MsgTx, ts *time.Time) *Block {
	c.mu.Lock()
	defer c.mu.Unlock()
	prev := c.blocks[len(c.blocks)-1]
	t := prev.Time.Add(c.blockInterval)
	if ts != nil {
		t = *ts
	}
	c.nonce++
	hdr := wire.BlockHeader{Version: 1, PrevBlock: prev.Hash, Timestamp: t, Nonce: c.nonce, Bits: 0x207fffff}
	msg := wire.NewMsgBlock(&hdr)
	for _, tx := range txs {
		_ = msg.AddTransaction(tx)
		delete(c.Mempool, tx.TxHash())
	}
	b := &Block{Height: prev.Height + 1, Hash: hdr.BlockHash(), Time: t, Msg: msg}
	c.blocks = append(c.blocks, b)
	c.byHash[b.Hash] = b
	return b
}

// Disconnect removes the tip and returns it.
func (c *Chain) Disconnect() *Block {
	c.mu.Lock()
	defer c.mu.Unlock()
	if len(c.blocks) <= 1 {
		return nil
	}
	b := c.blocks[len(c.blocks)-1]
	c.blocks = c.blocks[:len(c.blocks)-1]
	// the block stays retrievable by hash (stale), like a real node
	return b
}

// ByHash returns a block by hash, on the best chain or stale.
func (c *Chain) ByHash(h *chainhash.Hash) (*Block, bool) {
	c.mu.Lock()
	defer c.mu.Unlock()
	b, ok := c.byHash[*h]
	return b, ok
}

// Reorg atomically replaces the top `depth` blocks by `n` new empty blocks
// (what a node does when a heavier branch arrives: observers see the old or
// the new best chain, never a state in between).  It returns the removed
// blocks (tip first) and the new ones (lowest first).
func (c *Chain) Reorg(depth, n int) (removed, added []*Block) {
	return c.ReorgTxs(depth, make([][]*wire.MsgTx, n))
}

// ReorgTxs is Reorg with the transactions of each new block given.
func (c *Chain) ReorgTxs(depth int, txs [][]*wire.MsgTx) (removed, added []*Block) {
	n := len(txs)
	c.mu.Lock()
	defer c.mu.Unlock()
	for i := 0; i < depth && len(c.blocks) > 1; i++ {
		removed = append(removed, c.blocks[len(c.blocks)-1])
		c.blocks = c.blocks[:len(c.blocks)-1]
	}
	for i := 0; i < n; i++ {
		prev := c.blocks[len(c.blocks)-1]
		t := prev.Time.Add(c.blockInterval)
		c.nonce++
		hdr := wire.BlockHeader{Version: 1, PrevBlock: prev.Hash, Timestamp: t, Nonce: c.nonce, Bits: 0x207fffff}
		msg := wire.NewMsgBlock(&hdr)
		for _, tx := range txs[i] {
			_ = msg.AddTransaction(tx)
			delete(c.Mempool, tx.TxHash())
		}
		b := &Block{Height: prev.Height + 1, Hash: hdr.BlockHash(), Time: t, Msg: msg}
		c.blocks = append(c.blocks, b)
		c.byHash[b.Hash] = b
		added = append(added, b)
	}
	return removed, added
}

// Notify queues a notification for an attached wallet.
func (c *Chain) Notify(n interface{}) { c.ntfns <- n }

// ---- chain.Interface ----

// Start is a no-op.
func (c *Chain) Start() error { return nil }

// Stop is a no-op.
func (c *Chain) Stop() {}

// WaitForShutdown is a no-op.
func (c *Chain) WaitForShutdown() {}

// GetBestBlock returns the tip.
func (c *Chain) GetBestBlock() (*chainhash.Hash, int32, error) {
	b := c.Tip()
	h := b.Hash
	return &h, b.Height, nil
}

// GetBlock returns a block by hash (best chain or stale).
func (c *Chain) GetBlock(h *chainhash.Hash) (*wire.MsgBlock, error) {
	c.mu.Lock()
	defer c.mu.Unlock()
	b, ok := c.byHash[*h]
	if !ok {
		return nil, fmt.Errorf("simchain: block %v not found", h)
	}
	return b.Msg, nil
}

// GetBlockHash returns the best-chain hash at a height.
func (c *Chain) GetBlockHash(height int64) (*chainhash.Hash, error) {
	b := c.At(int32(height))
	if b == nil {
		return nil, fmt.Errorf("simchain: block height %d out of range", height)
	}
	h := b.Hash
	return &h, nil
}

// GetBlockHeader returns a header by hash.
func (c *Chain) GetBlockHeader(h *chainhash.Hash) (*wire.BlockHeader, error) {
	c.mu.Lock()
	defer c.mu.Unlock()
	b, ok := c.byHash[*h]
	if !ok {
		return nil, fmt.Errorf("simchain: header %v not found", h)
	}
	hdr := b.Msg.Header
	hdr.Timestamp = b.Time
	return &hdr, nil
}

// IsCurrent is always true.
func (c *Chain) IsCurrent() bool { return true }

// FilterBlocks filters with the real chain.BlockFilterer, as the bitcoind
// client does.
func (c *Chain) FilterBlocks(req *chain.FilterBlocksRequest) (*chain.FilterBlocksResponse, error) {
	bf := chain.NewBlockFilterer(c.Params, req)
	for i, block := range req.Blocks {
		raw, err := c.GetBlock(&block.Hash)
		if err != nil {
			return nil, err
		}
		if !bf.FilterBlock(raw) {
			continue
		}
		return &chain.FilterBlocksResponse{
			BatchIndex:         uint32(i),
			BlockMeta:          block,
			FoundExternalAddrs: bf.FoundExternal,
			FoundInternalAddrs: bf.FoundInternal,
			FoundOutPoints:     bf.FoundOutPoints,
			RelevantTxns:       bf.RelevantTxns,
		}, nil
	}
	return nil, nil
}

// BlockStamp returns the tip as a block stamp.
func (c *Chain) BlockStamp() (*waddrmgr.BlockStamp, error) {
	b := c.Tip()
	return &waddrmgr.BlockStamp{Height: b.Height, Hash: b.Hash, Timestamp: b.Time}, nil
}

// SendRawTransaction answers as scripted.
func (c *Chain) SendRawTransaction(tx *wire.MsgTx, _ bool) (*chainhash.Hash, error) {
	c.mu.Lock()
	defer c.mu.Unlock()
	ans := Accept
	if len(c.NextSend) > 0 {
		ans = c.NextSend[0]
		c.NextSend = c.NextSend[1:]
	}
	c.Sent = append(c.Sent, tx)
	c.SentAnswers = append(c.SentAnswers, ans)
	h := tx.TxHash()
	switch ans {
	case Accept:
		c.Mempool[h] = tx
		return &h, nil
	case AlreadyInMempool:
		return nil, chain.ErrTxAlreadyInMempool
	case AlreadyKnown:
		return nil, chain.ErrTxAlreadyKnown
	case AlreadyConfirmed:
		return nil, chain.ErrTxAlreadyConfirmed
	default:
		return nil, ErrRejected
	}
}

// Rescan emulates a btcd rescan from the block after start up to the tip:
// relevant transactions are delivered block by block, then RescanFinished.
func (c *Chain) Rescan(start *chainhash.Hash, addrs []btcutil.Address,
	outpoints map[wire.OutPoint]btcutil.Address) error {

	c.mu.Lock()
	c.RescanCalls++
	sb, ok := c.byHash[*start]
	blocks := append([]*Block{}, c.blocks...)
	emit := c.EmitOnRescan
	c.mu.Unlock()
	from := int32(0)
	if ok {
		from = sb.Height + 1
	}
	watch := map[string]bool{}
	for _, a := range addrs {
		watch[a.EncodeAddress()] = true
	}
	ops := map[wire.OutPoint]bool{}
	for op := range outpoints {
		ops[op] = true
	}
	if emit {
		for h := from; int(h) < len(blocks); h++ {
			b := blocks[h]
			meta := b.Meta()
			for _, tx := range b.Msg.Transactions {
				if c.relevant(tx, watch, ops) {
					rec, err := wtxmgr.NewTxRecordFromMsgTx(tx, b.Time)
					if err != nil {
						return err
					}
					c.ntfns <- chain.RelevantTx{TxRecord: rec, Block: &meta}
				}
			}
		}
	}
	tip := blocks[len(blocks)-1]
	th := tip.Hash
	c.ntfns <- &chain.RescanFinished{Hash: &th, Height: tip.Height, Time: tip.Time}
	return nil
}

func (c *Chain) relevant(tx *wire.MsgTx, watch map[string]bool, ops map[wire.OutPoint]bool) bool {
	rel := false
	for _, in := range tx.TxIn {
		if ops[in.PreviousOutPoint] {
			rel = true
		}
	}
	for i, out := range tx.TxOut {
		_, as, _, err := txscript.ExtractPkScriptAddrs(out.PkScript, c.Params)
		if err != nil {
			continue
		}
		for _, a := range as {
			if watch[a.EncodeAddress()] {
				rel = true
				ops[wire.OutPoint{Hash: tx.TxHash(), Index: uint32(i)}] = true
			}
		}
	}
	return rel
}

// NotifyReceived records the addresses or fails as scripted.
func (c *Chain) NotifyReceived(addrs []btcutil.Address) error {
	c.mu.Lock()
	defer c.mu.Unlock()
	if c.NotifyFail > 0 {
		c.NotifyFail--
		return ErrNotify
	}
	c.Watched = append(c.Watched, addrs...)
	return nil
}

// NotifyBlocks is a no-op.
func (c *Chain) NotifyBlocks() error { return nil }

// Notifications returns the notification channel.
func (c *Chain) Notifications() <-chan interface{} { return c.ntfns }

// BackEnd names the backend.
func (c *Chain) BackEnd() string { return "simchain" }

// TestMempoolAccept is not supported (the wallet then skips the pre-check).
func (c *Chain) TestMempoolAccept([]*wire.MsgTx, float64) ([]*btcjson.TestMempoolAcceptResult, error) {
	return nil, errors.New("simchain: testmempoolaccept not supported")
}

// MapRPCErr is the identity.
func (c *Chain) MapRPCErr(err error) error { return err }
