package simchain

// Serving the simulated chain over JSON-RPC on a loopback port, so that the
// REAL block-filtering loops of btcwallet's backends can be run offline:
//
//	chain.BitcoindClient.FilterBlocks (chain/bitcoind_client.go)
//	chain.RPCClient.FilterBlocks      (chain/btcd.go, compact-filter pre-check,
//	                                   buildFilterBlocksWatchList in chain/neutrino.go)
//
// Real: the client structs, their FilterBlocks loops (BatchIndex, BlockMeta,
// the watch list, the GCS match), rpcclient in HTTP POST mode, the
// BlockFilterer.  Simulated: the node answering getblockhash, getblock,
// getcfilter (filters built with btcutil's gcs/builder over the block and the
// previous output scripts the chain knows), getblockchaininfo, getnetworkinfo.

import (
	"bytes"
	"encoding/hex"
	"encoding/json"
	"fmt"
	"io"
	"net"
	"net/http"
	"sync"

	"github.com/btcsuite/btcd/btcutil/gcs/builder"
	"github.com/btcsuite/btcd/chaincfg/chainhash"
	"github.com/btcsuite/btcd/rpcclient"
	"github.com/btcsuite/btcd/wire"
	"github.com/btcsuite/btcwallet/chain"
)

// RPCServer answers the JSON-RPC calls listed above from a Chain.
type RPCServer struct {
	c   *Chain
	ln  net.Listener
	srv *http.Server

	// Hook, when set, runs before a request is answered, with the method and
	// how often it has been called (this call included): a harness can change
	// the chain at a chosen point of a client's procedure.
	Hook func(method string, n int)

	// Fail, when set and returning true, makes the request fail with an
	// internal error instead of being answered (a transient node failure).
	Fail func(method string, n int) bool

	mu      sync.Mutex
	Calls   map[string]int // per method
	Unknown []string       // methods asked for that the server does not know
	filters map[chainhash.Hash]string
}

type rpcReq struct {
	Method string            `json:"method"`
	Params []json.RawMessage `json:"params"`
	ID     json.RawMessage   `json:"id"`
}

type rpcErr struct {
	Code    int    `json:"code"`
	Message string `json:"message"`
}

type rpcResp struct {
	Result interface{}     `json:"result"`
	Error  *rpcErr         `json:"error"`
	ID     json.RawMessage `json:"id"`
}

// ServeRPC starts a server on 127.0.0.1 (any free port).
func (c *Chain) ServeRPC() (*RPCServer, error) {
	ln, err := net.Listen("tcp", "127.0.0.1:0")
	if err != nil {
		return nil, err
	}
	s := &RPCServer{c: c, ln: ln, Calls: map[string]int{}, filters: map[chainhash.Hash]string{}}
	s.srv = &http.Server{Handler: http.HandlerFunc(s.handle)}
	go s.srv.Serve(ln)
	return s, nil
}

// Host is the host:port the server listens on.
func (s *RPCServer) Host() string { return s.ln.Addr().String() }

// Close stops the server.
func (s *RPCServer) Close() { s.srv.Close() }

// CallCount returns how often a method was called.
func (s *RPCServer) CallCount(method string) int {
	s.mu.Lock()
	defer s.mu.Unlock()
	return s.Calls[method]
}

func (s *RPCServer) handle(w http.ResponseWriter, r *http.Request) {
	body, err := io.ReadAll(r.Body)
	if err != nil {
		http.Error(w, err.Error(), http.StatusBadRequest)
		return
	}
	if t := bytes.TrimSpace(body); len(t) > 0 && t[0] == '[' {
		// a batch (rpcclient's batch mode): answer every member
		var reqs []rpcReq
		if err := json.Unmarshal(t, &reqs); err != nil {
			http.Error(w, err.Error(), http.StatusBadRequest)
			return
		}
		resps := make([]rpcResp, 0, len(reqs))
		for i := range reqs {
			s.mu.Lock()
			s.Calls[reqs[i].Method]++
			s.mu.Unlock()
			res, e := s.answer(&reqs[i])
			resps = append(resps, rpcResp{Result: res, Error: e, ID: reqs[i].ID})
		}
		out, _ := json.Marshal(resps)
		w.Header().Set("Content-Type", "application/json")
		w.Write(out)
		return
	}
	var req rpcReq
	if err := json.Unmarshal(body, &req); err != nil {
		http.Error(w, err.Error(), http.StatusBadRequest)
		return
	}
	s.mu.Lock()
	s.Calls[req.Method]++
	n, hook := s.Calls[req.Method], s.Hook
	s.mu.Unlock()
	if hook != nil {
		hook(req.Method, n)
	}
	s.mu.Lock()
	fail := s.Fail
	s.mu.Unlock()
	if fail != nil && fail(req.Method, n) {
		out, _ := json.Marshal(rpcResp{Error: &rpcErr{-1, "simulated transient failure"}, ID: req.ID})
		w.Header().Set("Content-Type", "application/json")
		w.WriteHeader(http.StatusInternalServerError)
		w.Write(out)
		return
	}
	res, e := s.answer(&req)
	out, _ := json.Marshal(rpcResp{Result: res, Error: e, ID: req.ID})
	w.Header().Set("Content-Type", "application/json")
	if e != nil {
		w.WriteHeader(http.StatusInternalServerError)
	}
	w.Write(out)
}

func (s *RPCServer) hashParam(req *rpcReq) (*chainhash.Hash, *rpcErr) {
	if len(req.Params) < 1 {
		return nil, &rpcErr{-8, "missing block hash"}
	}
	var str string
	if err := json.Unmarshal(req.Params[0], &str); err != nil {
		return nil, &rpcErr{-8, err.Error()}
	}
	h, err := chainhash.NewHashFromStr(str)
	if err != nil {
		return nil, &rpcErr{-8, err.Error()}
	}
	return h, nil
}

func (s *RPCServer) answer(req *rpcReq) (interface{}, *rpcErr) {
	switch req.Method {
	case "getblockhash":
		var h int64
		if len(req.Params) < 1 || json.Unmarshal(req.Params[0], &h) != nil {
			return nil, &rpcErr{-8, "missing height"}
		}
		hash, err := s.c.GetBlockHash(h)
		if err != nil {
			return nil, &rpcErr{-8, "Block height out of range"}
		}
		return hash.String(), nil

	case "getblockchaininfo":
		tip := s.c.Tip()
		return map[string]interface{}{
			"chain": "regtest", "blocks": tip.Height, "headers": tip.Height,
			"bestblockhash": tip.Hash.String(), "pruned": false,
		}, nil

	case "getbestblockhash":
		return s.c.Tip().Hash.String(), nil

	case "getrawmempool":
		return []string{}, nil

	case "getblockheader":
		h, e := s.hashParam(req)
		if e != nil {
			return nil, e
		}
		verbose := true
		if len(req.Params) >= 2 {
			_ = json.Unmarshal(req.Params[1], &verbose)
		}
		blk, ok := s.c.ByHash(h)
		if !ok {
			return nil, &rpcErr{-5, "Block not found"}
		}
		hdr := blk.Msg.Header
		hdr.Timestamp = blk.Time
		if !verbose {
			var buf bytes.Buffer
			if err := hdr.Serialize(&buf); err != nil {
				return nil, &rpcErr{-1, err.Error()}
			}
			return hex.EncodeToString(buf.Bytes()), nil
		}
		conf := int64(-1)
		if at := s.c.At(blk.Height); at != nil && at.Hash == blk.Hash {
			conf = int64(s.c.Tip().Height-blk.Height) + 1
		}
		return map[string]interface{}{
			"hash": blk.Hash.String(), "confirmations": conf, "height": blk.Height,
			"version": hdr.Version, "versionHex": fmt.Sprintf("%08x", hdr.Version),
			"merkleroot": hdr.MerkleRoot.String(), "time": blk.Time.Unix(),
			"nonce": uint64(hdr.Nonce), "bits": fmt.Sprintf("%08x", hdr.Bits), "difficulty": 1.0,
			"previousblockhash": hdr.PrevBlock.String(),
		}, nil

	case "getnetworkinfo":
		return map[string]interface{}{"version": 250000, "subversion": "/Satoshi:25.0.0/"}, nil

	case "getblock":
		h, e := s.hashParam(req)
		if e != nil {
			return nil, e
		}
		msg, err := s.c.GetBlock(h)
		if err != nil {
			return nil, &rpcErr{-5, "Block not found"}
		}
		var buf bytes.Buffer
		if err := msg.Serialize(&buf); err != nil {
			return nil, &rpcErr{-1, err.Error()}
		}
		return hex.EncodeToString(buf.Bytes()), nil

	case "getcfilter":
		h, e := s.hashParam(req)
		if e != nil {
			return nil, e
		}
		s.mu.Lock()
		cached, ok := s.filters[*h]
		s.mu.Unlock()
		if ok {
			return cached, nil
		}
		msg, err := s.c.GetBlock(h)
		if err != nil {
			return nil, &rpcErr{-5, "Block not found"}
		}
		f, err := builder.BuildBasicFilter(msg, s.c.prevScripts(msg))
		if err != nil {
			return nil, &rpcErr{-1, err.Error()}
		}
		data, err := f.NBytes()
		if err != nil {
			return nil, &rpcErr{-1, err.Error()}
		}
		enc := hex.EncodeToString(data)
		s.mu.Lock()
		s.filters[*h] = enc
		s.mu.Unlock()
		return enc, nil
	}
	s.mu.Lock()
	s.Unknown = append(s.Unknown, req.Method)
	s.mu.Unlock()
	return nil, &rpcErr{-32601, "Method not found"}
}

// prevScripts returns the scripts of the outputs spent by the block's
// transactions, as far as the spent transaction is in a block of this chain
// (what a node's filter index commits to besides the block's own outputs).
func (c *Chain) prevScripts(msg *wire.MsgBlock) [][]byte {
	c.mu.Lock()
	defer c.mu.Unlock()
	want := map[chainhash.Hash]bool{}
	for _, tx := range msg.Transactions {
		for _, in := range tx.TxIn {
			want[in.PreviousOutPoint.Hash] = true
		}
	}
	found := map[chainhash.Hash]*wire.MsgTx{}
	for _, b := range c.byHash {
		for _, tx := range b.Msg.Transactions {
			h := tx.TxHash()
			if want[h] {
				found[h] = tx
			}
		}
	}
	var out [][]byte
	for _, tx := range msg.Transactions {
		for _, in := range tx.TxIn {
			p, ok := found[in.PreviousOutPoint.Hash]
			if !ok || int(in.PreviousOutPoint.Index) >= len(p.TxOut) {
				continue
			}
			out = append(out, p.TxOut[in.PreviousOutPoint.Index].PkScript)
		}
	}
	return out
}

// RealLoop is the chain with FilterBlocks replaced by a real backend client's
// FilterBlocks talking to an RPCServer of the same chain.  Everything else
// (headers, hashes, best block, rescan, notifications) stays the simulated
// chain's.
type RealLoop struct {
	*Chain
	Kind   string // "bitcoind" | "btcd"
	Server *RPCServer
	filter func(*chain.FilterBlocksRequest) (*chain.FilterBlocksResponse, error)
	stop   func()
}

var _ chain.Interface = (*RealLoop)(nil)

// WithRealFilterBlocks builds the real client of the named backend
// ("bitcoind": chain.NewBitcoindConn + NewBitcoindClient, never started;
// "btcd": chain.NewRPCClientWithConfig in HTTP POST mode, never started).
func (c *Chain) WithRealFilterBlocks(kind string) (*RealLoop, error) {
	srv, err := c.ServeRPC()
	if err != nil {
		return nil, err
	}
	r := &RealLoop{Chain: c, Kind: kind, Server: srv}
	switch kind {
	case "bitcoind":
		conn, err := chain.NewBitcoindConn(&chain.BitcoindConfig{
			ChainParams:   c.Params,
			Host:          srv.Host(),
			User:          "u",
			Pass:          "p",
			PollingConfig: &chain.PollingConfig{},
		})
		if err != nil {
			srv.Close()
			return nil, err
		}
		cl := conn.NewBitcoindClient()
		r.filter = cl.FilterBlocks
		r.stop = func() {}
	case "btcd":
		cl, err := chain.NewRPCClientWithConfig(&chain.RPCClientConfig{
			Conn: &rpcclient.ConnConfig{
				Host: srv.Host(), User: "u", Pass: "p",
				DisableTLS: true, HTTPPostMode: true,
			},
			Chain: c.Params,
		})
		if err != nil {
			srv.Close()
			return nil, err
		}
		r.filter = cl.FilterBlocks
		r.stop = func() { cl.Client.Shutdown() }
	default:
		srv.Close()
		return nil, fmt.Errorf("simchain: unknown backend %q", kind)
	}
	return r, nil
}

// FilterBlocks runs the real client's loop.
func (r *RealLoop) FilterBlocks(req *chain.FilterBlocksRequest) (*chain.FilterBlocksResponse, error) {
	return r.filter(req)
}

// Close stops the client and the server.
func (r *RealLoop) Close() {
	r.stop()
	r.Server.Close()
}
