// Package abortdb is a thin walletdb.DB around a real backend (bdb) that lets a
// harness decide the fate of every read/write transaction opened through
// DB.Update / walletdb.Update while the code under test is unchanged:
//
//   - FailNextCommit arms one injected commit failure: the next Commit of a
//     read/write transaction rolls the real transaction back and returns
//     ErrCommitFailed (the behaviour of a backend whose commit fails: nothing
//     is persisted, and bbolt does not run its OnCommit handlers);
//   - the closure handed to Update may return any error (ErrCallerAbort, or
//     walletdb.ErrDryRunRollBack as wallet.txToOutputs does for a dry run):
//     exactly as the bdb backend does, Update then rolls back and returns the
//     closure's error.
//
// Buckets are NOT wrapped: bucket.Tx() is the backend's own transaction, so the
// handlers waddrmgr registers through ns.Tx().OnCommit reach bbolt directly and
// run if and only if the real commit happened.  (harness/internal/proxydb is a
// different, richer proxy owned by another check; this package does not depend
// on it.)
package abortdb

import (
	"errors"
	"io"

	"github.com/btcsuite/btcwallet/walletdb"
)

// ErrCommitFailed is returned by Commit/Update for an injected commit failure.
var ErrCommitFailed = errors.New("abortdb: injected commit failure (transaction rolled back)")

// ErrCallerAbort is a sentinel a closure can return to abort its transaction.
var ErrCallerAbort = errors.New("abortdb: caller aborts the transaction")

// DB is the wrapper.  Not safe for concurrent arming; the counters are only
// meaningful for single-goroutine harnesses.
type DB struct {
	inner    walletdb.DB
	failNext bool

	// Commits counts real, successful commits of read/write transactions;
	// Rollbacks counts read/write transactions that ended without one.
	Commits   int
	Rollbacks int
}

var _ walletdb.DB = (*DB)(nil)

// New wraps inner.
func New(inner walletdb.DB) *DB { return &DB{inner: inner} }

// Inner returns the wrapped database.
func (d *DB) Inner() walletdb.DB { return d.inner }

// FailNextCommit makes the next Commit of a read/write transaction fail.
func (d *DB) FailNextCommit() { d.failNext = true }

// BeginReadTx is part of walletdb.DB.
func (d *DB) BeginReadTx() (walletdb.ReadTx, error) { return d.inner.BeginReadTx() }

// BeginReadWriteTx is part of walletdb.DB.
func (d *DB) BeginReadWriteTx() (walletdb.ReadWriteTx, error) {
	tx, err := d.inner.BeginReadWriteTx()
	if err != nil {
		return nil, err
	}
	return &rwTx{ReadWriteTx: tx, db: d}, nil
}

// Copy is part of walletdb.DB.
func (d *DB) Copy(w io.Writer) error { return d.inner.Copy(w) }

// Close is part of walletdb.DB.
func (d *DB) Close() error { return d.inner.Close() }

// PrintStats is part of walletdb.DB.
func (d *DB) PrintStats() string { return d.inner.PrintStats() }

// View is part of walletdb.DB.
func (d *DB) View(f func(tx walletdb.ReadTx) error, reset func()) error {
	return d.inner.View(f, reset)
}

// Update is part of walletdb.DB; the control flow is the bdb backend's
// (walletdb/bdb/db.go Update): reset, begin, f, rollback on error, else commit.
func (d *DB) Update(f func(tx walletdb.ReadWriteTx) error, reset func()) error {
	reset()
	tx, err := d.BeginReadWriteTx()
	if err != nil {
		return err
	}
	done := false
	defer func() {
		if !done {
			_ = tx.Rollback()
		}
	}()
	err = f(tx)
	if err != nil {
		done = true
		_ = tx.Rollback()
		return err
	}
	done = true
	return tx.Commit()
}

type rwTx struct {
	walletdb.ReadWriteTx
	db     *DB
	closed bool
}

// Commit commits, or - when a failure is armed - rolls back and fails.
func (t *rwTx) Commit() error {
	if t.db.failNext {
		t.db.failNext = false
		t.closed = true
		t.db.Rollbacks++
		_ = t.ReadWriteTx.Rollback()
		return ErrCommitFailed
	}
	err := t.ReadWriteTx.Commit()
	t.closed = true
	if err == nil {
		t.db.Commits++
	} else {
		t.db.Rollbacks++
	}
	return err
}

// Rollback rolls the real transaction back.
func (t *rwTx) Rollback() error {
	if !t.closed {
		t.closed = true
		t.db.Rollbacks++
	}
	return t.ReadWriteTx.Rollback()
}
