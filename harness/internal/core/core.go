// Package core is the shared scaffolding of the per-property harness commands
// (harness/cmd/cNN): JSON-lines emitter, common flags, replay reader.
package core

import (
	"bufio"
	"encoding/json"
	"flag"
	"fmt"
	"os"
)

// Emitter writes one JSON object per line to stdout.
type Emitter struct{ w *bufio.Writer }

// Emit writes v as one line of JSON.
func (e *Emitter) Emit(v interface{}) {
	b, err := json.Marshal(v)
	if err != nil {
		panic(err)
	}
	e.w.Write(b)
	e.w.WriteByte('\n')
}

// Common holds the flags every command understands.
type Common struct {
	N      int
	Seed   int64
	Replay string
	Tier   string
}

// Main parses the common flags (plus extras registered by extra) and runs fn.
func Main(name string, extra func(fs *flag.FlagSet), fn func(c *Common, out *Emitter) error) {
	fs := flag.NewFlagSet(name, flag.ExitOnError)
	c := &Common{}
	fs.IntVar(&c.N, "n", 100, "number of generated cases")
	fs.Int64Var(&c.Seed, "seed", 1, "seed (all random choices derive from it)")
	fs.StringVar(&c.Replay, "replay", "", "replay file (JSON lines, each {\"in\": ...})")
	fs.StringVar(&c.Tier, "tier", "quick", "quick|thorough")
	if extra != nil {
		extra(fs)
	}
	fs.Parse(os.Args[1:])
	out := &Emitter{bufio.NewWriterSize(os.Stdout, 1<<20)}
	err := fn(c, out)
	out.w.Flush()
	if err != nil {
		fmt.Fprintln(os.Stderr, name+":", err)
		os.Exit(3)
	}
}

// ReadReplay reads JSON-lines from a file and calls each with every line.
func ReadReplay(path string, each func(raw json.RawMessage) error) error {
	f, err := os.Open(path)
	if err != nil {
		return err
	}
	defer f.Close()
	sc := bufio.NewScanner(f)
	sc.Buffer(make([]byte, 1<<20), 1<<28)
	for sc.Scan() {
		line := sc.Bytes()
		if len(line) == 0 {
			continue
		}
		cp := make([]byte, len(line))
		copy(cp, line)
		if err := each(json.RawMessage(cp)); err != nil {
			return err
		}
	}
	return sc.Err()
}
